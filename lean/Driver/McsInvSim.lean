/- Design aid (not part of the library): random simulation of the MCS model with the ghost queue, checking a
   Boolean transcription of `Mcs.Inv` after every step.  Built as the executable `mcsim`: .lake/build/bin/mcsim [seeds] -/
import CppUtil.Proofs.McsInv
import CppUtil.Gen.Mcs

open CppUtil CppUtil.Mcs

def C := Gen.mcsConsts
def P : Params := { C := C, ord := Gen.mcsOrders, publishStore := Gen.mcsPublishIsStore }

def Wc (p : Nat) (x six : Bool) (c : Nat) : Word :=
  BitVec.ofNat 64 p ||| (if x then C.kXLock else 0) ||| (if six then C.kSIXLock else 0) ||| (BitVec.ofNat 64 c * C.kSLock)

def allIdx (n : Nat) (f : Nat → Bool) : Bool := (List.range n).all f

def e2B (s : St) (q : List Grp) (j : Nat) : Bool :=
  j == 0 || (j == 1 && (match q[0]? with | some G0 => hmode s G0 == none | none => false))

def phB (s : St) (q : List Grp) (j : Nat) (a : Agent) : Ph → Bool
  | .load0 => true
  | .lockLoad => true
  | .cas => ptrOf P a.cur == a.qnode
  | .spinNext => j + 1 < q.length
  | .handoff => match q[j + 1]? with
    | some G' => linked s G' && ptrOf P a.nxt == G'.node
    | none => false

def memB (s : St) (q : List Grp) (j : Nat) (G : Grp) (a : Agent) : Bool :=
  match a.loc with
  | .sSpinLock => a.nxt == ofNode a.qnode
  | .sSpinNext => j + 1 < q.length
  | .sSpinNode => match q[j + 1]? with
    | some G' => linked s G' && a.nxt == ofNode G'.node
    | none => false
  | .held .S => hmode s G == none
  | .rel .S ph => hmode s G == none && phB s q j a ph
  | _ => true

def headB (s : St) (ℓ : Nat) (q : List Grp) (j : Nat) (a : Agent) : Bool :=
  match a.loc with
  | .xPublish _ =>
      (j != 0 || a.cur == 0) && (j == 0 || (match q[j - 1]? with | some Pg => a.cur == grpW Wc s ℓ Pg Pg.node | none => true))
  | .xLink _ => 0 < j && (match q[j - 1]? with | some Pg => ptrOf P a.cur == Pg.node | none => false)
  | .xSpin _ => true
  | .held .SIX => e2B s q j
  | .held _ => j == 0
  | .rel .SIX .load0 => e2B s q j
  | .rel _ ph => j == 0 && phB s q j a ph
  | .upg .load0 => e2B s q j
  | .upg ph => j == 0 && phB s q j a ph
  | .dng ph => j == 0 && phB s q j a ph
  | _ => true

def lockInvB (s : St) (ℓ : Nat) (q : List Grp) : Option String :=
  let nA := s.agents.length
  if !(q.map (·.node)).Nodup then some "nodup"
  else if lockW s ℓ != expLock Wc s ℓ q then some s!"lockWord {lockW s ℓ} vs {expLock Wc s ℓ q}"
  else if !(allIdx q.length fun j => match q[j]? with
      | some G => nodeW s G.node == expNode Wc s ℓ q j G | none => true) then some "nodeWord"
  else if !(q.all fun G => (hmode s G).isSome || 0 < cnt s ℓ G.node) then some "nonempty"
  else if !(allIdx q.length fun j => match q[j]? with | some G => j == 0 || (hmode s G).isSome | none => true) then some "laterHeads"
  else if !(allIdx q.length fun j => match q[j]? with
      | some G => (match G.head with
        | some h => !(hmode s G).isSome || (match s.agents[h]? with
          | some a => a.lk == ℓ && a.qnode == G.node && a.loc.headMode.isSome && headB s ℓ q j a
          | none => false)
        | none => true)
      | none => true) then some "heads"
  else if !(allIdx nA fun i => match s.agents[i]? with
      | some a => !(a.lk == ℓ && a.loc.headMode.isSome) || q.any (fun G => G.head == some i)
      | none => true) then some "headsBack"
  else if !(allIdx nA fun i => match s.agents[i]? with
      | some a => !(a.lk == ℓ && a.loc.sMem) ||
          (List.range q.length).any (fun j => match q[j]? with
            | some G => G.node == a.qnode && memB s q j G a | none => false)
      | none => true) then some "mems"
  else none

def invB (s : St) (Q : Nat → List Grp) : Option String :=
  let nA := s.agents.length
  let nL := s.locks.length
  let nT := s.tls.length
  let allG : List (Nat × Grp) := (List.range nL).flatMap fun ℓ => (Q ℓ).map fun G => (ℓ, G)
  if s.uaf != 0 then some "uaf"
  else if !(s.agents.all fun a => a.tid < nT && a.lk < nL && a.loc != .idle && a.loc.headMode != some .S) then some "wf"
  else match (List.range nL).findSome? (fun ℓ => (lockInvB s ℓ (Q ℓ)).map (fun m => s!"lock {ℓ}: {m}")) with
  | some m => some m
  | none =>
  if !(s.agents.all fun a => !a.loc.priv || nodeLive s a.qnode) then some "privLive"
  else if !(allIdx nA fun i => allIdx nA fun j => match s.agents[i]?, s.agents[j]? with
      | some a, some b => !(a.loc.priv && b.loc.priv && a.qnode == b.qnode) || i == j
      | _, _ => true) then some "privUniq"
  else if !(s.agents.all fun a => !a.loc.priv || allG.all (fun g => g.2.node != a.qnode)) then some "privQ"
  else if !(s.agents.all fun a => !a.loc.priv || s.tls.all (fun c => c != some a.qnode)) then some "privC"
  else if !(s.agents.all fun a =>
      (!(a.loc == .sLoad || a.loc == .sCas) || nodeW s a.qnode == 0) &&
      (match a.loc with | .xXchg _ => nodeW s a.qnode == Wc 0 true false 0 | _ => true)) then some "privW"
  else if !(s.tls.all fun c => match c with | some k => nodeLive s k | none => true) then some "cacheLive"
  else if !(allIdx nT fun t => allIdx nT fun t' => match s.tls[t]?, s.tls[t']? with
      | some (some k), some (some k') => k != k' || t == t'
      | _, _ => true) then some "cacheUniq"
  else if !(s.tls.all fun c => match c with | some k => allG.all (fun g => g.2.node != k) | none => true) then some "cacheQ"
  else if !(allG.all fun g => nodeLive s g.2.node) then some "grpLive"
  else if !(allG.all fun g => allG.all fun g' => g.2.node != g'.2.node || g.1 == g'.1) then some "grpLocks"
  else none

/-- exclusion check on the model's own grant notion -/
def exclB (s : St) : Bool :=
  allIdx s.agents.length fun i => allIdx s.agents.length fun j =>
    match s.agents[i]?, s.agents[j]? with
    | some a, some b =>
      i == j || a.lk != b.lk || (match a.loc.grant?, b.loc.grant? with
        | some m, some m' => !conflict m m'
        | _, _ => true)
    | _, _ => true

structure Rng where
  st : Nat
def Rng.next (r : Rng) : Rng × Nat :=
  let s := (r.st * 6364136223846793005 + 1442695040888963407) % (2 ^ 64)
  ({ st := s }, s / (2 ^ 33))

def pickAct (s : St) (r : Rng) (nthreads nlocks maxAgents : Nat) : Rng × Act :=
  let (r, k) := r.next
  let (r, x) := r.next
  let (r, y) := r.next
  let nA := s.agents.length
  -- candidates
  let stableHeld := (List.range nA).filter fun i => match s.agents[i]? with
    | some a => (match a.loc with | .held _ => true | _ => false) | none => false
  let running := (List.range nA).filter fun i => match s.agents[i]? with
    | some a => !a.loc.stable | none => false
  let c := k % 10
  if c < 2 && nA < maxAgents then
    (r, .spawn (x % nthreads) (y % nlocks) (match (x / 7) % 3 with | 0 => .S | 1 => .SIX | _ => .X))
  else if c < 4 && !stableHeld.isEmpty then
    let i := stableHeld[x % stableHeld.length]!
    match ((s.agents[i]?).map (·.loc) : Option Loc) with
    | some (Loc.held Mode.SIX) => (r, if y % 3 == 0 then .upgrade i (y % nthreads) else .release i (y % nthreads))
    | some (Loc.held Mode.X) => (r, if y % 3 == 0 then .downgrade i (y % nthreads) else .release i (y % nthreads))
    | _ => (r, .release i (y % nthreads))
  else if c == 4 && k % 50 == 4 then (r, .exit (x % nthreads))
  else if !running.isEmpty then (r, .atom running[x % running.length]!)
  else if !stableHeld.isEmpty then (r, .release stableHeld[x % stableHeld.length]! (y % nthreads))
  else (r, .spawn (x % nthreads) (y % nlocks) .X)

def simulate (seed nsteps nthreads nlocks maxAgents : Nat) : Option String := Id.run do
  let mut s := mkSt nlocks nthreads
  let mut Q : Nat → List Grp := fun _ => []
  let mut r : Rng := { st := seed * 7919 + 13 }
  for t in [0:nsteps] do
    let (r', act) := pickAct s r nthreads nlocks maxAgents
    r := r'
    let Q' := ghostStep P s Q act
    let s' := step P s act
    match invB s' Q' with
    | some m => return some s!"seed {seed} step {t} act {repr act}: {m}\n  locks {s'.locks}\n  nodes {s'.nodes}\n  tls {s'.tls}\n  agents {repr s'.agents}\n  Q0 {repr (Q' 0)}"
    | none => pure ()
    if !exclB s' then return some s!"seed {seed} step {t}: exclusion violated"
    s := s'
    Q := Q'
  return none

def main (args : List String) : IO Unit := do
  let n := (args.head?.bind String.toNat?).getD 200
  let mut bad := 0
  for seed in [0:n] do
    let cfgs := [(2, 1, 6), (3, 1, 9), (3, 2, 10), (4, 1, 14), (4, 2, 16)]
    let (nt, nl, ma) := cfgs[seed % cfgs.length]!
    match simulate seed 400 nt nl ma with
    | some m => IO.println m; bad := bad + 1; if bad ≥ 3 then return
    | none => pure ()
  IO.println s!"done: {n} seeds, {bad} failures"
