/-
  cudrv: the model side of the correspondence check.
  Reads harness output (scenario header, programs, one line per scheduling quantum),
  replays the same schedule on the Lean model and compares every quantum; runs the
  Lean monitors over the implementation's events.
-/
import CppUtil.Model.WClient
import CppUtil.Model.WClientWF
import CppUtil.Model.MClient
import CppUtil.Monitor.Excl
import CppUtil.Gen.Pess
import CppUtil.Gen.Opt
import CppUtil.Gen.Mcs
import CppUtil.Model.TClient
import CppUtil.Model.EpochLock
import CppUtil.Gen.Thread
import CppUtil.Monitor.ThreadMon
import Driver.ZipfDrv

open CppUtil CppUtil.WClient CppUtil.Monitor

/-- the model side of one scenario -/
inductive Sim where
  | w (P : WLock.WParams) (c : WClient.Client)
  | m (P : Mcs.Params) (c : MClient.Client)
  | th (P : TClient.Params) (c : TClient.Client) (l : EpochLock.Lock)

def Sim.step : Sim → Nat → Option (Sim × String × List String)
  | .w P c, t => (WClient.stepThread P c t).map fun (c', e, o) => (.w P c', e, o)
  | .m P c, t => (MClient.stepThread P c t).map fun (c', e, o) => (.m P c', e, o)
  | .th P c l, t => (TClient.stepThread P c t).map fun (c', e, o) => (.th P c' (EpochLock.sync P l c c' t), e, o)

def Sim.allDone : Sim → Bool
  | .w _ c => c.threads.all (·.finished)
  | .m _ c => c.threads.all (·.finished)
  | .th _ c _ => c.threads.all (·.finished)

/-- (thread, lock) for every unfinished thread that is inside an operation on a lock -/
def Sim.blockedOn : Sim → List (Nat × Nat)
  | .w _ c => (List.range c.threads.size).filterMap fun t =>
      match c.threads[t]? with
      | some thr => if thr.finished then none else
          (match thr.pend with
           | .atom lk _ => some (t, lk)
           | .rel lk _ _ => some (t, lk)
           | .dng lk _ _ => some (t, lk)
           | _ => none)
      | none => none
  | .m _ c => (List.range c.threads.size).filterMap fun t =>
      match c.threads[t]? with
      | some thr => if thr.finished then none else
          (match thr.pend with
           | .atom a => some (t, MClient.agentLk c a)
           | _ => none)
      | none => none
  | .th _ _ _ => []

/-- lockstep with the protocol model: (actions applied, status) -/
def Sim.proto : Sim → Option (Nat × EpochLock.Status)
  | .th _ _ l => some (l.applied, l.status)
  | _ => none

def Sim.uaf : Sim → Nat
  | .w _ _ => 0
  | .m _ c => c.core.uaf
  | .th _ _ _ => 0

def splitWs (s : String) : List String := (s.splitOn " ").filter (· ≠ "")

def parseMode (s : String) : Option Mode := Mode.ofStr? s

def parseHexOrNat (s : String) : Option Nat :=
  if s.startsWith "0x" then
    (s.drop 2).toString.foldl (fun acc c =>
      match acc with
      | none => none
      | some n =>
        if c.isDigit then some (n * 16 + (c.toNat - '0'.toNat))
        else if 'a' ≤ c ∧ c ≤ 'f' then some (n * 16 + (c.toNat - 'a'.toNat + 10))
        else none) (some 0)
  else s.toNat?

def parseOp (s : String) : Option Op :=
  match splitWs s with
  | ["lock", m, d, l] => do some (.lock (← parseMode m) (← d.toNat?) (← l.toNat?))
  | ["dtor", v] => do some (.dtor (← v.toNat?))
  | ["massign", d, s] => do some (.massign (← d.toNat?) (← s.toNat?))
  | ["mctor", d, s] => do some (.mctor (← d.toNat?) (← s.toNat?))
  | ["upg", d, s] => do some (.upg (← d.toNat?) (← s.toNat?))
  | ["dng", d, s] => do some (.dng (← d.toNat?) (← s.toNat?))
  | ["bool", v] => do some (.bool (← v.toNat?))
  | ["getver", d, l] => do some (.getver (← d.toNat?) (← l.toNat?))
  | ["verify", v] => do some (.verify (← v.toNat?))
  | ["try", m, d, s] => do some (.tryLock (← parseMode m) (← d.toNat?) (← s.toNat?))
  | ["prep", d, l] => do some (.prep (← d.toNat?) (← l.toNat?))
  | ["cverify", v] => do some (.cverify (← v.toNat?))
  | ["setver", v, x] => do some (.setver (← v.toNat?) (BitVec.ofNat 32 (← parseHexOrNat x)))
  | ["xver", v] => do some (.xver (← v.toNat?))
  | ["gver", v] => do some (.gver (← v.toNat?))
  | ["payrd", l] => do some (.payrd (← l.toNat?))
  | ["paywr", l, x] => do some (.paywr (← l.toNat?) (← x.toNat?))
  | _ => none

def parseProg (s : String) : Option (Array Op) :=
  let parts := (s.splitOn ";").map (fun p => p.trimAscii.toString) |>.filter (· ≠ "")
  parts.foldl (fun acc p => do let a ← acc; let o ← parseOp p; some (a.push o)) (some #[])

def parseTOp (s : String) : Option TClient.Op :=
  match splitWs s with
  | ["probe", r] => do some (.probe (← r.toNat?))
  | ["gid"] => some .gid
  | ["hbget"] => some .hbget
  | ["guard", v] => do some (.guard (← v.toNat?))
  | ["unguard", v] => do some (.unguard (← v.toNat?))
  | ["gpe", v] => do some (.gpe (← v.toNat?))
  | ["relist", v] => do some (.relist (← v.toNat?))
  | ["gepoch", v] => do some (.gepoch (← v.toNat?))
  | ["fwd"] => some (.fwd 1)
  | ["fwd", n] => do some (.fwd (← n.toNat?))
  | ["hold", n] => do some (.hold (← n.toNat?))
  | ["await", n] => do some (.await (← n.toNat?))
  | ["bump"] => some .bump
  | ["cur"] => some .cur
  | ["min"] => some .min
  | _ => none

def topName : TClient.Op → String × Nat
  | .probe _ => ("probe", 0) | .gid => ("gid", 0) | .hbget => ("hbget", 0)
  | .guard v => ("guard", v) | .unguard v => ("unguard", v) | .gpe v => ("gpe", v)
  | .relist v => ("relist", v) | .gepoch v => ("gepoch", v) | .fwd _ => ("fwd", 0)
  | .cur => ("cur", 0) | .min => ("min", 0) | .hold _ => ("hold", 0)
  | .await _ => ("await", 0) | .bump => ("bump", 0)

def threadRes (seq : Bool) (tid : Nat) (s : ThreadMon) (op? : Option TClient.Op) (tok : String) : ThreadMon :=
  match op? with
  | some op =>
    let (n, v) := topName op
    match tok.splitOn "=" with
    | [_, res] => threadResOp seq tid s n v res
    | _ => s
  | none => s

def parseTProg (s : String) : Option (Array TClient.Op) :=
  let parts := (s.splitOn ";").map (fun p => p.trimAscii.toString) |>.filter (· ≠ "")
  parts.foldl (fun acc p => do let a ← acc; let o ← parseTOp p; some (a.push o)) (some #[])

structure Scen where
  id : String := ""
  comp : String := "pess"
  retry : Nat := 1
  nlocks : Nat := 1
  kinds : Array GKind := #[]
  progs : Array (Array Op) := #[]
  tprogs : Array (Array TClient.Op) := #[]
  cap : Nat := 3
  nvars : Nat := 4
  seq : Bool := false

def kvGet (kvs : List String) (k : String) : Option String :=
  kvs.findSome? fun kv => match kv.splitOn "=" with
    | [a, b] => if a == k then some b else none
    | _ => none

structure Stats where
  scen : Nat := 0
  quanta : Nat := 0
  mismatches : Nat := 0
  monFails : Nat := 0
  stuck : Nat := 0
  evKinds : List (String × Nat) := []
  casFail : Nat := 0
  grants : Nat := 0
  conv : Nat := 0
  bools : Nat := 0
  pays : Nat := 0
  maxSimul : Nat := 0
  protoSteps : Nat := 0
  protoOutside : Nat := 0
  protoScen : Nat := 0
  wfChecked : Nat := 0
  wfTrue : Nat := 0

def bump (l : List (String × Nat)) (k : String) : List (String × Nat) :=
  if l.any (·.1 == k) then l.map (fun p => if p.1 == k then (p.1, p.2 + 1) else p) else l ++ [(k, 1)]

structure Run where
  sc : Scen
  sim : Sim
  mon : MonSt := {}
  step : Nat := 0
  mismatch : Option String := none
  /-- last value written to each lock word by the implementation -/
  words : List (Nat × Nat) := []
  /-- threads whose latest quantum announced the end of a grant (`G-`): their releasing operation is still to come -/
  pendingRel : List Nat := []
  /-- word-lock scenarios: the programs meet the premise `wfB` of the guard-algebra theorems -/
  wf : Option Bool := none

def mcsParams : Mcs.Params :=
  { C := Gen.mcsConsts, ord := Gen.mcsOrders, publishStore := Gen.mcsPublishIsStore }

def threadParams (sc : Scen) : TClient.Params :=
  { C := Gen.epochConsts, n := sc.cap, expireFirst := Gen.heartbeatExpiresFirst, ord := Gen.threadOrders }

def mkSim (sc : Scen) : Sim :=
  if sc.comp == "thread" then .th (threadParams sc) (TClient.mkClient (threadParams sc) sc.nvars sc.tprogs)
    (EpochLock.mkLock (threadParams sc) sc.tprogs.size)
  else if sc.comp == "mcs" then .m mcsParams (MClient.mkClient sc.nlocks sc.kinds sc.progs)
  else if sc.comp == "opt" then .w (Gen.opt sc.retry) { WClient.mkClient sc.nlocks sc.kinds sc.progs with versioned := true }
  else .w (Gen.pess sc.retry) (WClient.mkClient sc.nlocks sc.kinds sc.progs)

def mkRun (sc : Scen) : Run :=
  let sim := mkSim sc
  { sc := sc, sim := sim, wf := match sim with | .w _ c => some (WClient.wfB c) | _ => none }

/-- instruction-aware part of the monitors: `R<k>=res` tokens -/
def monResult (r : Run) (tid : Nat) (tok : String) : MonSt :=
  match (tok.drop 1).toString.splitOn "=" with
  | [ks, res] =>
    match ks.toNat? with
    | some k =>
      match (r.sc.progs.getD tid #[])[k]? with
      | some (.bool _) => checkBool r.mon res
      | some (.payrd _) => checkPay r.mon res
      | _ => r.mon
    | none => r.mon
  | _ => r.mon

/-- the comparison of an atomic event: which `fetch_*` / `exchange` spells a read-modify-write is the implementation's
    business; location, orders, value read, value written and success are compared -/
def canonRmw (ev : String) : String :=
  match ev.splitOn " " with
  | op :: rest => if ["fadd", "fsub", "fxor", "for", "fand", "xchg"].contains op then " ".intercalate ("rmw" :: rest) else ev
  | [] => ev

def processQ (r : Run) (line : String) (st : Stats) : Run × Stats :=
  -- Q <tid> <op> <loc> <mo> <mofail> <rd> <wr> <ok> | toks...
  let halves := line.splitOn "|"
  let left := splitWs (halves.getD 0 "")
  let toks := splitWs (halves.getD 1 "")
  match left with
  | "Q" :: tidS :: evParts =>
    let tid := tidS.toNat?.getD 0
    let implEv := " ".intercalate evParts
    -- monitors on the implementation's tokens
    let mon00 := fifoEvent r.mon tid (evParts.getD 0 "") (evParts.getD 1 "") (evParts.getD 6 "")
    let mon00 := if r.sc.comp != "thread" then
        { mon00 with hb := hbEvent mon00.hb tid (evParts.getD 0 "") (evParts.getD 1 "") (evParts.getD 2 "") (evParts.getD 3 "")
                            (evParts.getD 6 "1" == "1") }
      else mon00
    let mon0 := if r.sc.comp == "thread" then
        { mon00 with th := threadEvent mon00.th tid (evParts.getD 0 "") (evParts.getD 1 "")
                            ((parseHexOrNat (evParts.getD 4 "0")).getD 0) ((parseHexOrNat (evParts.getD 5 "0")).getD 0) }
      else if r.sc.comp == "opt" then
        { mon00 with opt := optEvent mon00.opt tid (evParts.getD 0 "") (evParts.getD 1 "")
                              ((parseHexOrNat (evParts.getD 4 "0")).getD 0) ((parseHexOrNat (evParts.getD 5 "0")).getD 0)
                              (evParts.getD 6 "1" == "1") }
      else mon00
    let mon := toks.foldl (fun m tok =>
      let r' := { r with mon := m }
      if tok.startsWith "G+" then
        let m1 := fifoGrant (stepTok m tok tid) tid tok
        { m1 with hb := hbTok m1.hb tid tok }
      else if tok.startsWith "G" then
        let m1 := stepTok m tok tid
        { m1 with hb := hbTok m1.hb tid tok }
      else if tok.startsWith "R" && r.sc.comp == "thread" then
        { m with th := threadRes r.sc.seq tid m.th ((r.sc.tprogs.getD tid #[])[((tok.drop 1).toString.splitOn "=").head!.toNat?.getD 0]?) tok }
      else if tok.startsWith "X" && tok.length > 1 && r.sc.comp == "opt" then { m with opt := optTok m.opt tid tok }
      else if tok.startsWith "R" && r.sc.comp == "opt" then
        let m1 := monResult r' tid tok
        match (tok.drop 1).toString.splitOn "=" with
        | [ks, res] =>
          match (r.sc.progs.getD tid #[])[ks.toNat?.getD 0]? with
          | some (.getver d l) => { m1 with opt := optRes m1.opt tid "getver" d l res }
          | some (.verify v) => { m1 with opt := optRes m1.opt tid "verify" v 0 res }
          | some (.cverify v) => { m1 with opt := optRes m1.opt tid "cverify" v 0 res }
          | some (.tryLock _ d sv) => { m1 with opt := optRes m1.opt tid "try" d sv res }
          | some (.prep d l) => { m1 with opt := optRes m1.opt tid "prep" d l res }
          | some (.massign d sv) => { m1 with opt := optRes m1.opt tid "massign" d sv res }
          | some (.mctor d sv) => { m1 with opt := optRes m1.opt tid "mctor" d sv res }
          | some (.dtor v) => { m1 with opt := optRes m1.opt tid "dtor" v 0 res }
          | some (.setver v val) => { m1 with opt := optRes m1.opt tid "setver" v val.toNat res }
          | some (.xver v) => { m1 with opt := optRes m1.opt tid "xver" v 0 res }
          | _ => m1
        | _ => m1
      else if tok.startsWith "R" then monResult r' tid tok
      else if tok.startsWith "NA" || tok.startsWith "NF" then nodeTok m tok

      else if tok.startsWith "B" then
        match (tok.drop 1).toString.toNat? with
        | some k =>
          if r.sc.comp == "thread" then
            match (r.sc.tprogs.getD tid #[])[k]? with
            | some op => { m with th := threadBegin m.th tid (topName op).1 }
            | none => m
          else
          match (r.sc.progs.getD tid #[])[k]? with
          | some (.lock md _ lk) => fifoBegin m tid lk md
          | _ => m
        | none => m
      else if r.sc.comp == "thread" then { m with th := threadTok r.sc.seq r.sc.cap m.th tid tok }
      else m) mon0
    let st := { st with quanta := st.quanta + 1, evKinds := bump st.evKinds (s!"{evParts.getD 0 ""}/{evParts.getD 2 ""}"),
                        casFail := st.casFail + (if evParts.getD 0 "" == "cas" && evParts.getD 6 "" == "0" then 1 else 0) }
    let loc := evParts.getD 1 ""
    let words := if r.sc.comp != "thread" && loc.startsWith "L" && evParts.getD 0 "" != "load" && evParts.getD 6 "1" == "1" then
        match (loc.drop 1).toString.toNat?, parseHexOrNat (evParts.getD 5 "0") with
        | some lk, some w => (r.words.filter (·.1 != lk)) ++ [(lk, w)]
        | _, _ => r.words
      else r.words
    let pendingRel := (r.pendingRel.filter (· != tid)) ++ (if toks.any (fun t => t.startsWith "G-") then [tid] else [])
    let r := { r with mon := mon, step := r.step + 1, words := words, pendingRel := pendingRel }
    match r.mismatch with
    | some _ => (r, st)
    | none =>
      match r.sim.step tid with
      | none => ({ r with mismatch := some s!"step={r.step} impl=[{implEv} | {" ".intercalate toks}] model=[thread {tid} has no enabled step]" }, st)
      | some (c', mev, mtoks) =>
        if canonRmw mev == canonRmw implEv && mtoks == toks then ({ r with sim := c' }, st)
        else ({ r with mismatch := some s!"step={r.step} tid={tid} impl=[{implEv} | {" ".intercalate toks}] model=[{mev} | {" ".intercalate mtoks}]" }, st)
  | _ => (r, st)

partial def loop (h : IO.FS.Stream) (cur : Option Run) (pend : Scen) (st : Stats) : IO Stats := do
  let line ← h.getLine
  if line.isEmpty then return st
  let line := line.trimAscii.toString
  if line.startsWith "SCEN " then
    let kvs := splitWs line
    let sc : Scen := {
      id := kvs.getD 1 ""
      comp := (kvGet kvs "comp").getD "pess"
      retry := ((kvGet kvs "retry").bind (·.toNat?)).getD 1
      nlocks := ((kvGet kvs "nlocks").bind (·.toNat?)).getD 1
      kinds := (((kvGet kvs "kinds").getD "").splitOn ",").filterMap GKind.ofStr? |>.toArray
      cap := ((kvGet kvs "cap").bind (·.toNat?)).getD 3
      nvars := ((kvGet kvs "nvars").bind (·.toNat?)).getD 4
      seq := (kvGet kvs "seq") == some "1" }
    loop h none sc st
  else if line.startsWith "T " || line == "T" then
    if pend.comp == "thread" then
      let p := (parseTProg (line.drop 1).toString).getD #[]
      loop h none { pend with tprogs := pend.tprogs.push p } st
    else
    let p := (parseProg (line.drop 1).toString).getD #[]
    loop h none { pend with progs := pend.progs.push p } st
  else if line.startsWith "Q " then
    let r := match cur with
      | some r => r
      | none => mkRun pend
    let (r, st) := processQ r line st
    loop h (some r) pend st
  else if line.startsWith "END" then
    let r := match cur with
      | some r => r
      | none => mkRun pend
    let status0 := (splitWs line).getD 1 "ok"
    -- a stuck execution in which every waiting thread waits on a lock on which *another* thread still holds a
    -- grant is a cycle of the client program (the premise "every grant is eventually released" fails), not a
    -- lost hand-over of the lock
    let blocked := r.sim.blockedOn
    let status := if status0 == "stuck" && !blocked.isEmpty &&
        blocked.all (fun (t, lk) => r.mon.grants.any (fun g => g.lk == lk && g.tid != t))
      then "stuck-held" else status0
    -- all threads finished in the model too?
    let modelDone := r.sim.allDone
    let corr := match r.mismatch with
      | some m => s!"mismatch {m}"
      | none => if status == "ok" && !modelDone then "mismatch end: implementation finished, model did not" else "ok"
    -- the protocol model (about which the interleaving theorems are proved) must follow the interpreter
    let corr := match corr, r.sim.proto with
      | "ok", some (_, .fail m) => s!"mismatch protocol model (EpochProto) does not follow the thread-level model: {m}"
      | c, _ => c
    let protoS := match r.sim.proto with
      | some (k, .ok) => s!" proto=ok:{k}"
      | some (k, .outside w) => s!" proto=outside:{k}:{w.replace " " "_"}"
      | some (k, .fail _) => s!" proto=FAIL:{k}"
      | none => ""
    -- scenario-level tags (premises of known findings) apply to every message of the scenario, also to those that were
    -- recorded before the premise failed
    let retag (b : String) : String :=
      " || ".intercalate ((b.splitOn " || ").map fun m =>
        let m := if r.mon.th.nonFresh && !(m.splitOn "[history contains a non-fresh EnterEpoch store]").length > 1
          then m ++ " [history contains a non-fresh EnterEpoch store]" else m
        if r.mon.th.nested && !(m.splitOn "[a thread held two guards at once]").length > 1
          then m ++ " [a thread held two guards at once]" else m)
    let bads := [r.mon.bad, r.mon.th.bad.map retag, r.mon.opt.bad].filterMap id
    let monS := if bads.isEmpty then "ok" else "FAIL " ++ " || ".intercalate bads
    let hbS := match r.mon.hb.bad with | some m => s!"FAIL {m}" | none => "ok"
    let hasGuard := bads.any fun b => (b.splitOn " || ").any fun m => m.startsWith "guard:"
    let addMsg (cur : String) (m : String) : String := if cur == "ok" then "FAIL " ++ m else cur ++ " || " ++ m
    let leak := if status == "ok" && !hasGuard && !r.mon.grants.isEmpty then
      addMsg monS s!"guard: {r.mon.grants.length} grant(s) never released at the end" else monS
    -- every guard has been released (API level): no lock word may still show a grant
    let busy := r.words.filter fun (_, w) =>
      if r.sc.comp == "mcs" then status == "ok" && w != 0
      else if r.sc.comp == "opt" then (Gen.opt r.sc.retry).anyLock (BitVec.ofNat 64 w)
      else (Gen.pess r.sc.retry).anyLock (BitVec.ofNat 64 w)
    let leak := if !hasGuard && leak == monS && r.sc.comp != "thread" && r.mon.grants.isEmpty && r.pendingRel.isEmpty &&
        (status == "ok" || status == "stuck") then
        match busy with
        | (lk, w) :: _ => addMsg leak s!"guard: every guard has been released, but the word of lock {lk} (0x{String.ofList (Nat.toDigits 16 w)}) still shows a grant: a grant was dropped without being released, or released twice"
        | [] => leak
      else leak
    let wfS := match r.wf with | some true => " wf=1" | some false => " wf=0" | none => ""
    -- every grant has been released through its guard (API level), nothing is pending, and yet threads wait for the lock
    let leak := if !hasGuard && r.sc.comp != "thread" && status == "stuck" && r.mon.grants.isEmpty && r.pendingRel.isEmpty &&
        !blocked.isEmpty && !(leak.splitOn "guard:").length > 1 then
        addMsg leak s!"guard: every grant has been released by its guard, but {blocked.length} thread(s) still wait on lock {(blocked.head!).2}: a release did not reach the lock object it belongs to (dropped, or applied to another object)"
      else leak
    IO.println s!"RES {r.sc.id} end={status}{protoS}{wfS} steps={r.step} corr={corr} ;; mon={leak} ;; hb={hbS}"
    let st := { st with scen := st.scen + 1,
                        mismatches := st.mismatches + (if corr == "ok" then 0 else 1),
                        monFails := st.monFails + (if leak == "ok" then 0 else 1),
                        stuck := st.stuck + (if status == "ok" then 0 else 1),
                        grants := st.grants + r.mon.nGrants, conv := st.conv + r.mon.nConv,
                        bools := st.bools + r.mon.nBool, pays := st.pays + r.mon.nPay,
                        maxSimul := max st.maxSimul r.mon.maxSimul,
                        wfChecked := st.wfChecked + (match r.wf with | some _ => 1 | none => 0),
                        wfTrue := st.wfTrue + (match r.wf with | some true => 1 | _ => 0),
                        protoSteps := st.protoSteps + (match r.sim.proto with | some (k, _) => k | none => 0),
                        protoScen := st.protoScen + (match r.sim.proto with | some (_, .ok) => 1 | _ => 0),
                        protoOutside := st.protoOutside + (match r.sim.proto with | some (_, .outside _) => 1 | _ => 0) }
    loop h none {} st
  else if line.startsWith "HBEND " || line.startsWith "PNODES " then
    match cur with
    | some r =>
      let kvs := splitWs line
      let th := threadEnd r.mon.th ((kvGet kvs "unexpired").bind (·.toNat?)) ((kvGet kvs "reserved").bind (·.toNat?))
                  ((kvGet kvs "live").bind (·.toNat?))
      loop h (some { r with mon := { r.mon with th := th } }) pend st
    | none => loop h cur pend st
  else if line.startsWith "NODES " then
    match cur with
    | some r =>
      let n := ((kvGet (splitWs line) "live").bind (·.toNat?)).getD 0
      let mon := if n == 0 then r.mon else flag r.mon s!"nodes: {n} queue node(s) still allocated after all guards were released and all threads exited"
      loop h (some { r with mon := mon }) pend st
    | none => loop h cur pend st
  else
    loop h cur pend st

def main (args : List String) : IO UInt32 := do
  if args == ["zipf"] then return (← ZipfDrv.main)
  let stdin ← IO.getStdin
  let st ← loop stdin none {} {}
  let kinds := ", ".intercalate (st.evKinds.map fun (k, n) => s!"\"{k}\": {n}")
  IO.println s!"STATS \{\"scenarios\": {st.scen}, \"quanta\": {st.quanta}, \"mismatches\": {st.mismatches}, \"monitor_failures\": {st.monFails}, \"not_ok_end\": {st.stuck}, \"cas_failures\": {st.casFail}, \"grants\": {st.grants}, \"conversions\": {st.conv}, \"bool_checks\": {st.bools}, \"payload_reads\": {st.pays}, \"max_simultaneous_grants\": {st.maxSimul}, \"proto_lockstep_actions\": {st.protoSteps}, \"proto_lockstep_scenarios\": {st.protoScen}, \"proto_outside_premise\": {st.protoOutside}, \"client_wf_checked\": {st.wfChecked}, \"client_wf_true\": {st.wfTrue}, \"events\": \{{kinds}}}"
  return 0
