/-
  cudrv zipf: model side + monitors for the Zipf harness output.
-/
import CppUtil.Model.Zipf
import CppUtil.Gen.Zipf

open CppUtil CppUtil.Zipf

namespace ZipfDrv

def splitWs (s : String) : List String := (s.splitOn " ").filter (· ≠ "")

def hexToNat (s : String) : Option Nat :=
  s.foldl (fun acc c =>
    match acc with
    | none => none
    | some n =>
      if c.isDigit then some (n * 16 + (c.toNat - '0'.toNat))
      else if 'a' ≤ c ∧ c ≤ 'f' then some (n * 16 + (c.toNat - 'a'.toNat + 10))
      else none) (some 0)

def fbits (s : String) : Option Float := (hexToNat s).map fun n => Float.ofBits (UInt64.ofNat n)
def hex16 (f : Float) : String :=
  let s := String.ofList (Nat.toDigits 16 f.toBits.toNat)
  String.ofList (List.replicate (16 - s.length) '0') ++ s

structure Case where
  id : String := ""
  cls : String := "exact"
  typ : String := "u64"
  minI : Int := 0
  maxI : Int := 0
  alpha : Float := 0.0
  n : Nat := 0
  table : Array Float := #[]
  denom : Float := 1.0
  built : Bool := false
  mismatch : Option String := none
  bad : Option String := none
  nCdf : Nat := 0
  nSample : Nat := 0
  nBoundary : Nat := 0
  nPure : Nat := 0
  nRef : Nat := 0
  sawEnd : Bool := false

def typeBits : String → Nat
  | "u32" => 32 | "i32" => 31 | "i64" => 63 | _ => 64

def Case.tags (c : Case) : String :=
  -- known-finding signatures (DESIGN.md section 7)
  let lim := 2 ^ typeBits c.typ
  (if c.cls == "approx" && c.n + Gen.zipfSkipSize + 1 ≥ lim then " [n + kSkipSize exceeds the integer type]" else "")

def Case.flag (c : Case) (cat msg : String) : Case :=
  -- the first violation of every category is kept, joined by ` || `
  match c.bad with
  | some b =>
    if (b.splitOn " || ").any (fun m => (m.splitOn ":").headD "" == cat) then c
    else { c with bad := some (b ++ " || " ++ cat ++ ": " ++ msg ++ c.tags) }
  | none => { c with bad := some (cat ++ ": " ++ msg ++ c.tags) }

def Case.mis (c : Case) (msg : String) : Case :=
  match c.mismatch with
  | some _ => c
  | none => { c with mismatch := some msg }

def Case.cdf (c : Case) (k : Int) : Float :=
  let kk := k.toNat
  if c.cls == "exact" then c.table.getD kk 0.0
  else approxCDF (floatArith c.alpha) c.table c.denom Gen.zipfExactBinNum kk

def build (c : Case) : Case :=
  let A := floatArith c.alpha
  -- IntType overflow inside the generator (known finding F8) is not modelled: no model comparison there
  if c.cls == "approx" && c.n + Gen.zipfSkipSize + 1 ≥ 2 ^ typeBits c.typ then c else
  if c.cls == "exact" then
    if c.n ≤ 4000000 then { c with table := exactTable A c.n, built := true } else c
  else
    { c with table := approxHead A c.n Gen.zipfExactBinNum Gen.zipfSkipSize, denom := harmonic A c.n, built := true }

def isNaN (f : Float) : Bool := f != f

def processLine (c : Case) (line : String) : Case :=
  match splitWs line with
  | ["ZN", n] =>
    match n.toNat? with
    | some n => build { c with n := n }
    | none => c
  | ["ZCDF", k, b] =>
    match k.toInt?, fbits b with
    | some k, some v =>
      let c := { c with nCdf := c.nCdf + 1 }
      if !c.built then c
      else
        let m := c.cdf k
        if m.toBits == v.toBits then c
        else c.mis s!"GetCDF({k}): implementation {b} model {hex16 m}"
    | _, _ => c.mis s!"malformed {line}"
  | ["ZSAMPLE", _raw, ub, vs, lo, hi] =>
    match fbits ub, vs.toInt? with
    | some u, some v =>
      let c := { c with nSample := c.nSample + 1 }
      -- correspondence: the model's search on the model's CDF
      let c := if c.built then
          let bin := search (fun k => c.cdf k) (fun a b => a < b) (Int.ofNat c.n) u
          if c.minI + bin == v then c else c.mis s!"sample for u={ub}: implementation {v} model {c.minI + bin}"
        else c
      -- monitor (implementation's own GetCDF values)
      let c := if v < c.minI || v > c.maxI then c.flag "range" s!"sample {v} outside [{c.minI}, {c.maxI}]" else c
      let bin := v - c.minI
      let c := match fbits hi with
        | some h =>
          if isNaN h then c.flag "inverse" s!"GetCDF({bin}) is NaN"
          else if u > h then c.flag "inverse" s!"u={ub} exceeds GetCDF({bin})={hi} for returned value {v}"
          else c
        | none => if hi == "-" then c else c.mis s!"malformed {line}"
      let c := match fbits lo with
        | some l =>
          if isNaN l then c.flag "inverse" s!"GetCDF({bin - 1}) is NaN"
          else if l > u then
            let tag := match fbits hi with
              | some h => if bin == Int.ofNat Gen.zipfExactBinNum && l > h then " [approx CDF decreases from bin 99 to bin 100]" else ""
              | none => ""
            c.flag "inverse" (s!"GetCDF({bin - 1})={lo} exceeds u={ub} for returned value {v}" ++ tag)
          else c
        | none => c
      let c := match fbits lo, fbits hi with
        | some l, some h => if u == l || u == h then { c with nBoundary := c.nBoundary + 1 } else c
        | none, some h => if u == h then { c with nBoundary := c.nBoundary + 1 } else c
        | _, _ => c
      c
    | _, _ => c.mis s!"malformed {line}"
  | ["ZPURE", name, ok] =>
    let c := { c with nPure := c.nPure + 1 }
    if ok == "1" then c
    else if name == "default_zero" then c.flag "inverse" "a default-constructed generator returned a non-zero value"
    else if name == "default_cdf_one" then c.flag "cdf" "GetCDF(0) of a default-constructed generator (one bin) is not exactly 1"
    else if name == "in_range" then c.flag "range" "a sample outside [min, max] in a random sequence"
    else if name == "assigned_cdf" then c.flag "cdf" "GetCDF of a generator that was assigned (over a live, a moved-from or itself) differs from the table of its parameters, or throws"
    else if name == "history_cdf" then c.flag "cdf" "GetCDF of a generator depends on which generators were constructed before it (same parameters, other class or other offsets in between): more than 1e-9 away from the first generator's table"
    else if name == "assigned_in_range" then c.flag "range" "a sample outside [min, max] from a generator that was assigned over a live one with another bin count"
    else c.flag "pure" s!"outputs differ: {name}"
  | ["ZTHROW", ok] =>
    let c := { c with nPure := c.nPure + 1 }
    if ok == "1" then c else c.flag "pure" "construction with max < min did not throw"
  | ["ZREF", eb, k, mono, badk, lastb] =>
    match fbits eb, k.toNat?, fbits lastb with
    | some err, some wk, some last =>
      let c := { c with nRef := c.nRef + 1 }
      let one : Float := 1.0
      let c := if last.toBits != one.toBits then c.flag "cdf" s!"GetCDF(last) = {lastb}, not exactly 1" else c
      if c.cls == "exact" then
        let c := if mono != "1" then c.flag "cdf" s!"exact CDF decreases at bin {badk}" else c
        if err > 1.0e-9 then c.flag "cdf" s!"exact CDF differs from the reference by {err} at bin {wk}" else c
      else
        if c.n ≤ Gen.zipfExactBinNum then
          if err > 1.0e-9 then c.flag "cdf" s!"approximate CDF (n ≤ {Gen.zipfExactBinNum}) differs from the exact values by {err} at bin {wk}" else c
        else if c.n ≥ 1000 && c.alpha ≤ 3.0 && err > 0.01 then
          let tag := if wk < Gen.zipfExactBinNum && c.n < 1700 && (c.n - 1) % Gen.zipfSkipSize < 55
            then " [normaliser overshoot, n < 1700]" else ""
          c.flag "close" (s!"approximate CDF is {err} away from the exact CDF at bin {wk} (n={c.n})" ++ tag)
        else c
    | _, _, _ => c.mis s!"malformed {line}"
  | _ => c

partial def loop (h : IO.FS.Stream) (cur : Option Case) (tot : Nat × Nat × Nat × Nat × Nat × Nat) : IO (Nat × Nat × Nat × Nat × Nat × Nat) := do
  let line ← h.getLine
  if line.isEmpty then return tot
  let line := line.trimAscii.toString
  if line.startsWith "ZCASE " then
    match splitWs line with
    | [_, id, cls, typ, mn, mx, ab] =>
      let c : Case := { id := id, cls := cls, typ := typ, minI := mn.toInt?.getD 0, maxI := mx.toInt?.getD 0,
                        alpha := (fbits ab).getD 0.0 }
      loop h (some c) tot
    | _ => loop h none tot
  else if line.startsWith "ZEND" then
    match cur with
    | some c =>
      let status := (splitWs line).getD 1 "ok"
      let c := if status == "ok" then c else c.flag "crash" s!"the implementation ended with {line}"
      let corr := match c.mismatch with | some m => s!"mismatch {m}" | none => "ok"
      let mon := match c.bad with | some m => s!"FAIL {m}" | none => "ok"
      IO.println s!"RES {c.id} end={status} steps={c.nCdf + c.nSample + c.nPure + c.nRef} corr={corr} ;; mon={mon}"
      let (a, b, d, e, f, g) := tot
      loop h none (a + 1, b + c.nCdf, d + c.nSample, e + c.nBoundary, f + c.nPure, g + c.nRef)
    | none => loop h none tot
  else
    match cur with
    | some c => loop h (some (processLine c line)) tot
    | none => loop h none tot

def main : IO UInt32 := do
  let stdin ← IO.getStdin
  let (a, b, d, e, f, g) ← loop stdin none (0, 0, 0, 0, 0, 0)
  IO.println s!"STATS \{\"scenarios\": {a}, \"cdf_values_compared\": {b}, \"samples\": {d}, \"samples_on_a_breakpoint\": {e}, \"purity_checks\": {f}, \"reference_comparisons\": {g}}"
  return 0

end ZipfDrv
