/-
  The epoch protocol (`Model/EpochProto.lean`) keeps its invariant under every interleaving, with the
  exit order of the current source (heartbeat expired before the reservation flag is cleared):
    * a thread inside CreateEpochGuard / holding a guard owns an ID, and nobody else owns it;
    * once past the `expired()` test the slot's heartbeat is the thread's own (ID reuse: an earlier owner's
      heartbeat is already expired when the ID is handed out again, so the test rebinds the slot);
    * a complete guard's epoch is in `E[id]`, and was read from the global epoch (≤ G);
    * every guard that was complete when the running forward started and is still alive has been collected
      by the scan as far as it has come, and is in the sorted list once the scan is over;
    * the coordinator's `cur` is the global epoch, `M ≤ G`, `G = initial + completed forwards (+1)`;
    * a forward that started with no guard around and saw none being created has collected nothing.
-/
import CppUtil.Model.EpochProto
import CppUtil.Proofs.IdMgrInv
import CppUtil.Proofs.EpochSeq

namespace CppUtil.EpochProto
open CppUtil CppUtil.IdMgr CppUtil.Epoch

inductive Trans : TLoc → TLoc → Prop
  | begin (p) : Trans .fresh (.pLoad p)
  | skip : Trans .fresh .dead
  | loadBusy (a b) : Trans (.pLoad a) (.pLoad b)
  | loadFree (a) : Trans (.pLoad a) (.pXchg a)
  | xchgBusy (a b) : Trans (.pXchg a) (.pLoad b)
  | claim (a) : Trans (.pXchg a) (.owner a)
  | exit0 (a) : Trans (.owner a) (.exit1 a)
  | exit1 (a) : Trans (.exit1 a) (.exit2 a)
  | exit2 (a) : Trans (.exit2 a) .dead

theorem step_char {n : Nat} {ef : Bool} {s s' : IdMgr.St} {a : IdMgr.Act} {e : Option Ev}
    (h : IdMgr.step n ef s a = some (s', e)) :
    ∃ t old new, s.threads[t]? = some old ∧ s'.threads = s.threads.set t new ∧ Trans old new ∧
      (∀ id, old = .owner id → a = .beginExit t) := by
  cases a with
  | begin t start =>
    simp only [IdMgr.step] at h
    split at h
    · rename_i ht
      simp only [Option.some.injEq, Prod.mk.injEq] at h
      exact ⟨t, _, _, ht, by rw [← h.1]; rfl, .begin _, by intro id hid; cases hid⟩
    · cases h
  | beginExit t =>
    simp only [IdMgr.step] at h
    split at h
    · rename_i id ht
      simp only [Option.some.injEq, Prod.mk.injEq] at h
      exact ⟨t, _, _, ht, by rw [← h.1]; rfl, .exit0 _, by intro id hid; rfl⟩
    · rename_i ht
      simp only [Option.some.injEq, Prod.mk.injEq] at h
      exact ⟨t, _, _, ht, by rw [← h.1]; rfl, .skip, by intro id hid; cases hid⟩
    · cases h
  | atom t =>
    simp only [IdMgr.step] at h
    split at h
    · rename_i id ht
      split at h <;> simp only [Option.some.injEq, Prod.mk.injEq] at h
      · exact ⟨t, _, _, ht, by rw [← h.1]; rfl, .loadBusy _ _, by intro id hid; cases hid⟩
      · exact ⟨t, _, _, ht, by rw [← h.1]; rfl, .loadFree _, by intro id hid; cases hid⟩
    · rename_i id ht
      split at h <;> simp only [Option.some.injEq, Prod.mk.injEq] at h
      · exact ⟨t, _, _, ht, by rw [← h.1]; rfl, .xchgBusy _ _, by intro id hid; cases hid⟩
      · exact ⟨t, _, _, ht, by rw [← h.1]; rfl, .claim _, by intro id hid; cases hid⟩
    · rename_i id ht
      split at h <;> simp only [Option.some.injEq, Prod.mk.injEq] at h
      · exact ⟨t, _, _, ht, by rw [← h.1]; rfl, .exit1 _, by intro id hid; cases hid⟩
      · exact ⟨t, _, _, ht, by rw [← h.1]; rfl, .exit1 _, by intro id hid; cases hid⟩
    · rename_i id ht
      split at h <;> simp only [Option.some.injEq, Prod.mk.injEq] at h
      · exact ⟨t, _, _, ht, by rw [← h.1]; rfl, .exit2 _, by intro id hid; cases hid⟩
      · exact ⟨t, _, _, ht, by rw [← h.1]; rfl, .exit2 _, by intro id hid; cases hid⟩
    · cases h


theorem unique_reserver {n : Nat} {s : IdMgr.St} (hI : IdMgr.Inv n true s) {t1 t2 id : Nat} {l1 l2 : TLoc}
    (h1 : s.threads[t1]? = some l1) (h2 : s.threads[t2]? = some l2)
    (r1 : reserves true l1 = some id) (r2 : reserves true l2 = some id) (hid : id < n) : t1 = t2 := by
  by_cases hne : t1 = t2
  · exact hne
  · exfalso
    have hc := resCount_set true s t1 l1 .dead id h1
    have h2' : (setT s t1 .dead).threads[t2]? = some l2 := by
      simp only [setT]; rw [List.getElem?_set_ne hne]; exact h2
    have hpos : 0 < resCount true (setT s t1 .dead) id := by
      unfold resCount
      apply List.countP_pos_iff.mpr
      exact ⟨_, List.mem_of_getElem? h2', by simp [r2]⟩
    have := hI.cnt id hid
    have e1 : (if reserves true l1 == some id then 1 else 0) = 1 := by simp [r1]
    have e2 : (if reserves true TLoc.dead == some id then 1 else 0) = 0 := by simp [reserves]
    rw [e1, e2] at hc
    split at this <;> omega

theorem unique_owner {n : Nat} {s : IdMgr.St} (hI : IdMgr.Inv n true s) {t1 t2 id : Nat}
    (h1 : s.threads[t1]? = some (.owner id)) (h2 : s.threads[t2]? = some (.owner id)) : t1 = t2 :=
  unique_reserver hI h1 h2 rfl rfl (hI.pos _ (List.mem_of_getElem? h1) id rfl)

def pastOwner (id : Nat) (l : TLoc) : Prop := l = .owner id ∨ l = .exit1 id ∨ l = .exit2 id ∨ l = .dead

def entered : WPc → Bool
  | .entL => true
  | .entS _ => true
  | .guarded _ => true
  | _ => false

def seen (c : CPc) (id e : Nat) : Prop :=
  match c with
  | .idle => True
  | .scanChk _ i coll => id < i → e < sizeMax → e ∈ coll
  | .scanLoad _ i coll => id < i → e < sizeMax → e ∈ coll
  | .storeG _ list => e < sizeMax → e ∈ list
  | .storeM _ list => e < sizeMax → e ∈ list

def CoordOK (s : St) : Prop :=
  match s.c with
  | .idle => True
  | .scanChk cur _ coll => cur = s.G ∧ cur ∈ coll
  | .scanLoad cur _ coll => cur = s.G ∧ cur ∈ coll
  | .storeG cur list => cur = s.G ∧ Desc list ∧ cur ∈ list
  | .storeM cur list => cur + 1 = s.G ∧ Desc list ∧ cur ∈ list

def quietC : CPc → Prop
  | .idle => True
  | .scanChk cur _ coll => coll = [cur + 1, cur]
  | .scanLoad cur _ coll => coll = [cur + 1, cur]
  | .storeG cur list => list = [cur + 1, cur]
  | .storeM cur list => list = [cur + 1, cur]

def pending : CPc → Nat
  | .storeM _ _ => 1
  | _ => 0

structure Inv (g0 n : Nat) (s : St) : Prop where
  ids : IdMgr.Inv n true s.ids
  elen : s.E.length = n
  hlen : s.H.length = n
  wlen : s.w.length = s.ids.threads.length
  wown : ∀ t, wpc s t ≠ .idle → ∃ id, s.ids.threads[t]? = some (.owner id)
  hprov : ∀ id t', s.H.getD id none = some t' → ∃ l, s.ids.threads[t']? = some l ∧ pastOwner id l
  bound : ∀ t id, s.ids.threads[t]? = some (.owner id) → entered (wpc s t) = true → s.H.getD id none = some t
  pin : ∀ t id e, s.ids.threads[t]? = some (.owner id) → wpc s t = .guarded e →
    s.E.getD id sizeMax = e ∧ e ≤ s.G
  ents : ∀ t v, wpc s t = .entS v → v ≤ s.G
  einv : ∀ id, id < n → s.E.getD id sizeMax = sizeMax ∨
    ∃ t, s.ids.threads[t]? = some (.owner id) ∧ wpc s t = .guarded (s.E.getD id sizeMax)
  must : ∀ t id e, (t, id, e) ∈ s.must →
    s.ids.threads[t]? = some (.owner id) ∧ wpc s t = .guarded e ∧ seen s.c id e
  coord : CoordOK s
  mg : s.M ≤ s.G
  cnt : s.G = g0 + s.fwds + pending s.c
  quiet : s.quiet = true → (∀ t, wpc s t = .idle) ∧ quietC s.c

theorem getD_replicate {α} (n i : Nat) (x : α) : (List.replicate n x).getD i x = x := by
  simp [List.getD_eq_getElem?_getD, List.getElem?_replicate]
  split <;> rfl

theorem inv_init (g0 n nthreads : Nat) : Inv g0 n (mkSt g0 n nthreads) := by
  have hw : ∀ t, wpc (mkSt g0 n nthreads) t = .idle := by
    intro t; unfold wpc mkSt; exact getD_replicate _ _ _
  have hE : ∀ i, (mkSt g0 n nthreads).E.getD i sizeMax = sizeMax := by
    intro t; unfold mkSt; exact getD_replicate _ _ _
  have hH : ∀ i, (mkSt g0 n nthreads).H.getD i none = none := by
    intro t; unfold mkSt; exact getD_replicate _ _ _
  refine ⟨IdMgr.inv_init n nthreads true, by simp [mkSt], by simp [mkSt], by simp [mkSt, IdMgr.mkSt], ?_, ?_, ?_, ?_, ?_,
    ?_, ?_, trivial, Nat.le_refl _, by simp [mkSt, pending], ?_⟩
  · intro t h; exact absurd (hw t) h
  · intro id t' h; rw [hH] at h; cases h
  · intro t id _ h; rw [hw] at h; cases h
  · intro t id e _ h; rw [hw] at h; cases h
  · intro t v h; rw [hw] at h; cases h
  · intro id _; exact Or.inl (hE id)
  · intro t id e h; simp [mkSt] at h
  · intro h; simp [mkSt] at h


theorem pastOwner_trans {id : Nat} {old new : TLoc} (h : Trans old new) (hp : pastOwner id old) : pastOwner id new := by
  unfold pastOwner at *
  cases h <;> simp_all

theorem entered_ne_idle {p : WPc} (h : entered p = true) : p ≠ .idle := by
  intro e; subst e; cases h

theorem inv_id {g0 n : Nat} (hn : 0 < n) {s : St} (hI : Inv g0 n s) {a : IdMgr.Act} {ids' : IdMgr.St} {e : Option Ev}
    (h : IdMgr.step n true s.ids a = some (ids', e))
    (hex : ∀ t, a = .beginExit t → wpc s t = .idle) : Inv g0 n { s with ids := ids' } := by
  obtain ⟨t, old, new, hold, hth, htr, hown⟩ := step_char h
  have hlt := IdMgr.getElem?_lt' hold
  have hne : ∀ t', t' ≠ t → ids'.threads[t']? = s.ids.threads[t']? := by
    intro t' h'; rw [hth, List.getElem?_set_ne (Ne.symm h')]
  have hidle : wpc s t = .idle := by
    by_cases hw : wpc s t = .idle
    · exact hw
    · obtain ⟨id, hid⟩ := hI.wown t hw
      rw [hold] at hid
      exact hex t (hown id (Option.some.inj hid))
  have hbusy : ∀ t', wpc s t' ≠ .idle → ids'.threads[t']? = s.ids.threads[t']? := by
    intro t' hw; apply hne; intro e; subst e; exact hw hidle
  refine ⟨IdMgr.inv_step hn hI.ids h, hI.elen, hI.hlen, by rw [hth]; simpa using hI.wlen, ?_, ?_, ?_, ?_, hI.ents,
    ?_, ?_, hI.coord, hI.mg, hI.cnt, hI.quiet⟩
  · intro t' hw
    show ∃ id, ids'.threads[t']? = _
    rw [hbusy t' hw]; exact hI.wown t' hw
  · intro id t' hh
    obtain ⟨l, hl, hp⟩ := hI.hprov id t' hh
    show ∃ l, ids'.threads[t']? = some l ∧ _
    by_cases htt : t' = t
    · subst htt
      rw [hold] at hl; cases hl
      exact ⟨new, by rw [hth, List.getElem?_set_self hlt], pastOwner_trans htr hp⟩
    · exact ⟨l, by rw [hne t' htt]; exact hl, hp⟩
  · intro t' id ht' hent
    have hw : wpc s t' ≠ .idle := entered_ne_idle hent
    have ht'' : ids'.threads[t']? = some (.owner id) := ht'
    rw [hbusy t' hw] at ht''
    exact hI.bound t' id ht'' hent
  · intro t' id e ht' hg
    have hw : wpc s t' ≠ .idle := by rw [show wpc s t' = .guarded e from hg]; simp
    have ht'' : ids'.threads[t']? = some (.owner id) := ht'
    rw [hbusy t' hw] at ht''
    exact hI.pin t' id e ht'' hg
  · intro id hid
    rcases hI.einv id hid with h0 | ⟨t', ht', hg⟩
    · exact Or.inl h0
    · right
      have hw : wpc s t' ≠ .idle := by rw [hg]; simp
      exact ⟨t', by show ids'.threads[t']? = _; rw [hbusy t' hw]; exact ht', hg⟩
  · intro t' id e hm
    obtain ⟨h1, h2, h3⟩ := hI.must t' id e hm
    have hw : wpc s t' ≠ .idle := by rw [h2]; simp
    exact ⟨by show ids'.threads[t']? = _; rw [hbusy t' hw]; exact h1, h2, h3⟩


/-! ### worker steps -/

theorem getD_set_eq {α} (l : List α) (i : Nat) (x d : α) (h : i < l.length) : (l.set i x).getD i d = x := by
  simp [List.getD_eq_getElem?_getD, h]

theorem getD_set_ne' {α} (l : List α) (i j : Nat) (x d : α) (h : i ≠ j) : (l.set i x).getD j d = l.getD j d := by
  simp [List.getD_eq_getElem?_getD, List.getElem?_set_ne h]

theorem ownId_some {s : St} {t id : Nat} (h : ownId s t = some id) : s.ids.threads[t]? = some (.owner id) := by
  unfold ownId at h
  split at h
  · rename_i id' ht; cases h; exact ht
  · cases h

theorem wpc_set {s s' : St} {t : Nat} {x : WPc} (hw : s'.w = s.w.set t x) (hlt : t < s.w.length) :
    wpc s' t = x ∧ ∀ t', t' ≠ t → wpc s' t' = wpc s t' := by
  unfold wpc
  rw [hw]
  exact ⟨getD_set_eq _ _ _ _ hlt, fun t' h => getD_set_ne' _ _ _ _ _ (Ne.symm h)⟩

theorem quiet_false {g0 n : Nat} {s : St} (hI : Inv g0 n s) {t : Nat} (hw : wpc s t ≠ .idle) : s.quiet = false := by
  cases hq : s.quiet with
  | false => rfl
  | true => exact absurd ((hI.quiet hq).1 t) hw

theorem owner_inj {s : IdMgr.St} {t a b : Nat} (h1 : s.threads[t]? = some (.owner a)) (h2 : s.threads[t]? = some (.owner b)) :
    a = b := by
  rw [h1] at h2; cases h2; rfl

/-- a worker moves `p → x` where neither is `guarded`, nothing else changes except possibly `quiet := false` -/
theorem inv_wmove {g0 n : Nat} {s s' : St} (hI : Inv g0 n s) {t id : Nat}
    (hown : s.ids.threads[t]? = some (.owner id)) {x : WPc}
    (hids : s'.ids = s.ids) (hG : s'.G = s.G) (hM : s'.M = s.M) (hE : s'.E = s.E) (hH : s'.H = s.H)
    (hw : s'.w = s.w.set t x) (hc : s'.c = s.c) (hmust : s'.must = s.must) (hf : s'.fwds = s.fwds)
    (hq : s'.quiet = true → s.quiet = true ∧ x = .idle)
    (hng : ∀ e, wpc s t ≠ .guarded e) (hxg : ∀ e, x ≠ .guarded e)
    (hxs : ∀ v, x = .entS v → v ≤ s.G)
    (hxe : entered x = true → s.H.getD id none = some t) : Inv g0 n s' := by
  have hlt : t < s.w.length := by rw [hI.wlen]; exact IdMgr.getElem?_lt' hown
  obtain ⟨hws, hwn⟩ := wpc_set hw hlt
  have hgd : ∀ t' e, wpc s t' = .guarded e → wpc s' t' = .guarded e := by
    intro t' e hg
    rw [hwn t' (by intro h; subst h; exact hng e hg)]; exact hg
  refine ⟨by rw [hids]; exact hI.ids, by rw [hE]; exact hI.elen, by rw [hH]; exact hI.hlen,
    by rw [hw, hids]; simpa using hI.wlen, ?_, ?_, ?_, ?_, ?_, ?_, ?_, ?_, by rw [hM, hG]; exact hI.mg,
    by rw [hG, hf, hc]; exact hI.cnt, ?_⟩
  · intro t' hw'
    rw [hids]
    by_cases htt : t' = t
    · subst htt; exact ⟨id, hown⟩
    · rw [hwn t' htt] at hw'; exact hI.wown t' hw'
  · intro id' t' hh; rw [hH] at hh; rw [hids]; exact hI.hprov id' t' hh
  · intro t' id' ht' hent
    rw [hids] at ht'; rw [hH]
    by_cases htt : t' = t
    · subst htt
      rw [hws] at hent
      have := owner_inj hown ht'; subst this
      exact hxe hent
    · rw [hwn t' htt] at hent; exact hI.bound t' id' ht' hent
  · intro t' id' e ht' hg
    rw [hids] at ht'; rw [hE, hG]
    by_cases htt : t' = t
    · subst htt; rw [hws] at hg; exact absurd hg (hxg e)
    · rw [hwn t' htt] at hg; exact hI.pin t' id' e ht' hg
  · intro t' v hv
    rw [hG]
    by_cases htt : t' = t
    · subst htt; rw [hws] at hv; exact hxs v hv
    · rw [hwn t' htt] at hv; exact hI.ents t' v hv
  · intro id' hid'
    rw [hE, hids]
    rcases hI.einv id' hid' with h0 | ⟨t', ht', hg⟩
    · exact Or.inl h0
    · exact Or.inr ⟨t', ht', hgd t' _ hg⟩
  · intro t' id' e hm
    rw [hmust] at hm
    obtain ⟨h1, h2, h3⟩ := hI.must t' id' e hm
    exact ⟨by rw [hids]; exact h1, hgd t' e h2, by rw [hc]; exact h3⟩
  · have := hI.coord
    unfold CoordOK at *
    rw [hc, hG]; exact this
  · intro hq'
    obtain ⟨hq1, hx⟩ := hq hq'
    obtain ⟨ha, hb⟩ := hI.quiet hq1
    refine ⟨?_, by rw [hc]; exact hb⟩
    intro t'
    by_cases htt : t' = t
    · subst htt; rw [hws]; exact hx
    · rw [hwn t' htt]; exact ha t'


/-- `tls.heartbeat = IDManager::GetHeartBeat()` -/
theorem inv_bindAsg {g0 n : Nat} {s : St} (hI : Inv g0 n s) {t id : Nat}
    (hown : s.ids.threads[t]? = some (.owner id)) (hp : wpc s t = .bindAsg) :
    Inv g0 n { s with H := s.H.set id (some t), w := s.w.set t .entL } := by
  have hlt : t < s.w.length := by rw [hI.wlen]; exact IdMgr.getElem?_lt' hown
  have hidn : id < n := hI.ids.pos _ (List.mem_of_getElem? hown) id rfl
  obtain ⟨hws, hwn⟩ := wpc_set (s := s) (s' := { s with H := s.H.set id (some t), w := s.w.set t .entL }) rfl hlt
  have hgd : ∀ t' e, wpc s t' = .guarded e → wpc { s with H := s.H.set id (some t), w := s.w.set t .entL } t' = .guarded e := by
    intro t' e hg
    rw [hwn t' (by intro h; subst h; rw [hp] at hg; cases hg)]; exact hg
  have hHs : (s.H.set id (some t)).getD id none = some t := getD_set_eq _ _ _ _ (by rw [hI.hlen]; exact hidn)
  have hHn : ∀ id', id' ≠ id → (s.H.set id (some t)).getD id' none = s.H.getD id' none :=
    fun id' h => getD_set_ne' _ _ _ _ _ (Ne.symm h)
  refine ⟨hI.ids, hI.elen, by simpa using hI.hlen, by simpa using hI.wlen, ?_, ?_, ?_, ?_, ?_, ?_, ?_, hI.coord, hI.mg,
    hI.cnt, ?_⟩
  · intro t' hw'
    by_cases htt : t' = t
    · subst htt; exact ⟨id, hown⟩
    · rw [hwn t' htt] at hw'; exact hI.wown t' hw'
  · intro id' t' hh
    by_cases hii : id' = id
    · subst hii
      have hh' : (s.H.set id' (some t)).getD id' none = some t' := hh
      rw [hHs] at hh'; cases hh'
      exact ⟨_, hown, Or.inl rfl⟩
    · have hh' : (s.H.set id (some t)).getD id' none = some t' := hh
      rw [hHn id' hii] at hh'; exact hI.hprov id' t' hh'
  · intro t' id' ht' hent
    show (s.H.set id (some t)).getD id' none = some t'
    by_cases htt : t' = t
    · subst htt
      have := owner_inj hown ht'; subst this
      exact hHs
    · rw [hwn t' htt] at hent
      have hii : id' ≠ id := by
        intro e; subst e; exact htt (unique_owner hI.ids ht' hown)
      rw [hHn id' hii]; exact hI.bound t' id' ht' hent
  · intro t' id' e ht' hg
    by_cases htt : t' = t
    · subst htt; rw [hws] at hg; cases hg
    · rw [hwn t' htt] at hg; exact hI.pin t' id' e ht' hg
  · intro t' v hv
    by_cases htt : t' = t
    · subst htt; rw [hws] at hv; cases hv
    · rw [hwn t' htt] at hv; exact hI.ents t' v hv
  · intro id' hid'
    rcases hI.einv id' hid' with h0 | ⟨t', ht', hg⟩
    · exact Or.inl h0
    · exact Or.inr ⟨t', ht', hgd t' _ hg⟩
  · intro t' id' e hm
    obtain ⟨h1, h2, h3⟩ := hI.must t' id' e hm
    exact ⟨h1, hgd t' e h2, h3⟩
  · intro hq'
    have := quiet_false hI (t := t) (by rw [hp]; simp)
    rw [this] at hq'; cases hq'

/-- `entered_.store(v)`: the guard is complete -/
theorem inv_entS {g0 n : Nat} {s : St} (hI : Inv g0 n s) {t id v : Nat}
    (hown : s.ids.threads[t]? = some (.owner id)) (hp : wpc s t = .entS v) :
    Inv g0 n { s with E := s.E.set id v, w := s.w.set t (.guarded v) } := by
  have hlt : t < s.w.length := by rw [hI.wlen]; exact IdMgr.getElem?_lt' hown
  have hidn : id < n := hI.ids.pos _ (List.mem_of_getElem? hown) id rfl
  obtain ⟨hws, hwn⟩ := wpc_set (s := s) (s' := { s with E := s.E.set id v, w := s.w.set t (.guarded v) }) rfl hlt
  have hgd : ∀ t' e, wpc s t' = .guarded e → wpc { s with E := s.E.set id v, w := s.w.set t (.guarded v) } t' = .guarded e := by
    intro t' e hg
    rw [hwn t' (by intro h; subst h; rw [hp] at hg; cases hg)]; exact hg
  have hEs : (s.E.set id v).getD id sizeMax = v := getD_set_eq _ _ _ _ (by rw [hI.elen]; exact hidn)
  have hEn : ∀ id', id' ≠ id → (s.E.set id v).getD id' sizeMax = s.E.getD id' sizeMax :=
    fun id' h => getD_set_ne' _ _ _ _ _ (Ne.symm h)
  refine ⟨hI.ids, by simpa using hI.elen, hI.hlen, by simpa using hI.wlen, ?_, hI.hprov, ?_, ?_, ?_, ?_, ?_, hI.coord, hI.mg,
    hI.cnt, ?_⟩
  · intro t' hw'
    by_cases htt : t' = t
    · subst htt; exact ⟨id, hown⟩
    · rw [hwn t' htt] at hw'; exact hI.wown t' hw'
  · intro t' id' ht' hent
    by_cases htt : t' = t
    · subst htt
      have := owner_inj hown ht'; subst this
      exact hI.bound t' id hown (by rw [hp]; rfl)
    · rw [hwn t' htt] at hent; exact hI.bound t' id' ht' hent
  · intro t' id' e ht' hg
    show (s.E.set id v).getD id' sizeMax = e ∧ e ≤ s.G
    by_cases htt : t' = t
    · subst htt
      have := owner_inj hown ht'; subst this
      rw [hws] at hg; cases hg
      exact ⟨hEs, hI.ents t' _ hp⟩
    · rw [hwn t' htt] at hg
      have hii : id' ≠ id := by
        intro e; subst e; exact htt (unique_owner hI.ids ht' hown)
      rw [hEn id' hii]; exact hI.pin t' id' e ht' hg
  · intro t' v' hv
    by_cases htt : t' = t
    · subst htt; rw [hws] at hv; cases hv
    · rw [hwn t' htt] at hv; exact hI.ents t' v' hv
  · intro id' hid'
    show (s.E.set id v).getD id' sizeMax = sizeMax ∨ ∃ t', s.ids.threads[t']? = some (.owner id') ∧
      wpc { s with E := s.E.set id v, w := s.w.set t (.guarded v) } t' = .guarded ((s.E.set id v).getD id' sizeMax)
    by_cases hii : id' = id
    · subst hii
      rw [hEs]
      exact Or.inr ⟨t, hown, hws⟩
    · rw [hEn id' hii]
      rcases hI.einv id' hid' with h0 | ⟨t', ht', hg⟩
      · exact Or.inl h0
      · exact Or.inr ⟨t', ht', hgd t' _ hg⟩
  · intro t' id' e hm
    obtain ⟨h1, h2, h3⟩ := hI.must t' id' e hm
    exact ⟨h1, hgd t' e h2, h3⟩
  · intro hq'
    have := quiet_false hI (t := t) (by rw [hp]; simp)
    rw [this] at hq'; cases hq'

/-- `~EpochGuard`: `entered_.store(max)` -/
theorem inv_leave {g0 n : Nat} {s : St} (hI : Inv g0 n s) {t id e0 : Nat}
    (hown : s.ids.threads[t]? = some (.owner id)) (hp : wpc s t = .guarded e0) :
    Inv g0 n { s with E := s.E.set id sizeMax, w := s.w.set t .idle, must := s.must.filter (fun g => g.1 != t) } := by
  have hlt : t < s.w.length := by rw [hI.wlen]; exact IdMgr.getElem?_lt' hown
  have hidn : id < n := hI.ids.pos _ (List.mem_of_getElem? hown) id rfl
  obtain ⟨hws, hwn⟩ := wpc_set (s := s)
    (s' := { s with E := s.E.set id sizeMax, w := s.w.set t .idle, must := s.must.filter (fun g => g.1 != t) }) rfl hlt
  have hEs : (s.E.set id sizeMax).getD id sizeMax = sizeMax := getD_set_eq _ _ _ _ (by rw [hI.elen]; exact hidn)
  have hEn : ∀ id', id' ≠ id → (s.E.set id sizeMax).getD id' sizeMax = s.E.getD id' sizeMax :=
    fun id' h => getD_set_ne' _ _ _ _ _ (Ne.symm h)
  refine ⟨hI.ids, by simpa using hI.elen, hI.hlen, by simpa using hI.wlen, ?_, hI.hprov, ?_, ?_, ?_, ?_, ?_, hI.coord, hI.mg,
    hI.cnt, ?_⟩
  · intro t' hw'
    by_cases htt : t' = t
    · subst htt; exact ⟨id, hown⟩
    · rw [hwn t' htt] at hw'; exact hI.wown t' hw'
  · intro t' id' ht' hent
    by_cases htt : t' = t
    · subst htt; rw [hws] at hent; cases hent
    · rw [hwn t' htt] at hent; exact hI.bound t' id' ht' hent
  · intro t' id' e ht' hg
    show (s.E.set id sizeMax).getD id' sizeMax = e ∧ e ≤ s.G
    by_cases htt : t' = t
    · subst htt; rw [hws] at hg; cases hg
    · rw [hwn t' htt] at hg
      have hii : id' ≠ id := by
        intro e; subst e; exact htt (unique_owner hI.ids ht' hown)
      rw [hEn id' hii]; exact hI.pin t' id' e ht' hg
  · intro t' v' hv
    by_cases htt : t' = t
    · subst htt; rw [hws] at hv; cases hv
    · rw [hwn t' htt] at hv; exact hI.ents t' v' hv
  · intro id' hid'
    show (s.E.set id sizeMax).getD id' sizeMax = sizeMax ∨ ∃ t', s.ids.threads[t']? = some (.owner id') ∧
      wpc { s with E := s.E.set id sizeMax, w := s.w.set t .idle, must := s.must.filter (fun g => g.1 != t) } t' =
        .guarded ((s.E.set id sizeMax).getD id' sizeMax)
    by_cases hii : id' = id
    · subst hii; exact Or.inl hEs
    · rw [hEn id' hii]
      rcases hI.einv id' hid' with h0 | ⟨t', ht', hg⟩
      · exact Or.inl h0
      · have htt : t' ≠ t := by
          intro e; subst e; exact hii (owner_inj ht' hown)
        exact Or.inr ⟨t', ht', by rw [hwn t' htt]; exact hg⟩
  · intro t' id' e hm
    have hm' : (t', id', e) ∈ s.must.filter (fun g => g.1 != t) := hm
    rw [List.mem_filter] at hm'
    obtain ⟨h1, h2, h3⟩ := hI.must t' id' e hm'.1
    have htt : t' ≠ t := by simpa using hm'.2
    exact ⟨h1, by rw [hwn t' htt]; exact h2, h3⟩
  · intro hq'
    have := quiet_false hI (t := t) (by rw [hp]; simp)
    rw [this] at hq'; cases hq'


/-! ### coordinator steps -/

theorem mem_guardsNow {s : St} {t id e : Nat} :
    (t, id, e) ∈ guardsNow s ↔ t < s.w.length ∧ ownId s t = some id ∧ wpc s t = .guarded e := by
  unfold guardsNow
  rw [List.mem_filterMap]
  constructor
  · rintro ⟨t', ht', h⟩
    split at h
    · rename_i id' e' ho hw
      cases h
      exact ⟨by simpa using ht', ho, hw⟩
    · cases h
  · rintro ⟨hlt, ho, hw⟩
    exact ⟨t, by simpa using hlt, by rw [ho, hw]⟩

/-- a coordinator step: only `c`, the ghosts, `G` and `M` change -/
theorem inv_cgen {g0 n : Nat} {s s' : St} (hI : Inv g0 n s)
    (hids : s'.ids = s.ids) (hE : s'.E = s.E) (hH : s'.H = s.H) (hw : s'.w = s.w)
    (hG : s.G ≤ s'.G)
    (hmust : ∀ t id e, (t, id, e) ∈ s'.must →
      s.ids.threads[t]? = some (.owner id) ∧ wpc s t = .guarded e ∧ seen s'.c id e)
    (hcoord : CoordOK s') (hmg : s'.M ≤ s'.G) (hcnt : s'.G = g0 + s'.fwds + pending s'.c)
    (hquiet : s'.quiet = true → (∀ t, wpc s t = .idle) ∧ quietC s'.c) : Inv g0 n s' := by
  have hwp : ∀ t, wpc s' t = wpc s t := by intro t; unfold wpc; rw [hw]
  refine ⟨by rw [hids]; exact hI.ids, by rw [hE]; exact hI.elen, by rw [hH]; exact hI.hlen,
    by rw [hw, hids]; exact hI.wlen, ?_, ?_, ?_, ?_, ?_, ?_, ?_, hcoord, hmg, hcnt, ?_⟩
  · intro t h; rw [hwp] at h; rw [hids]; exact hI.wown t h
  · intro id t' h; rw [hH] at h; rw [hids]; exact hI.hprov id t' h
  · intro t id ht he; rw [hids] at ht; rw [hwp] at he; rw [hH]; exact hI.bound t id ht he
  · intro t id e ht hg
    rw [hids] at ht; rw [hwp] at hg; rw [hE]
    have := hI.pin t id e ht hg
    exact ⟨this.1, Nat.le_trans this.2 hG⟩
  · intro t v hv; rw [hwp] at hv; exact Nat.le_trans (hI.ents t v hv) hG
  · intro id hid
    rw [hE, hids]
    rcases hI.einv id hid with h0 | ⟨t, ht, hg⟩
    · exact Or.inl h0
    · exact Or.inr ⟨t, ht, by rw [hwp]; exact hg⟩
  · intro t id e hm
    obtain ⟨h1, h2, h3⟩ := hmust t id e hm
    exact ⟨by rw [hids]; exact h1, by rw [hwp]; exact h2, h3⟩
  · intro hq
    obtain ⟨h1, h2⟩ := hquiet hq
    exact ⟨fun t => by rw [hwp]; exact h1 t, h2⟩

theorem seen_afterScan {n cur i : Nat} {coll : List Nat} {id e : Nat} (hid : id < n)
    (h : id < i → e < sizeMax → e ∈ coll) : seen (afterScan n cur i coll) id e := by
  unfold afterScan
  split
  · exact h
  · rename_i hlt
    intro he
    exact ((sortDescDedup_spec coll).2 e).mpr (h (by omega) he)

theorem pending_afterScan (n cur i : Nat) (coll : List Nat) : pending (afterScan n cur i coll) = 0 := by
  unfold afterScan; split <;> rfl

theorem coord_afterScan {s' : St} {n cur i : Nat} {coll : List Nat} (hc : s'.c = afterScan n cur i coll)
    (hG : cur = s'.G) (hm : cur ∈ coll) : CoordOK s' := by
  unfold CoordOK
  by_cases hin : i < n
  · have : s'.c = .scanChk cur i coll := by rw [hc]; unfold afterScan; rw [if_pos hin]
    rw [this]; exact ⟨hG, hm⟩
  · have : s'.c = .storeG cur (sortDescDedup coll) := by rw [hc]; unfold afterScan; rw [if_neg hin]
    rw [this]; exact ⟨hG, (sortDescDedup_spec coll).1, ((sortDescDedup_spec coll).2 cur).mpr hm⟩

theorem quietC_afterScan (n cur i : Nat) : quietC (afterScan n cur i [cur + 1, cur]) := by
  unfold afterScan
  split
  · rfl
  · exact quiescent_list cur

theorem all_idle {s : St} (h : s.w.all (· == .idle) = true) (t : Nat) : wpc s t = .idle := by
  unfold wpc
  rw [List.getD_eq_getElem?_getD]
  cases hg : s.w[t]? with
  | none => rfl
  | some p =>
    have := List.all_eq_true.mp h p (List.mem_of_getElem? hg)
    simpa using this

theorem not_expired_of_bound {g0 n : Nat} {s : St} (hI : Inv g0 n s) {t id : Nat}
    (hown : s.ids.threads[t]? = some (.owner id)) (hb : s.H.getD id none = some t) : expired s id = false := by
  have := hI.ids.tok t _ hown
  unfold expired
  rw [hb]
  show (!(s.ids.alive.getD t false)) = false
  rw [this]; rfl

theorem inv_fwd {g0 n : Nat} (hn : 0 < n) {s s' : St} (hI : Inv g0 n s) (h : step n true s .fwd = some s') :
    Inv g0 n s' := by
  simp only [step] at h
  split at h
  · -- start
    rename_i hc
    cases h
    have hcs : afterScan n s.G 0 [s.G + 1, s.G] = .scanChk s.G 0 [s.G + 1, s.G] := by
      unfold afterScan; rw [if_pos hn]
    refine inv_cgen hI rfl rfl rfl rfl (Nat.le_refl _) ?_ ?_ ?_ ?_ ?_
    · intro t id e hm
      have hm' : (t, id, e) ∈ guardsNow s := hm
      obtain ⟨_, ho, hw⟩ := mem_guardsNow.mp hm'
      refine ⟨ownId_some ho, hw, ?_⟩
      show seen (afterScan n s.G 0 [s.G + 1, s.G]) id e
      rw [hcs]; intro h0; omega
    · exact coord_afterScan (n := n) (cur := s.G) (i := 0) (coll := [s.G + 1, s.G]) rfl rfl (by simp)
    · exact hI.mg
    · show s.G = g0 + s.fwds + pending (afterScan n s.G 0 [s.G + 1, s.G])
      rw [pending_afterScan]
      have := hI.cnt; rw [hc] at this; exact this
    · intro hq
      exact ⟨all_idle hq, quietC_afterScan n s.G 0⟩
  · -- scanChk
    rename_i cur i coll hc
    cases h
    have hco := hI.coord
    unfold CoordOK at hco
    rw [hc] at hco
    have hcnt := hI.cnt
    rw [hc] at hcnt
    refine inv_cgen hI rfl rfl rfl rfl (Nat.le_refl _) ?_ ?_ ?_ ?_ ?_
    · intro t id e hm
      obtain ⟨h1, h2, h3⟩ := hI.must t id e hm
      refine ⟨h1, h2, ?_⟩
      rw [hc] at h3
      show seen (if expired s i then afterScan n cur (i + 1) coll else .scanLoad cur i coll) id e
      split
      · rename_i hex
        have hidn : id < n := hI.ids.pos _ (List.mem_of_getElem? h1) id rfl
        apply seen_afterScan hidn
        intro hlt he
        by_cases hii : id = i
        · subst hii
          have hb := hI.bound t id h1 (by rw [h2]; rfl)
          rw [not_expired_of_bound hI h1 hb] at hex; cases hex
        · exact h3 (by omega) he
      · exact h3
    · show CoordOK { s with c := if expired s i then afterScan n cur (i + 1) coll else .scanLoad cur i coll }
      split
      · exact coord_afterScan (n := n) (cur := cur) (i := i + 1) (coll := coll) rfl hco.1 hco.2
      · exact hco
    · exact hI.mg
    · show s.G = g0 + s.fwds + pending (if expired s i then afterScan n cur (i + 1) coll else .scanLoad cur i coll)
      split
      · rw [pending_afterScan]; exact hcnt
      · exact hcnt
    · intro hq
      obtain ⟨h1, h2⟩ := hI.quiet hq
      rw [hc] at h2
      refine ⟨h1, ?_⟩
      show quietC (if expired s i then afterScan n cur (i + 1) coll else .scanLoad cur i coll)
      have h2' : coll = [cur + 1, cur] := h2
      split
      · rw [h2']; exact quietC_afterScan n cur (i + 1)
      · exact h2'
  · -- scanLoad
    rename_i cur i coll hc
    cases h
    have hco := hI.coord
    unfold CoordOK at hco
    rw [hc] at hco
    have hcnt := hI.cnt
    rw [hc] at hcnt
    have hsub : ∀ x, x ∈ coll → x ∈ (if s.E.getD i sizeMax < sizeMax then coll ++ [s.E.getD i sizeMax] else coll) := by
      intro x hx; split
      · exact List.mem_append_left _ hx
      · exact hx
    refine inv_cgen hI rfl rfl rfl rfl (Nat.le_refl _) ?_ ?_ ?_ ?_ ?_
    · intro t id e hm
      obtain ⟨h1, h2, h3⟩ := hI.must t id e hm
      refine ⟨h1, h2, ?_⟩
      rw [hc] at h3
      have hidn : id < n := hI.ids.pos _ (List.mem_of_getElem? h1) id rfl
      apply seen_afterScan hidn
      intro hlt he
      by_cases hii : id = i
      · subst hii
        have hp := (hI.pin t id e h1 h2).1
        rw [hp, if_pos he]
        exact List.mem_append_right _ (List.mem_singleton.mpr rfl)
      · exact hsub e (h3 (by omega) he)
    · exact coord_afterScan (n := n) (cur := cur) (i := i + 1) rfl hco.1 (hsub _ hco.2)
    · exact hI.mg
    · show s.G = g0 + s.fwds + pending (afterScan n cur (i + 1) _)
      rw [pending_afterScan]; exact hcnt
    · intro hq
      obtain ⟨h1, h2⟩ := hI.quiet hq
      rw [hc] at h2
      refine ⟨h1, ?_⟩
      have h2' : coll = [cur + 1, cur] := h2
      have hv : s.E.getD i sizeMax = sizeMax := by
        by_cases hin : i < n
        · rcases hI.einv i hin with h0 | ⟨t, _, hg⟩
          · exact h0
          · rw [h1 t] at hg; cases hg
        · rw [List.getD_eq_getElem?_getD, List.getElem?_eq_none (by rw [hI.elen]; omega)]; rfl
      show quietC (afterScan n cur (i + 1) (if s.E.getD i sizeMax < sizeMax then coll ++ [s.E.getD i sizeMax] else coll))
      rw [hv, if_neg (Nat.lt_irrefl _), h2']
      exact quietC_afterScan n cur (i + 1)
  · -- storeG
    rename_i cur list hc
    cases h
    have hco := hI.coord
    unfold CoordOK at hco
    rw [hc] at hco
    have hcnt := hI.cnt
    rw [hc] at hcnt
    refine inv_cgen hI rfl rfl rfl rfl ?_ ?_ ?_ ?_ ?_ ?_
    · show s.G ≤ cur + 1
      omega
    · intro t id e hm
      obtain ⟨h1, h2, h3⟩ := hI.must t id e hm
      rw [hc] at h3
      exact ⟨h1, h2, h3⟩
    · exact ⟨rfl, hco.2.1, hco.2.2⟩
    · show s.M ≤ cur + 1
      have := hI.mg; omega
    · show cur + 1 = g0 + s.fwds + 1
      simp only [pending] at hcnt; omega
    · intro hq
      obtain ⟨h1, h2⟩ := hI.quiet hq
      rw [hc] at h2
      exact ⟨h1, h2⟩
  · -- storeM
    rename_i cur list hc
    cases h
    have hco := hI.coord
    unfold CoordOK at hco
    rw [hc] at hco
    have hcnt := hI.cnt
    rw [hc] at hcnt
    refine inv_cgen hI rfl rfl rfl rfl (Nat.le_refl _) ?_ ?_ ?_ ?_ ?_
    · intro t id e hm
      obtain ⟨h1, h2, _⟩ := hI.must t id e hm
      exact ⟨h1, h2, trivial⟩
    · trivial
    · show list.getLast?.getD 0 ≤ s.G
      cases hl : list.getLast? with
      | none => simp
      | some m =>
        have := desc_last_le list hco.2.1 m hl cur hco.2.2
        simp only [Option.getD_some]; omega
    · show s.G = g0 + (s.fwds + 1) + 0
      simp only [pending] at hcnt; omega
    · intro _
      exact ⟨fun t => (hI.quiet ‹_›).1 t, trivial⟩


/-! ### every step keeps the invariant -/

theorem inv_idStep {g0 n : Nat} (hn : 0 < n) {s s' : St} (hI : Inv g0 n s) {a : IdMgr.Act}
    (h : idStep n true s a = some s') (hex : ∀ t, a = .beginExit t → wpc s t = .idle) : Inv g0 n s' := by
  unfold idStep at h
  split at h
  · rename_i ids e hs
    cases h
    exact inv_id hn hI hs hex
  · cases h

theorem bindChk_bound {g0 n : Nat} {s : St} (hI : Inv g0 n s) {t id : Nat}
    (hown : s.ids.threads[t]? = some (.owner id)) (hex : expired s id = false) : s.H.getD id none = some t := by
  unfold expired at hex
  cases hh : s.H.getD id none with
  | none => rw [hh] at hex; cases hex
  | some t' =>
    rw [hh] at hex
    have hal : s.ids.alive.getD t' false = true := by
      have : (!(s.ids.alive.getD t' false)) = false := hex
      cases hb : s.ids.alive.getD t' false with
      | true => rfl
      | false => rw [hb] at this; cases this
    obtain ⟨l, hl, hp⟩ := hI.hprov id t' hh
    rw [hI.ids.tok t' l hl] at hal
    have hr : reserves true l = some id := by
      rcases hp with rfl | rfl | rfl | rfl <;> simp [holdsToken] at hal <;> rfl
    have hidn : id < n := hI.ids.pos _ (List.mem_of_getElem? hown) id rfl
    have := unique_reserver hI.ids hl hown hr rfl hidn
    rw [this]

theorem inv_step {g0 n : Nat} (hn : 0 < n) {s s' : St} {a : Act} (hI : Inv g0 n s)
    (h : step n true s a = some s') : Inv g0 n s' := by
  cases a with
  | id a =>
    cases a with
    | beginExit t =>
      simp only [step] at h
      split at h
      · rename_i hw
        exact inv_idStep hn hI h (by intro t' e; cases e; exact hw)
      · cases h
    | begin t st =>
      simp only [step] at h
      exact inv_idStep hn hI h (by intro t' e; cases e)
    | atom t =>
      simp only [step] at h
      exact inv_idStep hn hI h (by intro t' e; cases e)
  | create t =>
    simp only [step] at h
    split at h
    · rename_i id ho
      split at h
      · rename_i hw
        cases h
        refine inv_wmove hI (ownId_some ho) (x := .bindChk) rfl rfl rfl rfl rfl rfl rfl rfl rfl ?_ ?_ ?_ ?_ ?_
        · intro hq; cases hq
        · intro e he; rw [hw] at he; cases he
        · intro e he; cases he
        · intro v he; cases he
        · intro he; cases he
      · cases h
    · cases h
  | wstep t =>
    simp only [step] at h
    split at h
    · cases h
    · rename_i id ho
      have hown := ownId_some ho
      split at h
      · cases h
      · rename_i hw
        cases h
        refine inv_wmove hI hown (x := if expired s id then .bindAsg else .entL) rfl rfl rfl rfl rfl rfl rfl rfl rfl
          ?_ ?_ ?_ ?_ ?_
        · intro hq
          have := quiet_false hI (t := t) (by rw [hw]; simp)
          rw [this] at hq; cases hq
        · intro e he; rw [hw] at he; cases he
        · intro e he; split at he <;> cases he
        · intro v he; split at he <;> cases he
        · intro he
          split at he
          · cases he
          · rename_i hex
            exact bindChk_bound hI hown (by simpa using hex)
      · rename_i hw
        cases h
        exact inv_bindAsg hI hown hw
      · rename_i hw
        cases h
        refine inv_wmove hI hown (x := .entS s.G) rfl rfl rfl rfl rfl rfl rfl rfl rfl ?_ ?_ ?_ ?_ ?_
        · intro hq
          have := quiet_false hI (t := t) (by rw [hw]; simp)
          rw [this] at hq; cases hq
        · intro e he; rw [hw] at he; cases he
        · intro e he; cases he
        · intro v he; cases he; exact Nat.le_refl _
        · intro _; exact hI.bound t id hown (by rw [hw]; rfl)
      · rename_i v hw
        cases h
        exact inv_entS hI hown hw
      · rename_i e hw
        cases h
        exact inv_leave hI hown hw
  | fwd => exact inv_fwd hn hI h

theorem inv_run {g0 n : Nat} (hn : 0 < n) : ∀ (acts : List Act) (s s' : St), Inv g0 n s →
    run n true s acts = some s' → Inv g0 n s'
  | [], s, s', hI, h => by simp only [run] at h; cases h; exact hI
  | a :: as, s, s', hI, h => by
    simp only [run] at h
    split at h
    · rename_i s1 hs
      exact inv_run hn as s1 s' (inv_step hn hI hs) h
    · cases h


/-! ### the global epoch only moves in the coordinator's `storeG` step -/

theorem idStep_G {n : Nat} {ef : Bool} {s s' : St} {a : IdMgr.Act} (h : idStep n ef s a = some s') :
    s'.G = s.G ∧ s'.M = s.M ∧ s'.must = s.must ∧ s'.c = s.c := by
  unfold idStep at h
  split at h
  · cases h; exact ⟨rfl, rfl, rfl, rfl⟩
  · cases h

theorem step_G {g0 n : Nat} {s s' : St} {a : Act} (hI : Inv g0 n s) (h : step n true s a = some s') :
    s'.G = s.G ∨ (s'.G = s.G + 1 ∧ a = .fwd ∧ ∃ list, s.c = .storeG s.G list) := by
  cases a with
  | id a =>
    left
    cases a with
    | beginExit t =>
      simp only [step] at h
      split at h
      · exact (idStep_G h).1
      · cases h
    | begin t st => simp only [step] at h; exact (idStep_G h).1
    | atom t => simp only [step] at h; exact (idStep_G h).1
  | create t =>
    left
    simp only [step] at h
    split at h
    · split at h
      · cases h; rfl
      · cases h
    · cases h
  | wstep t =>
    left
    simp only [step] at h
    split at h
    · cases h
    · split at h <;> cases h <;> rfl
  | fwd =>
    simp only [step] at h
    split at h
    · cases h; exact Or.inl rfl
    · cases h; exact Or.inl rfl
    · cases h; exact Or.inl rfl
    · rename_i cur list hc
      cases h
      have hco := hI.coord
      unfold CoordOK at hco
      rw [hc] at hco
      right
      refine ⟨?_, rfl, list, ?_⟩
      · show cur + 1 = s.G + 1
        rw [hco.1]
      · rw [hc, hco.1]
    · cases h; exact Or.inl rfl

theorem run_G_mono {g0 n : Nat} (hn : 0 < n) : ∀ (acts : List Act) (s s' : St), Inv g0 n s →
    run n true s acts = some s' → s.G ≤ s'.G
  | [], s, s', _, h => by simp only [run] at h; cases h; exact Nat.le_refl _
  | a :: as, s, s', hI, h => by
    simp only [run] at h
    split at h
    · rename_i s1 hs
      have h1 := run_G_mono hn as s1 s' (inv_step hn hI hs) h
      rcases step_G hI hs with h2 | ⟨h2, _⟩ <;> omega
    · cases h

theorem run_append {n : Nat} {ef : Bool} : ∀ (a1 a2 : List Act) (s : St),
    run n ef s (a1 ++ a2) = (run n ef s a1).bind fun s1 => run n ef s1 a2
  | [], a2, s => by simp [run]
  | a :: a1, a2, s => by
    simp only [List.cons_append, run]
    split
    · exact run_append a1 a2 _
    · rfl

end CppUtil.EpochProto
