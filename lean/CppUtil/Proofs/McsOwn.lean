/-
  MCSLock proof: node ownership in one piece.  Every live-and-used node has exactly one owner — a request
  that has not queued yet (private), a thread's one-entry cache, or a lock's queue — and steps move nodes
  between owners.  `OwnInv` packages the nine ownership clauses of `Inv`; `ownInv_of_map` derives it for a
  successor state from a description of where each owned node came from.
-/
import CppUtil.Proofs.McsHardH

namespace CppUtil.Mcs
open CppUtil

inductive Owner where
  | priv (i : Nat)
  | cache (t : Nat)
  | grp (ℓ : Nat)
  deriving DecidableEq, Repr

def Owns (s : St) (Q : Nat → List Grp) (k : Nat) : Owner → Prop
  | .priv i => ∃ a, s.agents[i]? = some a ∧ a.loc.priv = true ∧ a.qnode = k
  | .cache t => s.tls[t]? = some (some k)
  | .grp ℓ => ∃ G ∈ Q ℓ, G.node = k

structure OwnInv (s : St) (Q : Nat → List Grp) : Prop where
  live : ∀ k o, Owns s Q k o → nodeLive s k = true
  uniq : ∀ k o o', Owns s Q k o → Owns s Q k o' → o = o'

variable {W : Nat → Bool → Bool → Nat → Word} {P : Params} {pb cb : Nat} {s : St} {Q : Nat → List Grp}

theorem Inv.own (hI : Inv W P pb cb s Q) : OwnInv s Q := by
  constructor
  · intro k o h
    cases o with
    | priv i => obtain ⟨a, ha, hp, rfl⟩ := h; exact hI.privLive i a ha hp
    | cache t => exact hI.cacheLive t k h
    | grp ℓ => obtain ⟨G, hG, rfl⟩ := h; exact hI.grpLive ℓ G hG
  · intro k o o' h h'
    cases o with
    | priv i =>
      obtain ⟨a, ha, hp, rfl⟩ := h
      cases o' with
      | priv j =>
        obtain ⟨b, hb, hpb, hq⟩ := h'
        rw [hI.privUniq i j a b ha hb hp hpb hq.symm]
      | cache t => exact absurd h' (hI.privC i a t ha hp)
      | grp ℓ => obtain ⟨G, hG, hn⟩ := h'; exact absurd hn (hI.privQ i a ℓ G ha hp hG)
    | cache t =>
      cases o' with
      | priv j => obtain ⟨b, hb, hpb, rfl⟩ := h'; exact absurd h (hI.privC j b t hb hpb)
      | cache t' => rw [hI.cacheUniq t t' k h h']
      | grp ℓ => obtain ⟨G, hG, hn⟩ := h'; exact absurd hn (hI.cacheQ t k ℓ G h hG)
    | grp ℓ =>
      obtain ⟨G, hG, rfl⟩ := h
      cases o' with
      | priv j => obtain ⟨b, hb, hpb, hq⟩ := h'; exact absurd hq.symm (hI.privQ j b ℓ G hb hpb hG)
      | cache t => exact absurd rfl (hI.cacheQ t G.node ℓ G h' hG)
      | grp ℓ' => obtain ⟨G', hG', hn⟩ := h'; rw [hI.grpLocks ℓ ℓ' G G' hG hG' hn.symm]

/-- the nine ownership clauses of `Inv`, from `OwnInv` -/
structure OwnClauses (s : St) (Q : Nat → List Grp) : Prop where
  privLive : ∀ (i : Nat) (a : Agent), s.agents[i]? = some a → a.loc.priv = true → nodeLive s a.qnode = true
  privUniq : ∀ (i j : Nat) (a b : Agent), s.agents[i]? = some a → s.agents[j]? = some b → a.loc.priv = true →
    b.loc.priv = true → a.qnode = b.qnode → i = j
  privQ : ∀ (i : Nat) (a : Agent) (ℓ : Nat) (G : Grp), s.agents[i]? = some a → a.loc.priv = true → G ∈ Q ℓ →
    G.node ≠ a.qnode
  privC : ∀ (i : Nat) (a : Agent) (t : Nat), s.agents[i]? = some a → a.loc.priv = true →
    s.tls[t]? ≠ some (some a.qnode)
  cacheLive : ∀ (t k : Nat), s.tls[t]? = some (some k) → nodeLive s k = true
  cacheUniq : ∀ (t t' k : Nat), s.tls[t]? = some (some k) → s.tls[t']? = some (some k) → t = t'
  cacheQ : ∀ (t k ℓ : Nat) (G : Grp), s.tls[t]? = some (some k) → G ∈ Q ℓ → G.node ≠ k
  grpLive : ∀ (ℓ : Nat) (G : Grp), G ∈ Q ℓ → nodeLive s G.node = true
  grpLocks : ∀ (ℓ ℓ' : Nat) (G G' : Grp), G ∈ Q ℓ → G' ∈ Q ℓ' → G.node = G'.node → ℓ = ℓ'

theorem OwnInv.clauses (h : OwnInv s Q) : OwnClauses s Q := by
  refine ⟨?_, ?_, ?_, ?_, ?_, ?_, ?_, ?_, ?_⟩
  · intro i a ha hp; exact h.live a.qnode (.priv i) ⟨a, ha, hp, rfl⟩
  · intro i j a b ha hb hp hpb hq
    have := h.uniq a.qnode (.priv i) (.priv j) ⟨a, ha, hp, rfl⟩ ⟨b, hb, hpb, hq.symm⟩
    cases this; rfl
  · intro i a ℓ G ha hp hG hn
    have := h.uniq a.qnode (.priv i) (.grp ℓ) ⟨a, ha, hp, rfl⟩ ⟨G, hG, hn⟩
    cases this
  · intro i a t ha hp hc
    have := h.uniq a.qnode (.priv i) (.cache t) ⟨a, ha, hp, rfl⟩ hc
    cases this
  · intro t k hc; exact h.live k (.cache t) hc
  · intro t t' k hc hc'
    have := h.uniq k (.cache t) (.cache t') hc hc'
    cases this; rfl
  · intro t k ℓ G hc hG hn
    have := h.uniq k (.cache t) (.grp ℓ) hc ⟨G, hG, hn⟩
    cases this
  · intro ℓ G hG; exact h.live G.node (.grp ℓ) ⟨G, hG, rfl⟩
  · intro ℓ ℓ' G G' hG hG' hn
    have := h.uniq G.node (.grp ℓ) (.grp ℓ') ⟨G, hG, rfl⟩ ⟨G', hG', hn.symm⟩
    cases this; rfl

/-- ownership of a successor state from a description of where each owned node came from: every owned
    node of the new state is live and was owned before by an owner that `R` relates to the new one (`R` is
    functional per node), or it is the one fresh node with its one fresh owner -/
theorem ownInv_of_map {s' : St} {Q' : Nat → List Grp} (hO : OwnInv s Q) (R : Nat → Owner → Owner → Prop)
    (hfun : ∀ k o0 o o', R k o0 o → R k o0 o' → o = o')
    (fresh : Option (Nat × Owner))
    (hfresh : ∀ kf of, fresh = some (kf, of) → ∀ o0, ¬ Owns s Q kf o0)
    (hback : ∀ k o, Owns s' Q' k o → nodeLive s' k = true ∧
      ((∃ o0, Owns s Q k o0 ∧ R k o0 o) ∨ fresh = some (k, o))) : OwnInv s' Q' := by
  constructor
  · intro k o h; exact (hback k o h).1
  · intro k o o' h h'
    rcases (hback k o h).2 with ⟨o0, h0, hr⟩ | hf
    · rcases (hback k o' h').2 with ⟨o0', h0', hr'⟩ | hf'
      · have := hO.uniq k o0 o0' h0 h0'
        subst this
        exact hfun k o0 o o' hr hr'
      · exact absurd h0 (hfresh k o' hf' o0)
    · rcases (hback k o' h').2 with ⟨o0', h0', hr'⟩ | hf'
      · exact absurd h0' (hfresh k o hf o0')
      · rw [hf] at hf'; cases hf'; rfl

end CppUtil.Mcs
