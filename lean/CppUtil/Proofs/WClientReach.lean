/-
  Guard algebra, part 11: the lock objects of a reachable client state are reachable states of the word-lock
  core (every change of a lock word goes through `WLock.step`), so the core theorems (C01, C10, …) apply to them.
-/
import CppUtil.Proofs.WClientThm

set_option linter.unusedSimpArgs false
set_option linter.unusedVariables false

namespace CppUtil.WClient
open CppUtil CppUtil.WLock

variable {P : WParams}

theorem run_snoc {s s' s'' : St} {acts : List Act} {a : Act} {e : Option Ev}
    (h : run P s acts = some s') (hs : WLock.step P s' a = some (s'', e)) : run P s (acts ++ [a]) = some s'' := by
  induction acts generalizing s with
  | nil => simp only [run, Option.some.injEq] at h; subst h; simp [run, hs]
  | cons b bs ih =>
    simp only [run, List.cons_append] at h ⊢
    cases hb : WLock.step P s b with
    | none => rw [hb] at h; cases h
    | some r => obtain ⟨s1, e1⟩ := r; rw [hb] at h; simp only; exact ih h

theorem reach_step {s s' : St} {a : Act} {e : Option Ev} (h : Reachable P s) (hs : WLock.step P s a = some (s', e)) :
    Reachable P s' := by
  obtain ⟨acts, ha⟩ := h
  exact ⟨acts ++ [a], run_snoc ha hs⟩

/-- the result of "try the step, keep the state if it is not enabled" -/
theorem reach_step_or_same {s : St} {a : Act} (h : Reachable P s) :
    Reachable P (match WLock.step P s a with | some (s', _) => s' | none => s) := by
  cases hs : WLock.step P s a with
  | none => exact h
  | some r => obtain ⟨s', e⟩ := r; exact reach_step h hs

/-- every lock object is in a reachable state of the core model -/
def LR (P : WParams) (c : Client) : Prop := ∀ lk, Reachable P (lockSt c lk)

theorem lockSt_setLockSt (c : Client) (lk lk' : Nat) (s : St) :
    lockSt (setLockSt c lk s) lk' = if lk = lk' ∧ lk < c.locks.size then s else lockSt c lk' := by
  by_cases h : lk = lk'
  · subst h
    by_cases hl : lk < c.locks.size
    · simp [hl]
    · simp only [hl, and_false, if_false]
      simp [lockSt, setLockSt, Array.getD_eq_getD_getElem?, Array.getElem?_setIfInBounds, hl]
  · simp [h, lockSt_setLockSt_ne h]

theorem LR.setLockSt {c : Client} (h : LR P c) (lk : Nat) {s : St} (hs : Reachable P s) : LR P (setLockSt c lk s) := by
  intro lk'
  rw [lockSt_setLockSt]
  split
  · exact hs
  · exact h lk'

theorem LR.of_locks {c c' : Client} (h : LR P c) (he : c'.locks = c.locks) : LR P c' := by
  intro lk
  have : lockSt c' lk = lockSt c lk := by simp [lockSt, he]
  rw [this]; exact h lk

theorem LR.spawnStart {c : Client} (h : LR P c) (lk : Nat) (r : Req) : LR P (spawnStart P c lk r).1 := by
  unfold WClient.spawnStart
  apply h.setLockSt lk
  have h1 : Reachable P (match WLock.step P (lockSt c lk) .spawn with | some (s', _) => s' | none => lockSt c lk) := by
    split
    · rename_i s' e hs; exact reach_step (h lk) hs
    · exact h lk
  split
  · rename_i s' e hs; exact reach_step h1 hs
  · exact h1

theorem LR.initial {c : Client} (hi : Initial c) : LR P c := by
  intro lk
  exact ⟨[], by rw [hi.locks lk]; rfl⟩


theorem LR.upgradeStep {c : Client} (h : LR P c) (lk a : Nat) :
    LR P (WClient.setLockSt c lk (match WLock.step P (lockSt c lk) (.upgrade a) with | some (s', _) => s' | none => lockSt c lk)) := by
  apply h.setLockSt lk
  split
  · rename_i s' e hs; exact reach_step (h lk) hs
  · exact h lk

/-- local code never changes a lock object except through steps of the core model -/
theorem LR.runPhase {c : Client} (h : LR P c) (t k : Nat) (op : Op) (ph : Nat) : LR P (runPhase P c t k op ph).1 := by
  cases op <;> simp only [WClient.runPhase, assignTail] <;> (repeat' split) <;>
    first
      | exact LR.of_locks h rfl
      | exact LR.of_locks (h.spawnStart _ _) rfl
      | exact LR.of_locks (h.upgradeStep _ _) rfl
      | exact LR.of_locks (h.setLockSt _ (h _)) rfl
      | (rename_i s' e hs; exact LR.of_locks (h.setLockSt _ (reach_step (h _) hs)) rfl)
      | (rename_i s' e _ hs; exact LR.of_locks (h.setLockSt _ (reach_step (h _) hs)) rfl)


theorem LR.afterPhase {c : Client} (h : LR P c) (t : Nat) (r : PhaseRes) : LR P (afterPhase c t r) :=
  LR.of_locks h (by cases r <;> rfl)

theorem LR.advance (fuel : Nat) : ∀ (c : Client) (t : Nat) (out : Out), LR P c → LR P (advance P fuel c t out).1 := by
  induction fuel with
  | zero => intro c t out h; exact h
  | succ fuel ih =>
    intro c t out h
    rw [advance_succ]
    split
    · have h1 := (h.runPhase t (getThread c t).pc ((getThread c t).prog[(getThread c t).pc]) (getThread c t).phase)
      generalize WClient.runPhase P c t (getThread c t).pc ((getThread c t).prog[(getThread c t).pc]) (getThread c t).phase = res at *
      obtain ⟨c1, o, r⟩ := res
      cases r
      · exact ih _ _ _ (h1.afterPhase t .next)
      · exact h1.afterPhase t .block
      · exact ih _ _ _ (h1.afterPhase t .doneOp)
    · exact LR.of_locks h rfl

/-- **every quantum keeps the lock objects inside the reachable states of the core model** -/
theorem LR.stepThread {c c' : Client} {t : Nat} {e : String} {o : Out} (h : LR P c)
    (hs : WClient.stepThread P c t = some (c', e, o)) : LR P c' := by
  simp only [WClient.stepThread] at hs
  split at hs
  · cases hs
  split at hs
  · cases hs
  · simp only [Option.some.injEq, Prod.mk.injEq] at hs
    rw [← hs.1]; exact LR.advance _ _ _ _ (LR.of_locks h rfl)
  · -- atomic step
    rename_i lk a _
    split at hs
    · rename_i s' ev hst
      have hl : LR P (WClient.setLockSt c lk s') := h.setLockSt lk (reach_step (h lk) hst)
      split at hs
      · simp only [Option.some.injEq, Prod.mk.injEq] at hs
        rw [← hs.1]; exact LR.advance _ _ _ _ (LR.of_locks hl rfl)
      · simp only [Option.some.injEq, Prod.mk.injEq] at hs
        rw [← hs.1]; exact hl
    · cases hs
  · rename_i lk a nv _
    split at hs
    · rename_i s' ev hst
      have hl : LR P (WClient.setLockSt c lk s') := h.setLockSt lk (reach_step (h lk) hst)
      simp only [Option.some.injEq, Prod.mk.injEq] at hs
      rw [← hs.1]; exact LR.advance _ _ _ _ (LR.of_locks hl rfl)
    · cases hs
  · rename_i lk a nv _
    split at hs
    · rename_i s' ev hst
      have hl : LR P (WClient.setLockSt c lk s') := h.setLockSt lk (reach_step (h lk) hst)
      simp only [Option.some.injEq, Prod.mk.injEq] at hs
      rw [← hs.1]; exact LR.advance _ _ _ _ (LR.of_locks hl rfl)
    · cases hs
  all_goals
    simp only [Option.some.injEq, Prod.mk.injEq] at hs
    rw [← hs.1]; exact LR.advance _ _ _ _ (LR.of_locks h rfl)

theorem LR.runSched (sched : List Nat) : ∀ c : Client, LR P c → LR P (runSched P c sched) := by
  induction sched with
  | nil => intro c h; exact h
  | cons t ts ih =>
    intro c h
    simp only [WClient.runSched]
    split
    · cases hst : WClient.stepThread P c t with
      | none => exact ih c h
      | some r => obtain ⟨c', e, o⟩ := r; exact ih c' (h.stepThread hst)
    · exact ih c h

theorem reachable_locks {c0 c : Client} (hi : Initial c0) (hr : ReachableC P c0 c) (lk : Nat) :
    Reachable P (lockSt c lk) := by
  obtain ⟨sched, rfl⟩ := hr
  exact LR.runSched sched c0 (LR.initial hi) lk

end CppUtil.WClient
