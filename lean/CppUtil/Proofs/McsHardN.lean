/-
  MCSLock proof, word-writing steps, part N: the instances of the removal lemmas — UnlockS / UnlockSIX /
  UnlockX by the last member of a group: CAS of the lock word to null, or the last hand-over to the successor.
-/
import CppUtil.Proofs.McsHardM

namespace CppUtil.Mcs
open CppUtil

variable {W : Nat → Bool → Bool → Nat → Word} {P : Params} {pb cb : Nat} {s : St} {Q : Nat → List Grp}
variable {i : Nat} {a : Agent}

/-- two different members of one group make its count at least two -/
theorem cnt_two {k : Nat} {b : Agent} (hi : s.agents[i]? = some a) (hk : s.agents[k]? = some b) (hne : k ≠ i)
    (ℓ nd : Nat) (ha : isMem ℓ nd a = true) (hb : isMem ℓ nd b = true) : 2 ≤ cnt s ℓ nd := by
  let s' : St := { s with agents := s.agents.set i { a with loc := .done } }
  have hag : s'.agents = s.agents.set i { a with loc := .done } := rfl
  have h1 := cnt_upd hi hag ℓ nd
  have h2 : isMem ℓ nd { a with loc := Loc.done } = false := by simp [isMem, Loc.sMem]
  rw [ha, h2] at h1
  have h3 : 0 < cnt s' ℓ nd := by
    unfold cnt
    apply List.countP_pos_iff.mpr
    exact ⟨b, List.mem_of_getElem? (by rw [ag_ne hag hne]; exact hk), hb⟩
  simp at h1
  omega

/-- `LastOut` for a shared member whose group has count one -/
theorem lastOut_member (hI : Inv W P pb cb s Q) (hi : s.agents[i]? = some a) (hsm : a.loc.sMem = true)
    {G : Grp} (hj : (Q a.lk)[0]? = some G) (hn : G.node = a.qnode) (hnone : hmode s G = none)
    (hc1 : cnt s a.lk G.node = 1) : LastOut s Q i a G := by
  refine ⟨hi, hj, hn, Loc.priv_of_sMem _ hsm, Or.inl hsm, ?_⟩
  intro k b hk hb hcase
  rcases hcase with ⟨hbs, hbq⟩ | ⟨hbm, hbh⟩
  · rcases Classical.em (k = i) with h | h
    · exact h
    · exfalso
      have := cnt_two hi hk h a.lk G.node (by simp [isMem, hn, hsm]) (by simp [isMem, hb, hbq, hbs])
      omega
  · exfalso
    rw [hmode_eq_of_head hbh hk] at hnone
    rw [hnone] at hbm; cases hbm

/-- `LastOut` for a live head whose group has no shared member left -/
theorem lastOut_head (hI : Inv W P pb cb s Q) (hi : s.agents[i]? = some a) (hlive : a.loc.headMode.isSome)
    {G : Grp} (hj : (Q a.lk)[0]? = some G) (hh : G.head = some i) (hn : G.node = a.qnode)
    (hc0 : cnt s a.lk G.node = 0) : LastOut s Q i a G := by
  refine ⟨hi, hj, hn, Loc.priv_of_head _ hlive, Or.inr ⟨hlive, hh⟩, ?_⟩
  intro k b hk hb hcase
  rcases hcase with ⟨hbs, hbq⟩ | ⟨hbm, hbh⟩
  · exfalso
    have : 0 < cnt s a.lk G.node := by
      unfold cnt
      apply List.countP_pos_iff.mpr
      exact ⟨b, List.mem_of_getElem? hk, by simp [isMem, hb, hbq, hbs]⟩
    omega
  · rw [hh] at hbh; exact (Option.some.inj hbh).symm

/-- CAS of the lock word to null by the last member: the queue becomes empty -/
theorem remove_only (hW : WordSpecs P.C pb cb W) (hI : Inv W P pb cb s Q) {G : Grp} (hL1 : LastOut s Q i a G)
    (hlast : (Q a.lk).getLast? = some G) :
    Inv W P pb cb (setAgent (cacheNode (wr s (.lock a.lk) P.C.kNull) a.tid a.qnode).1 i { a with loc := .done })
      (setQ Q a.lk []) ∧
    (LiveOwned s Q → LiveOwned
      (setAgent (cacheNode (wr s (.lock a.lk) P.C.kNull) a.tid a.qnode).1 i { a with loc := .done })
      (setQ Q a.lk [])) := by
  have hwf := hI.wf a (List.mem_of_getElem? hL1.hi)
  have hL := hI.locks a.lk hwf.2.1
  have hlen : (Q a.lk).length = 1 := by
    have h1 := getLast?_idx hlast
    have := (idx_unique hL.nodup h1 hL1.first rfl).1
    have := getElem?_lt' hL1.first
    omega
  have htail : (Q a.lk).tail = [] := by
    cases hq : Q a.lk with
    | nil => rfl
    | cons x xs => rw [hq] at hlen; simp at hlen; simp [hlen]
  rw [← htail]
  refine ⟨?_, fun hlo => lo_remove hI hL1 (.lock a.lk) P.C.kNull hlo⟩
  apply inv_remove hI hL1 (.lock a.lk) P.C.kNull (Or.inl rfl)
  apply lockInv_removed hW hI hL1 (by simp [cacheNode_agents])
  · rw [lockW_setAgent, cacheNode_lockW, lockW_wr_lock s _ _ _ hwf.2.1]
    simp [htail, hW.null]
  · intro j G' hj; have := getElem?_lt' hj; omega
  · intro G1 h1; have := getElem?_lt' h1; omega

/-- the last hand-over: the successor's node word is cleared of the group's flags -/
theorem remove_first (hW : WordSpecs P.C pb cb W) (hI : Inv W P pb cb s Q) {G G1 : Grp} (hL1 : LastOut s Q i a G)
    (h1 : (Q a.lk)[1]? = some G1) (hl1 : linked s G1 = true) (nw : Word)
    (hnw : nw = W (linkOf s (Q a.lk) 1) false false 0) :
    Inv W P pb cb (setAgent (cacheNode (wr s (.node G1.node) nw) a.tid a.qnode).1 i { a with loc := .done })
      (setQ Q a.lk (Q a.lk).tail) ∧
    (LiveOwned s Q → LiveOwned
      (setAgent (cacheNode (wr s (.node G1.node) nw) a.tid a.qnode).1 i { a with loc := .done })
      (setQ Q a.lk (Q a.lk).tail)) := by
  have hwf := hI.wf a (List.mem_of_getElem? hL1.hi)
  have hL := hI.locks a.lk hwf.2.1
  have hG1m := mem_of_idx h1
  have hG1live := hI.grpLive a.lk G1 hG1m
  refine ⟨?_, fun hlo => lo_remove hI hL1 (.node G1.node) nw hlo⟩
  apply inv_remove hI hL1 (.node G1.node) nw (Or.inr ⟨G1, hG1m, rfl⟩)
  apply lockInv_removed hW hI hL1 (by simp [cacheNode_agents, wr_node_agents])
  · rw [lockW_setAgent, cacheNode_lockW, lockW_wr_node]
    have : (Q a.lk).tail ≠ [] := by
      intro e
      have := getElem?_lt' h1
      cases hq : Q a.lk with
      | nil => rw [hq] at this; simp at this
      | cons x xs => rw [hq] at e this; simp at e; rw [e] at this; simp at this
    simp [this]
  · intro j G' hj
    have hG'm := mem_of_idx hj
    have hold1 : ∀ old, (wr s (.node G1.node) nw).tls[a.tid]? = some (some old) → 1 ≤ old := by
      intro old h; rw [wr_node_tls] at h; exact (nodeLive_bound (hI.cacheLive a.tid old h)).1
    rw [nodeW_setAgent, (cacheNode_other (wr s (.node G1.node) nw) a.tid a.qnode G'.node (hI.node_pos hG'm)
      (by rw [wr_node_tls]; exact fun hc => hI.cacheQ a.tid G'.node a.lk G' hc hG'm rfl) hold1).1,
      nodeW_wr_node s G1.node G'.node nw hG1live (hI.node_pos hG'm)]
    by_cases hj0 : j = 0
    · subst hj0
      rw [h1] at hj; cases hj
      simp [hnw]
    · have : G'.node ≠ G1.node := by
        intro e
        have := (idx_unique hL.nodup hj h1 e).1
        omega
      simp [this, hj0]
  · intro G1' h1'; rw [h1] at h1'; cases h1'; exact hl1

/-! ### the model-shaped cases -/

theorem case_relS_cas_null (hW : WordSpecs P.C pb cb W) (hI : Inv W P pb cb s Q) (hi : s.agents[i]? = some a)
    (hloc : a.loc = .rel .S .cas) (hcur : lockW s a.lk = a.cur)
    (hdec : ¬ (((a.cur - P.C.kSLock) &&& (P.C.kSMask ||| P.C.kSIXLock)) ≠ 0)) :
    Inv W P pb cb (setAgent (cacheNode (wr s (.lock a.lk) P.C.kNull) a.tid a.qnode).1 i { a with loc := .done })
      (setQ Q a.lk []) ∧
    (LiveOwned s Q → LiveOwned
      (setAgent (cacheNode (wr s (.lock a.lk) P.C.kNull) a.tid a.qnode).1 i { a with loc := .done })
      (setQ Q a.lk [])) := by
  have hsm : a.loc.sMem = true := by simp [hloc, Loc.sMem]
  obtain ⟨j, G, hj, hn, hmo⟩ := member_group hI hi hsm
  simp only [MemOK, hloc, PhOK] at hmo
  have hj0 := member_first hI hi hsm hj hmo.1
  subst hj0
  obtain ⟨hlast, hw⟩ := tail_word hW hI hi hj hn hcur hmo.2
  rw [hmo.1] at hw
  have hcp := cnt_pos_of_mem hi hsm
  rw [← hn] at hcp
  have hnl := hI.node_lt (mem_of_idx hj)
  have hcl := hI.cnt_lt a.lk G.node
  obtain ⟨c, hc⟩ : ∃ c, cnt s a.lk G.node = c + 1 := ⟨cnt s a.lk G.node - 1, by omega⟩
  have hw' : a.cur = W G.node false false (c + 1) := by rw [hw, hc]; rfl
  have hc0 : c = 0 := by
    rcases Nat.eq_zero_or_pos c with h | h
    · exact h
    · exfalso; apply hdec
      rw [hw']
      exact (hW.decS G.node false c hnl (by omega)).mpr (Or.inl (by omega))
  exact remove_only hW hI (lastOut_member hI hi hsm hj hn hmo.1 (by omega)) hlast

theorem case_rel_cas_null (hW : WordSpecs P.C pb cb W) (hI : Inv W P pb cb s Q) (hi : s.agents[i]? = some a)
    (k : HK) (hloc : a.loc = k.mk .cas) (hcur : lockW s a.lk = a.cur)
    (hdec : ¬ ((a.cur &&& P.C.kSMask) ≠ 0)) :
    Inv W P pb cb (setAgent (cacheNode (wr s (.lock a.lk) P.C.kNull) a.tid a.qnode).1 i { a with loc := .done })
      (setQ Q a.lk []) ∧
    (LiveOwned s Q → LiveOwned
      (setAgent (cacheNode (wr s (.lock a.lk) P.C.kNull) a.tid a.qnode).1 i { a with loc := .done })
      (setQ Q a.lk [])) := by
  have hlive0 : a.loc.headMode.isSome := by rw [hloc, HK.headMode]; rfl
  obtain ⟨j0, G, hj, hh, hn, hho⟩ := head_group (W := W) hI hi hlive0
  rw [headOK_mk k .cas (by simp) _ _ _ _ hloc] at hho
  obtain ⟨rfl, hpo⟩ := hho
  obtain ⟨hlast, hw⟩ := tail_word hW hI hi hj hn hcur hpo
  have hc0 : cnt s a.lk G.node = 0 := by
    have hz : (a.cur &&& P.C.kSMask) = 0 := by
      rcases Classical.em ((a.cur &&& P.C.kSMask) = 0) with h | h
      · exact h
      · exact absurd h hdec
    rw [hw] at hz
    exact (hW.smask _ _ _ _ (hI.node_lt (mem_of_idx hj)) (by have := hI.cnt_lt a.lk G.node; omega)).mp hz
  exact remove_only hW hI (lastOut_head hI hi hlive0 hj hh hn hc0) hlast

theorem case_relS_handoff_last (hW : WordSpecs P.C pb cb W) (hI : Inv W P pb cb s Q) (hi : s.agents[i]? = some a)
    (hloc : a.loc = .rel .S .handoff)
    (hl : (nodeW s (ptrOf P a.nxt) &&& P.C.kLockMask) = P.C.kSLock) :
    Inv W P pb cb (setAgent (cacheNode (wr s (.node (ptrOf P a.nxt)) (nodeW s (ptrOf P a.nxt) - P.C.kSLock))
      a.tid a.qnode).1 i { a with loc := .done }) (setQ Q a.lk (Q a.lk).tail) ∧
    (LiveOwned s Q → LiveOwned (setAgent (cacheNode (wr s (.node (ptrOf P a.nxt))
      (nodeW s (ptrOf P a.nxt) - P.C.kSLock)) a.tid a.qnode).1 i { a with loc := .done })
      (setQ Q a.lk (Q a.lk).tail)) := by
  have hwf := hI.wf a (List.mem_of_getElem? hi)
  have hsm : a.loc.sMem = true := by simp [hloc, Loc.sMem]
  obtain ⟨j, G, hj, hn, hmo⟩ := member_group hI hi hsm
  simp only [MemOK, hloc, PhOK] at hmo
  have hj0 := member_first hI hi hsm hj hmo.1
  subst hj0
  obtain ⟨hnone, G1, h1, hl1, hp1⟩ := hmo
  have hsw := succ_word (W := W) hI hwf.2.1 hj h1 hl1
  rw [hnone] at hsw
  have hll := hI.link_lt a.lk 1
  have hcl := hI.cnt_lt a.lk G.node
  have hc1 : cnt s a.lk G.node = 1 := by
    rw [hp1, hsw] at hl
    exact ((hW.lastS _ _ _ _ hll (by omega)).mp hl).2.2
  rw [hp1]
  apply remove_first hW hI (lastOut_member hI hi hsm hj hn hnone hc1) h1 hl1
  rw [hsw, hc1]
  have := hW.subS (linkOf s (Q a.lk) 1) false false 0 hll (by have := hW.cbPos; omega)
  simpa using this

theorem case_rel_handoff_last (hW : WordSpecs P.C pb cb W) (hI : Inv W P pb cb s Q) (hi : s.agents[i]? = some a)
    (k : HK) (hk : k = .relX ∨ k = .relSIX) (hloc : a.loc = k.mk .handoff)
    (hl : (nodeW s (ptrOf P a.nxt) &&& P.C.kSMask) = P.C.kNoLocks) :
    Inv W P pb cb (setAgent (cacheNode (wr s (.node (ptrOf P a.nxt)) (nodeW s (ptrOf P a.nxt) ^^^ k.flag P))
      a.tid a.qnode).1 i { a with loc := .done }) (setQ Q a.lk (Q a.lk).tail) ∧
    (LiveOwned s Q → LiveOwned (setAgent (cacheNode (wr s (.node (ptrOf P a.nxt))
      (nodeW s (ptrOf P a.nxt) ^^^ k.flag P)) a.tid a.qnode).1 i { a with loc := .done })
      (setQ Q a.lk (Q a.lk).tail)) := by
  have hwf := hI.wf a (List.mem_of_getElem? hi)
  have hlive0 : a.loc.headMode.isSome := by rw [hloc, HK.headMode]; rfl
  obtain ⟨j0, G, hj, hh, hn, hho⟩ := head_group (W := W) hI hi hlive0
  rw [headOK_mk k .handoff (by simp) _ _ _ _ hloc] at hho
  obtain ⟨rfl, G1, h1, hl1, hp1⟩ := hho
  have hm0 : hmode s G = some k.mode := by rw [hmode_eq_of_head hh hi, hloc, HK.headMode]
  have hsw := succ_word (W := W) hI hwf.2.1 hj h1 hl1
  rw [hm0] at hsw
  have hll := hI.link_lt a.lk 1
  have hcl := hI.cnt_lt a.lk G.node
  have hc0 : cnt s a.lk G.node = 0 := by
    rw [hp1, hsw, hW.noLocks] at hl
    exact (hW.smask _ _ _ _ hll (by omega)).mp hl
  rw [hp1]
  apply remove_first hW hI (lastOut_head hI hi hlive0 hj hh hn hc0) h1 hl1
  rw [hsw, hc0]
  have hcb : 0 < cb := Nat.lt_trans Nat.zero_lt_one hW.cbPos
  rcases hk with rfl | rfl
  · have := hW.xorX (linkOf s (Q a.lk) 1) true false 0 hll hcb
    simpa [HK.mode, HK.flag] using this
  · have := hW.xorSIX (linkOf s (Q a.lk) 1) false true 0 hll hcb
    simpa [HK.mode, HK.flag] using this

end CppUtil.Mcs
