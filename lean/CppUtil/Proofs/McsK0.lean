/-
  MCSLock proof: steps that change only an agent's location / local variables and keep its attributes
  (spins, loads, failed CAS, API entry of release / conversions).  The whole invariant is kept provided
  the agent's new local assertion holds.
-/
import CppUtil.Proofs.McsFrame

namespace CppUtil.Mcs
open CppUtil

variable {W : Nat → Bool → Bool → Nat → Word} {P : Params}

theorem PhOK_sameAbs {s s' : St} (h : SameAbs s s') (q : List Grp) (j : Nat) (a : Agent) (ph : Ph) :
    PhOK P s' q j a ph ↔ PhOK P s q j a ph := by
  cases ph <;> simp only [PhOK, h.linked]

theorem MemOK_sameAbs {s s' : St} (h : SameAbs s s') (q : List Grp) (j : Nat) (G : Grp) (a : Agent) :
    MemOK P s' q j G a ↔ MemOK P s q j G a := by
  unfold MemOK
  split <;> simp only [h.linked, h.hmode, PhOK_sameAbs h]

theorem HeadOK_sameAbs {s s' : St} (h : SameAbs s s') (ℓ : Nat) (q : List Grp) (j : Nat) (a : Agent) :
    HeadOK W P s' ℓ q j a ↔ HeadOK W P s ℓ q j a := by
  unfold HeadOK
  split <;> simp only [h.grpW W, PhOK_sameAbs h, E2, h.hmode]

theorem lockInv_k0 {s : St} {ℓ : Nat} {q : List Grp} (hL : LockInv W P s ℓ q) (i : Nat) (a a' : Agent)
    (hi : s.agents[i]? = some a) (habs : a'.abs = a.abs) (hdone : a.loc = .done → a'.loc = .done)
    (hmem : a'.loc.sMem = true → a.lk = ℓ → ∀ j G, q[j]? = some G → G.node = a.qnode → MemOK P s q j G a')
    (hhead : a'.loc.headMode.isSome → a.lk = ℓ → ∀ j G, q[j]? = some G → G.head = some i → HeadOK W P s ℓ q j a') :
    LockInv W P (setAgent s i a') ℓ q := by
  have hS := sameAbs_setAgent s i a a' hi habs
  have hlk : a'.lk = a.lk := congrArg Abs.lk habs
  have hq : a'.qnode = a.qnode := congrArg Abs.qnode habs
  have hhm : a'.loc.headMode = a.loc.headMode := congrArg Abs.hm habs
  have hsm : a'.loc.sMem = a.loc.sMem := congrArg Abs.sm habs
  refine ⟨hL.nodup, ?_, ?_, ?_, ?_, ?_, ?_, ?_, ?_⟩
  · rw [lockW_setAgent, hS.expLock W]; exact hL.lockWord
  · intro j G hj; rw [nodeW_setAgent, hS.expNode W]; exact hL.nodeWord j G hj
  · intro G hG; rw [hS.cnt, hS.hmode]; exact hL.nonempty G hG
  · intro j G hj hj0; rw [hS.hmode]; exact hL.laterHeads j G hj hj0
  · intro j G h hj hh hlive
    rw [hS.hmode] at hlive
    obtain ⟨b, hb, hb1, hb2, hb3, hb4⟩ := hL.heads j G h hj hh hlive
    by_cases hhi : h = i
    · subst hhi
      rw [hi] at hb; cases hb
      refine ⟨a', agent_set_eq s h a a' hi, by rw [hlk]; exact hb1, by rw [hq]; exact hb2, by rw [hhm]; exact hb3, ?_⟩
      rw [HeadOK_sameAbs hS]
      exact hhead (by rw [hhm]; exact hb3) hb1 j G hj hh
    · refine ⟨b, by rw [agent_set_ne s i h a' hhi]; exact hb, hb1, hb2, hb3, ?_⟩
      rw [HeadOK_sameAbs hS]; exact hb4
  · intro G hG h hh
    obtain ⟨b, hb, hb1, hb2⟩ := hL.headish G hG h hh
    by_cases hhi : h = i
    · subst hhi
      rw [hi] at hb; cases hb
      refine ⟨a', agent_set_eq s h a a' hi, by rw [hlk]; exact hb1, ?_⟩
      rcases hb2 with hb2 | hb2
      · left; rw [hhm]; exact hb2
      · right; exact hdone hb2
    · exact ⟨b, by rw [agent_set_ne s i h a' hhi]; exact hb, hb1, hb2⟩
  · intro k b hk hb1 hb2
    rcases agent_set_cases s i k a a' b hi hk with ⟨rfl, rfl⟩ | ⟨_, hk'⟩
    · exact hL.headsBack k a hi (by rw [← hlk]; exact hb1) (by rw [← hhm]; exact hb2)
    · exact hL.headsBack k b hk' hb1 hb2
  · intro k b hk hb1 hb2
    rcases agent_set_cases s i k a a' b hi hk with ⟨rfl, rfl⟩ | ⟨_, hk'⟩
    · obtain ⟨j, G, hj, hn, _⟩ := hL.mems k a hi (by rw [← hlk]; exact hb1) (by rw [← hsm]; exact hb2)
      refine ⟨j, G, hj, by rw [hq]; exact hn, ?_⟩
      rw [MemOK_sameAbs hS]
      exact hmem hb2 (by rw [← hlk]; exact hb1) j G hj hn
    · obtain ⟨j, G, hj, hn, hm⟩ := hL.mems k b hk' hb1 hb2
      exact ⟨j, G, hj, hn, by rw [MemOK_sameAbs hS]; exact hm⟩

theorem inv_k0 {pb cb : Nat} {s : St} {Q : Nat → List Grp} (hI : Inv W P pb cb s Q) (i : Nat) (a a' : Agent)
    (hi : s.agents[i]? = some a) (habs : a'.abs = a.abs) (hdone : a.loc = .done → a'.loc = .done)
    (hpriv : a'.loc.priv = a.loc.priv)
    (htid : a'.tid < s.tls.length) (hidle : a'.loc ≠ .idle)
    (hprivW : (a'.loc = .sLoad ∨ a'.loc = .sCas → nodeW s a'.qnode = 0) ∧
              (∀ m, a'.loc = .xXchg m → nodeW s a'.qnode = W 0 true false 0))
    (hmem : a'.loc.sMem = true → ∀ j G, (Q a.lk)[j]? = some G → G.node = a.qnode → MemOK P s (Q a.lk) j G a')
    (hhead : a'.loc.headMode.isSome → ∀ j G, (Q a.lk)[j]? = some G → G.head = some i →
      HeadOK W P s a.lk (Q a.lk) j a') :
    Inv W P pb cb (setAgent s i a') Q := by
  have hlk : a'.lk = a.lk := congrArg Abs.lk habs
  have hq : a'.qnode = a.qnode := congrArg Abs.qnode habs
  have hhm : a'.loc.headMode = a.loc.headMode := congrArg Abs.hm habs
  have hmemA : a ∈ s.agents := List.mem_of_getElem? hi
  refine { uaf := hI.uaf, capN := hI.capN, capA := by simpa using hI.capA, wf := ?_, outside := hI.outside,
           locks := ?_, privLive := ?_, privUniq := ?_, privQ := ?_, privC := ?_, privW := ?_,
           cacheLive := hI.cacheLive, cacheUniq := hI.cacheUniq, cacheQ := hI.cacheQ,
           grpLive := hI.grpLive, grpLocks := hI.grpLocks }
  · intro b hb
    rcases List.mem_or_eq_of_mem_set hb with hb | rfl
    · exact hI.wf b hb
    · have := hI.wf a hmemA
      exact ⟨htid, by rw [hlk]; exact this.2.1, hidle, by rw [hhm]; exact this.2.2.2⟩
  · intro ℓ hℓ
    apply lockInv_k0 (hI.locks ℓ hℓ) i a a' hi habs hdone
    · intro h1 h2; subst h2; exact hmem h1
    · intro h1 h2; subst h2; exact hhead h1
  · intro k b hk hb
    rcases agent_set_cases s i k a a' b hi hk with ⟨rfl, rfl⟩ | ⟨_, hk'⟩
    · rw [nodeLive_setAgent, hq]; exact hI.privLive k a hi (by rw [← hpriv]; exact hb)
    · exact hI.privLive k b hk' hb
  · intro k k' b b' hk hk' hb hb' hqq
    rcases agent_set_cases s i k a a' b hi hk with ⟨rfl, rfl⟩ | ⟨hne, hk1⟩
    · rcases agent_set_cases s k k' a b b' hi hk' with ⟨rfl, rfl⟩ | ⟨hne', hk2⟩
      · rfl
      · exact hI.privUniq k k' a b' hi hk2 (by rw [← hpriv]; exact hb) hb' (by rw [← hq]; exact hqq)
    · rcases agent_set_cases s i k' a a' b' hi hk' with ⟨rfl, rfl⟩ | ⟨hne', hk2⟩
      · exact hI.privUniq k k' b a hk1 hi hb (by rw [← hpriv]; exact hb') (by rw [hqq, hq])
      · exact hI.privUniq k k' b b' hk1 hk2 hb hb' hqq
  · intro k b ℓ G hk hb hG
    rcases agent_set_cases s i k a a' b hi hk with ⟨rfl, rfl⟩ | ⟨_, hk'⟩
    · rw [hq]; exact hI.privQ k a ℓ G hi (by rw [← hpriv]; exact hb) hG
    · exact hI.privQ k b ℓ G hk' hb hG
  · intro k b t hk hb
    rcases agent_set_cases s i k a a' b hi hk with ⟨rfl, rfl⟩ | ⟨_, hk'⟩
    · rw [hq]; exact hI.privC k a t hi (by rw [← hpriv]; exact hb)
    · exact hI.privC k b t hk' hb
  · intro k b hk
    rcases agent_set_cases s i k a a' b hi hk with ⟨rfl, rfl⟩ | ⟨_, hk'⟩
    · exact hprivW
    · exact hI.privW k b hk'

end CppUtil.Mcs
