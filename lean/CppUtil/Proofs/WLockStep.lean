/-
  Preservation of the word-lock invariant by every transition, and its consequences
  for all reachable states.
-/
import CppUtil.Proofs.WLockInv

namespace CppUtil.WLock
open CppUtil

variable {P : WParams} {D : Decoder}

theorem inv_init (hS : Specs P D) : Inv P D init := by
  have h0 := hS.dec_zero
  refine ⟨?_, ?_, ?_, ?_, ?_⟩ <;> simp [init, cnt, h0]

theorem inv_spawn {s : St} (hI : Inv P D s) : Inv P D { s with agents := s.agents ++ [.idle] } := by
  refine ⟨?_, ?_, ?_, hI.xexcl, ?_⟩
  · have := hI.cx; simpa [cnt, Loc.grant?] using this
  · have := hI.csix; simpa [cnt, Loc.grant?] using this
  · have := hI.cs; simpa [cnt, Loc.grant?] using this
  · intro l hl
    rcases List.mem_append.mp hl with h | h
    · exact hI.ok l h
    · simp at h; subst h; trivial

theorem locOK_of_mem {s : St} {i : Nat} {l : Loc} (hI : Inv P D s) (h : s.agents[i]? = some l) : LocOK P l :=
  hI.ok l (List.mem_of_getElem? h)

/-- S-capacity side condition available whenever a non-granted agent exists -/
theorem s_room {s : St} {i : Nat} {l : Loc} (hI : Inv P D s) (h : s.agents[i]? = some l)
    (hl : l.grant? = none) (hcap : s.agents.length < D.cap) : (D.dec s.w).s + 1 < D.cap := by
  have := cntS_lt_of_nongrant s i l h hl
  have := hI.cs
  omega

theorem inv_atom (hS : Specs P D) {s s' : St} {i : Nat} {loc : Loc} {ov : Option Word} {sp : Bool} {e : Ev}
    (hI : Inv P D s) (hi : s.agents[i]? = some loc) (hcap : s.agents.length < D.cap)
    (h : atomStep P s i loc ov sp = some (s', e)) : Inv P D s' := by
  have hok := locOK_of_mem hI hi
  cases loc with
  | idle => simp [atomStep] at h
  | held m seen => simp [atomStep] at h
  | done r => simp [atomStep] at h
  | acqLoad m =>
    simp only [atomStep] at h
    split at h
    · rename_i hg
      simp only [Option.some.injEq, Prod.mk.injEq] at h
      rw [← h.1]
      exact inv_local hI hi (by simpa [LocOK] using hg) rfl
    · simp only [Option.some.injEq, Prod.mk.injEq] at h
      rw [← h.1]; exact hI
  | acqCas m seen =>
    simp only [atomStep] at h
    split at h
    · rename_i hc
      obtain ⟨hw, _⟩ := hc
      simp only [Option.some.injEq, Prod.mk.injEq] at h
      rw [← h.1]
      have hroom := s_room hI hi rfl hcap
      simp only [LocOK] at hok
      subst hw
      cases m with
      | S =>
        have hx := hS.gS _ hok
        have hu := hS.uS _ hroom
        apply inv_update hI hi <;> simp [LocOK, hu, g, Loc.grant?, hx]
      | SIX =>
        have hx := hS.gSIX _ hok
        have hu := hS.uSIX _ hx.2
        apply inv_update hI hi <;> simp [LocOK, hu, g, Loc.grant?, hx.1, hx.2]
      | X =>
        have hx := hS.gX _ hok
        have hu := hS.uX _ hx.1
        apply inv_update hI hi <;> simp [LocOK, hu, g, Loc.grant?, hx.1, hx.2.1, hx.2.2]
    · simp only [Option.some.injEq, Prod.mk.injEq] at h
      rw [← h.1]
      exact inv_local hI hi trivial rfl
  | upgLoad =>
    simp only [atomStep] at h
    split at h
    · rename_i hg
      simp only [Option.some.injEq, Prod.mk.injEq] at h
      rw [← h.1]
      exact inv_local hI hi (by simpa [LocOK] using hg) rfl
    · simp only [Option.some.injEq, Prod.mk.injEq] at h
      rw [← h.1]; exact hI
  | upgCas seen =>
    simp only [atomStep] at h
    split at h
    · rename_i hc
      obtain ⟨hw, _⟩ := hc
      simp only [Option.some.injEq, Prod.mk.injEq] at h
      rw [← h.1]
      simp only [LocOK] at hok
      subst hw
      -- the upgrader is counted as the SIX holder, hence six = true and x = false
      have hsixpos : 0 < cnt s .SIX := by
        unfold cnt
        apply List.countP_pos_iff.mpr
        exact ⟨_, List.mem_of_getElem? hi, by simp [Loc.grant?]⟩
      have hsix : (D.dec s.w).six = true := by
        have := hI.csix
        cases hb : (D.dec s.w).six with
        | true => rfl
        | false => rw [hb] at this; simp at this; omega
      have hx : (D.dec s.w).x = false := by
        cases hb : (D.dec s.w).x with
        | false => rfl
        | true => have := (hI.xexcl hb).1; rw [hsix] at this; cases this
      have hs0 := hS.upgG _ hok
      have hu := hS.upgU _ hok hx hsix
      apply inv_update hI hi <;> simp [LocOK, hu, g, Loc.grant?, hx, hsix, hs0]
    · simp only [Option.some.injEq, Prod.mk.injEq] at h
      rw [← h.1]
      exact inv_local hI hi trivial rfl
  | tryLoad m ver =>
    simp only [atomStep] at h
    split at h
    · rename_i hg
      split at h
      · simp only [Option.some.injEq, Prod.mk.injEq] at h
        rw [← h.1]
        exact inv_local hI hi trivial rfl
      · rename_i hne
        simp only [Option.some.injEq, Prod.mk.injEq] at h
        rw [← h.1]
        exact inv_local hI hi (by simp only [LocOK]; exact ⟨hg, by simpa using hne⟩) rfl
    · simp only [Option.some.injEq, Prod.mk.injEq] at h
      rw [← h.1]; exact hI
  | tryCas m ver seen =>
    simp only [atomStep] at h
    split at h
    · rename_i hc
      obtain ⟨hw, _⟩ := hc
      simp only [Option.some.injEq, Prod.mk.injEq] at h
      rw [← h.1]
      have hroom := s_room hI hi rfl hcap
      simp only [LocOK] at hok
      subst hw
      have hok := hok.1
      cases m with
      | S =>
        have hx := hS.tgS _ hok
        have hu := hS.tuS _ hroom
        apply inv_update hI hi <;> simp [LocOK, hu, g, Loc.grant?, hx]
      | SIX =>
        have hx := hS.tgSIX _ hok
        have hu := hS.tuSIX _ hx.2
        apply inv_update hI hi <;> simp [LocOK, hu, g, Loc.grant?, hx.1, hx.2]
      | X =>
        have hx := hS.tgX _ hok
        have hu := hS.tuX _ hx.1
        apply inv_update hI hi <;> simp [LocOK, hu, g, Loc.grant?, hx.1, hx.2.1, hx.2.2]
    · simp only [Option.some.injEq, Prod.mk.injEq] at h
      rw [← h.1]
      exact inv_local hI hi trivial rfl
  | prep1 k =>
    simp only [atomStep] at h
    split at h
    · simp only [Option.some.injEq, Prod.mk.injEq] at h
      rw [← h.1]; exact inv_local hI hi trivial rfl
    · split at h
      · simp only [Option.some.injEq, Prod.mk.injEq] at h
        rw [← h.1]; exact inv_local hI hi trivial rfl
      · simp only [Option.some.injEq, Prod.mk.injEq] at h
        rw [← h.1]; exact inv_local hI hi trivial rfl
  | prep2 =>
    simp only [atomStep] at h
    split at h
    · rename_i hnx
      split at h
      · simp only [Option.some.injEq, Prod.mk.injEq] at h
        rw [← h.1]; exact inv_local hI hi trivial rfl
      · rename_i hal
        simp only [Option.some.injEq, Prod.mk.injEq] at h
        rw [← h.1]
        exact inv_local hI hi (by simp only [LocOK]; exact ⟨hnx, by simpa using hal⟩) rfl
    · simp only [Option.some.injEq, Prod.mk.injEq] at h
      rw [← h.1]; exact hI
  | prepCas seen =>
    simp only [atomStep] at h
    split at h
    · rename_i hc
      obtain ⟨hw, _⟩ := hc
      simp only [Option.some.injEq, Prod.mk.injEq] at h
      rw [← h.1]
      have hroom := s_room hI hi rfl hcap
      simp only [LocOK] at hok
      subst hw
      have hx := hS.pG _ hok.1 hok.2
      have hu := hS.pU _ hroom
      apply inv_update hI hi <;> simp [LocOK, hu, g, Loc.grant?, hx.1, hx.2.1, hx.2.2]
    · simp only [Option.some.injEq, Prod.mk.injEq] at h
      rw [← h.1]
      exact inv_local hI hi trivial rfl
  | gvLoad =>
    simp only [atomStep] at h
    split at h
    · simp only [Option.some.injEq, Prod.mk.injEq] at h
      rw [← h.1]; exact inv_local hI hi trivial rfl
    · simp only [Option.some.injEq, Prod.mk.injEq] at h
      rw [← h.1]; exact hI
  | vfFence c =>
    simp only [atomStep, Option.some.injEq, Prod.mk.injEq] at h
    rw [← h.1]; exact inv_local hI hi trivial rfl
  | vfLoad c =>
    simp only [atomStep] at h
    split at h
    · simp only [Option.some.injEq, Prod.mk.injEq] at h
      rw [← h.1]; exact inv_local hI hi trivial rfl
    · simp only [Option.some.injEq, Prod.mk.injEq] at h
      rw [← h.1]; exact inv_local hI hi trivial rfl


theorem cnt_pos_of_grant {s : St} {i : Nat} {l : Loc} {m : Mode} (hi : s.agents[i]? = some l)
    (hg : l.grant? = some m) : 0 < cnt s m := by
  unfold cnt
  apply List.countP_pos_iff.mpr
  exact ⟨_, List.mem_of_getElem? hi, by simp [hg]⟩

theorem fields_of_grant {s : St} {i : Nat} {l : Loc} {m : Mode} (hI : Inv P D s)
    (hi : s.agents[i]? = some l) (hg : l.grant? = some m) :
    match m with
    | .X => (D.dec s.w).x = true ∧ (D.dec s.w).six = false ∧ (D.dec s.w).s = 0
    | .SIX => (D.dec s.w).six = true ∧ (D.dec s.w).x = false
    | .S => 0 < (D.dec s.w).s ∧ (D.dec s.w).x = false := by
  have hpos := cnt_pos_of_grant hi hg
  cases m with
  | X =>
    have := hI.cx
    have hx : (D.dec s.w).x = true := by
      cases hb : (D.dec s.w).x with
      | true => rfl
      | false => rw [hb] at this; simp at this; omega
    exact ⟨hx, hI.xexcl hx⟩
  | SIX =>
    have := hI.csix
    have hsix : (D.dec s.w).six = true := by
      cases hb : (D.dec s.w).six with
      | true => rfl
      | false => rw [hb] at this; simp at this; omega
    refine ⟨hsix, ?_⟩
    cases hb : (D.dec s.w).x with
    | false => rfl
    | true => have := (hI.xexcl hb).1; rw [hsix] at this; cases this
  | S =>
    have := hI.cs
    refine ⟨by omega, ?_⟩
    cases hb : (D.dec s.w).x with
    | false => rfl
    | true => have := (hI.xexcl hb).2; omega

theorem inv_release (hS : Specs P D) {s s' : St} {i : Nat} {loc : Loc} {nv : BitVec 32} {e : Ev}
    (hI : Inv P D s) (hi : s.agents[i]? = some loc) (hcap : s.agents.length < D.cap)
    (h : releaseStep P s i loc nv = some (s', e)) : Inv P D s' := by
  cases loc with
  | held m seen =>
    have hf := fields_of_grant hI hi (m := m) rfl
    cases m with
    | S =>
      simp only [releaseStep, Option.some.injEq, Prod.mk.injEq] at h
      rw [← h.1]
      have hlt : (D.dec s.w).s < D.cap := by
        have := hI.cs; have := cnt_le_length s .S; omega
      have hu := hS.rS _ hf.1 hlt
      apply inv_update hI hi <;> simp [LocOK, hu, g, Loc.grant?, hf.2]
      omega
    | SIX =>
      simp only [releaseStep, Option.some.injEq, Prod.mk.injEq] at h
      rw [← h.1]
      have hu := hS.rSIX _ hf.1
      apply inv_update hI hi <;> simp [LocOK, hu, g, Loc.grant?, hf.1, hf.2]
    | X =>
      simp only [releaseStep, Option.some.injEq, Prod.mk.injEq] at h
      rw [← h.1]
      have hu := hS.rX nv
      apply inv_update hI hi <;> simp [LocOK, hu, g, Loc.grant?, hf.1, hf.2.1, hf.2.2]
  | _ => simp [releaseStep] at h

theorem inv_downgrade (hS : Specs P D) {s s' : St} {i : Nat} {loc : Loc} {nv : BitVec 32} {e : Ev}
    (hI : Inv P D s) (hi : s.agents[i]? = some loc)
    (h : downgradeStep P s i loc nv = some (s', e)) : Inv P D s' := by
  cases loc with
  | held m seen =>
    cases m with
    | X =>
      have hf := fields_of_grant hI hi (m := .X) rfl
      simp only [downgradeStep, Option.some.injEq, Prod.mk.injEq] at h
      rw [← h.1]
      have hu := hS.dng nv
      apply inv_update hI hi <;> simp [LocOK, hu, g, Loc.grant?, hf.1, hf.2.1, hf.2.2]
    | _ => simp [downgradeStep] at h
  | _ => simp [downgradeStep] at h

/-- every transition preserves the invariant (capacity: fewer agents than the shared-counter range) -/
theorem inv_step (hS : Specs P D) {s s' : St} {a : Act} {e : Option Ev}
    (hI : Inv P D s) (hcap : s.agents.length < D.cap)
    (h : step P s a = some (s', e)) : Inv P D s' := by
  cases a with
  | spawn =>
    simp only [step, Option.some.injEq, Prod.mk.injEq] at h
    rw [← h.1]; exact inv_spawn hI
  | start i r =>
    simp only [step] at h
    split at h
    · rename_i hi
      simp only [Option.some.injEq, Prod.mk.injEq] at h
      rw [← h.1]
      refine inv_local hI hi ?_ ?_ <;> cases r <;> simp [Req.start, LocOK, Loc.grant?]
    · cases h
  | atom i ov sp =>
    simp only [step] at h
    split at h
    · rename_i loc hi
      cases hh : atomStep P s i loc ov sp with
      | none => rw [hh] at h; simp at h
      | some r =>
        rw [hh] at h
        simp only [Option.map_some, Option.some.injEq, Prod.mk.injEq] at h
        obtain ⟨s1, e1⟩ := r
        simp only at h
        rw [← h.1]
        exact inv_atom hS hI hi hcap hh
    · cases h
  | release i nv =>
    simp only [step] at h
    split at h
    · rename_i loc hi
      cases hh : releaseStep P s i loc nv with
      | none => rw [hh] at h; simp at h
      | some r =>
        rw [hh] at h
        simp only [Option.map_some, Option.some.injEq, Prod.mk.injEq] at h
        obtain ⟨s1, e1⟩ := r
        simp only at h
        rw [← h.1]
        exact inv_release hS hI hi hcap hh
    · cases h
  | downgrade i nv =>
    simp only [step] at h
    split at h
    · rename_i loc hi
      cases hh : downgradeStep P s i loc nv with
      | none => rw [hh] at h; simp at h
      | some r =>
        rw [hh] at h
        simp only [Option.map_some, Option.some.injEq, Prod.mk.injEq] at h
        obtain ⟨s1, e1⟩ := r
        simp only at h
        rw [← h.1]
        exact inv_downgrade hS hI hi hh
    · cases h
  | upgrade i =>
    simp only [step] at h
    split at h
    · rename_i seen hi
      simp only [Option.some.injEq, Prod.mk.injEq] at h
      rw [← h.1]
      exact inv_local hI hi trivial rfl
    · cases h

/-- the number of agents never decreases -/
theorem length_step {s s' : St} {a : Act} {e : Option Ev} (h : step P s a = some (s', e)) :
    s.agents.length ≤ s'.agents.length := by
  cases a with
  | spawn =>
    simp only [step, Option.some.injEq, Prod.mk.injEq] at h
    rw [← h.1]; simp
  | start i r =>
    simp only [step] at h
    split at h
    · simp only [Option.some.injEq, Prod.mk.injEq] at h
      rw [← h.1]; simp [setLoc]
    · cases h
  | atom i ov sp =>
    simp only [step] at h
    split at h
    · rename_i loc hi
      cases hh : atomStep P s i loc ov sp with
      | none => rw [hh] at h; simp at h
      | some r =>
        rw [hh] at h
        simp only [Option.map_some, Option.some.injEq, Prod.mk.injEq] at h
        rw [← h.1]
        cases loc <;> simp only [atomStep] at hh <;>
          (repeat' split at hh) <;>
          simp only [Option.some.injEq, reduceCtorEq] at hh <;>
          (try (rw [← hh]; simp [setLoc]))
    · cases h
  | release i nv =>
    simp only [step] at h
    split at h
    · rename_i loc hi
      cases hh : releaseStep P s i loc nv with
      | none => rw [hh] at h; simp at h
      | some r =>
        rw [hh] at h
        simp only [Option.map_some, Option.some.injEq, Prod.mk.injEq] at h
        rw [← h.1]
        cases loc <;> simp only [releaseStep] at hh <;>
          (repeat' split at hh) <;>
          simp only [Option.some.injEq, reduceCtorEq] at hh <;>
          (try (rw [← hh]; simp [setLoc]))
    · cases h
  | downgrade i nv =>
    simp only [step] at h
    split at h
    · rename_i loc hi
      cases hh : downgradeStep P s i loc nv with
      | none => rw [hh] at h; simp at h
      | some r =>
        rw [hh] at h
        simp only [Option.map_some, Option.some.injEq, Prod.mk.injEq] at h
        rw [← h.1]
        cases loc <;> simp only [downgradeStep] at hh <;>
          (repeat' split at hh) <;>
          simp only [Option.some.injEq, reduceCtorEq] at hh <;>
          (try (rw [← hh]; simp [setLoc]))
    · cases h
  | upgrade i =>
    simp only [step] at h
    split at h
    · simp only [Option.some.injEq, Prod.mk.injEq] at h
      rw [← h.1]; simp [setLoc]
    · cases h

theorem length_run {s s' : St} {acts : List Act} (h : run P s acts = some s') :
    s.agents.length ≤ s'.agents.length := by
  induction acts generalizing s with
  | nil => simp only [run, Option.some.injEq] at h; rw [h]; exact Nat.le_refl _
  | cons a as ih =>
    simp only [run] at h
    split at h
    · rename_i s1 e hs
      exact Nat.le_trans (length_step hs) (ih h)
    · cases h

theorem inv_run (hS : Specs P D) {s s' : St} {acts : List Act} (hI : Inv P D s)
    (h : run P s acts = some s') (hcap : s'.agents.length < D.cap) : Inv P D s' := by
  induction acts generalizing s with
  | nil => simp only [run, Option.some.injEq] at h; rw [← h]; exact hI
  | cons a as ih =>
    simp only [run] at h
    split at h
    · rename_i s1 e hs
      have hl := length_run h
      exact ih (inv_step hS hI (by have := length_step hs; omega) hs) h
    · cases h

/-- the invariant holds in every reachable state with fewer agents than the shared-counter range -/
theorem inv_reachable (hS : Specs P D) {s : St} (hr : Reachable P s) (hcap : s.agents.length < D.cap) :
    Inv P D s := by
  obtain ⟨acts, h⟩ := hr
  exact inv_run hS (inv_init hS) h hcap

/-- two distinct granted agents ⇒ the count of a mode both carry is at least two -/
theorem two_le_cnt {s : St} {i j : Nat} {li lj : Loc} {m : Mode} (hij : i ≠ j)
    (hi : s.agents[i]? = some li) (hj : s.agents[j]? = some lj)
    (gi : li.grant? = some m) (gj : lj.grant? = some m) : 2 ≤ cnt s m := by
  -- remove agent i (set it to idle): count drops by one and agent j is still there
  have h1 := cnt_setLoc s i li .idle m hi
  have hj' : (setLoc s i .idle).agents[j]? = some lj := by
    simp only [setLoc]; rw [List.getElem?_set_ne hij]; exact hj
  have h2 := cnt_pos_of_grant hj' gj
  have e1 : g li m = 1 := by simp [g, gi]
  have e2 : g Loc.idle m = 0 := by simp [g, Loc.grant?]
  omega

/-- **Mutual exclusion** for every state satisfying the invariant. -/
theorem excl_of_inv {s : St} (hI : Inv P D s) {i j : Nat} {li lj : Loc} {mi mj : Mode} (hij : i ≠ j)
    (hi : s.agents[i]? = some li) (hj : s.agents[j]? = some lj)
    (gi : li.grant? = some mi) (gj : lj.grant? = some mj) : conflict mi mj = false := by
  have fi := fields_of_grant hI hi gi
  have fj := fields_of_grant hI hj gj
  cases mi <;> cases mj <;> simp only [conflict] <;> simp only at fi fj
  · -- S, X
    have := fj.2.2; omega
  · -- SIX, SIX
    have h2 := two_le_cnt hij hi hj gi gj
    have := hI.csix; split at this <;> omega
  · -- SIX, X
    have := fj.2.1; rw [fi.1] at this; cases this
  · -- X, S
    have := fi.2.2; omega
  · -- X, SIX
    have := fi.2.1; rw [fj.1] at this; cases this
  · -- X, X
    have h2 := two_le_cnt hij hi hj gi gj
    have := hI.cx; split at this <;> omega

end CppUtil.WLock
