/-
  MCSLock proof: facts derived from the invariant that the case analyses use again and again.
-/
import CppUtil.Proofs.McsWords
import CppUtil.Proofs.McsK0

namespace CppUtil.Mcs
open CppUtil

variable {W : Nat → Bool → Bool → Nat → Word} {P : Params} {pb cb : Nat} {s : St} {Q : Nat → List Grp}

theorem nodeLive_bound {s : St} {k : Nat} (h : nodeLive s k = true) : 1 ≤ k ∧ k ≤ s.nodes.length := by
  unfold nodeLive at h
  simp only [ge_iff_le, Bool.and_eq_true, decide_eq_true_eq] at h
  refine ⟨h.1, ?_⟩
  rcases Nat.lt_or_ge (k - 1) s.nodes.length with h' | h'
  · omega
  · have : s.nodes.getD (k - 1) none = none := by simp [List.getD, List.getElem?_eq_none h']
    rw [this] at h; simp at h

theorem Inv.node_lt (hI : Inv W P pb cb s Q) {ℓ : Nat} {G : Grp} (hG : G ∈ Q ℓ) : G.node < pb := by
  have := nodeLive_bound (hI.grpLive ℓ G hG)
  have := hI.capN
  omega

theorem Inv.node_pos (hI : Inv W P pb cb s Q) {ℓ : Nat} {G : Grp} (hG : G ∈ Q ℓ) : 0 < G.node :=
  (nodeLive_bound (hI.grpLive ℓ G hG)).1

theorem cnt_le (s : St) (ℓ nd : Nat) : cnt s ℓ nd ≤ s.agents.length := List.countP_le_length

theorem Inv.cnt_lt (hI : Inv W P pb cb s Q) (ℓ nd : Nat) : cnt s ℓ nd + 1 < cb := by
  have := cnt_le s ℓ nd
  have := hI.capA
  omega

theorem Inv.link_lt (hI : Inv W P pb cb s Q) (ℓ : Nat) (j : Nat) : linkOf s (Q ℓ) j < pb := by
  unfold linkOf
  have hpb : 0 < pb := Nat.lt_of_le_of_lt (Nat.zero_le _) hI.capN
  cases h : (Q ℓ)[j + 1]? with
  | none => exact hpb
  | some G' =>
    simp only
    split
    · exact hI.node_lt (List.mem_of_getElem? h)
    · exact hpb

theorem mem_of_idx {q : List Grp} {j : Nat} {G : Grp} (h : q[j]? = some G) : G ∈ q := List.mem_of_getElem? h

/-- groups are identified by their node -/
theorem idx_unique {q : List Grp} (hnd : (q.map (·.node)).Nodup) {j j' : Nat} {G G' : Grp}
    (h : q[j]? = some G) (h' : q[j']? = some G') (hn : G.node = G'.node) : j = j' ∧ G = G' := by
  have hj := getElem?_lt' h
  have hj' := getElem?_lt' h'
  have hget : q[j] = G := by
    have := List.getElem?_eq_getElem hj; rw [this] at h; exact Option.some.inj h
  have hget' : q[j'] = G' := by
    have := List.getElem?_eq_getElem hj'; rw [this] at h'; exact Option.some.inj h'
  have hpw := List.pairwise_iff_getElem.mp hnd
  have hjj : j = j' := by
    rcases Nat.lt_trichotomy j j' with hlt | heq | hgt
    · exfalso
      have := hpw j j' (by simpa using hj) (by simpa using hj') hlt
      simp only [List.getElem_map, hget, hget'] at this
      exact this hn
    · exact heq
    · exfalso
      have := hpw j' j (by simpa using hj') (by simpa using hj) hgt
      simp only [List.getElem_map, hget, hget'] at this
      exact this hn.symm
  subst hjj
  rw [h] at h'
  exact ⟨rfl, Option.some.inj h'⟩

theorem getLast?_idx {q : List Grp} {G : Grp} (h : q.getLast? = some G) : q[q.length - 1]? = some G := by
  rw [List.getLast?_eq_getElem?] at h; exact h

/-- a group that is not the last one has a larger index bound -/
theorem not_last_lt {q : List Grp} (hnd : (q.map (·.node)).Nodup) {j : Nat} {G Gk : Grp}
    (h : q[j]? = some G) (hk : q.getLast? = some Gk) (hne : Gk.node ≠ G.node) : j + 1 < q.length := by
  have hj := getElem?_lt' h
  have hk' := getLast?_idx hk
  rcases Nat.lt_or_ge (j + 1) q.length with hlt | hge
  · exact hlt
  · exfalso
    have : j = q.length - 1 := by omega
    subst this
    rw [h] at hk'
    exact hne (by rw [Option.some.inj hk'])

theorem hmode_eq_of_head {G : Grp} {h : Nat} {a : Agent} (hh : G.head = some h) (ha : s.agents[h]? = some a) :
    hmode s G = a.loc.headMode := by
  unfold hmode headLoc; simp [hh, ha]

theorem hmode_no_head {G : Grp} (hh : G.head = none) : hmode s G = none := by
  unfold hmode headLoc; simp [hh]

theorem hmode_no_agent {G : Grp} {h : Nat} (hh : G.head = some h) (ha : s.agents[h]? = none) : hmode s G = none := by
  unfold hmode headLoc; simp [hh, ha]

/-- a live head contributes X or SIX -/
theorem hmode_cases (hwf : ∀ a ∈ s.agents, a.loc.headMode ≠ some .S) (G : Grp) :
    hmode s G = none ∨ hmode s G = some .X ∨ hmode s G = some .SIX := by
  cases hh : G.head with
  | none => left; exact hmode_no_head hh
  | some h =>
    cases ha : s.agents[h]? with
    | none => left; exact hmode_no_agent hh ha
    | some a =>
      have hne := hwf a (List.mem_of_getElem? ha)
      rw [hmode_eq_of_head hh ha]
      cases hm : a.loc.headMode with
      | none => left; rfl
      | some m => cases m <;> simp_all

theorem hmode_none_of_flags (hwf : ∀ a ∈ s.agents, a.loc.headMode ≠ some .S) {G : Grp}
    (hx : (hmode s G == some .X) = false) (hs : (hmode s G == some .SIX) = false) : hmode s G = none := by
  rcases hmode_cases hwf G with h | h | h
  · exact h
  · simp [h] at hx
  · simp [h] at hs

/-- the live head of a group -/
theorem live_head {G : Grp} (h : (hmode s G).isSome) :
    ∃ i a, G.head = some i ∧ s.agents[i]? = some a ∧ a.loc.headMode = hmode s G := by
  cases hh : G.head with
  | none => rw [hmode_no_head hh] at h; simp at h
  | some i =>
    cases ha : s.agents[i]? with
    | none => rw [hmode_no_agent hh ha] at h; simp at h
    | some a => exact ⟨i, a, rfl, ha, (hmode_eq_of_head hh ha).symm⟩

/-- reading the lock word: its pointer is the last group's node -/
theorem LockInv.lock_ptr (hW : WordSpecs P.C pb cb W) (hI : Inv W P pb cb s Q) {ℓ : Nat} (hℓ : ℓ < s.locks.length)
    {Gk : Grp} (hk : (Q ℓ).getLast? = some Gk) :
    lockW s ℓ = W Gk.node (hmode s Gk == some .X) (hmode s Gk == some .SIX) (cnt s ℓ Gk.node) ∧
    ptrOf P (lockW s ℓ) = Gk.node ∧ lockW s ℓ &&& P.C.kPtrMask = ofNode Gk.node := by
  have hL := hI.locks ℓ hℓ
  have hw : lockW s ℓ = W Gk.node (hmode s Gk == some .X) (hmode s Gk == some .SIX) (cnt s ℓ Gk.node) := by
    rw [hL.lockWord]; unfold expLock grpW; rw [hk]
  have hn := hI.node_lt (List.mem_of_getLast? hk)
  have hc : cnt s ℓ Gk.node < cb := by have := hI.cnt_lt ℓ Gk.node; omega
  refine ⟨hw, ?_, ?_⟩
  · rw [hw]; exact hW.ptrOf P rfl _ _ _ _ hn hc
  · rw [hw]; exact hW.ptr _ _ _ _ hn hc

end CppUtil.Mcs
