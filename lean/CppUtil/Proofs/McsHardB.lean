/-
  MCSLock proof, word-writing steps, part B: the tail exchange of LockSIX / LockX (a new group is appended).
-/
import CppUtil.Proofs.McsHardA

namespace CppUtil.Mcs
open CppUtil

variable {W : Nat → Bool → Bool → Nat → Word} {P : Params} {pb cb : Nat} {s : St} {Q : Nat → List Grp}
variable {i : Nat} {a : Agent}

theorem setQ_same (Q : Nat → List Grp) (ℓ : Nat) (q : List Grp) : setQ Q ℓ q ℓ = q := by simp [setQ]
theorem setQ_other (Q : Nat → List Grp) (ℓ ℓ' : Nat) (q : List Grp) (h : ℓ' ≠ ℓ) : setQ Q ℓ q ℓ' = Q ℓ' := by
  simp [setQ, h]

theorem mem_setQ {Q : Nat → List Grp} {ℓ ℓ' : Nat} {q : List Grp} {G : Grp} (h : G ∈ setQ Q ℓ q ℓ') :
    (ℓ' = ℓ ∧ G ∈ q) ∨ (ℓ' ≠ ℓ ∧ G ∈ Q ℓ') := by
  by_cases hl : ℓ' = ℓ
  · subst hl; rw [setQ_same] at h; exact Or.inl ⟨rfl, h⟩
  · rw [setQ_other _ _ _ _ hl] at h; exact Or.inr ⟨hl, h⟩

/-- an agent that is neither a live head nor done is not recorded as the head of any group -/
theorem not_head_of (hI : Inv W P pb cb s Q) (hi : s.agents[i]? = some a)
    (h1 : a.loc.headMode = none) (h2 : a.loc ≠ .done) {ℓ : Nat} (hℓ : ℓ < s.locks.length) {G : Grp} (hG : G ∈ Q ℓ) :
    G.head ≠ some i := by
  intro hh
  obtain ⟨b, hb, _, hb2⟩ := (hI.locks ℓ hℓ).headish G hG i hh
  rw [hi] at hb; cases hb
  rcases hb2 with h | h
  · rw [h1] at h; simp at h
  · exact h2 h

/-- what the other agents' assertions need from a change of state (same queue) -/
structure Mono (s s' : St) (q : List Grp) : Prop where
  hmodeNone : ∀ G ∈ q, hmode s G = none → hmode s' G = none
  linked : ∀ G ∈ q, linked s G = true → linked s' G = true

theorem PhOK_mono {s s' : St} {q : List Grp} (h : Mono s s' q) (j : Nat) (b : Agent) (ph : Ph)
    (hp : PhOK P s q j b ph) : PhOK P s' q j b ph := by
  cases ph with
  | handoff =>
    obtain ⟨G', h1, h2, h3⟩ := hp
    exact ⟨G', h1, h.linked G' (mem_of_idx h1) h2, h3⟩
  | _ => exact hp

theorem E2_mono {s s' : St} {q : List Grp} (h : Mono s s' q) (j : Nat) (he : E2 s q j) : E2 s' q j := by
  rcases he with h0 | ⟨h1, G0, h2, h3⟩
  · exact Or.inl h0
  · exact Or.inr ⟨h1, G0, h2, h.hmodeNone G0 (mem_of_idx h2) h3⟩

theorem MemOK_mono {s s' : St} {q : List Grp} (h : Mono s s' q) (j : Nat) (G : Grp) (hG : G ∈ q) (b : Agent)
    (hm : MemOK P s q j G b) : MemOK P s' q j G b := by
  unfold MemOK at hm ⊢
  split
  · rename_i heq; simp only [heq] at hm; exact hm
  · rename_i heq; simp only [heq] at hm; exact hm
  · rename_i heq; simp only [heq] at hm
    obtain ⟨G', h1, h2, h3⟩ := hm
    exact ⟨G', h1, h.linked G' (mem_of_idx h1) h2, h3⟩
  · rename_i heq; simp only [heq] at hm; exact h.hmodeNone G hG hm
  · rename_i heq; simp only [heq] at hm; exact ⟨h.hmodeNone G hG hm.1, PhOK_mono h _ _ _ hm.2⟩
  · trivial

theorem HeadOK_mono {s s' : St} {ℓ : Nat} {q : List Grp} (h : Mono s s' q) (j : Nat) (b : Agent)
    (hfroz : ∀ m, b.loc = .xPublish m → ∀ Pg, 0 < j → q[j - 1]? = some Pg →
      grpW W s' ℓ Pg Pg.node = grpW W s ℓ Pg Pg.node)
    (hm : HeadOK W P s ℓ q j b) : HeadOK W P s' ℓ q j b := by
  unfold HeadOK at hm ⊢
  split
  · rename_i m heq; simp only [heq] at hm
    exact ⟨hm.1, fun Pg hj hPg => by rw [hfroz m heq Pg hj hPg]; exact hm.2 Pg hj hPg⟩
  · rename_i heq; simp only [heq] at hm; exact hm
  · trivial
  · rename_i heq; simp only [heq] at hm; exact E2_mono h _ hm
  · rename_i m hne heq
    rw [heq] at hm
    cases m with
    | SIX => exact absurd rfl hne
    | S => exact hm
    | X => exact hm
  · rename_i heq; simp only [heq] at hm; exact E2_mono h _ hm
  · rename_i m ph hne heq
    rw [heq] at hm
    cases m <;> cases ph <;> first
      | exact (hne rfl rfl).elim
      | exact ⟨hm.1, PhOK_mono h _ _ _ hm.2⟩
  · rename_i heq; simp only [heq] at hm; exact E2_mono h _ hm
  · rename_i ph hne heq
    rw [heq] at hm
    cases ph <;> first
      | exact (hne rfl).elim
      | exact ⟨hm.1, PhOK_mono h _ _ _ hm.2⟩
  · rename_i heq; simp only [heq] at hm; exact ⟨hm.1, PhOK_mono h _ _ _ hm.2⟩
  · trivial

/-- Same queue, one agent changed: the lock invariant follows from the word equations, the facts about the
    changed agent, and monotonicity for everybody else. -/
theorem lockInv_same {s s' : St} {ℓ : Nat} {q : List Grp} {a' : Agent} (hL : LockInv W P s ℓ q)
    (hi : s.agents[i]? = some a) (hag : s'.agents = s.agents.set i a')
    (hmono : Mono s s' q)
    (hgw : ∀ j Pg G', q[j]? = some Pg → q[j + 1]? = some G' → linked s G' = false →
      grpW W s' ℓ Pg Pg.node = grpW W s ℓ Pg Pg.node)
    (hlockW : lockW s' ℓ = expLock W s' ℓ q)
    (hnodeW : ∀ j G, q[j]? = some G → nodeW s' G.node = expNode W s' ℓ q j G)
    (hnonempty : ∀ G ∈ q, (hmode s' G).isSome ∨ 0 < cnt s' ℓ G.node)
    (hlater : ∀ j G, q[j]? = some G → 0 < j → (hmode s' G).isSome)
    (hselfHead : a'.loc.headMode.isSome → ∀ j G, q[j]? = some G → G.head = some i →
      a'.lk = ℓ ∧ a'.qnode = G.node ∧ HeadOK W P s' ℓ q j a')
    (hselfish : ∀ G ∈ q, G.head = some i → a'.lk = ℓ ∧ (a'.loc.headMode.isSome ∨ a'.loc = .done))
    (hselfBack : a'.lk = ℓ → a'.loc.headMode.isSome → ∃ G ∈ q, G.head = some i)
    (hselfMem : a'.lk = ℓ → a'.loc.sMem = true → ∃ j G, q[j]? = some G ∧ G.node = a'.qnode ∧ MemOK P s' q j G a') :
    LockInv W P s' ℓ q := by
  refine ⟨hL.nodup, hlockW, hnodeW, hnonempty, hlater, ?_, ?_, ?_, ?_⟩
  · intro j G h hj hh hlive
    by_cases hhi : h = i
    · subst hhi
      have hm : a'.loc.headMode.isSome := by
        rw [hmode_eq hi hag G hh] at hlive; exact hlive
      obtain ⟨h1, h2, h3⟩ := hselfHead hm j G hj hh
      exact ⟨a', ag_eq hi hag, h1, h2, hm, h3⟩
    · have hne : G.head ≠ some i := by rw [hh]; intro e; exact hhi (Option.some.inj e)
      rw [hmode_ne hag G hne] at hlive
      obtain ⟨b, hb, hb1, hb2, hb3, hb4⟩ := hL.heads j G h hj hh hlive
      refine ⟨b, by rw [ag_ne hag hhi]; exact hb, hb1, hb2, hb3, ?_⟩
      apply HeadOK_mono hmono j b _ hb4
      intro m hbl Pg hj0 hPg
      apply hgw (j - 1) Pg G hPg (by rw [show j - 1 + 1 = j by omega]; exact hj)
      unfold linked; rw [headLoc_of_head hh hb, hbl]
  · intro G hG h hh
    by_cases hhi : h = i
    · subst hhi
      obtain ⟨h1, h2⟩ := hselfish G hG hh
      exact ⟨a', ag_eq hi hag, h1, h2⟩
    · obtain ⟨b, hb, hb1, hb2⟩ := hL.headish G hG h hh
      exact ⟨b, by rw [ag_ne hag hhi]; exact hb, hb1, hb2⟩
  · intro k b hk hb1 hb2
    rcases ag_cases hi hag hk with ⟨rfl, rfl⟩ | ⟨_, hk'⟩
    · exact hselfBack hb1 hb2
    · exact hL.headsBack k b hk' hb1 hb2
  · intro k b hk hb1 hb2
    rcases ag_cases hi hag hk with ⟨rfl, rfl⟩ | ⟨_, hk'⟩
    · exact hselfMem hb1 hb2
    · obtain ⟨j, G, hj, hn, hm⟩ := hL.mems k b hk' hb1 hb2
      exact ⟨j, G, hj, hn, MemOK_mono hmono j G (mem_of_idx hj) b hm⟩

/-- when the changed agent is not the head of a group, the group's head data are unchanged -/
theorem mono_of_not_head {s s' : St} {q : List Grp} {a' : Agent} (hag : s'.agents = s.agents.set i a')
    (hnh : ∀ G ∈ q, G.head ≠ some i) : Mono s s' q :=
  ⟨fun G hG h => by rw [hmode_ne hag G (hnh G hG)]; exact h,
   fun G hG h => by rw [linked_ne hag G (hnh G hG)]; exact h⟩

theorem linkOf_not_head {s s' : St} {q : List Grp} {a' : Agent} (hag : s'.agents = s.agents.set i a')
    (hnh : ∀ G ∈ q, G.head ≠ some i) (j : Nat) : linkOf s' q j = linkOf s q j := by
  unfold linkOf
  cases hq : q[j + 1]? with
  | none => rfl
  | some G' => simp only [linked_ne hag G' (hnh G' (mem_of_idx hq))]

theorem expNode_not_head {s s' : St} {ℓ : Nat} {q : List Grp} {a' : Agent} (hag : s'.agents = s.agents.set i a')
    (hnh : ∀ G ∈ q, G.head ≠ some i) (hcnt : ∀ nd, cnt s' ℓ nd = cnt s ℓ nd) (j : Nat) (G : Grp) (hG : G ∈ q) :
    expNode W s' ℓ q j G = expNode W s ℓ q j G := by
  unfold expNode
  rw [published_ne hag G (hnh G hG), linkOf_not_head hag hnh]
  cases hp : q[j - 1]? with
  | none => rfl
  | some Pg => simp only [grpW, hmode_ne hag Pg (hnh Pg (mem_of_idx hp)), hcnt]

theorem expLock_not_head {s s' : St} {ℓ : Nat} {q : List Grp} {a' : Agent} (hag : s'.agents = s.agents.set i a')
    (hnh : ∀ G ∈ q, G.head ≠ some i) (hcnt : ∀ nd, cnt s' ℓ nd = cnt s ℓ nd) :
    expLock W s' ℓ q = expLock W s ℓ q := by
  unfold expLock
  cases hk : q.getLast? with
  | none => rfl
  | some Gk => simp only [grpW, hmode_ne hag Gk (hnh Gk (List.mem_of_getLast? hk)), hcnt]

/-- the other locks do not notice a step of a request on lock `a.lk` -/
theorem lockInv_other {s' : St} {ℓ : Nat} (hI : Inv W P pb cb s Q) (hi : s.agents[i]? = some a) {a' : Agent}
    (hag : s'.agents = s.agents.set i a') (hlk' : a'.lk = a.lk) (hne : ℓ ≠ a.lk) (hℓ : ℓ < s.locks.length)
    (hlw : lockW s' ℓ = lockW s ℓ) (hnw : ∀ G ∈ Q ℓ, nodeW s' G.node = nodeW s G.node) :
    LockInv W P s' ℓ (Q ℓ) := by
  have hL := hI.locks ℓ hℓ
  have hnh : ∀ G ∈ Q ℓ, G.head ≠ some i := by
    intro G hG hh
    obtain ⟨b, hb, hb1, _⟩ := hL.headish G hG i hh
    rw [hi] at hb; cases hb; exact hne hb1.symm
  have hcnt : ∀ nd, cnt s' ℓ nd = cnt s ℓ nd := by
    intro nd
    apply cnt_same hi hag
    simp [isMem, hlk', Ne.symm hne]
  have hlk'' : a'.lk ≠ ℓ := by rw [hlk']; exact Ne.symm hne
  apply lockInv_same hL hi hag (mono_of_not_head hag hnh)
  · intro j Pg G' hj _ _
    simp only [grpW, hmode_ne hag Pg (hnh Pg (mem_of_idx hj)), hcnt]
  · rw [hlw, expLock_not_head hag hnh hcnt]; exact hL.lockWord
  · intro j G hj; rw [hnw G (mem_of_idx hj), expNode_not_head hag hnh hcnt j G (mem_of_idx hj)]; exact hL.nodeWord j G hj
  · intro G hG; rw [hcnt, hmode_ne hag G (hnh G hG)]; exact hL.nonempty G hG
  · intro j G hj hj0; rw [hmode_ne hag G (hnh G (mem_of_idx hj))]; exact hL.laterHeads j G hj hj0
  · intro _ j G hj hh; exact absurd hh (hnh G (mem_of_idx hj))
  · intro G hG hh; exact absurd hh (hnh G hG)
  · intro h; exact absurd h hlk''
  · intro h; exact absurd h hlk''

end CppUtil.Mcs
