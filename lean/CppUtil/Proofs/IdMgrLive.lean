/-
  Liveness of the ID claim loop, as bounded waiting.  While nobody is inside the exit path and there are at least as
  many free slots as threads in the claim loop, a potential
      (number of claimers) * (n + 2) + (distance of `t` to a free slot | 0 | n + 1)
  decreases with every atomic step of thread `t` and never increases with a step of another thread (a successful
  claim by somebody else lowers the first term by `n + 2`, more than anything `t` can lose).  Hence: after at most
  `claimers * (n + 2) + n + 2` of its own steps — however the steps of the others are interleaved — `t` owns an ID.
  Every fair schedule gives `t` that many steps, so every call to GetThreadID returns.
-/
import CppUtil.Proofs.IdMgrInv

namespace CppUtil.IdMgr
open CppUtil

/-- one atomic step of thread `t` of the claim loop / exit path; a thread with nothing to do stays put -/
def stepA (n : Nat) (ef : Bool) (s : St) (t : Nat) : St :=
  match step n ef s (.atom t) with
  | some (s', _) => s'
  | none => s

def execA (n : Nat) (ef : Bool) (s : St) : List Nat → St
  | [] => s
  | t :: ts => execA n ef (stepA n ef s t) ts

def isClaimer : TLoc → Bool
  | .pLoad _ => true
  | .pXchg _ => true
  | _ => false

def claimers (s : St) : Nat := s.threads.countP isClaimer
def freeCnt (s : St) : Nat := s.slots.countP (· == false)

/-- nobody is inside the exit path -/
def NoExit (s : St) : Prop := ∀ l ∈ s.threads, ∀ id, l ≠ .exit1 id ∧ l ≠ .exit2 id

structure Live (n : Nat) (ef : Bool) (s : St) : Prop where
  inv : Inv n ef s
  noexit : NoExit s
  room : claimers s ≤ freeCnt s

theorem stepA_cases (n : Nat) (ef : Bool) (s : St) (t : Nat) (hne : NoExit s) :
    (∃ id, s.threads[t]? = some (.pLoad id) ∧ s.slots.getD id false = true ∧
        stepA n ef s t = setT s t (.pLoad (nextId n id))) ∨
    (∃ id, s.threads[t]? = some (.pLoad id) ∧ s.slots.getD id false = false ∧
        stepA n ef s t = setT s t (.pXchg id)) ∨
    (∃ id, s.threads[t]? = some (.pXchg id) ∧ s.slots.getD id false = true ∧
        stepA n ef s t = setT { s with slots := s.slots.set id true } t (.pLoad (nextId n id))) ∨
    (∃ id, s.threads[t]? = some (.pXchg id) ∧ s.slots.getD id false = false ∧
        stepA n ef s t = { setT { s with slots := s.slots.set id true } t (.owner id) with alive := s.alive.set t true }) ∨
    (stepA n ef s t = s ∧ ∀ l, s.threads[t]? = some l → isClaimer l = false) := by
  cases ht : s.threads[t]? with
  | none =>
    right; right; right; right
    refine ⟨?_, by intro l hl; cases hl⟩
    unfold stepA; simp only [step, ht]
  | some l =>
    cases l with
    | pLoad id =>
      cases hb : s.slots.getD id false with
      | true =>
        left; refine ⟨id, rfl, hb, ?_⟩
        unfold stepA; simp only [step, ht, hb, ↓reduceIte]
      | false =>
        right; left; refine ⟨id, rfl, hb, ?_⟩
        unfold stepA; simp only [step, ht, hb, Bool.false_eq_true, ↓reduceIte]
    | pXchg id =>
      cases hb : s.slots.getD id false with
      | true =>
        right; right; left; refine ⟨id, rfl, hb, ?_⟩
        unfold stepA; simp only [step, ht, hb, ↓reduceIte]
      | false =>
        right; right; right; left; refine ⟨id, rfl, hb, ?_⟩
        unfold stepA; simp only [step, ht, hb, Bool.false_eq_true, ↓reduceIte]
    | exit1 id => exact absurd rfl (hne _ (List.mem_of_getElem? ht) id).1
    | exit2 id => exact absurd rfl (hne _ (List.mem_of_getElem? ht) id).2
    | fresh =>
      right; right; right; right
      refine ⟨?_, by intro l hl; cases hl; rfl⟩
      unfold stepA; simp only [step, ht]
    | owner id =>
      right; right; right; right
      refine ⟨?_, by intro l hl; cases hl; rfl⟩
      unfold stepA; simp only [step, ht]
    | dead =>
      right; right; right; right
      refine ⟨?_, by intro l hl; cases hl; rfl⟩
      unfold stepA; simp only [step, ht]


/-! ### counting -/

theorem countP_set_loc {α : Type} (p : α → Bool) (l : List α) (t : Nat) (old new : α) (h : l[t]? = some old) :
    (l.set t new).countP p + (if p old then 1 else 0) = l.countP p + (if p new then 1 else 0) := by
  have hi := getElem?_lt' h
  have hget : l[t] = old := by
    have := List.getElem?_eq_getElem hi
    rw [this] at h; exact Option.some.inj h
  simp only [List.countP_set hi, hget]
  have hle := List.boole_getElem_le_countP (p := p) hi
  simp only [hget] at hle
  omega

theorem set_same_bool (l : List Bool) (i : Nat) (b : Bool) (h : l.getD i (!b) = b) : l.set i b = l := by
  by_cases hi : i < l.length
  · have hget : l[i] = b := by
      rw [List.getD_eq_getElem?_getD, List.getElem?_eq_getElem hi] at h; simpa using h
    have := List.set_getElem_self (as := l) hi
    rw [hget] at this; exact this
  · exact List.set_eq_of_length_le (by omega)

theorem countP_set_free (l : List Bool) (i : Nat) (hi : i < l.length) (h : l.getD i false = false) :
    (l.set i true).countP (· == false) + 1 = l.countP (· == false) := by
  have hg : l[i]? = some false := by
    rw [List.getD_eq_getElem?_getD, List.getElem?_eq_getElem hi] at h
    rw [List.getElem?_eq_getElem hi]
    simpa using h
  have := countP_set_loc (fun b : Bool => b == false) l i false true hg
  simpa using this

theorem exists_free {n : Nat} {ef : Bool} {s : St} (hI : Inv n ef s) (h : 0 < freeCnt s) :
    ∃ f, f < n ∧ s.slots.getD f false = false := by
  unfold freeCnt at h
  obtain ⟨x, hx, hp⟩ := List.countP_pos_iff.mp h
  obtain ⟨f, hf, hfx⟩ := List.getElem_of_mem hx
  refine ⟨f, by rw [← hI.len]; exact hf, ?_⟩
  rw [List.getD_eq_getElem?_getD, List.getElem?_eq_getElem hf, hfx]
  simpa using hp

theorem inv_stepA {n : Nat} {ef : Bool} (hn : 0 < n) {s : St} (hI : Inv n ef s) (t : Nat) : Inv n ef (stepA n ef s t) := by
  unfold stepA
  cases h : step n ef s (.atom t) with
  | none => exact hI
  | some r => obtain ⟨s', e⟩ := r; exact inv_step hn hI h

theorem noexit_set {s : St} (hne : NoExit s) (t : Nat) (new : TLoc) (hnew : ∀ id, new ≠ .exit1 id ∧ new ≠ .exit2 id)
    (slots' alive' : List Bool) :
    NoExit { slots := slots', threads := s.threads.set t new, alive := alive' } := by
  intro l hl id
  rcases List.mem_or_eq_of_mem_set hl with h | h
  · exact hne l h id
  · subst h; exact hnew id

theorem pos_of_claimer {n : Nat} {ef : Bool} {s : St} (hI : Inv n ef s) {t id : Nat}
    (h : s.threads[t]? = some (.pLoad id) ∨ s.threads[t]? = some (.pXchg id)) : id < n := by
  rcases h with h | h
  · exact hI.pos _ (List.mem_of_getElem? h) id rfl
  · exact hI.pos _ (List.mem_of_getElem? h) id rfl

/-- the steps of the claim loop keep `Live`; exactly the successful exchange lowers both counts by one -/
theorem live_stepA {n : Nat} {ef : Bool} (hn : 0 < n) {s : St} (hL : Live n ef s) (t : Nat) :
    Live n ef (stepA n ef s t) := by
  have hI' := inv_stepA hn hL.inv t
  rcases stepA_cases n ef s t hL.noexit with ⟨id, ht, hb, he⟩ | ⟨id, ht, hb, he⟩ | ⟨id, ht, hb, he⟩ | ⟨id, ht, hb, he⟩ | ⟨he, _⟩
  · rw [he] at hI' ⊢
    refine ⟨hI', noexit_set hL.noexit t _ (by intro i; exact ⟨(by intro h; cases h), (by intro h; cases h)⟩) _ _, ?_⟩
    have := countP_set_loc isClaimer s.threads t _ (.pLoad (nextId n id)) ht
    simp only [isClaimer, ↓reduceIte] at this
    show (s.threads.set t _).countP isClaimer ≤ freeCnt s
    have h2 := hL.room
    unfold claimers at h2
    omega
  · rw [he] at hI' ⊢
    refine ⟨hI', noexit_set hL.noexit t _ (by intro i; exact ⟨(by intro h; cases h), (by intro h; cases h)⟩) _ _, ?_⟩
    have := countP_set_loc isClaimer s.threads t _ (.pXchg id) ht
    simp only [isClaimer, ↓reduceIte] at this
    show (s.threads.set t _).countP isClaimer ≤ freeCnt s
    have h2 := hL.room
    unfold claimers at h2
    omega
  · rw [he] at hI' ⊢
    refine ⟨hI', noexit_set hL.noexit t _ (by intro i; exact ⟨(by intro h; cases h), (by intro h; cases h)⟩) _ _, ?_⟩
    have := countP_set_loc isClaimer s.threads t _ (.pLoad (nextId n id)) ht
    simp only [isClaimer, ↓reduceIte] at this
    have hs : s.slots.set id true = s.slots := set_same_bool s.slots id true (by simpa using hb)
    show (s.threads.set t _).countP isClaimer ≤ (s.slots.set id true).countP (· == false)
    rw [hs]
    have h2 := hL.room
    unfold claimers freeCnt at h2
    omega
  · rw [he] at hI' ⊢
    refine ⟨hI', noexit_set hL.noexit t _ (by intro i; exact ⟨(by intro h; cases h), (by intro h; cases h)⟩) _ _, ?_⟩
    have := countP_set_loc isClaimer s.threads t _ (.owner id) ht
    simp only [isClaimer, ↓reduceIte] at this
    have hidn : id < n := pos_of_claimer hL.inv (Or.inr ht)
    have hf := countP_set_free s.slots id (by rw [hL.inv.len]; exact hidn) hb
    show (s.threads.set t _).countP isClaimer ≤ (s.slots.set id true).countP (· == false)
    have h2 := hL.room
    unfold claimers freeCnt at h2
    simp at this
    omega
  · rw [he]; exact hL


/-! ### a potential that every own step lowers and no foreign step raises -/

/-- cyclic distance from slot `id` forward to slot `f` -/
def cd (n id f : Nat) : Nat := if id ≤ f then f - id else f + n - id

theorem cd_next {n id f : Nat} (hid : id < n) (hf : f < n) (hne : id ≠ f) : cd n (nextId n id) f + 1 = cd n id f := by
  unfold cd nextId
  split <;> split <;> split <;> omega

theorem cd_lt {n id f : Nat} (hid : id < n) (hf : f < n) : cd n id f < n := by
  unfold cd; split <;> omega

/-- `B` bounds the number of further steps thread `t` needs: `(n+2)` per claimer still in the race, plus the way to a
    free slot (`pLoad`), nothing (`pXchg` on a slot that is still free) or a whole new sweep (`pXchg` on a slot that was
    taken meanwhile) -/
def Pot (n : Nat) (s : St) (t : Nat) (B : Nat) : Prop :=
  match s.threads[t]? with
  | some (.pLoad id) => ∃ f, f < n ∧ s.slots.getD f false = false ∧ claimers s * (n + 2) + cd n id f + 1 ≤ B
  | some (.pXchg id) =>
      (s.slots.getD id false = false ∧ claimers s * (n + 2) ≤ B) ∨
      (s.slots.getD id false = true ∧ claimers s * (n + 2) + n + 1 ≤ B)
  | some (.owner _) => True
  | _ => False

theorem setT_thread (s : St) (t : Nat) (l : TLoc) (h : t < s.threads.length) : (setT s t l).threads[t]? = some l := by
  simp only [setT]; exact List.getElem?_set_self h

theorem claimers_pos {s : St} {t : Nat} {l : TLoc} (h : s.threads[t]? = some l) (hc : isClaimer l = true) : 0 < claimers s := by
  unfold claimers
  exact List.countP_pos_iff.mpr ⟨l, List.mem_of_getElem? h, hc⟩

theorem own_step {n : Nat} {ef : Bool} (hn : 0 < n) {s : St} (hL : Live n ef s) {t B : Nat} (hP : Pot n s t (B + 1)) :
    Pot n (stepA n ef s t) t B := by
  rcases stepA_cases n ef s t hL.noexit with ⟨id, ht, hb, he⟩ | ⟨id, ht, hb, he⟩ | ⟨id, ht, hb, he⟩ | ⟨id, ht, hb, he⟩ | ⟨he, hnc⟩
  · -- busy slot: on to the next one
    have hlt := getElem?_lt' ht
    have hidn : id < n := pos_of_claimer hL.inv (Or.inl ht)
    unfold Pot at hP
    rw [ht] at hP
    obtain ⟨f, hf, hff, hle⟩ := hP
    have hne : id ≠ f := by intro e; rw [e] at hb; rw [hb] at hff; cases hff
    have hcl : claimers (setT s t (.pLoad (nextId n id))) = claimers s := by
      have := countP_set_loc isClaimer s.threads t _ (.pLoad (nextId n id)) ht
      simp only [isClaimer, ↓reduceIte] at this
      unfold claimers; simp only [setT]; omega
    rw [he]
    unfold Pot
    rw [setT_thread s t _ hlt]
    refine ⟨f, hf, hff, ?_⟩
    rw [hcl]
    have := cd_next hidn hf hne
    omega
  · -- free slot seen: the exchange is next
    have hlt := getElem?_lt' ht
    unfold Pot at hP
    rw [ht] at hP
    obtain ⟨f, hf, hff, hle⟩ := hP
    have hcl : claimers (setT s t (.pXchg id)) = claimers s := by
      have := countP_set_loc isClaimer s.threads t _ (.pXchg id) ht
      simp only [isClaimer, ↓reduceIte] at this
      unfold claimers; simp only [setT]; omega
    rw [he]
    unfold Pot
    rw [setT_thread s t _ hlt]
    left
    exact ⟨hb, by rw [hcl]; omega⟩
  · -- the exchange lost: a new sweep
    have hlt := getElem?_lt' ht
    have hidn : id < n := pos_of_claimer hL.inv (Or.inr ht)
    unfold Pot at hP
    rw [ht] at hP
    have hle : claimers s * (n + 2) + n + 1 ≤ B + 1 := by
      rcases hP with ⟨h1, _⟩ | ⟨_, h2⟩
      · rw [hb] at h1; cases h1
      · exact h2
    have hs : s.slots.set id true = s.slots := set_same_bool s.slots id true (by simpa using hb)
    have hcl : claimers (setT { s with slots := s.slots.set id true } t (.pLoad (nextId n id))) = claimers s := by
      have := countP_set_loc isClaimer s.threads t _ (.pLoad (nextId n id)) ht
      simp only [isClaimer, ↓reduceIte] at this
      unfold claimers; simp only [setT]; omega
    have hpos := claimers_pos ht rfl
    obtain ⟨f, hf, hff⟩ := exists_free hL.inv (Nat.lt_of_lt_of_le hpos hL.room)
    have hth : (setT { s with slots := s.slots.set id true } t (.pLoad (nextId n id))).threads[t]? =
        some (.pLoad (nextId n id)) := setT_thread { s with slots := s.slots.set id true } t _ hlt
    rw [he]
    unfold Pot
    rw [hth]
    refine ⟨f, hf, by show (s.slots.set id true).getD f false = false; rw [hs]; exact hff, ?_⟩
    rw [hcl]
    have := cd_lt (nextId_lt (id := id) hn) hf
    omega
  · -- claimed
    have hlt := getElem?_lt' ht
    rw [he]
    unfold Pot
    have : ({ setT { s with slots := s.slots.set id true } t (.owner id) with alive := s.alive.set t true } : St).threads[t]?
        = some (.owner id) := setT_thread _ t _ hlt
    rw [this]; trivial
  · rw [he]
    unfold Pot at hP ⊢
    cases ht : s.threads[t]? with
    | none => rw [ht] at hP; exact hP
    | some l =>
      rw [ht] at hP
      have := hnc l ht
      cases l <;> simp_all [isClaimer]

theorem setT_other (s : St) (t t' : Nat) (l : TLoc) (h : t' ≠ t) : (setT s t' l).threads[t]? = s.threads[t]? := by
  simp only [setT]; exact List.getElem?_set_ne h

theorem other_step {n : Nat} {ef : Bool} (hn : 0 < n) {s : St} (hL : Live n ef s) {t t' B : Nat} (hne : t' ≠ t)
    (hP : Pot n s t B) : Pot n (stepA n ef s t') t B := by
  have hL' := live_stepA hn hL t'
  rcases stepA_cases n ef s t' hL.noexit with ⟨id, ht, hb, he⟩ | ⟨id, ht, hb, he⟩ | ⟨id, ht, hb, he⟩ | ⟨id, ht, hb, he⟩ | ⟨he, _⟩
  · have hcl : claimers (setT s t' (.pLoad (nextId n id))) = claimers s := by
      have := countP_set_loc isClaimer s.threads t' _ (.pLoad (nextId n id)) ht
      simp only [isClaimer, ↓reduceIte] at this
      unfold claimers; simp only [setT]; omega
    rw [he]
    unfold Pot at hP ⊢
    rw [setT_other s t t' _ hne, hcl]
    exact hP
  · have hcl : claimers (setT s t' (.pXchg id)) = claimers s := by
      have := countP_set_loc isClaimer s.threads t' _ (.pXchg id) ht
      simp only [isClaimer, ↓reduceIte] at this
      unfold claimers; simp only [setT]; omega
    rw [he]
    unfold Pot at hP ⊢
    rw [setT_other s t t' _ hne, hcl]
    exact hP
  · have hs : s.slots.set id true = s.slots := set_same_bool s.slots id true (by simpa using hb)
    have hcl : claimers (setT { s with slots := s.slots.set id true } t' (.pLoad (nextId n id))) = claimers s := by
      have := countP_set_loc isClaimer s.threads t' _ (.pLoad (nextId n id)) ht
      simp only [isClaimer, ↓reduceIte] at this
      unfold claimers; simp only [setT]; omega
    rw [he]
    unfold Pot at hP ⊢
    rw [setT_other _ t t' _ hne, hcl]
    show (match s.threads[t]? with
      | some (.pLoad id0) => ∃ f, f < n ∧ (s.slots.set id true).getD f false = false ∧ claimers s * (n + 2) + cd n id0 f + 1 ≤ B
      | some (.pXchg id0) =>
          ((s.slots.set id true).getD id0 false = false ∧ claimers s * (n + 2) ≤ B) ∨
          ((s.slots.set id true).getD id0 false = true ∧ claimers s * (n + 2) + n + 1 ≤ B)
      | some (.owner _) => True
      | _ => False)
    rw [hs]; exact hP
  · -- another thread claims slot `id`: one claimer fewer pays for whatever `t` loses
    have hidn : id < n := pos_of_claimer hL.inv (Or.inr ht)
    have hidl : id < s.slots.length := by rw [hL.inv.len]; exact hidn
    have hcl : claimers (stepA n ef s t') + 1 = claimers s := by
      rw [he]
      have := countP_set_loc isClaimer s.threads t' _ (.owner id) ht
      simp only [isClaimer, ↓reduceIte] at this
      unfold claimers; simp only [setT]
      simp at this
      omega
    have hth : (stepA n ef s t').threads[t]? = s.threads[t]? := by
      rw [he]; exact setT_other _ t t' _ hne
    have hsl : ∀ f, f ≠ id → (stepA n ef s t').slots.getD f false = s.slots.getD f false := by
      intro f hf; rw [he]; exact getD_set_ne (Ne.symm hf)
    have hsi : (stepA n ef s t').slots.getD id false = true := by
      rw [he]; exact getD_set_self hidl
    unfold Pot at hP ⊢
    rw [hth]
    cases htt : s.threads[t]? with
    | none => rw [htt] at hP; exact hP
    | some l =>
      rw [htt] at hP
      cases l with
      | pLoad id0 =>
        obtain ⟨f, hf, hff, hle⟩ := hP
        have hid0 : id0 < n := pos_of_claimer hL.inv (Or.inl htt)
        by_cases hfi : f = id
        · -- the witness was taken: any other free slot will do
          have hpos : 0 < claimers (stepA n ef s t') := claimers_pos (hth ▸ htt) rfl
          obtain ⟨f', hf', hff'⟩ := exists_free hL'.inv (Nat.lt_of_lt_of_le hpos hL'.room)
          refine ⟨f', hf', hff', ?_⟩
          have := cd_lt hid0 hf'
          have h1 : claimers s * (n + 2) = claimers (stepA n ef s t') * (n + 2) + (n + 2) := by
            rw [← hcl, Nat.add_mul]; omega
          omega
        · refine ⟨f, hf, by rw [hsl f hfi]; exact hff, ?_⟩
          have h1 : claimers s * (n + 2) = claimers (stepA n ef s t') * (n + 2) + (n + 2) := by
            rw [← hcl, Nat.add_mul]; omega
          omega
      | pXchg id0 =>
        have h1 : claimers s * (n + 2) = claimers (stepA n ef s t') * (n + 2) + (n + 2) := by
          rw [← hcl, Nat.add_mul]; omega
        dsimp only at hP ⊢
        by_cases hii : id0 = id
        · right
          subst hii
          refine ⟨hsi, ?_⟩
          rcases hP with ⟨_, h2⟩ | ⟨_, h2⟩ <;> omega
        · rw [hsl id0 hii]
          rcases hP with ⟨h0, h2⟩ | ⟨h0, h2⟩
          · left; exact ⟨h0, by omega⟩
          · right; exact ⟨h0, by omega⟩
      | owner _ => trivial
      | fresh => exact hP
      | exit1 _ => exact hP
      | exit2 _ => exact hP
      | dead => exact hP
  · rw [he]; exact hP


/-! ### bounded waiting -/

theorem owner_stepA {n : Nat} {ef : Bool} {s : St} (hne : NoExit s) {t id : Nat} (h : s.threads[t]? = some (.owner id)) (a : Nat) :
    (stepA n ef s a).threads[t]? = some (.owner id) := by
  by_cases hat : a = t
  · subst hat
    rcases stepA_cases n ef s a hne with ⟨i, ht, _⟩ | ⟨i, ht, _⟩ | ⟨i, ht, _⟩ | ⟨i, ht, _⟩ | ⟨he, _⟩
    · rw [h] at ht; cases ht
    · rw [h] at ht; cases ht
    · rw [h] at ht; cases ht
    · rw [h] at ht; cases ht
    · rw [he]; exact h
  · rcases stepA_cases n ef s a hne with ⟨i, _, _, he⟩ | ⟨i, _, _, he⟩ | ⟨i, _, _, he⟩ | ⟨i, _, _, he⟩ | ⟨he, _⟩
    · rw [he, setT_other s t a _ hat]; exact h
    · rw [he, setT_other s t a _ hat]; exact h
    · rw [he]; rw [setT_other _ t a _ hat]; exact h
    · rw [he]
      show (setT { s with slots := s.slots.set i true } a (.owner i)).threads[t]? = _
      rw [setT_other _ t a _ hat]; exact h
    · rw [he]; exact h

theorem owner_execA {n : Nat} {ef : Bool} (hn : 0 < n) : ∀ (acts : List Nat) (s : St), Live n ef s → ∀ {t id : Nat},
    s.threads[t]? = some (.owner id) → (execA n ef s acts).threads[t]? = some (.owner id)
  | [], _, _, _, _, h => h
  | a :: rest, s, hL, _, _, h => owner_execA hn rest _ (live_stepA hn hL a) (owner_stepA hL.noexit h a)

/-- **bounded waiting**: whatever the other threads of the claim loop do in between, once thread `t` has taken more
    than `B` atomic steps it owns an ID -/
theorem claim_within {n : Nat} {ef : Bool} (hn : 0 < n) (t : Nat) : ∀ (acts : List Nat) (s : St) (B : Nat),
    Live n ef s → Pot n s t B → B < acts.count t → ∃ id, (execA n ef s acts).threads[t]? = some (.owner id)
  | [], _, _, _, _, hc => by simp at hc
  | a :: rest, s, B, hL, hP, hc => by
    have hL' := live_stepA hn hL a
    -- already owner?
    cases ht : s.threads[t]? with
    | none => unfold Pot at hP; rw [ht] at hP; exact absurd hP id
    | some l =>
      by_cases hown : ∃ id, l = .owner id
      · obtain ⟨id, rfl⟩ := hown
        exact ⟨id, owner_execA hn (a :: rest) s hL ht⟩
      · have hcl : isClaimer l = true := by
          unfold Pot at hP; rw [ht] at hP
          cases l with
          | pLoad _ => rfl
          | pXchg _ => rfl
          | owner id => exact absurd ⟨id, rfl⟩ hown
          | fresh => exact absurd hP id
          | exit1 _ => exact absurd hP id
          | exit2 _ => exact absurd hP id
          | dead => exact absurd hP id
        by_cases hat : a = t
        · subst hat
          -- a claimer's potential is positive
          have hpos := claimers_pos ht hcl
          have hB : 0 < B := by
            unfold Pot at hP; rw [ht] at hP
            cases l with
            | pLoad _ => obtain ⟨f, _, _, hle⟩ := hP; omega
            | pXchg _ =>
              have : n + 2 ≤ claimers s * (n + 2) := Nat.le_mul_of_pos_left _ hpos
              rcases hP with ⟨_, h2⟩ | ⟨_, h2⟩ <;> omega
            | _ => cases hcl
          obtain ⟨B', rfl⟩ : ∃ B', B = B' + 1 := ⟨B - 1, by omega⟩
          have hP' := own_step hn hL hP
          have hc' : B' < rest.count a := by
            simp only [List.count_cons_self] at hc; omega
          exact claim_within hn a rest _ B' hL' hP' hc'
        · have hP' := other_step hn hL hat hP
          have hc' : B < rest.count t := by
            rw [List.count_cons_of_ne hat] at hc; exact hc
          exact claim_within hn t rest _ B hL' hP' hc'

/-- the initial potential of any claimer -/
theorem pot_init {n : Nat} {ef : Bool} (hn : 0 < n) {s : St} (hL : Live n ef s) {t : Nat} {l : TLoc}
    (ht : s.threads[t]? = some l) (hc : isClaimer l = true) : Pot n s t (claimers s * (n + 2) + n + 1) := by
  unfold Pot
  rw [ht]
  cases l with
  | pLoad id =>
    have hpos := claimers_pos ht hc
    obtain ⟨f, hf, hff⟩ := exists_free hL.inv (Nat.lt_of_lt_of_le hpos hL.room)
    have hid : id < n := pos_of_claimer hL.inv (Or.inl ht)
    exact ⟨f, hf, hff, by have := cd_lt hid hf; omega⟩
  | pXchg id =>
    cases hb : s.slots.getD id false with
    | false => left; exact ⟨hb, by omega⟩
    | true => right; exact ⟨hb, Nat.le_refl _⟩
  | _ => cases hc

end CppUtil.IdMgr
