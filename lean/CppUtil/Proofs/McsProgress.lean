/-
  MCSLock: waiting is justified.  In a state satisfying the protocol invariant, a request whose wait
  condition fails *now* has a witness: an unfinished request that is ahead of it in the queue (the live head
  or a shared member of the predecessor group, or the live head of its own group).  The request at the
  front of the queue is never held up by such a condition.  Together with the fact that the queue is finite
  this is the safety half of C02 for MCSLock: no request waits for something that has already happened
  (the defect F3 was exactly such a lost hand-over).
-/
import CppUtil.Proofs.McsLive

namespace CppUtil.Mcs
open CppUtil

variable {W : Nat → Bool → Bool → Nat → Word} {P : Params} {pb cb : Nat} {s : St} {Q : Nat → List Grp}

/-- the test LockSIX / LockX spin on -/
def spinOk (P : Params) (m : Mode) (v : Word) : Bool :=
  match m with
  | .X => (v &&& P.C.kLockMask) == P.C.kNoLocks
  | _ => (v &&& P.C.kXMask) == P.C.kNoLocks

/-- an unfinished request tied to the group with node `nd` on lock `ℓ`: its live head or a shared member -/
def TiedTo (s : St) (ℓ : Nat) (G : Grp) (k : Nat) (b : Agent) : Prop :=
  s.agents[k]? = some b ∧ b.lk = ℓ ∧ b.loc ≠ .done ∧
    ((G.head = some k ∧ b.loc.headMode.isSome) ∨ (b.loc.sMem = true ∧ b.qnode = G.node))

theorem tied_of_head {ℓ : Nat} {G : Grp} (hI : Inv W P pb cb s Q) (hℓ : ℓ < s.locks.length) {j : Nat}
    (hj : (Q ℓ)[j]? = some G) (h : (hmode s G).isSome) : ∃ k b, TiedTo s ℓ G k b := by
  obtain ⟨k, b, hh, hb, hm⟩ := live_head h
  obtain ⟨b', hb', hlk, _, _, _⟩ := (hI.locks ℓ hℓ).heads j G k hj hh h
  rw [hb] at hb'; cases hb'
  refine ⟨k, b, hb, hlk, ?_, Or.inl ⟨hh, by rw [hm]; exact h⟩⟩
  intro e; rw [e] at hm; rw [← hm] at h; cases h

theorem tied_of_cnt {ℓ : Nat} {G : Grp} (h : 0 < cnt s ℓ G.node) : ∃ k b, TiedTo s ℓ G k b := by
  unfold cnt at h
  obtain ⟨b, hb, hmem⟩ := List.countP_pos_iff.mp h
  obtain ⟨k, hk⟩ := List.mem_iff_getElem?.mp hb
  simp only [isMem, Bool.and_eq_true, decide_eq_true_eq] at hmem
  refine ⟨k, b, hk, hmem.1.1, ?_, Or.inr ⟨hmem.2, hmem.1.2⟩⟩
  intro e; rw [e] at hmem; cases hmem.2

/-- **LockSIX / LockX spinning**: if the test on the own node fails, the predecessor group exists and holds
    it up: its head is live, or (for X) it still has shared members -/
theorem blocked_xSpin (hW : WordSpecs P.C pb cb W) (hI : Inv W P pb cb s Q) {i : Nat} {a : Agent}
    (hi : s.agents[i]? = some a) (m : Mode) (hloc : a.loc = .xSpin m)
    (hfail : spinOk P m (nodeW s a.qnode) = false) :
    ∃ (j : Nat) (G Pg : Grp), (Q a.lk)[j + 1]? = some G ∧ G.head = some i ∧ (Q a.lk)[j]? = some Pg ∧
      ∃ k b, TiedTo s a.lk Pg k b := by
  have hwf := hI.wf a (List.mem_of_getElem? hi)
  have hL := hI.locks a.lk hwf.2.1
  have hlive0 : a.loc.headMode.isSome := by rw [hloc]; rfl
  obtain ⟨j, G, hj, hh, hn, _⟩ := head_group (W := W) hI hi hlive0
  have hpub : published s G = true := by unfold published; rw [headLoc_of_head hh hi, hloc]
  have hnw := hL.nodeWord j G hj
  rw [hn] at hnw
  unfold spinOk at hfail
  rw [hnw] at hfail
  unfold expNode at hfail
  rw [hpub] at hfail
  simp only [↓reduceIte] at hfail
  have hcb : 0 < cb := Nat.lt_trans Nat.zero_lt_one hW.cbPos
  have hlk := hI.link_lt a.lk j
  rcases Nat.eq_zero_or_pos j with h0 | hpos
  · -- the front of the queue is never blocked
    exfalso
    subst h0
    simp only [↓reduceIte] at hfail
    cases m <;> simp only [beq_eq_false_iff_ne, ne_eq, hW.noLocks] at hfail
    · exact hfail ((hW.xmask _ _ _ _ hlk hcb).mpr ⟨rfl, rfl⟩)
    · exact hfail ((hW.xmask _ _ _ _ hlk hcb).mpr ⟨rfl, rfl⟩)
    · exact hfail ((hW.lockmask _ _ _ _ hlk hcb).mpr ⟨rfl, rfl, rfl⟩)
  · obtain ⟨Pg, hPg⟩ := pred_exists hj hpos
    have hj0 : j ≠ 0 := by omega
    simp only [hj0, ↓reduceIte, hPg] at hfail
    unfold grpW at hfail
    have hcn : cnt s a.lk Pg.node < cb := by have := hI.cnt_lt a.lk Pg.node; omega
    obtain ⟨j', rfl⟩ : ∃ j', j = j' + 1 := ⟨j - 1, by omega⟩
    refine ⟨j', G, Pg, hj, hh, by simpa using hPg, ?_⟩
    have hwfm : ∀ b ∈ s.agents, b.loc.headMode ≠ some .S := fun b hb => (hI.wf b hb).2.2.2
    -- some flag of the predecessor is set
    by_cases hhm : (hmode s Pg).isSome
    · exact tied_of_head hI hwf.2.1 (by simpa using hPg) hhm
    · have hnone : hmode s Pg = none := by
        cases h : hmode s Pg with
        | none => rfl
        | some x => rw [h] at hhm; simp at hhm
      have hx : (hmode s Pg == some Mode.X) = false := by rw [hnone]; rfl
      have hsx : (hmode s Pg == some Mode.SIX) = false := by rw [hnone]; rfl
      rw [hx, hsx] at hfail
      cases m with
      | S => exfalso; have := hwf.2.2.2; rw [hloc] at this; exact this rfl
      | SIX =>
        exfalso
        simp only [beq_eq_false_iff_ne, ne_eq, hW.noLocks] at hfail
        exact hfail ((hW.xmask _ _ _ _ hlk hcn).mpr ⟨rfl, rfl⟩)
      | X =>
        simp only [beq_eq_false_iff_ne, ne_eq, hW.noLocks] at hfail
        apply tied_of_cnt
        rcases Nat.eq_zero_or_pos (cnt s a.lk Pg.node) with hz | hp
        · exfalso; apply hfail
          rw [hz]; exact (hW.lockmask _ _ _ _ hlk hcb).mpr ⟨rfl, rfl, rfl⟩
        · exact hp

/-- **the front of the queue is never held up**: the head of the first group passes its test -/
theorem front_passes (hW : WordSpecs P.C pb cb W) (hI : Inv W P pb cb s Q) {i : Nat} {a : Agent}
    (hi : s.agents[i]? = some a) (m : Mode) (hloc : a.loc = .xSpin m) {G : Grp}
    (h0 : (Q a.lk)[0]? = some G) (hh : G.head = some i) :
    spinOk P m (nodeW s a.qnode) = true := by
  cases hc : spinOk P m (nodeW s a.qnode) with
  | true => rfl
  | false =>
    exfalso
    obtain ⟨j, G', Pg, hj, hh', _, _⟩ := blocked_xSpin hW hI hi m hloc hc
    have := (head_unique hI hi (by rw [hloc]; rfl) hj hh' h0 hh).1
    omega

/-- **LockS waiting on the lock word**: if the group is still the tail and the test fails, the group's own
    head (which arrived before the joiner) is live -/
theorem blocked_sSpinLock (hW : WordSpecs P.C pb cb W) (hI : Inv W P pb cb s Q) {i : Nat} {a : Agent}
    (hi : s.agents[i]? = some a) (hloc : a.loc = .sSpinLock)
    (hsame : (lockW s a.lk &&& P.C.kPtrMask) = a.nxt) (hfail : (lockW s a.lk &&& P.C.kXMask) ≠ P.C.kNoLocks) :
    ∃ (j : Nat) (G : Grp), (Q a.lk)[j]? = some G ∧ G.node = a.qnode ∧ (hmode s G).isSome ∧
      ∃ k b, TiedTo s a.lk G k b := by
  have hwf := hI.wf a (List.mem_of_getElem? hi)
  have hL := hI.locks a.lk hwf.2.1
  obtain ⟨j, G, hj, hn, hmo⟩ := member_group hI hi (by simp [hloc, Loc.sMem])
  simp only [MemOK, hloc] at hmo
  obtain ⟨Gk, hk⟩ := getLast?_of_idx hj
  obtain ⟨hw, _, hp⟩ := LockInv.lock_ptr hW hI hwf.2.1 hk
  have hGk := hI.node_lt (List.mem_of_getLast? hk)
  have hG := hI.node_lt (mem_of_idx hj)
  have hnode : Gk.node = G.node := by
    apply hW.ofNode_inj hGk hG
    rw [← hp, hsame, hmo, hn]
  obtain ⟨_, hGG⟩ := idx_unique hL.nodup (getLast?_idx hk) hj hnode
  subst hGG
  have hlive : (hmode s Gk).isSome := by
    cases h : hmode s Gk with
    | some x => rfl
    | none =>
      exfalso; apply hfail
      rw [hw, hW.noLocks, h]
      exact (hW.xmask _ _ _ _ hGk (by have := hI.cnt_lt a.lk Gk.node; omega)).mpr ⟨rfl, rfl⟩
  exact ⟨j, Gk, hj, hn, hlive, tied_of_head hI hwf.2.1 hj hlive⟩

/-- **UnlockSIX / UpgradeToX waiting for the earlier shared holders**: if the counter in the own node is not
    zero, the first group still has shared members (they hold S: their group has no live head) -/
theorem blocked_drain (hW : WordSpecs P.C pb cb W) (hI : Inv W P pb cb s Q) {i : Nat} {a : Agent}
    (hi : s.agents[i]? = some a) (hloc : a.loc = .rel .SIX .load0 ∨ a.loc = .upg .load0)
    (hfail : (nodeW s a.qnode &&& P.C.kSMask) ≠ P.C.kNoLocks) :
    ∃ G0, (Q a.lk)[0]? = some G0 ∧ hmode s G0 = none ∧ ∃ k b, TiedTo s a.lk G0 k b := by
  have hwf := hI.wf a (List.mem_of_getElem? hi)
  have hL := hI.locks a.lk hwf.2.1
  have hlive0 : a.loc.headMode.isSome := by rcases hloc with h | h <;> (rw [h]; rfl)
  obtain ⟨j, G, hj, hh, hn, hho⟩ := head_group (W := W) hI hi hlive0
  have he2 : E2 s (Q a.lk) j := by
    rcases hloc with h | h <;> simpa [HeadOK, h] using hho
  have hpub : published s G = true := by
    unfold published; rw [headLoc_of_head hh hi]; rcases hloc with h | h <;> rw [h]
  have hnw := hL.nodeWord j G hj
  rw [hn] at hnw
  rw [hnw, hW.noLocks] at hfail
  unfold expNode at hfail
  rw [hpub] at hfail
  have hcb : 0 < cb := Nat.lt_trans Nat.zero_lt_one hW.cbPos
  have hlk := hI.link_lt a.lk j
  rcases he2 with h0 | ⟨h1, G0, hG0, hnone⟩
  · exfalso; subst h0
    simp only [↓reduceIte] at hfail
    exact hfail ((hW.smask _ _ _ _ hlk hcb).mpr rfl)
  · subst h1
    simp only [↓reduceIte, Nat.succ_ne_zero, Nat.sub_self, hG0, Nat.one_ne_zero] at hfail
    unfold grpW at hfail
    refine ⟨G0, hG0, hnone, tied_of_cnt ?_⟩
    rcases Nat.eq_zero_or_pos (cnt s a.lk G0.node) with hz | hp
    · exfalso; apply hfail
      rw [hz]; exact (hW.smask _ _ _ _ hlk hcb).mpr rfl
    · exact hp

end CppUtil.Mcs
