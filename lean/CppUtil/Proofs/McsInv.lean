/-
  MCSLock: the protocol invariant.

  Abstract view (ghost): per lock a queue `Q ℓ` of *groups*, oldest first.  A group has a queue node and
  possibly a *head* — the LockSIX / LockX request that created the node by the tail exchange (`none`:
  the group was created by a LockS on a free lock).  A head that has released stays recorded but is
  *dead*: `hmode` (the mode flag a live head contributes) is `none` for it.  The
  shared members of a group are the LockS requests that joined it while it was the tail (and the creating
  LockS); they are recognised by their `qnode` field and location and are counted.

  The invariant says what every lock word and node word is, as a function of this view:
    lock word  = (node of the last group , flags of the last group)
    node word  = (node of the successor group once that group's head has linked itself ,
                  flags of the predecessor group — or the X placeholder until the head has published)
  where flags of a group = mode flag of its unreleased head + number of its unreleased shared members,
  plus per-location assertions about local variables, node ownership (private / cached / queued, all
  live, pairwise distinct) and the grant rules from which mutual exclusion follows.
-/
import CppUtil.Model.Mcs

namespace CppUtil.Mcs
open CppUtil

/-! ### abstract view -/

structure Grp where
  node : Nat
  head : Option Nat
  deriving DecidableEq, Repr, Inhabited

def Loc.priv : Loc → Bool
  | .sStore | .sLoad | .sCas | .xStore _ | .xXchg _ => true
  | _ => false

/-- unreleased shared member of a group -/
def Loc.sMem : Loc → Bool
  | .sSpinLock | .sSpinNext | .sSpinNode | .held .S | .rel .S _ => true
  | _ => false

/-- shared member that has been granted -/
def Loc.sGranted : Loc → Bool
  | .held .S | .rel .S _ => true
  | _ => false

/-- mode flag an unreleased head contributes -/
def Loc.headMode : Loc → Option Mode
  | .xPublish m | .xLink m | .xSpin m => some m
  | .held .S => none
  | .held m => some m
  | .rel .S _ => none
  | .rel m _ => some m
  | .upg _ => some .SIX
  | .dng _ => some .X
  | _ => none

def Loc.hGranted : Loc → Bool
  | .held .S => false
  | .held _ => true
  | .rel .S _ => false
  | .rel _ _ => true
  | .upg _ => true
  | .dng _ => true
  | _ => false

def isMem (ℓ nd : Nat) (a : Agent) : Bool := decide (a.lk = ℓ) && decide (a.qnode = nd) && a.loc.sMem

/-- number of unreleased shared members of the group with node `nd` on lock `ℓ` -/
def cnt (s : St) (ℓ nd : Nat) : Nat := s.agents.countP (isMem ℓ nd)

def headLoc (s : St) (G : Grp) : Option Loc :=
  match G.head with
  | some h => (s.agents[h]?).map (·.loc)
  | none => none

def hmode (s : St) (G : Grp) : Option Mode := (headLoc s G).bind Loc.headMode

/-- the head has replaced the placeholder in its node by the predecessor's flags -/
def published (s : St) (G : Grp) : Bool :=
  match headLoc s G with
  | some (.xPublish _) => false
  | _ => true

/-- the head has written its node into the predecessor's node -/
def linked (s : St) (G : Grp) : Bool :=
  match headLoc s G with
  | some (.xPublish _) => false
  | some (.xLink _) => false
  | _ => true

def lockW (s : St) (ℓ : Nat) : Word := rd s (.lock ℓ)
def nodeW (s : St) (k : Nat) : Word := rd s (.node k)

section
variable (W : Nat → Bool → Bool → Nat → Word)

/-- flags of a group, packed with a pointer -/
def grpW (s : St) (ℓ : Nat) (G : Grp) (ptr : Nat) : Word :=
  W ptr (hmode s G == some .X) (hmode s G == some .SIX) (cnt s ℓ G.node)

def expLock (s : St) (ℓ : Nat) (q : List Grp) : Word :=
  match q.getLast? with
  | none => 0
  | some G => grpW W s ℓ G G.node

def linkOf (s : St) (q : List Grp) (j : Nat) : Nat :=
  match q[j + 1]? with
  | some G' => if linked s G' then G'.node else 0
  | none => 0

def expNode (s : St) (ℓ : Nat) (q : List Grp) (j : Nat) (G : Grp) : Word :=
  if published s G then
    (if j = 0 then W (linkOf s q j) false false 0
     else match q[j - 1]? with
       | some Pg => grpW W s ℓ Pg (linkOf s q j)
       | none => W (linkOf s q j) false false 0)
  else W (linkOf s q j) true false 0
end

/-! ### local assertions -/

/-- SIX-granted head of the group at index `j`: nothing before it still holds SIX / X -/
def E2 (s : St) (q : List Grp) (j : Nat) : Prop := j = 0 ∨ (j = 1 ∧ ∃ G0, q[0]? = some G0 ∧ hmode s G0 = none)

def PhOK (P : Params) (s : St) (q : List Grp) (j : Nat) (a : Agent) : Ph → Prop
  | .load0 => True
  | .lockLoad => True
  | .cas => ptrOf P a.cur = a.qnode
  | .spinNext => j + 1 < q.length
  | .handoff => ∃ G', q[j + 1]? = some G' ∧ linked s G' = true ∧ ptrOf P a.nxt = G'.node

/-- assertion of a shared member of the group at index `j` -/
def MemOK (P : Params) (s : St) (q : List Grp) (j : Nat) (G : Grp) (a : Agent) : Prop :=
  match a.loc with
  | .sSpinLock => a.nxt = ofNode a.qnode
  | .sSpinNext => j + 1 < q.length
  | .sSpinNode => ∃ G', q[j + 1]? = some G' ∧ linked s G' = true ∧ a.nxt = ofNode G'.node
  | .held .S => hmode s G = none
  | .rel .S ph => hmode s G = none ∧ PhOK P s q j a ph
  | _ => True

/-- assertion of the head of the group at index `j` -/
def HeadOK (W : Nat → Bool → Bool → Nat → Word) (P : Params) (s : St) (ℓ : Nat) (q : List Grp) (j : Nat) (a : Agent) : Prop :=
  match a.loc with
  | .xPublish _ =>
      (j = 0 → a.cur = 0) ∧ (∀ Pg, 0 < j → q[j - 1]? = some Pg → a.cur = grpW W s ℓ Pg Pg.node)
  | .xLink _ => 0 < j ∧ ∃ Pg, q[j - 1]? = some Pg ∧ ptrOf P a.cur = Pg.node
  | .xSpin _ => True
  | .held .SIX => E2 s q j
  | .held _ => j = 0
  | .rel .SIX .load0 => E2 s q j
  | .rel _ ph => j = 0 ∧ PhOK P s q j a ph
  | .upg .load0 => E2 s q j
  | .upg ph => j = 0 ∧ PhOK P s q j a ph
  | .dng ph => j = 0 ∧ PhOK P s q j a ph
  | _ => True

/-! ### the invariant -/

structure LockInv (W : Nat → Bool → Bool → Nat → Word) (P : Params) (s : St) (ℓ : Nat) (q : List Grp) : Prop where
  nodup : (q.map (·.node)).Nodup
  lockWord : lockW s ℓ = expLock W s ℓ q
  nodeWord : ∀ (j : Nat) (G : Grp), q[j]? = some G → nodeW s G.node = expNode W s ℓ q j G
  nonempty : ∀ G ∈ q, (hmode s G).isSome ∨ 0 < cnt s ℓ G.node
  laterHeads : ∀ (j : Nat) (G : Grp), q[j]? = some G → 0 < j → (hmode s G).isSome
  heads : ∀ (j : Nat) (G : Grp) (h : Nat), q[j]? = some G → G.head = some h → (hmode s G).isSome →
    ∃ a, s.agents[h]? = some a ∧ a.lk = ℓ ∧ a.qnode = G.node ∧ a.loc.headMode.isSome ∧ HeadOK W P s ℓ q j a
  /-- recorded heads (live or dead) are requests on this lock that are, or were, heads -/
  headish : ∀ G ∈ q, ∀ h, G.head = some h →
    ∃ a, s.agents[h]? = some a ∧ a.lk = ℓ ∧ (a.loc.headMode.isSome ∨ a.loc = .done)
  headsBack : ∀ (i : Nat) (a : Agent), s.agents[i]? = some a → a.lk = ℓ → a.loc.headMode.isSome →
    ∃ G ∈ q, G.head = some i
  mems : ∀ (i : Nat) (a : Agent), s.agents[i]? = some a → a.lk = ℓ → a.loc.sMem = true →
    ∃ (j : Nat) (G : Grp), q[j]? = some G ∧ G.node = a.qnode ∧ MemOK P s q j G a

structure Inv (W : Nat → Bool → Bool → Nat → Word) (P : Params) (pb cb : Nat) (s : St) (Q : Nat → List Grp) : Prop where
  uaf : s.uaf = 0
  capN : s.nodes.length < pb
  capA : s.agents.length + 1 < cb
  wf : ∀ a ∈ s.agents, a.tid < s.tls.length ∧ a.lk < s.locks.length ∧ a.loc ≠ .idle ∧ a.loc.headMode ≠ some .S
  outside : ∀ ℓ, s.locks.length ≤ ℓ → Q ℓ = []
  locks : ∀ ℓ, ℓ < s.locks.length → LockInv W P s ℓ (Q ℓ)
  -- node ownership
  privLive : ∀ (i : Nat) (a : Agent), s.agents[i]? = some a → a.loc.priv = true → nodeLive s a.qnode = true
  privUniq : ∀ (i j : Nat) (a b : Agent), s.agents[i]? = some a → s.agents[j]? = some b → a.loc.priv = true → b.loc.priv = true →
    a.qnode = b.qnode → i = j
  privQ : ∀ (i : Nat) (a : Agent) (ℓ : Nat) (G : Grp), s.agents[i]? = some a → a.loc.priv = true → G ∈ Q ℓ → G.node ≠ a.qnode
  privC : ∀ (i : Nat) (a : Agent) (t : Nat), s.agents[i]? = some a → a.loc.priv = true → s.tls[t]? ≠ some (some a.qnode)
  privW : ∀ (i : Nat) (a : Agent), s.agents[i]? = some a →
    (a.loc = .sLoad ∨ a.loc = .sCas → nodeW s a.qnode = 0) ∧
    (∀ m, a.loc = .xXchg m → nodeW s a.qnode = W 0 true false 0)
  cacheLive : ∀ (t k : Nat), s.tls[t]? = some (some k) → nodeLive s k = true
  cacheUniq : ∀ (t t' k : Nat), s.tls[t]? = some (some k) → s.tls[t']? = some (some k) → t = t'
  cacheQ : ∀ (t k ℓ : Nat) (G : Grp), s.tls[t]? = some (some k) → G ∈ Q ℓ → G.node ≠ k
  grpLive : ∀ (ℓ : Nat) (G : Grp), G ∈ Q ℓ → nodeLive s G.node = true
  grpLocks : ∀ (ℓ ℓ' : Nat) (G G' : Grp), G ∈ Q ℓ → G' ∈ Q ℓ' → G.node = G'.node → ℓ = ℓ'

/-! ### mutual exclusion from the invariant -/

def granted? (a : Agent) : Option Mode :=
  match a.loc with
  | .held m => some m
  | .rel m _ => some m
  | .upg _ => some .SIX
  | .dng _ => some .X
  | _ => none

end CppUtil.Mcs

namespace CppUtil.Mcs
open CppUtil

/-! ### ghost update: how the abstract queue changes with each step -/

def setQ (Q : Nat → List Grp) (ℓ : Nat) (q : List Grp) : Nat → List Grp := fun k => if k = ℓ then q else Q k

def ghostAtom (P : Params) (s : St) (Q : Nat → List Grp) (i : Nat) : Nat → List Grp :=
  match s.agents[i]? with
  | none => Q
  | some a =>
    let C := P.C
    let L := rd s (.lock a.lk)
    match a.loc with
    | .sCas => if a.cur = 0 ∧ L = 0 then setQ Q a.lk [{ node := a.qnode, head := none }] else Q
    | .xXchg _ => setQ Q a.lk (Q a.lk ++ [{ node := a.qnode, head := some i }])
    | .rel m .cas =>
      if L = a.cur then
        let dec : Bool := match m with
          | .S => ((a.cur - C.kSLock) &&& (C.kSMask ||| C.kSIXLock)) ≠ 0
          | _ => (a.cur &&& C.kSMask) ≠ 0
        if dec then Q else setQ Q a.lk []
      else Q
    | .rel m .handoff =>
      let old := rd (touch s (.node (ptrOf P a.nxt))) (.node (ptrOf P a.nxt))
      let last : Bool := match m with
        | .S => (old &&& C.kLockMask) = C.kSLock
        | _ => (old &&& C.kSMask) = C.kNoLocks
      if last then setQ Q a.lk (Q a.lk).tail else Q
    | _ => Q

def ghostStep (P : Params) (s : St) (Q : Nat → List Grp) : Act → (Nat → List Grp)
  | .atom i => ghostAtom P s Q i
  | _ => Q

end CppUtil.Mcs
