/-
  MCSLock proof: the facts about lock / node words the protocol proof relies on, stated for an encoding
  `W ptr x six count` and the constants of the implementation.  They are proved for the regenerated
  constants in `Props/McsBits.lean` (tie G); the protocol proof only assumes this structure.
-/
import CppUtil.Proofs.McsFrame

namespace CppUtil.Mcs
open CppUtil

/-- `pb` bounds node numbers (pointer field), `cb` bounds the shared counter -/
structure WordSpecs (C : McsConsts) (pb cb : Nat) (W : Nat → Bool → Bool → Nat → Word) : Prop where
  pbLe : pb ≤ 2 ^ 64
  null : C.kNull = 0
  noLocks : C.kNoLocks = 0
  zero : W 0 false false 0 = 0
  eqZero : ∀ p x six c, p < pb → c < cb → (W p x six c = 0 ↔ p = 0 ∧ x = false ∧ six = false ∧ c = 0)
  inj : ∀ p x six c p' x' six' c', p < pb → c < cb → p' < pb → c' < cb →
    W p x six c = W p' x' six' c' → p = p' ∧ x = x' ∧ six = six' ∧ c = c'
  ptr : ∀ p x six c, p < pb → c < cb → W p x six c &&& C.kPtrMask = ofNode p
  xmask : ∀ p x six c, p < pb → c < cb → ((W p x six c &&& C.kXMask) = 0 ↔ x = false ∧ six = false)
  lockmask : ∀ p x six c, p < pb → c < cb → ((W p x six c &&& C.kLockMask) = 0 ↔ x = false ∧ six = false ∧ c = 0)
  smask : ∀ p x six c, p < pb → c < cb → ((W p x six c &&& C.kSMask) = 0 ↔ c = 0)
  lockbits : ∀ p x six c, p < pb → c < cb → W p x six c &&& C.kLockMask = W 0 x six c
  -- operations
  addS : ∀ p x six c, p < pb → c + 1 < cb → W p x six c + C.kSLock = W p x six (c + 1)
  subS : ∀ p x six c, p < pb → c + 1 < cb → W p x six (c + 1) - C.kSLock = W p x six c
  xorX : ∀ p x six c, p < pb → c < cb → W p x six c ^^^ C.kXLock = W p (!x) six c
  xorSIX : ∀ p x six c, p < pb → c < cb → W p x six c ^^^ C.kSIXLock = W p x (!six) c
  xorXMask : ∀ p x six c, p < pb → c < cb → W p x six c ^^^ C.kXMask = W p (!x) (!six) c
  link : ∀ q x six c, q < pb → c < cb → W 0 x six c + ofNode q = W q x six c
  xflag : C.kXLock = W 0 true false 0
  newS : ∀ q, q < pb → ofNode q ||| C.kSLock = W q false false 1
  newX : ∀ q, q < pb → ofNode q ||| C.kXLock = W q true false 0
  newSIX : ∀ q, q < pb → ofNode q ||| C.kSIXLock = W q false true 0
  /-- the publish operand: placeholder X xor the predecessor's flags -/
  publish : ∀ lnk p x six c, lnk < pb → p < pb → c < cb →
    W lnk true false 0 ^^^ (C.kXLock ^^^ (W p x six c &&& C.kLockMask)) = W lnk x six c
  publish0 : ∀ lnk, lnk < pb → W lnk true false 0 ^^^ (C.kXLock ^^^ ((0 : Word) &&& C.kLockMask)) = W lnk false false 0
  /-- UnlockS test on the lock word: other shared members or a SIX head remain -/
  decS : ∀ p six c, p < pb → c + 1 < cb →
    (((W p false six (c + 1) - C.kSLock) &&& (C.kSMask ||| C.kSIXLock)) ≠ 0 ↔ (c ≠ 0 ∨ six = true))
  /-- recycle test of UnlockS on the successor's node word -/
  lastS : ∀ p x six c, p < pb → c < cb → ((W p x six c &&& C.kLockMask) = C.kSLock ↔ x = false ∧ six = false ∧ c = 1)
  cbPos : 1 < cb

variable {C : McsConsts} {pb cb : Nat} {W : Nat → Bool → Bool → Nat → Word}

theorem ofNode_toNat (k : Nat) (h : k < 2 ^ 64) : (ofNode k).toNat = k := by
  simp [ofNode, BitVec.toNat_ofNat, Nat.mod_eq_of_lt h]

theorem WordSpecs.ptrOf (hW : WordSpecs C pb cb W) (P : Params) (hP : P.C = C) (p : Nat) (x six : Bool) (c : Nat)
    (hp : p < pb) (hc : c < cb) : Mcs.ptrOf P (W p x six c) = p := by
  unfold Mcs.ptrOf
  rw [hP, hW.ptr p x six c hp hc]
  exact ofNode_toNat p (Nat.lt_of_lt_of_le hp hW.pbLe)

theorem WordSpecs.ofNode_inj (hW : WordSpecs C pb cb W) {p p' : Nat} (hp : p < pb) (hp' : p' < pb)
    (h : ofNode p = ofNode p') : p = p' := by
  have h1 := ofNode_toNat p (Nat.lt_of_lt_of_le hp hW.pbLe)
  have h2 := ofNode_toNat p' (Nat.lt_of_lt_of_le hp' hW.pbLe)
  rw [h] at h1; omega

theorem ofNode_zero : ofNode 0 = 0 := rfl

theorem WordSpecs.ofNode_eq_zero (hW : WordSpecs C pb cb W) {p : Nat} (hp : p < pb) (h : ofNode p = 0) : p = 0 :=
  hW.ofNode_inj hp (Nat.lt_of_le_of_lt (Nat.zero_le _) hp) (by rw [h]; rfl)

end CppUtil.Mcs
