/-
  MCSLock proof, word-writing steps, part G: a granted shared member leaves its group while other members
  remain (UnlockS: successful decrementing CAS on the lock word, or `fetch_sub` on the successor's node).
-/
import CppUtil.Proofs.McsHardF

namespace CppUtil.Mcs
open CppUtil

variable {W : Nat → Bool → Bool → Nat → Word} {P : Params} {pb cb : Nat} {s : St} {Q : Nat → List Grp}
variable {i : Nat} {a : Agent}

theorem Loc.headMode_of_sMem (l : Loc) (h : l.sMem = true) : l.headMode = none := by
  cases l with
  | held m => cases m <;> simp_all [Loc.headMode, Loc.sMem]
  | rel m p => cases m <;> simp_all [Loc.headMode, Loc.sMem]
  | _ => simp_all [Loc.headMode, Loc.sMem]

theorem Loc.priv_of_sMem (l : Loc) (h : l.sMem = true) : l.priv = false := by
  cases l <;> simp_all [Loc.priv, Loc.sMem]

structure MemLeave (s : St) (Q : Nat → List Grp) (i : Nat) (a : Agent) (G : Grp) : Prop where
  hi : s.agents[i]? = some a
  mem : a.loc.sMem = true
  first : (Q a.lk)[0]? = some G
  node : G.node = a.qnode
  noHead : hmode s G = none
  more : 1 < cnt s a.lk G.node

section
variable {G : Grp}

theorem MemLeave.prep (hM : MemLeave s Q i a G) (hI : Inv W P pb cb s Q) {s' : St}
    (hag : s'.agents = s.agents.set i { a with loc := .done }) :
    (∀ G' ∈ Q a.lk, G'.head ≠ some i) ∧
    (∀ ℓ nd, (ℓ ≠ a.lk ∨ nd ≠ a.qnode) → cnt s' ℓ nd = cnt s ℓ nd) ∧
    cnt s' a.lk a.qnode + 1 = cnt s a.lk a.qnode ∧ a.loc.priv = false ∧ a.loc.headMode = none := by
  have hwf := hI.wf a (List.mem_of_getElem? hM.hi)
  have hhm : a.loc.headMode = none := Loc.headMode_of_sMem _ hM.mem
  have hnd : a.loc ≠ .done := by intro h; have := hM.mem; rw [h] at this; cases this
  have hp : a.loc.priv = false := Loc.priv_of_sMem _ hM.mem
  refine ⟨fun G' hG' => not_head_of hI hM.hi hhm hnd hwf.2.1 hG', ?_, ?_, hp, hhm⟩
  · intro ℓ nd hne
    apply cnt_same hM.hi hag
    have : isMem ℓ nd a = false := by
      rcases hne with h | h
      · simp [isMem, Ne.symm h]
      · simp [isMem, Ne.symm h]
    rw [this]; simp [isMem, Loc.sMem]
  · have := cnt_upd hM.hi hag a.lk a.qnode
    have h1 : isMem a.lk a.qnode a = true := by simp [isMem, hM.mem]
    have h2 : isMem a.lk a.qnode { a with loc := .done } = false := by simp [isMem, Loc.sMem]
    rw [h1, h2] at this
    simpa using this

/-- … when the group is the tail -/
theorem mem_leave_lock (hW : WordSpecs P.C pb cb W) (hI : Inv W P pb cb s Q) (hM : MemLeave s Q i a G)
    (hlast : (Q a.lk).getLast? = some G) (nw : Word)
    (hnw : nw = W G.node false false (cnt s a.lk G.node - 1)) :
    Inv W P pb cb (setAgent (wr s (.lock a.lk) nw) i { a with loc := .done }) Q := by
  have hwf := hI.wf a (List.mem_of_getElem? hM.hi)
  have hL := hI.locks a.lk hwf.2.1
  have hag : (setAgent (wr s (.lock a.lk) nw) i { a with loc := .done }).agents =
      s.agents.set i { a with loc := .done } := by simp
  obtain ⟨hnh, hcne, hceq, hp, hhm⟩ := hM.prep hI hag
  have hlen : (Q a.lk).length = 1 := by
    have h1 := getLast?_idx hlast
    have := (idx_unique hL.nodup h1 hM.first rfl).1
    have := getElem?_lt' hM.first
    omega
  have hidx : ∀ j' G', (Q a.lk)[j']? = some G' → j' = 0 ∧ G' = G := by
    intro j' G' h
    have := getElem?_lt' h
    have hj0 : j' = 0 := by omega
    subst hj0; rw [hM.first] at h; exact ⟨rfl, (Option.some.inj h).symm⟩
  apply inv_same_q hI hM.hi (.lock a.lk) nw { a with loc := .done } (Or.inl rfl) rfl hwf.1 hp rfl (by simp)
    (by simp [Loc.headMode])
  apply lockInv_same hL hM.hi hag (mono_of_not_head hag hnh)
  · intro j Pg G' hj hj1 _; have := getElem?_lt' hj1; omega
  · rw [lockW_setAgent, lockW_wr_lock s a.lk a.lk nw hwf.2.1]
    simp only [↓reduceIte]
    conv => lhs; rw [hnw]
    unfold expLock; rw [hlast]; dsimp only; unfold grpW
    rw [hmode_ne hag G (hnh G (mem_of_idx hM.first)), hM.noHead, hM.node]
    congr 1 <;> first | rfl | omega
  · intro j' G' hj'
    obtain ⟨rfl, rfl⟩ := hidx j' G' hj'
    rw [nodeW_setAgent, nodeW_wr_lock, hL.nodeWord 0 G' hj']
    symm
    apply expNode_congr (published_ne hag G' (hnh G' (mem_of_idx hj')))
    · apply linkOf_eq_of; intro Gs hGs; have := getElem?_lt' hGs; omega
    · intro Pg p h0 _; omega
  · intro G' hG'
    obtain ⟨j', hj'⟩ := List.mem_iff_getElem?.mp hG'
    obtain ⟨rfl, rfl⟩ := hidx j' G' hj'
    right
    rw [hM.node]
    have := hM.more; rw [hM.node] at this; omega
  · intro j' G' hj' h0; have := (hidx j' G' hj').1; omega
  · intro h; simp [Loc.headMode] at h
  · intro G' hG' hh; exact absurd hh (hnh G' hG')
  · intro _ h; simp [Loc.headMode] at h
  · intro _ h; simp [Loc.sMem] at h

/-- … when the group has a linked successor -/
theorem mem_leave_node (hW : WordSpecs P.C pb cb W) (hI : Inv W P pb cb s Q) (hM : MemLeave s Q i a G)
    {G1 : Grp} (h1 : (Q a.lk)[1]? = some G1) (hl1 : linked s G1 = true) (nw : Word)
    (hnw : nw = W (linkOf s (Q a.lk) 1) false false (cnt s a.lk G.node - 1)) :
    Inv W P pb cb (setAgent (wr s (.node G1.node) nw) i { a with loc := .done }) Q := by
  have hwf := hI.wf a (List.mem_of_getElem? hM.hi)
  have hL := hI.locks a.lk hwf.2.1
  have hag : (setAgent (wr s (.node G1.node) nw) i { a with loc := .done }).agents =
      s.agents.set i { a with loc := .done } := by simp [wr_node_agents]
  obtain ⟨hnh, hcne, hceq, hp, hhm⟩ := hM.prep hI hag
  have hG1m := mem_of_idx h1
  have hG1live := hI.grpLive a.lk G1 hG1m
  -- groups other than the first keep their flags
  have hgwne : ∀ j' Pg p, (Q a.lk)[j']? = some Pg → 0 < j' →
      grpW W (setAgent (wr s (.node G1.node) nw) i { a with loc := .done }) a.lk Pg p = grpW W s a.lk Pg p := by
    intro j' Pg p hj' hpos
    unfold grpW
    rw [hmode_ne hag Pg (hnh Pg (mem_of_idx hj'))]
    rw [hcne a.lk Pg.node (Or.inr (by
      intro e
      have := (idx_unique hL.nodup hj' hM.first (by rw [e, hM.node])).1
      omega))]
  apply inv_same_q hI hM.hi (.node G1.node) nw { a with loc := .done } (Or.inr ⟨G1, hG1m, rfl⟩) rfl hwf.1 hp rfl
    (by simp) (by simp [Loc.headMode])
  apply lockInv_same hL hM.hi hag (mono_of_not_head hag hnh)
  · intro j Pg Gs hj hjs hls
    rcases Nat.eq_zero_or_pos j with h0 | hpos
    · subst h0
      rw [h1] at hjs; cases hjs
      rw [hl1] at hls; cases hls
    · exact hgwne j Pg Pg.node hj hpos
  · rw [lockW_setAgent, lockW_wr_node, hL.lockWord]
    unfold expLock
    cases hk : (Q a.lk).getLast? with
    | none => rfl
    | some Gk =>
      have hk' := getLast?_idx hk
      have : 0 < (Q a.lk).length - 1 := by have := getElem?_lt' h1; omega
      exact (hgwne _ Gk Gk.node hk' this).symm
  · intro j' G' hj'
    rw [nodeW_setAgent, nodeW_wr_node s G1.node G'.node nw hG1live (hI.node_pos (mem_of_idx hj'))]
    by_cases hnode : G'.node = G1.node
    · obtain ⟨rfl, rfl⟩ := idx_unique hL.nodup hj' h1 hnode
      simp only [↓reduceIte]
      conv => lhs; rw [hnw]
      unfold expNode
      have hp1 : published (setAgent (wr s (.node G'.node) nw) i { a with loc := .done }) G' = true := by
        rw [published_ne hag G' (hnh G' hG1m)]; exact linked_published G' hl1
      have hlk : linkOf (setAgent (wr s (.node G'.node) nw) i { a with loc := .done }) (Q a.lk) 1 =
          linkOf s (Q a.lk) 1 := by
        apply linkOf_eq_of
        intro Gs hGs; exact linked_ne hag Gs (hnh Gs (mem_of_idx hGs))
      rw [hp1, hlk]
      simp only [↓reduceIte, Nat.succ_ne_zero, Nat.sub_self, hM.first, Nat.one_ne_zero]
      unfold grpW
      rw [hmode_ne hag G (hnh G (mem_of_idx hM.first)), hM.noHead, hM.node]
      congr 1 <;> first | rfl | omega
    · simp only [hnode, ↓reduceIte]
      rw [hL.nodeWord j' G' hj']
      symm
      apply expNode_congr (published_ne hag G' (hnh G' (mem_of_idx hj')))
      · apply linkOf_eq_of
        intro Gs hGs; exact linked_ne hag Gs (hnh Gs (mem_of_idx hGs))
      · intro Pg p hjpos hPg
        rcases Nat.eq_zero_or_pos (j' - 1) with h0 | hpos
        · exfalso
          have hj1 : j' = 1 := by omega
          subst hj1
          rw [h1] at hj'; cases hj'
          exact hnode rfl
        · exact hgwne (j' - 1) Pg p hPg hpos
  · intro G' hG'
    obtain ⟨j', hj'⟩ := List.mem_iff_getElem?.mp hG'
    rcases Nat.eq_zero_or_pos j' with h0 | hpos
    · subst h0
      rw [hM.first] at hj'; cases hj'
      right
      rw [hM.node]
      have := hM.more; rw [hM.node] at this; omega
    · rw [hmode_ne hag G' (hnh G' hG')]
      left; exact hL.laterHeads j' G' hj' hpos
  · intro j' G' hj' h0; rw [hmode_ne hag G' (hnh G' (mem_of_idx hj'))]; exact hL.laterHeads j' G' hj' h0
  · intro h; simp [Loc.headMode] at h
  · intro G' hG' hh; exact absurd hh (hnh G' hG')
  · intro _ h; simp [Loc.headMode] at h
  · intro _ h; simp [Loc.sMem] at h
end

theorem cnt_pos_of_mem (hi : s.agents[i]? = some a) (hm : a.loc.sMem = true) : 0 < cnt s a.lk a.qnode := by
  unfold cnt
  apply List.countP_pos_iff.mpr
  exact ⟨a, List.mem_of_getElem? hi, by simp [isMem, hm]⟩

/-- a granted shared member's group is the first one -/
theorem member_first (hI : Inv W P pb cb s Q) (hi : s.agents[i]? = some a) (hm : a.loc.sMem = true)
    {j : Nat} {G : Grp} (hj : (Q a.lk)[j]? = some G) (hnone : hmode s G = none) : j = 0 := by
  have hwf := hI.wf a (List.mem_of_getElem? hi)
  rcases Nat.eq_zero_or_pos j with h0 | hpos
  · exact h0
  · have := (hI.locks a.lk hwf.2.1).laterHeads j G hj hpos
    rw [hnone] at this; simp at this

theorem case_relS_cas_dec (hW : WordSpecs P.C pb cb W) (hI : Inv W P pb cb s Q) (hi : s.agents[i]? = some a)
    (hloc : a.loc = .rel .S .cas) (hcur : lockW s a.lk = a.cur)
    (hdec : ((a.cur - P.C.kSLock) &&& (P.C.kSMask ||| P.C.kSIXLock)) ≠ 0) :
    Inv W P pb cb (setAgent (wr s (.lock a.lk) (a.cur - P.C.kSLock)) i { a with loc := .done }) Q := by
  have hsm : a.loc.sMem = true := by simp [hloc, Loc.sMem]
  obtain ⟨j, G, hj, hn, hmo⟩ := member_group hI hi hsm
  simp only [MemOK, hloc, PhOK] at hmo
  have hj0 := member_first hI hi hsm hj hmo.1
  subst hj0
  obtain ⟨hlast, hw⟩ := tail_word hW hI hi hj hn hcur hmo.2
  rw [hmo.1] at hw
  have hcp := cnt_pos_of_mem hi hsm
  rw [← hn] at hcp
  have hnl := hI.node_lt (mem_of_idx hj)
  have hcl := hI.cnt_lt a.lk G.node
  obtain ⟨c, hc⟩ : ∃ c, cnt s a.lk G.node = c + 1 := ⟨cnt s a.lk G.node - 1, by omega⟩
  have hw' : a.cur = W G.node false false (c + 1) := by rw [hw, hc]; rfl
  have hmore : c ≠ 0 := by
    rw [hw'] at hdec
    have := (hW.decS G.node false c hnl (by omega)).mp hdec
    rcases this with h | h
    · exact h
    · cases h
  have hM : MemLeave s Q i a G :=
    { hi := hi, mem := hsm, first := hj, node := hn, noHead := hmo.1, more := by omega }
  apply mem_leave_lock hW hI hM hlast
  rw [hw', hc, hW.subS G.node false false c hnl (by omega)]
  simp

theorem case_relS_handoff_keep (hW : WordSpecs P.C pb cb W) (hI : Inv W P pb cb s Q) (hi : s.agents[i]? = some a)
    (hloc : a.loc = .rel .S .handoff)
    (hnl : ¬ ((nodeW s (ptrOf P a.nxt) &&& P.C.kLockMask) = P.C.kSLock)) :
    Inv W P pb cb (setAgent (wr s (.node (ptrOf P a.nxt)) (nodeW s (ptrOf P a.nxt) - P.C.kSLock)) i
      { a with loc := .done }) Q := by
  have hwf := hI.wf a (List.mem_of_getElem? hi)
  have hsm : a.loc.sMem = true := by simp [hloc, Loc.sMem]
  obtain ⟨j, G, hj, hn, hmo⟩ := member_group hI hi hsm
  simp only [MemOK, hloc, PhOK] at hmo
  have hj0 := member_first hI hi hsm hj hmo.1
  subst hj0
  obtain ⟨hnone, G1, h1, hl1, hp1⟩ := hmo
  have hsw := succ_word (W := W) hI hwf.2.1 hj h1 hl1
  rw [hnone] at hsw
  have hcp := cnt_pos_of_mem hi hsm
  rw [← hn] at hcp
  have hll := hI.link_lt a.lk 1
  have hcl := hI.cnt_lt a.lk G.node
  obtain ⟨c, hc⟩ : ∃ c, cnt s a.lk G.node = c + 1 := ⟨cnt s a.lk G.node - 1, by omega⟩
  have hsw' : nodeW s G1.node = W (linkOf s (Q a.lk) 1) false false (c + 1) := by rw [hsw, hc]; rfl
  have hmore : c ≠ 0 := by
    intro h0
    apply hnl
    rw [hp1, hsw', h0]
    exact (hW.lastS _ false false 1 hll hW.cbPos).mpr ⟨rfl, rfl, rfl⟩
  have hM : MemLeave s Q i a G :=
    { hi := hi, mem := hsm, first := hj, node := hn, noHead := hnone, more := by omega }
  rw [hp1]
  apply mem_leave_node hW hI hM h1 hl1
  rw [hsw', hc, hW.subS _ false false c hll (by omega)]
  simp

end CppUtil.Mcs
