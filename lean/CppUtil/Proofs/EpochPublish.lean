/-
  The two list-handling pieces of `ForwardGlobalEpoch` as separate facts, usable at the two different
  moments at which they happen in a concurrent history: the optional node allocation at the start of the
  forward (`alloc_ok`) and sort/unique + vector write + pruning walk at the end of the scan (`publish_ok`).
  Same argument as `forward_ok` (Proofs/EpochHist.lean), stated over the chain rather than over a
  sequential state.
-/
import CppUtil.Proofs.EpochHist

namespace CppUtil.Epoch
open CppUtil

/-- the C17 shape of a published vector -/
def Shape (C : Consts) (e : Nat) (v : List Nat) : Prop :=
  v.head? = some e ∧ Desc v ∧ (C.kInitialEpoch < e → e - 1 ∈ v)

theorem alloc_ok (C : Consts) (hC : GoodConsts C) (nodes : List PNode) (cur nid : Nat)
    (hchain : ChainDesc nodes) (hlower : ∀ n ∈ nodes, C.kInitialEpoch ≤ n.upper)
    (hhead : ∃ h t, nodes = h :: t ∧ h.upper = upperOf C cur) (hcurge : C.kInitialEpoch ≤ cur) :
    ∃ h1 t1, (maybeNewNode C nodes (cur + 1) nid).1 = h1 :: t1 ∧ h1.upper = upperOf C (cur + 1) ∧
      ChainDesc (h1 :: t1) ∧ (∀ n ∈ h1 :: t1, C.kInitialEpoch ≤ n.upper) ∧ (∀ n ∈ nodes, n ∈ h1 :: t1) := by
  obtain ⟨next, hnext⟩ : ∃ n, n = cur + 1 := ⟨_, rfl⟩
  rw [← hnext]
  obtain ⟨h0, t0, hnodes, hh0⟩ := hhead
  unfold maybeNewNode
  by_cases hl : lowerOf C next = 0
  · simp only [hl, ↓reduceIte]
    have hu := upperOf_of_lower_zero C next hl
    refine ⟨_, _, rfl, by simp [hu], ?_, ?_, fun n hn => List.mem_cons_of_mem _ hn⟩
    · apply List.pairwise_cons.mpr
      refine ⟨?_, hchain⟩
      intro a ha
      rw [hnodes] at ha
      have hle : a.upper ≤ h0.upper := by
        rcases List.mem_cons.mp ha with rfl | ha
        · omega
        · have := (List.pairwise_cons.mp (hnodes ▸ hchain)).1 a ha; omega
      have := upperOf_le C cur
      show next > a.upper
      omega
    · intro n hn
      rcases List.mem_cons.mp hn with rfl | hn
      · show C.kInitialEpoch ≤ next
        omega
      · exact hlower n hn
  · simp only [hl, ↓reduceIte]
    refine ⟨h0, t0, hnodes, ?_, hnodes ▸ hchain, fun n hn => hlower n (hnodes ▸ hn), fun n hn => hnodes ▸ hn⟩
    rw [hh0, hnext]; exact (upperOf_succ_same C hC.cap cur (by rw [← hnext]; exact hl)).symm

theorem publish_ok (C : Consts) (hC : GoodConsts C) (h1 : PNode) (t1 : List PNode) (cur : Nat) (pins : List Nat)
    (pub : Nat → List Nat)
    (hh1 : h1.upper = upperOf C (cur + 1)) (hc1 : ChainDesc (h1 :: t1))
    (hlow1 : ∀ n ∈ h1 :: t1, C.kInitialEpoch ≤ n.upper)
    (hpins : ∀ p ∈ pins, p ≤ cur ∧ C.kInitialEpoch ≤ p)
    (hlists : ∀ p, (p = cur ∨ p ∈ pins) → ∃ n ∈ h1 :: t1, n.upper = upperOf C p ∧ vecOf n (lowerOf C p) = pub p) :
    ∃ ps chain freed, sortDescDedup ([cur + 1, cur] ++ pins) = (cur + 1) :: ps ∧
      publish C (h1 :: t1) (cur + 1) ([cur + 1, cur] ++ pins) = some (chain, (cur + 1) :: ps, freed) ∧
      ChainDesc chain ∧ (∀ n ∈ chain, C.kInitialEpoch ≤ n.upper) ∧
      (∃ h' t', chain = h' :: t' ∧ h'.upper = upperOf C (cur + 1)) ∧
      (∀ p, (p = cur + 1 ∨ p = cur ∨ p ∈ pins) → ∃ n ∈ chain, n.upper = upperOf C p ∧
        vecOf n (lowerOf C p) = (if p = cur + 1 then (cur + 1) :: ps else pub p)) ∧
      Shape C (cur + 1) ((cur + 1) :: ps) ∧
      chain.length ≤ (sortDescDedup (((cur + 1) :: ps).map (upperOf C))).length + 1 := by
  obtain ⟨next, hnext⟩ : ∃ n, n = cur + 1 := ⟨_, rfl⟩
  rw [← hnext] at hh1 ⊢
  have hspec := sortDescDedup_spec ([next, cur] ++ pins)
  have hhead : (sortDescDedup ([next, cur] ++ pins)).head? = some (next) := by
    apply published_head
    · simp
    · intro y hy
      simp only [List.cons_append, List.nil_append, List.mem_cons] at hy
      rcases hy with rfl | rfl | hy
      · omega
      · omega
      · have := (hpins y hy).1; omega
  obtain ⟨ps, hv⟩ : ∃ ps, sortDescDedup ([next, cur] ++ pins) = (next) :: ps := by
    cases h : sortDescDedup ([next, cur] ++ pins) with
    | nil => rw [h] at hhead; simp at hhead
    | cons a as => rw [h] at hhead; simp at hhead; exact ⟨as, by rw [hhead]⟩
  have hvdesc : Desc ((next) :: ps) := hv ▸ hspec.1
  have hvp := List.pairwise_cons.mp hvdesc
  have hps_mem : ∀ p, p ∈ ps ↔ (p ≠ next ∧ (p = cur ∨ p ∈ pins)) := by
    intro p
    have := hspec.2 p
    rw [hv] at this
    simp only [List.mem_cons, List.cons_append, List.nil_append] at this
    constructor
    · intro hp
      have hlt := hvp.1 p hp
      have := this.mp (Or.inr hp)
      rcases this with h | h | h
      · omega
      · exact ⟨by omega, Or.inl h⟩
      · exact ⟨by omega, Or.inr h⟩
    · rintro ⟨hne, h⟩
      have := this.mpr (by rcases h with h | h; exact Or.inr (Or.inl h); exact Or.inr (Or.inr h))
      rcases this with h | h
      · exact absurd h hne
      · exact h
  have hex : ∃ n ∈ h1 :: t1, n.upper = upperOf C next := ⟨h1, by simp, hh1⟩
  have hset := setList_eq_map C next ((next) :: ps) (h1 :: t1) hc1 hex
  let g : PNode → PNode := fun x => if x.upper = upperOf C next then updNode C next ((next) :: ps) x else x
  have hgu : ∀ x, (g x).upper = x.upper := by
    intro x; simp only [g]; split <;> simp [updNode]
  have hc2 : ChainDesc ((h1 :: t1).map g) := by
    rw [ChainDesc, List.pairwise_map]
    simpa [hgu] using hc1
  have hst : PState C ((h1 :: t1).map g) (upperOf C next) ps := by
    refine ⟨hc2, ?_, ?_, ?_, ?_⟩
    · intro n hn
      obtain ⟨x, hx, rfl⟩ := List.mem_map.mp hn
      rw [hgu]; have := hlow1 x hx; have := hC.minlt; omega
    · intro p hp
      apply upperOf_mono
      have := hvp.1 p hp
      omega
    · have : (ps.map (upperOf C)).Pairwise (· ≥ ·) := by
        rw [List.pairwise_map]
        exact hvp.2.imp (fun {a b} hab => upperOf_mono C (by omega))
      exact this
    · right
      constructor
      · exact ⟨g h1, List.mem_map.mpr ⟨h1, by simp, rfl⟩, by rw [hgu]; exact hh1⟩
      · intro p hp
        obtain ⟨_, hp'⟩ := (hps_mem p).mp hp
        obtain ⟨n, hn, hnu, _⟩ := hlists p hp'
        exact ⟨g n, List.mem_map.mpr ⟨n, hn, rfl⟩, by rw [hgu]; exact hnu⟩
  have hprune := prune_spec C ((h1 :: t1).map g) (2 * ((h1 :: t1).map g).length + 4) [] (upperOf C next) ps hst
    (Or.inr (Or.inr ⟨g h1, t1.map g, by simp, by rw [hgu]; exact hh1.symm⟩)) (by omega)
  have hfind : findNode C next (h1 :: t1) = some h1 := findNode_eq C next _ h1 hc1 (by simp) hh1
  have hpub : publish C (h1 :: t1) next ([next, cur] ++ pins) = some
      (keepOf C (upperOf C next) ps ((h1 :: t1).map g), (next) :: ps, freeOf C (upperOf C next) ps ((h1 :: t1).map g)) := by
    simp only [publish]
    rw [hv]
    simp only [hfind]
    rw [show setList C (next) ((next) :: ps) (h1 :: t1) = (h1 :: t1).map g from hset]
    simp only [removeOutdated]
    rw [show prune C (2 * ((h1 :: t1).map g).length + 4) [] ((h1 :: t1).map g) (upperOf C (next)) ps = _ from hprune]
    rfl
  have hwant_head : wantB C (upperOf C next) ps (g h1) = true := by simp [wantB, hgu, hh1]
  obtain ⟨t', ht'⟩ := keepOf_head C (upperOf C next) ps (g h1) (t1.map g) hwant_head
  have hkeep_sub := keepOf_sublist C (upperOf C next) ps ((h1 :: t1).map g)
  have hkc : ChainDesc (keepOf C (upperOf C next) ps ((h1 :: t1).map g)) := hc2.sublist hkeep_sub
  refine ⟨ps, _, _, hv, hpub, hkc, ?_, ?_, ?_, ?_, ?_⟩
  · intro n hn
    have := hkeep_sub.subset hn
    obtain ⟨x, hx, rfl⟩ := List.mem_map.mp this
    rw [hgu]; exact hlow1 x hx
  · exact ⟨g h1, t', by simpa using ht', by rw [hgu]; exact hh1⟩
  · intro p hp
    by_cases hpn : p = next
    · rw [hpn]
      refine ⟨g h1, ?_, by rw [hgu]; exact hh1, ?_⟩
      · rw [show keepOf C (upperOf C next) ps ((h1 :: t1).map g) = g h1 :: t' by simpa using ht']; simp
      · simp only [↓reduceIte, g, hh1]
        exact vecOf_updNode_same C next _ h1
    · have hp' : p = cur ∨ p ∈ pins := by
        rcases hp with hp | hp | hp
        · exact absurd hp hpn
        · exact Or.inl hp
        · exact Or.inr hp
      obtain ⟨n, hn, hnu, hnv⟩ := hlists p hp'
      have hpps : p ∈ ps := (hps_mem p).mpr ⟨hpn, hp'⟩
      refine ⟨g n, ?_, by rw [hgu]; exact hnu, ?_⟩
      · apply (mem_keepOf C (upperOf C next) ps _ (g n)).mpr
        refine ⟨List.mem_map.mpr ⟨n, hn, rfl⟩, Or.inl ?_⟩
        simp only [wantB, hgu, Bool.or_eq_true, beq_iff_eq, List.contains_iff_mem]
        right
        exact List.mem_map.mpr ⟨p, hpps, hnu.symm⟩
      · simp only [hpn, ↓reduceIte]
        rw [← hnv]
        simp only [g]
        split
        · rename_i hnx
          apply vecOf_updNode_other
          apply lower_ne_of_same_upper C _ hpn
          rw [← hnu, hnx]
        · rfl
  · refine ⟨rfl, hvdesc, ?_⟩
    intro _
    have : cur ∈ ps := (hps_mem cur).mpr ⟨by omega, Or.inl rfl⟩
    rw [hnext, Nat.add_sub_cancel]
    exact List.mem_cons_of_mem _ this
  · exact keepOf_length_le C (upperOf C next) ps ((h1 :: t1).map g) hc2

end CppUtil.Epoch
