/-
  MCSLock proof, word-writing steps, part E: a granted head changes (upgrade, downgrade) or drops (release
  with remaining shared members) its mode flag — in the lock word when its group is the tail, in the
  successor's node word otherwise.
-/
import CppUtil.Proofs.McsHardD

namespace CppUtil.Mcs
open CppUtil

variable {W : Nat → Bool → Bool → Nat → Word} {P : Params} {pb cb : Nat} {s : St} {Q : Nat → List Grp}
variable {i : Nat} {a : Agent}

theorem Loc.priv_of_head (l : Loc) (h : l.headMode.isSome) : l.priv = false := by
  cases l <;> simp_all [Loc.headMode, Loc.priv]

theorem Loc.sMem_of_head (l : Loc) (h : l.headMode.isSome) : l.sMem = false := by
  cases l with
  | held m => cases m <;> simp_all [Loc.headMode, Loc.sMem]
  | rel m p => cases m <;> simp_all [Loc.headMode, Loc.sMem]
  | _ => simp_all [Loc.headMode, Loc.sMem]

/-- what the two flag-change lemmas need to know about the agent before and after -/
structure FlagChange (W : Nat → Bool → Bool → Nat → Word) (P : Params) (s : St) (Q : Nat → List Grp)
    (i : Nat) (a a' : Agent) (G : Grp) : Prop where
  hi : s.agents[i]? = some a
  live : a.loc.headMode.isSome
  notPub : a.loc.isPub = false
  notLink : a.loc.isLink = false
  first : (Q a.lk)[0]? = some G
  head : G.head = some i
  lk : a'.lk = a.lk
  qn : a'.qnode = a.qnode
  tid : a'.tid < s.tls.length
  sm : a'.loc.sMem = false
  pub' : a'.loc.isPub = false
  link' : a'.loc.isLink = false
  priv' : a'.loc.priv = false
  idle' : a'.loc ≠ .idle
  notS : a'.loc.headMode ≠ some .S
  /-- the new assertion, when the agent stays a head -/
  headOK : a'.loc.headMode.isSome → ∀ s'', HeadOK W P s'' a.lk (Q a.lk) 0 a'
  done : a'.loc.headMode = none → a'.loc = .done ∧ 0 < cnt s a.lk G.node

theorem FlagChange.facts {a' : Agent} {G : Grp} (hF : FlagChange W P s Q i a a' G) (hI : Inv W P pb cb s Q) :
    a.loc.priv = false ∧ a.loc.sMem = false ∧ G.node = a.qnode := by
  have hwf := hI.wf a (List.mem_of_getElem? hF.hi)
  have hL := hI.locks a.lk hwf.2.1
  have hlive : (hmode s G).isSome := by rw [hmode_eq_of_head hF.head hF.hi]; exact hF.live
  obtain ⟨b, hb, _, hb2, _, _⟩ := hL.heads 0 G i hF.first hF.head hlive
  rw [hF.hi] at hb; cases hb
  exact ⟨Loc.priv_of_head _ hF.live, Loc.sMem_of_head _ hF.live, hb2.symm⟩

section
variable {a' : Agent} {G : Grp}

/-- shared preparation of the two lemmas -/
theorem FlagChange.prep (hF : FlagChange W P s Q i a a' G) (hI : Inv W P pb cb s Q) {s' : St}
    (hag : s'.agents = s.agents.set i a') :
    (∀ j' G', (Q a.lk)[j']? = some G' → G'.head = some i → j' = 0 ∧ G' = G) ∧
    (∀ ℓ nd, cnt s' ℓ nd = cnt s ℓ nd) ∧ Mono s s' (Q a.lk) ∧ hmode s' G = a'.loc.headMode ∧
    published s' G = true ∧ published s G = true := by
  obtain ⟨hp, hsm, hn⟩ := hF.facts hI
  have honly : ∀ j' G', (Q a.lk)[j']? = some G' → G'.head = some i → j' = 0 ∧ G' = G :=
    fun j' G' h1 h2 => head_unique hI hF.hi hF.live h1 h2 hF.first hF.head
  refine ⟨honly, ?_, ?_, hmode_eq hF.hi hag G hF.head, ?_, ?_⟩
  · intro ℓ nd; exact cnt_keep hF.hi hag hF.lk hF.qn (by rw [hF.sm, hsm]) ℓ nd
  · constructor
    · intro G' _ h
      by_cases hh : G'.head = some i
      · rw [hmode_eq_of_head hh hF.hi] at h
        have := hF.live; rw [h] at this; simp at this
      · rw [hmode_ne hag G' hh]; exact h
    · intro G' _ h
      by_cases hh : G'.head = some i
      · rw [linked_eq' hF.hi hag G' hh, hF.pub', hF.link']; rfl
      · rw [linked_ne hag G' hh]; exact h
  · rw [published_eq' hF.hi hag G hF.head, hF.pub']; rfl
  · rw [published_old hF.hi G hF.head, hF.notPub]; rfl

/-- the group is the tail: the flag lives in the lock word -/
theorem flag_change_lock (hW : WordSpecs P.C pb cb W) (hI : Inv W P pb cb s Q) (hF : FlagChange W P s Q i a a' G)
    (hlast : (Q a.lk).getLast? = some G) (nw : Word)
    (hnw : nw = W G.node (a'.loc.headMode == some .X) (a'.loc.headMode == some .SIX) (cnt s a.lk G.node)) :
    Inv W P pb cb (setAgent (wr s (.lock a.lk) nw) i a') Q := by
  have hwf := hI.wf a (List.mem_of_getElem? hF.hi)
  have hL := hI.locks a.lk hwf.2.1
  obtain ⟨hp, hsm, hn⟩ := hF.facts hI
  have hag : (setAgent (wr s (.lock a.lk) nw) i a').agents = s.agents.set i a' := by simp
  obtain ⟨honly, hcnt, hmono, hhm, hpub', hpub⟩ := hF.prep hI hag
  have hlen : (Q a.lk).length = 1 := by
    have h1 := getLast?_idx hlast
    have := (idx_unique hL.nodup h1 hF.first rfl).1
    have := getElem?_lt' hF.first
    omega
  have hidx : ∀ j' G', (Q a.lk)[j']? = some G' → j' = 0 ∧ G' = G := by
    intro j' G' h
    have := getElem?_lt' h
    have hj0 : j' = 0 := by omega
    subst hj0; rw [hF.first] at h; exact ⟨rfl, (Option.some.inj h).symm⟩
  apply inv_same_q hI hF.hi (.lock a.lk) nw a' (Or.inl rfl) hF.lk hF.tid hp hF.priv' hF.idle' hF.notS
  apply lockInv_same hL hF.hi hag hmono
  · intro j Pg G' hj hj1 _
    have := getElem?_lt' hj1; omega
  · rw [lockW_setAgent, lockW_wr_lock s a.lk a.lk nw hwf.2.1]
    simp only [↓reduceIte]
    unfold expLock; rw [hlast]; dsimp only; unfold grpW
    rw [hhm, hcnt, hnw]
  · intro j' G' hj'
    obtain ⟨rfl, rfl⟩ := hidx j' G' hj'
    rw [nodeW_setAgent, nodeW_wr_lock, hL.nodeWord 0 G' hj']
    unfold expNode
    rw [hpub, hpub']
    have hl : linkOf (setAgent (wr s (.lock a.lk) nw) i a') (Q a.lk) 0 = linkOf s (Q a.lk) 0 := by
      apply linkOf_eq_of
      intro Gs hGs; have := getElem?_lt' hGs; omega
    simp [hl]
  · intro G' hG'
    obtain ⟨j', hj'⟩ := List.mem_iff_getElem?.mp hG'
    obtain ⟨rfl, rfl⟩ := hidx j' G' hj'
    rw [hhm, hcnt]
    cases hm : a'.loc.headMode with
    | some m => left; rfl
    | none => right; exact (hF.done hm).2
  · intro j' G' hj' h0; have := (hidx j' G' hj').1; omega
  · intro hlive j' G' hj' _
    obtain ⟨rfl, rfl⟩ := hidx j' G' hj'
    exact ⟨hF.lk, by rw [hF.qn, hn], hF.headOK hlive _⟩
  · intro G' _ _
    refine ⟨hF.lk, ?_⟩
    cases hm : a'.loc.headMode with
    | some m => left; rfl
    | none => right; exact (hF.done hm).1
  · intro _ _; exact ⟨G, mem_of_idx hF.first, hF.head⟩
  · intro _ h; rw [hF.sm] at h; cases h

/-- the group has a linked successor: the flag lives in the successor's node word -/
theorem flag_change_node (hW : WordSpecs P.C pb cb W) (hI : Inv W P pb cb s Q) (hF : FlagChange W P s Q i a a' G)
    {G1 : Grp} (h1 : (Q a.lk)[1]? = some G1) (hl1 : linked s G1 = true) (nw : Word)
    (hnw : nw = W (linkOf s (Q a.lk) 1) (a'.loc.headMode == some .X) (a'.loc.headMode == some .SIX)
      (cnt s a.lk G.node)) :
    Inv W P pb cb (setAgent (wr s (.node G1.node) nw) i a') Q := by
  have hwf := hI.wf a (List.mem_of_getElem? hF.hi)
  have hL := hI.locks a.lk hwf.2.1
  obtain ⟨hp, hsm, hn⟩ := hF.facts hI
  have hag : (setAgent (wr s (.node G1.node) nw) i a').agents = s.agents.set i a' := by simp [wr_node_agents]
  obtain ⟨honly, hcnt, hmono, hhm, hpub', hpub⟩ := hF.prep hI hag
  have hG1m := mem_of_idx h1
  have hG1live := hI.grpLive a.lk G1 hG1m
  -- groups other than the first keep their head data
  have hnh : ∀ j' G', (Q a.lk)[j']? = some G' → 0 < j' → G'.head ≠ some i := by
    intro j' G' hj' hpos hh; have := (honly j' G' hj' hh).1; omega
  have hgwne : ∀ j' Pg p, (Q a.lk)[j']? = some Pg → 0 < j' →
      grpW W (setAgent (wr s (.node G1.node) nw) i a') a.lk Pg p = grpW W s a.lk Pg p := by
    intro j' Pg p hj' hpos
    unfold grpW; rw [hmode_ne hag Pg (hnh j' Pg hj' hpos), hcnt]
  apply inv_same_q hI hF.hi (.node G1.node) nw a' (Or.inr ⟨G1, hG1m, rfl⟩) hF.lk hF.tid hp hF.priv' hF.idle' hF.notS
  apply lockInv_same hL hF.hi hag hmono
  · intro j Pg Gs hj hjs hls
    rcases Nat.eq_zero_or_pos j with h0 | hpos
    · subst h0
      rw [h1] at hjs; cases hjs
      rw [hl1] at hls; cases hls
    · exact hgwne j Pg Pg.node hj hpos
  · rw [lockW_setAgent, lockW_wr_node, hL.lockWord]
    unfold expLock
    cases hk : (Q a.lk).getLast? with
    | none => rfl
    | some Gk =>
      have hk' := getLast?_idx hk
      have : 0 < (Q a.lk).length - 1 := by have := getElem?_lt' h1; omega
      exact (hgwne _ Gk Gk.node hk' this).symm
  · intro j' G' hj'
    rw [nodeW_setAgent, nodeW_wr_node s G1.node G'.node nw hG1live (hI.node_pos (mem_of_idx hj'))]
    by_cases hnode : G'.node = G1.node
    · obtain ⟨rfl, rfl⟩ := idx_unique hL.nodup hj' h1 hnode
      simp only [↓reduceIte]
      unfold expNode
      have hp1 : published (setAgent (wr s (.node G'.node) nw) i a') G' = true := by
        rw [published_ne hag G' (hnh 1 G' hj' (by omega))]; exact linked_published G' hl1
      have hlk : linkOf (setAgent (wr s (.node G'.node) nw) i a') (Q a.lk) 1 = linkOf s (Q a.lk) 1 := by
        apply linkOf_eq_of
        intro Gs hGs; exact linked_ne hag Gs (hnh 2 Gs hGs (by omega))
      rw [hp1, hlk]
      simp only [↓reduceIte, Nat.succ_ne_zero, Nat.sub_self, hF.first, Nat.add_one_sub_one, Nat.one_ne_zero]
      unfold grpW
      rw [hhm, hcnt, hnw]
    · simp only [hnode, ↓reduceIte]
      rw [hL.nodeWord j' G' hj']
      symm
      apply expNode_congr
      · by_cases hh : G'.head = some i
        · obtain ⟨_, rfl⟩ := honly j' G' hj' hh
          rw [hpub, hpub']
        · exact published_ne hag G' hh
      · apply linkOf_eq_of
        intro Gs hGs; exact linked_ne hag Gs (hnh (j' + 1) Gs hGs (by omega))
      · intro Pg p hjpos hPg
        rcases Nat.eq_zero_or_pos (j' - 1) with h0 | hpos
        · exfalso
          have hj1 : j' = 1 := by omega
          subst hj1
          rw [h1] at hj'; cases hj'
          exact hnode rfl
        · exact hgwne (j' - 1) Pg p hPg hpos
  · intro G' hG'
    by_cases hh : G'.head = some i
    · obtain ⟨j', hj'⟩ := List.mem_iff_getElem?.mp hG'
      obtain ⟨_, rfl⟩ := honly j' G' hj' hh
      rw [hhm, hcnt]
      cases hm : a'.loc.headMode with
      | some m => left; rfl
      | none => right; exact (hF.done hm).2
    · rw [hmode_ne hag G' hh, hcnt]; exact hL.nonempty G' hG'
  · intro j' G' hj' h0; rw [hmode_ne hag G' (hnh j' G' hj' h0)]; exact hL.laterHeads j' G' hj' h0
  · intro hlive j' G' hj' hh
    obtain ⟨rfl, rfl⟩ := honly j' G' hj' hh
    exact ⟨hF.lk, by rw [hF.qn, hn], hF.headOK hlive _⟩
  · intro G' _ _
    refine ⟨hF.lk, ?_⟩
    cases hm : a'.loc.headMode with
    | some m => left; rfl
    | none => right; exact (hF.done hm).1
  · intro _ _; exact ⟨G, mem_of_idx hF.first, hF.head⟩
  · intro _ h; rw [hF.sm] at h; cases h
end

end CppUtil.Mcs
