/-
  MCSLock proof, word-writing steps, part E: a granted head changes (upgrade, downgrade) or drops (release
  with remaining shared members) its mode flag — in the lock word when its group is the tail, in the
  successor's node word otherwise.
-/
import CppUtil.Proofs.McsHardD

namespace CppUtil.Mcs
open CppUtil

variable {W : Nat → Bool → Bool → Nat → Word} {P : Params} {pb cb : Nat} {s : St} {Q : Nat → List Grp}
variable {i : Nat} {a : Agent}

theorem Loc.priv_of_head (l : Loc) (h : l.headMode.isSome) : l.priv = false := by
  cases l <;> simp_all [Loc.headMode, Loc.priv]

theorem Loc.sMem_of_head (l : Loc) (h : l.headMode.isSome) : l.sMem = false := by
  cases l with
  | held m => cases m <;> simp_all [Loc.headMode, Loc.sMem]
  | rel m p => cases m <;> simp_all [Loc.headMode, Loc.sMem]
  | _ => simp_all [Loc.headMode, Loc.sMem]

/-- what the two flag-change lemmas need to know about the agent before and after -/
structure FlagChange (W : Nat → Bool → Bool → Nat → Word) (P : Params) (s : St) (Q : Nat → List Grp)
    (i : Nat) (a a' : Agent) (G : Grp) : Prop where
  hi : s.agents[i]? = some a
  live : a.loc.headMode.isSome
  notPub : a.loc.isPub = false
  notLink : a.loc.isLink = false
  first : (Q a.lk)[0]? = some G
  head : G.head = some i
  lk : a'.lk = a.lk
  qn : a'.qnode = a.qnode
  tid : a'.tid < s.tls.length
  sm : a'.loc.sMem = false
  pub' : a'.loc.isPub = false
  link' : a'.loc.isLink = false
  priv' : a'.loc.priv = false
  idle' : a'.loc ≠ .idle
  notS : a'.loc.headMode ≠ some .S
  /-- the new assertion, when the agent stays a head -/
  headOK : a'.loc.headMode.isSome → ∀ s'', HeadOK W P s'' a.lk (Q a.lk) 0 a'
  done : a'.loc.headMode = none → a'.loc = .done ∧ 0 < cnt s a.lk G.node

theorem FlagChange.facts {a' : Agent} {G : Grp} (hF : FlagChange W P s Q i a a' G) (hI : Inv W P pb cb s Q) :
    a.loc.priv = false ∧ a.loc.sMem = false ∧ G.node = a.qnode := by
  have hwf := hI.wf a (List.mem_of_getElem? hF.hi)
  have hL := hI.locks a.lk hwf.2.1
  have hlive : (hmode s G).isSome := by rw [hmode_eq_of_head hF.head hF.hi]; exact hF.live
  obtain ⟨b, hb, _, hb2, _, _⟩ := hL.heads 0 G i hF.first hF.head hlive
  rw [hF.hi] at hb; cases hb
  exact ⟨Loc.priv_of_head _ hF.live, Loc.sMem_of_head _ hF.live, hb2.symm⟩

end CppUtil.Mcs
