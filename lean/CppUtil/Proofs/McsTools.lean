/-
  MCSLock proof: tools for the steps that write a word — how `wr`, `cacheNode`, `takeNode` act on the
  components of the state, how the abstract view reacts when one agent changes, and monotone transfer of
  the other agents' assertions.
-/
import CppUtil.Proofs.McsCasesB

namespace CppUtil.Mcs
open CppUtil

/-! ### words -/

theorem lockW_wr_lock (s : St) (ℓ ℓ' : Nat) (v : Word) (h : ℓ < s.locks.length) :
    lockW (wr s (.lock ℓ) v) ℓ' = if ℓ' = ℓ then v else lockW s ℓ' := by
  unfold lockW rd wr
  simp only [List.getD_eq_getElem?_getD, List.getElem?_set]
  by_cases h' : ℓ' = ℓ
  · subst h'; simp [h]
  · simp [h', Ne.symm h']

@[simp] theorem wr_lock_agents (s : St) (ℓ : Nat) (v : Word) : (wr s (.lock ℓ) v).agents = s.agents := rfl
@[simp] theorem wr_lock_nodes (s : St) (ℓ : Nat) (v : Word) : (wr s (.lock ℓ) v).nodes = s.nodes := rfl
@[simp] theorem wr_lock_tls (s : St) (ℓ : Nat) (v : Word) : (wr s (.lock ℓ) v).tls = s.tls := rfl
@[simp] theorem wr_lock_uaf (s : St) (ℓ : Nat) (v : Word) : (wr s (.lock ℓ) v).uaf = s.uaf := rfl
@[simp] theorem wr_lock_len (s : St) (ℓ : Nat) (v : Word) : (wr s (.lock ℓ) v).locks.length = s.locks.length := by
  simp [wr]
theorem nodeW_wr_lock (s : St) (ℓ k : Nat) (v : Word) : nodeW (wr s (.lock ℓ) v) k = nodeW s k := rfl
theorem nodeLive_wr_lock (s : St) (ℓ k : Nat) (v : Word) : nodeLive (wr s (.lock ℓ) v) k = nodeLive s k := rfl

theorem wr_node_live (s : St) (k : Nat) (v : Word) (h : nodeLive s k = true) :
    wr s (.node k) v = { s with nodes := s.nodes.set (k - 1) (some v) } := by
  simp [wr, h]

theorem nodeW_wr_node (s : St) (k k' : Nat) (v : Word) (h : nodeLive s k = true) (hk' : 1 ≤ k') :
    nodeW (wr s (.node k) v) k' = if k' = k then v else nodeW s k' := by
  rw [wr_node_live s k v h]
  have hb := nodeLive_bound h
  unfold nodeW rd
  simp only [List.getD_eq_getElem?_getD, List.getElem?_set]
  by_cases hkk : k' = k
  · subst hkk
    have : k' - 1 < s.nodes.length := by omega
    simp [this]
  · have : ¬ (k - 1 = k' - 1) := by omega
    simp [this, hkk]

theorem lockW_wr_node (s : St) (k ℓ : Nat) (v : Word) : lockW (wr s (.node k) v) ℓ = lockW s ℓ := by
  simp only [wr]; split <;> rfl

theorem nodeLive_wr_node (s : St) (k k' : Nat) (v : Word) : nodeLive (wr s (.node k) v) k' = nodeLive s k' := by
  simp only [wr]
  split
  · rename_i h
    have hb := nodeLive_bound h
    have hlt : k - 1 < s.nodes.length := by omega
    have hsome : (s.nodes[k - 1]?).bind id |>.isSome := by
      unfold nodeLive at h
      simp only [ge_iff_le, Bool.and_eq_true, decide_eq_true_eq, List.getD_eq_getElem?_getD] at h
      cases hg : s.nodes[k - 1]? with
      | none => rw [hg] at h; simp at h
      | some o => rw [hg] at h; simpa using h.2
    unfold nodeLive
    simp only [List.getD_eq_getElem?_getD]
    by_cases hkk : k - 1 = k' - 1
    · rw [← hkk, List.getElem?_set_self hlt]
      cases hg : s.nodes[k - 1]? with
      | none => rw [hg] at hsome; simp at hsome
      | some o =>
        rw [hg] at hsome
        cases o with
        | none => simp at hsome
        | some w => simp
    · rw [List.getElem?_set_ne hkk]
  · rfl

theorem wr_node_agents (s : St) (k : Nat) (v : Word) : (wr s (.node k) v).agents = s.agents := by
  simp only [wr]; split <;> rfl
theorem wr_node_locks (s : St) (k : Nat) (v : Word) : (wr s (.node k) v).locks = s.locks := by
  simp only [wr]; split <;> rfl
theorem wr_node_tls (s : St) (k : Nat) (v : Word) : (wr s (.node k) v).tls = s.tls := by
  simp only [wr]; split <;> rfl
theorem wr_node_uaf (s : St) (k : Nat) (v : Word) (h : nodeLive s k = true) : (wr s (.node k) v).uaf = s.uaf := by
  simp [wr, h]
theorem wr_node_len (s : St) (k : Nat) (v : Word) : (wr s (.node k) v).nodes.length = s.nodes.length := by
  simp only [wr]; split <;> simp

/-! ### one agent changes -/

section
variable {s s' : St} {i : Nat} {a a' : Agent}

theorem ag_eq (hi : s.agents[i]? = some a) (hag : s'.agents = s.agents.set i a') : s'.agents[i]? = some a' := by
  rw [hag]; have := getElem?_lt' hi; simp [List.getElem?_set, this]

theorem ag_ne (hag : s'.agents = s.agents.set i a') {j : Nat} (h : j ≠ i) : s'.agents[j]? = s.agents[j]? := by
  rw [hag]; simp [List.getElem?_set, Ne.symm h]

theorem ag_cases (hi : s.agents[i]? = some a) (hag : s'.agents = s.agents.set i a') {j : Nat} {b : Agent}
    (hb : s'.agents[j]? = some b) : (j = i ∧ b = a') ∨ (j ≠ i ∧ s.agents[j]? = some b) := by
  by_cases hj : j = i
  · subst hj; rw [ag_eq hi hag] at hb; exact Or.inl ⟨rfl, (Option.some.inj hb).symm⟩
  · rw [ag_ne hag hj] at hb; exact Or.inr ⟨hj, hb⟩

theorem ag_len (hag : s'.agents = s.agents.set i a') : s'.agents.length = s.agents.length := by
  rw [hag]; simp

theorem ag_mem (hi : s.agents[i]? = some a) (hag : s'.agents = s.agents.set i a') {b : Agent} (hb : b ∈ s'.agents) :
    b ∈ s.agents ∨ b = a' := by
  rw [hag] at hb; exact List.mem_or_eq_of_mem_set hb

theorem cnt_upd (hi : s.agents[i]? = some a) (hag : s'.agents = s.agents.set i a') (ℓ nd : Nat) :
    cnt s' ℓ nd + (if isMem ℓ nd a = true then 1 else 0) = cnt s ℓ nd + (if isMem ℓ nd a' = true then 1 else 0) := by
  have hlt := getElem?_lt' hi
  have hget : s.agents[i] = a := by
    have := List.getElem?_eq_getElem hlt; rw [this] at hi; exact Option.some.inj hi
  unfold cnt
  rw [hag, List.countP_set hlt, hget]
  have hle := List.boole_getElem_le_countP (p := isMem ℓ nd) hlt
  rw [hget] at hle
  omega

theorem cnt_same (hi : s.agents[i]? = some a) (hag : s'.agents = s.agents.set i a') (ℓ nd : Nat)
    (h : isMem ℓ nd a' = isMem ℓ nd a) : cnt s' ℓ nd = cnt s ℓ nd := by
  have := cnt_upd hi hag ℓ nd
  rw [h] at this; omega

theorem headLoc_ne (hag : s'.agents = s.agents.set i a') (G : Grp) (h : G.head ≠ some i) :
    headLoc s' G = headLoc s G := by
  unfold headLoc
  cases hh : G.head with
  | none => rfl
  | some k =>
    have : k ≠ i := by intro e; apply h; rw [hh, e]
    simp only [ag_ne hag this]

theorem headLoc_eq (hi : s.agents[i]? = some a) (hag : s'.agents = s.agents.set i a') (G : Grp)
    (h : G.head = some i) : headLoc s' G = some a'.loc := by
  unfold headLoc; simp [h, ag_eq hi hag]

theorem hmode_ne (hag : s'.agents = s.agents.set i a') (G : Grp) (h : G.head ≠ some i) : hmode s' G = hmode s G := by
  unfold hmode; rw [headLoc_ne hag G h]

theorem published_ne (hag : s'.agents = s.agents.set i a') (G : Grp) (h : G.head ≠ some i) :
    published s' G = published s G := by
  unfold published; rw [headLoc_ne hag G h]

theorem linked_ne (hag : s'.agents = s.agents.set i a') (G : Grp) (h : G.head ≠ some i) :
    linked s' G = linked s G := by
  unfold linked; rw [headLoc_ne hag G h]

theorem hmode_eq (hi : s.agents[i]? = some a) (hag : s'.agents = s.agents.set i a') (G : Grp)
    (h : G.head = some i) : hmode s' G = a'.loc.headMode := by
  unfold hmode; rw [headLoc_eq hi hag G h]; rfl

end

/-! ### thread-local node cache -/

theorem cacheNode_agents (s : St) (t k : Nat) : (cacheNode s t k).1.agents = s.agents := by
  unfold cacheNode; split <;> rfl
theorem cacheNode_locks (s : St) (t k : Nat) : (cacheNode s t k).1.locks = s.locks := by
  unfold cacheNode; split <;> rfl
theorem cacheNode_uaf (s : St) (t k : Nat) : (cacheNode s t k).1.uaf = s.uaf := by
  unfold cacheNode; split <;> rfl
theorem cacheNode_tls (s : St) (t k : Nat) : (cacheNode s t k).1.tls = s.tls.set t (some k) := by
  unfold cacheNode; split <;> rfl
theorem cacheNode_nodes (s : St) (t k : Nat) :
    (cacheNode s t k).1.nodes = match s.tls.getD t none with
      | some old => s.nodes.set (old - 1) none
      | none => s.nodes := by
  unfold cacheNode; split <;> simp_all

/-- caching a node leaves every node alone except the one that was cached before (it is freed) -/
theorem cacheNode_nodeW (s : St) (t k k' : Nat) (h : 1 ≤ k') (hne : s.tls[t]? ≠ some (some k')) (ht : t < s.tls.length)
    (hold : ∀ old, s.tls[t]? = some (some old) → 1 ≤ old) :
    nodeW (cacheNode s t k).1 k' = nodeW s k' ∧ nodeLive (cacheNode s t k).1 k' = nodeLive s k' := by
  unfold nodeW rd nodeLive
  rw [cacheNode_nodes]
  have hget : s.tls.getD t none = s.tls[t] := by simp [List.getD_eq_getElem?_getD, ht]
  cases hc : s.tls.getD t none with
  | none => simp
  | some old =>
    have hso : s.tls[t]? = some (some old) := by
      rw [List.getElem?_eq_getElem ht, ← hget, hc]
    have h1 := hold old hso
    have hne' : old ≠ k' := by intro e; apply hne; rw [hso, e]
    have : ¬ (old - 1 = k' - 1) := by omega
    simp [List.getD_eq_getElem?_getD, List.getElem?_set, this]

end CppUtil.Mcs
