/-
  Guard algebra, part 9: every iteration of `advance`, `advance` itself, every atomic step, every quantum.
-/
import CppUtil.Proofs.WClientOps5

set_option linter.unusedSimpArgs false
set_option linter.unusedVariables false

namespace CppUtil.WClient
open CppUtil CppUtil.WLock

variable {P : WParams} {vo : Nat → Nat} {ao : Nat → Nat → Nat}

theorem iter_tail0 {c : Client} {t : Nat} (X : Ctx vo ao c t) {d : Nat} (k : Nat) (res : String)
    (htg : ((getThread c t).prog[(getThread c t).pc]'X.hpc).target? = some d)
    (hph : (getThread c t).phase + 1 = ((getThread c t).prog[(getThread c t).pc]'X.hpc).relPhase) :
    IterOk vo c t (assignTail c t d 0 k res) := by
  simp only [assignTail, if_true]
  cases hown : (getVar c d).own with
  | none => exact X.rel_next htg hph hown _
  | some r => obtain ⟨lk', a'⟩ := r; exact X.rel_block htg hph hown _ _

theorem iter_tail1 {c : Client} {t : Nat} (X : Ctx vo ao c t) {d : Nat} (k : Nat) (res : String)
    (htg : ((getThread c t).prog[(getThread c t).pc]'X.hpc).target? = some d)
    (hnt : ((getThread c t).prog[(getThread c t).pc]'X.hpc).noTmp = false)
    (h0 : (getThread c t).phase ≠ 0) (h1 : (getThread c t).phase ≠ 1) (h2 : (getThread c t).phase ≠ 2) :
    IterOk vo c t (assignTail c t d 1 k res) := by
  simp only [assignTail, if_false, Nat.one_ne_zero]
  exact X.take_tmp htg hnt h0 h1 h2 _ _

/-- the shape shared by the five guard-producing instructions: phases 2 and 3 are `assignTail` -/
theorem iter_tail {c : Client} {t : Nat} (X : Ctx vo ao c t) {d : Nat} (k : Nat) (res0 res1 : String)
    (htg : ((getThread c t).prog[(getThread c t).pc]'X.hpc).target? = some d)
    (hnt : ((getThread c t).prog[(getThread c t).pc]'X.hpc).noTmp = false)
    (h0 : (getThread c t).phase ≠ 0) (h1 : (getThread c t).phase ≠ 1) :
    IterOk vo c t (if (getThread c t).phase = 2 then assignTail c t d 0 k res0 else assignTail c t d 1 k res1) := by
  split
  · rename_i h2
    refine iter_tail0 X k res0 htg ?_
    rw [h2]
    generalize (getThread c t).prog[(getThread c t).pc]'X.hpc = op at hnt htg
    cases op <;> simp [Op.noTmp] at hnt <;> simp [Op.relPhase]
  · rename_i h2
    exact iter_tail1 X k res1 htg hnt h0 h1 h2

/-- **one iteration of `advance`** preserves the invariant, whatever the instruction and the phase -/
theorem iter_inv {c : Client} {t : Nat} (X : Ctx vo ao c t) :
    IterOk vo c t (runPhase P c t (getThread c t).pc ((getThread c t).prog[(getThread c t).pc]'X.hpc) (getThread c t).phase) := by
  cases hop : (getThread c t).prog[(getThread c t).pc]'X.hpc with
  | lock m d lk =>
    by_cases h0 : (getThread c t).phase = 0
    · exact iter_lock0 X m d lk _ hop h0
    by_cases h1 : (getThread c t).phase = 1
    · exact iter_lock1 X m d lk _ hop h1
    have := iter_tail X (d := d) (getThread c t).pc "1" "1" (by rw [hop]; rfl) (by rw [hop]; rfl) h0 h1
    obtain ⟨n, hn⟩ := Nat.exists_eq_succ_of_ne_zero h0
    obtain ⟨n', hn'⟩ := Nat.exists_eq_succ_of_ne_zero (show n ≠ 0 by omega)
    subst hn'
    rw [hn] at this ⊢
    cases n' <;> simpa [runPhase] using this
  | dtor v =>
    by_cases h0 : (getThread c t).phase = 0
    · rw [h0]
      simp only [runPhase]
      have htg : ((getThread c t).prog[(getThread c t).pc]'X.hpc).target? = some v := by rw [hop]; rfl
      have hph : (getThread c t).phase + 1 = ((getThread c t).prog[(getThread c t).pc]'X.hpc).relPhase := by rw [h0, hop]; rfl
      cases hown : (getVar c v).own with
      | none => exact X.rel_next htg hph hown _
      | some r => obtain ⟨lk', a'⟩ := r; exact X.rel_block htg hph hown _ _
    · exact iter_dtor1 X v _ hop h0
  | massign d s =>
    by_cases h0 : (getThread c t).phase = 0
    · rw [h0]
      simp only [runPhase]
      have htg : ((getThread c t).prog[(getThread c t).pc]'X.hpc).target? = some d := by rw [hop]; rfl
      have hph : (getThread c t).phase + 1 = ((getThread c t).prog[(getThread c t).pc]'X.hpc).relPhase := by rw [h0, hop]; rfl
      cases hown : (getVar c d).own with
      | none => exact X.rel_next htg hph hown _
      | some r => obtain ⟨lk', a'⟩ := r; exact X.rel_block htg hph hown _ _
    · exact iter_move1 X d s _ true (by simpa using hop) h0
  | mctor d s =>
    by_cases h0 : (getThread c t).phase = 0
    · rw [h0]
      simp only [runPhase]
      have htg : ((getThread c t).prog[(getThread c t).pc]'X.hpc).target? = some d := by rw [hop]; rfl
      have hph : (getThread c t).phase + 1 = ((getThread c t).prog[(getThread c t).pc]'X.hpc).relPhase := by rw [h0, hop]; rfl
      cases hown : (getVar c d).own with
      | none => exact X.rel_next htg hph hown _
      | some r => obtain ⟨lk', a'⟩ := r; exact X.rel_block htg hph hown _ _
    · exact iter_move1 X d s _ false (by simpa using hop) h0
  | upg d s =>
    by_cases h0 : (getThread c t).phase = 0
    · exact iter_upg0 X d s _ hop h0
    by_cases h1 : (getThread c t).phase = 1
    · exact iter_conv1 X d s _ true (by simpa using hop) h1
    have := iter_tail X (d := d) (getThread c t).pc
      (if (getThread c t).tmp.own.isSome then "1" else "0") (if (getThread c t).tmp.own.isSome then "1" else "0")
      (by rw [hop]; rfl) (by rw [hop]; rfl) h0 h1
    obtain ⟨n, hn⟩ := Nat.exists_eq_succ_of_ne_zero h0
    obtain ⟨n', hn'⟩ := Nat.exists_eq_succ_of_ne_zero (show n ≠ 0 by omega)
    subst hn'
    rw [hn] at this ⊢
    cases n' <;> simpa [runPhase] using this
  | dng d s =>
    by_cases h0 : (getThread c t).phase = 0
    · exact iter_dng0 X d s _ hop h0
    by_cases h1 : (getThread c t).phase = 1
    · exact iter_conv1 X d s _ false (by simpa using hop) h1
    have := iter_tail X (d := d) (getThread c t).pc
      (if (getThread c t).tmp.own.isSome then "1" else "0") (if (getThread c t).tmp.own.isSome then "1" else "0")
      (by rw [hop]; rfl) (by rw [hop]; rfl) h0 h1
    obtain ⟨n, hn⟩ := Nat.exists_eq_succ_of_ne_zero h0
    obtain ⟨n', hn'⟩ := Nat.exists_eq_succ_of_ne_zero (show n ≠ 0 by omega)
    subst hn'
    rw [hn] at this ⊢
    cases n' <;> simpa [runPhase] using this
  | bool v => exact iter_bool X v _ _ hop
  | getver d lk =>
    by_cases h0 : (getThread c t).phase = 0
    · exact iter_getver0 X d lk _ hop h0
    · exact iter_getver X d lk _ hop h0
  | verify v =>
    by_cases h0 : (getThread c t).phase = 0
    · exact iter_verify0 X v _ hop h0
    · exact iter_verify X v _ hop h0
  | tryLock m d s =>
    by_cases h0 : (getThread c t).phase = 0
    · exact iter_try0 X m d s _ hop h0
    by_cases h1 : (getThread c t).phase = 1
    · exact iter_try1 X m d s _ hop h1
    have := iter_tail X (d := d) (getThread c t).pc
      ((if (getThread c t).tmp.own.isSome then "1" else "0") ++ ":" ++ hex32 (getVar c s).ver)
      ((if (getThread c t).tmp.own.isSome then "1" else "0") ++ ":" ++ hex32 (getVar c s).ver)
      (by rw [hop]; rfl) (by rw [hop]; rfl) h0 h1
    obtain ⟨n, hn⟩ := Nat.exists_eq_succ_of_ne_zero h0
    obtain ⟨n', hn'⟩ := Nat.exists_eq_succ_of_ne_zero (show n ≠ 0 by omega)
    subst hn'
    rw [hn] at this ⊢
    cases n' <;> simpa [runPhase] using this
  | prep d lk =>
    by_cases h0 : (getThread c t).phase = 0
    · exact iter_prep0 X d lk _ hop h0
    by_cases h1 : (getThread c t).phase = 1
    · exact iter_prep1 X d lk _ hop h1
    have := iter_tail X (d := d) (getThread c t).pc
      ((if (getThread c t).tmp.own.isSome then "1" else "0") ++ ":" ++ hex32 (getThread c t).tmp.ver)
      ((if (getThread c t).tmp.own.isSome then "1" else "0") ++ ":" ++ hex32 (getThread c t).tmp.ver)
      (by rw [hop]; rfl) (by rw [hop]; rfl) h0 h1
    obtain ⟨n, hn⟩ := Nat.exists_eq_succ_of_ne_zero h0
    obtain ⟨n', hn'⟩ := Nat.exists_eq_succ_of_ne_zero (show n ≠ 0 by omega)
    subst hn'
    rw [hn] at this ⊢
    cases n' <;> simpa [runPhase] using this
  | cverify v =>
    by_cases h0 : (getThread c t).phase = 0
    · exact iter_cverify0 X v _ hop h0
    · exact iter_cverify X v _ hop h0
  | setver v val => exact iter_setver X v _ _ val hop
  | xver v => exact iter_xver X v _ _ hop
  | gver v => exact iter_gver X v _ _ hop
  | payrd lk => exact iter_payrd X lk _ hop
  | paywr lk val => exact iter_paywr X lk val _ hop

end CppUtil.WClient
