/-
  Guard algebra, part 9: every iteration of `advance`, `advance` itself, every atomic step, every quantum.
-/
import CppUtil.Proofs.WClientOps5

set_option linter.unusedSimpArgs false
set_option linter.unusedVariables false

namespace CppUtil.WClient
open CppUtil CppUtil.WLock

variable {P : WParams} {vo : Nat → Nat} {ao : Nat → Nat → Nat}

theorem iter_tail0 {c : Client} {t : Nat} (X : Ctx vo ao c t) {d : Nat} (k : Nat) (res : String)
    (htg : ((getThread c t).prog[(getThread c t).pc]'X.hpc).target? = some d)
    (hph : (getThread c t).phase + 1 = ((getThread c t).prog[(getThread c t).pc]'X.hpc).relPhase) :
    IterOk vo c t (assignTail c t d 0 k res) := by
  simp only [assignTail, if_true]
  cases hown : (getVar c d).own with
  | none => exact X.rel_next htg hph hown _
  | some r => obtain ⟨lk', a'⟩ := r; exact X.rel_block htg hph hown _ _

theorem iter_tail1 {c : Client} {t : Nat} (X : Ctx vo ao c t) {d : Nat} (k : Nat) (res : String)
    (htg : ((getThread c t).prog[(getThread c t).pc]'X.hpc).target? = some d)
    (hnt : ((getThread c t).prog[(getThread c t).pc]'X.hpc).noTmp = false)
    (h0 : (getThread c t).phase ≠ 0) (h1 : (getThread c t).phase ≠ 1) (h2 : (getThread c t).phase ≠ 2) :
    IterOk vo c t (assignTail c t d 1 k res) := by
  simp only [assignTail, if_false, Nat.one_ne_zero]
  exact X.take_tmp htg hnt h0 h1 h2 _ _

/-- the shape shared by the five guard-producing instructions: phases 2 and 3 are `assignTail` -/
theorem iter_tail {c : Client} {t : Nat} (X : Ctx vo ao c t) {d : Nat} (k : Nat) (res0 res1 : String)
    (htg : ((getThread c t).prog[(getThread c t).pc]'X.hpc).target? = some d)
    (hnt : ((getThread c t).prog[(getThread c t).pc]'X.hpc).noTmp = false)
    (h0 : (getThread c t).phase ≠ 0) (h1 : (getThread c t).phase ≠ 1) :
    IterOk vo c t (if (getThread c t).phase = 2 then assignTail c t d 0 k res0 else assignTail c t d 1 k res1) := by
  split
  · rename_i h2
    refine iter_tail0 X k res0 htg ?_
    rw [h2]
    generalize (getThread c t).prog[(getThread c t).pc]'X.hpc = op at hnt htg
    cases op <;> simp [Op.noTmp] at hnt <;> simp [Op.relPhase]
  · rename_i h2
    exact iter_tail1 X k res1 htg hnt h0 h1 h2

/-- **one iteration of `advance`** preserves the invariant, whatever the instruction and the phase -/
theorem iter_inv {c : Client} {t : Nat} (X : Ctx vo ao c t) :
    IterOk vo c t (runPhase P c t (getThread c t).pc ((getThread c t).prog[(getThread c t).pc]'X.hpc) (getThread c t).phase) := by
  cases hop : (getThread c t).prog[(getThread c t).pc]'X.hpc with
  | lock m d lk =>
    by_cases h0 : (getThread c t).phase = 0
    · exact iter_lock0 X m d lk _ hop h0
    by_cases h1 : (getThread c t).phase = 1
    · exact iter_lock1 X m d lk _ hop h1
    have := iter_tail X (d := d) (getThread c t).pc "1" "1" (by rw [hop]; rfl) (by rw [hop]; rfl) h0 h1
    obtain ⟨n, hn⟩ := Nat.exists_eq_succ_of_ne_zero h0
    obtain ⟨n', hn'⟩ := Nat.exists_eq_succ_of_ne_zero (show n ≠ 0 by omega)
    subst hn'
    rw [hn] at this ⊢
    cases n' <;> simpa [runPhase] using this
  | dtor v =>
    by_cases h0 : (getThread c t).phase = 0
    · rw [h0]
      simp only [runPhase]
      have htg : ((getThread c t).prog[(getThread c t).pc]'X.hpc).target? = some v := by rw [hop]; rfl
      have hph : (getThread c t).phase + 1 = ((getThread c t).prog[(getThread c t).pc]'X.hpc).relPhase := by rw [h0, hop]; rfl
      cases hown : (getVar c v).own with
      | none => exact X.rel_next htg hph hown _
      | some r => obtain ⟨lk', a'⟩ := r; exact X.rel_block htg hph hown _ _
    · exact iter_dtor1 X v _ hop h0
  | massign d s =>
    by_cases h0 : (getThread c t).phase = 0
    · rw [h0]
      simp only [runPhase]
      have htg : ((getThread c t).prog[(getThread c t).pc]'X.hpc).target? = some d := by rw [hop]; rfl
      have hph : (getThread c t).phase + 1 = ((getThread c t).prog[(getThread c t).pc]'X.hpc).relPhase := by rw [h0, hop]; rfl
      cases hown : (getVar c d).own with
      | none => exact X.rel_next htg hph hown _
      | some r => obtain ⟨lk', a'⟩ := r; exact X.rel_block htg hph hown _ _
    · exact iter_move1 X d s _ true (by simpa using hop) h0
  | mctor d s =>
    by_cases h0 : (getThread c t).phase = 0
    · rw [h0]
      simp only [runPhase]
      have htg : ((getThread c t).prog[(getThread c t).pc]'X.hpc).target? = some d := by rw [hop]; rfl
      have hph : (getThread c t).phase + 1 = ((getThread c t).prog[(getThread c t).pc]'X.hpc).relPhase := by rw [h0, hop]; rfl
      cases hown : (getVar c d).own with
      | none => exact X.rel_next htg hph hown _
      | some r => obtain ⟨lk', a'⟩ := r; exact X.rel_block htg hph hown _ _
    · exact iter_move1 X d s _ false (by simpa using hop) h0
  | upg d s =>
    by_cases h0 : (getThread c t).phase = 0
    · exact iter_upg0 X d s _ hop h0
    by_cases h1 : (getThread c t).phase = 1
    · exact iter_conv1 X d s _ true (by simpa using hop) h1
    have := iter_tail X (d := d) (getThread c t).pc
      (if (getThread c t).tmp.own.isSome then "1" else "0") (if (getThread c t).tmp.own.isSome then "1" else "0")
      (by rw [hop]; rfl) (by rw [hop]; rfl) h0 h1
    obtain ⟨n, hn⟩ := Nat.exists_eq_succ_of_ne_zero h0
    obtain ⟨n', hn'⟩ := Nat.exists_eq_succ_of_ne_zero (show n ≠ 0 by omega)
    subst hn'
    rw [hn] at this ⊢
    cases n' <;> simpa [runPhase] using this
  | dng d s =>
    by_cases h0 : (getThread c t).phase = 0
    · exact iter_dng0 X d s _ hop h0
    by_cases h1 : (getThread c t).phase = 1
    · exact iter_conv1 X d s _ false (by simpa using hop) h1
    have := iter_tail X (d := d) (getThread c t).pc
      (if (getThread c t).tmp.own.isSome then "1" else "0") (if (getThread c t).tmp.own.isSome then "1" else "0")
      (by rw [hop]; rfl) (by rw [hop]; rfl) h0 h1
    obtain ⟨n, hn⟩ := Nat.exists_eq_succ_of_ne_zero h0
    obtain ⟨n', hn'⟩ := Nat.exists_eq_succ_of_ne_zero (show n ≠ 0 by omega)
    subst hn'
    rw [hn] at this ⊢
    cases n' <;> simpa [runPhase] using this
  | bool v => exact iter_bool X v _ _ hop
  | getver d lk =>
    by_cases h0 : (getThread c t).phase = 0
    · exact iter_getver0 X d lk _ hop h0
    · exact iter_getver X d lk _ hop h0
  | verify v =>
    by_cases h0 : (getThread c t).phase = 0
    · exact iter_verify0 X v _ hop h0
    · exact iter_verify X v _ hop h0
  | tryLock m d s =>
    by_cases h0 : (getThread c t).phase = 0
    · exact iter_try0 X m d s _ hop h0
    by_cases h1 : (getThread c t).phase = 1
    · exact iter_try1 X m d s _ hop h1
    have := iter_tail X (d := d) (getThread c t).pc
      ((if (getThread c t).tmp.own.isSome then "1" else "0") ++ ":" ++ hex32 (getVar c s).ver)
      ((if (getThread c t).tmp.own.isSome then "1" else "0") ++ ":" ++ hex32 (getVar c s).ver)
      (by rw [hop]; rfl) (by rw [hop]; rfl) h0 h1
    obtain ⟨n, hn⟩ := Nat.exists_eq_succ_of_ne_zero h0
    obtain ⟨n', hn'⟩ := Nat.exists_eq_succ_of_ne_zero (show n ≠ 0 by omega)
    subst hn'
    rw [hn] at this ⊢
    cases n' <;> simpa [runPhase] using this
  | prep d lk =>
    by_cases h0 : (getThread c t).phase = 0
    · exact iter_prep0 X d lk _ hop h0
    by_cases h1 : (getThread c t).phase = 1
    · exact iter_prep1 X d lk _ hop h1
    have := iter_tail X (d := d) (getThread c t).pc
      ((if (getThread c t).tmp.own.isSome then "1" else "0") ++ ":" ++ hex32 (getThread c t).tmp.ver)
      ((if (getThread c t).tmp.own.isSome then "1" else "0") ++ ":" ++ hex32 (getThread c t).tmp.ver)
      (by rw [hop]; rfl) (by rw [hop]; rfl) h0 h1
    obtain ⟨n, hn⟩ := Nat.exists_eq_succ_of_ne_zero h0
    obtain ⟨n', hn'⟩ := Nat.exists_eq_succ_of_ne_zero (show n ≠ 0 by omega)
    subst hn'
    rw [hn] at this ⊢
    cases n' <;> simpa [runPhase] using this
  | cverify v =>
    by_cases h0 : (getThread c t).phase = 0
    · exact iter_cverify0 X v _ hop h0
    · exact iter_cverify X v _ hop h0
  | setver v val => exact iter_setver X v _ _ val hop
  | xver v => exact iter_xver X v _ _ hop
  | gver v => exact iter_gver X v _ _ hop
  | payrd lk => exact iter_payrd X lk _ hop
  | paywr lk val => exact iter_paywr X lk val _ hop


/-! ### `advance` -/

theorem Inv.finish {c : Client} {t : Nat} (hI : Inv vo ao c) (ht : t < c.threads.size)
    (hp : (getThread c t).pend = .none) (hf : (getThread c t).finished = false)
    (hpc : ¬ (getThread c t).pc < (getThread c t).prog.size) :
    Inv vo ao (setThread c t { (getThread c t) with finished := true, pend := .none }) := by
  have htok := hI.thr t ht
  simp only [TOk, hf, hp, hpc, dite_false, reduceCtorEq, if_false, Bool.false_eq_true] at htok
  have hth : getThread (setThread c t { (getThread c t) with finished := true, pend := .none }) t =
      { (getThread c t) with finished := true, pend := .none } := getThread_setThread_self ht
  refine Inv.update_own hI (SameFor.setThread ht rfl) (fun _ => rfl) (fun _ _ => rfl) ?_ ?_ ?_ ?_ ?_ ?_
  · intro v lk _ h; exact hI.vlk v lk h
  · intro v lk a hv _ hst
    rw [StaleOk_iff] at hst; subst hv
    obtain ⟨h, _⟩ := hst; exact absurd h hpc
  · intro lk a h; rw [hth] at h; simp only [htok.1] at h; cases h
  · intro lk h; rw [hth] at h; exact hI.tmpLk t lk h
  · intro lk a _ h _
    rcases h with h | h
    · rw [htok.1] at h; cases h
    · obtain ⟨h, _⟩ := h; exact absurd h hpc
  · simp only [TOk, hth, if_true]; exact ⟨htok.1, trivial⟩

theorem advance_succ (fuel : Nat) (c : Client) (t : Nat) (out : Out) :
    advance P (fuel + 1) c t out =
      if h : (getThread c t).pc < (getThread c t).prog.size then
        match (runPhase P c t (getThread c t).pc ((getThread c t).prog[(getThread c t).pc]) (getThread c t).phase).2.2 with
        | .next => advance P fuel (afterPhase (runPhase P c t (getThread c t).pc ((getThread c t).prog[(getThread c t).pc]) (getThread c t).phase).1 t .next) t
            ((if (getThread c t).phase = 0 then out ++ [s!"B{(getThread c t).pc}"] else out) ++
              (runPhase P c t (getThread c t).pc ((getThread c t).prog[(getThread c t).pc]) (getThread c t).phase).2.1)
        | .block => (afterPhase (runPhase P c t (getThread c t).pc ((getThread c t).prog[(getThread c t).pc]) (getThread c t).phase).1 t .block,
            (if (getThread c t).phase = 0 then out ++ [s!"B{(getThread c t).pc}"] else out) ++
              (runPhase P c t (getThread c t).pc ((getThread c t).prog[(getThread c t).pc]) (getThread c t).phase).2.1)
        | .doneOp => advance P fuel (afterPhase (runPhase P c t (getThread c t).pc ((getThread c t).prog[(getThread c t).pc]) (getThread c t).phase).1 t .doneOp) t
            ((if (getThread c t).phase = 0 then out ++ [s!"B{(getThread c t).pc}"] else out) ++
              (runPhase P c t (getThread c t).pc ((getThread c t).prog[(getThread c t).pc]) (getThread c t).phase).2.1)
      else (setThread c t { (getThread c t) with finished := true, pend := .none }, out ++ ["X"]) := by
  rw [advance]
  split
  · rename_i h
    simp only [h, dite_true]
    generalize runPhase P c t (getThread c t).pc ((getThread c t).prog[(getThread c t).pc]) (getThread c t).phase = res
    obtain ⟨c1, o, r⟩ := res
    cases r <;> rfl
  · rename_i h
    simp only [h, dite_false]

/-- **`advance` preserves the invariant**: local code of any number of instructions, up to the next atomic operation -/
theorem advance_inv (fuel : Nat) : ∀ (c : Client) (out : Out) (ao : Nat → Nat → Nat) (t : Nat), WF vo c → Inv vo ao c →
    t < c.threads.size → (getThread c t).pend = .none → (getThread c t).finished = false →
    ∃ ao', Inv vo ao' (advance P fuel c t out).1 ∧ WF vo (advance P fuel c t out).1 ∧
      (advance P fuel c t out).1.threads.size = c.threads.size := by
  induction fuel with
  | zero => intro c out ao t hwf hI ht _ _; exact ⟨ao, hI, hwf, rfl⟩
  | succ fuel ih =>
    intro c out ao t hwf hI ht hp hf
    rw [advance_succ]
    split
    · rename_i hpc
      have X : Ctx vo ao c t := ⟨hwf, hI, ht, hp, hf, hpc⟩
      obtain ⟨ao', hI', hwf', hsz, hrest⟩ := iter_inv (P := P) X
      generalize runPhase P c t (getThread c t).pc ((getThread c t).prog[(getThread c t).pc]) (getThread c t).phase = res at *
      obtain ⟨c1, o, r⟩ := res
      cases r
      · simp only at hrest ⊢
        obtain ⟨ao'', h1, h2, h3⟩ := ih _ _ ao' t hwf' hI' (by rw [hsz]; exact ht) hrest.1 hrest.2
        exact ⟨ao'', h1, h2, h3.trans hsz⟩
      · exact ⟨ao', hI', hwf', hsz⟩
      · simp only at hrest ⊢
        obtain ⟨ao'', h1, h2, h3⟩ := ih _ _ ao' t hwf' hI' (by rw [hsz]; exact ht) hrest.1 hrest.2
        exact ⟨ao'', h1, h2, h3.trans hsz⟩
    · rename_i hpc
      refine ⟨ao, hI.finish ht hp hf hpc, ?_, by simp⟩
      exact hwf.same (SameFor.setThread (vo := vo) (ao := ao) ht rfl)


/-! ### atomic steps -/

/-- a blocked thread (state at a quantum boundary) -/
structure Blk (vo : Nat → Nat) (ao : Nat → Nat → Nat) (c : Client) (t : Nat) : Prop where
  wf : WF vo c
  inv : Inv vo ao c
  ht : t < c.threads.size
  fin : (getThread c t).finished = false
  nstart : (getThread c t).pend ≠ .start
  hpc : (getThread c t).pc < (getThread c t).prog.size

theorem Blk.stage {c : Client} {t : Nat} (B : Blk vo ao c t) :
    Stage (viewOf vo ao c t) ((getThread c t).prog[(getThread c t).pc]'B.hpc) (getThread c t).phase (getThread c t).pend := by
  have := B.inv.thr t B.ht
  simp only [TOk, B.fin, B.nstart, B.hpc, dite_true, if_false, Bool.false_eq_true] at this
  exact this

/-- a thread whose pending operation is not `none` has no stale variable -/
theorem Blk.var_held {c : Client} {t : Nat} (B : Blk vo ao c t) (hp : (getThread c t).pend ≠ .none) {v lk a : Nat}
    (hv : vo v = t) (h : own c v = some (lk, a)) :
    lk < c.locks.size ∧ ao lk a = t ∧ ∃ s, agentLoc c lk a = .held (kindOf c v).gmode s := by
  obtain ⟨h1, h2, h3⟩ := B.inv.varOk v lk a h
  refine ⟨h1, by rw [h2, hv], ?_⟩
  rcases h3 with h3 | ⟨_, h4⟩
  · exact h3
  · rw [StaleOk_iff] at h4; subst hv
    exact absurd h4.2.2.2.1 hp

/-- **the request of the running call makes a step** (an atomic step inside a call, the downgrade store):
    only request `(lk, a)` changes, to a non-idle location `l'`; the thread's pending operation becomes `p'`. -/
theorem Blk.agent_step {c : Client} {t : Nat} (B : Blk vo ao c t) (hp : (getThread c t).pend ≠ .none)
    (hph : (getThread c t).phase = 1) (htmpn : (getThread c t).tmp.own = none)
    {lk a : Nat} (hlk : lk < c.locks.size) (hao : ao lk a = t) (hag : (getThread c t).ag = a)
    (hoplk : opLk (viewOf vo ao c t).gv (getThread c t) ((getThread c t).prog[(getThread c t).pc]'B.hpc) = lk)
    (hureq : usesReq (getThread c t) ((getThread c t).prog[(getThread c t).pc]'B.hpc) = true)
    (hunref : ∀ v, vo v = t → own c v ≠ some (lk, a))
    (halt : a < (lockSt c lk).agents.length)
    (l' : Loc) (hl' : l' ≠ .idle) (s' : WLock.St) (hs' : s'.agents = (lockSt c lk).agents.set a l')
    (p' : Pend) (hp' : p' ≠ .start)
    (hstage : ∀ V : View, V.th = { (getThread c t) with pend := p' } → V.gv = (viewOf vo ao c t).gv → V.al lk a = l' →
      V.Unref lk a → V.nl = c.locks.size →
      Stage V ((getThread c t).prog[(getThread c t).pc]'B.hpc) 1 p') :
    Inv vo ao (setThread (setLockSt c lk s') t { (getThread c t) with pend := p' }) := by
  obtain ⟨c0, hc0⟩ : ∃ c0, c0 = setLockSt c lk s' := ⟨_, rfl⟩
  rw [← hc0]
  have ht0 : t < c0.threads.size := by rw [hc0]; exact B.ht
  have hth0 : getThread c0 t = getThread c t := by rw [hc0]; rfl
  have hal0 : ∀ lk' a', agentLoc c0 lk' a' = if lk' = lk ∧ a' = a then l' else agentLoc c lk' a' := by
    intro lk' a'
    rw [hc0]
    by_cases hl : lk = lk'
    · subst hl
      rw [agentLoc_setLockSt_self hlk, hs']
      by_cases ha : a' = a
      · subst ha; simp [List.getElem?_set_self halt]
      · simp [List.getElem?_set_ne (Ne.symm ha), ha, agentLoc_eq]
    · rw [agentLoc_setLockSt_ne hl, if_neg (fun h => hl h.1.symm)]
  have hs0 : SameFor vo ao t c c0 := by
    rw [hc0]
    refine SameFor.setLockSt hlk ?_
    intro a' hne'
    have : a' ≠ a := by rintro rfl; exact hne' hao
    rw [hs', List.getElem?_set_ne (Ne.symm this)]; rfl
  obtain ⟨th', hth'⟩ : ∃ th', th' = { (getThread c t) with pend := p' } := ⟨_, rfl⟩
  rw [← hth']
  have hs : SameFor vo ao t c (setThread c0 t th') := hs0.trans (SameFor.setThread ht0 (by rw [hth', hth0]))
  have hth : getThread (setThread c0 t th') t = th' := getThread_setThread_self ht0
  have hal : ∀ lk' a', agentLoc (setThread c0 t th') lk' a' = if lk' = lk ∧ a' = a then l' else agentLoc c lk' a' := by
    intro lk' a'; rw [agentLoc_setThread]; exact hal0 lk' a'
  have hown' : ∀ v, own (setThread c0 t th') v = own c v := fun v => by rw [hc0]; rfl
  have hgv' : ∀ v, getVar (setThread c0 t th') v = getVar c v := fun v => by rw [hc0]; rfl
  have hk : ∀ v, kindOf (setThread c0 t th') v = kindOf c v := fun v => by simp only [kindOf, hs.kinds]
  have hprogeq : (getThread (setThread c0 t th') t).prog[(getThread (setThread c0 t th') t).pc]'(by rw [hth, hth']; exact B.hpc)
      = (getThread c t).prog[(getThread c t).pc]'B.hpc := by
    simp only [hth]; subst hth'; rfl
  have hvgv : (viewOf vo ao (setThread c0 t th') t).gv = (viewOf vo ao c t).gv := by
    simp only [viewOf]; funext v; simp only [hgv']
  have huses : Uses vo ao (setThread c0 t th') t lk a := by
    refine ⟨by rw [hth, hth']; exact B.hpc, by rw [hth, hth']; exact B.fin, by rw [hth, hth']; exact hph,
      by rw [hth, hth']; exact hag, ?_, ?_, by rw [hth, hth']; exact hp', ?_⟩
    · rw [hprogeq, hth, hvgv]
      have : opLk (viewOf vo ao c t).gv th' ((getThread c t).prog[(getThread c t).pc]'B.hpc)
          = opLk (viewOf vo ao c t).gv (getThread c t) ((getThread c t).prog[(getThread c t).pc]'B.hpc) := by
        generalize (getThread c t).prog[(getThread c t).pc]'B.hpc = op
        cases op <;> simp only [opLk] <;> rw [hth']
      rw [this]; exact hoplk
    · rw [viewOf_al hao, hal, if_pos ⟨rfl, rfl⟩]; exact hl'
    · rw [hprogeq, hth]
      generalize (getThread c t).prog[(getThread c t).pc]'B.hpc = op at hureq
      cases op <;> simp only [usesReq] at hureq ⊢ <;> first | rfl | exact hureq | (rw [hth']; exact hureq)
  refine Inv.update B.inv hs ?_ ?_ ?_ ?_ ?_ ?_ ?_ ?_
  · intro v lk' a' hv h
    rw [hown'] at h
    obtain ⟨h1, h2, s1, h3⟩ := B.var_held hp hv h
    refine ⟨by rw [hs.lsz]; exact h1, h2, Or.inl ⟨s1, ?_⟩⟩
    have : ¬ (lk' = lk ∧ a' = a) := by rintro ⟨rfl, rfl⟩; exact hunref v hv h
    rw [hal, if_neg this, hk]; exact h3
  · intro v _ hkk; rw [hown']; exact B.inv.optNone v (by rw [← hk]; exact hkk)
  · intro v lk' _ h; rw [hgv'] at h; rw [hs.lsz]; exact B.inv.vlk v lk' h
  · intro v v' r hv hv' h1 h2 _
    rw [hown'] at h1 h2
    obtain ⟨lk', a'⟩ := r
    obtain ⟨_, _, s1, h3⟩ := B.var_held hp hv h1
    exact B.inv.inj v v' (lk', a') h1 h2 ⟨_, _, h3⟩
  · intro lk' a' h; rw [hth, hth'] at h; rw [htmpn] at h; cases h
  · intro lk' h; rw [hth, hth'] at h; rw [hs.lsz]; exact B.inv.tmpLk t lk' h
  · intro lk' a' hlk' hat hg
    by_cases hnew : lk' = lk ∧ a' = a
    · obtain ⟨rfl, rfl⟩ := hnew; exact Or.inr (Or.inr huses)
    · rw [hal, if_neg hnew] at hg
      rw [hs.lsz] at hlk'
      rcases B.inv.noOrphan lk' a' hlk' hg with ⟨v, h⟩ | ⟨t', h⟩ | ⟨t', h⟩
      · exact Or.inl ⟨v, by rw [hown']; exact h⟩
      · have : t' = t := by rw [← (B.inv.tmpOk t' lk' a' h).2.1]; exact hat
        subst this; rw [htmpn] at h; cases h
      · have : t' = t := by rw [← Uses_ao h]; exact hat
        subst this
        obtain ⟨_, _, h2, h3, _⟩ := h.eqs
        exact absurd ⟨h3.trans hoplk, h2.trans hag⟩ hnew
  · refine TOk_intro hth (by rw [hth']; exact B.fin) (by rw [hth']; exact hp') (by rw [hth']; exact B.hpc)
      ((getThread c t).prog[(getThread c t).pc]'B.hpc) (by subst hth'; rfl) ?_
    have e1 : th'.phase = 1 := by rw [hth']; exact hph
    have e2 : th'.pend = p' := by rw [hth']
    rw [e1, e2]
    apply hstage
    · show getThread (setThread c0 t th') t = _; rw [hth, hth']
    · exact hvgv
    · rw [viewOf_al hao, hal, if_pos ⟨rfl, rfl⟩]
    · intro v hv
      obtain ⟨hvt, hv'⟩ := viewOf_own_some hv
      rw [hown'] at hv'
      exact hunref v hvt hv'
    · exact hs.lsz


theorem stage_rel_elim {V : View} {op : Op} {ph lk a : Nat} {nv : BitVec 32} (h : Stage V op ph (.rel lk a nv)) :
    ph = op.relPhase ∧ (∃ d, op.target? = some d ∧ V.own d = some (lk, a)) ∧ lk < V.nl ∧ isHeld (V.al lk a) ∧ TmpCond V op := by
  simp only [Stage] at h
  obtain ⟨h1, h2, h3, h4, h5⟩ := h
  refine ⟨h1, h2, h3, h4, ?_⟩
  cases op <;> simpa [TmpCond] using h5

/-- **the release of the target's old grant** (`Unlock*` inside a destructor or move assignment) -/
theorem Blk.release_step {c : Client} {t : Nat} (B : Blk vo ao c t) {lk a : Nat} {nv : BitVec 32}
    (hpend : (getThread c t).pend = .rel lk a nv)
    (s' : WLock.St) (hs' : s'.agents = (lockSt c lk).agents.set a (.done 0)) :
    Inv vo ao (setThread (setLockSt c lk s') t { (getThread c t) with pend := .none }) := by
  have hp : (getThread c t).pend ≠ .none := by rw [hpend]; simp
  have hst := B.stage
  rw [hpend] at hst
  obtain ⟨hph, ⟨d, htg, hownd⟩, hlk, hheldV, htc⟩ := stage_rel_elim hst
  obtain ⟨hao, halV⟩ := viewOf_al_ne_idle (isHeld_ne_idle hheldV)
  rw [halV] at hheldV
  obtain ⟨hdt, hownd⟩ := viewOf_own_some hownd
  have hlk : lk < c.locks.size := hlk
  have halt : a < (lockSt c lk).agents.length := B.inv.ref_lt hownd
  obtain ⟨c0, hc0⟩ : ∃ c0, c0 = setLockSt c lk s' := ⟨_, rfl⟩
  rw [← hc0]
  have ht0 : t < c0.threads.size := by rw [hc0]; exact B.ht
  have hth0 : getThread c0 t = getThread c t := by rw [hc0]; rfl
  have hal0 : ∀ lk' a', agentLoc c0 lk' a' = if lk' = lk ∧ a' = a then .done 0 else agentLoc c lk' a' := by
    intro lk' a'
    rw [hc0]
    by_cases hl : lk = lk'
    · subst hl
      rw [agentLoc_setLockSt_self hlk, hs']
      by_cases ha : a' = a
      · subst ha; simp [List.getElem?_set_self halt]
      · simp [List.getElem?_set_ne (Ne.symm ha), ha, agentLoc_eq]
    · rw [agentLoc_setLockSt_ne hl, if_neg (fun h => hl h.1.symm)]
  have hs0 : SameFor vo ao t c c0 := by
    rw [hc0]
    refine SameFor.setLockSt hlk ?_
    intro a' hne'
    have : a' ≠ a := by rintro rfl; exact hne' hao
    rw [hs', List.getElem?_set_ne (Ne.symm this)]; rfl
  obtain ⟨th', hth'⟩ : ∃ th', th' = { (getThread c t) with pend := Pend.none } := ⟨_, rfl⟩
  rw [← hth']
  have hs : SameFor vo ao t c (setThread c0 t th') := hs0.trans (SameFor.setThread ht0 (by rw [hth', hth0]))
  have hth : getThread (setThread c0 t th') t = th' := getThread_setThread_self ht0
  have hal : ∀ lk' a', agentLoc (setThread c0 t th') lk' a' = if lk' = lk ∧ a' = a then .done 0 else agentLoc c lk' a' := by
    intro lk' a'; rw [agentLoc_setThread]; exact hal0 lk' a'
  have hown' : ∀ v, own (setThread c0 t th') v = own c v := fun v => by rw [hc0]; rfl
  have hgv' : ∀ v, getVar (setThread c0 t th') v = getVar c v := fun v => by rw [hc0]; rfl
  have hk : ∀ v, kindOf (setThread c0 t th') v = kindOf c v := fun v => by simp only [kindOf, hs.kinds]
  have howner : ∀ v, vo v = t → own c v = some (lk, a) → v = d := by
    intro v _ h; exact B.inv.inj v d (lk, a) h hownd hheldV
  have hstale : StaleOk vo (setThread c0 t th') d := by
    rw [StaleOk_iff, hdt, hth]
    refine ⟨by rw [hth']; exact B.hpc, ?_, ?_, by rw [hth'], by rw [hth']; exact B.fin⟩
    · have : th'.prog[th'.pc]'(by rw [hth']; exact B.hpc) = (getThread c t).prog[(getThread c t).pc]'B.hpc := by
        subst hth'; rfl
      rw [this]; exact htg
    · have : th'.prog[th'.pc]'(by rw [hth']; exact B.hpc) = (getThread c t).prog[(getThread c t).pc]'B.hpc := by
        subst hth'; rfl
      rw [this, hth']; exact hph
  have htmp_ne : ∀ lk0 a0, (getThread c t).tmp.own = some (lk0, a0) → ¬ (lk0 = lk ∧ a0 = a) := by
    rintro lk0 a0 h ⟨rfl, rfl⟩
    exact (B.inv.tmpOk t lk0 a0 h).2.2.2 d hownd
  refine Inv.update B.inv hs ?_ ?_ ?_ ?_ ?_ ?_ ?_ ?_
  · intro v lk' a' hv h
    rw [hown'] at h
    obtain ⟨h1, h2, s1, h3⟩ := B.var_held hp hv h
    refine ⟨by rw [hs.lsz]; exact h1, h2, ?_⟩
    by_cases hnew : lk' = lk ∧ a' = a
    · obtain ⟨rfl, rfl⟩ := hnew
      have := howner v hv h; subst this
      exact Or.inr ⟨⟨0, by rw [hal, if_pos ⟨rfl, rfl⟩]⟩, hstale⟩
    · exact Or.inl ⟨s1, by rw [hal, if_neg hnew, hk]; exact h3⟩
  · intro v _ hkk; rw [hown']; exact B.inv.optNone v (by rw [← hk]; exact hkk)
  · intro v lk' _ h; rw [hgv'] at h; rw [hs.lsz]; exact B.inv.vlk v lk' h
  · intro v v' r hv hv' h1 h2 hh
    rw [hown'] at h1 h2
    obtain ⟨lk', a'⟩ := r
    obtain ⟨_, _, s1, h3⟩ := B.var_held hp hv h1
    exact B.inv.inj v v' (lk', a') h1 h2 ⟨_, _, h3⟩
  · intro lk' a' h
    rw [hth, hth'] at h
    obtain ⟨h1, h2, h3, h4⟩ := B.inv.tmpOk t lk' a' h
    refine ⟨by rw [hs.lsz]; exact h1, h2, by rw [hal, if_neg (htmp_ne lk' a' h)]; exact h3, ?_⟩
    intro v _; rw [hown']; exact h4 v
  · intro lk' h; rw [hth, hth'] at h; rw [hs.lsz]; exact B.inv.tmpLk t lk' h
  · intro lk' a' hlk' hat hg
    by_cases hnew : lk' = lk ∧ a' = a
    · rw [hal, if_pos hnew] at hg; exact absurd rfl hg
    · rw [hal, if_neg hnew] at hg
      rw [hs.lsz] at hlk'
      rcases B.inv.noOrphan lk' a' hlk' hg with ⟨v, h⟩ | ⟨t', h⟩ | ⟨t', h⟩
      · exact Or.inl ⟨v, by rw [hown']; exact h⟩
      · have : t' = t := by rw [← (B.inv.tmpOk t' lk' a' h).2.1]; exact hat
        subst this
        exact Or.inr (Or.inl (by rw [hth, hth']; exact h))
      · have htt : t' = t := by rw [← Uses_ao h]; exact hat
        rw [htt] at h
        exfalso
        obtain ⟨_, h1, _, _, h5⟩ := h.eqs
        rw [h1] at hph
        generalize (getThread c t).prog[(getThread c t).pc]'B.hpc = op at hph h5 htg
        cases op <;> simp [Op.relPhase] at hph <;> simp [usesReq] at h5
  · refine TOk_intro hth (by rw [hth']; exact B.fin) (by rw [hth']; simp) (by rw [hth']; exact B.hpc)
      ((getThread c t).prog[(getThread c t).pc]'B.hpc) (by subst hth'; rfl) ?_
    have e1 : th'.phase = ((getThread c t).prog[(getThread c t).pc]'B.hpc).relPhase := by rw [hth']; exact hph
    have e2 : th'.pend = .none := by rw [hth']
    rw [e1, e2]
    have hvth : (viewOf vo ao (setThread c0 t th') t).th = th' := hth
    refine stage_post_rel htg ?_ ?_
    · generalize (getThread c t).prog[(getThread c t).pc]'B.hpc = op at htc
      have htmpeq : th'.tmp = (getThread c t).tmp := by rw [hth']
      have hTok : ∀ m, (viewOf vo ao c t).TmpOk m → (viewOf vo ao (setThread c0 t th') t).TmpOk m := by
        intro m h
        rcases h with h | ⟨lk0, a0, s0, h1, h2⟩
        · left; rw [hvth, htmpeq]; exact h
        · right
          have h1' : (getThread c t).tmp.own = some (lk0, a0) := h1
          have hao0 := (B.inv.tmpOk t lk0 a0 h1').2.1
          refine ⟨lk0, a0, s0, by rw [hvth, htmpeq]; exact h1, ?_⟩
          rw [viewOf_al hao0] at h2 ⊢
          rw [hal, if_neg (htmp_ne lk0 a0 h1')]; exact h2
      cases op <;> simp only [TmpCond] at htc ⊢ <;> first
        | exact hTok _ htc
        | (rw [hvth, htmpeq]; exact htc)
    · right
      refine ⟨lk, a, 0, by rw [viewOf_own hdt, hown']; exact hownd, ?_⟩
      rw [viewOf_al hao, hal, if_pos ⟨rfl, rfl⟩]


/-! ### a whole quantum -/

/-- the pending operation was a scheduling point without effect on guards or requests (start of the thread,
    payload accesses): the thread continues with its local code -/
theorem mid_light {c c1 : Client} {t : Nat} (hI : Inv vo ao c) (ht : t < c.threads.size)
    (hfin : (getThread c t).finished = false) (htmpn : (getThread c t).tmp.own = none)
    (hnst : ∀ v, vo v = t → ¬ StaleOk vo c v) (hnu : ∀ lk a, ¬ Uses vo ao c t lk a)
    (hs1 : SameFor vo ao t c c1) (hgv1 : ∀ v, getVar c1 v = getVar c v) (hal1 : ∀ lk a, agentLoc c1 lk a = agentLoc c lk a)
    {th' : Thread} (h1 : th'.prog = (getThread c t).prog) (h2 : th'.tmp = (getThread c t).tmp) (h3 : th'.pend = .none)
    (h4 : th'.finished = false) (h5 : th'.pc = (getThread c t).pc) (h6 : th'.phase = (getThread c t).phase)
    (hstage : ∀ hpc : (getThread c t).pc < (getThread c t).prog.size, ∀ V : View, V.th = th' →
      Stage V ((getThread c t).prog[(getThread c t).pc]'hpc) (getThread c t).phase .none) :
    Inv vo ao (setThread c1 t th') := by
  have ht1 : t < c1.threads.size := by rw [hs1.tsz]; exact ht
  have hth : getThread (setThread c1 t th') t = th' := getThread_setThread_self ht1
  refine Inv.update_own hI (hs1.trans (SameFor.setThread ht1 (by rw [h1, hs1.prog]))) (fun v => by simp only [own, getVar_setThread, hgv1])
    (fun lk a => by rw [agentLoc_setThread, hal1]) ?_ ?_ ?_ ?_ ?_ ?_
  · intro v lk _ h; rw [getVar_setThread, hgv1] at h
    show lk < (setThread c1 t th').locks.size
    rw [setThread_locks, hs1.lsz]; exact hI.vlk v lk h
  · intro v lk a hv _ hst; exact absurd hst (hnst v hv)
  · intro lk a h; rw [hth, h2, htmpn] at h; cases h
  · intro lk h; rw [hth, h2] at h
    show lk < (setThread c1 t th').locks.size
    rw [setThread_locks, hs1.lsz]; exact hI.tmpLk t lk h
  · intro lk a _ h _
    rcases h with h | h
    · rw [htmpn] at h; cases h
    · exact absurd h (hnu lk a)
  · simp only [TOk, hth, h4, h3, reduceCtorEq, if_false, Bool.false_eq_true]
    split
    · rename_i hpc
      have hpc' : (getThread c t).pc < (getThread c t).prog.size := by rw [← h5, ← h1]; exact hpc
      have := hstage hpc' (viewOf vo ao (setThread c1 t th') t) hth
      have he : th'.prog[th'.pc]'hpc = (getThread c t).prog[(getThread c t).pc]'hpc' := by
        simp only [h1, h5]
      rw [he, h6]; exact this
    · exact ⟨by rw [h2]; exact htmpn, trivial⟩

theorem thread_eta_pend {th : Thread} {p : Pend} (h : th.pend = p) : { th with pend := p } = th := by
  cases th; simp only at h; subst h; rfl

/-- **every quantum of every thread preserves the invariant** -/
theorem step_inv {c c' : Client} {t : Nat} {e : String} {o : Out} (hwf : WF vo c) (hI : Inv vo ao c)
    (ht : t < c.threads.size) (h : stepThread P c t = some (c', e, o)) :
    ∃ ao', Inv vo ao' c' ∧ WF vo c' ∧ c'.threads.size = c.threads.size := by
  simp only [stepThread] at h
  split at h
  · cases h
  rename_i hfin
  have hfin : (getThread c t).finished = false := by simpa using hfin
  split at h
  · cases h
  · -- start
    rename_i hpend
    have htok := hI.thr t ht
    simp only [TOk, hfin, hpend, if_true, Bool.false_eq_true, if_false] at htok
    simp only [Option.some.injEq, Prod.mk.injEq] at h
    have hmid : Inv vo ao (setThread c t { (getThread c t) with pend := .none }) := by
      refine mid_light hI ht hfin htok.1 ?_ ?_ (SameFor.refl c t) (fun _ => rfl) (fun _ _ => rfl) rfl rfl rfl hfin rfl rfl ?_
      · intro v hv hst; rw [StaleOk_iff] at hst; subst hv
        obtain ⟨_, _, _, h4, _⟩ := hst; rw [hpend] at h4; cases h4
      · intro lk a hu; obtain ⟨_, _, _, _, _, _, h7, _⟩ := hu; exact h7 hpend
      · intro hpc V hV; rw [htok.2]; simp only [Stage, if_true, hV]; exact htok.1
    obtain ⟨ao', h1, h2, h3⟩ := advance_inv (P := P) (vo := vo) (8 * ((getThread c t).prog.size + 2))
      (setThread c t { (getThread c t) with pend := .none }) [] ao t
      (hwf.same (SameFor.setThread (vo := vo) (ao := ao) (th := { (getThread c t) with pend := .none }) ht rfl)) hmid
      (by simpa using ht) (by rw [getThread_setThread_self ht]) (by rw [getThread_setThread_self ht]; exact hfin)
    rw [← h.1]
    exact ⟨ao', h1, h2, by rw [h3]; simp⟩
  · -- atomic step inside a call
    rename_i lk a hpend
    have B : Blk vo ao c t := ⟨hwf, hI, ht, hfin, by rw [hpend]; simp, by
      have htok := hI.thr t ht
      simp only [TOk, hfin, hpend, reduceCtorEq, if_false, Bool.false_eq_true] at htok
      split at htok
      · assumption
      · obtain ⟨_, h2⟩ := htok; cases h2⟩
    have hst := B.stage
    rw [hpend] at hst
    simp only [Stage] at hst
    obtain ⟨hph, htmpn, hlkeq, haeq, ⟨k, hcall, hca⟩, hupg⟩ := hst
    have hvth : (viewOf vo ao c t).th = getThread c t := rfl
    rw [hvth] at hlkeq haeq htmpn
    obtain ⟨h1, h2, h3, h4⟩ := CallAg.facts hca (by intro l hl hh; rw [hh] at hl; cases hl)
    rw [← hlkeq] at h1 h2 h3 h4
    rw [← haeq] at h2 h3 h4
    have hne : agentLoc c lk a ≠ .idle := by intro hh; rw [hh] at h3; cases h3
    have hsome := agentLoc_some hne
    have halt := agentLoc_ne_idle_lt hne
    have hureq : usesReq (getThread c t) ((getThread c t).prog[(getThread c t).pc]'B.hpc) = true := by
      generalize (getThread c t).prog[(getThread c t).pc]'B.hpc = op at hcall hupg
      cases op <;> simp only [Op.call?, reduceCtorEq] at hcall <;> simp only [usesReq]
      exact hupg
    simp only [WLock.step, hsome] at h
    cases hat : atomStep P (lockSt c lk) a (agentLoc c lk a) none false with
    | none => rw [hat] at h; simp at h
    | some r =>
      obtain ⟨s', ev⟩ := r
      rw [hat] at h
      simp only [Option.map_some] at h
      obtain ⟨l', hl'some, hl'⟩ := atomStep_call hsome h3 hat
      have hs' : s'.agents = (lockSt c lk).agents.set a l' := by
        apply List.ext_getElem?
        intro i
        by_cases hi : a = i
        · subst hi; rw [List.getElem?_set_self halt]; exact hl'some
        · rw [List.getElem?_set_ne hi]; exact atom_other hat hi
      have hl'ne : l' ≠ .idle := by
        rcases hl' with hl' | hl'
        · intro hh; rw [hh] at hl'; cases hl'
        · exact result_ne_idle k l' hl'
      have hloc' : agentLoc (setLockSt c lk s') lk a = l' := by
        rw [agentLoc_setLockSt_self h1, hl'some]; rfl
      rw [hloc'] at h
      have hstep := fun p' hp' hstage => B.agent_step (by rw [hpend]; simp) hph htmpn h1 h2 haeq.symm hlkeq.symm hureq h4 halt
        l' hl'ne s' hs' p' hp' hstage
      split at h
      · -- the call has finished
        rename_i hstable
        have hres : k.result l' := by
          rcases hl' with hl' | hl'
          · exfalso; cases l' <;> simp [Loc.call] at hl' <;> simp [Loc.stable] at hstable
          · exact hl'
        have hmid := hstep .none (by simp) (by
          intro V hV hgv hal hunr hnl
          generalize (getThread c t).prog[(getThread c t).pc]'B.hpc = op at hcall hupg hlkeq
          have hVtmp : V.th.tmp.own = none := by rw [hV]; exact htmpn
          have hca' : ∀ Q : Loc → Prop, Q l' → V.CallAg op Q := by
            intro Q hQ
            have : opLk V.gv V.th op = lk := by
              rw [hgv, hlkeq]
              cases op <;> simp only [opLk] <;> rw [hV]
            refine ⟨by rw [this, hnl]; exact h1, by rw [this, hV]; simp only; rw [← haeq, hal]; exact hQ,
              by rw [this, hV]; simp only; rw [← haeq]; exact hunr⟩
          cases op <;> simp only [Op.call?, reduceCtorEq, Option.some.injEq] at hcall <;> subst hcall <;>
            simp only [Stage, if_false, Nat.one_ne_zero, if_true, true_and, forall_const]
          · exact ⟨hVtmp, _, rfl, hca' _ hres⟩
          · refine ⟨hVtmp, Or.inr ⟨by rw [hV]; exact hupg, hca' _ ?_⟩⟩
            simpa [CallK.result, Op.outMode] using hres
          · exact ⟨hVtmp, _, rfl, hca' _ hres⟩
          · exact ⟨hVtmp, _, rfl, hca' _ hres⟩
          · exact ⟨hVtmp, _, rfl, hca' _ hres⟩
          · exact ⟨hVtmp, _, rfl, hca' _ hres⟩
          · exact ⟨hVtmp, _, rfl, hca' _ hres⟩)
        simp only [Option.some.injEq, Prod.mk.injEq] at h
        have ht' : t < (setLockSt c lk s').threads.size := ht
        obtain ⟨ao', g1, g2, g3⟩ := advance_inv (P := P) (vo := vo) (8 * ((getThread c t).prog.size + 2))
          (setThread (setLockSt c lk s') t { (getThread c t) with pend := .none }) [] ao t
          (hwf.same (((SameFor.setLockSt (vo := vo) (ao := ao) h1 (by
              intro a' hne'
              have : a' ≠ a := by rintro rfl; exact hne' h2
              rw [hs', List.getElem?_set_ne (Ne.symm this)]; rfl)).trans
                (SameFor.setThread (th := { (getThread c t) with pend := .none }) ht' rfl))))
          hmid (by simpa using ht) (by rw [getThread_setThread_self ht']) (by rw [getThread_setThread_self ht']; exact hfin)
        rw [← h.1]
        exact ⟨ao', g1, g2, by rw [g3]; simp⟩
      · -- still inside the call
        rename_i hstable
        have hcall' : l'.call = some k := by
          rcases hl' with hl' | hl'
          · exact hl'
          · exfalso; apply hstable
            cases k <;> simp only [CallK.result] at hl'
            all_goals first
              | (rcases hl' with ⟨s, rfl⟩ | ⟨r, rfl⟩ <;> rfl)
              | (obtain ⟨s, rfl⟩ := hl'; rfl)
        have hsame := hstep (.atom lk a) (by simp) (by
          intro V hV hgv hal hunr hnl
          have hth : V.th = getThread c t := by rw [hV]; exact thread_eta_pend hpend
          generalize (getThread c t).prog[(getThread c t).pc]'B.hpc = op at hcall hupg hlkeq
          simp only [Stage, true_and, hth]
          have : opLk V.gv (getThread c t) op = lk := by rw [hgv, hlkeq]
          refine ⟨htmpn, this.symm, haeq, ⟨k, hcall, ?_⟩, hupg⟩
          exact ⟨by rw [hth, this, hnl]; exact h1, by rw [hth, this, ← haeq, hal]; exact hcall',
            by rw [hth, this, ← haeq]; exact hunr⟩)
        rw [thread_eta_pend hpend] at hsame
        have hth0 : getThread (setLockSt c lk s') t = getThread c t := rfl
        rw [← hth0, setThread_getThread] at hsame
        simp only [Option.some.injEq, Prod.mk.injEq] at h
        rw [← h.1]
        refine ⟨ao, hsame, ?_, rfl⟩
        exact hwf.same (SameFor.setLockSt (vo := vo) (ao := ao) h1 (by
              intro a' hne'
              have : a' ≠ a := by rintro rfl; exact hne' h2
              rw [hs', List.getElem?_set_ne (Ne.symm this)]; rfl))
  · -- release of the target's old grant
    rename_i lk a nv hpend
    have B : Blk vo ao c t := ⟨hwf, hI, ht, hfin, by rw [hpend]; simp, by
      have htok := hI.thr t ht
      simp only [TOk, hfin, hpend, reduceCtorEq, if_false, Bool.false_eq_true] at htok
      split at htok
      · assumption
      · obtain ⟨_, h2⟩ := htok; cases h2⟩
    have hst := B.stage
    rw [hpend] at hst
    obtain ⟨_, ⟨d, _, hownd⟩, hlkV, hheldV, _⟩ := stage_rel_elim hst
    obtain ⟨hao, halV⟩ := viewOf_al_ne_idle (isHeld_ne_idle hheldV)
    have hlk : lk < c.locks.size := hlkV
    simp only [WLock.step] at h
    cases hag : (lockSt c lk).agents[a]? with
    | none => simp [hag] at h
    | some loc =>
      simp only [hag] at h
      cases hrs : releaseStep P (lockSt c lk) a loc nv with
      | none => rw [hrs] at h; simp at h
      | some r =>
        obtain ⟨s', ev⟩ := r
        rw [hrs] at h
        simp only [Option.map_some, Option.some.injEq, Prod.mk.injEq] at h
        have hs' : s'.agents = (lockSt c lk).agents.set a (.done 0) := by
          rw [release_agents hrs]; rfl
        have hmid := B.release_step hpend s' hs'
        have ht' : t < (setLockSt c lk s').threads.size := ht
        obtain ⟨ao', g1, g2, g3⟩ := advance_inv (P := P) (vo := vo) (8 * ((getThread c t).prog.size + 2))
          (setThread (setLockSt c lk s') t { (getThread c t) with pend := .none }) [] ao t
          (hwf.same (((SameFor.setLockSt (vo := vo) (ao := ao) hlk (by
              intro a' hne'
              have : a' ≠ a := by rintro rfl; exact hne' hao
              rw [hs', List.getElem?_set_ne (Ne.symm this)]; rfl)).trans
                (SameFor.setThread (th := { (getThread c t) with pend := .none }) ht' rfl))))
          hmid (by simpa using ht) (by rw [getThread_setThread_self ht']) (by rw [getThread_setThread_self ht']; exact hfin)
        rw [← h.1]
        exact ⟨ao', g1, g2, by rw [g3]; simp⟩
  · -- the downgrade store
    rename_i lk a nv hpend
    have B : Blk vo ao c t := ⟨hwf, hI, ht, hfin, by rw [hpend]; simp, by
      have htok := hI.thr t ht
      simp only [TOk, hfin, hpend, reduceCtorEq, if_false, Bool.false_eq_true] at htok
      split at htok
      · assumption
      · obtain ⟨_, h2⟩ := htok; cases h2⟩
    have hst := B.stage
    rw [hpend] at hst
    simp only [Stage] at hst
    obtain ⟨hph, htmpn, hlkeq, haeq, hlksome, ⟨d, s, hopd⟩, hca⟩ := hst
    have hvth : (viewOf vo ao c t).th = getThread c t := rfl
    rw [hvth] at hlkeq haeq htmpn hlksome
    obtain ⟨h1, h2, ⟨s0, h3⟩, h4⟩ := CallAg.facts hca (by rintro l ⟨s, rfl⟩; simp)
    rw [← hlkeq] at h1 h2 h3 h4
    rw [← haeq] at h2 h3 h4
    have hne : agentLoc c lk a ≠ .idle := by rw [h3]; simp
    have hsome := agentLoc_some hne
    have halt := agentLoc_ne_idle_lt hne
    rw [h3] at hsome
    simp only [WLock.step, hsome, downgradeStep, Option.map_some, Option.some.injEq, Prod.mk.injEq] at h
    have hureq : usesReq (getThread c t) ((getThread c t).prog[(getThread c t).pc]'B.hpc) = true := by
      rw [hopd]; exact hlksome
    have hmid := B.agent_step (by rw [hpend]; simp) hph htmpn h1 h2 haeq.symm hlkeq.symm hureq h4 halt
      (.held .SIX s0) (by simp) { setLoc (lockSt c lk) a (.held .SIX s0) with w := P.dngVal nv } rfl .none (by simp) (by
        intro V hV hgv hal hunr hnl
        rw [hopd]
        have hVtmp : V.th.tmp = (getThread c t).tmp := by rw [hV]
        have hVag : V.th.ag = a := by rw [hV]; exact haeq.symm
        have hlk' : opLk V.gv V.th (.dng d s) = lk := by
          rw [hlkeq, hopd]; simp only [opLk, hVtmp]
        simp only [Stage, if_false, Nat.one_ne_zero, if_true, hVtmp, htmpn, true_and]
        right
        refine ⟨hlksome, by rw [hlk', hnl]; exact h1, ?_, ?_⟩
        · rw [hlk', hVag, hal]; exact ⟨s0, rfl⟩
        · rw [hlk', hVag]; exact hunr)
    have ht' : t < (setLockSt c lk { setLoc (lockSt c lk) a (.held .SIX s0) with w := P.dngVal nv }).threads.size := ht
    obtain ⟨ao', g1, g2, g3⟩ := advance_inv (P := P) (vo := vo) (8 * ((getThread c t).prog.size + 2))
      (setThread (setLockSt c lk { setLoc (lockSt c lk) a (.held .SIX s0) with w := P.dngVal nv }) t
        { (getThread c t) with pend := .none }) [] ao t
      (hwf.same (((SameFor.setLockSt (vo := vo) (ao := ao) h1 (by
          intro a' hne'
          have : a' ≠ a := by rintro rfl; exact hne' h2
          show ((lockSt c lk).agents.set a (.held .SIX s0))[a']?.getD .idle = _
          rw [List.getElem?_set_ne (Ne.symm this)]; rfl)).trans
            (SameFor.setThread (th := { (getThread c t) with pend := .none }) ht' rfl))))
      hmid (by simpa using ht) (by rw [getThread_setThread_self ht']) (by rw [getThread_setThread_self ht']; exact hfin)
    rw [← h.1]
    exact ⟨ao', g1, g2, by rw [g3]; simp⟩
  · -- payload access
    rename_i lkp hpend
    have hpcB : (getThread c t).pc < (getThread c t).prog.size := by
      have htok := hI.thr t ht
      simp only [TOk, hfin, hpend, reduceCtorEq, if_false, Bool.false_eq_true] at htok
      split at htok
      · assumption
      · obtain ⟨_, h2⟩ := htok; cases h2
    have B : Blk vo ao c t := ⟨hwf, hI, ht, hfin, by rw [hpend]; simp, hpcB⟩
    have hst := B.stage
    rw [hpend] at hst
    simp only [Stage] at hst
    obtain ⟨htmpn, hph, HOP⟩ := hst
    have hvth : (viewOf vo ao c t).th = getThread c t := rfl
    rw [hvth] at htmpn
    simp only [Option.some.injEq, Prod.mk.injEq] at h
    have hmid : Inv vo ao (setThread c t { (getThread c t) with pend := .none, payTmp := (c.pay.getD lkp (0, 0)).1 }) := by
      refine mid_light hI ht hfin htmpn ?_ ?_ (SameFor.refl (vo := vo) (ao := ao) c t) (fun _ => rfl) (fun _ _ => rfl) rfl rfl rfl hfin rfl rfl ?_
      · intro v hv hst; rw [StaleOk_iff] at hst; subst hv
        obtain ⟨_, h3, _⟩ := hst
        obtain ⟨lk0, hop⟩ := HOP
        rw [hop] at h3; simp [Op.target?] at h3
      · intro lk' a' hu
        obtain ⟨_, _, _, _, h5⟩ := hu.eqs
        obtain ⟨lk0, hop⟩ := HOP
        rw [hop] at h5; simp [usesReq] at h5
      · intro hpc V hV
        obtain ⟨lk0, hop⟩ := HOP
        rw [hop, hph]
        simp only [Stage, hV]; simpa using htmpn
    obtain ⟨ao', g1, g2, g3⟩ := advance_inv (P := P) (vo := vo) (8 * ((getThread c t).prog.size + 2))
      (setThread c t { (getThread c t) with pend := .none, payTmp := (c.pay.getD lkp (0, 0)).1 }) [] ao t
      (hwf.same ((SameFor.refl (vo := vo) (ao := ao) c t).trans (SameFor.setThread (vo := vo) (ao := ao) (th := { (getThread c t) with pend := .none, payTmp := (c.pay.getD lkp (0, 0)).1 }) ht rfl))) hmid
      (by simpa using ht) (by rw [getThread_setThread_self (c := c) ht]) (by rw [getThread_setThread_self (c := c) ht]; exact hfin)
    rw [← h.1]
    exact ⟨ao', g1, g2, by rw [g3]; simp⟩
  · -- payload access
    rename_i lkp hpend
    have hpcB : (getThread c t).pc < (getThread c t).prog.size := by
      have htok := hI.thr t ht
      simp only [TOk, hfin, hpend, reduceCtorEq, if_false, Bool.false_eq_true] at htok
      split at htok
      · assumption
      · obtain ⟨_, h2⟩ := htok; cases h2
    have B : Blk vo ao c t := ⟨hwf, hI, ht, hfin, by rw [hpend]; simp, hpcB⟩
    have hst := B.stage
    rw [hpend] at hst
    simp only [Stage] at hst
    obtain ⟨htmpn, hph, HOP⟩ := hst
    have hvth : (viewOf vo ao c t).th = getThread c t := rfl
    rw [hvth] at htmpn
    simp only [Option.some.injEq, Prod.mk.injEq] at h
    have hmid : Inv vo ao (setThread c t { (getThread c t) with pend := .none }) := by
      refine mid_light hI ht hfin htmpn ?_ ?_ (SameFor.refl (vo := vo) (ao := ao) c t) (fun _ => rfl) (fun _ _ => rfl) rfl rfl rfl hfin rfl rfl ?_
      · intro v hv hst; rw [StaleOk_iff] at hst; subst hv
        obtain ⟨_, h3, _⟩ := hst
        obtain ⟨lk0, hop⟩ := HOP
        rw [hop] at h3; simp [Op.target?] at h3
      · intro lk' a' hu
        obtain ⟨_, _, _, _, h5⟩ := hu.eqs
        obtain ⟨lk0, hop⟩ := HOP
        rw [hop] at h5; simp [usesReq] at h5
      · intro hpc V hV
        obtain ⟨lk0, hop⟩ := HOP
        rw [hop, hph]
        simp only [Stage, hV]; simpa using htmpn
    obtain ⟨ao', g1, g2, g3⟩ := advance_inv (P := P) (vo := vo) (8 * ((getThread c t).prog.size + 2))
      (setThread c t { (getThread c t) with pend := .none }) [] ao t
      (hwf.same ((SameFor.refl (vo := vo) (ao := ao) c t).trans (SameFor.setThread (vo := vo) (ao := ao) (th := { (getThread c t) with pend := .none }) ht rfl))) hmid
      (by simpa using ht) (by rw [getThread_setThread_self (c := c) ht]) (by rw [getThread_setThread_self (c := c) ht]; exact hfin)
    rw [← h.1]
    exact ⟨ao', g1, g2, by rw [g3]; simp⟩
  · -- payload access
    rename_i lkp valp hpend
    have hpcB : (getThread c t).pc < (getThread c t).prog.size := by
      have htok := hI.thr t ht
      simp only [TOk, hfin, hpend, reduceCtorEq, if_false, Bool.false_eq_true] at htok
      split at htok
      · assumption
      · obtain ⟨_, h2⟩ := htok; cases h2
    have B : Blk vo ao c t := ⟨hwf, hI, ht, hfin, by rw [hpend]; simp, hpcB⟩
    have hst := B.stage
    rw [hpend] at hst
    simp only [Stage] at hst
    obtain ⟨htmpn, hph, HOP⟩ := hst
    have hvth : (viewOf vo ao c t).th = getThread c t := rfl
    rw [hvth] at htmpn
    simp only [Option.some.injEq, Prod.mk.injEq] at h
    have hmid : Inv vo ao (setThread { c with pay := c.pay.setIfInBounds lkp (valp, (c.pay.getD lkp (0, 0)).2) } t { (getThread c t) with pend := .none }) := by
      refine mid_light hI ht hfin htmpn ?_ ?_ (SameFor.pay (vo := vo) (ao := ao) (t := t) (c := c) (p := c.pay.setIfInBounds lkp (valp, (c.pay.getD lkp (0, 0)).2))) (fun _ => rfl) (fun _ _ => rfl) rfl rfl rfl hfin rfl rfl ?_
      · intro v hv hst; rw [StaleOk_iff] at hst; subst hv
        obtain ⟨_, h3, _⟩ := hst
        obtain ⟨lk0, v0, hop⟩ := HOP
        rw [hop] at h3; simp [Op.target?] at h3
      · intro lk' a' hu
        obtain ⟨_, _, _, _, h5⟩ := hu.eqs
        obtain ⟨lk0, v0, hop⟩ := HOP
        rw [hop] at h5; simp [usesReq] at h5
      · intro hpc V hV
        obtain ⟨lk0, v0, hop⟩ := HOP
        rw [hop, hph]
        simp only [Stage, hV]; simpa using htmpn
    obtain ⟨ao', g1, g2, g3⟩ := advance_inv (P := P) (vo := vo) (8 * ((getThread c t).prog.size + 2))
      (setThread { c with pay := c.pay.setIfInBounds lkp (valp, (c.pay.getD lkp (0, 0)).2) } t { (getThread c t) with pend := .none }) [] ao t
      (hwf.same ((SameFor.pay (vo := vo) (ao := ao) (t := t) (c := c) (p := c.pay.setIfInBounds lkp (valp, (c.pay.getD lkp (0, 0)).2))).trans (SameFor.setThread (vo := vo) (ao := ao) (th := { (getThread c t) with pend := .none }) ht rfl))) hmid
      (by simpa using ht) (by rw [getThread_setThread_self (c := { c with pay := c.pay.setIfInBounds lkp (valp, (c.pay.getD lkp (0, 0)).2) }) ht]) (by rw [getThread_setThread_self (c := { c with pay := c.pay.setIfInBounds lkp (valp, (c.pay.getD lkp (0, 0)).2) }) ht]; exact hfin)
    rw [← h.1]
    exact ⟨ao', g1, g2, by rw [g3]; simp⟩
  · -- payload access
    rename_i lkp valp hpend
    have hpcB : (getThread c t).pc < (getThread c t).prog.size := by
      have htok := hI.thr t ht
      simp only [TOk, hfin, hpend, reduceCtorEq, if_false, Bool.false_eq_true] at htok
      split at htok
      · assumption
      · obtain ⟨_, h2⟩ := htok; cases h2
    have B : Blk vo ao c t := ⟨hwf, hI, ht, hfin, by rw [hpend]; simp, hpcB⟩
    have hst := B.stage
    rw [hpend] at hst
    simp only [Stage] at hst
    obtain ⟨htmpn, hph, HOP⟩ := hst
    have hvth : (viewOf vo ao c t).th = getThread c t := rfl
    rw [hvth] at htmpn
    simp only [Option.some.injEq, Prod.mk.injEq] at h
    have hmid : Inv vo ao (setThread { c with pay := c.pay.setIfInBounds lkp ((c.pay.getD lkp (0, 0)).1, valp) } t { (getThread c t) with pend := .none }) := by
      refine mid_light hI ht hfin htmpn ?_ ?_ (SameFor.pay (vo := vo) (ao := ao) (t := t) (c := c) (p := c.pay.setIfInBounds lkp ((c.pay.getD lkp (0, 0)).1, valp))) (fun _ => rfl) (fun _ _ => rfl) rfl rfl rfl hfin rfl rfl ?_
      · intro v hv hst; rw [StaleOk_iff] at hst; subst hv
        obtain ⟨_, h3, _⟩ := hst
        obtain ⟨lk0, v0, hop⟩ := HOP
        rw [hop] at h3; simp [Op.target?] at h3
      · intro lk' a' hu
        obtain ⟨_, _, _, _, h5⟩ := hu.eqs
        obtain ⟨lk0, v0, hop⟩ := HOP
        rw [hop] at h5; simp [usesReq] at h5
      · intro hpc V hV
        obtain ⟨lk0, v0, hop⟩ := HOP
        rw [hop, hph]
        simp only [Stage, hV]; simpa using htmpn
    obtain ⟨ao', g1, g2, g3⟩ := advance_inv (P := P) (vo := vo) (8 * ((getThread c t).prog.size + 2))
      (setThread { c with pay := c.pay.setIfInBounds lkp ((c.pay.getD lkp (0, 0)).1, valp) } t { (getThread c t) with pend := .none }) [] ao t
      (hwf.same ((SameFor.pay (vo := vo) (ao := ao) (t := t) (c := c) (p := c.pay.setIfInBounds lkp ((c.pay.getD lkp (0, 0)).1, valp))).trans (SameFor.setThread (vo := vo) (ao := ao) (th := { (getThread c t) with pend := .none }) ht rfl))) hmid
      (by simpa using ht) (by rw [getThread_setThread_self (c := { c with pay := c.pay.setIfInBounds lkp ((c.pay.getD lkp (0, 0)).1, valp) }) ht]) (by rw [getThread_setThread_self (c := { c with pay := c.pay.setIfInBounds lkp ((c.pay.getD lkp (0, 0)).1, valp) }) ht]; exact hfin)
    rw [← h.1]
    exact ⟨ao', g1, g2, by rw [g3]; simp⟩

end CppUtil.WClient
