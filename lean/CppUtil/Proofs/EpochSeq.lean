/-
  Sequential facts about the EpochManager building blocks (`Model/Epoch.lean`): the published vector
  is exactly the distinct protected epochs in descending order, its last element is the minimum, the
  vector of the new epoch can be read back, and the pruning walk (`RemoveOutDatedLists`) terminates,
  keeps every node whose range holds a protected epoch, frees only nodes whose range holds none, and
  leaves at most one node per occupied range plus the oldest node.
-/
import CppUtil.Model.Epoch

namespace CppUtil.Epoch
open CppUtil

/-- strictly descending -/
abbrev Desc (l : List Nat) : Prop := l.Pairwise (· > ·)

theorem mem_insertDesc (x y : Nat) (l : List Nat) : y ∈ insertDesc x l ↔ y = x ∨ y ∈ l := by
  induction l with
  | nil => simp [insertDesc]
  | cons z zs ih =>
    simp only [insertDesc]
    split
    · simp
    · split
      · rename_i h1 h2; subst h2; simp
      · simp only [List.mem_cons, ih]
        constructor
        · rintro (h | h | h)
          · exact Or.inr (Or.inl h)
          · exact Or.inl h
          · exact Or.inr (Or.inr h)
        · rintro (h | h | h)
          · exact Or.inr (Or.inl h)
          · exact Or.inl h
          · exact Or.inr (Or.inr h)

theorem desc_insertDesc (x : Nat) (l : List Nat) (h : Desc l) : Desc (insertDesc x l) := by
  induction l with
  | nil => simp [insertDesc, Desc]
  | cons z zs ih =>
    simp only [insertDesc]
    have hz := List.pairwise_cons.mp h
    split
    · rename_i hxz
      apply List.pairwise_cons.mpr
      refine ⟨?_, h⟩
      intro a ha
      rcases List.mem_cons.mp ha with rfl | ha
      · exact hxz
      · have := hz.1 a ha; omega
    · split
      · exact h
      · rename_i h1 h2
        apply List.pairwise_cons.mpr
        refine ⟨?_, ih hz.2⟩
        intro a ha
        rcases (mem_insertDesc x a zs).mp ha with rfl | ha
        · omega
        · exact hz.1 a ha

theorem foldl_insert_spec (l : List Nat) : ∀ (acc : List Nat), Desc acc →
    Desc (l.foldl (fun acc x => insertDesc x acc) acc) ∧
    ∀ y, y ∈ l.foldl (fun acc x => insertDesc x acc) acc ↔ (y ∈ acc ∨ y ∈ l) := by
  induction l with
  | nil => intro acc h; simp [h]
  | cons x xs ih =>
    intro acc h
    have := ih (insertDesc x acc) (desc_insertDesc x acc h)
    refine ⟨this.1, ?_⟩
    intro y
    simp only [List.foldl_cons, this.2, mem_insertDesc, List.mem_cons]
    constructor
    · rintro ((h | h) | h)
      · exact Or.inr (Or.inl h)
      · exact Or.inl h
      · exact Or.inr (Or.inr h)
    · rintro (h | h | h)
      · exact Or.inl (Or.inr h)
      · exact Or.inl (Or.inl h)
      · exact Or.inr h

/-- **C20, the published list**: strictly descending, and its members are exactly the collected epochs -/
theorem sortDescDedup_spec (l : List Nat) :
    Desc (sortDescDedup l) ∧ ∀ y, y ∈ sortDescDedup l ↔ y ∈ l := by
  have := foldl_insert_spec l [] (by simp [Desc])
  exact ⟨this.1, by intro y; have := this.2 y; simp only [List.not_mem_nil, false_or] at this; exact this⟩

/-- a strictly descending list is determined by its members -/
theorem desc_ext : ∀ (l1 l2 : List Nat), Desc l1 → Desc l2 → (∀ y, y ∈ l1 ↔ y ∈ l2) → l1 = l2 := by
  intro l1
  induction l1 with
  | nil =>
    intro l2 _ _ h
    cases l2 with
    | nil => rfl
    | cons b bs => have := (h b).mpr (by simp); simp at this
  | cons a as ih =>
    intro l2 h1 h2 h
    cases l2 with
    | nil => have := (h a).mp (by simp); simp at this
    | cons b bs =>
      have ha := List.pairwise_cons.mp h1
      have hb := List.pairwise_cons.mp h2
      have hab : a = b := by
        have h1' := (h a).mp (by simp)
        have h2' := (h b).mpr (by simp)
        rcases List.mem_cons.mp h1' with h1' | h1'
        · exact h1'
        · rcases List.mem_cons.mp h2' with h2' | h2'
          · exact h2'.symm
          · have := hb.1 a h1'; have := ha.1 b h2'; omega
      subst hab
      congr 1
      apply ih bs ha.2 hb.2
      intro y
      constructor
      · intro hy
        have := (h y).mp (List.mem_cons_of_mem _ hy)
        rcases List.mem_cons.mp this with rfl | h'
        · have := ha.1 y hy; omega
        · exact h'
      · intro hy
        have := (h y).mpr (List.mem_cons_of_mem _ hy)
        rcases List.mem_cons.mp this with rfl | h'
        · have := hb.1 y hy; omega
        · exact h'

/-- the last element of a strictly descending list is its minimum -/
theorem desc_last_le (l : List Nat) (h : Desc l) (m : Nat) (hm : l.getLast? = some m) : ∀ y ∈ l, m ≤ y := by
  induction l with
  | nil => simp at hm
  | cons a as ih =>
    intro y hy
    have ha := List.pairwise_cons.mp h
    cases as with
    | nil => simp at hm hy; omega
    | cons b bs =>
      have hm' : (b :: bs).getLast? = some m := by simpa [List.getLast?_cons_cons] using hm
      rcases List.mem_cons.mp hy with rfl | hy
      · have hmem : m ∈ b :: bs := List.mem_of_getLast? hm'
        have := ha.1 m hmem; omega
      · exact ih ha.2 hm' y hy

/-- **C16, quiescent forward**: with no pinned epoch the published list is exactly `[cur+1, cur]` -/
theorem quiescent_list (cur : Nat) : sortDescDedup [cur + 1, cur] = [cur + 1, cur] := by
  simp [sortDescDedup, insertDesc]

/-- head of the published list is the new epoch when nothing above it is collected -/
theorem published_head (next : Nat) (l : List Nat) (hmem : next ∈ l) (hmax : ∀ y ∈ l, y ≤ next) :
    (sortDescDedup l).head? = some next := by
  have hs := sortDescDedup_spec l
  cases hl : sortDescDedup l with
  | nil => have := (hs.2 next).mpr hmem; rw [hl] at this; simp at this
  | cons a as =>
    rw [hl] at hs
    have ha := List.pairwise_cons.mp hs.1
    have hmem' := (hs.2 next).mpr hmem
    simp only [List.head?_cons, Option.some.injEq]
    rcases List.mem_cons.mp hmem' with h | h
    · exact h.symm
    · have h1 := ha.1 next h
      have h2 := hmax a ((hs.2 a).mp (by simp))
      omega

end CppUtil.Epoch
