/-
  Inductive invariant of the word-lock core, for every parameter set meeting `Specs`
  (field-level meaning of each guard/update expression), any number of agents, any
  action sequence (arbitrary pre-load values, spurious CAS failures included).
-/
import CppUtil.Model.WLock

namespace CppUtil.WLock
open CppUtil

/-- decoded lock word -/
structure Fields where
  x : Bool
  six : Bool
  s : Nat
  ver : BitVec 32
  deriving DecidableEq, Repr

/-- how a class lays its fields out in the word; `cap` = exclusive bound of the shared counter,
    `verIn` = what a stored version becomes (identity for OptimisticLock, 0 for PessimisticLock) -/
structure Decoder where
  dec : Word → Fields
  cap : Nat
  verIn : BitVec 32 → BitVec 32

/-- Field-level meaning of every guard / update expression (closed by bit-vector lemmas on the
    generated constants in `Props/`). -/
structure Specs (P : WParams) (D : Decoder) : Prop where
  dec_zero : D.dec 0#64 = ⟨false, false, 0, 0⟩
  gS : ∀ w, P.lockGuard .S w = true → (D.dec w).x = false
  gSIX : ∀ w, P.lockGuard .SIX w = true → (D.dec w).x = false ∧ (D.dec w).six = false
  gX : ∀ w, P.lockGuard .X w = true → (D.dec w).x = false ∧ (D.dec w).six = false ∧ (D.dec w).s = 0
  uS : ∀ w, (D.dec w).s + 1 < D.cap → D.dec (P.lockUpd .S w) = { D.dec w with s := (D.dec w).s + 1 }
  uSIX : ∀ w, (D.dec w).six = false → D.dec (P.lockUpd .SIX w) = { D.dec w with six := true }
  uX : ∀ w, (D.dec w).x = false → D.dec (P.lockUpd .X w) = { D.dec w with x := true }
  tgS : ∀ w, P.tryGuard .S w = true → (D.dec w).x = false
  tgSIX : ∀ w, P.tryGuard .SIX w = true → (D.dec w).x = false ∧ (D.dec w).six = false
  tgX : ∀ w, P.tryGuard .X w = true → (D.dec w).x = false ∧ (D.dec w).six = false ∧ (D.dec w).s = 0
  tuS : ∀ w, (D.dec w).s + 1 < D.cap → D.dec (P.tryUpd .S w) = { D.dec w with s := (D.dec w).s + 1 }
  tuSIX : ∀ w, (D.dec w).six = false → D.dec (P.tryUpd .SIX w) = { D.dec w with six := true }
  tuX : ∀ w, (D.dec w).x = false → D.dec (P.tryUpd .X w) = { D.dec w with x := true }
  rS : ∀ w, 0 < (D.dec w).s → (D.dec w).s < D.cap →
        D.dec (w - P.relSArg) = { D.dec w with s := (D.dec w).s - 1 }
  rSIX : ∀ w, (D.dec w).six = true → D.dec (w ^^^ P.relSIXArg) = { D.dec w with six := false }
  rX : ∀ nv, D.dec (P.relXVal nv) = ⟨false, false, 0, D.verIn nv⟩
  upgG : ∀ w, P.upgGuard w = true → (D.dec w).s = 0
  upgU : ∀ w, P.upgGuard w = true → (D.dec w).x = false → (D.dec w).six = true →
        D.dec (P.upgUpd w) = { D.dec w with x := true, six := false }
  dng : ∀ nv, D.dec (P.dngVal nv) = ⟨false, true, 0, D.verIn nv⟩
  pG : ∀ w, P.noX w = true → P.anyLock w = false →
        (D.dec w).x = false ∧ (D.dec w).six = false ∧ (D.dec w).s = 0
  pU : ∀ w, (D.dec w).s + 1 < D.cap → D.dec (P.prepUpd w) = { D.dec w with s := (D.dec w).s + 1 }
  -- completeness of the admission tests (used for progress, C02)
  gS_c : ∀ w, (D.dec w).x = false → P.lockGuard .S w = true
  gSIX_c : ∀ w, (D.dec w).x = false → (D.dec w).six = false → P.lockGuard .SIX w = true
  gX_c : ∀ w, (D.dec w).x = false → (D.dec w).six = false → (D.dec w).s = 0 → P.lockGuard .X w = true
  upgG_c : ∀ w, (D.dec w).x = false → (D.dec w).six = true → (D.dec w).s = 0 → P.upgGuard w = true
  -- version plumbing (C03, C09, C13)
  noX_iff : ∀ w, P.noX w = true ↔ (D.dec w).x = false
  verOf_eq : ∀ w, P.verOf w = (D.dec w).ver
  castVer_eq : ∀ w, P.castVer w = (D.dec w).ver
  tryNe : ∀ m w v, P.tryGuard m w = true → (P.tryVerNe m w v = true ↔ (D.dec w).ver ≠ v)
  anyLock_iff : ∀ w, (D.dec w).x = false → (P.anyLock w = false ↔ ((D.dec w).six = false ∧ (D.dec w).s = 0))
  verIn_idem : ∀ v, D.verIn (D.verIn v) = D.verIn v
  tgS_c : ∀ w, (D.dec w).x = false → P.tryGuard .S w = true ∨ ∀ w', P.tryGuard .S w' = false
  tgSIX_c : ∀ w, (D.dec w).x = false → (D.dec w).six = false → P.tryGuard .SIX w = true ∨ ∀ w', P.tryGuard .SIX w' = false
  tgX_c : ∀ w, (D.dec w).x = false → (D.dec w).six = false → (D.dec w).s = 0 →
      P.tryGuard .X w = true ∨ ∀ w', P.tryGuard .X w' = false

/-- number of agents currently granted mode `m` -/
def cnt (s : St) (m : Mode) : Nat := s.agents.countP (fun l => l.grant? == some m)

/-- 1 if the location carries a grant of mode `m` -/
def g (l : Loc) (m : Mode) : Nat := if l.grant? == some m then 1 else 0

/-- a value an agent is about to CAS from passed the admission test of its request -/
def LocOK (P : WParams) : Loc → Prop
  | .acqCas m seen => P.lockGuard m seen = true
  | .upgCas seen => P.upgGuard seen = true
  | .tryCas m ver seen => P.tryGuard m seen = true ∧ P.tryVerNe m seen ver = false
  | .prepCas seen => P.noX seen = true ∧ P.anyLock seen = false
  | _ => True

structure Inv (P : WParams) (D : Decoder) (s : St) : Prop where
  cx : cnt s .X = (if (D.dec s.w).x then 1 else 0)
  csix : cnt s .SIX = (if (D.dec s.w).six then 1 else 0)
  cs : cnt s .S = (D.dec s.w).s
  xexcl : (D.dec s.w).x = true → (D.dec s.w).six = false ∧ (D.dec s.w).s = 0
  ok : ∀ l ∈ s.agents, LocOK P l

theorem getElem?_lt {α} {l : List α} {i : Nat} {a : α} (h : l[i]? = some a) : i < l.length := by
  rcases Nat.lt_or_ge i l.length with h' | h'
  · exact h'
  · rw [List.getElem?_eq_none h'] at h; cases h

theorem cnt_setLoc (s : St) (i : Nat) (old new : Loc) (m : Mode) (h : s.agents[i]? = some old) :
    cnt (setLoc s i new) m + g old m = cnt s m + g new m := by
  have hi := getElem?_lt h
  have hget : s.agents[i] = old := by
    have := List.getElem?_eq_getElem hi
    rw [this] at h; exact Option.some.inj h
  unfold cnt setLoc g
  simp only [List.countP_set hi, hget]
  have hle := List.boole_getElem_le_countP (p := fun l => l.grant? == some m) hi
  simp only [hget] at hle
  omega

theorem cnt_setLoc_w (s : St) (i : Nat) (new : Loc) (m : Mode) (w : Word) :
    cnt ({ setLoc s i new with w := w }) m = cnt (setLoc s i new) m := rfl

theorem ok_setLoc {P : WParams} {s : St} {i : Nat} {new : Loc}
    (h : ∀ l ∈ s.agents, LocOK P l) (hn : LocOK P new) :
    ∀ l ∈ (setLoc s i new).agents, LocOK P l := by
  intro l hl
  rcases List.mem_or_eq_of_mem_set hl with h' | h'
  · exact h l h'
  · subst h'; exact hn

theorem cnt_le_length (s : St) (m : Mode) : cnt s m ≤ s.agents.length := List.countP_le_length

/-- total grants never exceed the number of agents; with a non-granted agent present, strictly -/
theorem cntS_lt_of_nongrant (s : St) (i : Nat) (l : Loc) (h : s.agents[i]? = some l)
    (hl : l.grant? = none) : cnt s .S + 1 ≤ s.agents.length := by
  have hi := getElem?_lt h
  have hget : s.agents[i] = l := by
    have := List.getElem?_eq_getElem hi
    rw [this] at h; exact Option.some.inj h
  -- count of the complement predicate is at least one
  let p : Loc → Bool := fun l => l.grant? == some .S
  have h1 : s.agents.length = s.agents.countP p + s.agents.countP (fun a => ¬p a) :=
    List.length_eq_countP_add_countP p
  have h2 : 0 < s.agents.countP (fun a => ¬p a) := by
    apply List.countP_pos_iff.mpr
    exact ⟨l, by rw [← hget]; exact List.getElem_mem hi, by simp [p, hl]⟩
  show s.agents.countP p + 1 ≤ s.agents.length
  omega

/-- the generic update: agent `i` moves `old → new`, the word's fields move `f → f'` -/
theorem inv_update {P : WParams} {D : Decoder} {s : St} {i : Nat} {old new : Loc} {w' : Word}
    (hI : Inv P D s) (hi : s.agents[i]? = some old) (hok : LocOK P new)
    (hx : (if (D.dec w').x then 1 else 0) + g old .X = (if (D.dec s.w).x then 1 else 0) + g new .X)
    (hsix : (if (D.dec w').six then 1 else 0) + g old .SIX = (if (D.dec s.w).six then 1 else 0) + g new .SIX)
    (hs : (D.dec w').s + g old .S = (D.dec s.w).s + g new .S)
    (hex : (D.dec w').x = true → (D.dec w').six = false ∧ (D.dec w').s = 0) :
    Inv P D { setLoc s i new with w := w' } := by
  have cX := cnt_setLoc s i old new .X hi
  have cSIX := cnt_setLoc s i old new .SIX hi
  have cS := cnt_setLoc s i old new .S hi
  have hIx := hI.cx; have hIsix := hI.csix; have hIs := hI.cs
  refine ⟨?_, ?_, ?_, hex, ok_setLoc hI.ok hok⟩
  · show cnt (setLoc s i new) .X = (if (D.dec w').x then 1 else 0)
    omega
  · show cnt (setLoc s i new) .SIX = (if (D.dec w').six then 1 else 0)
    omega
  · show cnt (setLoc s i new) .S = (D.dec w').s
    omega

/-- the word is unchanged and the grant status of the agent is unchanged -/
theorem inv_local {P : WParams} {D : Decoder} {s : St} {i : Nat} {old new : Loc}
    (hI : Inv P D s) (hi : s.agents[i]? = some old) (hok : LocOK P new)
    (hg : new.grant? = old.grant?) : Inv P D (setLoc s i new) := by
  have h := inv_update (w' := s.w) hI hi hok (by simp [g, hg]) (by simp [g, hg]) (by simp [g, hg]) hI.xexcl
  exact h

end CppUtil.WLock
