/-
  MCSLock proof, word-writing steps, part K: LockS on a free lock (a new group without head).
-/
import CppUtil.Proofs.McsHardJ

namespace CppUtil.Mcs
open CppUtil

variable {W : Nat → Bool → Bool → Nat → Word} {P : Params} {pb cb : Nat} {s : St} {Q : Nat → List Grp}
variable {i : Nat} {a : Agent}

/-- a zero lock word means an empty queue -/
theorem queue_empty_of_zero (hW : WordSpecs P.C pb cb W) (hI : Inv W P pb cb s Q) {ℓ : Nat} (hℓ : ℓ < s.locks.length)
    (h0 : lockW s ℓ = 0) : Q ℓ = [] := by
  cases hq : (Q ℓ).getLast? with
  | none => exact List.getLast?_eq_none_iff.mp hq
  | some Gk =>
    exfalso
    obtain ⟨hw, _, _⟩ := LockInv.lock_ptr hW hI hℓ hq
    rw [h0] at hw
    have hn := hI.node_lt (List.mem_of_getLast? hq)
    have := (hW.eqZero _ _ _ _ hn (by have := hI.cnt_lt ℓ Gk.node; omega)).mp hw.symm
    have := hI.node_pos (List.mem_of_getLast? hq)
    omega

/-- with an empty queue nobody on this lock is a member or a live head -/
theorem nobody_of_empty (hI : Inv W P pb cb s Q) {ℓ : Nat} (hℓ : ℓ < s.locks.length) (hq : Q ℓ = [])
    {k : Nat} {b : Agent} (hk : s.agents[k]? = some b) (hb : b.lk = ℓ) :
    b.loc.headMode.isSome = false ∧ b.loc.sMem = false := by
  have hL := hI.locks ℓ hℓ
  constructor
  · cases h : b.loc.headMode.isSome with
    | false => rfl
    | true =>
      obtain ⟨G, hG, _⟩ := hL.headsBack k b hk hb h
      rw [hq] at hG; cases hG
  · cases h : b.loc.sMem with
    | false => rfl
    | true =>
      obtain ⟨j, G, hj, _, _⟩ := hL.mems k b hk hb h
      rw [hq] at hj; simp at hj

theorem case_sCas_new (hW : WordSpecs P.C pb cb W) (hI : Inv W P pb cb s Q) (hi : s.agents[i]? = some a)
    (hloc : a.loc = .sCas) (h0 : lockW s a.lk = 0) :
    Inv W P pb cb
      (setAgent (wr s (.lock a.lk) (ofNode a.qnode ||| P.C.kSLock)) i { a with loc := .held .S })
      (setQ Q a.lk [{ node := a.qnode, head := none }]) := by
  have hwf := hI.wf a (List.mem_of_getElem? hi)
  have hL := hI.locks a.lk hwf.2.1
  have hp : a.loc.priv = true := by simp [hloc, Loc.priv]
  have hhm0 : a.loc.headMode = none := by rw [hloc]; rfl
  have hnd : a.loc ≠ .done := by rw [hloc]; simp
  have hqlive := hI.privLive i a hi hp
  have hqlt : a.qnode < pb := by have := nodeLive_bound hqlive; have := hI.capN; omega
  have hq := queue_empty_of_zero hW hI hwf.2.1 h0
  have hag : (setAgent (wr s (.lock a.lk) (ofNode a.qnode ||| P.C.kSLock)) i { a with loc := .held .S }).agents =
      s.agents.set i { a with loc := .held .S } := by simp
  have hc0 := cnt_priv_zero hI hi hp a.lk hwf.2.1
  have hc1 : cnt (setAgent (wr s (.lock a.lk) (ofNode a.qnode ||| P.C.kSLock)) i { a with loc := .held .S })
      a.lk a.qnode = 1 := by
    have := cnt_upd hi hag a.lk a.qnode
    have h1 : isMem a.lk a.qnode a = false := by simp [isMem, hloc, Loc.sMem]
    have h2 : isMem a.lk a.qnode { a with loc := .held .S } = true := by simp [isMem, Loc.sMem]
    rw [h1, h2, hc0] at this
    simpa using this
  have hnm : hmode (setAgent (wr s (.lock a.lk) (ofNode a.qnode ||| P.C.kSLock)) i { a with loc := .held .S })
      { node := a.qnode, head := none } = none := hmode_no_head rfl
  apply inv_assemble
  · rw [setAgent_uaf, wr_lock_uaf]; exact hI.uaf
  · rw [setAgent_nodes, wr_lock_nodes]; exact hI.capN
  · rw [hag]; simpa using hI.capA
  · intro b hb
    rw [setAgent_tls, wr_lock_tls, setAgent_locks, wr_lock_len]
    rcases ag_mem hi hag hb with hb | rfl
    · exact hI.wf b hb
    · exact ⟨hwf.1, hwf.2.1, by simp, by simp [Loc.headMode]⟩
  · intro ℓ hℓ
    rw [setAgent_locks, wr_lock_len] at hℓ
    rw [setQ_other _ _ _ _ (by intro e; rw [e] at hℓ; exact absurd hwf.2.1 (by omega))]
    exact hI.outside ℓ hℓ
  · intro ℓ hℓ
    rw [setAgent_locks, wr_lock_len] at hℓ
    by_cases hne : ℓ = a.lk
    · subst hne
      rw [setQ_same]
      refine ⟨by simp, ?_, ?_, ?_, ?_, ?_, ?_, ?_, ?_⟩
      · rw [lockW_setAgent, lockW_wr_lock s _ _ _ hwf.2.1]
        simp only [↓reduceIte]
        unfold expLock; simp only [List.getLast?_singleton]
        unfold grpW
        rw [hnm, hc1]
        simpa using hW.newS a.qnode hqlt
      · intro j G hj
        have hj0 : j = 0 := by have := getElem?_lt' hj; simp at this; omega
        subst hj0
        simp only [List.getElem?_cons_zero, Option.some.injEq] at hj
        subst hj
        rw [nodeW_setAgent, nodeW_wr_lock, (hI.privW i a hi).1 (Or.inr hloc)]
        unfold expNode
        have hpub : published (setAgent (wr s (.lock a.lk) (ofNode a.qnode ||| P.C.kSLock)) i
            { a with loc := .held .S }) { node := a.qnode, head := none } = true := by
          unfold published headLoc; rfl
        rw [hpub]
        simp only [↓reduceIte]
        unfold linkOf
        simp [hW.zero]
      · intro G hG
        simp only [List.mem_singleton] at hG; subst hG
        right; rw [hc1]; exact Nat.one_pos
      · intro j G hj hpos
        have := getElem?_lt' hj; simp at this; omega
      · intro j G h hj hh
        have hj0 : j = 0 := by have := getElem?_lt' hj; simp at this; omega
        subst hj0
        simp only [List.getElem?_cons_zero, Option.some.injEq] at hj
        subst hj
        cases hh
      · intro G hG h hh
        simp only [List.mem_singleton] at hG; subst hG
        cases hh
      · intro k b hk hb1 hb2
        exfalso
        rcases ag_cases hi hag hk with ⟨rfl, rfl⟩ | ⟨_, hk'⟩
        · simp [Loc.headMode] at hb2
        · have := (nobody_of_empty hI hwf.2.1 hq hk' hb1).1
          rw [this] at hb2; cases hb2
      · intro k b hk hb1 hb2
        rcases ag_cases hi hag hk with ⟨rfl, rfl⟩ | ⟨_, hk'⟩
        · exact ⟨0, _, rfl, rfl, by simp only [MemOK]; exact hnm⟩
        · exfalso
          have := (nobody_of_empty hI hwf.2.1 hq hk' hb1).2
          rw [this] at hb2; cases hb2
    · rw [setQ_other _ _ _ _ hne]
      apply lockInv_other hI hi hag rfl hne hℓ
      · rw [lockW_setAgent, lockW_wr_lock s _ _ _ hwf.2.1]; simp [hne]
      · intro G _; rfl
  · apply ownInv_of_map hI.own
      (fun k o0 o => (o0 = .priv i ∧ o = .grp a.lk) ∨ (o0 ≠ .priv i ∧ o = o0))
      (by
        intro k o0 o o' h h'
        rcases h with ⟨h1, h2⟩ | ⟨h1, h2⟩ <;> rcases h' with ⟨h1', h2'⟩ | ⟨h1', h2'⟩
        · rw [h2, h2']
        · exact absurd h1 h1'
        · exact absurd h1' h1
        · rw [h2, h2'])
      none (by intro kf of h; cases h)
    intro k o h
    cases o with
    | priv j =>
      obtain ⟨b, hb, hpb, rfl⟩ := h
      rcases ag_cases hi hag hb with ⟨rfl, rfl⟩ | ⟨hne, hb'⟩
      · simp [Loc.priv] at hpb
      · refine ⟨by rw [nodeLive_setAgent, nodeLive_wr_lock]; exact hI.privLive j b hb' hpb,
          Or.inl ⟨.priv j, ⟨b, hb', hpb, rfl⟩, Or.inr ⟨fun e => hne (Owner.priv.inj e), rfl⟩⟩⟩
    | cache t =>
      have h' : s.tls[t]? = some (some k) := h
      exact ⟨by rw [nodeLive_setAgent, nodeLive_wr_lock]; exact hI.cacheLive t k h',
        Or.inl ⟨.cache t, h', Or.inr ⟨fun e => Owner.noConfusion e, rfl⟩⟩⟩
    | grp ℓ =>
      obtain ⟨G, hG, rfl⟩ := h
      rcases mem_setQ hG with ⟨rfl, hG'⟩ | ⟨hne, hG'⟩
      · simp only [List.mem_singleton] at hG'; subst hG'
        exact ⟨by rw [nodeLive_setAgent, nodeLive_wr_lock]; exact hqlive,
          Or.inl ⟨.priv i, ⟨a, hi, hp, rfl⟩, Or.inl ⟨rfl, rfl⟩⟩⟩
      · exact ⟨by rw [nodeLive_setAgent, nodeLive_wr_lock]; exact hI.grpLive ℓ G hG',
          Or.inl ⟨.grp ℓ, ⟨G, hG', rfl⟩, Or.inr ⟨fun e => Owner.noConfusion e, rfl⟩⟩⟩
  · intro k b hk
    rw [nodeW_setAgent, nodeW_wr_lock]
    rcases ag_cases hi hag hk with ⟨rfl, rfl⟩ | ⟨_, hk'⟩
    · exact ⟨by intro h; simp at h, by intro m' h; simp at h⟩
    · exact hI.privW k b hk'

end CppUtil.Mcs
