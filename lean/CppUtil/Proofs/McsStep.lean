/-
  MCSLock proof: `Mcs.atom` case by case — every atomic step keeps the invariant, with the ghost queue
  updated by `ghostAtom`.
-/
import CppUtil.Proofs.McsMain

namespace CppUtil.Mcs
open CppUtil

variable {W : Nat → Bool → Bool → Nat → Word} {P : Params} {pb cb : Nat} {s : St} {Q : Nat → List Grp}

set_option maxHeartbeats 1600000 in
theorem invx_atom (hW : WordSpecs P.C pb cb W) (hP : P.publishStore = false) (hX : InvX W P pb cb s Q) (i : Nat) :
    InvX W P pb cb (step P s (.atom i)) (ghostAtom P s Q i) := by
  have hI := hX.inv
  have hN : P.C.kNoLocks = 0 := hW.noLocks
  cases hi : s.agents[i]? with
  | none => simp only [step, atom, ghostAtom, hi]; exact hX
  | some a =>
    have hwf := hI.wf a (List.mem_of_getElem? hi)
    cases hloc : a.loc with
    | idle => simp only [step, atom, ghostAtom, hi, hloc]; exact hX
    | done => simp only [step, atom, ghostAtom, hi, hloc]; exact hX
    | held m => simp only [step, atom, ghostAtom, hi, hloc]; exact hX
    | sStore =>
      simp only [step, atom, ghostAtom, hi, hloc]
      exact ⟨case_sStore hW hI hi hloc, by xmset hX hi⟩
    | sLoad =>
      simp only [step, atom, ghostAtom, hi, hloc]
      exact ⟨case_sLoad hI hi hloc _, by xmset hX hi⟩
    | sCas =>
      simp only [step, atom, ghostAtom, hi, hloc]
      by_cases h0 : a.cur = 0
      · have hc : ¬ (a.cur ≠ 0) := by simp [h0]
        by_cases hl : rd s (.lock a.lk) = 0
        · rw [if_neg hc, if_pos hl, if_pos (show a.cur = 0 ∧ rd s (.lock a.lk) = 0 from ⟨h0, hl⟩)]
          exact ⟨case_sCas_new hW hI hi hloc hl, by xmset hX hi⟩
        · rw [if_neg hc, if_neg hl, if_neg (show ¬ (a.cur = 0 ∧ rd s (.lock a.lk) = 0) from fun h => hl h.2)]
          dsimp only; rw [← hloc]
          exact ⟨case_sCas_fail hI hi hloc _, by xmset hX hi⟩
      · have hc : a.cur ≠ 0 := h0
        by_cases hl : rd s (.lock a.lk) = a.cur
        · rw [if_pos hc, if_pos hl, if_neg (show ¬ (a.cur = 0 ∧ rd s (.lock a.lk) = 0) from fun h => h0 h.1)]
          refine ⟨case_sCas_join hW hI hi hloc h0 hl, ?_⟩
          refine xmodes_setAgent hX.xm hi (by simp [cacheNode_agents]) ?_
          intro m h; rcases h with h | h <;> (split at h <;> cases h)
        · rw [if_pos hc, if_neg hl, if_neg (show ¬ (a.cur = 0 ∧ rd s (.lock a.lk) = 0) from fun h => h0 h.1)]
          dsimp only; rw [← hloc]
          exact ⟨case_sCas_fail hI hi hloc _, by xmset hX hi⟩
    | sSpinLock =>
      simp only [step, atom, ghostAtom, hi, hloc]
      by_cases hc : (rd s (.lock a.lk) &&& P.C.kPtrMask) ≠ a.nxt
      · rw [if_pos hc]; dsimp only
        exact ⟨case_sSpinLock_moved hW hI hi hloc hc, by xmset hX hi⟩
      · have hc' : (rd s (.lock a.lk) &&& P.C.kPtrMask) = a.nxt := by
          rcases Classical.em ((rd s (.lock a.lk) &&& P.C.kPtrMask) = a.nxt) with h | h
          · exact h
          · exact absurd h hc
        rw [if_neg hc]
        by_cases hx : (rd s (.lock a.lk) &&& P.C.kXMask) = P.C.kNoLocks
        · rw [if_pos hx]; dsimp only
          exact ⟨case_sSpinLock_grant hW hI hi hloc hc' hx, by xmset hX hi⟩
        · rw [if_neg hx]; dsimp only; rw [← hloc]
          exact ⟨case_sSpinLock_stay hI hi hloc _, by xmset hX hi⟩
    | sSpinNext =>
      simp only [step, atom, ghostAtom, hi, hloc]
      rw [touch_live s a.qnode (own_live hI hi (Or.inl (by simp [hloc, Loc.sMem])))]
      by_cases hc : (rd s (.node a.qnode) &&& P.C.kPtrMask) ≠ 0
      · rw [if_pos hc]; dsimp only
        exact ⟨case_sSpinNext_found hW hI hi hloc hc, by xmset hX hi⟩
      · rw [if_neg hc]; dsimp only; rw [← hloc]
        exact ⟨case_sSpinNext_stay hI hi hloc _, by xmset hX hi⟩
    | sSpinNode =>
      simp only [step, atom, ghostAtom, hi, hloc]
      -- the successor's node is live
      have hsm : a.loc.sMem = true := by simp [hloc, Loc.sMem]
      obtain ⟨j0, G0, hj0, hn0, hmo⟩ := member_group hI hi hsm
      simp only [MemOK, hloc] at hmo
      obtain ⟨G', hG', _, hnx⟩ := hmo
      have htn : a.nxt.toNat = G'.node := by
        rw [hnx]; exact ofNode_toNat _ (Nat.lt_of_lt_of_le (hI.node_lt (mem_of_idx hG')) hW.pbLe)
      have hlive' : nodeLive s a.nxt.toNat = true := by rw [htn]; exact hI.grpLive a.lk G' (mem_of_idx hG')
      rw [touch_live s _ hlive']
      by_cases hx : (rd s (.node a.nxt.toNat) &&& P.C.kXMask) = P.C.kNoLocks
      · rw [if_pos hx]; dsimp only
        exact ⟨case_sSpinNode_grant hW hI hi hloc hx, by xmset hX hi⟩
      · rw [if_neg hx]; dsimp only
        exact hX
    | xStore m =>
      simp only [step, atom, ghostAtom, hi, hloc]
      refine ⟨case_xStore hW hI hi m hloc, ?_⟩
      refine xmodes_setAgent hX.xm hi (by simp [wr_node_agents]) ?_
      intro m' h
      rcases h with h | h
      · cases h
      · cases h
        exact hX.xm a (List.mem_of_getElem? hi) m (Or.inl hloc)
    | xXchg m =>
      simp only [step, atom, ghostAtom, hi, hloc]
      have hmS : m ≠ .S := hX.xm a (List.mem_of_getElem? hi) m (Or.inr hloc)
      exact ⟨case_xXchg hW hI hi m hloc hmS, by xmset hX hi⟩
    | xPublish m =>
      simp only [step, atom, ghostAtom, hi, hloc, hP]
      refine ⟨case_xPublish hW hI hi m hloc _ rfl, ?_⟩
      refine xmodes_setAgent hX.xm hi (by simp [wr_node_agents]) ?_
      intro m' h; unfold pubAgent at h; rcases h with h | h <;> (split at h <;> cases h)
    | xLink m =>
      simp only [step, atom, ghostAtom, hi, hloc]
      exact ⟨case_xLink hW hI hi m hloc _ rfl, by xmset hX hi⟩
    | xSpin m =>
      simp only [step, atom, ghostAtom, hi, hloc]
      rw [touch_live s a.qnode (own_live hI hi (Or.inr (by rw [hloc]; rfl)))]
      cases m with
      | X =>
        by_cases hok : ((rd s (.node a.qnode) &&& P.C.kLockMask) == P.C.kNoLocks) = true
        · rw [if_pos hok]; dsimp only
          exact ⟨case_xSpin_grant hW hI hi .X hloc hok, by xmset hX hi⟩
        · rw [if_neg hok]; dsimp only
          exact hX
      | SIX =>
        by_cases hok : ((rd s (.node a.qnode) &&& P.C.kXMask) == P.C.kNoLocks) = true
        · rw [if_pos hok]; dsimp only
          exact ⟨case_xSpin_grant hW hI hi .SIX hloc hok, by xmset hX hi⟩
        · rw [if_neg hok]; dsimp only
          exact hX
      | S =>
        exfalso
        have := hwf.2.2.2; rw [hloc] at this; exact this rfl
    | rel m ph =>
      have hown : nodeLive s a.qnode = true := by
        apply own_live hI hi
        cases m <;> simp [hloc, Loc.sMem, Loc.headMode]
      cases ph with
      | load0 =>
        simp only [step, atom, ghostAtom, hi, hloc]
        rw [touch_live s a.qnode hown]
        cases m with
        | S =>
          dsimp only
          exact ⟨case_relS_load0 hW hI hi hloc, by
            refine xmodes_setAgent hX.xm hi rfl ?_
            intro m' h; rcases h with h | h <;> (split at h <;> cases h)⟩
        | SIX =>
          dsimp only
          by_cases hs : (rd s (.node a.qnode) &&& P.C.kSMask) = P.C.kNoLocks
          · rw [if_pos hs]; dsimp only
            exact ⟨case_hk_load0_pass hW hI hi .relSIX (by decide) hloc (Or.inr hs), by
              refine xmodes_setAgent hX.xm hi rfl ?_
              intro m' h; rcases h with h | h <;> (split at h <;> cases h)⟩
          · rw [if_neg hs]; dsimp only; rw [← hloc]
            exact ⟨case_hk_load0_wait (k := .relSIX) hI hi hloc _, by xmset hX hi⟩
        | X =>
          dsimp only
          exact ⟨case_hk_load0_pass hW hI hi .relX (by decide) hloc (Or.inl rfl), by
            refine xmodes_setAgent hX.xm hi rfl ?_
            intro m' h; rcases h with h | h <;> (split at h <;> cases h)⟩
      | lockLoad =>
        simp only [step, atom, ghostAtom, hi, hloc]
        have hxm : XModes (setAgent s i (tailAgent P a (rd s (.lock a.lk)) (.rel m))) := by
          refine xmodes_setAgent hX.xm hi rfl ?_
          intro m' h; unfold tailAgent tailLoop at h; rcases h with h | h <;> (split at h <;> cases h)
        cases m with
        | S => exact ⟨case_relS_lockLoad hW hI hi .lockLoad (Or.inl rfl) hloc, hxm⟩
        | SIX => exact ⟨case_hk_lockLoad hW hI hi .relSIX .lockLoad (Or.inl rfl) hloc, hxm⟩
        | X => exact ⟨case_hk_lockLoad hW hI hi .relX .lockLoad (Or.inl rfl) hloc, hxm⟩
      | spinNext =>
        simp only [step, atom, ghostAtom, hi, hloc]
        rw [touch_live s a.qnode hown]
        have hxm : XModes (setAgent s i (nextAgent a (rd s (.node a.qnode) &&& P.C.kPtrMask) (.rel m))) := by
          refine xmodes_setAgent hX.xm hi rfl ?_
          intro m' h; unfold nextAgent at h; rcases h with h | h <;> (split at h <;> cases h)
        cases m with
        | S => exact ⟨case_relS_spinNext hW hI hi hloc, hxm⟩
        | SIX => exact ⟨case_hk_spinNext hW hI hi .relSIX hloc, hxm⟩
        | X => exact ⟨case_hk_spinNext hW hI hi .relX hloc, hxm⟩
      | cas =>
        simp only [step, atom, ghostAtom, hi, hloc]
        have hxd : ∀ s0 : St, s0.agents = s.agents → XModes (setAgent s0 i { a with loc := .done }) := by
          intro s0 h0
          refine xmodes_setAgent hX.xm hi h0 ?_
          intro m' h; rcases h with h | h <;> cases h
        have hxm : XModes (setAgent s i (tailAgent P a (rd s (.lock a.lk)) (.rel m))) := by
          refine xmodes_setAgent hX.xm hi rfl ?_
          intro m' h; unfold tailAgent tailLoop at h; rcases h with h | h <;> (split at h <;> cases h)
        by_cases hl : rd s (.lock a.lk) = a.cur
        · cases m with
          | S =>
            by_cases hd : ((a.cur - P.C.kSLock) &&& (P.C.kSMask ||| P.C.kSIXLock)) ≠ 0
            · have hd' : decide (((a.cur - P.C.kSLock) &&& (P.C.kSMask ||| P.C.kSIXLock)) ≠ 0) = true := decide_eq_true hd
              simp only [hl, hd', ↓reduceIte]
              exact ⟨case_relS_cas_dec hW hI hi hloc hl hd, hxd _ rfl⟩
            · have hd' : decide (((a.cur - P.C.kSLock) &&& (P.C.kSMask ||| P.C.kSIXLock)) ≠ 0) = false := decide_eq_false hd
              simp only [hl, hd', Bool.false_eq_true, ↓reduceIte]
              exact ⟨(case_relS_cas_null hW hI hi hloc hl hd).1, hxd _ (by simp [cacheNode_agents])⟩
          | SIX =>
            by_cases hd : (a.cur &&& P.C.kSMask) ≠ 0
            · have hd' : decide ((a.cur &&& P.C.kSMask) ≠ 0) = true := decide_eq_true hd
              simp only [hl, hd', ↓reduceIte]
              exact ⟨case_rel_cas_dec hW hI hi .relSIX (Or.inr rfl) hloc hl hd, hxd _ rfl⟩
            · have hd' : decide ((a.cur &&& P.C.kSMask) ≠ 0) = false := decide_eq_false hd
              simp only [hl, hd', Bool.false_eq_true, ↓reduceIte]
              exact ⟨(case_rel_cas_null hW hI hi .relSIX hloc hl hd).1, hxd _ (by simp [cacheNode_agents])⟩
          | X =>
            by_cases hd : (a.cur &&& P.C.kSMask) ≠ 0
            · have hd' : decide ((a.cur &&& P.C.kSMask) ≠ 0) = true := decide_eq_true hd
              simp only [hl, hd', ↓reduceIte]
              exact ⟨case_rel_cas_dec hW hI hi .relX (Or.inl rfl) hloc hl hd, hxd _ rfl⟩
            · have hd' : decide ((a.cur &&& P.C.kSMask) ≠ 0) = false := decide_eq_false hd
              simp only [hl, hd', Bool.false_eq_true, ↓reduceIte]
              exact ⟨(case_rel_cas_null hW hI hi .relX hloc hl hd).1, hxd _ (by simp [cacheNode_agents])⟩
        · simp only [hl, ↓reduceIte]
          cases m with
          | S => exact ⟨case_relS_lockLoad hW hI hi .cas (Or.inr rfl) hloc, hxm⟩
          | SIX => exact ⟨case_hk_lockLoad hW hI hi .relSIX .cas (Or.inr rfl) hloc, hxm⟩
          | X => exact ⟨case_hk_lockLoad hW hI hi .relX .cas (Or.inr rfl) hloc, hxm⟩
      | handoff =>
        simp only [step, atom, ghostAtom, hi, hloc]
        have hxd : ∀ s0 : St, s0.agents = s.agents → XModes (setAgent s0 i { a with loc := .done }) := by
          intro s0 h0
          refine xmodes_setAgent hX.xm hi h0 ?_
          intro m' h; rcases h with h | h <;> cases h
        cases m with
        | S =>
          rw [touch_live s _ (handoff_live_S hI hi hloc)]
          by_cases hl : (rd s (.node (ptrOf P a.nxt)) &&& P.C.kLockMask) = P.C.kSLock
          · have hl' : decide ((rd s (.node (ptrOf P a.nxt)) &&& P.C.kLockMask) = P.C.kSLock) = true := decide_eq_true hl
            simp only [hl', ↓reduceIte]
            exact ⟨(case_relS_handoff_last hW hI hi hloc hl).1, hxd _ (by simp [cacheNode_agents, wr_node_agents])⟩
          · have hl' : decide ((rd s (.node (ptrOf P a.nxt)) &&& P.C.kLockMask) = P.C.kSLock) = false := decide_eq_false hl
            simp only [hl', Bool.false_eq_true, ↓reduceIte]
            exact ⟨case_relS_handoff_keep hW hI hi hloc hl, hxd _ (by simp [wr_node_agents])⟩
        | SIX =>
          rw [touch_live s _ (handoff_live_H (W := W) hI hi .relSIX hloc)]
          by_cases hl : (rd s (.node (ptrOf P a.nxt)) &&& P.C.kSMask) = P.C.kNoLocks
          · have hl' : decide ((rd s (.node (ptrOf P a.nxt)) &&& P.C.kSMask) = P.C.kNoLocks) = true := decide_eq_true hl
            simp only [hl', ↓reduceIte]
            exact ⟨(case_rel_handoff_last hW hI hi .relSIX (Or.inr rfl) hloc hl).1,
              hxd _ (by simp [cacheNode_agents, wr_node_agents])⟩
          · have hl' : decide ((rd s (.node (ptrOf P a.nxt)) &&& P.C.kSMask) = P.C.kNoLocks) = false := decide_eq_false hl
            simp only [hl', Bool.false_eq_true, ↓reduceIte]
            exact ⟨case_rel_handoff_keep hW hI hi .relSIX (Or.inr rfl) hloc hl, hxd _ (by simp [wr_node_agents])⟩
        | X =>
          rw [touch_live s _ (handoff_live_H (W := W) hI hi .relX hloc)]
          by_cases hl : (rd s (.node (ptrOf P a.nxt)) &&& P.C.kSMask) = P.C.kNoLocks
          · have hl' : decide ((rd s (.node (ptrOf P a.nxt)) &&& P.C.kSMask) = P.C.kNoLocks) = true := decide_eq_true hl
            simp only [hl', ↓reduceIte]
            exact ⟨(case_rel_handoff_last hW hI hi .relX (Or.inl rfl) hloc hl).1,
              hxd _ (by simp [cacheNode_agents, wr_node_agents])⟩
          · have hl' : decide ((rd s (.node (ptrOf P a.nxt)) &&& P.C.kSMask) = P.C.kNoLocks) = false := decide_eq_false hl
            simp only [hl', Bool.false_eq_true, ↓reduceIte]
            exact ⟨case_rel_handoff_keep hW hI hi .relX (Or.inl rfl) hloc hl, hxd _ (by simp [wr_node_agents])⟩
    | upg ph =>
      have hown : nodeLive s a.qnode = true := own_live hI hi (Or.inr (by rw [hloc]; rfl))
      cases ph with
      | load0 =>
        simp only [step, atom, ghostAtom, hi, hloc]
        rw [touch_live s a.qnode hown]
        by_cases hs : (rd s (.node a.qnode) &&& P.C.kSMask) = P.C.kNoLocks
        · rw [if_pos hs]; dsimp only
          exact ⟨case_hk_load0_pass hW hI hi .upg (by decide) hloc (Or.inr hs), by
            refine xmodes_setAgent hX.xm hi rfl ?_
            intro m' h; rcases h with h | h <;> (split at h <;> cases h)⟩
        · rw [if_neg hs]; dsimp only; rw [← hloc]
          exact ⟨case_hk_load0_wait (k := .upg) hI hi hloc _, by xmset hX hi⟩
      | lockLoad =>
        simp only [step, atom, ghostAtom, hi, hloc]
        refine ⟨case_hk_lockLoad hW hI hi .upg .lockLoad (Or.inl rfl) hloc, ?_⟩
        refine xmodes_setAgent hX.xm hi rfl ?_
        intro m' h; unfold tailLoop at h; rcases h with h | h <;> (split at h <;> cases h)
      | cas =>
        simp only [step, atom, ghostAtom, hi, hloc]
        by_cases hl : rd s (.lock a.lk) = a.cur
        · simp only [hl, ↓reduceIte]
          exact ⟨case_upg_cas hW hI hi hloc hl, by xmset hX hi⟩
        · simp only [hl, ↓reduceIte]
          refine ⟨case_hk_lockLoad hW hI hi .upg .cas (Or.inr rfl) hloc, ?_⟩
          refine xmodes_setAgent hX.xm hi rfl ?_
          intro m' h; unfold tailLoop at h; rcases h with h | h <;> (split at h <;> cases h)
      | spinNext =>
        simp only [step, atom, ghostAtom, hi, hloc]
        rw [touch_live s a.qnode hown]
        refine ⟨case_hk_spinNext hW hI hi .upg hloc, ?_⟩
        refine xmodes_setAgent hX.xm hi rfl ?_
        intro m' h; rcases h with h | h <;> (split at h <;> cases h)
      | handoff =>
        simp only [step, atom, ghostAtom, hi, hloc]
        rw [touch_live s _ (handoff_live_H (W := W) hI hi .upg hloc)]
        exact ⟨case_upg_handoff hW hI hi hloc, by xmset hX hi⟩
    | dng ph =>
      have hown : nodeLive s a.qnode = true := own_live hI hi (Or.inr (by rw [hloc]; rfl))
      cases ph with
      | load0 =>
        simp only [step, atom, ghostAtom, hi, hloc]
        rw [touch_live s a.qnode hown]
        refine ⟨case_dng_load0 hW hI hi hloc, ?_⟩
        refine xmodes_setAgent hX.xm hi rfl ?_
        intro m' h; rcases h with h | h <;> (split at h <;> cases h)
      | lockLoad =>
        simp only [step, atom, ghostAtom, hi, hloc]
        refine ⟨case_hk_lockLoad hW hI hi .dng .lockLoad (Or.inl rfl) hloc, ?_⟩
        refine xmodes_setAgent hX.xm hi rfl ?_
        intro m' h; unfold tailLoop at h; rcases h with h | h <;> (split at h <;> cases h)
      | cas =>
        simp only [step, atom, ghostAtom, hi, hloc]
        by_cases hl : rd s (.lock a.lk) = a.cur
        · simp only [hl, ↓reduceIte]
          exact ⟨case_dng_cas hW hI hi hloc hl, by xmset hX hi⟩
        · simp only [hl, ↓reduceIte]
          refine ⟨case_hk_lockLoad hW hI hi .dng .cas (Or.inr rfl) hloc, ?_⟩
          refine xmodes_setAgent hX.xm hi rfl ?_
          intro m' h; unfold tailLoop at h; rcases h with h | h <;> (split at h <;> cases h)
      | spinNext =>
        simp only [step, atom, ghostAtom, hi, hloc]
        rw [touch_live s a.qnode hown]
        refine ⟨case_hk_spinNext hW hI hi .dng hloc, ?_⟩
        refine xmodes_setAgent hX.xm hi rfl ?_
        intro m' h; rcases h with h | h <;> (split at h <;> cases h)
      | handoff =>
        simp only [step, atom, ghostAtom, hi, hloc]
        rw [touch_live s _ (handoff_live_H (W := W) hI hi .dng hloc)]
        exact ⟨case_dng_handoff hW hI hi hloc, by xmset hX hi⟩


end CppUtil.Mcs
