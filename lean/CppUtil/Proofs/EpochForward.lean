/-
  ForwardGlobalEpoch returns: the coordinator's part of the epoch protocol is a bounded straight-line loop — `rem` steps are
  left in the running forward, every coordinator step uses up at least one, and no step of another thread touches the
  coordinator's state.  Hence a call completes within 2n + 3 coordinator steps under every interleaving.
-/
import CppUtil.Proofs.EpochProtoInv

namespace CppUtil.EpochProto
open CppUtil CppUtil.Epoch

/-- coordinator steps left in the running forward -/
def rem (n : Nat) : CPc → Nat
  | .idle => 0
  | .scanChk _ i _ => 2 * (n - i) + 2
  | .scanLoad _ i _ => 2 * (n - i) + 1
  | .storeG _ _ => 2
  | .storeM _ _ => 1

def ScanOK (n : Nat) (c : CPc) : Prop :=
  match c with
  | .scanChk _ i _ => i < n
  | .scanLoad _ i _ => i < n
  | _ => True

theorem rem_afterScan (n cur i : Nat) (coll : List Nat) (hi : i ≤ n) :
    ScanOK n (afterScan n cur i coll) ∧ rem n (afterScan n cur i coll) ≤ 2 * (n - i) + 2 := by
  unfold afterScan
  split
  · exact ⟨by assumption, Nat.le_refl _⟩
  · exact ⟨trivial, by simp [rem]⟩

def isFwd : Act → Bool
  | .fwd => true
  | _ => false

/-- a step that is not the coordinator's leaves the coordinator and the count of forwards alone -/
theorem other_step_c {n : Nat} {ef : Bool} {s s' : St} {a : Act} (ha : isFwd a = false) (h : step n ef s a = some s') :
    s'.c = s.c ∧ s'.fwds = s.fwds := by
  cases a with
  | fwd => cases ha
  | id a =>
    have key : ∀ a', idStep n ef s a' = some s' → s'.c = s.c ∧ s'.fwds = s.fwds := by
      intro a' h'
      unfold idStep at h'
      split at h'
      · cases h'; exact ⟨rfl, rfl⟩
      · cases h'
    cases a with
    | beginExit t =>
      simp only [step] at h
      split at h
      · exact key _ h
      · cases h
    | begin t st => simp only [step] at h; exact key _ h
    | atom t => simp only [step] at h; exact key _ h
  | create t =>
    simp only [step] at h
    split at h
    · split at h
      · cases h; exact ⟨rfl, rfl⟩
      · cases h
    · cases h
  | wstep t =>
    simp only [step] at h
    split at h
    · cases h
    · split at h <;> cases h <;> exact ⟨rfl, rfl⟩

/-- a coordinator step inside a forward uses up at least one of the remaining steps; the last one completes the forward -/
theorem fwd_step_rem {n : Nat} {ef : Bool} {s s' : St} (h : step n ef s .fwd = some s') (hok : ScanOK n s.c)
    (hc : s.c ≠ .idle) :
    ScanOK n s'.c ∧ rem n s'.c + 1 ≤ rem n s.c ∧
    ((s'.c = .idle ∧ s'.fwds = s.fwds + 1) ∨ (s'.c ≠ .idle ∧ s'.fwds = s.fwds)) := by
  simp only [step] at h
  split at h
  · rename_i h0; exact absurd h0 hc
  · rename_i cur i coll hcc
    cases h
    rw [hcc] at hok
    have hi : i < n := hok
    show ScanOK n (if expired s i then afterScan n cur (i + 1) coll else .scanLoad cur i coll) ∧
      rem n (if expired s i then afterScan n cur (i + 1) coll else .scanLoad cur i coll) + 1 ≤ rem n s.c ∧ _
    rw [hcc]
    split
    · obtain ⟨h1, h2⟩ := rem_afterScan n cur (i + 1) coll (by omega)
      have hr : rem n (.scanChk cur i coll) = 2 * (n - i) + 2 := rfl
      refine ⟨h1, by rw [hr]; omega, Or.inr ⟨?_, rfl⟩⟩
      unfold afterScan; split <;> simp
    · have hr : rem n (.scanChk cur i coll) = 2 * (n - i) + 2 := rfl
      have hr2 : rem n (.scanLoad cur i coll) = 2 * (n - i) + 1 := rfl
      exact ⟨hi, by rw [hr, hr2]; omega, Or.inr ⟨by simp, rfl⟩⟩
  · rename_i cur i coll hcc
    cases h
    rw [hcc] at hok
    have hi : i < n := hok
    obtain ⟨h1, h2⟩ := rem_afterScan n cur (i + 1)
      (if s.E.getD i sizeMax < sizeMax then coll ++ [s.E.getD i sizeMax] else coll) (by omega)
    refine ⟨h1, ?_, Or.inr ⟨?_, rfl⟩⟩
    · show rem n (afterScan n cur (i + 1) _) + 1 ≤ rem n s.c
      rw [hcc]
      have hr : rem n (.scanLoad cur i coll) = 2 * (n - i) + 1 := rfl
      rw [hr]; omega
    · show afterScan n cur (i + 1) _ ≠ .idle
      unfold afterScan; split <;> simp
  · rename_i cur list hcc
    cases h
    refine ⟨trivial, by rw [hcc]; simp [rem], Or.inr ⟨by simp, rfl⟩⟩
  · rename_i cur list hcc
    cases h
    exact ⟨trivial, by rw [hcc]; simp [rem], Or.inl ⟨rfl, rfl⟩⟩


theorem fwds_mono {n : Nat} {ef : Bool} {s s' : St} {a : Act} (h : step n ef s a = some s') : s.fwds ≤ s'.fwds := by
  by_cases ha : isFwd a = true
  · cases a with
    | fwd =>
      simp only [step] at h
      split at h <;> cases h <;> simp
    | _ => cases ha
  · rw [(other_step_c (by simpa using ha) h).2]; exact Nat.le_refl _

theorem run_fwds_mono {n : Nat} {ef : Bool} : ∀ (acts : List Act) (s s' : St), run n ef s acts = some s' → s.fwds ≤ s'.fwds
  | [], s, s', h => by simp only [run] at h; cases h; exact Nat.le_refl _
  | a :: as, s, s', h => by
    simp only [run] at h
    split at h
    · rename_i s1 hs
      exact Nat.le_trans (fwds_mono hs) (run_fwds_mono as s1 s' h)
    · cases h

/-- once inside a forward, `rem` further coordinator steps — however many steps of other threads lie in between —
    complete it -/
theorem forward_completes {n : Nat} {ef : Bool} : ∀ (acts : List Act) (s s' : St), run n ef s acts = some s' →
    ScanOK n s.c → s.c ≠ .idle → rem n s.c ≤ acts.countP isFwd → s.fwds + 1 ≤ s'.fwds
  | [], s, s', h, _, hc, hcnt => by
    exfalso
    simp only [List.countP_nil] at hcnt
    cases hcc : s.c <;> rw [hcc] at hcnt hc <;> simp [rem] at hcnt hc
  | a :: as, s, s', h, hok, hc, hcnt => by
    simp only [run] at h
    split at h
    · rename_i s1 hs
      by_cases ha : isFwd a = true
      · have hfa : a = .fwd := by cases a <;> first | rfl | cases ha
        subst hfa
        obtain ⟨hok1, hrem, hfin⟩ := fwd_step_rem hs hok hc
        rcases hfin with ⟨_, hf⟩ | ⟨hc1, hf⟩
        · have := run_fwds_mono as s1 s' h
          omega
        · have hcnt1 : rem n s1.c ≤ as.countP isFwd := by
            simp only [List.countP_cons, ha, ↓reduceIte] at hcnt; omega
          have := forward_completes as s1 s' h hok1 hc1 hcnt1
          omega
      · have hna : isFwd a = false := by simpa using ha
        obtain ⟨hc1, hf1⟩ := other_step_c hna hs
        have hcnt1 : rem n s1.c ≤ as.countP isFwd := by
          simp only [List.countP_cons, hna, Bool.false_eq_true, ↓reduceIte] at hcnt; rw [hc1]; omega
        have := forward_completes as s1 s' h (by rw [hc1]; exact hok) (by rw [hc1]; exact hc) hcnt1
        omega
    · cases h

/-- **ForwardGlobalEpoch returns**: a call completes within `2n + 3` atomic steps of the coordinator, whatever the workers
    do in between (the coordinator never waits for anybody) -/
theorem forward_returns {n : Nat} (hn : 0 < n) {ef : Bool} (acts : List Act) (s s' : St) (h : run n ef s acts = some s')
    (hc : s.c = .idle) (hcnt : 2 * n + 3 ≤ acts.countP isFwd) : s.fwds + 1 ≤ s'.fwds := by
  induction acts generalizing s with
  | nil => simp at hcnt
  | cons a as ih =>
    simp only [run] at h
    split at h
    · rename_i s1 hs
      by_cases ha : isFwd a = true
      · have hfa : a = .fwd := by cases a <;> first | rfl | cases ha
        subst hfa
        have hs' := hs
        simp only [step, hc] at hs'
        cases hs'
        have hcs : afterScan n s.G 0 [s.G + 1, s.G] = .scanChk s.G 0 [s.G + 1, s.G] := by
          unfold afterScan; rw [if_pos hn]
        have hcnt1 : rem n (afterScan n s.G 0 [s.G + 1, s.G]) ≤ as.countP isFwd := by
          rw [hcs]
          simp only [List.countP_cons, ha, ↓reduceIte] at hcnt
          show 2 * (n - 0) + 2 ≤ _
          omega
        have := forward_completes as _ s' h (by show ScanOK n (afterScan n s.G 0 [s.G + 1, s.G]); rw [hcs]; exact hn)
          (by show afterScan n s.G 0 [s.G + 1, s.G] ≠ .idle; rw [hcs]; simp) hcnt1
        exact this
      · have hna : isFwd a = false := by simpa using ha
        obtain ⟨hc1, hf1⟩ := other_step_c hna hs
        have hcnt1 : 2 * n + 3 ≤ as.countP isFwd := by
          simp only [List.countP_cons, hna, Bool.false_eq_true, ↓reduceIte] at hcnt; omega
        have := ih s1 h (by rw [hc1]; exact hc) hcnt1
        omega
    · cases h

end CppUtil.EpochProto
