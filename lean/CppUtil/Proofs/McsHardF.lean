/-
  MCSLock proof, word-writing steps, part F: the instances of the flag-change lemmas — successful CAS /
  hand-over of UpgradeToX, DowngradeToSIX, and of UnlockX / UnlockSIX when shared members remain.
-/
import CppUtil.Proofs.McsHardE

namespace CppUtil.Mcs
open CppUtil

variable {W : Nat → Bool → Bool → Nat → Word} {P : Params} {pb cb : Nat} {s : St} {Q : Nat → List Grp}
variable {i : Nat} {a : Agent}

@[simp] theorem six_beq_x : (Mode.SIX == Mode.X) = false := by decide
@[simp] theorem x_beq_six : (Mode.X == Mode.SIX) = false := by decide
@[simp] theorem x_beq_x : (Mode.X == Mode.X) = true := by decide
@[simp] theorem six_beq_six : (Mode.SIX == Mode.SIX) = true := by decide

/-- a head of the first group that finds itself in the lock word: its group is the tail and the word is
    its flags -/
theorem tail_word (hW : WordSpecs P.C pb cb W) (hI : Inv W P pb cb s Q) (hi : s.agents[i]? = some a)
    {G : Grp} (hfirst : (Q a.lk)[0]? = some G) (hn : G.node = a.qnode)
    (hcur : lockW s a.lk = a.cur) (hptr : ptrOf P a.cur = a.qnode) :
    (Q a.lk).getLast? = some G ∧
    a.cur = W G.node (hmode s G == some .X) (hmode s G == some .SIX) (cnt s a.lk G.node) := by
  have hwf := hI.wf a (List.mem_of_getElem? hi)
  have hL := hI.locks a.lk hwf.2.1
  obtain ⟨Gk, hk⟩ := getLast?_of_idx hfirst
  obtain ⟨hw, hp, _⟩ := LockInv.lock_ptr hW hI hwf.2.1 hk
  have hnode : Gk.node = G.node := by rw [← hp, hcur, hptr, hn]
  obtain ⟨_, hGG⟩ := idx_unique hL.nodup (getLast?_idx hk) hfirst hnode
  subst hGG
  exact ⟨hk, by rw [← hcur, hw]⟩

/-- the node word of the linked successor of the first group: the first group's flags -/
theorem succ_word (hI : Inv W P pb cb s Q) (hℓ : a.lk < s.locks.length)
    {G G1 : Grp} (hfirst : (Q a.lk)[0]? = some G) (h1 : (Q a.lk)[1]? = some G1) (hl1 : linked s G1 = true) :
    nodeW s G1.node = W (linkOf s (Q a.lk) 1) (hmode s G == some .X) (hmode s G == some .SIX) (cnt s a.lk G.node) := by
  have hL := hI.locks a.lk hℓ
  rw [hL.nodeWord 1 G1 h1]
  unfold expNode
  rw [linked_published G1 hl1]
  simp only [↓reduceIte, Nat.succ_ne_zero, Nat.sub_self, hfirst, Nat.one_ne_zero]
  rfl

/-- the common part of the `FlagChange` record for a head in one of the release / conversion phases -/
theorem flagChange_of (hI : Inv W P pb cb s Q) (hi : s.agents[i]? = some a) (k : HK) (ph : Ph)
    (hph : ph ≠ .load0) (hloc : a.loc = k.mk ph) (l' : Loc)
    (hsm : l'.sMem = false) (hpub : l'.isPub = false) (hlnk : l'.isLink = false) (hpriv : l'.priv = false)
    (hidle : l' ≠ .idle) (hS : l'.headMode ≠ some .S)
    (hOK : l'.headMode.isSome → ∀ s'' b, b.loc = l' → HeadOK W P s'' a.lk (Q a.lk) 0 b)
    (hdone : l'.headMode = none → l' = .done ∧ ∀ G, (Q a.lk)[0]? = some G → G.head = some i → 0 < cnt s a.lk G.node) :
    ∃ G, FlagChange W P s Q i a { a with loc := l' } G ∧ G.node = a.qnode ∧
      PhOK P s (Q a.lk) 0 a ph ∧ hmode s G = some k.mode := by
  have hwf := hI.wf a (List.mem_of_getElem? hi)
  have hlive0 : a.loc.headMode.isSome := by rw [hloc, HK.headMode]; rfl
  obtain ⟨j, G, hj, hh, hn, hho⟩ := head_group (W := W) hI hi hlive0
  rw [headOK_mk k ph hph _ _ _ _ hloc] at hho
  obtain ⟨rfl, hpo⟩ := hho
  refine ⟨G, ?_, hn, hpo, by rw [hmode_eq_of_head hh hi, hloc, HK.headMode]⟩
  exact { hi := hi, live := hlive0, notPub := by rw [hloc, HK.isPub], notLink := by rw [hloc, HK.isLink],
          first := hj, head := hh, lk := rfl, qn := rfl, tid := hwf.1, sm := hsm, pub' := hpub, link' := hlnk,
          priv' := hpriv, idle' := hidle, notS := hS,
          headOK := fun h s'' => hOK h s'' _ rfl,
          done := fun h => ⟨(hdone h).1, (hdone h).2 G hj hh⟩ }

/-! ### UpgradeToX / DowngradeToSIX -/

theorem case_upg_cas (hW : WordSpecs P.C pb cb W) (hI : Inv W P pb cb s Q) (hi : s.agents[i]? = some a)
    (hloc : a.loc = .upg .cas) (hcur : lockW s a.lk = a.cur) :
    Inv W P pb cb (setAgent (wr s (.lock a.lk) (a.cur ^^^ P.C.kXMask)) i { a with loc := .held .X }) Q := by
  obtain ⟨G, hF, hn, hpo, hm⟩ := flagChange_of (W := W) hI hi .upg .cas (by simp) hloc (.held .X)
    rfl rfl rfl rfl (by simp) (by simp [Loc.headMode])
    (fun _ s'' b hb => by simp [HeadOK, hb]) (fun h => by simp [Loc.headMode] at h)
  obtain ⟨hlast, hw⟩ := tail_word hW hI hi hF.first hn hcur hpo
  apply flag_change_lock hW hI hF hlast
  rw [hw, hm]
  have := hW.xorXMask G.node false true (cnt s a.lk G.node) (hI.node_lt (mem_of_idx hF.first))
    (by have := hI.cnt_lt a.lk G.node; omega)
  simpa [Loc.headMode, HK.mode] using this

theorem case_dng_cas (hW : WordSpecs P.C pb cb W) (hI : Inv W P pb cb s Q) (hi : s.agents[i]? = some a)
    (hloc : a.loc = .dng .cas) (hcur : lockW s a.lk = a.cur) :
    Inv W P pb cb (setAgent (wr s (.lock a.lk) (a.cur ^^^ P.C.kXMask)) i { a with loc := .held .SIX }) Q := by
  obtain ⟨G, hF, hn, hpo, hm⟩ := flagChange_of (W := W) hI hi .dng .cas (by simp) hloc (.held .SIX)
    rfl rfl rfl rfl (by simp) (by simp [Loc.headMode])
    (fun _ s'' b hb => by simp [HeadOK, hb, E2]) (fun h => by simp [Loc.headMode] at h)
  obtain ⟨hlast, hw⟩ := tail_word hW hI hi hF.first hn hcur hpo
  apply flag_change_lock hW hI hF hlast
  rw [hw, hm]
  have := hW.xorXMask G.node true false (cnt s a.lk G.node) (hI.node_lt (mem_of_idx hF.first))
    (by have := hI.cnt_lt a.lk G.node; omega)
  simpa [Loc.headMode, HK.mode] using this

theorem case_upg_handoff (hW : WordSpecs P.C pb cb W) (hI : Inv W P pb cb s Q) (hi : s.agents[i]? = some a)
    (hloc : a.loc = .upg .handoff) :
    Inv W P pb cb (setAgent (wr s (.node (ptrOf P a.nxt)) (nodeW s (ptrOf P a.nxt) ^^^ P.C.kXMask)) i
      { a with loc := .held .X }) Q := by
  have hwf := hI.wf a (List.mem_of_getElem? hi)
  obtain ⟨G, hF, hn, hpo, hm⟩ := flagChange_of (W := W) hI hi .upg .handoff (by simp) hloc (.held .X)
    rfl rfl rfl rfl (by simp) (by simp [Loc.headMode])
    (fun _ s'' b hb => by simp [HeadOK, hb]) (fun h => by simp [Loc.headMode] at h)
  obtain ⟨G1, h1, hl1, hp1⟩ := hpo
  rw [hp1]
  apply flag_change_node hW hI hF h1 hl1
  rw [succ_word hI hwf.2.1 hF.first h1 hl1, hm]
  have := hW.xorXMask (linkOf s (Q a.lk) 1) false true (cnt s a.lk G.node) (hI.link_lt a.lk 1)
    (by have := hI.cnt_lt a.lk G.node; omega)
  simpa [Loc.headMode, HK.mode] using this

theorem case_dng_handoff (hW : WordSpecs P.C pb cb W) (hI : Inv W P pb cb s Q) (hi : s.agents[i]? = some a)
    (hloc : a.loc = .dng .handoff) :
    Inv W P pb cb (setAgent (wr s (.node (ptrOf P a.nxt)) (nodeW s (ptrOf P a.nxt) ^^^ P.C.kXMask)) i
      { a with loc := .held .SIX }) Q := by
  have hwf := hI.wf a (List.mem_of_getElem? hi)
  obtain ⟨G, hF, hn, hpo, hm⟩ := flagChange_of (W := W) hI hi .dng .handoff (by simp) hloc (.held .SIX)
    rfl rfl rfl rfl (by simp) (by simp [Loc.headMode])
    (fun _ s'' b hb => by simp [HeadOK, hb, E2]) (fun h => by simp [Loc.headMode] at h)
  obtain ⟨G1, h1, hl1, hp1⟩ := hpo
  rw [hp1]
  apply flag_change_node hW hI hF h1 hl1
  rw [succ_word hI hwf.2.1 hF.first h1 hl1, hm]
  have := hW.xorXMask (linkOf s (Q a.lk) 1) true false (cnt s a.lk G.node) (hI.link_lt a.lk 1)
    (by have := hI.cnt_lt a.lk G.node; omega)
  simpa [Loc.headMode, HK.mode] using this

/-! ### UnlockX / UnlockSIX while shared members of the group remain -/

theorem first_node (hI : Inv W P pb cb s Q) (hi : s.agents[i]? = some a) (hlive : a.loc.headMode.isSome)
    {G : Grp} (hj : (Q a.lk)[0]? = some G) (hh : G.head = some i) : G.node = a.qnode := by
  have hwf := hI.wf a (List.mem_of_getElem? hi)
  have hl : (hmode s G).isSome := by rw [hmode_eq_of_head hh hi]; exact hlive
  obtain ⟨b, hb, _, hb2, _, _⟩ := (hI.locks a.lk hwf.2.1).heads 0 G i hj hh hl
  rw [hi] at hb; cases hb; exact hb2.symm

def HK.flag (P : Params) : HK → Word
  | .relX => P.C.kXLock
  | .relSIX => P.C.kSIXLock
  | .upg => P.C.kSIXLock
  | .dng => P.C.kXLock

theorem case_rel_cas_dec (hW : WordSpecs P.C pb cb W) (hI : Inv W P pb cb s Q) (hi : s.agents[i]? = some a)
    (k : HK) (hk : k = .relX ∨ k = .relSIX) (hloc : a.loc = k.mk .cas) (hcur : lockW s a.lk = a.cur)
    (hdec : (a.cur &&& P.C.kSMask) ≠ 0) :
    Inv W P pb cb (setAgent (wr s (.lock a.lk) (a.cur ^^^ k.flag P)) i { a with loc := .done }) Q := by
  have hwf := hI.wf a (List.mem_of_getElem? hi)
  have hlive0 : a.loc.headMode.isSome := by rw [hloc, HK.headMode]; rfl
  -- the word and the count
  have hword : ∀ G, (Q a.lk)[0]? = some G → G.head = some i →
      (Q a.lk).getLast? = some G ∧ a.cur = W G.node (k.mode == .X) (k.mode == .SIX) (cnt s a.lk G.node) := by
    intro G hj hh
    have hn := first_node hI hi hlive0 hj hh
    obtain ⟨j0, G0, hj0, hh0, _, hho⟩ := head_group (W := W) hI hi hlive0
    rw [headOK_mk k .cas (by simp) _ _ _ _ hloc] at hho
    obtain ⟨rfl, hpo⟩ := hho
    obtain ⟨hlast, hw⟩ := tail_word hW hI hi hj hn hcur hpo
    refine ⟨hlast, ?_⟩
    rw [hw, hmode_eq_of_head hh hi, hloc, HK.headMode]; simp
  obtain ⟨G, hF, hn, hpo, hm⟩ := flagChange_of (W := W) hI hi k .cas (by simp) hloc .done
    rfl rfl rfl rfl (by simp) (by simp [Loc.headMode])
    (fun h => by simp [Loc.headMode] at h)
    (fun _ => ⟨rfl, fun G hj hh => by
      obtain ⟨_, hw⟩ := hword G hj hh
      rw [hw] at hdec
      have hc := hW.smask G.node (k.mode == .X) (k.mode == .SIX) (cnt s a.lk G.node)
        (hI.node_lt (mem_of_idx hj)) (by have := hI.cnt_lt a.lk G.node; omega)
      rcases Nat.eq_zero_or_pos (cnt s a.lk G.node) with h0 | hpos
      · exact absurd (hc.mpr h0) hdec
      · exact hpos⟩)
  obtain ⟨hlast, hw⟩ := hword G hF.first hF.head
  apply flag_change_lock hW hI hF hlast
  rw [hw]
  have hnl := hI.node_lt (mem_of_idx hF.first)
  have hcl : cnt s a.lk G.node < cb := by have := hI.cnt_lt a.lk G.node; omega
  rcases hk with rfl | rfl
  · have := hW.xorX G.node true false (cnt s a.lk G.node) hnl hcl
    simpa [Loc.headMode, HK.mode, HK.flag] using this
  · have := hW.xorSIX G.node false true (cnt s a.lk G.node) hnl hcl
    simpa [Loc.headMode, HK.mode, HK.flag] using this

theorem case_rel_handoff_keep (hW : WordSpecs P.C pb cb W) (hI : Inv W P pb cb s Q) (hi : s.agents[i]? = some a)
    (k : HK) (hk : k = .relX ∨ k = .relSIX) (hloc : a.loc = k.mk .handoff)
    (hnl : (nodeW s (ptrOf P a.nxt) &&& P.C.kSMask) ≠ P.C.kNoLocks) :
    Inv W P pb cb (setAgent (wr s (.node (ptrOf P a.nxt)) (nodeW s (ptrOf P a.nxt) ^^^ k.flag P)) i
      { a with loc := .done }) Q := by
  have hwf := hI.wf a (List.mem_of_getElem? hi)
  have hlive0 : a.loc.headMode.isSome := by rw [hloc, HK.headMode]; rfl
  obtain ⟨j0, G0, hj0, hh0, hn0, hho⟩ := head_group (W := W) hI hi hlive0
  rw [headOK_mk k .handoff (by simp) _ _ _ _ hloc] at hho
  obtain ⟨rfl, G1, h1, hl1, hp1⟩ := hho
  have hm0 : hmode s G0 = some k.mode := by rw [hmode_eq_of_head hh0 hi, hloc, HK.headMode]
  have hsw := succ_word (W := W) hI hwf.2.1 hj0 h1 hl1
  rw [hm0] at hsw
  have hcpos : 0 < cnt s a.lk G0.node := by
    rw [hp1, hsw, hW.noLocks] at hnl
    have hc := hW.smask (linkOf s (Q a.lk) 1) (some k.mode == some .X) (some k.mode == some .SIX) (cnt s a.lk G0.node)
      (hI.link_lt a.lk 1) (by have := hI.cnt_lt a.lk G0.node; omega)
    rcases Nat.eq_zero_or_pos (cnt s a.lk G0.node) with h0 | hpos
    · exact absurd (hc.mpr h0) hnl
    · exact hpos
  obtain ⟨G, hF, hn, hpo, hm⟩ := flagChange_of (W := W) hI hi k .handoff (by simp) hloc .done
    rfl rfl rfl rfl (by simp) (by simp [Loc.headMode])
    (fun h => by simp [Loc.headMode] at h)
    (fun _ => ⟨rfl, fun G hj hh => by
      rw [hj0] at hj; cases hj; exact hcpos⟩)
  have hGG : G = G0 := by have := hF.first; rw [hj0] at this; exact (Option.some.inj this).symm
  subst hGG
  rw [hp1]
  apply flag_change_node hW hI hF h1 hl1
  rw [hsw]
  have hll := hI.link_lt a.lk 1
  have hcl : cnt s a.lk G.node < cb := by have := hI.cnt_lt a.lk G.node; omega
  rcases hk with rfl | rfl
  · have := hW.xorX (linkOf s (Q a.lk) 1) true false (cnt s a.lk G.node) hll hcl
    simpa [Loc.headMode, HK.mode, HK.flag] using this
  · have := hW.xorSIX (linkOf s (Q a.lk) 1) false true (cnt s a.lk G.node) hll hcl
    simpa [Loc.headMode, HK.mode, HK.flag] using this

end CppUtil.Mcs
