/-
  MCSLock proof, word-writing steps, part I: assembling `Inv` from its parts; the tail exchange of
  LockSIX / LockX (a new group is appended to the queue).
-/
import CppUtil.Proofs.McsOwn

namespace CppUtil.Mcs
open CppUtil

variable {W : Nat → Bool → Bool → Nat → Word} {P : Params} {pb cb : Nat} {s : St} {Q : Nat → List Grp}
variable {i : Nat} {a : Agent}

theorem inv_assemble {s' : St} {Q' : Nat → List Grp}
    (huaf : s'.uaf = 0) (hcapN : s'.nodes.length < pb) (hcapA : s'.agents.length + 1 < cb)
    (hwf : ∀ b ∈ s'.agents, b.tid < s'.tls.length ∧ b.lk < s'.locks.length ∧ b.loc ≠ .idle ∧ b.loc.headMode ≠ some .S)
    (hout : ∀ ℓ, s'.locks.length ≤ ℓ → Q' ℓ = [])
    (hlocks : ∀ ℓ, ℓ < s'.locks.length → LockInv W P s' ℓ (Q' ℓ))
    (hown : OwnInv s' Q')
    (hprivW : ∀ (k : Nat) (b : Agent), s'.agents[k]? = some b →
      (b.loc = .sLoad ∨ b.loc = .sCas → nodeW s' b.qnode = 0) ∧
      (∀ m, b.loc = .xXchg m → nodeW s' b.qnode = W 0 true false 0)) :
    Inv W P pb cb s' Q' := by
  have hc := hown.clauses
  exact { uaf := huaf, capN := hcapN, capA := hcapA, wf := hwf, outside := hout, locks := hlocks,
          privLive := hc.privLive, privUniq := hc.privUniq, privQ := hc.privQ, privC := hc.privC, privW := hprivW,
          cacheLive := hc.cacheLive, cacheUniq := hc.cacheUniq, cacheQ := hc.cacheQ, grpLive := hc.grpLive,
          grpLocks := hc.grpLocks }

/-! ### list facts for a queue that grows at the end -/

theorem getElem?_append_lt {q : List Grp} {Gn : Grp} {j : Nat} (h : j < q.length) : (q ++ [Gn])[j]? = q[j]? := by
  rw [List.getElem?_append_left h]

theorem getElem?_append_len {q : List Grp} {Gn : Grp} : (q ++ [Gn])[q.length]? = some Gn := by
  simp

theorem getElem?_append_cases {q : List Grp} {Gn G : Grp} {j : Nat} (h : (q ++ [Gn])[j]? = some G) :
    (j < q.length ∧ q[j]? = some G) ∨ (j = q.length ∧ G = Gn) := by
  rcases Nat.lt_or_ge j q.length with hlt | hge
  · rw [getElem?_append_lt hlt] at h; exact Or.inl ⟨hlt, h⟩
  · have hj := getElem?_lt' h
    simp only [List.length_append, List.length_cons, List.length_nil] at hj
    have : j = q.length := by omega
    subst this
    rw [getElem?_append_len] at h
    exact Or.inr ⟨rfl, (Option.some.inj h).symm⟩

section
variable {s' : St} {q : List Grp} {Gn : Grp}

/-- what is needed about the old groups when a group is appended and the state changes -/
structure AppendKeep (s s' : St) (q : List Grp) : Prop where
  hmode : ∀ G ∈ q, hmode s' G = hmode s G
  linked : ∀ G ∈ q, linked s' G = linked s G
  published : ∀ G ∈ q, published s' G = published s G

theorem PhOK_append (hK : AppendKeep s s' q) (j : Nat) (b : Agent) (ph : Ph) (hj : j < q.length)
    (h : PhOK P s q j b ph) : PhOK P s' (q ++ [Gn]) j b ph := by
  cases ph with
  | load0 => trivial
  | lockLoad => trivial
  | cas => exact h
  | spinNext =>
    show j + 1 < (q ++ [Gn]).length
    have : j + 1 < q.length := h
    simp; omega
  | handoff =>
    obtain ⟨G', h1, h2, h3⟩ := h
    have hlt := getElem?_lt' h1
    exact ⟨G', by rw [getElem?_append_lt hlt]; exact h1, by rw [hK.linked G' (mem_of_idx h1)]; exact h2, h3⟩

theorem E2_append (hK : AppendKeep s s' q) (j : Nat) (hj : j < q.length) (h : E2 s q j) : E2 s' (q ++ [Gn]) j := by
  rcases h with h0 | ⟨h1, G0, h2, h3⟩
  · exact Or.inl h0
  · have hlt := getElem?_lt' h2
    exact Or.inr ⟨h1, G0, by rw [getElem?_append_lt hlt]; exact h2, by rw [hK.hmode G0 (mem_of_idx h2)]; exact h3⟩

theorem MemOK_append (hK : AppendKeep s s' q) (j : Nat) (G : Grp) (hG : q[j]? = some G) (b : Agent)
    (hm : MemOK P s q j G b) : MemOK P s' (q ++ [Gn]) j G b := by
  have hj := getElem?_lt' hG
  unfold MemOK at hm ⊢
  split
  · rename_i heq; simp only [heq] at hm; exact hm
  · rename_i heq; simp only [heq] at hm
    show j + 1 < (q ++ [Gn]).length
    simp; omega
  · rename_i heq; simp only [heq] at hm
    obtain ⟨G', h1, h2, h3⟩ := hm
    have hlt := getElem?_lt' h1
    exact ⟨G', by rw [getElem?_append_lt hlt]; exact h1, by rw [hK.linked G' (mem_of_idx h1)]; exact h2, h3⟩
  · rename_i heq; simp only [heq] at hm; rw [hK.hmode G (mem_of_idx hG)]; exact hm
  · rename_i heq; simp only [heq] at hm
    exact ⟨by rw [hK.hmode G (mem_of_idx hG)]; exact hm.1, PhOK_append hK j b _ hj hm.2⟩
  · trivial

theorem HeadOK_append {ℓ : Nat} (hK : AppendKeep s s' q) (j : Nat) (b : Agent) (hj : j < q.length)
    (hgw : ∀ Pg ∈ q, grpW W s' ℓ Pg Pg.node = grpW W s ℓ Pg Pg.node)
    (hm : HeadOK W P s ℓ q j b) : HeadOK W P s' ℓ (q ++ [Gn]) j b := by
  unfold HeadOK at hm ⊢
  split
  · rename_i m heq; simp only [heq] at hm
    refine ⟨hm.1, fun Pg hj0 hPg => ?_⟩
    have hlt : j - 1 < q.length := by omega
    rw [getElem?_append_lt hlt] at hPg
    rw [hgw Pg (mem_of_idx hPg)]; exact hm.2 Pg hj0 hPg
  · rename_i heq; simp only [heq] at hm
    obtain ⟨h0, Pg, hPg, hp⟩ := hm
    have hlt := getElem?_lt' hPg
    exact ⟨h0, Pg, by rw [getElem?_append_lt hlt]; exact hPg, hp⟩
  · trivial
  · rename_i heq; simp only [heq] at hm; exact E2_append hK j hj hm
  · rename_i m hne heq
    rw [heq] at hm
    cases m with
    | SIX => exact absurd rfl hne
    | S => exact hm
    | X => exact hm
  · rename_i heq; simp only [heq] at hm; exact E2_append hK j hj hm
  · rename_i m ph hne heq
    rw [heq] at hm
    cases m <;> cases ph <;> first
      | exact (hne rfl rfl).elim
      | exact ⟨hm.1, PhOK_append hK j b _ hj hm.2⟩
  · rename_i heq; simp only [heq] at hm; exact E2_append hK j hj hm
  · rename_i ph hne heq
    rw [heq] at hm
    cases ph <;> first
      | exact (hne rfl).elim
      | exact ⟨hm.1, PhOK_append hK j b _ hj hm.2⟩
  · rename_i heq; simp only [heq] at hm; exact ⟨hm.1, PhOK_append hK j b _ hj hm.2⟩
  · trivial
end

/-- no shared member uses a private node -/
theorem cnt_priv_zero (hI : Inv W P pb cb s Q) (hi : s.agents[i]? = some a) (hp : a.loc.priv = true) (ℓ : Nat)
    (hℓ : ℓ < s.locks.length) : cnt s ℓ a.qnode = 0 := by
  unfold cnt
  apply List.countP_eq_zero.mpr
  intro b hb hm
  simp only [isMem, Bool.and_eq_true, decide_eq_true_eq] at hm
  obtain ⟨k, hk⟩ := List.mem_iff_getElem?.mp hb
  obtain ⟨j, G, hj, hn, _⟩ := (hI.locks ℓ hℓ).mems k b hk hm.1.1 hm.2
  exact hI.privQ i a ℓ G hi hp (mem_of_idx hj) (by rw [hn, hm.1.2])

end CppUtil.Mcs
