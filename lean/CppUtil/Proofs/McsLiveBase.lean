/-
  MCSLock proof: every live queue node has an owner (no node is lost) — definition and the generic transfer
  lemmas.  With `OwnInv` (each owner's node is live, owners are unique) this gives the leak-freedom half of
  C12.
-/
import CppUtil.Proofs.McsHardL

namespace CppUtil.Mcs
open CppUtil

variable {W : Nat → Bool → Bool → Nat → Word} {P : Params} {pb cb : Nat} {s : St} {Q : Nat → List Grp}

def LiveOwned (s : St) (Q : Nat → List Grp) : Prop := ∀ k, nodeLive s k = true → ∃ o, Owns s Q k o

/-- generic transfer: liveness does not grow and every old owner has a successor -/
theorem liveOwned_of {s' : St} {Q' : Nat → List Grp} (h : LiveOwned s Q)
    (hlive : ∀ k, nodeLive s' k = true → nodeLive s k = true)
    (hown : ∀ k o, nodeLive s' k = true → Owns s Q k o → ∃ o', Owns s' Q' k o') : LiveOwned s' Q' := by
  intro k hk
  obtain ⟨o, ho⟩ := h k (hlive k hk)
  exact hown k o hk ho

/-- an agent changes but stays private / non-private with the same node; words may be written -/
theorem lo_keep {i : Nat} {a a' : Agent} {s0 : St} (h : LiveOwned s Q) (hi : s.agents[i]? = some a)
    (h0a : s0.agents = s.agents) (h0t : s0.tls = s.tls) (h0l : ∀ k, nodeLive s0 k = nodeLive s k)
    (hp : a.loc.priv = true → a'.loc.priv = true ∧ a'.qnode = a.qnode) : LiveOwned (setAgent s0 i a') Q := by
  apply liveOwned_of h
  · intro k hk; rw [nodeLive_setAgent, h0l] at hk; exact hk
  · intro k o _ ho
    have hag : (setAgent s0 i a').agents = s.agents.set i a' := by simp [h0a]
    cases o with
    | priv j =>
      obtain ⟨b, hb, hpb, hq⟩ := ho
      by_cases hj : j = i
      · subst hj
        rw [hi] at hb; cases hb
        exact ⟨.priv j, a', ag_eq hi hag, (hp hpb).1, by rw [(hp hpb).2]; exact hq⟩
      · exact ⟨.priv j, b, by rw [ag_ne hag hj]; exact hb, hpb, hq⟩
    | cache t => exact ⟨.cache t, by show (setAgent s0 i a').tls[t]? = _; rw [setAgent_tls, h0t]; exact ho⟩
    | grp ℓ => exact ⟨.grp ℓ, ho⟩

/-- the private node of agent `i` becomes the node of a new last / only group -/
theorem lo_enqueue {i : Nat} {a a' : Agent} {s0 : St} {q' : List Grp} (h : LiveOwned s Q)
    (hi : s.agents[i]? = some a) (h0a : s0.agents = s.agents) (h0t : s0.tls = s.tls)
    (h0l : ∀ k, nodeLive s0 k = nodeLive s k)
    (hq' : ∀ G ∈ Q a.lk, G ∈ q') (hnew : ∃ G ∈ q', G.node = a.qnode) :
    LiveOwned (setAgent s0 i a') (setQ Q a.lk q') := by
  apply liveOwned_of h
  · intro k hk; rw [nodeLive_setAgent, h0l] at hk; exact hk
  · intro k o _ ho
    have hag : (setAgent s0 i a').agents = s.agents.set i a' := by simp [h0a]
    cases o with
    | priv j =>
      obtain ⟨b, hb, hpb, hq⟩ := ho
      by_cases hj : j = i
      · subst hj
        rw [hi] at hb; cases hb
        obtain ⟨G, hG, hn⟩ := hnew
        exact ⟨.grp a.lk, G, by rw [setQ_same]; exact hG, by rw [hn]; exact hq⟩
      · exact ⟨.priv j, b, by rw [ag_ne hag hj]; exact hb, hpb, hq⟩
    | cache t => exact ⟨.cache t, by show (setAgent s0 i a').tls[t]? = _; rw [setAgent_tls, h0t]; exact ho⟩
    | grp ℓ =>
      obtain ⟨G, hG, hn⟩ := ho
      by_cases hl : ℓ = a.lk
      · subst hl; exact ⟨.grp a.lk, G, by rw [setQ_same]; exact hq' G hG, hn⟩
      · exact ⟨.grp ℓ, G, by rw [setQ_other _ _ _ _ hl]; exact hG, hn⟩

/-- a node goes to the cache of thread `t`; the node cached there before is freed -/
theorem lo_to_cache {i : Nat} {a a' : Agent} {s0 : St} {t kx : Nat} {Q' : Nat → List Grp} (hO : OwnInv s Q)
    (h : LiveOwned s Q) (hi : s.agents[i]? = some a) (h0a : s0.agents = s.agents) (h0t : s0.tls = s.tls)
    (h0l : ∀ k, nodeLive s0 k = nodeLive s k) (ht : t < s.tls.length)
    (ha' : a'.loc.priv = false)
    (hprivi : a.loc.priv = true → a.qnode = kx)
    (hgrp : ∀ ℓ G, G ∈ Q ℓ → G ∈ Q' ℓ ∨ G.node = kx) :
    LiveOwned (setAgent (cacheNode s0 t kx).1 i a') Q' := by
  have hag : (setAgent (cacheNode s0 t kx).1 i a').agents = s.agents.set i a' := by simp [cacheNode_agents, h0a]
  have htls : (setAgent (cacheNode s0 t kx).1 i a').tls = s.tls.set t (some kx) := by
    rw [setAgent_tls, cacheNode_tls, h0t]
  have hcached : (setAgent (cacheNode s0 t kx).1 i a').tls[t]? = some (some kx) := by
    rw [htls, List.getElem?_set_self ht]
  -- the old cached node is not live any more
  have hdead : ∀ old, s.tls[t]? = some (some old) → nodeLive (setAgent (cacheNode s0 t kx).1 i a') old = false := by
    intro old ho
    rw [nodeLive_setAgent]
    unfold nodeLive
    rw [cacheNode_nodes]
    have : s0.tls.getD t none = some old := by
      rw [h0t, List.getD_eq_getElem?_getD, ho]; rfl
    rw [this]
    have hlt : old - 1 < s0.nodes.length := by
      have := nodeLive_bound (hO.live old (.cache t) ho)
      have hl := h0l old
      have hb := nodeLive_bound (by rw [hl]; exact hO.live old (.cache t) ho : nodeLive s0 old = true)
      omega
    simp [List.getD_eq_getElem?_getD, List.getElem?_set_self hlt]
  intro k hk
  have hks : nodeLive s k = true := by
    rw [nodeLive_setAgent] at hk
    by_cases h1 : 1 ≤ k
    · by_cases hc : s.tls[t]? = some (some k)
      · have := hdead k hc; rw [nodeLive_setAgent] at this; rw [this] at hk; cases hk
      · have hold1 : ∀ old, s0.tls[t]? = some (some old) → 1 ≤ old := by
          intro old ho; rw [h0t] at ho; exact (nodeLive_bound (hO.live old (.cache t) ho)).1
        rw [(cacheNode_other s0 t kx k h1 (by rw [h0t]; exact hc) hold1).2, h0l] at hk
        exact hk
    · have : k = 0 := by omega
      subst this; simp [nodeLive] at hk
  obtain ⟨o, ho⟩ := h k hks
  cases o with
  | priv j =>
    obtain ⟨b, hb, hpb, hq⟩ := ho
    by_cases hj : j = i
    · subst hj
      rw [hi] at hb; cases hb
      refine ⟨.cache t, ?_⟩
      show (setAgent (cacheNode s0 t kx).1 j a').tls[t]? = some (some k)
      rw [hcached, ← hq, hprivi hpb]
    · exact ⟨.priv j, b, by rw [ag_ne hag hj]; exact hb, hpb, hq⟩
  | cache t' =>
    by_cases htt : t' = t
    · subst htt
      exfalso
      have := hdead k ho
      rw [this] at hk; cases hk
    · refine ⟨.cache t', ?_⟩
      show (setAgent (cacheNode s0 t kx).1 i a').tls[t']? = some (some k)
      rw [htls, List.getElem?_set_ne (Ne.symm htt)]; exact ho
  | grp ℓ =>
    obtain ⟨G, hG, hn⟩ := ho
    rcases hgrp ℓ G hG with h' | h'
    · exact ⟨.grp ℓ, G, h', hn⟩
    · refine ⟨.cache t, ?_⟩
      show (setAgent (cacheNode s0 t kx).1 i a').tls[t]? = some (some k)
      rw [hcached, ← hn, h']

theorem lo_same {s' : St} (h : LiveOwned s Q) (ha : s'.agents = s.agents) (ht : s'.tls = s.tls)
    (hl : ∀ k, nodeLive s' k = nodeLive s k) : LiveOwned s' Q := by
  apply liveOwned_of h
  · intro k hk; rw [hl] at hk; exact hk
  · intro k o _ ho
    cases o with
    | priv j => obtain ⟨b, hb, hpb, hq⟩ := ho; exact ⟨.priv j, b, by rw [ha]; exact hb, hpb, hq⟩
    | cache t => exact ⟨.cache t, by show s'.tls[t]? = _; rw [ht]; exact ho⟩
    | grp ℓ => exact ⟨.grp ℓ, ho⟩

end CppUtil.Mcs
