/-
  MCSLock proof, case analysis part A: the steps that only read (spins, loads, failed CAS) and the API
  entries of release / upgrade / downgrade.  Each lemma gives the invariant for the explicit successor
  state; `McsMain.lean` matches them with `Mcs.atom`.
-/
import CppUtil.Proofs.McsFacts

namespace CppUtil.Mcs
open CppUtil

variable {W : Nat → Bool → Bool → Nat → Word} {P : Params} {pb cb : Nat} {s : St} {Q : Nat → List Grp}
variable {i : Nat} {a : Agent}

macro "absq" h:ident : tactic =>
  `(tactic| simp [Agent.abs, $h:ident, Loc.headMode, Loc.sMem, Loc.isPub, Loc.isLink, Loc.priv])

/-! ### LockS: private phase -/

theorem case_sLoad (hI : Inv W P pb cb s Q) (hi : s.agents[i]? = some a) (hloc : a.loc = .sLoad) (v : Word) :
    Inv W P pb cb (setAgent s i { a with loc := .sCas, cur := v }) Q := by
  have hwf := hI.wf a (List.mem_of_getElem? hi)
  apply inv_k0 hI i a { a with loc := .sCas, cur := v } hi (by absq hloc) (by intro h; simp [hloc] at h) (by absq hloc) hwf.1 (by simp)
  · exact ⟨fun _ => (hI.privW i a hi).1 (Or.inl hloc), by intro m hm; simp at hm⟩
  · intro h; simp [Loc.sMem] at h
  · intro h; simp [Loc.headMode] at h

theorem case_sCas_fail (hI : Inv W P pb cb s Q) (hi : s.agents[i]? = some a) (hloc : a.loc = .sCas) (v : Word) :
    Inv W P pb cb (setAgent s i { a with cur := v }) Q := by
  have hwf := hI.wf a (List.mem_of_getElem? hi)
  apply inv_k0 hI i a { a with cur := v } hi rfl (fun h => h) rfl hwf.1 hwf.2.2.1
  · exact hI.privW i a hi
  · intro h; simp [hloc, Loc.sMem] at h
  · intro h; simp [hloc, Loc.headMode] at h

/-! ### the group of a shared member / of a head -/

theorem member_group (hI : Inv W P pb cb s Q) (hi : s.agents[i]? = some a) (hm : a.loc.sMem = true) :
    ∃ j G, (Q a.lk)[j]? = some G ∧ G.node = a.qnode ∧ MemOK P s (Q a.lk) j G a := by
  have hwf := hI.wf a (List.mem_of_getElem? hi)
  exact (hI.locks a.lk hwf.2.1).mems i a hi rfl hm

theorem headLoc_of_head' {G : Grp} {h : Nat} {b : Agent} (hh : G.head = some h) (hb : s.agents[h]? = some b) :
    headLoc s G = some b.loc := by
  unfold headLoc; simp [hh, hb]

theorem head_group (hI : Inv W P pb cb s Q) (hi : s.agents[i]? = some a) (hm : a.loc.headMode.isSome) :
    ∃ j G, (Q a.lk)[j]? = some G ∧ G.head = some i ∧ G.node = a.qnode ∧ HeadOK W P s a.lk (Q a.lk) j a := by
  have hwf := hI.wf a (List.mem_of_getElem? hi)
  have hL := hI.locks a.lk hwf.2.1
  obtain ⟨G, hG, hh⟩ := hL.headsBack i a hi rfl hm
  obtain ⟨j, hjG⟩ := List.mem_iff_getElem?.mp hG
  have hlive : (hmode s G).isSome := by
    unfold hmode; rw [headLoc_of_head' hh hi]; simpa using hm
  obtain ⟨b, hb, _, hb2, _, hb4⟩ := hL.heads j G i hjG hh hlive
  rw [hi] at hb; cases hb
  exact ⟨j, G, hjG, hh, hb2.symm, hb4⟩

/-- an agent is the (live) head of at most one group -/
theorem head_unique (hI : Inv W P pb cb s Q) (hi : s.agents[i]? = some a) (hm : a.loc.headMode.isSome)
    {j j0 : Nat} {G G0 : Grp} (hj : (Q a.lk)[j]? = some G) (hh : G.head = some i)
    (hj0 : (Q a.lk)[j0]? = some G0) (hh0 : G0.head = some i) : j = j0 ∧ G = G0 := by
  have hwf := hI.wf a (List.mem_of_getElem? hi)
  have hL := hI.locks a.lk hwf.2.1
  have hl : ∀ {G : Grp}, G.head = some i → (hmode s G).isSome := by
    intro G hh; unfold hmode; rw [headLoc_of_head' hh hi]; simpa using hm
  obtain ⟨b, hb, _, hb2, _, _⟩ := hL.heads j G i hj hh (hl hh)
  obtain ⟨b0, hb0, _, hb02, _, _⟩ := hL.heads j0 G0 i hj0 hh0 (hl hh0)
  rw [hi] at hb hb0; cases hb; cases hb0
  exact idx_unique hL.nodup hj hj0 (by rw [← hb2, ← hb02])

/-- all facts about reading the own node word of a group at index `j` -/
theorem own_node_word (hI : Inv W P pb cb s Q) {ℓ : Nat} (hℓ : ℓ < s.locks.length)
    {j : Nat} {G : Grp} (hj : (Q ℓ)[j]? = some G) :
    nodeW s G.node = expNode W s ℓ (Q ℓ) j G ∧ nodeLive s G.node = true :=
  ⟨(hI.locks ℓ hℓ).nodeWord j G hj, hI.grpLive ℓ G (mem_of_idx hj)⟩

/-- a non-zero link read from the own node identifies the linked successor -/
theorem link_nonzero {q : List Grp} {j : Nat} (h : linkOf s q j ≠ 0) :
    ∃ G', q[j + 1]? = some G' ∧ linked s G' = true ∧ linkOf s q j = G'.node := by
  unfold linkOf at h ⊢
  cases hq : q[j + 1]? with
  | none => simp [hq] at h
  | some G' =>
    simp only [hq] at h ⊢
    by_cases hl : linked s G' = true
    · exact ⟨G', rfl, hl, by simp [hl]⟩
    · simp [hl] at h

/-- the pointer field of the (expected) own node word is the link -/
theorem expNode_ptr (hW : WordSpecs P.C pb cb W) (hI : Inv W P pb cb s Q) (ℓ : Nat) (j : Nat) (G : Grp) :
    expNode W s ℓ (Q ℓ) j G &&& P.C.kPtrMask = ofNode (linkOf s (Q ℓ) j) := by
  have hl := hI.link_lt ℓ j
  have hcb : 0 < cb := Nat.lt_trans Nat.zero_lt_one hW.cbPos
  unfold expNode
  split
  · split
    · exact hW.ptr _ _ _ _ hl hcb
    · split
      · rename_i Pg _
        unfold grpW
        exact hW.ptr _ _ _ _ hl (by have := hI.cnt_lt ℓ Pg.node; omega)
      · exact hW.ptr _ _ _ _ hl hcb
  · exact hW.ptr _ _ _ _ hl hcb


theorem getLast?_of_idx {q : List Grp} {j : Nat} {G : Grp} (h : q[j]? = some G) : ∃ Gk, q.getLast? = some Gk := by
  cases q with
  | nil => simp at h
  | cons x xs => exact ⟨_, List.getLast?_eq_some_getLast (by simp)⟩

/-! ### LockS: waiting as a member of a group -/

theorem case_sSpinLock_moved (hW : WordSpecs P.C pb cb W) (hI : Inv W P pb cb s Q) (hi : s.agents[i]? = some a)
    (hloc : a.loc = .sSpinLock) (hc : (lockW s a.lk &&& P.C.kPtrMask) ≠ a.nxt) :
    Inv W P pb cb (setAgent s i { a with cur := lockW s a.lk, loc := .sSpinNext }) Q := by
  have hwf := hI.wf a (List.mem_of_getElem? hi)
  have hL := hI.locks a.lk hwf.2.1
  obtain ⟨j0, G0, hj0, hn0, hmo⟩ := member_group hI hi (by simp [hloc, Loc.sMem])
  simp only [MemOK, hloc] at hmo
  apply inv_k0 hI i a { a with cur := lockW s a.lk, loc := .sSpinNext } hi (by absq hloc) (by intro h; simp [hloc] at h) (by absq hloc) hwf.1 (by simp)
  · exact ⟨by intro h; simp at h, by intro m hm; simp at hm⟩
  · intro _ j G hj hn
    show j + 1 < (Q a.lk).length
    obtain ⟨Gk, hk⟩ := getLast?_of_idx hj
    have hp := (LockInv.lock_ptr hW hI hwf.2.1 hk).2.2
    apply not_last_lt hL.nodup hj hk
    intro heq
    apply hc
    rw [hp, hmo, heq, hn]
  · intro h; simp [Loc.headMode] at h

theorem case_sSpinLock_grant (hW : WordSpecs P.C pb cb W) (hI : Inv W P pb cb s Q) (hi : s.agents[i]? = some a)
    (hloc : a.loc = .sSpinLock) (hc : (lockW s a.lk &&& P.C.kPtrMask) = a.nxt)
    (hx : (lockW s a.lk &&& P.C.kXMask) = P.C.kNoLocks) :
    Inv W P pb cb (setAgent s i { a with cur := lockW s a.lk, loc := .held .S }) Q := by
  have hwf := hI.wf a (List.mem_of_getElem? hi)
  have hL := hI.locks a.lk hwf.2.1
  obtain ⟨j0, G0, hj0, hn0, hmo⟩ := member_group hI hi (by simp [hloc, Loc.sMem])
  simp only [MemOK, hloc] at hmo
  apply inv_k0 hI i a { a with cur := lockW s a.lk, loc := .held .S } hi (by absq hloc) (by intro h; simp [hloc] at h) (by absq hloc) hwf.1 (by simp)
  · exact ⟨by intro h; simp at h, by intro m hm; simp at hm⟩
  · intro _ j G hj hn
    show hmode s G = none
    obtain ⟨Gk, hk⟩ := getLast?_of_idx hj
    obtain ⟨hw, _, hp⟩ := LockInv.lock_ptr hW hI hwf.2.1 hk
    have hGk := hI.node_lt (List.mem_of_getLast? hk)
    have hG := hI.node_lt (mem_of_idx hj)
    have hnode : Gk.node = G.node := by
      apply hW.ofNode_inj hGk hG
      rw [← hp, hc, hmo, hn]
    have hkk := getLast?_idx hk
    obtain ⟨_, hGG⟩ := idx_unique hL.nodup hkk hj hnode
    subst hGG
    rw [hw, hW.noLocks] at hx
    have := (hW.xmask _ _ _ _ hGk (by have := hI.cnt_lt a.lk Gk.node; omega)).mp hx
    exact hmode_none_of_flags (fun b hb => (hI.wf b hb).2.2.2) this.1 this.2
  · intro h; simp [Loc.headMode] at h

theorem case_sSpinLock_stay (hI : Inv W P pb cb s Q) (hi : s.agents[i]? = some a)
    (hloc : a.loc = .sSpinLock) (v : Word) :
    Inv W P pb cb (setAgent s i { a with cur := v }) Q := by
  have hwf := hI.wf a (List.mem_of_getElem? hi)
  obtain ⟨j0, G0, hj0, hn0, hmo⟩ := member_group hI hi (by simp [hloc, Loc.sMem])
  simp only [MemOK, hloc] at hmo
  apply inv_k0 hI i a { a with cur := v } hi rfl (fun h => h) rfl hwf.1 hwf.2.2.1
  · exact hI.privW i a hi
  · intro _ j G hj hn
    simp only [MemOK, hloc]; exact hmo
  · intro h; simp [hloc, Loc.headMode] at h


theorem headLoc_of_head {G : Grp} {h : Nat} {b : Agent} (hh : G.head = some h) (hb : s.agents[h]? = some b) :
    headLoc s G = some b.loc := by
  unfold headLoc; simp [hh, hb]

theorem linked_published (G : Grp) (h : linked s G = true) : published s G = true := by
  unfold linked at h; unfold published
  cases hl : headLoc s G with
  | none => rfl
  | some l => cases l <;> simp_all

theorem ptr_ofNode (hW : WordSpecs P.C pb cb W) {p : Nat} (hp : p < pb) : ofNode p &&& P.C.kPtrMask = ofNode p := by
  have hcb : 0 < cb := Nat.lt_trans Nat.zero_lt_one hW.cbPos
  have h := hW.ptr p false false 0 hp hcb
  calc ofNode p &&& P.C.kPtrMask = (W p false false 0 &&& P.C.kPtrMask) &&& P.C.kPtrMask := by rw [h]
    _ = W p false false 0 &&& P.C.kPtrMask := by rw [BitVec.and_assoc, BitVec.and_self]
    _ = ofNode p := h

theorem ptrOf_ofNode (hW : WordSpecs P.C pb cb W) {p : Nat} (hp : p < pb) : ptrOf P (ofNode p) = p := by
  unfold ptrOf
  rw [ptr_ofNode hW hp]
  exact ofNode_toNat p (Nat.lt_of_lt_of_le hp hW.pbLe)

theorem case_sSpinNext_found (hW : WordSpecs P.C pb cb W) (hI : Inv W P pb cb s Q) (hi : s.agents[i]? = some a)
    (hloc : a.loc = .sSpinNext) (hc : (nodeW s a.qnode &&& P.C.kPtrMask) ≠ 0) :
    Inv W P pb cb (setAgent s i { a with nxt := nodeW s a.qnode &&& P.C.kPtrMask, loc := .sSpinNode }) Q := by
  have hwf := hI.wf a (List.mem_of_getElem? hi)
  have hL := hI.locks a.lk hwf.2.1
  apply inv_k0 hI i a { a with nxt := nodeW s a.qnode &&& P.C.kPtrMask, loc := .sSpinNode } hi
    (by absq hloc) (by intro h; simp [hloc] at h) (by absq hloc) hwf.1 (by simp)
  · exact ⟨by intro h; simp at h, by intro m hm; simp at hm⟩
  · intro _ j G hj hn
    show ∃ G', (Q a.lk)[j + 1]? = some G' ∧ linked s G' = true ∧ nodeW s a.qnode &&& P.C.kPtrMask = ofNode G'.node
    have hnw := hL.nodeWord j G hj
    rw [hn] at hnw
    have hp := expNode_ptr hW hI a.lk j G
    rw [hnw, hp] at hc ⊢
    have hne : linkOf s (Q a.lk) j ≠ 0 := by intro h0; apply hc; rw [h0]; rfl
    obtain ⟨G', h1, h2, h3⟩ := link_nonzero hne
    exact ⟨G', h1, h2, by rw [h3]⟩
  · intro h; simp [Loc.headMode] at h

theorem case_sSpinNext_stay (hI : Inv W P pb cb s Q) (hi : s.agents[i]? = some a)
    (hloc : a.loc = .sSpinNext) (v : Word) :
    Inv W P pb cb (setAgent s i { a with nxt := v }) Q := by
  have hwf := hI.wf a (List.mem_of_getElem? hi)
  have hL := hI.locks a.lk hwf.2.1
  obtain ⟨j0, G0, hj0, hn0, hmo⟩ := member_group hI hi (by simp [hloc, Loc.sMem])
  simp only [MemOK, hloc] at hmo
  apply inv_k0 hI i a { a with nxt := v } hi rfl (fun h => h) rfl hwf.1 hwf.2.2.1
  · exact hI.privW i a hi
  · intro _ j G hj hn
    obtain ⟨rfl, rfl⟩ := idx_unique hL.nodup hj hj0 (by rw [hn, hn0])
    simp only [MemOK, hloc]; exact hmo
  · intro h; simp [hloc, Loc.headMode] at h

theorem case_sSpinNode_grant (hW : WordSpecs P.C pb cb W) (hI : Inv W P pb cb s Q) (hi : s.agents[i]? = some a)
    (hloc : a.loc = .sSpinNode) (hx : (nodeW s a.nxt.toNat &&& P.C.kXMask) = P.C.kNoLocks) :
    Inv W P pb cb (setAgent s i { a with loc := .held .S }) Q := by
  have hwf := hI.wf a (List.mem_of_getElem? hi)
  have hL := hI.locks a.lk hwf.2.1
  obtain ⟨j0, G0, hj0, hn0, hmo⟩ := member_group hI hi (by simp [hloc, Loc.sMem])
  simp only [MemOK, hloc] at hmo
  obtain ⟨G', hG', hlnk, hnx⟩ := hmo
  apply inv_k0 hI i a { a with loc := .held .S } hi (by absq hloc) (by intro h; simp [hloc] at h) (by absq hloc) hwf.1 (by simp)
  · exact ⟨by intro h; simp at h, by intro m hm; simp at hm⟩
  · intro _ j G hj hn
    show hmode s G = none
    obtain ⟨rfl, rfl⟩ := idx_unique hL.nodup hj hj0 (by rw [hn, hn0])
    have hG'lt := hI.node_lt (mem_of_idx hG')
    have htn : a.nxt.toNat = G'.node := by rw [hnx]; exact ofNode_toNat _ (Nat.lt_of_lt_of_le hG'lt hW.pbLe)
    have hnw := hL.nodeWord (j + 1) G' hG'
    rw [htn, hnw] at hx
    unfold expNode at hx
    rw [linked_published G' hlnk] at hx
    simp only [↓reduceIte, Nat.add_one_ne_zero, Nat.add_sub_cancel, hj] at hx
    unfold grpW at hx
    rw [hW.noLocks] at hx
    have := (hW.xmask _ _ _ _ (hI.link_lt a.lk (j + 1)) (by have := hI.cnt_lt a.lk G.node; omega)).mp hx
    exact hmode_none_of_flags (fun b hb => (hI.wf b hb).2.2.2) this.1 this.2
  · intro h; simp [Loc.headMode] at h

/-! ### LockSIX / LockX: waiting for the predecessor -/

theorem case_xSpin_grant (hW : WordSpecs P.C pb cb W) (hI : Inv W P pb cb s Q) (hi : s.agents[i]? = some a)
    (m : Mode) (hloc : a.loc = .xSpin m)
    (hok : (match m with
      | .X => (nodeW s a.qnode &&& P.C.kLockMask) == P.C.kNoLocks
      | _ => (nodeW s a.qnode &&& P.C.kXMask) == P.C.kNoLocks) = true) :
    Inv W P pb cb (setAgent s i { a with loc := .held m }) Q := by
  have hwf := hI.wf a (List.mem_of_getElem? hi)
  have hL := hI.locks a.lk hwf.2.1
  have hmS : m ≠ .S := by
    have := hwf.2.2.2; rw [hloc] at this; simpa [Loc.headMode] using this
  have hhm : (Loc.held m).headMode = some m := by cases m <;> simp_all [Loc.headMode]
  apply inv_k0 hI i a { a with loc := .held m } hi
    (by simp [Agent.abs, hloc, hhm, Loc.headMode, Loc.isPub, Loc.isLink]; cases m <;> simp_all [Loc.sMem])
    (by intro h; simp [hloc] at h) (by simp [hloc, Loc.priv]) hwf.1 (by simp)
  · exact ⟨by intro h; simp at h, by intro m hm; simp at hm⟩
  · intro h; cases m <;> simp_all [Loc.sMem]
  · intro _ j G hj hh
    have hlive : (hmode s G).isSome := by
      unfold hmode; rw [headLoc_of_head hh hi, hloc]; rfl
    obtain ⟨b, hb, _, hb2, _, _⟩ := hL.heads j G i hj hh hlive
    rw [hi] at hb; cases hb
    have hpub : published s G = true := by
      unfold published; rw [headLoc_of_head hh hi, hloc]
    have hnw := hL.nodeWord j G hj
    rw [← hb2] at hnw
    rw [hnw] at hok
    unfold expNode at hok
    rw [hpub] at hok
    simp only [↓reduceIte] at hok
    by_cases hj0 : j = 0
    · subst hj0
      cases m <;> simp_all [HeadOK, E2]
    · have hjl := getElem?_lt' hj
      obtain ⟨Pg, hPg⟩ : ∃ Pg, (Q a.lk)[j - 1]? = some Pg := ⟨_, List.getElem?_eq_getElem (by omega)⟩
      simp only [hj0, ↓reduceIte, hPg] at hok
      unfold grpW at hok
      have hlk := hI.link_lt a.lk j
      have hcn : cnt s a.lk Pg.node < cb := by have := hI.cnt_lt a.lk Pg.node; omega
      have hwfm : ∀ b ∈ s.agents, b.loc.headMode ≠ some .S := fun b hb => (hI.wf b hb).2.2.2
      cases m with
      | S => exact absurd rfl hmS
      | X =>
        exfalso
        simp only [beq_iff_eq, hW.noLocks] at hok
        have := (hW.lockmask _ _ _ _ hlk hcn).mp hok
        have hnone := hmode_none_of_flags hwfm (G := Pg) this.1 this.2.1
        rcases hL.nonempty Pg (mem_of_idx hPg) with h1 | h1
        · rw [hnone] at h1; simp at h1
        · omega
      | SIX =>
        simp only [beq_iff_eq, hW.noLocks] at hok
        have := (hW.xmask _ _ _ _ hlk hcn).mp hok
        have hnone := hmode_none_of_flags hwfm (G := Pg) this.1 this.2
        show E2 s (Q a.lk) j
        right
        have hj1 : j - 1 = 0 := by
          rcases Nat.eq_zero_or_pos (j - 1) with h0 | hpos
          · exact h0
          · have := hL.laterHeads (j - 1) Pg hPg hpos
            rw [hnone] at this; simp at this
        refine ⟨by omega, Pg, ?_, hnone⟩
        rw [← hj1]; exact hPg

end CppUtil.Mcs
