/-
  MCSLock proof, word-writing steps, part C: the generic global part for a step of a queued request that
  writes the lock word or a queued node of its own lock and changes neither the queue nor any cache.
-/
import CppUtil.Proofs.McsHardB

namespace CppUtil.Mcs
open CppUtil

variable {W : Nat → Bool → Bool → Nat → Word} {P : Params} {pb cb : Nat} {s : St} {Q : Nat → List Grp}
variable {i : Nat} {a : Agent}

/-- targets of the writes of a queued request -/
def OwnRef (Q : Nat → List Grp) (ℓ : Nat) (r : Ref) : Prop := r = .lock ℓ ∨ ∃ G ∈ Q ℓ, r = .node G.node

theorem wr_agents (s : St) (r : Ref) (v : Word) : (wr s r v).agents = s.agents := by
  cases r with
  | lock k => rfl
  | node k => exact wr_node_agents s k v

theorem wr_tls (s : St) (r : Ref) (v : Word) : (wr s r v).tls = s.tls := by
  cases r with
  | lock k => rfl
  | node k => exact wr_node_tls s k v

theorem wr_locks_len (s : St) (r : Ref) (v : Word) : (wr s r v).locks.length = s.locks.length := by
  cases r with
  | lock k => simp
  | node k => rw [wr_node_locks]

theorem wr_nodes_len (s : St) (r : Ref) (v : Word) : (wr s r v).nodes.length = s.nodes.length := by
  cases r with
  | lock k => rfl
  | node k => exact wr_node_len s k v

theorem nodeLive_wr (s : St) (r : Ref) (v : Word) (k : Nat) : nodeLive (wr s r v) k = nodeLive s k := by
  cases r with
  | lock k' => rfl
  | node k' => exact nodeLive_wr_node s k' k v

theorem inv_same_q (hI : Inv W P pb cb s Q) (hi : s.agents[i]? = some a) (r : Ref) (v : Word) (a' : Agent)
    (hr : OwnRef Q a.lk r) (hlk : a'.lk = a.lk) (htid : a'.tid < s.tls.length)
    (hp : a.loc.priv = false) (hp' : a'.loc.priv = false) (hidle : a'.loc ≠ .idle) (hS : a'.loc.headMode ≠ some .S)
    (hLock : LockInv W P (setAgent (wr s r v) i a') a.lk (Q a.lk)) :
    Inv W P pb cb (setAgent (wr s r v) i a') Q := by
  have hwf := hI.wf a (List.mem_of_getElem? hi)
  have hag : (setAgent (wr s r v) i a').agents = s.agents.set i a' := by simp [wr_agents]
  have hrlive : ∀ k, r = .node k → nodeLive s k = true := by
    intro k hk
    rcases hr with h | ⟨G, hG, h⟩
    · rw [h] at hk; cases hk
    · rw [h] at hk; cases hk; exact hI.grpLive a.lk G hG
  have huaf : (wr s r v).uaf = s.uaf := by
    cases r with
    | lock k => rfl
    | node k => exact wr_node_uaf s k v (hrlive k rfl)
  -- words the step does not touch
  have hlw : ∀ ℓ, ℓ ≠ a.lk → lockW (setAgent (wr s r v) i a') ℓ = lockW s ℓ := by
    intro ℓ hne
    rw [lockW_setAgent]
    cases r with
    | lock k =>
      rcases hr with h | ⟨G, _, h⟩
      · cases h; rw [lockW_wr_lock s a.lk ℓ v hwf.2.1]; simp [hne]
      · cases h
    | node k => exact lockW_wr_node s k ℓ v
  have hnw : ∀ k, 1 ≤ k → (∀ G ∈ Q a.lk, G.node ≠ k) → nodeW (setAgent (wr s r v) i a') k = nodeW s k := by
    intro k hk hne
    rw [nodeW_setAgent]
    cases r with
    | lock k' => rfl
    | node k' =>
      rcases hr with h | ⟨G, hG, h⟩
      · cases h
      · cases h
        rw [nodeW_wr_node s G.node k v (hI.grpLive a.lk G hG) hk]
        simp [Ne.symm (hne G hG)]
  refine { uaf := by rw [setAgent_uaf, huaf]; exact hI.uaf,
           capN := by rw [setAgent_nodes, wr_nodes_len]; exact hI.capN,
           capA := by rw [hag]; simpa using hI.capA,
           wf := ?_, outside := ?_, locks := ?_, privLive := ?_, privUniq := ?_, privQ := ?_, privC := ?_,
           privW := ?_, cacheLive := ?_, cacheUniq := ?_, cacheQ := ?_, grpLive := ?_, grpLocks := hI.grpLocks }
  · intro b hb
    rw [setAgent_tls, wr_tls, setAgent_locks, wr_locks_len]
    rcases ag_mem hi hag hb with hb | rfl
    · exact hI.wf b hb
    · exact ⟨htid, by rw [hlk]; exact hwf.2.1, hidle, hS⟩
  · intro ℓ hℓ; rw [setAgent_locks, wr_locks_len] at hℓ; exact hI.outside ℓ hℓ
  · intro ℓ hℓ
    rw [setAgent_locks, wr_locks_len] at hℓ
    by_cases hne : ℓ = a.lk
    · subst hne; exact hLock
    · apply lockInv_other hI hi hag hlk hne hℓ (hlw ℓ hne)
      intro G hG
      apply hnw G.node (hI.node_pos hG)
      intro G' hG' e
      exact hne (hI.grpLocks a.lk ℓ G' G hG' hG e).symm
  · intro k b hk hb
    rw [nodeLive_setAgent, nodeLive_wr]
    rcases ag_cases hi hag hk with ⟨rfl, rfl⟩ | ⟨_, hk'⟩
    · rw [hp'] at hb; cases hb
    · exact hI.privLive k b hk' hb
  · intro k k' b b' hk hk' hb hb' hqq
    rcases ag_cases hi hag hk with ⟨rfl, rfl⟩ | ⟨_, hk1⟩
    · rw [hp'] at hb; cases hb
    · rcases ag_cases hi hag hk' with ⟨rfl, rfl⟩ | ⟨_, hk2⟩
      · rw [hp'] at hb'; cases hb'
      · exact hI.privUniq k k' b b' hk1 hk2 hb hb' hqq
  · intro k b ℓ G hk hb hG
    rcases ag_cases hi hag hk with ⟨rfl, rfl⟩ | ⟨_, hk'⟩
    · rw [hp'] at hb; cases hb
    · exact hI.privQ k b ℓ G hk' hb hG
  · intro k b t hk hb
    rw [setAgent_tls, wr_tls]
    rcases ag_cases hi hag hk with ⟨rfl, rfl⟩ | ⟨_, hk'⟩
    · rw [hp'] at hb; cases hb
    · exact hI.privC k b t hk' hb
  · intro k b hk
    rcases ag_cases hi hag hk with ⟨rfl, rfl⟩ | ⟨_, hk'⟩
    · constructor
      · intro h; rcases h with h | h <;> rw [h] at hp' <;> cases hp'
      · intro m h; rw [h] at hp'; cases hp'
    · have hold := hI.privW k b hk'
      have hsame : b.loc.priv = true → nodeW (setAgent (wr s r v) i a') b.qnode = nodeW s b.qnode := by
        intro hb
        apply hnw b.qnode (nodeLive_bound (hI.privLive k b hk' hb)).1
        intro G hG; exact hI.privQ k b a.lk G hk' hb hG
      constructor
      · intro h
        rw [hsame (by rcases h with h | h <;> simp [h, Loc.priv])]; exact hold.1 h
      · intro m h
        rw [hsame (by simp [h, Loc.priv])]; exact hold.2 m h
  · intro t k ht; rw [setAgent_tls, wr_tls] at ht; rw [nodeLive_setAgent, nodeLive_wr]; exact hI.cacheLive t k ht
  · intro t t' k ht ht'; rw [setAgent_tls, wr_tls] at ht ht'; exact hI.cacheUniq t t' k ht ht'
  · intro t k ℓ G ht; rw [setAgent_tls, wr_tls] at ht; exact hI.cacheQ t k ℓ G ht
  · intro ℓ G hG; rw [nodeLive_setAgent, nodeLive_wr]; exact hI.grpLive ℓ G hG

end CppUtil.Mcs
