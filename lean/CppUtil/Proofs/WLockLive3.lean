/-
  Fair termination of the word locks for client programs on one lock: every thread issues a sequence of requests, each
  running one of the scripts of `WLockLive2.lean`; request `i` may depend on an earlier request `preds[i]` (the previous
  request of the same thread) and starts only when that one is done — "threads do not nest requests on the same lock".
  Same potential; the agent that makes progress is found from the unfinished request with the least index, which is
  never waiting for a dependency (`Seq.helper_exists2`).
-/
import CppUtil.Proofs.WLockLive2

namespace CppUtil.WLock
open CppUtil

variable {P : WParams} {D : Decoder}


namespace Seq


/-- the request on which agent `i` depends (an earlier request of the same thread) has finished -/
def ready (preds : List (Option Nat)) (s : St) (i : Nat) : Bool :=
  match preds.getD i none with
  | none => true
  | some j => (match s.agents[j]? with
    | some (.done _) => true
    | _ => false)

def adv2 (P : WParams) (scs : List Script) (preds : List (Option Nat)) (nvs : List (BitVec 32)) (s : St) (i : Nat) : St :=
  let act : Option Act :=
    match scs.getD i dfl, s.agents[i]? with
    | sc, some .idle => if ready preds s i then some (.start i (.lock sc.mode)) else none
    | _, some (.acqLoad _) => some (.atom i none false)
    | _, some (.acqCas _ _) => some (.atom i none false)
    | .sixUp, some (.held .SIX _) => some (.upgrade i)
    | .sixUp, some .upgLoad => some (.atom i none false)
    | .sixUp, some (.upgCas _) => some (.atom i none false)
    | .xDown, some (.held .X _) => some (.downgrade i (nvs.getD i 0))
    | _, some (.held _ _) => some (.release i (nvs.getD i 0))
    | _, _ => none
  match act with
  | some a => (match step P s a with
    | some (s', _) => s'
    | none => s)
  | none => s

def exec2 (P : WParams) (scs : List Script) (preds : List (Option Nat)) (nvs : List (BitVec 32)) (s : St) : List Nat → St
  | [] => s
  | i :: is => exec2 P scs preds nvs (adv2 P scs preds nvs s i) is

def Closed2 (scs : List Script) (s : St) : Prop := ∀ i l, s.agents[i]? = some l → onPath (scs.getD i dfl) l = true

def phases2 (scs : List Script) (s : St) : Nat := wsum (fun i l => phS (scs.getD i dfl) l) 0 s.agents
def spin2 (s : St) : Nat := wsum (fun _ l => loc3 s.w l) 0 s.agents
def psi2 (scs : List Script) (s : St) : Nat := phases2 scs s * (2 * s.agents.length + 1) + spin2 s

theorem loc3_le (w : Word) (l : Loc) : loc3 w l ≤ 2 := by
  cases l <;> simp [loc3] <;> split <;> omega

theorem spin2_le (s : St) : spin2 s ≤ 2 * s.agents.length :=
  wsum_le _ 2 (fun _ l => loc3_le s.w l) s.agents 0

theorem psi2_progress {scs : List Script} {s s' : St} {i : Nat} {old new : Loc} (hi : s.agents[i]? = some old)
    (hag : s'.agents = s.agents.set i new) (hph : phS (scs.getD i dfl) new + 1 ≤ phS (scs.getD i dfl) old) :
    psi2 scs s' < psi2 scs s := by
  have hlen : s'.agents.length = s.agents.length := by rw [hag]; simp
  have h1 : phases2 scs s' + 1 ≤ phases2 scs s := by
    unfold phases2; rw [hag]
    have := wsum_set (fun i l => phS (scs.getD i dfl) l) s.agents 0 i old new hi
    simp only [Nat.zero_add] at this
    omega
  have h2 := spin2_le s'
  unfold psi2
  rw [hlen] at h2 ⊢
  have : (phases2 scs s' + 1) * (2 * s.agents.length + 1) ≤ phases2 scs s * (2 * s.agents.length + 1) :=
    Nat.mul_le_mul_right _ h1
  rw [Nat.add_mul] at this
  omega

theorem psi2_local {scs : List Script} {s s' : St} {i : Nat} {old new : Loc} (hi : s.agents[i]? = some old)
    (hag : s'.agents = s.agents.set i new) (hw : s'.w = s.w)
    (hph : phS (scs.getD i dfl) new = phS (scs.getD i dfl) old)
    (hl : loc3 s.w new + 1 ≤ loc3 s.w old) : psi2 scs s' < psi2 scs s := by
  have hlen : s'.agents.length = s.agents.length := by rw [hag]; simp
  have h1 : phases2 scs s' = phases2 scs s := by
    unfold phases2; rw [hag]
    have := wsum_set (fun i l => phS (scs.getD i dfl) l) s.agents 0 i old new hi
    simp only [Nat.zero_add] at this
    omega
  have h2 : spin2 s' + 1 ≤ spin2 s := by
    unfold spin2; rw [hag, hw]
    have := wsum_set (fun _ l => loc3 s.w l) s.agents 0 i old new hi
    omega
  unfold psi2
  rw [hlen, h1]; omega

/-- the action of agent `i` as a step of the lock model -/
theorem adv2_is_step (scs : List Script) (preds : List (Option Nat)) (nvs : List (BitVec 32)) (s : St) (i : Nat) :
    adv2 P scs preds nvs s i = s ∨ ∃ a e, step P s a = some (adv2 P scs preds nvs s i, e) := by
  unfold adv2
  generalize (match scs.getD i dfl, s.agents[i]? with
    | sc, some .idle => if ready preds s i then some (Act.start i (.lock sc.mode)) else none
    | _, some (.acqLoad _) => some (.atom i none false)
    | _, some (.acqCas _ _) => some (.atom i none false)
    | .sixUp, some (.held .SIX _) => some (.upgrade i)
    | .sixUp, some .upgLoad => some (.atom i none false)
    | .sixUp, some (.upgCas _) => some (.atom i none false)
    | .xDown, some (.held .X _) => some (.downgrade i (nvs.getD i 0))
    | _, some (.held _ _) => some (.release i (nvs.getD i 0))
    | _, _ => none) = act
  cases act with
  | none => exact Or.inl rfl
  | some a =>
    cases h : step P s a with
    | none => left; simp only [h]
    | some r => right; exact ⟨a, r.2, by simp only [h]⟩

theorem onPath_acq (sc : Script) : (sc.mode == sc.mode) = true := by simp

/-- the effect of the action of agent `i`, by script and location -/
def Stutter (P : WParams) (preds : List (Option Nat)) (s : St) (i : Nat) : Prop :=
  (s.agents[i]? = some .idle ∧ ready preds s i = false) ∨
  s.agents[i]? = none ∨ (∃ r, s.agents[i]? = some (.done r)) ∨
  (∃ m, s.agents[i]? = some (.acqLoad m) ∧ P.lockGuard m s.w = false) ∨
  (s.agents[i]? = some .upgLoad ∧ P.upgGuard s.w = false)

theorem adv2_cases (scs : List Script) (preds : List (Option Nat)) (nvs : List (BitVec 32)) {s : St} (hc : Closed2 scs s) (i : Nat) :
    (adv2 P scs preds nvs s i = s ∧ Stutter P preds s i) ∨
    ∃ old new w', s.agents[i]? = some old ∧ adv2 P scs preds nvs s i = { w := w', agents := s.agents.set i new } ∧
      onPath (scs.getD i dfl) new = true ∧
      ((phS (scs.getD i dfl) new + 1 ≤ phS (scs.getD i dfl) old) ∨
       (w' = s.w ∧ phS (scs.getD i dfl) new = phS (scs.getD i dfl) old ∧ loc3 s.w new + 1 ≤ loc3 s.w old)) := by
  cases h : s.agents[i]? with
  | none => left; exact ⟨by unfold adv2; simp only [h], Or.inr (Or.inl h)⟩
  | some l =>
    have hp := hc i l h
    generalize hsc : scs.getD i dfl = sc at hp ⊢
    cases l with
    | idle =>
      by_cases hr : ready preds s i = true
      · right
        refine ⟨_, .acqLoad sc.mode, s.w, rfl, ?_, onPath_acq sc, Or.inl ?_⟩
        · unfold adv2; simp only [h, hsc, hr, ↓reduceIte, step] <;> rfl
        · cases sc <;> exact Nat.le_of_ble_eq_true rfl
      · left
        have hr' : ready preds s i = false := by simpa using hr
        refine ⟨?_, Or.inl ⟨h, hr'⟩⟩
        unfold adv2; simp only [h, hsc, hr', Bool.false_eq_true, ↓reduceIte]
    | acqLoad m =>
      have hm : m = sc.mode := by
        have : (m == sc.mode) = true := hp
        simpa using this
      by_cases hg : P.lockGuard m s.w = true
      · right
        refine ⟨_, .acqCas m s.w, s.w, rfl, ?_, hp, Or.inr ⟨rfl, ?_, ?_⟩⟩
        · unfold adv2; simp only [h, hsc, step, atomStep, Option.getD_none, hg, ↓reduceIte, Option.map_some] <;> rfl
        · cases sc <;> rfl
        · show (if s.w = s.w then 0 else 2) + 1 ≤ 1
          simp
      · left
        refine ⟨?_, Or.inr (Or.inr (Or.inr (Or.inl ⟨m, h, by simpa using hg⟩)))⟩
        unfold adv2; simp only [h, hsc, step, atomStep, Option.getD_none, hg, Bool.false_eq_true, ↓reduceIte, Option.map_some]
    | acqCas m seen =>
      have hm : m = sc.mode := by
        have : (m == sc.mode) = true := hp
        simpa using this
      right
      by_cases hw : s.w = seen
      · refine ⟨_, .held m seen, P.lockUpd m seen, rfl, ?_, ?_, Or.inl ?_⟩
        · unfold adv2; simp only [h, hsc, step, atomStep, hw, and_self, ↓reduceIte, Option.map_some] <;> rfl
        · subst hm
          cases sc with
          | plain m0 => show (m0 == m0) = true; simp
          | sixUp => rfl
          | xDown => rfl
        · subst hm
          cases sc with
          | plain m0 => exact Nat.le_of_ble_eq_true rfl
          | sixUp => exact Nat.le_of_ble_eq_true rfl
          | xDown => exact Nat.le_of_ble_eq_true rfl
      · refine ⟨_, .acqLoad m, s.w, rfl, ?_, hp, Or.inr ⟨rfl, ?_, ?_⟩⟩
        · unfold adv2; simp only [h, hsc, step, atomStep, hw, false_and, ↓reduceIte, Option.map_some] <;> rfl
        · cases sc <;> rfl
        · have hne : seen ≠ s.w := fun e => hw e.symm
          show 1 + 1 ≤ (if seen = s.w then 0 else 2)
          rw [if_neg hne]; exact Nat.le_refl _
    | held m seen =>
      right
      cases sc with
      | plain m0 =>
        cases m with
        | S =>
          refine ⟨_, .done 0, s.w - P.relSArg, rfl, ?_, rfl, Or.inl (Nat.le_of_ble_eq_true rfl)⟩
          unfold adv2; simp only [h, hsc, step, releaseStep] <;> rfl
        | SIX =>
          refine ⟨_, .done 0, s.w ^^^ P.relSIXArg, rfl, ?_, rfl, Or.inl (Nat.le_of_ble_eq_true rfl)⟩
          unfold adv2; simp only [h, hsc, step, releaseStep] <;> rfl
        | X =>
          refine ⟨_, .done 0, P.relXVal (nvs.getD i 0), rfl, ?_, rfl, Or.inl (Nat.le_of_ble_eq_true rfl)⟩
          unfold adv2; simp only [h, hsc, step, releaseStep] <;> rfl
      | sixUp =>
        cases m with
        | SIX =>
          refine ⟨_, .upgLoad, s.w, rfl, ?_, rfl, Or.inl (Nat.le_of_ble_eq_true rfl)⟩
          unfold adv2; simp only [h, hsc, step] <;> rfl
        | X =>
          refine ⟨_, .done 0, P.relXVal (nvs.getD i 0), rfl, ?_, rfl, Or.inl (Nat.le_of_ble_eq_true rfl)⟩
          unfold adv2; simp only [h, hsc, step, releaseStep] <;> rfl
        | S => cases hp
      | xDown =>
        cases m with
        | X =>
          refine ⟨_, .held .SIX seen, P.dngVal (nvs.getD i 0), rfl, ?_, rfl, Or.inl (Nat.le_of_ble_eq_true rfl)⟩
          unfold adv2; simp only [h, hsc, step, downgradeStep] <;> rfl
        | SIX =>
          refine ⟨_, .done 0, s.w ^^^ P.relSIXArg, rfl, ?_, rfl, Or.inl (Nat.le_of_ble_eq_true rfl)⟩
          unfold adv2; simp only [h, hsc, step, releaseStep] <;> rfl
        | S => cases hp
    | upgLoad =>
      cases sc with
      | sixUp =>
        by_cases hg : P.upgGuard s.w = true
        · right
          refine ⟨_, .upgCas s.w, s.w, rfl, ?_, rfl, Or.inr ⟨rfl, rfl, ?_⟩⟩
          · unfold adv2; simp only [h, hsc, step, atomStep, Option.getD_none, hg, ↓reduceIte, Option.map_some] <;> rfl
          · show (if s.w = s.w then 0 else 2) + 1 ≤ 1
            simp
        · left
          refine ⟨?_, Or.inr (Or.inr (Or.inr (Or.inr ⟨h, by simpa using hg⟩)))⟩
          unfold adv2; simp only [h, hsc, step, atomStep, Option.getD_none, hg, Bool.false_eq_true, ↓reduceIte, Option.map_some]
      | plain _ => cases hp
      | xDown => cases hp
    | upgCas seen =>
      cases sc with
      | sixUp =>
        right
        by_cases hw : s.w = seen
        · refine ⟨_, .held .X seen, P.upgUpd seen, rfl, ?_, rfl, Or.inl (Nat.le_of_ble_eq_true rfl)⟩
          unfold adv2; simp only [h, hsc, step, atomStep, hw, and_self, ↓reduceIte, Option.map_some] <;> rfl
        · refine ⟨_, .upgLoad, s.w, rfl, ?_, rfl, Or.inr ⟨rfl, rfl, ?_⟩⟩
          · unfold adv2; simp only [h, hsc, step, atomStep, hw, false_and, ↓reduceIte, Option.map_some] <;> rfl
          · have hne : seen ≠ s.w := fun e => hw e.symm
            show 1 + 1 ≤ (if seen = s.w then 0 else 2)
            rw [if_neg hne]; exact Nat.le_refl _
      | plain _ => cases hp
      | xDown => cases hp
    | done r =>
      left; exact ⟨by unfold adv2; simp only [h, hsc], Or.inr (Or.inr (Or.inl ⟨r, h⟩))⟩
    | tryLoad _ _ => cases hp
    | tryCas _ _ _ => cases hp
    | prep1 _ => cases hp
    | prep2 => cases hp
    | prepCas _ => cases hp
    | gvLoad => cases hp
    | vfFence _ => cases hp
    | vfLoad _ => cases hp


theorem adv2_psi (scs : List Script) (preds : List (Option Nat)) (nvs : List (BitVec 32)) {s : St} (hc : Closed2 scs s) (i : Nat) :
    (adv2 P scs preds nvs s i = s ∧ Stutter P preds s i) ∨ psi2 scs (adv2 P scs preds nvs s i) < psi2 scs s := by
  rcases adv2_cases (P := P) scs preds nvs hc i with h | ⟨old, new, w', hi, he, _, hd⟩
  · exact Or.inl h
  · right
    rw [he]
    rcases hd with hd | ⟨hw, hph, hl⟩
    · exact psi2_progress hi rfl hd
    · exact psi2_local hi rfl hw hph hl

theorem closed2_set {scs : List Script} {s : St} (hc : Closed2 scs s) (i : Nat) (l : Loc)
    (hl : onPath (scs.getD i dfl) l = true) (w' : Word) : Closed2 scs { w := w', agents := s.agents.set i l } := by
  intro j x hx
  by_cases hji : j = i
  · subst hji
    have hlt : j < s.agents.length := by
      have := getElem?_lt hx; simpa using this
    have : (s.agents.set j l)[j]? = some l := List.getElem?_set_self hlt
    have hx' : (s.agents.set j l)[j]? = some x := hx
    rw [this] at hx'; cases hx'; exact hl
  · have hx' : (s.agents.set i l)[j]? = some x := hx
    rw [List.getElem?_set_ne (Ne.symm hji)] at hx'
    exact hc j x hx'

structure WL2 (P : WParams) (D : Decoder) (scs : List Script) (k : Nat) (s : St) : Prop where
  inv : Inv P D s
  closed : Closed2 scs s
  len : s.agents.length = k
  cap : k < D.cap

theorem wl2_adv (hS : Specs P D) (scs : List Script) (preds : List (Option Nat)) (nvs : List (BitVec 32)) {k : Nat} {s : St} (h : WL2 P D scs k s) (i : Nat) :
    WL2 P D scs k (adv2 P scs preds nvs s i) := by
  have hI : Inv P D (adv2 P scs preds nvs s i) := by
    rcases adv2_is_step (P := P) scs preds nvs s i with he | ⟨a, e, he⟩
    · rw [he]; exact h.inv
    · exact inv_step hS h.inv (by rw [h.len]; exact h.cap) he
  rcases adv2_cases (P := P) scs preds nvs h.closed i with ⟨he, _⟩ | ⟨old, new, w', hi, he, hp, _⟩
  · rw [he]; exact h
  · refine ⟨hI, ?_, ?_, h.cap⟩
    · rw [he]; exact closed2_set h.closed i new hp w'
    · rw [he]; simp only [List.length_set]; exact h.len

theorem wl2_exec (hS : Specs P D) (scs : List Script) (preds : List (Option Nat)) (nvs : List (BitVec 32)) {k : Nat} : ∀ (seg : List Nat) {s : St},
    WL2 P D scs k s → WL2 P D scs k (exec2 P scs preds nvs s seg)
  | [], _, h => h
  | i :: is, _, h => wl2_exec hS scs preds nvs is (wl2_adv hS scs preds nvs h i)

theorem exec2_psi (hS : Specs P D) (scs : List Script) (preds : List (Option Nat)) (nvs : List (BitVec 32)) {k : Nat} : ∀ (seg : List Nat) {s : St},
    WL2 P D scs k s → exec2 P scs preds nvs s seg = s ∨ psi2 scs (exec2 P scs preds nvs s seg) < psi2 scs s
  | [], _, _ => Or.inl rfl
  | i :: is, s, h => by
    have h' := wl2_adv hS scs preds nvs h i
    rcases adv2_psi (P := P) scs preds nvs h.closed i with ⟨he, _⟩ | hlt
    · show exec2 P scs preds nvs (adv2 P scs preds nvs s i) is = s ∨ psi2 scs (exec2 P scs preds nvs (adv2 P scs preds nvs s i) is) < psi2 scs s
      rw [he]
      exact exec2_psi hS scs preds nvs is h
    · right
      show psi2 scs (exec2 P scs preds nvs (adv2 P scs preds nvs s i) is) < psi2 scs s
      rcases exec2_psi hS scs preds nvs is h' with he | hlt2
      · rw [he]; exact hlt
      · exact Nat.lt_trans hlt2 hlt

theorem exec2_le (hS : Specs P D) (scs : List Script) (preds : List (Option Nat)) (nvs : List (BitVec 32)) {k : Nat} (seg : List Nat) {s : St}
    (h : WL2 P D scs k s) : psi2 scs (exec2 P scs preds nvs s seg) ≤ psi2 scs s := by
  rcases exec2_psi hS scs preds nvs seg h with he | hlt
  · rw [he]; exact Nat.le_refl _
  · exact Nat.le_of_lt hlt

theorem exec2_append (scs : List Script) (preds : List (Option Nat)) (nvs : List (BitVec 32)) : ∀ (a b : List Nat) (s : St),
    exec2 P scs preds nvs s (a ++ b) = exec2 P scs preds nvs (exec2 P scs preds nvs s a) b
  | [], _, _ => rfl
  | i :: is, b, s => exec2_append scs preds nvs is b (adv2 P scs preds nvs s i)


/-- a stuttering agent holds no S grant, and no grant at all unless it is an upgrader waiting for the readers -/
theorem stutter_grant {s : St} {j : Nat} {lj : Loc} (hj : s.agents[j]? = some lj) (hst : Stutter P preds s j) :
    lj.grant? = none ∨ (lj = .upgLoad ∧ P.upgGuard s.w = false) := by
  rcases hst with ⟨h, _⟩ | h | ⟨r, h⟩ | ⟨m, h, _⟩ | ⟨h, hb⟩
  · rw [hj] at h; cases h; exact Or.inl rfl
  · rw [hj] at h; cases h
  · rw [hj] at h; cases h; exact Or.inl rfl
  · rw [hj] at h; cases h; exact Or.inl rfl
  · rw [hj] at h; cases h; exact Or.inr ⟨rfl, hb⟩

theorem exists_min (p : Nat → Prop) (h : ∃ i, p i) : ∃ i, p i ∧ ∀ j, j < i → ¬ p j := by
  obtain ⟨i, hi⟩ := h
  induction i using Nat.strongRecOn with
  | _ i ih =>
    by_cases hm : ∀ j, j < i → ¬ p j
    · exact ⟨i, hi, hm⟩
    · have : ∃ j, j < i ∧ p j := by
        apply Classical.byContradiction
        intro hc; apply hm; intro j hj hpj; exact hc ⟨j, hj, hpj⟩
      obtain ⟨j, hj, hpj⟩ := this
      exact ih j hj hpj

theorem done_or_pos {sc : Script} {l : Loc} (hp : onPath sc l = true) : (∃ r, l = Loc.done r) ∨ 0 < phS sc l := by
  cases l with
  | done r => exact Or.inl ⟨r, rfl⟩
  | idle => right; cases sc <;> exact Nat.le_of_ble_eq_true rfl
  | acqLoad _ => right; cases sc <;> exact Nat.le_of_ble_eq_true rfl
  | acqCas _ _ => right; cases sc <;> exact Nat.le_of_ble_eq_true rfl
  | held m _ =>
    right
    cases sc with
    | plain _ => exact Nat.le_of_ble_eq_true rfl
    | sixUp => cases m <;> first | (cases hp; done) | exact Nat.le_of_ble_eq_true rfl
    | xDown => cases m <;> first | (cases hp; done) | exact Nat.le_of_ble_eq_true rfl
  | upgLoad => right; cases sc <;> first | (cases hp; done) | exact Nat.le_of_ble_eq_true rfl
  | upgCas _ => right; cases sc <;> first | (cases hp; done) | exact Nat.le_of_ble_eq_true rfl
  | tryLoad _ _ => cases hp
  | tryCas _ _ _ => cases hp
  | prep1 _ => cases hp
  | prep2 => cases hp
  | prepCas _ => cases hp
  | gvLoad => cases hp
  | vfFence _ => cases hp
  | vfLoad _ => cases hp

/-- **no state of the closed system is stuck** (requests may depend on earlier requests of the same thread): the
    unfinished agent with the least index is not waiting for a dependency; its next action lowers `psi2`, or it is blocked
    by a live holder whose action does, or that holder is an upgrader waiting for a reader whose action does -/
theorem helper_exists2 (hS : Specs P D) (scs : List Script) (preds : List (Option Nat)) (nvs : List (BitVec 32)) {k : Nat} {s : St}
    (hpred : ∀ i j, preds.getD i none = some j → j < i)
    (h : WL2 P D scs k s) (hpos : 0 < phases2 scs s) : ∃ j, j < k ∧ psi2 scs (adv2 P scs preds nvs s j) < psi2 scs s := by
  have hex : ∃ i, ∃ l, s.agents[i]? = some l ∧ 0 < phS (scs.getD i dfl) l := by
    obtain ⟨i, l, hi, hl⟩ := wsum_pos _ s.agents 0 hpos
    simp only [Nat.zero_add] at hl
    exact ⟨i, l, hi, hl⟩
  obtain ⟨i, ⟨l, hi, hl⟩, hmin⟩ := exists_min _ hex
  have lt_of : ∀ {j : Nat} {x : Loc}, s.agents[j]? = some x → j < k := by
    intro j x hx; rw [← h.len]; exact getElem?_lt hx
  have reader_moves : ∀ (j : Nat) (lj : Loc), s.agents[j]? = some lj → lj.grant? = some Mode.S →
      ∃ j, j < k ∧ psi2 scs (adv2 P scs preds nvs s j) < psi2 scs s := by
    intro j lj hj hg
    rcases adv2_psi (P := P) scs preds nvs h.closed j with ⟨_, hst⟩ | hlt
    · rcases stutter_grant hj hst with h0 | ⟨h0, _⟩
      · rw [h0] at hg; cases hg
      · rw [h0] at hg; cases hg
    · exact ⟨j, lt_of hj, hlt⟩
  have upgrader : ∀ (j : Nat), s.agents[j]? = some .upgLoad → P.upgGuard s.w = false →
      ∃ j, j < k ∧ psi2 scs (adv2 P scs preds nvs s j) < psi2 scs s := by
    intro j hj hb
    obtain ⟨j2, l2, hj2, hg2⟩ := blocked_upgrade_has_reader hS h.inv hj rfl hb
    exact reader_moves j2 l2 hj2 hg2
  rcases adv2_psi (P := P) scs preds nvs h.closed i with ⟨_, hst⟩ | hlt
  · rcases hst with ⟨h0, hr⟩ | h0 | ⟨r, h0⟩ | ⟨m, h0, hb⟩ | ⟨h0, hb⟩
    · -- waiting for a dependency: impossible for the least unfinished index
      exfalso
      unfold ready at hr
      cases hpd : preds.getD i none with
      | none => rw [hpd] at hr; cases hr
      | some j =>
        rw [hpd] at hr
        have hji := hpred i j hpd
        have hjk : j < s.agents.length := by
          have := getElem?_lt hi; omega
        have hjl : s.agents[j]? = some s.agents[j] := List.getElem?_eq_getElem hjk
        dsimp only at hr
        rcases done_or_pos (h.closed j _ hjl) with ⟨r, hd⟩ | hp
        · rw [hjl, hd] at hr; cases hr
        · exact hmin j hji ⟨_, hjl, hp⟩
    · rw [hi] at h0; cases h0
    · rw [hi] at h0; cases h0
      exfalso
      have : phS (scs.getD i dfl) (.done r) = 0 := by cases scs.getD i dfl <;> rfl
      omega
    · obtain ⟨j, lj, mj, hj, hgj, _⟩ := blocked_lock_has_conflicting_holder hS h.inv m hb
      rcases adv2_psi (P := P) scs preds nvs h.closed j with ⟨_, hstj⟩ | hlt
      · rcases stutter_grant hj hstj with hn | ⟨hu, hbu⟩
        · rw [hn] at hgj; cases hgj
        · subst hu; exact upgrader j hj hbu
      · exact ⟨j, lt_of hj, hlt⟩
    · exact upgrader i h0 hb
  · exact ⟨i, lt_of hi, hlt⟩

theorem round_dec2 (hS : Specs P D) (scs : List Script) (preds : List (Option Nat)) (nvs : List (BitVec 32)) {k : Nat} {s : St}
    (hpred : ∀ i j, preds.getD i none = some j → j < i) (h : WL2 P D scs k s)
    (seg : List Nat) (hall : ∀ j, j < k → j ∈ seg) (hpos : 0 < phases2 scs s) :
    psi2 scs (exec2 P scs preds nvs s seg) < psi2 scs s := by
  obtain ⟨j, hjk, hdec⟩ := helper_exists2 hS scs preds nvs hpred h hpos
  obtain ⟨pre, post, hseg⟩ := List.append_of_mem (hall j hjk)
  rw [hseg, exec2_append]
  show psi2 scs (exec2 P scs preds nvs (adv2 P scs preds nvs (exec2 P scs preds nvs s pre) j) post) < psi2 scs s
  have hpre := wl2_exec hS scs preds nvs pre h
  rcases exec2_psi hS scs preds nvs pre h with he | hlt
  · rw [he]
    exact Nat.lt_of_le_of_lt (exec2_le hS scs preds nvs post (wl2_adv hS scs preds nvs h j)) hdec
  · have h1 := exec2_le hS scs preds nvs post (wl2_adv hS scs preds nvs hpre j)
    have h2 : psi2 scs (adv2 P scs preds nvs (exec2 P scs preds nvs s pre) j) ≤ psi2 scs (exec2 P scs preds nvs s pre) := by
      rcases adv2_psi (P := P) scs preds nvs hpre.closed j with ⟨he, _⟩ | hl
      · rw [he]; exact Nat.le_refl _
      · exact Nat.le_of_lt hl
    omega

theorem done_of_phases2_zero {scs : List Script} {s : St} (hc : Closed2 scs s) (h0 : phases2 scs s = 0) :
    ∀ (i : Nat) (l : Loc), s.agents[i]? = some l → ∃ r, l = Loc.done r := by
  intro i l hi
  have hz := wsum_zero _ s.agents 0 h0 i l hi
  simp only [Nat.zero_add] at hz
  have hp := hc i l hi
  generalize scs.getD i dfl = sc at hz hp
  cases l with
  | done r => exact ⟨r, rfl⟩
  | idle => cases sc <;> cases hz
  | acqLoad _ => cases sc <;> cases hz
  | acqCas _ _ => cases sc <;> cases hz
  | held m _ =>
    cases sc with
    | plain _ => cases hz
    | sixUp => cases m <;> first | (cases hp; done) | (cases hz; done)
    | xDown => cases m <;> first | (cases hp; done) | (cases hz; done)
  | upgLoad => cases sc <;> first | (cases hp; done) | (cases hz; done)
  | upgCas _ => cases sc <;> first | (cases hp; done) | (cases hz; done)
  | tryLoad _ _ => cases hp
  | tryCas _ _ _ => cases hp
  | prep1 _ => cases hp
  | prep2 => cases hp
  | prepCas _ => cases hp
  | gvLoad => cases hp
  | vfFence _ => cases hp
  | vfLoad _ => cases hp

theorem stay_done2 (scs : List Script) (preds : List (Option Nat)) (nvs : List (BitVec 32)) {s : St} (hc : Closed2 scs s) (h0 : phases2 scs s = 0) :
    ∀ (seg : List Nat), exec2 P scs preds nvs s seg = s
  | [] => rfl
  | i :: is => by
    have : adv2 P scs preds nvs s i = s := by
      rcases adv2_psi (P := P) scs preds nvs hc i with ⟨he, _⟩ | hlt
      · exact he
      · exfalso
        rcases adv2_cases (P := P) scs preds nvs hc i with ⟨he, _⟩ | ⟨old, new, w', hi, he, _, hd⟩
        · rw [he] at hlt; exact Nat.lt_irrefl _ hlt
        · obtain ⟨r, hr⟩ := done_of_phases2_zero hc h0 i old hi
          subst hr
          have hz : phS (scs.getD i dfl) (.done r) = 0 := by cases scs.getD i dfl <;> rfl
          rcases hd with hd | ⟨_, _, hl⟩
          · omega
          · have : loc3 s.w (.done r) = 0 := rfl
            omega
    show exec2 P scs preds nvs (adv2 P scs preds nvs s i) is = s
    rw [this]; exact stay_done2 scs preds nvs hc h0 is

/-- **fair termination with conversions**: more than `psi2` rounds finish every agent -/
theorem rounds_finish2 (hS : Specs P D) (scs : List Script) (preds : List (Option Nat)) (nvs : List (BitVec 32)) {k : Nat}
    (hpred : ∀ i j, preds.getD i none = some j → j < i) :
    ∀ (segs : List (List Nat)) {s : St}, WL2 P D scs k s → (∀ seg ∈ segs, ∀ j, j < k → j ∈ seg) →
      psi2 scs s < segs.length → phases2 scs (exec2 P scs preds nvs s segs.flatten) = 0
  | [], _, _, _, hlen => by simp at hlen
  | seg :: rest, s, h, hall, hlen => by
    rw [List.flatten_cons, exec2_append]
    by_cases hpos : 0 < phases2 scs s
    · have hd := round_dec2 hS scs preds nvs hpred h seg (hall seg (List.mem_cons_self)) hpos
      have h' := wl2_exec hS scs preds nvs seg h
      by_cases hrest : psi2 scs (exec2 P scs preds nvs s seg) < rest.length
      · exact rounds_finish2 hS scs preds nvs hpred rest h' (fun sg hsg => hall sg (List.mem_cons_of_mem _ hsg)) hrest
      · simp only [List.length_cons] at hlen; omega
    · have h0 : phases2 scs s = 0 := by omega
      rw [stay_done2 scs preds nvs h.closed h0 seg, stay_done2 scs preds nvs h.closed h0 rest.flatten]
      exact h0


theorem phS_le (sc : Script) (l : Loc) : phS sc l ≤ 6 := by
  cases sc <;> cases l <;> first | exact Nat.le_of_ble_eq_true rfl | (rename_i m _; cases m <;> exact Nat.le_of_ble_eq_true rfl)

theorem wl2_init (hS : Specs P D) (scs : List Script) (k : Nat) (hk : k < D.cap) : WL2 P D scs k (initK k) := by
  have h := wl_init hS k hk
  refine ⟨h.inv, ?_, h.len, hk⟩
  intro i l hi
  have : l = .idle := by
    have hm := List.mem_of_getElem? hi
    exact List.eq_of_mem_replicate hm
  subst this; rfl

theorem psi2_init_le (scs : List Script) (k : Nat) : psi2 scs (initK k) ≤ 6 * k * (2 * k + 1) + 2 * k := by
  have h1 : phases2 scs (initK k) ≤ 6 * k := by
    have := wsum_le (fun i l => phS (scs.getD i dfl) l) 6 (fun i l => phS_le _ l) (initK k).agents 0
    simpa [phases2, initK] using this
  have h2 := spin2_le (initK k)
  have hl : (initK k).agents.length = k := by simp [initK]
  unfold psi2
  rw [hl] at h2 ⊢
  have : phases2 scs (initK k) * (2 * k + 1) ≤ 6 * k * (2 * k + 1) := Nat.mul_le_mul_right _ h1
  omega

end Seq

end CppUtil.WLock
