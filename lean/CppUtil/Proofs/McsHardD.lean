/-
  MCSLock proof, word-writing steps, part D: publishing the predecessor's flags, linking to the predecessor.
-/
import CppUtil.Proofs.McsHardC

namespace CppUtil.Mcs
open CppUtil

variable {W : Nat → Bool → Bool → Nat → Word} {P : Params} {pb cb : Nat} {s : St} {Q : Nat → List Grp}
variable {i : Nat} {a : Agent}

section
variable {s' : St} {a' : Agent}

/-- the changed agent keeps its mode flag: nobody's `hmode` changes -/
theorem hmode_keep (hi : s.agents[i]? = some a) (hag : s'.agents = s.agents.set i a')
    (h : a'.loc.headMode = a.loc.headMode) (G : Grp) : hmode s' G = hmode s G := by
  by_cases hh : G.head = some i
  · rw [hmode_eq hi hag G hh, hmode_eq_of_head hh hi, h]
  · exact hmode_ne hag G hh

theorem cnt_keep (hi : s.agents[i]? = some a) (hag : s'.agents = s.agents.set i a')
    (h1 : a'.lk = a.lk) (h2 : a'.qnode = a.qnode) (h3 : a'.loc.sMem = a.loc.sMem) (ℓ nd : Nat) :
    cnt s' ℓ nd = cnt s ℓ nd := by
  apply cnt_same hi hag; simp [isMem, h1, h2, h3]

theorem grpW_keep (hi : s.agents[i]? = some a) (hag : s'.agents = s.agents.set i a')
    (h : a'.loc.headMode = a.loc.headMode) (h1 : a'.lk = a.lk) (h2 : a'.qnode = a.qnode)
    (h3 : a'.loc.sMem = a.loc.sMem) (ℓ : Nat) (G : Grp) (p : Nat) : grpW W s' ℓ G p = grpW W s ℓ G p := by
  unfold grpW; rw [hmode_keep hi hag h, cnt_keep hi hag h1 h2 h3]

theorem expLock_keep (hi : s.agents[i]? = some a) (hag : s'.agents = s.agents.set i a')
    (h : a'.loc.headMode = a.loc.headMode) (h1 : a'.lk = a.lk) (h2 : a'.qnode = a.qnode)
    (h3 : a'.loc.sMem = a.loc.sMem) (ℓ : Nat) (q : List Grp) : expLock W s' ℓ q = expLock W s ℓ q := by
  unfold expLock
  cases q.getLast? with
  | none => rfl
  | some Gk => exact grpW_keep hi hag h h1 h2 h3 ℓ Gk Gk.node
end

/-- published / linked of the group whose head changed -/
theorem published_eq' {s' : St} {a' : Agent} (hi : s.agents[i]? = some a) (hag : s'.agents = s.agents.set i a')
    (G : Grp) (h : G.head = some i) : published s' G = !a'.loc.isPub := by
  rw [published_eq, headLoc_eq hi hag G h]; simp

theorem linked_eq' {s' : St} {a' : Agent} (hi : s.agents[i]? = some a) (hag : s'.agents = s.agents.set i a')
    (G : Grp) (h : G.head = some i) : linked s' G = !(a'.loc.isPub || a'.loc.isLink) := by
  rw [linked_eq, headLoc_eq hi hag G h]; simp

theorem published_old (hi : s.agents[i]? = some a) (G : Grp) (h : G.head = some i) :
    published s G = !a.loc.isPub := by
  rw [published_eq, headLoc_of_head h hi]; simp

theorem linked_old (hi : s.agents[i]? = some a) (G : Grp) (h : G.head = some i) :
    linked s G = !(a.loc.isPub || a.loc.isLink) := by
  rw [linked_eq, headLoc_of_head h hi]; simp

/-- index facts -/
theorem idx_lt_of_some {q : List Grp} {j : Nat} {G : Grp} (h : q[j]? = some G) : j < q.length := getElem?_lt' h

theorem pred_exists {q : List Grp} {j : Nat} {G : Grp} (h : q[j]? = some G) (hj : 0 < j) : ∃ Pg, q[j - 1]? = some Pg := by
  have := getElem?_lt' h
  exact ⟨_, List.getElem?_eq_getElem (by omega)⟩

theorem expNode_congr {s s' : St} {ℓ : Nat} {q : List Grp} {j : Nat} {G : Grp}
    (h1 : published s' G = published s G) (h2 : linkOf s' q j = linkOf s q j)
    (h3 : ∀ Pg p, 0 < j → q[j - 1]? = some Pg → grpW W s' ℓ Pg p = grpW W s ℓ Pg p) :
    expNode W s' ℓ q j G = expNode W s ℓ q j G := by
  unfold expNode
  rw [h1, h2]
  by_cases hj : j = 0
  · simp [hj]
  · simp only [hj, ↓reduceIte]
    cases hp : q[j - 1]? with
    | none => rfl
    | some Pg => simp only [h3 Pg _ (Nat.pos_of_ne_zero hj) hp]

theorem linkOf_eq_of {s s' : St} {q : List Grp} {j : Nat}
    (h : ∀ G', q[j + 1]? = some G' → linked s' G' = linked s G') : linkOf s' q j = linkOf s q j := by
  unfold linkOf
  cases hq : q[j + 1]? with
  | none => rfl
  | some G' => simp only [h G' hq]

/-- the agent after publishing -/
def pubAgent (P : Params) (a : Agent) (m : Mode) : Agent :=
  { a with loc := (if (a.cur &&& P.C.kPtrMask) ≠ 0 then Loc.xLink m else Loc.held m) }

theorem case_xPublish (hW : WordSpecs P.C pb cb W) (hI : Inv W P pb cb s Q) (hi : s.agents[i]? = some a)
    (m : Mode) (hloc : a.loc = .xPublish m) (nw : Word)
    (hnwv : nw = nodeW s a.qnode ^^^ (P.C.kXLock ^^^ (a.cur &&& P.C.kLockMask))) :
    Inv W P pb cb (setAgent (wr s (.node a.qnode) nw) i (pubAgent P a m)) Q := by
  have hwf := hI.wf a (List.mem_of_getElem? hi)
  have hL := hI.locks a.lk hwf.2.1
  have hmS : m ≠ .S := by have := hwf.2.2.2; rw [hloc] at this; simpa [Loc.headMode] using this
  have hlive0 : a.loc.headMode.isSome := by rw [hloc]; rfl
  obtain ⟨j, G, hj, hh, hn, hho⟩ := head_group (W := W) hI hi hlive0
  simp only [HeadOK, hloc] at hho
  have hGm := mem_of_idx hj
  have hcb : 0 < cb := Nat.lt_trans Nat.zero_lt_one hW.cbPos
  -- pointer of the snapshot
  have hptr : (a.cur &&& P.C.kPtrMask) ≠ 0 ↔ 0 < j := by
    constructor
    · intro h
      rcases Nat.eq_zero_or_pos j with h0 | hpos
      · exfalso; apply h; rw [hho.1 h0]; simp
      · exact hpos
    · intro hpos
      obtain ⟨Pg, hPg⟩ := pred_exists hj hpos
      rw [hho.2 Pg hpos hPg]
      unfold grpW
      rw [hW.ptr _ _ _ _ (hI.node_lt (mem_of_idx hPg)) (by have := hI.cnt_lt a.lk Pg.node; omega)]
      intro h0
      have := hW.ofNode_eq_zero (hI.node_lt (mem_of_idx hPg)) h0
      have := hI.node_pos (mem_of_idx hPg)
      omega
  -- the new agent
  have hloc' : (pubAgent P a m).loc = if 0 < j then Loc.xLink m else Loc.held m := by
    unfold pubAgent; simp only [hptr]
  have hhm' : (pubAgent P a m).loc.headMode = a.loc.headMode := by
    rw [hloc', hloc]; split <;> cases m <;> simp_all [Loc.headMode]
  have hsm' : (pubAgent P a m).loc.sMem = a.loc.sMem := by
    rw [hloc', hloc]; split <;> cases m <;> simp_all [Loc.sMem]
  have hpub' : (pubAgent P a m).loc.isPub = false := by rw [hloc']; split <;> rfl
  have hlnk' : (pubAgent P a m).loc.isLink = decide (0 < j) := by rw [hloc']; split <;> simp_all [Loc.isLink]
  have hpriv' : (pubAgent P a m).loc.priv = false := by rw [hloc']; split <;> rfl
  have hag : (setAgent (wr s (.node a.qnode) nw) i (pubAgent P a m)).agents = s.agents.set i (pubAgent P a m) := by
    simp [wr_node_agents]
  -- own group is the only one with head i
  have honly : ∀ j' G', (Q a.lk)[j']? = some G' → G'.head = some i → j' = j ∧ G' = G :=
    fun j' G' h1 h2 => head_unique hI hi hlive0 h1 h2 hj hh
  have hlive := hI.grpLive a.lk G hGm
  apply inv_same_q hI hi (.node a.qnode) _ (pubAgent P a m) (Or.inr ⟨G, hGm, by rw [hn]⟩) rfl hwf.1
    (by simp [hloc, Loc.priv]) hpriv' (by rw [hloc']; split <;> simp) (by rw [hhm']; exact hwf.2.2.2)
  apply lockInv_same hL hi hag
  · -- Mono
    constructor
    · intro G' _ h; rw [hmode_keep hi hag hhm']; exact h
    · intro G' hG' h
      by_cases hh' : G'.head = some i
      · rw [linked_old hi G' hh', hloc] at h; simp [Loc.isPub] at h
      · rw [linked_ne hag G' hh']; exact h
  · intro j' Pg G' _ _ _; exact grpW_keep hi hag hhm' rfl rfl hsm' a.lk Pg Pg.node
  · rw [lockW_setAgent, lockW_wr_node, expLock_keep hi hag hhm' rfl rfl hsm']; exact hL.lockWord
  · intro j' G' hj'
    rw [nodeW_setAgent, nodeW_wr_node s a.qnode G'.node _ (hn ▸ hlive) (hI.node_pos (mem_of_idx hj'))]
    by_cases hnode : G'.node = a.qnode
    · obtain ⟨rfl, rfl⟩ := idx_unique hL.nodup hj' hj (by rw [hnode, hn])
      simp only [hnode, ↓reduceIte]
      have hold := hL.nodeWord j' G' hj'
      rw [hnode] at hold
      have hpo : published s G' = false := by rw [published_old hi G' hh, hloc]; rfl
      have hlo : linkOf _ (Q a.lk) j' = linkOf s (Q a.lk) j' := linkOf_eq_of (s := s) (fun Gs hGs => by
        apply linked_ne hag
        intro hhs
        have := (honly (j' + 1) Gs hGs hhs).1
        omega)
      conv => lhs; rw [hnwv, hold]
      unfold expNode
      rw [hpo, published_eq' hi hag G' hh, hpub', hlo]
      have hlk := hI.link_lt a.lk j'
      simp only [Bool.not_false, ↓reduceIte, Bool.false_eq_true]
      by_cases hj0 : j' = 0
      · simp only [hj0, ↓reduceIte]
        rw [hho.1 hj0]
        subst hj0
        exact hW.publish0 _ hlk
      · simp only [hj0, ↓reduceIte]
        obtain ⟨Pg, hPg⟩ := pred_exists hj' (Nat.pos_of_ne_zero hj0)
        rw [hPg]
        simp only
        rw [hho.2 Pg (Nat.pos_of_ne_zero hj0) hPg, grpW_keep hi hag hhm' rfl rfl hsm']
        unfold grpW
        exact hW.publish _ _ _ _ _ hlk (hI.node_lt (mem_of_idx hPg)) (by have := hI.cnt_lt a.lk Pg.node; omega)
    · simp only [hnode, ↓reduceIte]
      rw [hL.nodeWord j' G' hj']
      symm
      have hhne : G'.head ≠ some i := by
        intro hh'; exact hnode (by rw [(honly j' G' hj' hh').2, hn])
      apply expNode_congr (published_ne hag G' hhne)
      · apply linkOf_eq_of
        intro Gs hGs
        by_cases hhs : Gs.head = some i
        · obtain ⟨hjj, rfl⟩ := honly (j' + 1) Gs hGs hhs
          rw [linked_eq' hi hag Gs hhs, linked_old hi Gs hhs, hpub', hlnk', hloc]
          have : 0 < j := by omega
          simp [this, Loc.isPub, Loc.isLink]
        · exact linked_ne hag Gs hhs
      · intro Pg p _ _; exact grpW_keep hi hag hhm' rfl rfl hsm' a.lk Pg p
  · intro G' hG'; rw [hmode_keep hi hag hhm', cnt_keep hi hag rfl rfl hsm']; exact hL.nonempty G' hG'
  · intro j' G' hj' h0; rw [hmode_keep hi hag hhm']; exact hL.laterHeads j' G' hj' h0
  · intro _ j' G' hj' hh'
    obtain ⟨rfl, rfl⟩ := honly j' G' hj' hh'
    refine ⟨rfl, hn.symm, ?_⟩
    unfold HeadOK
    rw [hloc']
    by_cases hpos : 0 < j'
    · rw [if_pos hpos]
      obtain ⟨Pg, hPg⟩ := pred_exists hj' hpos
      refine ⟨hpos, Pg, hPg, ?_⟩
      show ptrOf P a.cur = Pg.node
      rw [hho.2 Pg hpos hPg]
      unfold grpW
      exact hW.ptrOf P rfl _ _ _ _ (hI.node_lt (mem_of_idx hPg)) (by have := hI.cnt_lt a.lk Pg.node; omega)
    · rw [if_neg hpos]
      have : j' = 0 := by omega
      cases m with
      | S => exact absurd rfl hmS
      | SIX => exact Or.inl this
      | X => exact this
  · intro G' _ _; exact ⟨rfl, Or.inl (by rw [hhm']; exact hlive0)⟩
  · intro _ _; exact ⟨G, hGm, hh⟩
  · intro _ h; rw [hsm', hloc] at h; simp [Loc.sMem] at h

end CppUtil.Mcs
