/-
  Guard algebra, part 4: the local code of every instruction preserves the invariant
  (instructions that do not change who owns which grant).
-/
import CppUtil.Proofs.WClientInv

set_option linter.unusedSimpArgs false
set_option linter.unusedVariables false

namespace CppUtil.WClient
open CppUtil CppUtil.WLock

variable {P : WParams} {vo : Nat → Nat} {ao : Nat → Nat → Nat}

/-- what one iteration of `advance` has to establish -/
def IterOk (vo : Nat → Nat) (c : Client) (t : Nat) (res : Client × Out × PhaseRes) : Prop :=
  ∃ ao', Inv vo ao' (afterPhase res.1 t res.2.2) ∧ WF vo (afterPhase res.1 t res.2.2) ∧
    (afterPhase res.1 t res.2.2).threads.size = c.threads.size ∧
    (match res.2.2 with
     | .block => True
     | _ => (getThread (afterPhase res.1 t res.2.2) t).pend = .none ∧
            (getThread (afterPhase res.1 t res.2.2) t).finished = false)

theorem afterPhase_same {c c1 : Client} {t : Nat} (r : PhaseRes) (hs1 : SameFor vo ao t c c1) (ht : t < c.threads.size) :
    SameFor vo ao t c (afterPhase c1 t r) := by
  have ht1 : t < c1.threads.size := by rw [hs1.tsz]; exact ht
  cases r <;> exact hs1.trans (SameFor.setThread ht1 rfl)

theorem getThread_afterPhase {c1 : Client} {t : Nat} (r : PhaseRes) (ht1 : t < c1.threads.size) :
    getThread (afterPhase c1 t r) t =
      match r with
      | .next => { (getThread c1 t) with phase := (getThread c1 t).phase + 1 }
      | .block => { (getThread c1 t) with phase := (getThread c1 t).phase + 1 }
      | .doneOp => { (getThread c1 t) with pc := (getThread c1 t).pc + 1, phase := 0, pend := .none } := by
  cases r <;> simp only [afterPhase] <;> rw [getThread_setThread_self ht1]

/-- packaging: invariant + frame ⇒ `IterOk` for a finished instruction -/
theorem IterOk.doneOp {c c1 : Client} {t : Nat} {o : Out} (X : Ctx vo ao c t) {ao' : Nat → Nat → Nat}
    (hs1 : SameFor vo ao' t c c1) (hfin : (getThread c1 t).finished = false)
    (hI : Inv vo ao' (afterPhase c1 t .doneOp)) : IterOk vo c t (c1, o, .doneOp) := by
  have hs := afterPhase_same (vo := vo) (ao := ao') .doneOp hs1 X.ht
  have ht1 : t < c1.threads.size := by rw [hs1.tsz]; exact X.ht
  refine ⟨ao', hI, X.wf.same hs, hs.tsz, ?_⟩
  simp only
  rw [getThread_afterPhase .doneOp ht1]
  exact ⟨rfl, hfin⟩

theorem IterOk.next {c c1 : Client} {t : Nat} {o : Out} (X : Ctx vo ao c t) {ao' : Nat → Nat → Nat}
    (hs1 : SameFor vo ao' t c c1) (hfin : (getThread c1 t).finished = false) (hp : (getThread c1 t).pend = .none)
    (hI : Inv vo ao' (afterPhase c1 t .next)) : IterOk vo c t (c1, o, .next) := by
  have hs := afterPhase_same (vo := vo) (ao := ao') .next hs1 X.ht
  have ht1 : t < c1.threads.size := by rw [hs1.tsz]; exact X.ht
  refine ⟨ao', hI, X.wf.same hs, hs.tsz, ?_⟩
  simp only
  rw [getThread_afterPhase .next ht1]
  exact ⟨hp, hfin⟩

theorem IterOk.block {c c1 : Client} {t : Nat} {o : Out} (X : Ctx vo ao c t) {ao' : Nat → Nat → Nat}
    (hs1 : SameFor vo ao' t c c1)
    (hI : Inv vo ao' (afterPhase c1 t .block)) : IterOk vo c t (c1, o, .block) := by
  have hs := afterPhase_same (vo := vo) (ao := ao') .block hs1 X.ht
  exact ⟨ao', hI, X.wf.same hs, hs.tsz, trivial⟩

/-- facts read off `Uses` -/
theorem Uses.eqs {c : Client} {t lk a : Nat} (h : Uses vo ao c t lk a) :
    ∃ hpc : (getThread c t).pc < (getThread c t).prog.size,
      (getThread c t).phase = 1 ∧ a = (getThread c t).ag ∧
      lk = opLk (viewOf vo ao c t).gv (getThread c t) ((getThread c t).prog[(getThread c t).pc]) ∧
      usesReq (getThread c t) ((getThread c t).prog[(getThread c t).pc]) = true := by
  obtain ⟨hpc, _, h2, h3, h4, _, _, h7⟩ := h
  exact ⟨hpc, h2, h3.symm, h4.symm, h7⟩

/-! ### instructions without atomic operations -/

theorem iter_bool {c : Client} {t : Nat} (X : Ctx vo ao c t) (v k ph : Nat)
    (hop : (getThread c t).prog[(getThread c t).pc]'X.hpc = .bool v) :
    IterOk vo c t (runPhase P c t k (.bool v) ph) := by
  have hst := X.stage
  rw [hop] at hst
  have htmp : (getThread c t).tmp.own = none := by
    simp only [Stage] at hst; split at hst <;> exact hst
  simp only [runPhase]
  refine IterOk.doneOp (ao' := ao) X (SameFor.refl c t) X.fin ?_
  refine X.doneOp_light (SameFor.refl c t) rfl (fun _ => rfl) (fun _ _ => rfl) (fun v lk _ h => X.inv.vlk v lk h) htmp ?_ ?_
  · intro v' hv'; apply X.not_stale hv'; left; rw [hop]; simp [Op.target?]
  · intro lk a hu
    obtain ⟨_, _, _, _, h⟩ := hu.eqs
    simp only [hop, usesReq] at h; cases h


/-- instructions that never hold a grant in the temporary -/
def Op.noTmp : Op → Bool
  | .lock _ _ _ => false
  | .tryLock _ _ _ => false
  | .prep _ _ => false
  | .upg _ _ => false
  | .dng _ _ => false
  | _ => true

theorem stage_tmp_none {V : View} {op : Op} {ph : Nat} (h : Stage V op ph .none) (hn : op.noTmp = true) :
    V.th.tmp.own = none := by
  cases op <;> simp only [Op.noTmp, Bool.false_eq_true] at hn <;> simp only [Stage] at h <;>
    (split at h) <;> first | exact h | exact h.1

theorem Ctx.tmp_none {c : Client} {t : Nat} (X : Ctx vo ao c t)
    (hn : ((getThread c t).prog[(getThread c t).pc]'X.hpc).noTmp = true) : (getThread c t).tmp.own = none :=
  stage_tmp_none X.stage hn

/-- generic form of the light cases: the instruction finishes, `c1` keeps ownership and requests -/
theorem Ctx.iter_light {c c1 : Client} {t : Nat} {o : Out} (X : Ctx vo ao c t)
    (hn : ((getThread c t).prog[(getThread c t).pc]'X.hpc).noTmp = true)
    (htg : ((getThread c t).prog[(getThread c t).pc]'X.hpc).target? = none)
    (hs1 : SameFor vo ao t c c1) (hth1 : getThread c1 t = getThread c t) (hown : ∀ v, own c1 v = own c v)
    (hal : ∀ lk a, agentLoc c1 lk a = agentLoc c lk a)
    (hvlk : ∀ v lk, vo v = t → (getVar c1 v).lk = some lk → lk < c.locks.size)
    (hnouse : ∀ lk a, Uses vo ao c t lk a → (agentLoc c lk a).grant? = none) :
    IterOk vo c t (c1, o, .doneOp) := by
  refine IterOk.doneOp (ao' := ao) X hs1 (by rw [hth1]; exact X.fin) ?_
  refine X.doneOp_light hs1 hth1 hown hal hvlk (X.tmp_none hn) ?_ hnouse
  intro v' hv'; apply X.not_stale hv'; left; rw [htg]; simp

theorem Ctx.no_uses {c : Client} {t : Nat} (X : Ctx vo ao c t)
    (h : usesReq (getThread c t) ((getThread c t).prog[(getThread c t).pc]'X.hpc) = false) :
    ∀ lk a, Uses vo ao c t lk a → (agentLoc c lk a).grant? = none := by
  intro lk a hu
  obtain ⟨_, _, _, _, h'⟩ := hu.eqs
  rw [h] at h'; cases h'

theorem iter_xver {c : Client} {t : Nat} (X : Ctx vo ao c t) (v k ph : Nat)
    (hop : (getThread c t).prog[(getThread c t).pc]'X.hpc = .xver v) :
    IterOk vo c t (runPhase P c t k (.xver v) ph) := by
  simp only [runPhase]
  exact X.iter_light (by rw [hop]; rfl) (by rw [hop]; rfl) (SameFor.refl c t) rfl (fun _ => rfl) (fun _ _ => rfl)
    (fun v lk _ h => X.inv.vlk v lk h) (X.no_uses (by rw [hop]; rfl))

theorem iter_gver {c : Client} {t : Nat} (X : Ctx vo ao c t) (v k ph : Nat)
    (hop : (getThread c t).prog[(getThread c t).pc]'X.hpc = .gver v) :
    IterOk vo c t (runPhase P c t k (.gver v) ph) := by
  simp only [runPhase]
  exact X.iter_light (by rw [hop]; rfl) (by rw [hop]; rfl) (SameFor.refl c t) rfl (fun _ => rfl) (fun _ _ => rfl)
    (fun v lk _ h => X.inv.vlk v lk h) (X.no_uses (by rw [hop]; rfl))

/-- a variable of the moving thread gets a new value with the same ownership and lock pointer -/
theorem light_setVar {c : Client} {t v : Nat} {g : GVal} (X : Ctx vo ao c t) (hv : vo v = t) (hvs : v < c.vars.size)
    (ho : g.own = (getVar c v).own) :
    SameFor vo ao t c (setVar c v g) ∧ getThread (setVar c v g) t = getThread c t ∧
    (∀ v', own (setVar c v g) v' = own c v') ∧ (∀ lk a, agentLoc (setVar c v g) lk a = agentLoc c lk a) := by
  refine ⟨SameFor.setVar hv, rfl, ?_, fun _ _ => rfl⟩
  intro v'
  simp only [own, getVar_setVar hvs]
  split
  · rename_i h; subst h; exact ho
  · rfl

theorem iter_setver {c : Client} {t : Nat} (X : Ctx vo ao c t) (v k ph : Nat) (val : BitVec 32)
    (hop : (getThread c t).prog[(getThread c t).pc]'X.hpc = .setver v val) :
    IterOk vo c t (runPhase P c t k (.setver v val) ph) := by
  simp only [runPhase]
  have hw := X.opWF
  simp only [hop, Op.vars, List.mem_cons, List.not_mem_nil, or_false, forall_eq] at hw
  obtain ⟨hs1, hth1, hown, hal⟩ := light_setVar (g := { getVar c v with nver := val }) X hw.2.1.2 hw.2.1.1 rfl
  refine X.iter_light (by rw [hop]; rfl) (by rw [hop]; rfl) hs1 hth1 hown hal ?_ (X.no_uses (by rw [hop]; rfl))
  intro v' lk hv' h
  rw [getVar_setVar hw.2.1.1] at h
  split at h
  · rename_i he; subst he; exact X.inv.vlk v lk h
  · exact X.inv.vlk v' lk h


/-! ### thread-record updates -/

theorem setThread_setThread {c : Client} {t : Nat} {a b : Thread} :
    setThread (setThread c t a) t b = setThread c t b := by
  simp only [setThread]
  congr 1
  apply Array.ext
  · simp
  · intro i h1 h2
    simp [Array.getElem_setIfInBounds]

def bumpTh (th : Thread) : PhaseRes → Thread
  | .next => { th with phase := th.phase + 1 }
  | .block => { th with phase := th.phase + 1 }
  | .doneOp => { th with pc := th.pc + 1, phase := 0, pend := .none }

theorem afterPhase_setThread {c1 : Client} {t : Nat} {th1 : Thread} (r : PhaseRes) (ht : t < c1.threads.size) :
    afterPhase (setThread c1 t th1) t r = setThread c1 t (bumpTh th1 r) := by
  cases r <;> simp only [afterPhase, bumpTh] <;> rw [getThread_setThread_self ht, setThread_setThread]

/-- only the record of the moving thread changes (plus ghosts): generic form -/
theorem Ctx.thread_only {c c1 : Client} {t : Nat} (X : Ctx vo ao c t) (hs1 : SameFor vo ao t c c1)
    (hown1 : ∀ v, own c1 v = own c v) (hvlk1 : ∀ v lk, (getVar c1 v).lk = some lk → lk < c.locks.size)
    (hal : ∀ lk a, agentLoc c1 lk a = agentLoc c lk a)
    {th' : Thread} (hprog : th'.prog = (getThread c t).prog)
    (hnst : ∀ v lk a, vo v = t → own c v = some (lk, a) → StaleOk vo c v → StaleOk vo (setThread c1 t th') v)
    (htmp : ∀ lk a, th'.tmp.own = some (lk, a) → lk < c.locks.size ∧ ao lk a = t ∧
      isHeld (agentLoc c lk a) ∧ ∀ v, vo v = t → own c v ≠ some (lk, a))
    (htlk : ∀ lk, th'.tmp.lk = some lk → lk < c.locks.size)
    (horph : ∀ lk a, ao lk a = t → ((getThread c t).tmp.own = some (lk, a) ∨ Uses vo ao c t lk a) →
      (agentLoc c lk a).grant? ≠ none →
      (∃ v, own c v = some (lk, a)) ∨ th'.tmp.own = some (lk, a) ∨ Uses vo ao (setThread c1 t th') t lk a)
    (hthr : TOk vo ao (setThread c1 t th') t) : Inv vo ao (setThread c1 t th') := by
  have ht1 : t < c1.threads.size := by rw [hs1.tsz]; exact X.ht
  have hth1 : (getThread c1 t).prog = (getThread c t).prog := hs1.prog
  have hs : SameFor vo ao t c (setThread c1 t th') := hs1.trans (SameFor.setThread ht1 (by rw [hprog, hth1]))
  have hown : ∀ v, own (setThread c1 t th') v = own c v := fun v => by
    have := hown1 v; simp only [own] at this ⊢; rw [getVar_setThread]; exact this
  have hal' : ∀ lk a, agentLoc (setThread c1 t th') lk a = agentLoc c lk a := fun lk a => by
    rw [agentLoc_setThread, hal]
  refine Inv.update_own X.inv hs hown hal' ?_ hnst ?_ ?_ ?_ hthr
  · intro v lk _ h; rw [getVar_setThread] at h; rw [hs.lsz]; exact hvlk1 v lk h
  · intro lk a h
    rw [getThread_setThread_self ht1] at h
    obtain ⟨h1, h2, h3, h4⟩ := htmp lk a h
    refine ⟨by rw [hs.lsz]; exact h1, h2, by rw [hal']; exact h3, ?_⟩
    intro v hv; rw [hown]; exact h4 v hv
  · intro lk h; rw [getThread_setThread_self ht1] at h; rw [hs.lsz]; exact htlk lk h
  · intro lk a h1 h2 h3
    rcases horph lk a h1 h2 h3 with ⟨v, h⟩ | h | h
    · exact Or.inl ⟨v, by rw [hown]; exact h⟩
    · exact Or.inr (Or.inl (by rw [getThread_setThread_self ht1]; exact h))
    · exact Or.inr (Or.inr h)


/-- thread-record update during an instruction that has neither a temporary nor a target nor a request -/
theorem Ctx.inert_thread {c : Client} {t : Nat} (X : Ctx vo ao c t)
    (hn : ((getThread c t).prog[(getThread c t).pc]'X.hpc).noTmp = true)
    (htg : ((getThread c t).prog[(getThread c t).pc]'X.hpc).target? = none)
    (hu : usesReq (getThread c t) ((getThread c t).prog[(getThread c t).pc]'X.hpc) = false)
    {th' : Thread} (hprog : th'.prog = (getThread c t).prog) (htmp : th'.tmp = (getThread c t).tmp)
    (hthr : TOk vo ao (setThread c t th') t) : Inv vo ao (setThread c t th') := by
  have hno := X.tmp_none hn
  refine X.thread_only (SameFor.refl c t) (fun _ => rfl) (fun v lk h => X.inv.vlk v lk h) (fun _ _ => rfl) hprog ?_ ?_ ?_ ?_ hthr
  · intro v lk a hv _ hst
    exact absurd hst (X.not_stale hv (Or.inl (by rw [htg]; simp)))
  · intro lk a h; rw [htmp, hno] at h; cases h
  · intro lk h; rw [htmp] at h; exact X.inv.tmpLk t lk h
  · intro lk a _ h hg
    rcases h with h | h
    · rw [hno] at h; cases h
    · exact absurd (X.no_uses hu lk a h) hg

theorem TOk_of_stage {c : Client} {t : Nat} (hf : (getThread c t).finished = false)
    (hp : (getThread c t).pend ≠ .start) (hpc : (getThread c t).pc < (getThread c t).prog.size)
    (h : Stage (viewOf vo ao c t) ((getThread c t).prog[(getThread c t).pc]) (getThread c t).phase (getThread c t).pend) :
    TOk vo ao c t := by
  simp only [TOk, hf, hp, hpc, dite_true, if_false, Bool.false_eq_true]
  exact h

theorem TOk_intro {c : Client} {t : Nat} {th' : Thread} (hth : getThread c t = th') (hf : th'.finished = false)
    (hp : th'.pend ≠ .start) (hpc : th'.pc < th'.prog.size) (op : Op) (hop : th'.prog[th'.pc] = op)
    (h : Stage (viewOf vo ao c t) op th'.phase th'.pend) : TOk vo ao c t := by
  subst hth; subst hop
  exact TOk_of_stage hf hp hpc h

theorem iter_payrd {c : Client} {t : Nat} (X : Ctx vo ao c t) (lk k : Nat)
    (hop : (getThread c t).prog[(getThread c t).pc]'X.hpc = .payrd lk) :
    IterOk vo c t (runPhase P c t k (.payrd lk) (getThread c t).phase) := by
  have hn : ((getThread c t).prog[(getThread c t).pc]'X.hpc).noTmp = true := by rw [hop]; rfl
  have htg : ((getThread c t).prog[(getThread c t).pc]'X.hpc).target? = none := by rw [hop]; rfl
  have hu : usesReq (getThread c t) ((getThread c t).prog[(getThread c t).pc]'X.hpc) = false := by rw [hop]; rfl
  have hno := X.tmp_none hn
  simp only [runPhase]
  split
  · -- phase 0
    rename_i hph
    refine IterOk.block (ao' := ao) X (SameFor.setThread X.ht rfl) ?_
    rw [afterPhase_setThread _ X.ht]
    refine X.inert_thread hn htg hu rfl rfl ?_
    apply TOk_of_stage
    · rw [getThread_setThread_self X.ht]; simp [bumpTh, X.fin]
    · rw [getThread_setThread_self X.ht]; simp [bumpTh]
    · simp only [getThread_setThread_self X.ht, bumpTh, hop, hph, Stage, viewOf]
      exact ⟨hno, trivial, lk, rfl⟩
    · rw [getThread_setThread_self X.ht]; exact X.hpc
  · rename_i hph
    refine IterOk.block (ao' := ao) X (SameFor.setThread X.ht rfl) ?_
    rw [afterPhase_setThread _ X.ht]
    refine X.inert_thread hn htg hu rfl rfl ?_
    apply TOk_of_stage
    · rw [getThread_setThread_self X.ht]; simp [bumpTh, X.fin]
    · rw [getThread_setThread_self X.ht]; simp [bumpTh]
    · simp only [getThread_setThread_self X.ht, bumpTh, hop, hph, Stage, viewOf]
      exact ⟨hno, trivial, lk, rfl⟩
    · rw [getThread_setThread_self X.ht]; exact X.hpc
  · exact X.iter_light hn htg (SameFor.refl c t) rfl (fun _ => rfl) (fun _ _ => rfl)
      (fun v lk _ h => X.inv.vlk v lk h) (X.no_uses hu)


theorem iter_paywr {c : Client} {t : Nat} (X : Ctx vo ao c t) (lk val k : Nat)
    (hop : (getThread c t).prog[(getThread c t).pc]'X.hpc = .paywr lk val) :
    IterOk vo c t (runPhase P c t k (.paywr lk val) (getThread c t).phase) := by
  have hn : ((getThread c t).prog[(getThread c t).pc]'X.hpc).noTmp = true := by rw [hop]; rfl
  have htg : ((getThread c t).prog[(getThread c t).pc]'X.hpc).target? = none := by rw [hop]; rfl
  have hu : usesReq (getThread c t) ((getThread c t).prog[(getThread c t).pc]'X.hpc) = false := by rw [hop]; rfl
  have hno := X.tmp_none hn
  simp only [runPhase]
  split
  · rename_i hph
    refine IterOk.block (ao' := ao) X (SameFor.setThread X.ht rfl) ?_
    rw [afterPhase_setThread _ X.ht]
    refine X.inert_thread hn htg hu rfl rfl ?_
    apply TOk_of_stage
    · rw [getThread_setThread_self X.ht]; simp [bumpTh, X.fin]
    · rw [getThread_setThread_self X.ht]; simp [bumpTh]
    · simp only [getThread_setThread_self X.ht, bumpTh, hop, hph, Stage, viewOf]
      exact ⟨hno, trivial, lk, val, rfl⟩
    · rw [getThread_setThread_self X.ht]; exact X.hpc
  · rename_i hph
    refine IterOk.block (ao' := ao) X (SameFor.setThread X.ht rfl) ?_
    rw [afterPhase_setThread _ X.ht]
    refine X.inert_thread hn htg hu rfl rfl ?_
    apply TOk_of_stage
    · rw [getThread_setThread_self X.ht]; simp [bumpTh, X.fin]
    · rw [getThread_setThread_self X.ht]; simp [bumpTh]
    · simp only [getThread_setThread_self X.ht, bumpTh, hop, hph, Stage, viewOf]
      exact ⟨hno, trivial, lk, val, rfl⟩
    · rw [getThread_setThread_self X.ht]; exact X.hpc
  · exact X.iter_light hn htg (SameFor.refl c t) rfl (fun _ => rfl) (fun _ _ => rfl)
      (fun v lk _ h => X.inv.vlk v lk h) (X.no_uses hu)

/-- the request of a finished reader call (`GetVersion`, `VerifyVersion`) holds no grant -/
theorem Ctx.reader_no_grant {c : Client} {t : Nat} (X : Ctx vo ao c t)
    (hk : ((getThread c t).prog[(getThread c t).pc]'X.hpc).call? = some .gv ∨
          ((getThread c t).prog[(getThread c t).pc]'X.hpc).call? = some .vf)
    (hst : (getThread c t).phase = 1 → ∃ k, ((getThread c t).prog[(getThread c t).pc]'X.hpc).call? = some k ∧
      (viewOf vo ao c t).CallAg ((getThread c t).prog[(getThread c t).pc]'X.hpc) k.result) :
    ∀ lk a, Uses vo ao c t lk a → (agentLoc c lk a).grant? = none := by
  intro lk a hu
  obtain ⟨_, h1, h2, h3, _⟩ := hu.eqs
  obtain ⟨k, hk', _, hres, _⟩ := hst h1
  have hne := hu.2.2.2.2.2.1
  have hal := (viewOf_al_ne_idle hne).2
  subst h2 h3
  have hd : ∃ r, (viewOf vo ao c t).al (opLk (viewOf vo ao c t).gv (getThread c t) ((getThread c t).prog[(getThread c t).pc]))
      (getThread c t).ag = .done r := by
    rcases hk with hk | hk <;> rw [hk] at hk' <;> cases hk' <;> exact hres
  obtain ⟨r, hr⟩ := hd
  rw [← hal]
  exact (congrArg Loc.grant? hr).trans rfl


theorem Ctx.reader_stage {c : Client} {t : Nat} (X : Ctx vo ao c t) (hph : (getThread c t).phase ≠ 0)
    (hr : (∃ d l, (getThread c t).prog[(getThread c t).pc]'X.hpc = .getver d l) ∨
          (∃ v, (getThread c t).prog[(getThread c t).pc]'X.hpc = .verify v) ∨
          (∃ v, (getThread c t).prog[(getThread c t).pc]'X.hpc = .cverify v)) :
    (getThread c t).phase = 1 → ∃ k, ((getThread c t).prog[(getThread c t).pc]'X.hpc).call? = some k ∧
      (viewOf vo ao c t).CallAg ((getThread c t).prog[(getThread c t).pc]'X.hpc) k.result := by
  have hst := X.stage
  rcases hr with ⟨d, l, h⟩ | ⟨v, h⟩ | ⟨v, h⟩ <;> rw [h] at hst ⊢ <;>
    simp only [Stage, hph, if_false] at hst <;> exact hst.2

theorem iter_verify {c : Client} {t : Nat} (X : Ctx vo ao c t) (v k : Nat)
    (hop : (getThread c t).prog[(getThread c t).pc]'X.hpc = .verify v) (hph : (getThread c t).phase ≠ 0) :
    IterOk vo c t (runPhase P c t k (.verify v) (getThread c t).phase) := by
  have hw := X.opWF
  simp only [hop, Op.vars, List.mem_cons, List.not_mem_nil, or_false, forall_eq] at hw
  have hrs := X.reader_stage hph (Or.inr (Or.inl ⟨v, hop⟩))
  obtain ⟨m, hm⟩ := Nat.exists_eq_succ_of_ne_zero hph
  rw [hm]
  simp only [runPhase]
  have L := fun g ho => light_setVar (vo := vo) (ao := ao) (c := c) (t := t) (v := v) (g := g) X hw.2.1.2 hw.2.1.1 ho
  refine X.iter_light (by rw [hop]; rfl) (by rw [hop]; rfl) (L _ (by rfl)).1 (L _ (by rfl)).2.1 (L _ (by rfl)).2.2.1 (L _ (by rfl)).2.2.2 ?_
      (X.reader_no_grant (Or.inr (by rw [hop]; rfl)) hrs)
  intro v' lk hv' h
  rw [getVar_setVar hw.2.1.1] at h
  split at h
  · rename_i he; subst he; exact X.inv.vlk v lk h
  · exact X.inv.vlk v' lk h

theorem iter_cverify {c : Client} {t : Nat} (X : Ctx vo ao c t) (v k : Nat)
    (hop : (getThread c t).prog[(getThread c t).pc]'X.hpc = .cverify v) (hph : (getThread c t).phase ≠ 0) :
    IterOk vo c t (runPhase P c t k (.cverify v) (getThread c t).phase) := by
  have hw := X.opWF
  simp only [hop, Op.vars, List.mem_cons, List.not_mem_nil, or_false, forall_eq] at hw
  have hrs := X.reader_stage hph (Or.inr (Or.inr ⟨v, hop⟩))
  obtain ⟨m, hm⟩ := Nat.exists_eq_succ_of_ne_zero hph
  rw [hm]
  simp only [runPhase]
  have L := fun g ho => light_setVar (vo := vo) (ao := ao) (c := c) (t := t) (v := v) (g := g) X hw.2.1.2 hw.2.1.1 ho
  refine X.iter_light (by rw [hop]; rfl) (by rw [hop]; rfl) (L _ (by rfl)).1 (L _ (by rfl)).2.1 (L _ (by rfl)).2.2.1 (L _ (by rfl)).2.2.2 ?_
      (X.reader_no_grant (Or.inr (by rw [hop]; rfl)) hrs)
  intro v' lk hv' h
  rw [getVar_setVar hw.2.1.1] at h
  split at h
  · rename_i he; subst he; exact X.inv.vlk v lk h
  · exact X.inv.vlk v' lk h

theorem kindOf_of_typed {c : Client} {v : Nat} {k : GKind} (h : c.kinds[v]? = some k) : kindOf c v = k := by
  simp [kindOf, Array.getD_eq_getD_getElem?, h]

theorem iter_getver {c : Client} {t : Nat} (X : Ctx vo ao c t) (d l k : Nat)
    (hop : (getThread c t).prog[(getThread c t).pc]'X.hpc = .getver d l) (hph : (getThread c t).phase ≠ 0) :
    IterOk vo c t (runPhase P c t k (.getver d l) (getThread c t).phase) := by
  have hw := X.opWF
  simp only [hop, Op.vars, Op.locks, Op.typed, List.mem_cons, List.not_mem_nil, or_false, forall_eq, beq_iff_eq] at hw
  have hko : own c d = none := X.inv.optNone d (kindOf_of_typed hw.1)
  have hrs := X.reader_stage hph (Or.inl ⟨d, l, hop⟩)
  obtain ⟨m, hm⟩ := Nat.exists_eq_succ_of_ne_zero hph
  rw [hm]
  simp only [runPhase]
  have L := fun g ho => light_setVar (vo := vo) (ao := ao) (c := c) (t := t) (v := d) (g := g) X hw.2.1.2 hw.2.1.1 ho
  have ho : ∀ x : BitVec 32, ({ lk := some l, ver := x } : GVal).own = (getVar c d).own := fun x => by
    simpa [own] using hko.symm
  refine X.iter_light (by rw [hop]; rfl) (by rw [hop]; rfl) (L _ (ho _)).1 (L _ (ho _)).2.1 (L _ (ho _)).2.2.1 (L _ (ho _)).2.2.2 ?_
      (X.reader_no_grant (Or.inl (by rw [hop]; rfl)) hrs)
  intro v' lk hv' h
  rw [getVar_setVar hw.2.1.1] at h
  split at h
  · simp only [Option.some.injEq] at h; subst h; exact hw.2.2
  · exact X.inv.vlk v' lk h

end CppUtil.WClient
