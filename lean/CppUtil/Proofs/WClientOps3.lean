/-
  Guard algebra, part 6: the temporaries — a finished call hands its grant to the prvalue (phase 1),
  the old grant of the target is released (phase 2), the target takes the temporary (phase 3).
-/
import CppUtil.Proofs.WClientOps2

set_option linter.unusedSimpArgs false
set_option linter.unusedVariables false

namespace CppUtil.WClient
open CppUtil CppUtil.WLock

variable {P : WParams} {vo : Nat → Nat} {ao : Nat → Nat → Nat}

theorem stage2_iff {V : View} {op : Op} (h : op.noTmp = false) : Stage V op 2 .none ↔ V.TmpOk op.outMode := by
  cases op <;> simp [Op.noTmp] at h <;> simp [Stage]

/-- facts about the request of the running call, read through the view -/
theorem CallAg.facts {c : Client} {t : Nat} {op : Op} {Q : Loc → Prop}
    (h : (viewOf vo ao c t).CallAg op Q) (hQ : ∀ l, Q l → l ≠ .idle) :
    opLk (viewOf vo ao c t).gv (getThread c t) op < c.locks.size ∧
    ao (opLk (viewOf vo ao c t).gv (getThread c t) op) (getThread c t).ag = t ∧
    Q (agentLoc c (opLk (viewOf vo ao c t).gv (getThread c t) op) (getThread c t).ag) ∧
    (∀ v, vo v = t → own c v ≠ some (opLk (viewOf vo ao c t).gv (getThread c t) op, (getThread c t).ag)) := by
  obtain ⟨h1, h2, h3⟩ := h
  have hne := hQ _ h2
  obtain ⟨h4, h5⟩ := viewOf_al_ne_idle hne
  refine ⟨h1, h4, ?_, ?_⟩
  · have : agentLoc c (opLk (viewOf vo ao c t).gv (getThread c t) op) (getThread c t).ag = (viewOf vo ao c t).al (opLk (viewOf vo ao c t).gv (getThread c t) op) (getThread c t).ag := h5.symm
    rw [this]; exact h2
  · intro v hv hown
    exact h3 v (by rw [viewOf_own hv]; exact hown)

/-- phase 1: the finished call's grant goes into the temporary -/
theorem Ctx.make_tmp {c c1 : Client} {t : Nat} (X : Ctx vo ao c t) (hph : (getThread c t).phase = 1)
    (hnt : ((getThread c t).prog[(getThread c t).pc]'X.hpc).noTmp = false)
    (htmpn : (getThread c t).tmp.own = none)
    {lk : Nat} {s : Word}
    (hlkeq : lk = opLk (viewOf vo ao c t).gv (getThread c t) ((getThread c t).prog[(getThread c t).pc]'X.hpc))
    (hlk : lk < c.locks.size) (hao : ao lk (getThread c t).ag = t)
    (hheld : agentLoc c lk (getThread c t).ag = .held ((getThread c t).prog[(getThread c t).pc]'X.hpc).outMode s)
    (hunref : ∀ v, vo v = t → own c v ≠ some (lk, (getThread c t).ag))
    (hs1 : SameFor vo ao t c c1) (hth1 : getThread c1 t = getThread c t) (hown1 : ∀ v, own c1 v = own c v)
    (hvlk1 : ∀ v lk, (getVar c1 v).lk = some lk → lk < c.locks.size)
    (hal1 : ∀ lk a, agentLoc c1 lk a = agentLoc c lk a)
    (g : GVal) (hg : g.own = some (lk, (getThread c t).ag)) (hgl : g.lk = some lk) (gid : Option Nat) (o : Out) :
    IterOk vo c t (setThread c1 t { (getThread c1 t) with tmp := g, tmpGid := gid }, o, .next) := by
  have ht1 : t < c1.threads.size := by rw [hs1.tsz]; exact X.ht
  rw [hth1]
  refine IterOk.next (ao' := ao) X (hs1.trans (SameFor.setThread ht1 (by rw [hth1]))) ?_ ?_ ?_
  · rw [getThread_setThread_self ht1]; exact X.fin
  · rw [getThread_setThread_self ht1]; exact X.pend
  rw [afterPhase_setThread _ ht1]
  obtain ⟨th', hth'⟩ : ∃ th', th' = bumpTh { (getThread c t) with tmp := g, tmpGid := gid } .next := ⟨_, rfl⟩
  rw [← hth']
  have e1 : th'.phase = 2 := by rw [hth']; simp [bumpTh, hph]
  have e2 : th'.pend = .none := by rw [hth']; simp [bumpTh, X.pend]
  have e3 : th'.tmp = g := by rw [hth']; simp [bumpTh]
  refine X.thread_only hs1 hown1 hvlk1 hal1 (by rw [hth']; rfl) ?_ ?_ ?_ ?_ ?_
  · intro v lk' a' hv _ hst
    exfalso; apply X.not_stale hv _ hst
    right; rw [hph]
    generalize (getThread c t).prog[(getThread c t).pc]'X.hpc = op at hnt
    cases op <;> simp [Op.noTmp] at hnt <;> simp [Op.relPhase]
  · intro lk' a' h
    rw [e3, hg] at h; cases h
    exact ⟨hlk, hao, ⟨_, _, hheld⟩, hunref⟩
  · intro lk' h; rw [e3, hgl] at h; cases h; exact hlk
  · intro lk' a' _ h _
    rcases h with h | h
    · rw [htmpn] at h; cases h
    · obtain ⟨_, _, h2, h3, _⟩ := h.eqs
      right; left; rw [e3, hg, h2, h3, ← hlkeq]
  · have hth : getThread (setThread c1 t th') t = th' := getThread_setThread_self ht1
    refine TOk_intro hth (by rw [hth']; simp [bumpTh, X.fin]) (by rw [e2]; simp) (by rw [hth']; exact X.hpc)
      ((getThread c t).prog[(getThread c t).pc]'X.hpc) (by subst hth'; rfl) ?_
    rw [e1, e2, stage2_iff hnt]
    right
    refine ⟨lk, (getThread c t).ag, s, ?_, ?_⟩
    · show (getThread (setThread c1 t th') t).tmp.own = _
      rw [hth, e3, hg]
    · rw [viewOf_al hao, agentLoc_setThread, hal1]; exact hheld

/-- phase 1 without a grant (failed `TryLock*`, optimistic `PrepareRead`, conversion of an empty guard) -/
theorem Ctx.no_tmp {c c1 : Client} {t : Nat} (X : Ctx vo ao c t) (hph : (getThread c t).phase = 1)
    (hnt : ((getThread c t).prog[(getThread c t).pc]'X.hpc).noTmp = false)
    (hnog : ∀ lk a, Uses vo ao c t lk a → (agentLoc c lk a).grant? = none)
    (hs1 : SameFor vo ao t c c1) (hth1 : getThread c1 t = getThread c t) (hown1 : ∀ v, own c1 v = own c v)
    (hvlk1 : ∀ v lk, (getVar c1 v).lk = some lk → lk < c.locks.size)
    (hal1 : ∀ lk a, agentLoc c1 lk a = agentLoc c lk a)
    (g : GVal) (hg : g.own = none) (hgl : ∀ lk, g.lk = some lk → lk < c.locks.size) (gid : Option Nat) (o : Out)
    (htmpn : (getThread c t).tmp.own = none) :
    IterOk vo c t (setThread c1 t { (getThread c1 t) with tmp := g, tmpGid := gid }, o, .next) := by
  have ht1 : t < c1.threads.size := by rw [hs1.tsz]; exact X.ht
  rw [hth1]
  refine IterOk.next (ao' := ao) X (hs1.trans (SameFor.setThread ht1 (by rw [hth1]))) ?_ ?_ ?_
  · rw [getThread_setThread_self ht1]; exact X.fin
  · rw [getThread_setThread_self ht1]; exact X.pend
  rw [afterPhase_setThread _ ht1]
  obtain ⟨th', hth'⟩ : ∃ th', th' = bumpTh { (getThread c t) with tmp := g, tmpGid := gid } .next := ⟨_, rfl⟩
  rw [← hth']
  have e1 : th'.phase = 2 := by rw [hth']; simp [bumpTh, hph]
  have e2 : th'.pend = .none := by rw [hth']; simp [bumpTh, X.pend]
  have e3 : th'.tmp = g := by rw [hth']; simp [bumpTh]
  refine X.thread_only hs1 hown1 hvlk1 hal1 (by rw [hth']; rfl) ?_ ?_ ?_ ?_ ?_
  · intro v lk' a' hv _ hst
    exfalso; apply X.not_stale hv _ hst
    right; rw [hph]
    generalize (getThread c t).prog[(getThread c t).pc]'X.hpc = op at hnt
    cases op <;> simp [Op.noTmp] at hnt <;> simp [Op.relPhase]
  · intro lk' a' h; rw [e3, hg] at h; cases h
  · intro lk' h; rw [e3] at h; exact hgl lk' h
  · intro lk' a' _ h hgr
    rcases h with h | h
    · rw [htmpn] at h; cases h
    · exact absurd (hnog lk' a' h) hgr
  · have hth : getThread (setThread c1 t th') t = th' := getThread_setThread_self ht1
    refine TOk_intro hth (by rw [hth']; simp [bumpTh, X.fin]) (by rw [e2]; simp) (by rw [hth']; exact X.hpc)
      ((getThread c t).prog[(getThread c t).pc]'X.hpc) (by subst hth'; rfl) ?_
    rw [e1, e2, stage2_iff hnt]
    left
    show (getThread (setThread c1 t th') t).tmp.own = _
    rw [hth, e3, hg]


/-- phase 1 of `Lock*`, `TryLock*`, `PrepareRead` as recorded by `Stage` -/
theorem Ctx.stage1_call {c : Client} {t : Nat} (X : Ctx vo ao c t) (hph : (getThread c t).phase = 1)
    (hop : (∃ m d l, (getThread c t).prog[(getThread c t).pc]'X.hpc = .lock m d l) ∨
           (∃ m d s, (getThread c t).prog[(getThread c t).pc]'X.hpc = .tryLock m d s) ∨
           (∃ d l, (getThread c t).prog[(getThread c t).pc]'X.hpc = .prep d l)) :
    (getThread c t).tmp.own = none ∧ ∃ k, ((getThread c t).prog[(getThread c t).pc]'X.hpc).call? = some k ∧
      (viewOf vo ao c t).CallAg ((getThread c t).prog[(getThread c t).pc]'X.hpc) k.result := by
  have hst := X.stage
  rw [hph] at hst
  have hvth : (viewOf vo ao c t).th = getThread c t := rfl
  rcases hop with ⟨m, d, l, h⟩ | ⟨m, d, s, h⟩ | ⟨d, l, h⟩ <;> rw [h] at hst ⊢ <;>
    simpa [Stage, hvth] using hst

theorem result_ne_idle (k : CallK) : ∀ l, k.result l → l ≠ .idle := by
  intro l h
  cases k <;> simp only [CallK.result] at h
  all_goals first
    | (obtain ⟨s, rfl⟩ := h; simp; done)
    | (rcases h with ⟨s, rfl⟩ | ⟨r, rfl⟩ <;> simp)

theorem iter_lock1 {c : Client} {t : Nat} (X : Ctx vo ao c t) (m : Mode) (d lk k : Nat)
    (hop : (getThread c t).prog[(getThread c t).pc]'X.hpc = .lock m d lk) (hph : (getThread c t).phase = 1) :
    IterOk vo c t (runPhase P c t k (.lock m d lk) (getThread c t).phase) := by
  obtain ⟨htmpn, k', hk', hca⟩ := X.stage1_call hph (Or.inl ⟨m, d, lk, hop⟩)
  rw [hop] at hk' hca
  cases hk'
  obtain ⟨h1, h2, ⟨s, h3⟩, h4⟩ := CallAg.facts hca (result_ne_idle _)
  have hlk : opLk (viewOf vo ao c t).gv (getThread c t) (.lock m d lk) = lk := rfl
  rw [hlk] at h1 h2 h3 h4
  rw [hph]
  simp only [runPhase]
  exact X.make_tmp (c1 := { c with nextGid := c.nextGid + 1 }) hph (by rw [hop]; rfl) htmpn (lk := lk) (s := s)
    (by rw [hop]; rfl) h1 h2 (by rw [hop]; exact h3) h4 SameFor.nextGid rfl (fun _ => rfl) (fun v l h => X.inv.vlk v l h)
    (fun _ _ => rfl) _ rfl rfl _ _


/-- the request of the running call is finished without a grant: `Uses` points at no grant -/
theorem Ctx.uses_done {c : Client} {t : Nat} (X : Ctx vo ao c t) {r : Word}
    (h : agentLoc c (opLk (viewOf vo ao c t).gv (getThread c t) ((getThread c t).prog[(getThread c t).pc]'X.hpc))
      (getThread c t).ag = .done r) :
    ∀ lk a, Uses vo ao c t lk a → (agentLoc c lk a).grant? = none := by
  intro lk a hu
  obtain ⟨_, _, h2, h3, _⟩ := hu.eqs
  rw [h2, h3, h]; rfl

theorem iter_prep1 {c : Client} {t : Nat} (X : Ctx vo ao c t) (d lk k : Nat)
    (hop : (getThread c t).prog[(getThread c t).pc]'X.hpc = .prep d lk) (hph : (getThread c t).phase = 1) :
    IterOk vo c t (runPhase P c t k (.prep d lk) (getThread c t).phase) := by
  obtain ⟨htmpn, k', hk', hca⟩ := X.stage1_call hph (Or.inr (Or.inr ⟨d, lk, hop⟩))
  rw [hop] at hk' hca
  cases hk'
  obtain ⟨h1, h2, h3, h4⟩ := CallAg.facts hca (result_ne_idle _)
  have hlk : opLk (viewOf vo ao c t).gv (getThread c t) (.prep d lk) = lk := rfl
  rw [hlk] at h1 h2 h3 h4
  rw [hph]
  simp only [runPhase]
  rcases h3 with ⟨s, h3⟩ | ⟨r, h3⟩
  · simp only [h3]
    exact X.make_tmp (c1 := { c with nextGid := c.nextGid + 1 }) hph (by rw [hop]; rfl) htmpn (lk := lk) (s := s)
      (by rw [hop]; rfl) h1 h2 (by rw [hop]; exact h3) h4 SameFor.nextGid rfl (fun _ => rfl) (fun v l h => X.inv.vlk v l h)
      (fun _ _ => rfl) _ rfl rfl _ _
  · simp only [h3]
    exact X.no_tmp (c1 := c) hph (by rw [hop]; rfl) (X.uses_done (r := r) (by rw [hop]; exact h3)) (SameFor.refl c t) rfl
      (fun _ => rfl) (fun v l h => X.inv.vlk v l h) (fun _ _ => rfl) _ rfl
      (fun l h => by simp only [Option.some.injEq] at h; subst h; exact h1) _ _ htmpn

theorem iter_try1 {c : Client} {t : Nat} (X : Ctx vo ao c t) (m : Mode) (d s k : Nat)
    (hop : (getThread c t).prog[(getThread c t).pc]'X.hpc = .tryLock m d s) (hph : (getThread c t).phase = 1) :
    IterOk vo c t (runPhase P c t k (.tryLock m d s) (getThread c t).phase) := by
  obtain ⟨htmpn, k', hk', hca⟩ := X.stage1_call hph (Or.inr (Or.inl ⟨m, d, s, hop⟩))
  have hw := X.opWF
  simp only [hop, Op.vars, List.mem_cons, List.not_mem_nil, or_false, forall_eq_or_imp, forall_eq] at hw
  rw [hop] at hk' hca
  cases hk'
  obtain ⟨h1, h2, h3, h4⟩ := CallAg.facts hca (result_ne_idle _)
  have hlk : opLk (viewOf vo ao c t).gv (getThread c t) (.tryLock m d s) = (getVar c s).lk.getD 0 := by
    simp [opLk, viewOf, hw.2.1.2.2]
  rw [hlk] at h1 h2 h3 h4
  rw [hph]
  simp only [runPhase]
  have L := fun g ho => light_setVar (vo := vo) (ao := ao) (c := c) (t := t) (v := s) (g := g) X hw.2.1.2.2 hw.2.1.2.1 ho
  have hvlk : ∀ (x : BitVec 32) v l, (getVar (setVar c s { getVar c s with ver := x }) v).lk = some l → l < c.locks.size := by
    intro x v l h
    rw [getVar_setVar hw.2.1.2.1] at h
    split at h
    · exact X.inv.vlk s l h
    · exact X.inv.vlk v l h
  rcases h3 with ⟨sn, h3⟩ | ⟨r, h3⟩
  · simp only [h3]
    exact X.make_tmp (c1 := { setVar c s { getVar c s with ver := P.verOf sn } with nextGid := c.nextGid + 1 })
      hph (by rw [hop]; rfl) htmpn (lk := (getVar c s).lk.getD 0) (s := sn)
      (by rw [hop]; exact hlk.symm) h1 h2 (by rw [hop]; exact h3) h4
      ((L _ (by rfl)).1.trans SameFor.nextGid) rfl (L _ (by rfl)).2.2.1 (hvlk _) (L _ (by rfl)).2.2.2 _ rfl rfl _ _
  · simp only [h3]
    exact X.no_tmp (c1 := setVar c s { getVar c s with ver := P.verOf r }) hph (by rw [hop]; rfl)
      (X.uses_done (r := r) (by rw [hop, hlk]; exact h3)) (L _ (by rfl)).1 rfl
      (L _ (by rfl)).2.2.1 (hvlk _) (L _ (by rfl)).2.2.2 _ rfl (fun l h => by cases h) _ _ htmpn


theorem setThread_getThread {c : Client} {t : Nat} : setThread c t (getThread c t) = c := by
  simp only [setThread, getThread]
  have : c.threads.setIfInBounds t (c.threads.getD t {}) = c.threads := by
    apply Array.ext
    · simp
    · intro i h1 h2
      by_cases h : t = i
      · subst h; simp [Array.getD_eq_getD_getElem?, Array.getElem?_eq_getElem h2]
      · rw [Array.getElem_setIfInBounds h2]; simp [h]
  rw [this]

/-- phase 1 of a conversion as recorded by `Stage` -/
theorem Ctx.stage1_conv {c : Client} {t : Nat} (X : Ctx vo ao c t) (hph : (getThread c t).phase = 1)
    (hop : (∃ d s, (getThread c t).prog[(getThread c t).pc]'X.hpc = .upg d s) ∨
           (∃ d s, (getThread c t).prog[(getThread c t).pc]'X.hpc = .dng d s)) :
    (getThread c t).tmp.own = none ∧ ((getThread c t).tmp.lk = none ∨ ((getThread c t).tmp.lk.isSome ∧
      (viewOf vo ao c t).CallAg ((getThread c t).prog[(getThread c t).pc]'X.hpc)
        (fun l => ∃ s, l = .held ((getThread c t).prog[(getThread c t).pc]'X.hpc).outMode s))) := by
  have hst := X.stage
  rw [hph] at hst
  have hvth : (viewOf vo ao c t).th = getThread c t := rfl
  rcases hop with ⟨d, s, h⟩ | ⟨d, s, h⟩ <;> rw [h] at hst ⊢ <;>
    simpa [Stage, hvth] using hst

theorem iter_conv1 {c : Client} {t : Nat} (X : Ctx vo ao c t) (d s k : Nat) (up : Bool)
    (hop : (getThread c t).prog[(getThread c t).pc]'X.hpc = (if up then .upg d s else .dng d s))
    (hph : (getThread c t).phase = 1) :
    IterOk vo c t (runPhase P c t k (if up then .upg d s else .dng d s) (getThread c t).phase) := by
  have hop' : (∃ d s, (getThread c t).prog[(getThread c t).pc]'X.hpc = .upg d s) ∨
           (∃ d s, (getThread c t).prog[(getThread c t).pc]'X.hpc = .dng d s) := by
    cases up
    · exact Or.inr ⟨d, s, by simpa using hop⟩
    · exact Or.inl ⟨d, s, by simpa using hop⟩
  obtain ⟨htmpn, hst⟩ := X.stage1_conv hph hop'
  have hnt : ((getThread c t).prog[(getThread c t).pc]'X.hpc).noTmp = false := by
    rw [hop]; cases up <;> rfl
  have hlkop : opLk (viewOf vo ao c t).gv (getThread c t) ((getThread c t).prog[(getThread c t).pc]'X.hpc)
      = (getThread c t).tmp.lk.getD 0 := by
    rw [hop]; cases up <;> rfl
  rw [hph]
  cases hl : (getThread c t).tmp.lk with
  | none =>
    have hnog : ∀ lk a, Uses vo ao c t lk a → (agentLoc c lk a).grant? = none := by
      intro lk a hu
      obtain ⟨_, _, _, _, h5⟩ := hu.eqs
      rw [hop] at h5
      cases up <;> simp [usesReq, hl] at h5
    have h := X.no_tmp (c1 := c) hph hnt hnog (SameFor.refl c t) rfl (fun _ => rfl) (fun v l h => X.inv.vlk v l h)
      (fun _ _ => rfl) (getThread c t).tmp htmpn (fun l h => X.inv.tmpLk t l h) (getThread c t).tmpGid [] htmpn
    have he : setThread c t { (getThread c t) with tmp := (getThread c t).tmp, tmpGid := (getThread c t).tmpGid } = c :=
      setThread_getThread
    rw [he] at h
    cases up <;> simp only [runPhase, hl, if_true, if_false, Bool.false_eq_true] <;> exact h
  | some lk =>
    rcases hst with hst | ⟨_, hca⟩
    · rw [hl] at hst; cases hst
    · obtain ⟨h1, h2, ⟨sn, h3⟩, h4⟩ := CallAg.facts hca (by rintro l ⟨s, rfl⟩; simp)
      rw [hlkop, hl] at h1 h2 h3 h4
      simp only [Option.getD_some] at h1 h2 h3 h4 <;> skip
      have hmk := fun g hg hgl gid o => X.make_tmp (c1 := c) hph hnt htmpn (lk := lk) (s := sn)
        (by rw [hlkop, hl]; rfl) h1 h2 h3 h4 (SameFor.refl c t) rfl (fun _ => rfl) (fun v l h => X.inv.vlk v l h)
        (fun _ _ => rfl) g hg hgl gid o
      cases up
      · simp only [runPhase, hl, if_false, Bool.false_eq_true]
        exact hmk _ rfl rfl _ _
      · simp only [runPhase, hl, if_true]
        exact hmk _ rfl rfl _ _

end CppUtil.WClient
