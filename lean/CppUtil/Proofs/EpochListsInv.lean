/-
  The epoch protocol with its list nodes (`Model/EpochLists.lean`) keeps its invariant under every
  interleaving in which no `EnterEpoch` store is stale (ghost `stale`, the premise whose failure is known
  finding F6):
    * the chain is strictly descending, its head is the node of the newest range in use;
    * every epoch that somebody may still look up — the current epoch, the epoch of every complete guard,
      the epoch a worker has loaded and is about to store, the epochs the running scan has collected — has
      its node in the chain, and the vector in that node is the one published for that epoch;
    * published vectors have the C17 shape and are never written again;
    * a worker between the two halves of `EnterEpoch` holds the current epoch, or the previous one while the
      coordinator has not yet passed its slot; a complete guard of a slot the scan has passed is collected or
      holds the coordinator's `cur`.
  Consequences: `guard_list`, `pub_run` (C17 for every interleaving), `fwd_enabled` (the coordinator's list
  handling never hangs or runs off the chain).
-/
import CppUtil.Model.EpochLists
import CppUtil.Proofs.EpochProtoInv
import CppUtil.Proofs.EpochPublish

namespace CppUtil.EpochLists
open CppUtil CppUtil.Epoch CppUtil.EpochProto

def top (s : LSt) : Nat :=
  match s.p.c with
  | .idle => s.p.G
  | .storeM _ _ => s.p.G
  | .scanChk cur _ _ => cur + 1
  | .scanLoad cur _ _ => cur + 1
  | .storeG cur _ => cur + 1

def pubTop (s : LSt) : Nat :=
  match s.p.c with
  | .storeG cur _ => cur + 1
  | _ => s.p.G

def lagOK : CPc → Nat → Prop
  | .idle, _ => True
  | .storeM _ _, _ => True
  | .scanChk _ i _, id => i ≤ id
  | .scanLoad _ i _, id => i ≤ id
  | .storeG _ _, _ => False

def protC : CPc → Nat → Prop
  | .scanChk cur _ coll, p => p ∈ coll ∧ p ≠ cur + 1
  | .scanLoad cur _ coll, p => p ∈ coll ∧ p ≠ cur + 1
  | .storeG _ list, p => p ∈ list
  | _, _ => False

/-- the epochs whose vector must stay available -/
def Prot (s : LSt) (p : Nat) : Prop :=
  p = s.p.G ∨ (∃ t, wpc s.p t = .guarded p) ∨ (∃ t, wpc s.p t = .entS p) ∨ protC s.p.c p

/-- where a complete guard of slot `id` with epoch `e` must already be accounted for -/
def covOK : CPc → Nat → Nat → Prop
  | .scanChk _ i coll, id, e => id < i → e ∈ coll
  | .scanLoad _ i coll, id, e => id < i → e ∈ coll
  | .storeG _ list, _, e => e ∈ list
  | _, _, _ => True

def collC (C : Consts) : CPc → Prop
  | .scanChk cur _ coll => ∃ rest, coll = (cur + 1) :: cur :: rest ∧ ∀ x ∈ rest, x ≤ cur ∧ C.kInitialEpoch ≤ x
  | .scanLoad cur _ coll => ∃ rest, coll = (cur + 1) :: cur :: rest ∧ ∀ x ∈ rest, x ≤ cur ∧ C.kInitialEpoch ≤ x
  | .storeG cur list => cur + 1 ∈ list
  | _ => True

structure LInv (C : Consts) (n : Nat) (s : LSt) : Prop where
  base : EpochProto.Inv C.kInitialEpoch n s.p
  ns : s.stale = false
  glt : s.p.G < sizeMax
  chain : ChainDesc s.nodes
  lower : ∀ nd ∈ s.nodes, C.kInitialEpoch ≤ nd.upper
  head : ∃ h t, s.nodes = h :: t ∧ h.upper = upperOf C (top s)
  shape : ∀ e, C.kInitialEpoch ≤ e → e ≤ pubTop s → Shape C e (s.pub e)
  lists : ∀ p, Prot s p → ∃ nd ∈ s.nodes, nd.upper = upperOf C p ∧ vecOf nd (lowerOf C p) = s.pub p
  wge : ∀ t v, (wpc s.p t = .entS v ∨ wpc s.p t = .guarded v) → C.kInitialEpoch ≤ v
  fresh : ∀ t id v, s.p.ids.threads[t]? = some (.owner id) → wpc s.p t = .entS v →
    v = s.p.G ∨ (v + 1 = s.p.G ∧ lagOK s.p.c id)
  cov : ∀ t id e, s.p.ids.threads[t]? = some (.owner id) → wpc s.p t = .guarded e → covOK s.p.c id e
  coll : collC C s.p.c

theorem curge {C : Consts} {n : Nat} {s : LSt} (hI : LInv C n s) : C.kInitialEpoch ≤ s.p.G := by
  have := hI.base.cnt; omega

theorem linv_init (C : Consts) (hC : GoodConsts C) (n nthreads : Nat) (hlt : C.kInitialEpoch < sizeMax) :
    LInv C n (mkL C n nthreads) := by
  have hw : ∀ t, wpc (mkL C n nthreads).p t = .idle := by
    intro t; unfold wpc mkL EpochProto.mkSt; exact getD_replicate _ _ _
  have hsi := sinv_init C hC
  refine ⟨inv_init _ n nthreads, rfl, hlt, hsi.chain, hsi.lower, hsi.head, ?_, ?_, ?_, ?_, ?_, trivial⟩
  · intro e h1 h2
    have := hsi.shape e h1 h2
    exact this
  · intro p hp
    rcases hp with hp | ⟨t, ht⟩ | ⟨t, ht⟩ | hp
    · exact hsi.lists p (Or.inl hp)
    · rw [hw] at ht; cases ht
    · rw [hw] at ht; cases ht
    · exact absurd hp (by simp [mkL, EpochProto.mkSt, protC])
  · intro t v h; rw [hw] at h; rcases h with h | h <;> cases h
  · intro t id v _ h; rw [hw] at h; cases h
  · intro t id e _ h; rw [hw] at h; cases h


/-! ### characterisation of the protocol model's non-coordinator steps -/

/-- IDManager steps do not touch threads that are inside CreateEpochGuard or hold a guard -/
theorem id_busy_same {g0 n : Nat} {s : EpochProto.St} (hI : Inv g0 n s) {a : IdMgr.Act} {ids' : IdMgr.St} {e : Option Ev}
    (h : IdMgr.step n true s.ids a = some (ids', e)) (hex : ∀ t, a = .beginExit t → wpc s t = .idle) :
    ∀ t', wpc s t' ≠ .idle → ids'.threads[t']? = s.ids.threads[t']? := by
  obtain ⟨t, old, new, hold, hth, htr, hown⟩ := step_char h
  have hidle : wpc s t = .idle := by
    by_cases hw : wpc s t = .idle
    · exact hw
    · obtain ⟨id, hid⟩ := hI.wown t hw
      rw [hold] at hid
      exact hex t (hown id (Option.some.inj hid))
  intro t' hw
  rw [hth, List.getElem?_set_ne]
  intro e; subst e; exact hw hidle

theorem idStep_char {n : Nat} {s s' : EpochProto.St} {a : IdMgr.Act} (h : idStep n true s a = some s') :
    ∃ ids' e, IdMgr.step n true s.ids a = some (ids', e) ∧ s' = { s with ids := ids' } := by
  unfold idStep at h
  split at h
  · rename_i ids e hs; cases h; exact ⟨ids, e, hs, rfl⟩
  · cases h

/-- what an `.id` action is: an IDManager step that respects "guards are destroyed before exit" -/
theorem id_char {n : Nat} {s s' : EpochProto.St} {a : IdMgr.Act} (h : step n true s (.id a) = some s') :
    ∃ ids' e, IdMgr.step n true s.ids a = some (ids', e) ∧ s' = { s with ids := ids' } ∧
      (∀ t, a = .beginExit t → wpc s t = .idle) := by
  cases a with
  | beginExit t =>
    simp only [step] at h
    split at h
    · rename_i hw
      obtain ⟨ids', e, h1, h2⟩ := idStep_char h
      exact ⟨ids', e, h1, h2, by intro t' e; cases e; exact hw⟩
    · cases h
  | begin t st =>
    simp only [step] at h
    obtain ⟨ids', e, h1, h2⟩ := idStep_char h
    exact ⟨ids', e, h1, h2, by intro t' e; cases e⟩
  | atom t =>
    simp only [step] at h
    obtain ⟨ids', e, h1, h2⟩ := idStep_char h
    exact ⟨ids', e, h1, h2, by intro t' e; cases e⟩

/-- a worker step: thread `t` (owner of `id`) moves to `x`; the shared epoch words and the coordinator stay -/
theorem worker_char {n : Nat} {s s' : EpochProto.St} {a : EpochProto.Act} {t : Nat} (ha : a = .create t ∨ a = .wstep t)
    (h : step n true s a = some s') :
    ∃ id x, s.ids.threads[t]? = some (.owner id) ∧ s'.w = s.w.set t x ∧ s'.ids = s.ids ∧ s'.G = s.G ∧ s'.c = s.c ∧
      ((wpc s t = .entL ∧ x = .entS s.G) ∨ (∃ v, wpc s t = .entS v ∧ x = .guarded v) ∨
       ((∀ v, x ≠ .entS v) ∧ (∀ v, x ≠ .guarded v))) := by
  rcases ha with rfl | rfl
  · simp only [step] at h
    split at h
    · rename_i id ho
      split at h
      · cases h
        exact ⟨id, .bindChk, ownId_some ho, rfl, rfl, rfl, rfl, Or.inr (Or.inr ⟨(by intro v e; cases e), (by intro v e; cases e)⟩)⟩
      · cases h
    · cases h
  · simp only [step] at h
    split at h
    · cases h
    · rename_i id ho
      have hown := ownId_some ho
      split at h
      · cases h
      · cases h
        refine ⟨id, _, hown, rfl, rfl, rfl, rfl, Or.inr (Or.inr ⟨?_, ?_⟩)⟩ <;> intro v e <;> split at e <;> cases e
      · cases h
        exact ⟨id, _, hown, rfl, rfl, rfl, rfl, Or.inr (Or.inr ⟨(by intro v e; cases e), (by intro v e; cases e)⟩)⟩
      · rename_i hw
        cases h
        exact ⟨id, _, hown, rfl, rfl, rfl, rfl, Or.inl ⟨hw, rfl⟩⟩
      · rename_i v hw
        cases h
        exact ⟨id, _, hown, rfl, rfl, rfl, rfl, Or.inr (Or.inl ⟨v, hw, rfl⟩)⟩
      · cases h
        exact ⟨id, _, hown, rfl, rfl, rfl, rfl, Or.inr (Or.inr ⟨(by intro v e; cases e), (by intro v e; cases e)⟩)⟩


/-! ### non-coordinator steps keep the list invariant -/

theorem linv_id {C : Consts} {n : Nat} {s : LSt} (hI : LInv C n s) {a : IdMgr.Act} {ids' : IdMgr.St} {e : Option Ev}
    (h : IdMgr.step n true s.p.ids a = some (ids', e)) (hex : ∀ t, a = .beginExit t → wpc s.p t = .idle)
    (hb : EpochProto.Inv C.kInitialEpoch n { s.p with ids := ids' }) :
    LInv C n { s with p := { s.p with ids := ids' } } := by
  have hsame := id_busy_same hI.base h hex
  refine ⟨hb, hI.ns, hI.glt, hI.chain, hI.lower, hI.head, hI.shape, hI.lists, hI.wge, ?_, ?_, hI.coll⟩
  · intro t id v ht hw
    have ht' : ids'.threads[t]? = some (.owner id) := ht
    rw [hsame t (by rw [show wpc s.p t = .entS v from hw]; simp)] at ht'
    exact hI.fresh t id v ht' hw
  · intro t id e ht hw
    have ht' : ids'.threads[t]? = some (.owner id) := ht
    rw [hsame t (by rw [show wpc s.p t = .guarded e from hw]; simp)] at ht'
    exact hI.cov t id e ht' hw

theorem linv_worker {C : Consts} {n : Nat} {s : LSt} (hI : LInv C n s) {p' : EpochProto.St} {t id : Nat} {x : WPc}
    (hb : EpochProto.Inv C.kInitialEpoch n p')
    (hown : s.p.ids.threads[t]? = some (.owner id)) (hw : p'.w = s.p.w.set t x) (hids : p'.ids = s.p.ids)
    (hG : p'.G = s.p.G) (hc : p'.c = s.p.c)
    (hx : (wpc s.p t = .entL ∧ x = .entS s.p.G) ∨ (∃ v, wpc s.p t = .entS v ∧ x = .guarded v) ∨
       ((∀ v, x ≠ .entS v) ∧ (∀ v, x ≠ .guarded v))) :
    LInv C n { s with p := p' } := by
  have hlt : t < s.p.w.length := by rw [hI.base.wlen]; exact IdMgr.getElem?_lt' hown
  obtain ⟨hws, hwn⟩ := wpc_set hw hlt
  have hco := hI.base.coord
  -- what the new location of `t` can be
  have hxS : ∀ v, x = .entS v → v = s.p.G := by
    intro v hv
    rcases hx with ⟨_, h2⟩ | ⟨v', _, h2⟩ | ⟨h2, _⟩
    · rw [h2] at hv; cases hv; rfl
    · rw [h2] at hv; cases hv
    · exact absurd hv (h2 v)
  have hxG : ∀ v, x = .guarded v → wpc s.p t = .entS v := by
    intro v hv
    rcases hx with ⟨_, h2⟩ | ⟨v', h1, h2⟩ | ⟨_, h2⟩
    · rw [h2] at hv; cases hv
    · rw [h2] at hv; cases hv; exact h1
    · exact absurd hv (h2 v)
  have hprot : ∀ p, Prot { s with p := p' } p → Prot s p := by
    intro p hp
    rcases hp with hp | ⟨t', ht'⟩ | ⟨t', ht'⟩ | hp
    · exact Or.inl (by rw [← hG]; exact hp)
    · by_cases htt : t' = t
      · subst htt
        have ht'' : wpc p' t' = .guarded p := ht'
        rw [hws] at ht''
        exact Or.inr (Or.inr (Or.inl ⟨t', hxG p ht''⟩))
      · have ht'' : wpc p' t' = .guarded p := ht'
        rw [hwn t' htt] at ht''
        exact Or.inr (Or.inl ⟨t', ht''⟩)
    · by_cases htt : t' = t
      · subst htt
        have ht'' : wpc p' t' = .entS p := ht'
        rw [hws] at ht''
        exact Or.inl (hxS p ht'')
      · have ht'' : wpc p' t' = .entS p := ht'
        rw [hwn t' htt] at ht''
        exact Or.inr (Or.inr (Or.inl ⟨t', ht''⟩))
    · have hp' : protC p'.c p := hp
      rw [hc] at hp'
      exact Or.inr (Or.inr (Or.inr hp'))
  refine ⟨hb, hI.ns, by show p'.G < sizeMax; rw [hG]; exact hI.glt, hI.chain, hI.lower, ?_, ?_, ?_, ?_, ?_, ?_, ?_⟩
  · have := hI.head
    unfold top at *
    show ∃ h t, s.nodes = h :: t ∧ h.upper = upperOf C (match p'.c with
      | .idle => p'.G | .storeM _ _ => p'.G | .scanChk cur _ _ => cur + 1 | .scanLoad cur _ _ => cur + 1
      | .storeG cur _ => cur + 1)
    rw [hc, hG]; exact this
  · intro e h1 h2
    apply hI.shape e h1
    unfold pubTop at *
    have h2' : e ≤ (match p'.c with | .storeG cur _ => cur + 1 | _ => p'.G) := h2
    rw [hc, hG] at h2'; exact h2'
  · intro p hp; exact hI.lists p (hprot p hp)
  · intro t' v hv
    by_cases htt : t' = t
    · subst htt
      have hv' : wpc p' t' = .entS v ∨ wpc p' t' = .guarded v := hv
      rw [hws] at hv'
      rcases hv' with hv' | hv'
      · rw [hxS v hv']; exact curge hI
      · exact hI.wge t' v (Or.inl (hxG v hv'))
    · have hv' : wpc p' t' = .entS v ∨ wpc p' t' = .guarded v := hv
      rw [hwn t' htt] at hv'
      exact hI.wge t' v hv'
  · intro t' id' v ht' hv
    have ht'' : s.p.ids.threads[t']? = some (.owner id') := by rw [← hids]; exact ht'
    show v = p'.G ∨ (v + 1 = p'.G ∧ lagOK p'.c id')
    rw [hG, hc]
    by_cases htt : t' = t
    · subst htt
      have hv' : wpc p' t' = .entS v := hv
      rw [hws] at hv'
      exact Or.inl (hxS v hv')
    · have hv' : wpc p' t' = .entS v := hv
      rw [hwn t' htt] at hv'
      exact hI.fresh t' id' v ht'' hv'
  · intro t' id' e ht' hv
    have ht'' : s.p.ids.threads[t']? = some (.owner id') := by rw [← hids]; exact ht'
    show covOK p'.c id' e
    rw [hc]
    by_cases htt : t' = t
    · subst htt
      have hv' : wpc p' t' = .guarded e := hv
      rw [hws] at hv'
      have hs := hxG e hv'
      have hidd := owner_inj hown ht''
      subst hidd
      -- the store is fresh: the epoch is the coordinator's `cur`, or the slot has not been scanned yet
      have hf := hI.fresh t' id e hown hs
      unfold CoordOK at hco
      cases hcc : s.p.c with
      | idle => trivial
      | storeM cur list => trivial
      | scanChk cur i coll =>
        rw [hcc] at hco hf
        intro hlt'
        rcases hf with hf | ⟨_, hf⟩
        · rw [hf, ← hco.1]; exact hco.2
        · have : i ≤ id := hf
          omega
      | scanLoad cur i coll =>
        rw [hcc] at hco hf
        intro hlt'
        rcases hf with hf | ⟨_, hf⟩
        · rw [hf, ← hco.1]; exact hco.2
        · have : i ≤ id := hf
          omega
      | storeG cur list =>
        rw [hcc] at hco hf
        rcases hf with hf | ⟨_, hf⟩
        · show e ∈ list
          rw [hf, ← hco.1]; exact hco.2.2
        · exact absurd hf (by simp [lagOK])
    · have hv' : wpc p' t' = .guarded e := hv
      rw [hwn t' htt] at hv'
      exact hI.cov t' id' e ht'' hv'
  · show collC C p'.c
    rw [hc]; exact hI.coll


/-! ### the coordinator: scan progress and publication -/

theorem publishSorted_of_publish {C : Consts} {nodes chain : List PNode} {next : Nat} {coll v freed : List Nat}
    (h : publish C nodes next coll = some (chain, v, freed)) :
    v = sortDescDedup coll ∧ publishSorted C nodes next (sortDescDedup coll) = some (chain, freed) := by
  unfold publish at h
  unfold publishSorted
  cases hf : findNode C next nodes with
  | none => rw [hf] at h; cases h
  | some nd =>
    rw [hf] at h
    simp only at h ⊢
    cases hr : removeOutdated C (setList C next (sortDescDedup coll) nodes) (sortDescDedup coll) with
    | none => rw [hr] at h; cases h
    | some r =>
      rw [hr] at h
      obtain ⟨c1, f1⟩ := r
      simp only [Option.some.injEq, Prod.mk.injEq] at h
      obtain ⟨h1, h2, h3⟩ := h
      subst h1; subst h3
      exact ⟨h2.symm, rfl⟩

theorem linv_finishScan {C : Consts} (hC : GoodConsts C) {n : Nat} {s : LSt} (hI : LInv C n s)
    {cur i : Nat} {coll coll' : List Nat}
    (hc : s.p.c = .scanChk cur i coll ∨ s.p.c = .scanLoad cur i coll)
    {p' : EpochProto.St} (hb : EpochProto.Inv C.kInitialEpoch n p')
    (hpw : p'.w = s.p.w) (hpids : p'.ids = s.p.ids) (hpG : p'.G = s.p.G)
    (hpc : p'.c = afterScan n cur (i + 1) coll')
    (hcoll : ∃ rest, coll' = (cur + 1) :: cur :: rest ∧ ∀ x ∈ rest, x ≤ cur ∧ C.kInitialEpoch ≤ x)
    (hprot : ∀ p, p ∈ coll' → p ≠ cur + 1 → Prot s p)
    (hsub : ∀ x ∈ coll, x ∈ coll')
    (hfresh : ∀ t v, s.p.ids.threads[t]? = some (.owner i) → wpc s.p t = .entS v → v = s.p.G)
    (hcov : ∀ t e, s.p.ids.threads[t]? = some (.owner i) → wpc s.p t = .guarded e → e ∈ coll') :
    ∃ s', finishScan C s p' false = some s' ∧ LInv C n s' := by
  have hwp : ∀ t, wpc p' t = wpc s.p t := by intro t; unfold wpc; rw [hpw]
  have hco := hI.base.coord
  have hcurG : cur = s.p.G := by
    unfold CoordOK at hco
    rcases hc with hc | hc <;> rw [hc] at hco <;> exact hco.1
  have htop : top s = cur + 1 := by unfold top; rcases hc with hc | hc <;> rw [hc]
  have hptop : pubTop s = s.p.G := by unfold pubTop; rcases hc with hc | hc <;> rw [hc]
  have hfr : ∀ t id v, s.p.ids.threads[t]? = some (.owner id) → wpc s.p t = .entS v →
      v = s.p.G ∨ (v + 1 = s.p.G ∧ i + 1 ≤ id) := by
    intro t id v ht hv
    by_cases hid : id = i
    · subst hid; exact Or.inl (hfresh t v ht hv)
    · rcases hI.fresh t id v ht hv with h | ⟨h1, h2⟩
      · exact Or.inl h
      · right; refine ⟨h1, ?_⟩
        have : i ≤ id := by rcases hc with hc | hc <;> rw [hc] at h2 <;> exact h2
        omega
  have hcv : ∀ t id e, s.p.ids.threads[t]? = some (.owner id) → wpc s.p t = .guarded e → id < i + 1 → e ∈ coll' := by
    intro t id e ht hg hlt
    by_cases hid : id = i
    · subst hid; exact hcov t e ht hg
    · have := hI.cov t id e ht hg
      have h' : id < i → e ∈ coll := by rcases hc with hc | hc <;> rw [hc] at this <;> exact this
      exact hsub e (h' (by omega))
  by_cases hin : i + 1 < n
  · -- next slot
    have hpc' : p'.c = .scanChk cur (i + 1) coll' := by rw [hpc]; unfold afterScan; rw [if_pos hin]
    refine ⟨{ s with p := p', stale := false }, by unfold finishScan; rw [hpc'], ?_⟩
    refine ⟨hb, rfl, by show p'.G < sizeMax; rw [hpG]; exact hI.glt, hI.chain, hI.lower, ?_, ?_, ?_, ?_, ?_, ?_, ?_⟩
    · have := hI.head
      rw [htop] at this
      have ht' : top { s with p := p', stale := false } = cur + 1 := by
        show (match p'.c with
          | .idle => p'.G | .storeM _ _ => p'.G | .scanChk cur _ _ => cur + 1 | .scanLoad cur _ _ => cur + 1
          | .storeG cur _ => cur + 1) = cur + 1
        rw [hpc']
      rw [ht']; exact this
    · intro e h1 h2
      apply hI.shape e h1
      rw [hptop]
      have : pubTop { s with p := p', stale := false } = p'.G := by
        show (match p'.c with | .storeG cur _ => cur + 1 | _ => p'.G) = p'.G
        rw [hpc']
      rw [this, hpG] at h2; exact h2
    · intro p hp
      apply hI.lists p
      rcases hp with hp | ⟨t, ht⟩ | ⟨t, ht⟩ | hp
      · exact Or.inl (by rw [← hpG]; exact hp)
      · exact Or.inr (Or.inl ⟨t, by rw [← hwp]; exact ht⟩)
      · exact Or.inr (Or.inr (Or.inl ⟨t, by rw [← hwp]; exact ht⟩))
      · have hp' : protC p'.c p := hp
        rw [hpc'] at hp'
        exact hprot p hp'.1 hp'.2
    · intro t v hv
      have hv' : wpc p' t = .entS v ∨ wpc p' t = .guarded v := hv
      rw [hwp] at hv'; exact hI.wge t v hv'
    · intro t id v ht hv
      have ht' : s.p.ids.threads[t]? = some (.owner id) := by rw [← hpids]; exact ht
      have hv' : wpc p' t = .entS v := hv
      rw [hwp] at hv'
      show v = p'.G ∨ (v + 1 = p'.G ∧ lagOK p'.c id)
      rw [hpG, hpc']
      exact hfr t id v ht' hv'
    · intro t id e ht hv
      have ht' : s.p.ids.threads[t]? = some (.owner id) := by rw [← hpids]; exact ht
      have hv' : wpc p' t = .guarded e := hv
      rw [hwp] at hv'
      show covOK p'.c id e
      rw [hpc']
      exact hcv t id e ht' hv'
    · show collC C p'.c
      rw [hpc']; exact hcoll
  · -- that was the last slot: sort/unique, write the vector of `cur + 1`, prune
    have hpc' : p'.c = .storeG cur (sortDescDedup coll') := by rw [hpc]; unfold afterScan; rw [if_neg hin]
    obtain ⟨rest, hcr, hrest⟩ := hcoll
    obtain ⟨h1, t1, hnodes, hh1⟩ := hI.head
    rw [htop] at hh1
    have hmem' : ∀ p, p ∈ coll' ↔ (p = cur + 1 ∨ p = cur ∨ p ∈ rest) := by
      intro p; rw [hcr]; simp
    have hlists : ∀ p, (p = cur ∨ p ∈ rest) → ∃ nd ∈ h1 :: t1, nd.upper = upperOf C p ∧ vecOf nd (lowerOf C p) = s.pub p := by
      intro p hp
      rw [← hnodes]
      apply hI.lists p
      apply hprot p ((hmem' p).mpr (Or.inr hp))
      rcases hp with hp | hp
      · omega
      · have := (hrest p hp).1; omega
    obtain ⟨ps, chain, freed, hv, hpub, hkc, hklow, hkhead, hklists, hkshape, _⟩ :=
      publish_ok C hC h1 t1 cur rest s.pub hh1 (hnodes ▸ hI.chain) (hnodes ▸ hI.lower) hrest hlists
    have hcr' : coll' = [cur + 1, cur] ++ rest := by rw [hcr]; rfl
    rw [← hcr', ← hnodes] at hpub
    rw [← hcr'] at hv
    obtain ⟨_, hps⟩ := publishSorted_of_publish hpub
    have hlistmem : ∀ p, p ∈ sortDescDedup coll' ↔ (p = cur + 1 ∨ p = cur ∨ p ∈ rest) := by
      intro p; rw [(sortDescDedup_spec coll').2 p]; exact hmem' p
    -- every worker's epoch is in the vector
    have hguard : ∀ t e, wpc s.p t = .guarded e → e ∈ sortDescDedup coll' := by
      intro t e hg
      obtain ⟨id, hid⟩ := hI.base.wown t (by rw [hg]; simp)
      have hidn : id < n := hI.base.ids.pos _ (List.mem_of_getElem? hid) id rfl
      exact ((sortDescDedup_spec coll').2 e).mpr (hcv t id e hid hg (by omega))
    have hent : ∀ t v, wpc s.p t = .entS v → v = s.p.G := by
      intro t v hg
      obtain ⟨id, hid⟩ := hI.base.wown t (by rw [hg]; simp)
      have hidn : id < n := hI.base.ids.pos _ (List.mem_of_getElem? hid) id rfl
      rcases hfr t id v hid hg with h | ⟨_, h⟩
      · exact h
      · omega
    refine ⟨withPub s p' chain (cur + 1) (sortDescDedup coll') false, ?_, ?_⟩
    · unfold finishScan
      rw [hpc']
      simp only [hps]
    refine ⟨hb, rfl, by show p'.G < sizeMax; rw [hpG]; exact hI.glt, hkc, hklow, ?_, ?_, ?_, ?_, ?_, ?_, ?_⟩
    · have ht' : top (withPub s p' chain (cur + 1) (sortDescDedup coll') false) = cur + 1 := by
        show (match p'.c with
          | .idle => p'.G | .storeM _ _ => p'.G | .scanChk cur _ _ => cur + 1 | .scanLoad cur _ _ => cur + 1
          | .storeG cur _ => cur + 1) = cur + 1
        rw [hpc']
      rw [ht']; exact hkhead
    · intro e h1' h2
      have hpt : pubTop (withPub s p' chain (cur + 1) (sortDescDedup coll') false) = cur + 1 := by
        show (match p'.c with | .storeG cur _ => cur + 1 | _ => p'.G) = cur + 1
        rw [hpc']
      rw [hpt] at h2
      show Shape C e (if e = cur + 1 then sortDescDedup coll' else s.pub e)
      by_cases he : e = cur + 1
      · rw [if_pos he, he, hv]; exact hkshape
      · rw [if_neg he]
        apply hI.shape e h1'
        rw [hptop, ← hcurG]; omega
    · intro p hp
      have hpl : p ∈ sortDescDedup coll' := by
        rcases hp with hp | ⟨t, ht⟩ | ⟨t, ht⟩ | hp
        · have : p = cur := by rw [hcurG, ← hpG]; exact hp
          exact (hlistmem p).mpr (Or.inr (Or.inl this))
        · exact hguard t p (by rw [← hwp]; exact ht)
        · have := hent t p (by rw [← hwp]; exact ht)
          exact (hlistmem p).mpr (Or.inr (Or.inl (by rw [hcurG]; exact this)))
        · have hp' : protC p'.c p := hp
          rw [hpc'] at hp'
          exact hp'
      obtain ⟨nd, hnd, hu, hvec⟩ := hklists p ((hlistmem p).mp hpl)
      refine ⟨nd, hnd, hu, ?_⟩
      show vecOf nd (lowerOf C p) = (if p = cur + 1 then sortDescDedup coll' else s.pub p)
      rw [hvec, hv]
    · intro t v hv'
      have hv'' : wpc p' t = .entS v ∨ wpc p' t = .guarded v := hv'
      rw [hwp] at hv''; exact hI.wge t v hv''
    · intro t id v ht hv'
      have hv'' : wpc p' t = .entS v := hv'
      rw [hwp] at hv''
      exact Or.inl (by show v = p'.G; rw [hpG]; exact hent t v hv'')
    · intro t id e ht hv'
      have hv'' : wpc p' t = .guarded e := hv'
      rw [hwp] at hv''
      show covOK p'.c id e
      rw [hpc']
      exact hguard t e hv''
    · show collC C p'.c
      rw [hpc']
      exact (hlistmem (cur + 1)).mpr (Or.inl rfl)


theorem staleAt_false {s : EpochProto.St} {i cur : Nat} (h : staleAt s i cur = false) {t v : Nat}
    (ho : ownId s t = some i) (hw : wpc s t = .entS v) (hlt : t < s.w.length) : ¬ v < cur := by
  intro hv
  have : staleAt s i cur = true := by
    unfold staleAt
    rw [List.any_eq_true]
    exact ⟨t, by simpa using hlt, by rw [ho, hw]; simp [hv]⟩
  rw [h] at this; cases this

theorem ownId_of {s : EpochProto.St} {t id : Nat} (h : s.ids.threads[t]? = some (.owner id)) : ownId s t = some id := by
  unfold ownId; rw [h]

/-- a coordinator step inside the scan that does not move on to the next slot -/
theorem linv_sameslot {C : Consts} {n : Nat} {s : LSt} (hI : LInv C n s) {cur i : Nat} {coll : List Nat}
    (hc : s.p.c = .scanChk cur i coll) {p' : EpochProto.St} (hb : EpochProto.Inv C.kInitialEpoch n p')
    (hpw : p'.w = s.p.w) (hpids : p'.ids = s.p.ids) (hpG : p'.G = s.p.G) (hpc : p'.c = .scanLoad cur i coll) :
    LInv C n { s with p := p' } := by
  have hwp : ∀ t, wpc p' t = wpc s.p t := by intro t; unfold wpc; rw [hpw]
  refine ⟨hb, hI.ns, by show p'.G < sizeMax; rw [hpG]; exact hI.glt, hI.chain, hI.lower, ?_, ?_, ?_, ?_, ?_, ?_, ?_⟩
  · have := hI.head
    unfold top at this
    rw [hc] at this
    show ∃ h t, s.nodes = h :: t ∧ h.upper = upperOf C (match p'.c with
      | .idle => p'.G | .storeM _ _ => p'.G | .scanChk cur _ _ => cur + 1 | .scanLoad cur _ _ => cur + 1
      | .storeG cur _ => cur + 1)
    rw [hpc]; exact this
  · intro e h1 h2
    apply hI.shape e h1
    have h2' : e ≤ (match p'.c with | .storeG cur _ => cur + 1 | _ => p'.G) := h2
    rw [hpc, hpG] at h2'
    unfold pubTop; rw [hc]; exact h2'
  · intro p hp
    apply hI.lists p
    rcases hp with hp | ⟨t, ht⟩ | ⟨t, ht⟩ | hp
    · exact Or.inl (by rw [← hpG]; exact hp)
    · exact Or.inr (Or.inl ⟨t, by rw [← hwp]; exact ht⟩)
    · exact Or.inr (Or.inr (Or.inl ⟨t, by rw [← hwp]; exact ht⟩))
    · have hp' : protC p'.c p := hp
      rw [hpc] at hp'
      exact Or.inr (Or.inr (Or.inr (by rw [hc]; exact hp')))
  · intro t v hv
    have hv' : wpc p' t = .entS v ∨ wpc p' t = .guarded v := hv
    rw [hwp] at hv'; exact hI.wge t v hv'
  · intro t id v ht hv
    have ht' : s.p.ids.threads[t]? = some (.owner id) := by rw [← hpids]; exact ht
    have hv' : wpc p' t = .entS v := hv
    rw [hwp] at hv'
    show v = p'.G ∨ (v + 1 = p'.G ∧ lagOK p'.c id)
    rw [hpG, hpc]
    have := hI.fresh t id v ht' hv'
    rw [hc] at this; exact this
  · intro t id e ht hv
    have ht' : s.p.ids.threads[t]? = some (.owner id) := by rw [← hpids]; exact ht
    have hv' : wpc p' t = .guarded e := hv
    rw [hwp] at hv'
    show covOK p'.c id e
    rw [hpc]
    have := hI.cov t id e ht' hv'
    rw [hc] at this; exact this
  · show collC C p'.c
    rw [hpc]
    have := hI.coll
    rw [hc] at this; exact this

theorem finishScan_stale {C : Consts} {s s' : LSt} {p' : EpochProto.St} {st : Bool}
    (h : finishScan C s p' st = some s') : s'.stale = st := by
  unfold finishScan at h
  split at h
  · split at h
    · cases h; rfl
    · cases h
  · cases h; rfl

/-- **every step of the model with lists keeps the invariant, as long as no stale EnterEpoch store occurred** -/
theorem linv_step {C : Consts} (hC : GoodConsts C) {n : Nat} (hn : 0 < n) {s s' : LSt} {a : EpochProto.Act}
    (hI : LInv C n s) (h : lstep C n true s a = some s') (hns : s'.stale = false) : LInv C n s' := by
  unfold lstep at h
  split at h
  · cases h
  · rename_i p' hstep
    have hb := inv_step hn hI.base hstep
    split at h
    · cases h
    · rename_i hov
      have hov' : p'.G < sizeMax := by omega
      cases a with
      | id a =>
        simp only at h
        cases h
        obtain ⟨ids', e, h1, h2, h3⟩ := id_char hstep
        subst h2
        exact linv_id hI h1 h3 hb
      | create t =>
        simp only at h
        cases h
        obtain ⟨id, x, hown, hw, hids, hG, hc, hx⟩ := worker_char (Or.inl rfl) hstep
        exact linv_worker hI hb hown hw hids hG hc hx
      | wstep t =>
        simp only at h
        cases h
        obtain ⟨id, x, hown, hw, hids, hG, hc, hx⟩ := worker_char (Or.inr rfl) hstep
        exact linv_worker hI hb hown hw hids hG hc hx
      | fwd =>
        simp only at h
        have hco := hI.base.coord
        unfold CoordOK at hco
        split at h
        · -- start: allocate the node of the next range if needed
          rename_i hc
          cases h
          simp only [step, hc] at hstep
          cases hstep
          have hcs : afterScan n s.p.G 0 [s.p.G + 1, s.p.G] = .scanChk s.p.G 0 [s.p.G + 1, s.p.G] := by
            unfold afterScan; rw [if_pos hn]
          have htop : top s = s.p.G := by unfold top; rw [hc]
          have hhead := hI.head
          rw [htop] at hhead
          obtain ⟨h1, t1, hm, hh1, hc1, hlow1, hsub1⟩ := alloc_ok C hC s.nodes s.p.G s.nextNode hI.chain hI.lower hhead (curge hI)
          refine ⟨hb, hI.ns, hI.glt, by show ChainDesc (maybeNewNode C s.nodes (s.p.G + 1) s.nextNode).1; rw [hm]; exact hc1,
            by show ∀ nd ∈ (maybeNewNode C s.nodes (s.p.G + 1) s.nextNode).1, _; rw [hm]; exact hlow1, ?_, ?_, ?_, hI.wge, ?_, ?_, ?_⟩
          · refine ⟨h1, t1, hm, ?_⟩
            show h1.upper = upperOf C (match afterScan n s.p.G 0 [s.p.G + 1, s.p.G] with
              | .idle => s.p.G | .storeM _ _ => s.p.G | .scanChk cur _ _ => cur + 1 | .scanLoad cur _ _ => cur + 1
              | .storeG cur _ => cur + 1)
            rw [hcs]; exact hh1
          · intro e he1 he2
            apply hI.shape e he1
            have he2' : e ≤ (match afterScan n s.p.G 0 [s.p.G + 1, s.p.G] with | .storeG cur _ => cur + 1 | _ => s.p.G) := he2
            rw [hcs] at he2'
            unfold pubTop; rw [hc]; exact he2'
          · intro p hp
            have hp0 : Prot s p := by
              rcases hp with hp | hp | hp | hp
              · exact Or.inl hp
              · exact Or.inr (Or.inl hp)
              · exact Or.inr (Or.inr (Or.inl hp))
              · have hp' : protC (afterScan n s.p.G 0 [s.p.G + 1, s.p.G]) p := hp
                rw [hcs] at hp'
                have : p = s.p.G := by
                  have h1 := hp'.1; have h2 := hp'.2
                  simp only [List.mem_cons, List.not_mem_nil, or_false] at h1
                  rcases h1 with h1 | h1
                  · exact absurd h1 h2
                  · exact h1
                exact Or.inl this
            obtain ⟨nd, hnd, h2, h3⟩ := hI.lists p hp0
            exact ⟨nd, by show nd ∈ (maybeNewNode C s.nodes (s.p.G + 1) s.nextNode).1; rw [hm]; exact hsub1 nd hnd, h2, h3⟩
          · intro t id v ht hv
            show v = s.p.G ∨ (v + 1 = s.p.G ∧ lagOK (afterScan n s.p.G 0 [s.p.G + 1, s.p.G]) id)
            rw [hcs]
            rcases hI.fresh t id v ht hv with h | ⟨h, _⟩
            · exact Or.inl h
            · exact Or.inr ⟨h, Nat.zero_le _⟩
          · intro t id e ht hv
            show covOK (afterScan n s.p.G 0 [s.p.G + 1, s.p.G]) id e
            rw [hcs]
            intro h0; omega
          · show collC C (afterScan n s.p.G 0 [s.p.G + 1, s.p.G])
            rw [hcs]
            exact ⟨[], rfl, by intro x hx; cases hx⟩
        · -- scanChk: test the slot's heartbeat
          rename_i cur i coll hc
          rw [hc] at hco
          simp only [step, hc] at hstep
          cases hstep
          have hnsS : s.stale = false := hI.ns
          by_cases hex : expired s.p i = true
          · -- expired: skip the slot
            have hpc : ({ s.p with c := if expired s.p i then afterScan n cur (i + 1) coll else .scanLoad cur i coll } : EpochProto.St).c
                = afterScan n cur (i + 1) coll := by
              show (if expired s.p i then afterScan n cur (i + 1) coll else CPc.scanLoad cur i coll) = _
              rw [if_pos hex]
            have hnb : ∀ t, s.p.ids.threads[t]? = some (.owner i) → entered (wpc s.p t) = true → False := by
              intro t ht hent
              have hbd := hI.base.bound t i ht hent
              rw [not_expired_of_bound hI.base ht hbd] at hex; cases hex
            obtain ⟨s2, h2, hI2⟩ := linv_finishScan hC hI (Or.inl hc) hb rfl rfl rfl hpc (by
                have := hI.coll; rw [hc] at this; exact this)
              (by intro p hp hne; exact Or.inr (Or.inr (Or.inr (by rw [hc]; exact ⟨hp, hne⟩))))
              (fun x hx => hx)
              (by intro t v ht hv; exact absurd (hnb t ht (by rw [hv]; rfl)) id)
              (by intro t e ht hv; exact absurd (hnb t ht (by rw [hv]; rfl)) id)
            rw [hnsS] at h
            rw [h2] at h
            cases h
            exact hI2
          · -- not expired: go on to read the slot's epoch
            have hex' : expired s.p i = false := by simpa using hex
            have hpc : ({ s.p with c := if expired s.p i then afterScan n cur (i + 1) coll else .scanLoad cur i coll } : EpochProto.St).c
                = .scanLoad cur i coll := by
              show (if expired s.p i then afterScan n cur (i + 1) coll else CPc.scanLoad cur i coll) = _
              rw [hex']; rfl
            have hI2 := linv_sameslot hI hc hb rfl rfl rfl hpc
            unfold finishScan at h
            rw [hpc] at h
            simp only at h
            cases h
            exact ⟨hI2.base, hI.ns, hI2.glt, hI2.chain, hI2.lower, hI2.head, hI2.shape, hI2.lists, hI2.wge, hI2.fresh,
              hI2.cov, hI2.coll⟩
        · -- scanLoad: read the slot's epoch
          rename_i cur i coll hc
          rw [hc] at hco
          simp only [step, hc] at hstep
          cases hstep
          have hst := finishScan_stale h
          rw [hns] at hst
          have hst' : (s.stale || staleAt s.p i cur) = false := hst.symm
          rw [hst'] at h
          have hsa : staleAt s.p i cur = false := (Bool.or_eq_false_iff.mp hst').2
          obtain ⟨rest, hcr, hrest⟩ : ∃ rest, coll = (cur + 1) :: cur :: rest ∧ ∀ x ∈ rest, x ≤ cur ∧ C.kInitialEpoch ≤ x := by
            have := hI.coll; rw [hc] at this; exact this
          -- the value read from the slot belongs to a complete guard
          have hv : s.p.E.getD i sizeMax < sizeMax →
              (∃ t, wpc s.p t = .guarded (s.p.E.getD i sizeMax)) ∧ s.p.E.getD i sizeMax ≤ cur := by
            intro hlt
            have hin : i < n := by
              rcases Nat.lt_or_ge i n with h' | h'
              · exact h'
              · rw [List.getD_eq_getElem?_getD, List.getElem?_eq_none (by rw [hI.base.elen]; exact h')] at hlt
                exact absurd hlt (Nat.lt_irrefl _)
            rcases hI.base.einv i hin with h0 | ⟨t, ht, hg⟩
            · rw [h0] at hlt; exact absurd hlt (Nat.lt_irrefl _)
            · exact ⟨⟨t, hg⟩, by rw [hco.1]; exact (hI.base.pin t i _ ht hg).2⟩
          have hsub : ∀ x, x ∈ coll → x ∈ (if s.p.E.getD i sizeMax < sizeMax then coll ++ [s.p.E.getD i sizeMax] else coll) := by
            intro x hx; split
            · exact List.mem_append_left _ hx
            · exact hx
          obtain ⟨s2, h2, hI2⟩ := linv_finishScan hC hI (Or.inr hc) hb rfl rfl rfl rfl
            (by
              split
              · rename_i hlt
                obtain ⟨⟨t, hg⟩, hle⟩ := hv hlt
                refine ⟨rest ++ [s.p.E.getD i sizeMax], by rw [hcr]; rfl, ?_⟩
                intro x hx
                rcases List.mem_append.mp hx with hx | hx
                · exact hrest x hx
                · rw [List.mem_singleton.mp hx]
                  exact ⟨hle, hI.wge t _ (Or.inr hg)⟩
              · exact ⟨rest, hcr, hrest⟩)
            (by
              intro p hp hne
              split at hp
              · rename_i hlt
                rcases List.mem_append.mp hp with hp | hp
                · exact Or.inr (Or.inr (Or.inr (by rw [hc]; exact ⟨hp, hne⟩)))
                · rw [List.mem_singleton.mp hp]
                  exact Or.inr (Or.inl (hv hlt).1)
              · exact Or.inr (Or.inr (Or.inr (by rw [hc]; exact ⟨hp, hne⟩))))
            hsub
            (by
              intro t v ht hw
              rcases hI.fresh t i v ht hw with h0 | ⟨h0, _⟩
              · exact h0
              · have hlt : t < s.p.w.length := by rw [hI.base.wlen]; exact IdMgr.getElem?_lt' ht
                have := staleAt_false hsa (ownId_of ht) hw hlt
                rw [hco.1] at this
                omega)
            (by
              intro t e ht hg
              have hp := hI.base.pin t i e ht hg
              have hlt : s.p.E.getD i sizeMax < sizeMax := by rw [hp.1]; have := hI.glt; omega
              rw [if_pos hlt, hp.1]
              exact List.mem_append_right _ (List.mem_singleton.mpr rfl))
          rw [h2] at h
          cases h
          exact hI2
        · -- the two stores
          rename_i hnot1 hnot2 hnot3
          cases h
          cases hcc : s.p.c with
          | idle => exact absurd hcc hnot1
          | scanChk cur i coll => exact absurd hcc (hnot2 cur i coll)
          | scanLoad cur i coll => exact absurd hcc (hnot3 cur i coll)
          | storeG cur list =>
            rw [hcc] at hco
            simp only [step, hcc] at hstep
            cases hstep
            have hcurG := hco.1
            have hcl : cur + 1 ∈ list := by have := hI.coll; rw [hcc] at this; exact this
            have hfr : ∀ t v, wpc s.p t = .entS v → v = cur := by
              intro t v hv
              obtain ⟨id, hid⟩ := hI.base.wown t (by rw [hv]; simp)
              rcases hI.fresh t id v hid hv with h0 | ⟨_, h0⟩
              · rw [hcurG]; exact h0
              · rw [hcc] at h0; exact absurd h0 (by simp [lagOK])
            refine ⟨hb, hI.ns, hov', hI.chain, hI.lower, ?_, ?_, ?_, hI.wge, ?_, ?_, trivial⟩
            · have := hI.head
              unfold top at this; rw [hcc] at this
              exact this
            · intro e h1 h2
              apply hI.shape e h1
              unfold pubTop; rw [hcc]; exact h2
            · intro p hp
              apply hI.lists p
              refine Or.inr (Or.inr (Or.inr ?_))
              rw [hcc]
              show p ∈ list
              rcases hp with hp | ⟨t, ht⟩ | ⟨t, ht⟩ | hp
              · have : p = cur + 1 := hp
                rw [this]; exact hcl
              · obtain ⟨id, hid⟩ := hI.base.wown t (by rw [show wpc s.p t = .guarded p from ht]; simp)
                have := hI.cov t id p hid ht
                rw [hcc] at this; exact this
              · rw [hfr t p ht]; exact hco.2.2
              · exact absurd hp (by simp [protC])
            · intro t id v ht hv
              right
              exact ⟨by show v + 1 = cur + 1; rw [hfr t v hv], trivial⟩
            · intro t id e ht hv; trivial
          | storeM cur list =>
            simp only [step, hcc] at hstep
            cases hstep
            refine ⟨hb, hI.ns, hov', hI.chain, hI.lower, ?_, ?_, ?_, hI.wge, ?_, ?_, trivial⟩
            · have := hI.head
              unfold top at this; rw [hcc] at this
              exact this
            · intro e h1 h2
              apply hI.shape e h1
              unfold pubTop; rw [hcc]; exact h2
            · intro p hp
              apply hI.lists p
              rcases hp with hp | hp | hp | hp
              · exact Or.inl hp
              · exact Or.inr (Or.inl hp)
              · exact Or.inr (Or.inr (Or.inl hp))
              · exact absurd hp (by simp [protC])
            · intro t id v ht hv
              rcases hI.fresh t id v ht hv with h0 | ⟨h0, _⟩
              · exact Or.inl h0
              · exact Or.inr ⟨h0, trivial⟩
            · intro t id e ht hv; trivial


/-! ### runs -/

theorem stale_mono {C : Consts} {n : Nat} {ef : Bool} {s s' : LSt} {a : EpochProto.Act}
    (h : lstep C n ef s a = some s') (hs : s.stale = true) : s'.stale = true := by
  unfold lstep at h
  split at h
  · cases h
  · split at h
    · cases h
    · cases a with
      | id a => simp only at h; cases h; exact hs
      | create t => simp only at h; cases h; exact hs
      | wstep t => simp only at h; cases h; exact hs
      | fwd =>
        simp only at h
        split at h
        · cases h; exact hs
        · rw [finishScan_stale h]; exact hs
        · rw [finishScan_stale h, hs]; rfl
        · cases h; exact hs

theorem lrun_stale_mono {C : Consts} {n : Nat} {ef : Bool} : ∀ (acts : List EpochProto.Act) (s s' : LSt),
    lrun C n ef s acts = some s' → s.stale = true → s'.stale = true
  | [], s, s', h, hs => by simp only [lrun] at h; cases h; exact hs
  | a :: as, s, s', h, hs => by
    simp only [lrun] at h
    split at h
    · rename_i s1 h1
      exact lrun_stale_mono as s1 s' h (stale_mono h1 hs)
    · cases h

theorem linv_run {C : Consts} (hC : GoodConsts C) {n : Nat} (hn : 0 < n) : ∀ (acts : List EpochProto.Act) (s s' : LSt),
    LInv C n s → lrun C n true s acts = some s' → s'.stale = false → LInv C n s'
  | [], s, s', hI, h, _ => by simp only [lrun] at h; cases h; exact hI
  | a :: as, s, s', hI, h, hns => by
    simp only [lrun] at h
    split at h
    · rename_i s1 h1
      have hs1 : s1.stale = false := by
        cases hb : s1.stale with
        | false => rfl
        | true => rw [lrun_stale_mono as s1 s' h hb] at hns; cases hns
      exact linv_run hC hn as s1 s' (linv_step hC hn hI h1 hs1) h hns
    · cases h

/-! ### what the invariant gives a guard holder -/

theorem guard_list {C : Consts} {n : Nat} {s : LSt} (hI : LInv C n s) {t e : Nat} (hg : wpc s.p t = .guarded e) :
    getList C e s.nodes = some (s.pub e) ∧ Shape C e (s.pub e) ∧ e ≤ pubTop s := by
  obtain ⟨nd, hnd, hu, hv⟩ := hI.lists e (Or.inr (Or.inl ⟨t, hg⟩))
  obtain ⟨id, hid⟩ := hI.base.wown t (by rw [hg]; simp)
  have hle : e ≤ s.p.G := (hI.base.pin t id e hid hg).2
  have hpt : s.p.G ≤ pubTop s := by
    have hco := hI.base.coord
    unfold CoordOK at hco
    unfold pubTop
    cases hc : s.p.c with
    | storeG cur list => rw [hc] at hco; simp only; omega
    | idle => exact Nat.le_refl _
    | scanChk _ _ _ => exact Nat.le_refl _
    | scanLoad _ _ _ => exact Nat.le_refl _
    | storeM _ _ => exact Nat.le_refl _
  refine ⟨?_, hI.shape e (hI.wge t e (Or.inr hg)) (Nat.le_trans hle hpt), Nat.le_trans hle hpt⟩
  rw [getList_eq C e s.nodes nd hI.chain hnd hu, hv]

/-- a published vector is never written again, and the range of published epochs only grows -/
theorem pub_step {C : Consts} {n : Nat} {s s' : LSt} {a : EpochProto.Act} (hI : LInv C n s)
    (h : lstep C n true s a = some s') : (∀ e, e ≤ pubTop s → s'.pub e = s.pub e) ∧ pubTop s ≤ pubTop s' := by
  have hco := hI.base.coord
  unfold CoordOK at hco
  unfold lstep at h
  split at h
  · cases h
  · rename_i p' hstep
    split at h
    · cases h
    · cases a with
      | id a =>
        simp only at h; cases h
        obtain ⟨ids', e, h1, h2, h3⟩ := id_char hstep
        subst h2
        exact ⟨fun e _ => rfl, Nat.le_refl _⟩
      | create t =>
        simp only at h; cases h
        obtain ⟨id, x, hown, hw, hids, hG, hc, hx⟩ := worker_char (Or.inl rfl) hstep
        refine ⟨fun e _ => rfl, ?_⟩
        show pubTop s ≤ (match p'.c with | .storeG cur _ => cur + 1 | _ => p'.G)
        rw [hc, hG]; exact Nat.le_refl _
      | wstep t =>
        simp only at h; cases h
        obtain ⟨id, x, hown, hw, hids, hG, hc, hx⟩ := worker_char (Or.inr rfl) hstep
        refine ⟨fun e _ => rfl, ?_⟩
        show pubTop s ≤ (match p'.c with | .storeG cur _ => cur + 1 | _ => p'.G)
        rw [hc, hG]; exact Nat.le_refl _
      | fwd =>
        simp only at h
        have fin : ∀ (cur i : Nat) (coll coll' : List Nat) (st : Bool),
            (s.p.c = .scanChk cur i coll ∨ s.p.c = .scanLoad cur i coll) → p'.G = s.p.G →
            (p'.c = afterScan n cur (i + 1) coll' ∨ p'.c = .scanLoad cur i coll') →
            finishScan C s p' st = some s' → (∀ e, e ≤ pubTop s → s'.pub e = s.pub e) ∧ pubTop s ≤ pubTop s' := by
          intro cur i coll coll' st hc hG hpc hf
          have hcurG : cur = s.p.G := by rcases hc with hc | hc <;> rw [hc] at hco <;> exact hco.1
          have hpt : pubTop s = s.p.G := by unfold pubTop; rcases hc with hc | hc <;> rw [hc]
          unfold finishScan at hf
          split at hf
          · rename_i cur' list hpc'
            have hcc : cur' = cur := by
              rcases hpc with hpc | hpc
              · rw [hpc] at hpc'; unfold afterScan at hpc'
                split at hpc' <;> cases hpc'; rfl
              · rw [hpc] at hpc'; cases hpc'
            split at hf
            · cases hf
              refine ⟨?_, ?_⟩
              · intro e he
                show (if e = cur' + 1 then list else s.pub e) = s.pub e
                rw [if_neg]; rw [hpt] at he; omega
              · show pubTop s ≤ (match p'.c with | .storeG cur _ => cur + 1 | _ => p'.G)
                rw [hpc', hpt]
                show s.p.G ≤ cur' + 1
                omega
            · cases hf
          · rename_i hnot
            cases hf
            refine ⟨fun e _ => rfl, ?_⟩
            show pubTop s ≤ (match p'.c with | .storeG cur _ => cur + 1 | _ => p'.G)
            rw [hpt]
            split
            · rename_i cur' list hpc'; exact absurd hpc' (hnot cur' list)
            · rw [hG]; exact Nat.le_refl _
        split at h
        · rename_i hc
          cases h
          simp only [step, hc] at hstep
          cases hstep
          refine ⟨fun e _ => rfl, ?_⟩
          show pubTop s ≤ (match afterScan n s.p.G 0 [s.p.G + 1, s.p.G] with | .storeG cur _ => cur + 1 | _ => s.p.G)
          have hpt : pubTop s = s.p.G := by unfold pubTop; rw [hc]
          rw [hpt]
          unfold afterScan
          by_cases hn0 : 0 < n
          · rw [if_pos hn0]; exact Nat.le_refl _
          · rw [if_neg hn0]; exact Nat.le_succ _
        · rename_i cur i coll hc
          simp only [step, hc] at hstep
          cases hstep
          refine fin cur i coll coll _ (Or.inl hc) rfl ?_ h
          show (if expired s.p i then afterScan n cur (i + 1) coll else CPc.scanLoad cur i coll) = _ ∨ _
          split
          · exact Or.inl rfl
          · exact Or.inr rfl
        · rename_i cur i coll hc
          simp only [step, hc] at hstep
          cases hstep
          exact fin cur i coll _ _ (Or.inr hc) rfl (Or.inl rfl) h
        · rename_i hnot1 hnot2 hnot3
          cases h
          cases hcc : s.p.c with
          | idle => exact absurd hcc hnot1
          | scanChk cur i coll => exact absurd hcc (hnot2 cur i coll)
          | scanLoad cur i coll => exact absurd hcc (hnot3 cur i coll)
          | storeG cur list =>
            simp only [step, hcc] at hstep
            cases hstep
            refine ⟨fun e _ => rfl, ?_⟩
            unfold pubTop; rw [hcc]; exact Nat.le_refl _
          | storeM cur list =>
            simp only [step, hcc] at hstep
            cases hstep
            refine ⟨fun e _ => rfl, ?_⟩
            unfold pubTop; rw [hcc]; exact Nat.le_refl _

theorem pub_run {C : Consts} (hC : GoodConsts C) {n : Nat} (hn : 0 < n) : ∀ (acts : List EpochProto.Act) (s s' : LSt),
    LInv C n s → lrun C n true s acts = some s' → s'.stale = false →
    (∀ e, e ≤ pubTop s → s'.pub e = s.pub e) ∧ pubTop s ≤ pubTop s'
  | [], s, s', _, h, _ => by simp only [lrun] at h; cases h; exact ⟨fun e _ => rfl, Nat.le_refl _⟩
  | a :: as, s, s', hI, h, hns => by
    simp only [lrun] at h
    split at h
    · rename_i s1 h1
      have hs1 : s1.stale = false := by
        cases hb : s1.stale with
        | false => rfl
        | true => rw [lrun_stale_mono as s1 s' h hb] at hns; cases hns
      obtain ⟨a1, a2⟩ := pub_step hI h1
      obtain ⟨b1, b2⟩ := pub_run hC hn as s1 s' (linv_step hC hn hI h1 hs1) h hns
      exact ⟨fun e he => by rw [b1 e (Nat.le_trans he a2), a1 e he], Nat.le_trans a2 b2⟩
    · cases h


/-! ### the coordinator is never stuck -/

/-- when the ghost `stale` is set: exactly in the coordinator's read of a slot whose worker sits between the two
    halves of `EnterEpoch` with an older epoch -/
theorem stale_step {C : Consts} {n : Nat} {ef : Bool} {s s' : LSt} {a : EpochProto.Act}
    (h : lstep C n ef s a = some s') :
    s'.stale = (s.stale || (match a, s.p.c with
      | .fwd, .scanLoad cur i _ => staleAt s.p i cur
      | _, _ => false)) := by
  unfold lstep at h
  split at h
  · cases h
  · split at h
    · cases h
    · cases a with
      | id a => simp only at h; cases h; simp
      | create t => simp only at h; cases h; simp
      | wstep t => simp only at h; cases h; simp
      | fwd =>
        simp only at h
        split at h
        · rename_i hc; cases h; simp [hc]
        · rename_i cur i coll hc; rw [finishScan_stale h]; simp [hc]
        · rename_i cur i coll hc; rw [finishScan_stale h]; simp [hc]
        · rename_i h1 h2 h3
          cases h
          cases hcc : s.p.c with
          | idle => exact absurd hcc h1
          | scanChk cur i coll => exact absurd hcc (h2 cur i coll)
          | scanLoad cur i coll => exact absurd hcc (h3 cur i coll)
          | storeG cur list => simp
          | storeM cur list => simp

/-- **ForwardGlobalEpoch never blocks on its lists**: in every state reachable without a stale `EnterEpoch`
    store, the coordinator's next step exists — the lookup of the next epoch's node succeeds and the pruning walk
    terminates — unless that very step detects a stale store, or the epoch counter would overflow -/
theorem fwd_enabled {C : Consts} (hC : GoodConsts C) {n : Nat} (hn : 0 < n) {s : LSt} (hI : LInv C n s)
    (hG : s.p.G + 1 < sizeMax)
    (hfr : ∀ cur i coll, s.p.c = .scanLoad cur i coll → staleAt s.p i cur = false) :
    ∃ s', lstep C n true s .fwd = some s' ∧ s'.stale = false ∧ LInv C n s' := by
  have hco := hI.base.coord
  unfold CoordOK at hco
  cases hl : lstep C n true s .fwd with
  | some s' =>
    have hst := stale_step hl
    have hs' : s'.stale = false := by
      rw [hst, hI.ns]
      cases hc : s.p.c with
      | scanLoad cur i coll => simp only [Bool.false_or]; exact hfr cur i coll hc
      | idle => rfl
      | scanChk _ _ _ => rfl
      | storeG _ _ => rfl
      | storeM _ _ => rfl
    exact ⟨s', rfl, hs', linv_step hC hn hI hl hs'⟩
  | none =>
    exfalso
    unfold lstep at hl
    split at hl
    · rename_i hstep
      -- the protocol model's coordinator always has a step
      simp only [step] at hstep
      split at hstep <;> cases hstep
    · rename_i p' hstep
      have hb := inv_step hn hI.base hstep
      have hGle : p'.G ≤ s.p.G + 1 := by
        rcases step_G hI.base hstep with h | ⟨h, _⟩ <;> omega
      split at hl
      · omega
      · simp only at hl
        split at hl
        · cases hl
        · rename_i cur i coll hc
          rw [hc] at hco
          simp only [step, hc] at hstep
          cases hstep
          by_cases hex : expired s.p i = true
          · have hpc : ({ s.p with c := if expired s.p i then afterScan n cur (i + 1) coll else .scanLoad cur i coll } : EpochProto.St).c
                = afterScan n cur (i + 1) coll := by
              show (if expired s.p i then afterScan n cur (i + 1) coll else CPc.scanLoad cur i coll) = _
              rw [if_pos hex]
            have hnb : ∀ t, s.p.ids.threads[t]? = some (.owner i) → entered (wpc s.p t) = true → False := by
              intro t ht hent
              have hbd := hI.base.bound t i ht hent
              rw [not_expired_of_bound hI.base ht hbd] at hex; cases hex
            obtain ⟨s2, h2, _⟩ := linv_finishScan hC hI (Or.inl hc) hb rfl rfl rfl hpc (by
                have := hI.coll; rw [hc] at this; exact this)
              (by intro p hp hne; exact Or.inr (Or.inr (Or.inr (by rw [hc]; exact ⟨hp, hne⟩))))
              (fun x hx => hx)
              (by intro t v ht hv; exact absurd (hnb t ht (by rw [hv]; rfl)) id)
              (by intro t e ht hv; exact absurd (hnb t ht (by rw [hv]; rfl)) id)
            rw [hI.ns, h2] at hl
            cases hl
          · have hex' : expired s.p i = false := by simpa using hex
            have hpc : ({ s.p with c := if expired s.p i then afterScan n cur (i + 1) coll else .scanLoad cur i coll } : EpochProto.St).c
                = .scanLoad cur i coll := by
              show (if expired s.p i then afterScan n cur (i + 1) coll else CPc.scanLoad cur i coll) = _
              rw [hex']; rfl
            unfold finishScan at hl
            rw [hpc] at hl
            simp only at hl
            cases hl
        · rename_i cur i coll hc
          rw [hc] at hco
          simp only [step, hc] at hstep
          cases hstep
          have hsa := hfr cur i coll hc
          rw [hI.ns, hsa] at hl
          obtain ⟨rest, hcr, hrest⟩ : ∃ rest, coll = (cur + 1) :: cur :: rest ∧ ∀ x ∈ rest, x ≤ cur ∧ C.kInitialEpoch ≤ x := by
            have := hI.coll; rw [hc] at this; exact this
          have hv : s.p.E.getD i sizeMax < sizeMax →
              (∃ t, wpc s.p t = .guarded (s.p.E.getD i sizeMax)) ∧ s.p.E.getD i sizeMax ≤ cur := by
            intro hlt
            have hin : i < n := by
              rcases Nat.lt_or_ge i n with h' | h'
              · exact h'
              · rw [List.getD_eq_getElem?_getD, List.getElem?_eq_none (by rw [hI.base.elen]; exact h')] at hlt
                exact absurd hlt (Nat.lt_irrefl _)
            rcases hI.base.einv i hin with h0 | ⟨t, ht, hg⟩
            · rw [h0] at hlt; exact absurd hlt (Nat.lt_irrefl _)
            · exact ⟨⟨t, hg⟩, by rw [hco.1]; exact (hI.base.pin t i _ ht hg).2⟩
          have hsub : ∀ x, x ∈ coll → x ∈ (if s.p.E.getD i sizeMax < sizeMax then coll ++ [s.p.E.getD i sizeMax] else coll) := by
            intro x hx; split
            · exact List.mem_append_left _ hx
            · exact hx
          obtain ⟨s2, h2, _⟩ := linv_finishScan hC hI (Or.inr hc) hb rfl rfl rfl rfl
            (by
              split
              · rename_i hlt
                obtain ⟨⟨t, hg⟩, hle⟩ := hv hlt
                refine ⟨rest ++ [s.p.E.getD i sizeMax], by rw [hcr]; rfl, ?_⟩
                intro x hx
                rcases List.mem_append.mp hx with hx | hx
                · exact hrest x hx
                · rw [List.mem_singleton.mp hx]
                  exact ⟨hle, hI.wge t _ (Or.inr hg)⟩
              · exact ⟨rest, hcr, hrest⟩)
            (by
              intro p hp hne
              split at hp
              · rename_i hlt
                rcases List.mem_append.mp hp with hp | hp
                · exact Or.inr (Or.inr (Or.inr (by rw [hc]; exact ⟨hp, hne⟩)))
                · rw [List.mem_singleton.mp hp]
                  exact Or.inr (Or.inl (hv hlt).1)
              · exact Or.inr (Or.inr (Or.inr (by rw [hc]; exact ⟨hp, hne⟩))))
            hsub
            (by
              intro t v ht hw
              rcases hI.fresh t i v ht hw with h0 | ⟨h0, _⟩
              · exact h0
              · have hlt : t < s.p.w.length := by rw [hI.base.wlen]; exact IdMgr.getElem?_lt' ht
                have := staleAt_false hsa (ownId_of ht) hw hlt
                rw [hco.1] at this
                omega)
            (by
              intro t e ht hg
              have hp := hI.base.pin t i e ht hg
              have hlt : s.p.E.getD i sizeMax < sizeMax := by rw [hp.1]; have := hI.glt; omega
              rw [if_pos hlt, hp.1]
              exact List.mem_append_right _ (List.mem_singleton.mpr rfl))
          have h2' : finishScan C s _ (false || false) = some s2 := h2
          rw [h2'] at hl
          cases hl
        · cases hl

end CppUtil.EpochLists
