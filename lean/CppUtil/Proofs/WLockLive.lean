/-
  Fair termination of the word locks (PessimisticLock / OptimisticLock model) for the closed system "every agent
  requests its mode once and releases it" — any number of agents, any modes, any schedule.
  Potential  psi = (remaining phases) * (2k+1) + (spin distance):  idle 3 → acquiring 2 → held 1 → done 0;  a spinning
  agent is 1 step (at its load) / 0 steps (about to CAS from the current word) / 2 steps (about to CAS from a stale
  word) away from its decisive step.  Every action leaves the state unchanged (a finished agent, or a request whose
  admission test fails on the current word) or lowers psi (`adv_psi`); in every state with an unfinished agent some
  agent's next action lowers psi (`helper_exists`: a request that can proceed, or — by `blocked_lock_has_conflicting_holder`
  — the live holder that a blocked request is waiting for, whose next action is its release).  Hence a round (every
  agent chosen at least once) lowers psi (`round_dec`), and more than psi rounds finish everybody (`rounds_finish`).
  Atomic steps use the current word and no spurious CAS failure (a weak CAS that fails forever is not fair).
-/
import CppUtil.Proofs.WLockMore

namespace CppUtil.WLock
open CppUtil

variable {P : WParams} {D : Decoder}

/-- next action of agent `i` in the closed system "every agent requests its mode once and releases it":
    enter `Lock<m>`, the atomic steps of the acquisition loop (current value, no spurious CAS failure), the release -/
def adv (P : WParams) (modes : List Mode) (nvs : List (BitVec 32)) (s : St) (i : Nat) : St :=
  let act : Option Act :=
    match s.agents[i]? with
    | some .idle => some (.start i (.lock (modes.getD i .S)))
    | some (.acqLoad _) => some (.atom i none false)
    | some (.acqCas _ _) => some (.atom i none false)
    | some (.held _ _) => some (.release i (nvs.getD i 0))
    | _ => none
  match act with
  | some a => (match step P s a with
    | some (s', _) => s'
    | none => s)
  | none => s

def execW (P : WParams) (modes : List Mode) (nvs : List (BitVec 32)) (s : St) : List Nat → St
  | [] => s
  | i :: is => execW P modes nvs (adv P modes nvs s i) is

/-- only the locations of a plain lock / unlock -/
def plain : Loc → Bool
  | .idle => true
  | .acqLoad _ => true
  | .acqCas _ _ => true
  | .held _ _ => true
  | .done _ => true
  | _ => false

def Closed (s : St) : Prop := ∀ l ∈ s.agents, plain l = true

/-- remaining phases of an agent -/
def ph : Loc → Nat
  | .idle => 3
  | .acqLoad _ => 2
  | .acqCas _ _ => 2
  | .held _ _ => 1
  | _ => 0

/-- distance of a spinning agent from its next decisive step, given the current word -/
def loc2 (w : Word) : Loc → Nat
  | .acqLoad _ => 1
  | .acqCas _ seen => if seen = w then 0 else 2
  | _ => 0

def phases (s : St) : Nat := (s.agents.map ph).sum
def spin (s : St) : Nat := (s.agents.map (loc2 s.w)).sum
def psi (s : St) : Nat := phases s * (2 * s.agents.length + 1) + spin s

theorem sum_map_set {α : Type} (f : α → Nat) (l : List α) (i : Nat) (old new : α) (h : l[i]? = some old) :
    ((l.set i new).map f).sum + f old = (l.map f).sum + f new := by
  induction l generalizing i with
  | nil => simp at h
  | cons x xs ih =>
    cases i with
    | zero =>
      simp only [List.getElem?_cons_zero, Option.some.injEq] at h
      subst h
      simp only [List.set_cons_zero, List.map_cons, List.sum_cons]; omega
    | succ j =>
      simp only [List.getElem?_cons_succ] at h
      have := ih j h
      simp only [List.set_cons_succ, List.map_cons, List.sum_cons]; omega

theorem spin_le (s : St) : spin s ≤ 2 * s.agents.length := by
  unfold spin
  induction s.agents with
  | nil => simp
  | cons x xs ih =>
    simp only [List.map_cons, List.sum_cons, List.length_cons]
    have : loc2 s.w x ≤ 2 := by
      cases x <;> simp [loc2] <;> split <;> omega
    omega


theorem psi_progress {s s' : St} {i : Nat} {old new : Loc} (hi : s.agents[i]? = some old)
    (hag : s'.agents = s.agents.set i new) (hph : ph new + 1 = ph old) : psi s' < psi s := by
  have hlen : s'.agents.length = s.agents.length := by rw [hag]; simp
  have h1 : phases s' + 1 = phases s := by
    unfold phases; rw [hag]
    have := sum_map_set ph s.agents i old new hi
    omega
  have h2 := spin_le s'
  unfold psi
  rw [hlen] at h2 ⊢
  have : phases s * (2 * s.agents.length + 1) = phases s' * (2 * s.agents.length + 1) + (2 * s.agents.length + 1) := by
    rw [← h1, Nat.add_mul]; omega
  omega

theorem psi_local {s s' : St} {i : Nat} {old new : Loc} (hi : s.agents[i]? = some old)
    (hag : s'.agents = s.agents.set i new) (hw : s'.w = s.w) (hph : ph new = ph old)
    (hl : loc2 s.w new + 1 ≤ loc2 s.w old) : psi s' < psi s := by
  have hlen : s'.agents.length = s.agents.length := by rw [hag]; simp
  have h1 : phases s' = phases s := by
    unfold phases; rw [hag]
    have := sum_map_set ph s.agents i old new hi
    omega
  have h2 : spin s' + 1 ≤ spin s := by
    unfold spin; rw [hag, hw]
    have := sum_map_set (loc2 s.w) s.agents i old new hi
    omega
  unfold psi
  rw [hlen, h1]; omega

/-- what `adv` does, location by location -/
theorem adv_idle {modes : List Mode} {nvs : List (BitVec 32)} {s : St} {i : Nat} (hi : s.agents[i]? = some .idle) :
    adv P modes nvs s i = setLoc s i (.acqLoad (modes.getD i .S)) := by
  unfold adv; simp only [hi, step]; rfl

theorem adv_acqLoad {modes : List Mode} {nvs : List (BitVec 32)} {s : St} {i : Nat} {m : Mode}
    (hi : s.agents[i]? = some (.acqLoad m)) :
    adv P modes nvs s i = if P.lockGuard m s.w then setLoc s i (.acqCas m s.w) else s := by
  unfold adv
  by_cases hg : P.lockGuard m s.w = true
  · simp only [hi, step, atomStep, Option.getD_none, hg, ↓reduceIte, Option.map_some]
  · simp only [hi, step, atomStep, Option.getD_none, hg, Bool.false_eq_true, ↓reduceIte, Option.map_some]

theorem adv_acqCas {modes : List Mode} {nvs : List (BitVec 32)} {s : St} {i : Nat} {m : Mode} {seen : Word}
    (hi : s.agents[i]? = some (.acqCas m seen)) :
    adv P modes nvs s i = if s.w = seen then { setLoc s i (.held m seen) with w := P.lockUpd m seen }
      else setLoc s i (.acqLoad m) := by
  unfold adv
  by_cases hw : s.w = seen
  · simp only [hi, step, atomStep, hw, and_self, ↓reduceIte, Option.map_some]
  · simp only [hi, step, atomStep, hw, false_and, ↓reduceIte, Option.map_some]

theorem adv_held {modes : List Mode} {nvs : List (BitVec 32)} {s : St} {i : Nat} {m : Mode} {seen : Word}
    (hi : s.agents[i]? = some (.held m seen)) :
    ∃ w', adv P modes nvs s i = { setLoc s i (.done 0) with w := w' } := by
  unfold adv; simp only [hi, step, releaseStep]
  cases m <;> exact ⟨_, rfl⟩

theorem adv_other {modes : List Mode} {nvs : List (BitVec 32)} {s : St} {i : Nat}
    (hi : ∀ l, s.agents[i]? = some l → ph l = 0) (hc : Closed s) : adv P modes nvs s i = s := by
  unfold adv
  cases h : s.agents[i]? with
  | none => rfl
  | some l =>
    have := hi l h
    have hp := hc l (List.mem_of_getElem? h)
    cases l <;> simp_all [ph, plain]


theorem adv_is_step (modes : List Mode) (nvs : List (BitVec 32)) (s : St) (i : Nat) :
    adv P modes nvs s i = s ∨ ∃ a e, step P s a = some (adv P modes nvs s i, e) := by
  unfold adv
  generalize (match s.agents[i]? with
    | some .idle => some (Act.start i (.lock (modes.getD i .S)))
    | some (.acqLoad _) => some (.atom i none false)
    | some (.acqCas _ _) => some (.atom i none false)
    | some (.held _ _) => some (.release i (nvs.getD i 0))
    | _ => none) = act
  cases act with
  | none => exact Or.inl rfl
  | some a =>
    cases h : step P s a with
    | none => left; simp only [h]
    | some r => right; exact ⟨a, r.2, by simp only [h]⟩

theorem setLoc_agents (s : St) (i : Nat) (l : Loc) : (setLoc s i l).agents = s.agents.set i l := rfl

theorem closed_set {s : St} (hc : Closed s) (i : Nat) (l : Loc) (hl : plain l = true) (w' : Word) :
    Closed { w := w', agents := s.agents.set i l } := by
  intro x hx
  rcases List.mem_or_eq_of_mem_set hx with h | h
  · exact hc x h
  · subst h; exact hl

/-- invariants of the closed system -/
structure WL (P : WParams) (D : Decoder) (k : Nat) (s : St) : Prop where
  inv : Inv P D s
  closed : Closed s
  len : s.agents.length = k
  cap : k < D.cap

/-- every action of the closed system either leaves the state as it is (a finished agent; a request whose admission
    test fails on the current word) or rewrites one agent's location so that `psi` drops -/
theorem adv_cases (modes : List Mode) (nvs : List (BitVec 32)) {s : St} (hc : Closed s) (i : Nat) :
    adv P modes nvs s i = s ∨
    ∃ old new w', s.agents[i]? = some old ∧ adv P modes nvs s i = { w := w', agents := s.agents.set i new } ∧
      plain new = true ∧
      ((ph new + 1 = ph old) ∨ (w' = s.w ∧ ph new = ph old ∧ loc2 s.w new + 1 ≤ loc2 s.w old)) := by
  cases h : s.agents[i]? with
  | none => left; exact adv_other (by intro l hl; rw [h] at hl; cases hl) hc
  | some l =>
    have hp := hc l (List.mem_of_getElem? h)
    cases l with
    | idle =>
      right
      exact ⟨_, .acqLoad (modes.getD i .S), s.w, rfl, adv_idle h, rfl, Or.inl rfl⟩
    | acqLoad m =>
      rw [adv_acqLoad h]
      by_cases hg : P.lockGuard m s.w = true
      · right
        rw [if_pos hg]
        exact ⟨_, .acqCas m s.w, s.w, rfl, rfl, rfl, Or.inr ⟨rfl, rfl, by simp [loc2]⟩⟩
      · left; rw [if_neg hg]
    | acqCas m seen =>
      right
      rw [adv_acqCas h]
      by_cases hw : s.w = seen
      · rw [if_pos hw]
        exact ⟨_, .held m seen, P.lockUpd m seen, rfl, rfl, rfl, Or.inl rfl⟩
      · rw [if_neg hw]
        refine ⟨_, .acqLoad m, s.w, rfl, rfl, rfl, Or.inr ⟨rfl, rfl, ?_⟩⟩
        have : seen ≠ s.w := fun e => hw e.symm
        simp [loc2, this]
    | held m seen =>
      right
      obtain ⟨w', hw'⟩ := adv_held (P := P) (modes := modes) (nvs := nvs) h
      exact ⟨_, .done 0, w', rfl, hw', rfl, Or.inl rfl⟩
    | done r => left; exact adv_other (by intro l hl; rw [h] at hl; cases hl; rfl) hc
    | upgLoad => cases hp
    | upgCas _ => cases hp
    | tryLoad _ _ => cases hp
    | tryCas _ _ _ => cases hp
    | prep1 _ => cases hp
    | prep2 => cases hp
    | prepCas _ => cases hp
    | gvLoad => cases hp
    | vfFence _ => cases hp
    | vfLoad _ => cases hp

theorem adv_psi (modes : List Mode) (nvs : List (BitVec 32)) {s : St} (hc : Closed s) (i : Nat) :
    adv P modes nvs s i = s ∨ psi (adv P modes nvs s i) < psi s := by
  rcases adv_cases (P := P) modes nvs hc i with h | ⟨old, new, w', hi, he, _, hd⟩
  · exact Or.inl h
  · right
    rw [he]
    rcases hd with hd | ⟨hw, hph, hl⟩
    · exact psi_progress hi rfl hd
    · exact psi_local hi rfl hw hph hl

theorem wl_adv (hS : Specs P D) (modes : List Mode) (nvs : List (BitVec 32)) {k : Nat} {s : St} (h : WL P D k s) (i : Nat) :
    WL P D k (adv P modes nvs s i) := by
  have hI : Inv P D (adv P modes nvs s i) := by
    rcases adv_is_step (P := P) modes nvs s i with he | ⟨a, e, he⟩
    · rw [he]; exact h.inv
    · exact inv_step hS h.inv (by rw [h.len]; exact h.cap) he
  rcases adv_cases (P := P) modes nvs h.closed i with he | ⟨old, new, w', hi, he, hp, _⟩
  · rw [he]; exact h
  · refine ⟨hI, ?_, ?_, h.cap⟩
    · rw [he]; exact closed_set h.closed i new hp w'
    · rw [he]; simp only [List.length_set]; exact h.len

theorem wl_exec (hS : Specs P D) (modes : List Mode) (nvs : List (BitVec 32)) {k : Nat} : ∀ (seg : List Nat) {s : St},
    WL P D k s → WL P D k (execW P modes nvs s seg)
  | [], _, h => h
  | i :: is, _, h => wl_exec hS modes nvs is (wl_adv hS modes nvs h i)

/-- a whole schedule: unchanged, or `psi` dropped -/
theorem exec_psi (hS : Specs P D) (modes : List Mode) (nvs : List (BitVec 32)) {k : Nat} : ∀ (seg : List Nat) {s : St},
    WL P D k s → execW P modes nvs s seg = s ∨ psi (execW P modes nvs s seg) < psi s
  | [], _, _ => Or.inl rfl
  | i :: is, s, h => by
    have h' := wl_adv hS modes nvs h i
    rcases adv_psi (P := P) modes nvs h.closed i with he | hlt
    · show execW P modes nvs (adv P modes nvs s i) is = s ∨ psi (execW P modes nvs (adv P modes nvs s i) is) < psi s
      rw [he]
      exact exec_psi hS modes nvs is h
    · right
      show psi (execW P modes nvs (adv P modes nvs s i) is) < psi s
      rcases exec_psi hS modes nvs is h' with he | hlt2
      · rw [he]; exact hlt
      · exact Nat.lt_trans hlt2 hlt


/-! ### somebody can always move -/

theorem exists_pos_of_sum_pos {α : Type} (f : α → Nat) : ∀ (l : List α), 0 < (l.map f).sum → ∃ (i : Nat) (x : α), l[i]? = some x ∧ 0 < f x
  | [], h => by simp at h
  | x :: xs, h => by
    by_cases hx : 0 < f x
    · exact ⟨0, x, rfl, hx⟩
    · have : 0 < (xs.map f).sum := by simp only [List.map_cons, List.sum_cons] at h; omega
      obtain ⟨i, y, hi, hy⟩ := exists_pos_of_sum_pos f xs this
      exact ⟨i + 1, y, by simpa using hi, hy⟩

/-- **no reachable state of the closed system is stuck**: while some agent is unfinished, some agent's next action
    lowers `psi` — a request that can proceed, or the holder a blocked request is waiting for -/
theorem helper_exists (hS : Specs P D) (modes : List Mode) (nvs : List (BitVec 32)) {k : Nat} {s : St} (h : WL P D k s)
    (hpos : 0 < phases s) : ∃ j, j < k ∧ psi (adv P modes nvs s j) < psi s := by
  obtain ⟨i, l, hi, hl⟩ := exists_pos_of_sum_pos ph s.agents hpos
  have hik : i < k := by rw [← h.len]; exact getElem?_lt hi
  have hheld : ∀ (j : Nat) (m : Mode) (seen : Word), s.agents[j]? = some (Loc.held m seen) →
      ∃ j, j < k ∧ psi (adv P modes nvs s j) < psi s := by
    intro j m seen hj
    obtain ⟨w', hw'⟩ := adv_held (P := P) (modes := modes) (nvs := nvs) hj
    exact ⟨j, by rw [← h.len]; exact getElem?_lt hj, by rw [hw']; exact psi_progress hj rfl rfl⟩
  have hp := h.closed l (List.mem_of_getElem? hi)
  cases l with
  | idle => exact ⟨i, hik, by rw [adv_idle hi]; exact psi_progress hi rfl rfl⟩
  | acqLoad m =>
    by_cases hg : P.lockGuard m s.w = true
    · refine ⟨i, hik, ?_⟩
      rw [adv_acqLoad hi, if_pos hg]
      exact psi_local hi rfl rfl rfl (by simp [loc2])
    · -- blocked: the conflicting holder moves
      have hb : P.lockGuard m s.w = false := by simpa using hg
      obtain ⟨j, lj, mj, hj, hgj, _⟩ := blocked_lock_has_conflicting_holder hS h.inv m hb
      have hpj := h.closed lj (List.mem_of_getElem? hj)
      cases lj with
      | held m' seen => exact hheld j m' seen hj
      | idle => cases hgj
      | acqLoad _ => cases hgj
      | acqCas _ _ => cases hgj
      | done _ => cases hgj
      | upgLoad => cases hpj
      | upgCas _ => cases hpj
      | tryLoad _ _ => cases hpj
      | tryCas _ _ _ => cases hpj
      | prep1 _ => cases hpj
      | prep2 => cases hpj
      | prepCas _ => cases hpj
      | gvLoad => cases hpj
      | vfFence _ => cases hpj
      | vfLoad _ => cases hpj
  | acqCas m seen =>
    refine ⟨i, hik, ?_⟩
    rw [adv_acqCas hi]
    by_cases hw : s.w = seen
    · rw [if_pos hw]; exact psi_progress hi rfl rfl
    · rw [if_neg hw]
      have : seen ≠ s.w := fun e => hw e.symm
      exact psi_local hi rfl rfl rfl (by simp [loc2, this])
  | held m seen => exact hheld i m seen hi
  | done r => simp [ph] at hl
  | upgLoad => cases hp
  | upgCas _ => cases hp
  | tryLoad _ _ => cases hp
  | tryCas _ _ _ => cases hp
  | prep1 _ => cases hp
  | prep2 => cases hp
  | prepCas _ => cases hp
  | gvLoad => cases hp
  | vfFence _ => cases hp
  | vfLoad _ => cases hp

theorem execW_append (modes : List Mode) (nvs : List (BitVec 32)) : ∀ (a b : List Nat) (s : St),
    execW P modes nvs s (a ++ b) = execW P modes nvs (execW P modes nvs s a) b
  | [], _, _ => rfl
  | i :: is, b, s => execW_append modes nvs is b (adv P modes nvs s i)

theorem exec_le (hS : Specs P D) (modes : List Mode) (nvs : List (BitVec 32)) {k : Nat} (seg : List Nat) {s : St}
    (h : WL P D k s) : psi (execW P modes nvs s seg) ≤ psi s := by
  rcases exec_psi hS modes nvs seg h with he | hlt
  · rw [he]; exact Nat.le_refl _
  · exact Nat.le_of_lt hlt

/-- **a round makes progress**: a stretch of the schedule in which every agent is chosen at least once lowers `psi`
    as long as some agent is unfinished -/
theorem round_dec (hS : Specs P D) (modes : List Mode) (nvs : List (BitVec 32)) {k : Nat} {s : St} (h : WL P D k s)
    (seg : List Nat) (hall : ∀ j, j < k → j ∈ seg) (hpos : 0 < phases s) :
    psi (execW P modes nvs s seg) < psi s := by
  obtain ⟨j, hjk, hdec⟩ := helper_exists hS modes nvs h hpos
  obtain ⟨pre, post, hseg⟩ := List.append_of_mem (hall j hjk)
  rw [hseg, execW_append]
  show psi (execW P modes nvs (adv P modes nvs (execW P modes nvs s pre) j) post) < psi s
  have hpre := wl_exec hS modes nvs pre h
  rcases exec_psi hS modes nvs pre h with he | hlt
  · rw [he]
    exact Nat.lt_of_le_of_lt (exec_le hS modes nvs post (wl_adv hS modes nvs h j)) hdec
  · have h1 := exec_le hS modes nvs post (wl_adv hS modes nvs hpre j)
    have h2 : psi (adv P modes nvs (execW P modes nvs s pre) j) ≤ psi (execW P modes nvs s pre) := by
      rcases adv_psi (P := P) modes nvs hpre.closed j with he | hl
      · rw [he]; exact Nat.le_refl _
      · exact Nat.le_of_lt hl
    omega

theorem sum_zero_all {α : Type} (f : α → Nat) : ∀ (l : List α), (l.map f).sum = 0 → ∀ x ∈ l, f x = 0
  | [], _, x, hx => by cases hx
  | y :: ys, h, x, hx => by
    simp only [List.map_cons, List.sum_cons] at h
    rcases List.mem_cons.mp hx with rfl | hx
    · omega
    · exact sum_zero_all f ys (by omega) x hx

theorem all_done_of_phases_zero {s : St} (hc : Closed s) (h0 : phases s = 0) : ∀ l ∈ s.agents, ∃ r, l = .done r := by
  intro l hl
  have hz : ph l = 0 := sum_zero_all ph s.agents h0 l hl
  have hp := hc l hl
  cases l <;> simp_all [ph, plain]

theorem stay_done (modes : List Mode) (nvs : List (BitVec 32)) {s : St} (hc : Closed s) (h0 : phases s = 0) :
    ∀ (seg : List Nat), execW P modes nvs s seg = s
  | [] => rfl
  | i :: is => by
    have : adv P modes nvs s i = s := by
      apply adv_other _ hc
      intro l hl
      obtain ⟨r, hr⟩ := all_done_of_phases_zero hc h0 l (List.mem_of_getElem? hl)
      rw [hr]; rfl
    show execW P modes nvs (adv P modes nvs s i) is = s
    rw [this]; exact stay_done modes nvs hc h0 is

/-- **fair termination of the closed system**: a schedule made of more than `psi s` rounds (stretches in which every
    agent is chosen at least once) ends with every agent done -/
theorem rounds_finish (hS : Specs P D) (modes : List Mode) (nvs : List (BitVec 32)) {k : Nat} :
    ∀ (segs : List (List Nat)) {s : St}, WL P D k s → (∀ seg ∈ segs, ∀ j, j < k → j ∈ seg) → psi s < segs.length →
      phases (execW P modes nvs s segs.flatten) = 0
  | [], _, _, _, hlen => by simp at hlen
  | seg :: rest, s, h, hall, hlen => by
    rw [List.flatten_cons, execW_append]
    by_cases hpos : 0 < phases s
    · have hd := round_dec hS modes nvs h seg (hall seg (List.mem_cons_self)) hpos
      have h' := wl_exec hS modes nvs seg h
      by_cases hrest : psi (execW P modes nvs s seg) < rest.length
      · exact rounds_finish hS modes nvs rest h' (fun sg hsg => hall sg (List.mem_cons_of_mem _ hsg)) hrest
      · simp only [List.length_cons] at hlen; omega
    · have h0 : phases s = 0 := by omega
      rw [stay_done modes nvs h.closed h0 seg, stay_done modes nvs h.closed h0 rest.flatten]
      exact h0


/-- `k` requests that have not started yet, on a free lock -/
def initK (k : Nat) : St := { w := 0, agents := List.replicate k .idle }

theorem wl_init (hS : Specs P D) (k : Nat) (hk : k < D.cap) : WL P D k (initK k) := by
  have h0 := hS.dec_zero
  have hc : ∀ m, cnt (initK k) m = 0 := by
    intro m
    unfold cnt initK
    apply List.countP_eq_zero.mpr
    intro l hl
    rw [List.eq_of_mem_replicate hl]
    simp [Loc.grant?]
  refine ⟨⟨?_, ?_, ?_, ?_, ?_⟩, ?_, by simp [initK], hk⟩
  · rw [hc]; simp [initK, h0]
  · rw [hc]; simp [initK, h0]
  · rw [hc]; simp [initK, h0]
  · intro h; simp [initK, h0] at h
  · intro l hl
    rw [List.eq_of_mem_replicate hl]; trivial
  · intro l hl
    rw [List.eq_of_mem_replicate hl]; rfl

theorem sum_replicate_nat (k c : Nat) : (List.replicate k c).sum = k * c := by
  induction k with
  | zero => simp
  | succ n ih => rw [List.replicate_succ, List.sum_cons, ih, Nat.succ_mul]; omega

theorem psi_init (k : Nat) : psi (initK k) = 3 * k * (2 * k + 1) := by
  unfold psi phases spin initK
  simp only [List.map_replicate, List.length_replicate, ph, loc2, sum_replicate_nat]
  rw [Nat.mul_comm k 3]; simp

end CppUtil.WLock
