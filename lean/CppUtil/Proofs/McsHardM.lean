/-
  MCSLock proof, word-writing steps, part M: the last member of a group leaves — the group is removed from
  the queue and its node goes back to the releasing thread's cache.  (1) the group is the only one: the
  lock word becomes null; (2) the group has a linked successor: the successor's node word loses the last
  flag of the group.
-/
import CppUtil.Proofs.McsLiveBase

namespace CppUtil.Mcs
open CppUtil

variable {W : Nat → Bool → Bool → Nat → Word} {P : Params} {pb cb : Nat} {s : St} {Q : Nat → List Grp}
variable {i : Nat} {a : Agent}

/-- the releasing agent is the only unreleased member / live head of the first group -/
structure LastOut (s : St) (Q : Nat → List Grp) (i : Nat) (a : Agent) (G : Grp) : Prop where
  hi : s.agents[i]? = some a
  first : (Q a.lk)[0]? = some G
  node : G.node = a.qnode
  notPriv : a.loc.priv = false
  tied : a.loc.sMem = true ∨ (a.loc.headMode.isSome ∧ G.head = some i)
  alone : ∀ k b, s.agents[k]? = some b → b.lk = a.lk →
    ((b.loc.sMem = true ∧ b.qnode = G.node) ∨ (b.loc.headMode.isSome ∧ G.head = some k)) → k = i

theorem tail_getElem? {α} (l : List α) (j : Nat) : l.tail[j]? = l[j + 1]? := by
  cases l with
  | nil => simp
  | cons x xs => simp

section
variable {G : Grp}

/-- data of the other groups is untouched when the last member of the first group leaves -/
theorem LastOut.keep (hL1 : LastOut s Q i a G) (hI : Inv W P pb cb s Q) {s' : St}
    (hag : s'.agents = s.agents.set i { a with loc := .done }) :
    (∀ j G', (Q a.lk)[j]? = some G' → 0 < j → G'.head ≠ some i) ∧
    (∀ nd, nd ≠ G.node → cnt s' a.lk nd = cnt s a.lk nd) ∧
    (∀ ℓ, ℓ ≠ a.lk → ∀ nd, cnt s' ℓ nd = cnt s ℓ nd) := by
  have hwf := hI.wf a (List.mem_of_getElem? hL1.hi)
  have hL := hI.locks a.lk hwf.2.1
  refine ⟨?_, ?_, ?_⟩
  · intro j G' hj hpos hh
    obtain ⟨b, hb, _, hb2⟩ := hL.headish G' (mem_of_idx hj) i hh
    rw [hL1.hi] at hb; cases hb
    rcases hL1.tied with hs | ⟨hm, hh0⟩
    · rcases hb2 with h | h
      · rw [Loc.headMode_of_sMem _ hs] at h; cases h
      · rw [h] at hs; cases hs
    · have := (head_unique hI hL1.hi hm hj hh hL1.first hh0).1
      omega
  · intro nd hne
    apply cnt_same hL1.hi hag
    have h2 : isMem a.lk nd { a with loc := .done } = false := by simp [isMem, Loc.sMem]
    rw [h2]
    rcases hL1.tied with hs | ⟨hm, _⟩
    · simp [isMem, hL1.node ▸ hne.symm]
    · simp [isMem, Loc.sMem_of_head _ hm]
  · intro ℓ hne nd
    apply cnt_same hL1.hi hag
    simp [isMem, Ne.symm hne]
end

theorem wr_uaf_own (hI : Inv W P pb cb s Q) {ℓ : Nat} (r : Ref) (v : Word) (hr : OwnRef Q ℓ r) :
    (wr s r v).uaf = s.uaf := by
  cases r with
  | lock k => rfl
  | node k =>
    rcases hr with h | ⟨G, hG, h⟩
    · cases h
    · cases h; exact wr_node_uaf s G.node v (hI.grpLive ℓ G hG)

/-- global part of a removal of the first group (lock invariant of the own lock supplied) -/
theorem inv_remove (hI : Inv W P pb cb s Q) {G : Grp} (hL1 : LastOut s Q i a G) (r : Ref) (v : Word)
    (hr : OwnRef Q a.lk r)
    (hLock : LockInv W P (setAgent (cacheNode (wr s r v) a.tid a.qnode).1 i { a with loc := .done }) a.lk
      (Q a.lk).tail) :
    Inv W P pb cb (setAgent (cacheNode (wr s r v) a.tid a.qnode).1 i { a with loc := .done })
      (setQ Q a.lk (Q a.lk).tail) := by
  have hwf := hI.wf a (List.mem_of_getElem? hL1.hi)
  have hL := hI.locks a.lk hwf.2.1
  have hGm := mem_of_idx hL1.first
  have hag : (setAgent (cacheNode (wr s r v) a.tid a.qnode).1 i { a with loc := .done }).agents =
      s.agents.set i { a with loc := .done } := by simp [cacheNode_agents, wr_agents]
  have hold1 : ∀ old, (wr s r v).tls[a.tid]? = some (some old) → 1 ≤ old := by
    intro old h; rw [wr_tls] at h; exact (nodeLive_bound (hI.cacheLive a.tid old h)).1
  -- words outside the own lock
  have hnodeW : ∀ k, 1 ≤ k → s.tls[a.tid]? ≠ some (some k) → (∀ G' ∈ Q a.lk, G'.node ≠ k) →
      nodeW (setAgent (cacheNode (wr s r v) a.tid a.qnode).1 i { a with loc := .done }) k = nodeW s k := by
    intro k h1 hne hq
    rw [nodeW_setAgent, (cacheNode_other (wr s r v) a.tid a.qnode k h1 (by rw [wr_tls]; exact hne) hold1).1]
    cases r with
    | lock k' => rfl
    | node k' =>
      rcases hr with h | ⟨G', hG', h⟩
      · cases h
      · cases h
        rw [nodeW_wr_node s G'.node k v (hI.grpLive a.lk G' hG') h1]
        simp [Ne.symm (hq G' hG')]
  have hlockW : ∀ ℓ, ℓ ≠ a.lk → lockW (setAgent (cacheNode (wr s r v) a.tid a.qnode).1 i { a with loc := .done }) ℓ
      = lockW s ℓ := by
    intro ℓ hne
    rw [lockW_setAgent, cacheNode_lockW]
    cases r with
    | lock k =>
      rcases hr with h | ⟨G', _, h⟩
      · cases h; rw [lockW_wr_lock s a.lk ℓ v hwf.2.1]; simp [hne]
      · cases h
    | node k => exact lockW_wr_node s k ℓ v
  have htail_mem : ∀ G', G' ∈ (Q a.lk).tail → G' ∈ Q a.lk ∧ G'.node ≠ G.node := by
    intro G' hG'
    obtain ⟨j, hj⟩ := List.mem_iff_getElem?.mp hG'
    rw [tail_getElem?] at hj
    refine ⟨mem_of_idx hj, fun e => ?_⟩
    have := (idx_unique hL.nodup hj hL1.first e).1
    omega
  apply inv_assemble
  · rw [setAgent_uaf, cacheNode_uaf, wr_uaf_own hI r v hr]; exact hI.uaf
  · rw [setAgent_nodes, cacheNode_nodes_len, wr_nodes_len]; exact hI.capN
  · rw [hag]; simpa using hI.capA
  · intro b hb
    rw [setAgent_tls, cacheNode_tls, setAgent_locks, cacheNode_locks, wr_locks_len]
    simp only [List.length_set, wr_tls]
    rcases ag_mem hL1.hi hag hb with hb | rfl
    · exact hI.wf b hb
    · exact ⟨hwf.1, hwf.2.1, by simp, by simp [Loc.headMode]⟩
  · intro ℓ hℓ
    rw [setAgent_locks, cacheNode_locks, wr_locks_len] at hℓ
    rw [setQ_other _ _ _ _ (by intro e; rw [e] at hℓ; exact absurd hwf.2.1 (by omega))]
    exact hI.outside ℓ hℓ
  · intro ℓ hℓ
    rw [setAgent_locks, cacheNode_locks, wr_locks_len] at hℓ
    by_cases hne : ℓ = a.lk
    · subst hne; rw [setQ_same]; exact hLock
    · rw [setQ_other _ _ _ _ hne]
      apply lockInv_other hI hL1.hi hag rfl hne hℓ (hlockW ℓ hne)
      intro G' hG'
      apply hnodeW G'.node (hI.node_pos hG') (fun hc => hI.cacheQ a.tid G'.node ℓ G' hc hG' rfl)
      intro G'' hG'' e
      exact hne (hI.grpLocks a.lk ℓ G'' G' hG'' hG' e).symm
  · apply ownInv_to_cache hI.own a.tid a.qnode (.grp a.lk) ⟨G, hGm, hL1.node⟩ (fun e => Owner.noConfusion e)
    · intro k hne
      rw [nodeLive_setAgent]
      by_cases hk1 : 1 ≤ k
      · rw [(cacheNode_other (wr s r v) a.tid a.qnode k hk1 (by rw [wr_tls]; exact hne) hold1).2, nodeLive_wr]
      · have hk0 : k = 0 := by omega
        subst hk0; simp [nodeLive]
    · intro k o h
      cases o with
      | priv j =>
        obtain ⟨b, hb, hpb, rfl⟩ := h
        rcases ag_cases hL1.hi hag hb with ⟨rfl, rfl⟩ | ⟨hne, hb'⟩
        · simp [Loc.priv] at hpb
        · right
          refine ⟨?_, fun e => Owner.noConfusion e, ⟨b, hb', hpb, rfl⟩⟩
          intro e
          exact hI.privQ j b a.lk G hb' hpb hGm (by rw [hL1.node, e])
      | cache t =>
        have h' : (s.tls.set a.tid (some a.qnode))[t]? = some (some k) := by
          have : (setAgent (cacheNode (wr s r v) a.tid a.qnode).1 i { a with loc := .done }).tls
              = s.tls.set a.tid (some a.qnode) := by rw [setAgent_tls, cacheNode_tls, wr_tls]
          rw [← this]; exact h
        rcases tls_set_cases h' with ⟨rfl, hx⟩ | ⟨hne, hx⟩
        · left; exact ⟨(Option.some.inj hx), rfl⟩
        · right
          refine ⟨?_, fun e => hne (Owner.cache.inj e), hx⟩
          intro e; subst e
          exact hI.cacheQ t a.qnode a.lk G hx hGm hL1.node
      | grp ℓ =>
        obtain ⟨G', hG', rfl⟩ := h
        right
        rcases mem_setQ hG' with ⟨rfl, hG''⟩ | ⟨hne, hG''⟩
        · obtain ⟨h1, h2⟩ := htail_mem G' hG''
          exact ⟨by rw [← hL1.node]; exact h2, fun e => Owner.noConfusion e, ⟨G', h1, rfl⟩⟩
        · refine ⟨?_, fun e => Owner.noConfusion e, ⟨G', hG'', rfl⟩⟩
          intro e
          exact hne (hI.grpLocks ℓ a.lk G' G hG'' hGm (by rw [e, hL1.node]))
  · intro k b hk
    rcases ag_cases hL1.hi hag hk with ⟨rfl, rfl⟩ | ⟨hne, hk'⟩
    · exact ⟨by intro h; simp at h, by intro m' h; simp at h⟩
    · have hold := hI.privW k b hk'
      have hsame : b.loc.priv = true → nodeW (setAgent (cacheNode (wr s r v) a.tid a.qnode).1 i
          { a with loc := .done }) b.qnode = nodeW s b.qnode := by
        intro hb
        exact hnodeW b.qnode (nodeLive_bound (hI.privLive k b hk' hb)).1 (hI.privC k b a.tid hk' hb)
          (fun G' hG' => hI.privQ k b a.lk G' hk' hb hG')
      constructor
      · intro h; rw [hsame (by rcases h with h | h <;> simp [h, Loc.priv])]; exact hold.1 h
      · intro m h; rw [hsame (by simp [h, Loc.priv])]; exact hold.2 m h

/-- nothing is lost when the first group is removed: its node goes to the cache -/
theorem lo_remove (hI : Inv W P pb cb s Q) {G : Grp} (hL1 : LastOut s Q i a G) (r : Ref) (v : Word)
    (hlo : LiveOwned s Q) :
    LiveOwned (setAgent (cacheNode (wr s r v) a.tid a.qnode).1 i { a with loc := .done })
      (setQ Q a.lk (Q a.lk).tail) := by
  have hwf := hI.wf a (List.mem_of_getElem? hL1.hi)
  apply lo_to_cache hI.own hlo hL1.hi (wr_agents s r v) (wr_tls s r v) (nodeLive_wr s r v) hwf.1 rfl
  · intro h; rw [hL1.notPriv] at h
  · intro ℓ G' hG'
    by_cases hl : ℓ = a.lk
    · subst hl
      rw [setQ_same]
      obtain ⟨j, hj⟩ := List.mem_iff_getElem?.mp hG'
      rcases Nat.eq_zero_or_pos j with h0 | hpos
      · subst h0
        rw [hL1.first] at hj; cases hj
        exact Or.inr hL1.node
      · left
        apply List.mem_iff_getElem?.mpr
        exact ⟨j - 1, by rw [tail_getElem?, show j - 1 + 1 = j by omega]; exact hj⟩
    · left; rw [setQ_other _ _ _ _ hl]; exact hG'

/-! ### assertions of the other agents when the first group disappears (indices shift by one) -/

section
variable {s' : St} {q : List Grp}

structure ShiftKeep (s s' : St) (q : List Grp) : Prop where
  hmode : ∀ j G, q[j + 1]? = some G → hmode s' G = hmode s G
  linked : ∀ j G, q[j + 1]? = some G → linked s' G = linked s G

theorem PhOK_shift (hK : ShiftKeep s s' q) (j : Nat) (b : Agent) (ph : Ph)
    (h : PhOK P s q (j + 1) b ph) : PhOK P s' q.tail j b ph := by
  cases ph with
  | load0 => trivial
  | lockLoad => trivial
  | cas => exact h
  | spinNext =>
    show j + 1 < q.tail.length
    have : j + 1 + 1 < q.length := h
    simp; omega
  | handoff =>
    obtain ⟨G', h1, h2, h3⟩ := h
    exact ⟨G', by rw [tail_getElem?]; exact h1, by rw [hK.linked (j + 1) G' h1]; exact h2, h3⟩

theorem MemOK_shift (hK : ShiftKeep s s' q) (j : Nat) (G : Grp) (hG : q[j + 1]? = some G) (b : Agent)
    (hm : MemOK P s q (j + 1) G b) : MemOK P s' q.tail j G b := by
  unfold MemOK at hm ⊢
  split
  · rename_i heq; simp only [heq] at hm; exact hm
  · rename_i heq; simp only [heq] at hm
    show j + 1 < q.tail.length
    simp; omega
  · rename_i heq; simp only [heq] at hm
    obtain ⟨G', h1, h2, h3⟩ := hm
    exact ⟨G', by rw [tail_getElem?]; exact h1, by rw [hK.linked (j + 1) G' h1]; exact h2, h3⟩
  · rename_i heq; simp only [heq] at hm; rw [hK.hmode j G hG]; exact hm
  · rename_i heq; simp only [heq] at hm
    exact ⟨by rw [hK.hmode j G hG]; exact hm.1, PhOK_shift hK j b _ hm.2⟩
  · trivial

/-- heads of later groups: either not granted exclusively (their assertion mentions index 0 only through
    `E2`), or still enqueuing behind a predecessor that remains -/
theorem HeadOK_shift {ℓ : Nat} (hK : ShiftKeep s s' q) (j : Nat) (b : Agent)
    (hnp : j = 0 → b.loc.isPub = false ∧ b.loc.isLink = false)
    (hgw : ∀ k Pg, q[k + 1]? = some Pg → grpW W s' ℓ Pg Pg.node = grpW W s ℓ Pg Pg.node)
    (hm : HeadOK W P s ℓ q (j + 1) b) : HeadOK W P s' ℓ q.tail j b := by
  unfold HeadOK at hm ⊢
  split
  · rename_i m heq; simp only [heq] at hm
    constructor
    · intro h0; have := (hnp h0).1; rw [heq] at this; cases this
    · intro Pg hpos hPg
      rw [tail_getElem?] at hPg
      have hjj : j - 1 + 1 = j := by omega
      rw [hjj] at hPg
      rw [hgw (j - 1) Pg (by rw [hjj]; exact hPg)]
      exact hm.2 Pg (by omega) (by simpa using hPg)
  · rename_i heq; simp only [heq] at hm
    obtain ⟨_, Pg, hPg, hp⟩ := hm
    rcases Nat.eq_zero_or_pos j with h0 | hpos
    · have := (hnp h0).2; rw [heq] at this; cases this
    · refine ⟨hpos, Pg, ?_, hp⟩
      rw [tail_getElem?]
      have hjj : j - 1 + 1 = j := by omega
      rw [hjj]; simpa using hPg
  · trivial
  · rename_i heq; simp only [heq] at hm
    rcases hm with h | ⟨h1, _⟩
    · omega
    · exact Or.inl (by omega)
  · rename_i m hne heq
    rw [heq] at hm
    cases m with
    | SIX => exact absurd rfl hne
    | S => exact absurd hm (by omega)
    | X => exact absurd hm (by omega)
  · rename_i heq; simp only [heq] at hm
    rcases hm with h | ⟨h1, _⟩
    · omega
    · exact Or.inl (by omega)
  · rename_i m ph hne heq
    rw [heq] at hm
    cases m <;> cases ph <;> first
      | exact (hne rfl rfl).elim
      | exact absurd hm.1 (by omega)
  · rename_i heq; simp only [heq] at hm
    rcases hm with h | ⟨h1, _⟩
    · omega
    · exact Or.inl (by omega)
  · rename_i ph hne heq
    rw [heq] at hm
    cases ph <;> first
      | exact (hne rfl).elim
      | exact absurd hm.1 (by omega)
  · rename_i heq; simp only [heq] at hm; exact absurd hm.1 (by omega)
  · trivial
end

theorem getLast?_tail {α} (l : List α) (h : l.tail ≠ []) : l.tail.getLast? = l.getLast? := by
  cases l with
  | nil => simp at h
  | cons x xs =>
    cases xs with
    | nil => simp at h
    | cons y ys => simp [List.getLast?_cons_cons]

/-- the lock invariant for the queue without its first group -/
theorem lockInv_removed (hW : WordSpecs P.C pb cb W) (hI : Inv W P pb cb s Q) {G : Grp} (hL1 : LastOut s Q i a G)
    {s' : St} (hag : s'.agents = s.agents.set i { a with loc := .done })
    (hlw : lockW s' a.lk = if (Q a.lk).tail = [] then 0 else lockW s a.lk)
    (hnw : ∀ j G', (Q a.lk)[j + 1]? = some G' →
      nodeW s' G'.node = if j = 0 then W (linkOf s (Q a.lk) 1) false false 0 else nodeW s G'.node)
    (hl1 : ∀ G1, (Q a.lk)[1]? = some G1 → linked s G1 = true) :
    LockInv W P s' a.lk (Q a.lk).tail := by
  have hwf := hI.wf a (List.mem_of_getElem? hL1.hi)
  have hL := hI.locks a.lk hwf.2.1
  obtain ⟨hnh, hcne, _⟩ := hL1.keep hI hag
  have hnode_ne : ∀ j G', (Q a.lk)[j + 1]? = some G' → G'.node ≠ G.node := by
    intro j G' hj e
    have := (idx_unique hL.nodup hj hL1.first e).1
    omega
  have hhm : ∀ j G', (Q a.lk)[j + 1]? = some G' → hmode s' G' = hmode s G' :=
    fun j G' hj => hmode_ne hag G' (hnh (j + 1) G' hj (by omega))
  have hlk : ∀ j G', (Q a.lk)[j + 1]? = some G' → linked s' G' = linked s G' :=
    fun j G' hj => linked_ne hag G' (hnh (j + 1) G' hj (by omega))
  have hpb : ∀ j G', (Q a.lk)[j + 1]? = some G' → published s' G' = published s G' :=
    fun j G' hj => published_ne hag G' (hnh (j + 1) G' hj (by omega))
  have hgw : ∀ j Pg p, (Q a.lk)[j + 1]? = some Pg → grpW W s' a.lk Pg p = grpW W s a.lk Pg p := by
    intro j Pg p hj; unfold grpW; rw [hhm j Pg hj, hcne Pg.node (hnode_ne j Pg hj)]
  have hK : ShiftKeep s s' (Q a.lk) := ⟨hhm, hlk⟩
  have hlo : ∀ j, linkOf s' (Q a.lk).tail j = linkOf s (Q a.lk) (j + 1) := by
    intro j; unfold linkOf
    rw [tail_getElem?]
    cases hq : (Q a.lk)[j + 1 + 1]? with
    | none => rfl
    | some Gs => simp only [hlk (j + 1) Gs hq]
  have hadone : ({ a with loc := Loc.done } : Agent).loc.headMode = none := rfl
  refine ⟨?_, ?_, ?_, ?_, ?_, ?_, ?_, ?_, ?_⟩
  · rw [List.map_tail]; exact hL.nodup.sublist (List.tail_sublist _)
  · rw [hlw]
    by_cases ht : (Q a.lk).tail = []
    · simp [ht, expLock]
    · simp only [ht, ↓reduceIte]
      rw [hL.lockWord]
      unfold expLock
      rw [getLast?_tail _ ht]
      cases hk : (Q a.lk).getLast? with
      | none => rfl
      | some Gk =>
        have hk' := getLast?_idx hk
        have hlen : 1 < (Q a.lk).length := by
          cases hq : Q a.lk with
          | nil => rw [hq] at ht; simp at ht
          | cons x xs => cases xs with
            | nil => rw [hq] at ht; simp at ht
            | cons y ys => simp
        have : (Q a.lk).length - 1 = ((Q a.lk).length - 2) + 1 := by omega
        rw [this] at hk'
        exact (hgw _ Gk Gk.node hk').symm
  · intro j G' hj
    rw [tail_getElem?] at hj
    rw [hnw j G' hj]
    unfold expNode
    rw [hpb j G' hj, hlo]
    by_cases hj0 : j = 0
    · subst hj0
      have hp1 : published s G' = true := linked_published G' (hl1 G' hj)
      simp [hp1]
    · simp only [hj0, ↓reduceIte]
      rw [hL.nodeWord (j + 1) G' hj]
      unfold expNode
      simp only [Nat.succ_ne_zero, ↓reduceIte, Nat.add_sub_cancel, tail_getElem?]
      have hjj : j - 1 + 1 = j := by omega
      rw [hjj]
      cases hp : (Q a.lk)[j]? with
      | none => rfl
      | some Pg =>
        have : (Q a.lk)[j - 1 + 1]? = some Pg := by rw [hjj]; exact hp
        simp only [hgw (j - 1) Pg _ this]
  · intro G' hG'
    obtain ⟨j, hj⟩ := List.mem_iff_getElem?.mp hG'
    rw [tail_getElem?] at hj
    rw [hhm j G' hj, hcne G'.node (hnode_ne j G' hj)]
    exact hL.nonempty G' (mem_of_idx hj)
  · intro j G' hj _
    rw [tail_getElem?] at hj
    rw [hhm j G' hj]
    exact hL.laterHeads (j + 1) G' hj (by omega)
  · intro j G' h hj hh hlive
    rw [tail_getElem?] at hj
    rw [hhm j G' hj] at hlive
    obtain ⟨b, hb, hb1, hb2, hb3, hb4⟩ := hL.heads (j + 1) G' h hj hh hlive
    have hhi : h ≠ i := by intro e; rw [e] at hh; exact hnh (j + 1) G' hj (by omega) hh
    refine ⟨b, by rw [ag_ne hag hhi]; exact hb, hb1, hb2, hb3, ?_⟩
    apply HeadOK_shift hK j b _ (fun k Pg hk => hgw k Pg Pg.node hk) hb4
    intro hj0
    subst hj0
    have := hl1 G' hj
    rw [linked_eq, headLoc_of_head hh hb] at this
    simp only [Option.map_some, Option.getD_some, Bool.not_eq_eq_eq_not, Bool.not_true, Bool.or_eq_false_iff] at this
    exact this
  · intro G' hG' h hh
    obtain ⟨j, hj⟩ := List.mem_iff_getElem?.mp hG'
    rw [tail_getElem?] at hj
    obtain ⟨b, hb, hb1, hb2⟩ := hL.headish G' (mem_of_idx hj) h hh
    have hhi : h ≠ i := by intro e; rw [e] at hh; exact hnh (j + 1) G' hj (by omega) hh
    exact ⟨b, by rw [ag_ne hag hhi]; exact hb, hb1, hb2⟩
  · intro k b hk hb1 hb2
    rcases ag_cases hL1.hi hag hk with ⟨rfl, rfl⟩ | ⟨hne, hk'⟩
    · rw [hadone] at hb2; cases hb2
    · obtain ⟨G', hG', hh⟩ := hL.headsBack k b hk' hb1 hb2
      obtain ⟨j, hj⟩ := List.mem_iff_getElem?.mp hG'
      rcases Nat.eq_zero_or_pos j with h0 | hpos
      · subst h0
        rw [hL1.first] at hj; cases hj
        exact absurd (hL1.alone k b hk' hb1 (Or.inr ⟨hb2, hh⟩)) hne
      · refine ⟨G', ?_, hh⟩
        apply List.mem_iff_getElem?.mpr
        exact ⟨j - 1, by rw [tail_getElem?, show j - 1 + 1 = j by omega]; exact hj⟩
  · intro k b hk hb1 hb2
    rcases ag_cases hL1.hi hag hk with ⟨rfl, rfl⟩ | ⟨hne, hk'⟩
    · simp [Loc.sMem] at hb2
    · obtain ⟨j, G', hj, hn, hm⟩ := hL.mems k b hk' hb1 hb2
      rcases Nat.eq_zero_or_pos j with h0 | hpos
      · subst h0
        rw [hL1.first] at hj; cases hj
        exact absurd (hL1.alone k b hk' hb1 (Or.inl ⟨hb2, hn.symm⟩)) hne
      · obtain ⟨j', rfl⟩ : ∃ j', j = j' + 1 := ⟨j - 1, by omega⟩
        exact ⟨j', G', by rw [tail_getElem?]; exact hj, hn, MemOK_shift hK j' G' hj b hm⟩

end CppUtil.Mcs
