/-
  C03, soundness of optimistic validation over a window of arbitrary concurrent activity:
  if the version read at the start of the window is read again at its end (both times without an
  exclusive holder) and no exclusive section ending inside the window republishes that value,
  then no exclusive grant was active or committed at any moment of the window.
-/
import CppUtil.Proofs.WLockMore

namespace CppUtil.WLock
open CppUtil

variable {P : WParams} {D : Decoder}

/-- every X-end along the run publishes a version different from `v` -/
def NoRepublish (P : WParams) (D : Decoder) (v : BitVec 32) : St → List Act → Prop
  | _, [] => True
  | s, a :: as =>
    (∀ nv, isXEnd s a = some nv → D.verIn nv ≠ v) ∧
    (match step P s a with
     | some (s', _) => NoRepublish P D v s' as
     | none => True)

/-- executable form of `NoRepublish` (for concrete runs) -/
def noRepublishB (P : WParams) (D : Decoder) (v : BitVec 32) : St → List Act → Bool
  | _, [] => true
  | s, a :: as =>
    (match isXEnd s a with | some nv => D.verIn nv != v | none => true) &&
    (match step P s a with
     | some (s', _) => noRepublishB P D v s' as
     | none => true)

theorem noRepublish_of_B (P : WParams) (D : Decoder) (v : BitVec 32) (acts : List Act) :
    ∀ s, noRepublishB P D v s acts = true → NoRepublish P D v s acts := by
  induction acts with
  | nil => intro s _; trivial
  | cons a as ih =>
    intro s h
    simp only [noRepublishB, Bool.and_eq_true] at h
    refine ⟨?_, ?_⟩
    · intro nv hx; rw [hx] at h; simpa using h.1
    · cases hst : step P s a with
      | none => trivial
      | some r => obtain ⟨s', e⟩ := r; rw [hst] at h; exact ih s' h.2

/-- every state along the run (including the first and the last) has no exclusive holder and
    version `v`, and no step of the run ends an exclusive grant -/
def Quiet (P : WParams) (D : Decoder) (v : BitVec 32) : St → List Act → Prop
  | s, [] => (D.dec s.w).x = false ∧ (D.dec s.w).ver = v
  | s, a :: as =>
    (D.dec s.w).x = false ∧ (D.dec s.w).ver = v ∧ isXEnd s a = none ∧
    (match step P s a with
     | some (s', _) => Quiet P D v s' as
     | none => True)

/-- an exclusive holder stays exactly where it is until its own release / downgrade -/
theorem heldX_persist {s s' : St} {a : Act} {e : Option Ev} {k : Nat} {seen : Word}
    (hk : s.agents[k]? = some (.held .X seen)) (h : step P s a = some (s', e)) :
    (isXEnd s a).isSome = true ∨ s'.agents[k]? = some (.held .X seen) := by
  cases a with
  | spawn =>
    simp only [step, Option.some.injEq, Prod.mk.injEq] at h
    right; rw [← h.1]
    show (s.agents ++ [Loc.idle])[k]? = _
    rw [List.getElem?_append_left (getElem?_lt hk)]; exact hk
  | start j r =>
    simp only [step] at h
    split at h
    · rename_i hj
      simp only [Option.some.injEq, Prod.mk.injEq] at h
      right; rw [← h.1]
      by_cases hjk : j = k
      · subst hjk; rw [hk] at hj; cases hj
      · rw [getElem?_setLoc_ne hjk]; exact hk
    · cases h
  | atom j ov sp =>
    simp only [step] at h
    split at h
    · rename_i loc hj
      cases hh : atomStep P s j loc ov sp with
      | none => rw [hh] at h; simp at h
      | some r =>
        rw [hh] at h
        simp only [Option.map_some, Option.some.injEq, Prod.mk.injEq] at h
        obtain ⟨s1, e1⟩ := r
        simp only at h
        right; rw [← h.1]
        by_cases hjk : j = k
        · subst hjk; rw [hk] at hj; cases hj; simp [atomStep] at hh
        · rw [atom_other hh hjk]; exact hk
    · cases h
  | release j nv =>
    by_cases hjk : j = k
    · left; subst hjk; simp [isXEnd, hk]
    · right
      simp only [step] at h
      split at h
      · rename_i loc hj
        cases hh : releaseStep P s j loc nv with
        | none => rw [hh] at h; simp at h
        | some r =>
          rw [hh] at h
          simp only [Option.map_some, Option.some.injEq, Prod.mk.injEq] at h
          obtain ⟨s1, e1⟩ := r
          simp only at h
          rw [← h.1, release_agents hh, getElem?_setLoc_ne hjk]; exact hk
      · cases h
  | downgrade j nv =>
    by_cases hjk : j = k
    · left; subst hjk; simp [isXEnd, hk]
    · right
      simp only [step] at h
      split at h
      · rename_i loc hj
        cases hh : downgradeStep P s j loc nv with
        | none => rw [hh] at h; simp at h
        | some r =>
          rw [hh] at h
          simp only [Option.map_some, Option.some.injEq, Prod.mk.injEq] at h
          obtain ⟨s1, e1⟩ := r
          simp only at h
          obtain ⟨seen', _, hag⟩ := downgrade_agents hh
          rw [← h.1, hag, getElem?_setLoc_ne hjk]; exact hk
      · cases h
  | upgrade j =>
    simp only [step] at h
    split at h
    · rename_i seen' hj
      simp only [Option.some.injEq, Prod.mk.injEq] at h
      right; rw [← h.1]
      by_cases hjk : j = k
      · subst hjk; rw [hk] at hj; cases hj
      · rw [getElem?_setLoc_ne hjk]; exact hk
    · cases h

/-- the holder of an X grant sits at `held X` -/
theorem heldX_of_x {s : St} (hI : Inv P D s) (hx : (D.dec s.w).x = true) :
    ∃ k : Nat, ∃ seen : Word, s.agents[k]? = some (Loc.held .X seen) := by
  have : 0 < cnt s .X := by have := hI.cx; rw [hx] at this; simp at this; omega
  obtain ⟨k, l, hk, hl⟩ := exists_holder_of_cnt_pos this
  cases l <;> simp [Loc.grant?] at hl
  subst hl
  exact ⟨k, _, hk⟩

theorem x_of_heldX {s : St} {k : Nat} {seen : Word} (hI : Inv P D s)
    (hk : s.agents[k]? = some (.held .X seen)) : (D.dec s.w).x = true :=
  (fields_of_grant hI hk (m := .X) rfl).1

theorem xend_needs_x {s : St} {a : Act} {nv : BitVec 32} (hI : Inv P D s) (h : isXEnd s a = some nv) :
    (D.dec s.w).x = true := by
  cases a <;> simp only [isXEnd, reduceCtorEq] at h
  all_goals
    split at h
    · rename_i seen hk; exact x_of_heldX hI hk
    · cases h

/-- once an exclusive grant has been active with the version still `v`, or the version differs from
    `v`, this stays so as long as nobody republishes `v` -/
theorem tainted_stays (hS : Specs P D) (v : BitVec 32) (acts : List Act) :
    ∀ (s s2 : St), Inv P D s → run P s acts = some s2 → s2.agents.length < D.cap →
      NoRepublish P D v s acts →
      ((D.dec s.w).x = true ∨ (D.dec s.w).ver ≠ v) →
      ((D.dec s2.w).x = true ∨ (D.dec s2.w).ver ≠ v) := by
  induction acts with
  | nil =>
    intro s s2 _ hr _ _ ht
    simp only [run, Option.some.injEq] at hr; rw [← hr]; exact ht
  | cons a as ih =>
    intro s s2 hI hr hcap hnr ht
    simp only [run] at hr
    cases hst : step P s a with
    | none => rw [hst] at hr; cases hr
    | some r =>
      obtain ⟨s1, e⟩ := r
      rw [hst] at hr
      simp only at hr
      have hlen : s.agents.length < D.cap := by
        have := length_step hst; have := length_run hr; omega
      have hI1 := inv_step hS hI hlen hst
      simp only [NoRepublish, hst] at hnr
      have hv := ver_step hS hI hlen hst
      apply ih s1 s2 hI1 hr hcap hnr.2
      cases hxe : isXEnd s a with
      | some nv =>
        rw [hxe] at hv; simp only at hv
        right; rw [hv]; exact hnr.1 nv hxe
      | none =>
        rw [hxe] at hv; simp only at hv
        rcases ht with hx | hne
        · obtain ⟨k, seen, hk⟩ := heldX_of_x hI hx
          rcases heldX_persist hk hst with h' | h'
          · rw [hxe] at h'; cases h'
          · left; exact x_of_heldX hI1 h'
        · right; rw [hv]; exact hne

/-- **C03 (soundness over a window).** -/
theorem window_quiet (hS : Specs P D) (v : BitVec 32) (acts : List Act) :
    ∀ (s1 s2 : St), Inv P D s1 → run P s1 acts = some s2 → s2.agents.length < D.cap →
      NoRepublish P D v s1 acts →
      (D.dec s1.w).x = false → (D.dec s1.w).ver = v →
      (D.dec s2.w).x = false → (D.dec s2.w).ver = v →
      Quiet P D v s1 acts := by
  induction acts with
  | nil =>
    intro s1 s2 _ _ _ _ hx1 hv1 _ _
    exact ⟨hx1, hv1⟩
  | cons a as ih =>
    intro s1 s2 hI hr hcap hnr hx1 hv1 hx2 hv2
    simp only [run] at hr
    cases hst : step P s1 a with
    | none => rw [hst] at hr; cases hr
    | some r =>
      obtain ⟨s1', e⟩ := r
      rw [hst] at hr
      simp only at hr
      have hlen : s1.agents.length < D.cap := by
        have := length_step hst; have := length_run hr; omega
      have hI1 := inv_step hS hI hlen hst
      have hnr' := hnr
      simp only [NoRepublish, hst] at hnr'
      have hxe : isXEnd s1 a = none := by
        cases hh : isXEnd s1 a with
        | none => rfl
        | some nv => have := xend_needs_x hI hh; rw [hx1] at this; cases this
      have hv := ver_step hS hI hlen hst
      rw [hxe] at hv; simp only at hv
      refine ⟨hx1, hv1, hxe, ?_⟩
      simp only [hst]
      cases hx1' : (D.dec s1'.w).x with
      | true =>
        exfalso
        have := tainted_stays hS v as s1' s2 hI1 hr hcap hnr'.2 (Or.inl hx1')
        rcases this with h | h
        · rw [hx2] at h; cases h
        · exact h hv2
      | false =>
        exact ih s1' s2 hI1 hr hcap hnr'.2 hx1' (by rw [hv]; exact hv1) hx2 hv2

end CppUtil.WLock
