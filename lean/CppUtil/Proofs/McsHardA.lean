/-
  MCSLock proof, word-writing steps, part A: writes to a private node (`sStore`, `xStore`) and the
  generic frame for states that differ only in words no queue refers to.
-/
import CppUtil.Proofs.McsTools

namespace CppUtil.Mcs
open CppUtil

variable {W : Nat → Bool → Bool → Nat → Word} {P : Params} {pb cb : Nat} {s : St} {Q : Nat → List Grp}
variable {i : Nat} {a : Agent}

theorem sameAbs_of_agents {s s' : St} (h : s'.agents = s.agents) : SameAbs s s' := ⟨by unfold absList; rw [h]⟩

/-- same agents, same words of this lock's queue ⇒ same lock invariant -/
theorem lockInv_frame {s s' : St} {ℓ : Nat} {q : List Grp} (hL : LockInv W P s ℓ q)
    (hag : s'.agents = s.agents) (hlw : lockW s' ℓ = lockW s ℓ)
    (hnw : ∀ G ∈ q, nodeW s' G.node = nodeW s G.node) : LockInv W P s' ℓ q := by
  have hS := sameAbs_of_agents hag
  refine ⟨hL.nodup, ?_, ?_, ?_, ?_, ?_, ?_, ?_, ?_⟩
  · rw [hlw, hS.expLock W]; exact hL.lockWord
  · intro j G hj; rw [hnw G (mem_of_idx hj), hS.expNode W]; exact hL.nodeWord j G hj
  · intro G hG; rw [hS.cnt, hS.hmode]; exact hL.nonempty G hG
  · intro j G hj hj0; rw [hS.hmode]; exact hL.laterHeads j G hj hj0
  · intro j G h hj hh hlive
    rw [hS.hmode] at hlive
    obtain ⟨b, hb, hb1, hb2, hb3, hb4⟩ := hL.heads j G h hj hh hlive
    exact ⟨b, by rw [hag]; exact hb, hb1, hb2, hb3, by rw [HeadOK_sameAbs hS]; exact hb4⟩
  · intro G hG h hh
    obtain ⟨b, hb, hb1, hb2⟩ := hL.headish G hG h hh
    exact ⟨b, by rw [hag]; exact hb, hb1, hb2⟩
  · intro k b hk hb1 hb2
    rw [hag] at hk
    exact hL.headsBack k b hk hb1 hb2
  · intro k b hk hb1 hb2
    rw [hag] at hk
    obtain ⟨j, G, hj, hn, hm⟩ := hL.mems k b hk hb1 hb2
    exact ⟨j, G, hj, hn, by rw [MemOK_sameAbs hS]; exact hm⟩

/-- writing the private node of a request that has not yet stored anything into it -/
theorem inv_wr_priv (hI : Inv W P pb cb s Q) (hi : s.agents[i]? = some a)
    (hloc : a.loc = .sStore ∨ ∃ m, a.loc = .xStore m) (v : Word) :
    Inv W P pb cb (wr s (.node a.qnode) v) Q := by
  have hpriv : a.loc.priv = true := by rcases hloc with h | ⟨m, h⟩ <;> simp [h, Loc.priv]
  have hlive := hI.privLive i a hi hpriv
  have hq1 := (nodeLive_bound hlive).1
  have hnw : ∀ k, 1 ≤ k → k ≠ a.qnode → nodeW (wr s (.node a.qnode) v) k = nodeW s k := by
    intro k hk hne; rw [nodeW_wr_node s a.qnode k v hlive hk]; simp [hne]
  refine { uaf := by rw [wr_node_uaf s _ v hlive]; exact hI.uaf,
           capN := by rw [wr_node_len]; exact hI.capN,
           capA := by rw [wr_node_agents]; exact hI.capA,
           wf := ?_, outside := ?_, locks := ?_, privLive := ?_, privUniq := ?_, privQ := ?_, privC := ?_,
           privW := ?_, cacheLive := ?_, cacheUniq := ?_, cacheQ := ?_, grpLive := ?_, grpLocks := hI.grpLocks }
  · intro b hb; rw [wr_node_agents] at hb; rw [wr_node_tls, wr_node_locks]; exact hI.wf b hb
  · intro ℓ hℓ; rw [wr_node_locks] at hℓ; exact hI.outside ℓ hℓ
  · intro ℓ hℓ
    rw [wr_node_locks] at hℓ
    apply lockInv_frame (hI.locks ℓ hℓ) (wr_node_agents s _ v) (lockW_wr_node s _ ℓ v)
    intro G hG
    exact hnw G.node (hI.node_pos hG) (hI.privQ i a ℓ G hi hpriv hG)
  · intro k b hk hb; rw [wr_node_agents] at hk; rw [nodeLive_wr_node]; exact hI.privLive k b hk hb
  · intro k k' b b' hk hk'; rw [wr_node_agents] at hk hk'; exact hI.privUniq k k' b b' hk hk'
  · intro k b ℓ G hk; rw [wr_node_agents] at hk; exact hI.privQ k b ℓ G hk
  · intro k b t hk; rw [wr_node_agents] at hk; rw [wr_node_tls]; exact hI.privC k b t hk
  · intro k b hk
    rw [wr_node_agents] at hk
    have hold := hI.privW k b hk
    by_cases hki : k = i
    · subst hki
      rw [hi] at hk; cases hk
      constructor
      · intro h; rcases hloc with h' | ⟨m, h'⟩ <;> rcases h with h | h <;> rw [h'] at h <;> cases h
      · intro m h; rcases hloc with h' | ⟨m', h'⟩ <;> rw [h'] at h <;> cases h
    · have hne : b.loc.priv = true → b.qnode ≠ a.qnode := by
        intro hb e; exact hki (hI.privUniq k i b a hk hi hb hpriv e)
      constructor
      · intro h
        have hb : b.loc.priv = true := by rcases h with h | h <;> simp [h, Loc.priv]
        rw [hnw b.qnode (nodeLive_bound (hI.privLive k b hk hb)).1 (hne hb)]
        exact hold.1 h
      · intro m h
        have hb : b.loc.priv = true := by simp [h, Loc.priv]
        rw [hnw b.qnode (nodeLive_bound (hI.privLive k b hk hb)).1 (hne hb)]
        exact hold.2 m h
  · intro t k ht; rw [wr_node_tls] at ht; rw [nodeLive_wr_node]; exact hI.cacheLive t k ht
  · intro t t' k ht ht'; rw [wr_node_tls] at ht ht'; exact hI.cacheUniq t t' k ht ht'
  · intro t k ℓ G ht; rw [wr_node_tls] at ht; exact hI.cacheQ t k ℓ G ht
  · intro ℓ G hG; rw [nodeLive_wr_node]; exact hI.grpLive ℓ G hG

theorem case_sStore (hW : WordSpecs P.C pb cb W) (hI : Inv W P pb cb s Q) (hi : s.agents[i]? = some a)
    (hloc : a.loc = .sStore) :
    Inv W P pb cb (setAgent (wr s (.node a.qnode) P.C.kNull) i { a with loc := .sLoad }) Q := by
  have hI1 := inv_wr_priv hI hi (Or.inl hloc) P.C.kNull
  have hlive := hI.privLive i a hi (by simp [hloc, Loc.priv])
  have hi1 : (wr s (.node a.qnode) P.C.kNull).agents[i]? = some a := by rw [wr_node_agents]; exact hi
  have hwf := hI.wf a (List.mem_of_getElem? hi)
  apply inv_k0 hI1 i a { a with loc := .sLoad } hi1 (by absq hloc) (by intro h; simp [hloc] at h) (by absq hloc)
    (by rw [wr_node_tls]; exact hwf.1) (by simp)
  · constructor
    · intro _
      show nodeW (wr s (.node a.qnode) P.C.kNull) a.qnode = 0
      rw [nodeW_wr_node s a.qnode a.qnode _ hlive (nodeLive_bound hlive).1]; simp [hW.null]
    · intro m h; simp at h
  · intro h; simp [Loc.sMem] at h
  · intro h; simp [Loc.headMode] at h

theorem case_xStore (hW : WordSpecs P.C pb cb W) (hI : Inv W P pb cb s Q) (hi : s.agents[i]? = some a)
    (m : Mode) (hloc : a.loc = .xStore m) :
    Inv W P pb cb (setAgent (wr s (.node a.qnode) P.C.kXLock) i { a with loc := .xXchg m }) Q := by
  have hI1 := inv_wr_priv hI hi (Or.inr ⟨m, hloc⟩) P.C.kXLock
  have hlive := hI.privLive i a hi (by simp [hloc, Loc.priv])
  have hi1 : (wr s (.node a.qnode) P.C.kXLock).agents[i]? = some a := by rw [wr_node_agents]; exact hi
  have hwf := hI.wf a (List.mem_of_getElem? hi)
  apply inv_k0 hI1 i a { a with loc := .xXchg m } hi1 (by absq hloc) (by intro h; simp [hloc] at h) (by absq hloc)
    (by rw [wr_node_tls]; exact hwf.1) (by simp)
  · constructor
    · intro h; simp at h
    · intro m' _
      show nodeW (wr s (.node a.qnode) P.C.kXLock) a.qnode = W 0 true false 0
      rw [nodeW_wr_node s a.qnode a.qnode _ hlive (nodeLive_bound hlive).1]; simp [hW.xflag]
  · intro h; simp [Loc.sMem] at h
  · intro h; simp [Loc.headMode] at h

end CppUtil.Mcs
