/-
  The pruning walk of `EpochManager::RemoveOutDatedLists` (`Epoch.prune`): under the conditions the
  coordinator establishes (chain strictly descending by range, head node = range of the first
  protected epoch, every protected epoch's range has a node) the walk
    * terminates without using the non-progress branch (`prune_spec`: enough fuel ⇒ `some`),
    * keeps exactly the nodes whose range holds a protected epoch, plus the oldest node,
    * frees exactly the others,
  and therefore leaves at most one node per occupied range plus one (`keepOf_length_le`).
-/
import CppUtil.Proofs.EpochSeq

namespace CppUtil.Epoch
open CppUtil

/-- chain strictly descending by `upper_epoch_` (newest range first) -/
abbrev ChainDesc (c : List PNode) : Prop := c.Pairwise (fun a b => a.upper > b.upper)

/-- is the node's range wanted by the remaining protected epochs (`pe` = current target, `it` = rest)? -/
def wantB (C : Consts) (pe : Nat) (it : List Nat) (n : PNode) : Bool :=
  n.upper == pe || (it.map (upperOf C)).contains n.upper

/-- specification of the chain after the walk: wanted nodes and the oldest node -/
def keepOf (C : Consts) (pe : Nat) (it : List Nat) : List PNode → List PNode
  | [] => []
  | [last] => [last]
  | n :: m :: rest => if wantB C pe it n then n :: keepOf C pe it (m :: rest) else keepOf C pe it (m :: rest)

/-- specification of the freed node ids, in walk order -/
def freeOf (C : Consts) (pe : Nat) (it : List Nat) : List PNode → List Nat
  | [] => []
  | [_] => []
  | n :: m :: rest => if wantB C pe it n then freeOf C pe it (m :: rest) else n.id :: freeOf C pe it (m :: rest)

theorem upperOf_mono (C : Consts) {a b : Nat} (h : a ≤ b) : upperOf C a ≤ upperOf C b := by
  unfold upperOf
  by_cases hk : C.kCapacity = 0
  · simp [hk]
  · have hpos : 0 < C.kCapacity := Nat.pos_of_ne_zero hk
    have ha := Nat.div_add_mod a C.kCapacity
    have hb := Nat.div_add_mod b C.kCapacity
    have hd : a / C.kCapacity ≤ b / C.kCapacity := Nat.div_le_div_right h
    have hm := Nat.mul_le_mul_left C.kCapacity hd
    omega

theorem upperOf_le (C : Consts) (a : Nat) : upperOf C a ≤ a := by unfold upperOf; omega

/-- loop state of the walk -/
structure PState (C : Consts) (c : List PNode) (pe : Nat) (it : List Nat) : Prop where
  sorted : ChainDesc c
  above : ∀ n ∈ c, C.kMinEpoch < n.upper
  itle : ∀ p ∈ it, upperOf C p ≤ pe
  ni : (it.map (upperOf C)).Pairwise (· ≥ ·)
  cov : (pe = C.kMinEpoch ∧ it = []) ∨
        ((∃ n ∈ c, n.upper = pe) ∧ ∀ p ∈ it, ∃ n ∈ c, n.upper = upperOf C p)

theorem keepOf_congr (C : Consts) (pe pe' : Nat) (it it' : List Nat) :
    ∀ (c : List PNode), (∀ n ∈ c, wantB C pe it n = wantB C pe' it' n) →
      keepOf C pe it c = keepOf C pe' it' c ∧ freeOf C pe it c = freeOf C pe' it' c := by
  intro c
  induction c with
  | nil => intro _; simp [keepOf, freeOf]
  | cons n rest ih =>
    intro h
    cases rest with
    | nil => simp [keepOf, freeOf]
    | cons m rest' =>
      have hn := h n (by simp)
      have := ih (fun x hx => h x (List.mem_cons_of_mem _ hx))
      simp only [keepOf, freeOf, hn, this.1, this.2, and_self]

/-- what the inner `do … while` leaves behind -/
theorem skipSame_spec (C : Consts) (ub : Nat) : ∀ (it : List Nat),
    (∀ p ∈ it, upperOf C p ≤ ub) → (it.map (upperOf C)).Pairwise (· ≥ ·) →
    ((skipSame C ub it).1 = C.kMinEpoch ∧ (skipSame C ub it).2 = [] ∧ ∀ p ∈ it, upperOf C p = ub) ∨
    ((skipSame C ub it).1 < ub ∧ (∃ p ∈ it, upperOf C p = (skipSame C ub it).1) ∧
      (∀ q ∈ (skipSame C ub it).2, q ∈ it) ∧ (∀ q ∈ (skipSame C ub it).2, upperOf C q ≤ (skipSame C ub it).1) ∧
      ((skipSame C ub it).2.map (upperOf C)).Pairwise (· ≥ ·) ∧
      ∀ u, u < ub → (u ∈ it.map (upperOf C) ↔ (u = (skipSame C ub it).1 ∨ u ∈ (skipSame C ub it).2.map (upperOf C)))) := by
  intro it
  induction it with
  | nil => intro _ _; left; simp [skipSame]
  | cons p ps ih =>
    intro hle hni
    have hp := hle p (by simp)
    have hni' : (∀ a ∈ ps, upperOf C a ≤ upperOf C p) ∧ (ps.map (upperOf C)).Pairwise (· ≥ ·) := by
      simpa using hni
    by_cases hpe : upperOf C p = ub
    · simp only [skipSame, hpe, ↓reduceIte]
      rcases ih (fun q hq => hle q (List.mem_cons_of_mem _ hq)) hni'.2 with h | h
      · left
        refine ⟨h.1, h.2.1, ?_⟩
        intro q hq
        rcases List.mem_cons.mp hq with rfl | hq
        · exact hpe
        · exact h.2.2 q hq
      · right
        obtain ⟨h1, ⟨w, hw, hw'⟩, h3, h4, h5, h6⟩ := h
        refine ⟨h1, ⟨w, List.mem_cons_of_mem _ hw, hw'⟩, fun q hq => List.mem_cons_of_mem _ (h3 q hq), h4, h5, ?_⟩
        intro u hu
        rw [← h6 u hu]
        simp only [List.map_cons, List.mem_cons]
        constructor
        · rintro (h | h)
          · omega
          · exact h
        · intro h; exact Or.inr h
    · simp only [skipSame, hpe, ↓reduceIte]
      right
      refine ⟨by omega, ⟨p, by simp, rfl⟩, fun q hq => List.mem_cons_of_mem _ hq, ?_, hni'.2, ?_⟩
      · intro q hq
        exact hni'.1 q hq
      · intro u _
        simp

/-- **the pruning walk meets its specification** and terminates (never uses the non-progress branch)
    when started with a matching head or after a kept node -/
theorem prune_spec (C : Consts) : ∀ (c : List PNode) (fuel : Nat) (kept : List PNode) (pe : Nat) (it : List Nat),
    PState C c pe it →
    (kept ≠ [] ∨ c.length ≤ 1 ∨ ∃ cur rest, c = cur :: rest ∧ pe = cur.upper) →
    c.length + 1 ≤ fuel →
    prune C fuel kept c pe it = some (kept.reverse ++ keepOf C pe it c, freeOf C pe it c) := by
  intro c
  induction c with
  | nil =>
    intro fuel kept pe it _ _ hf
    cases fuel with
    | zero => simp at hf
    | succ f => simp [prune, keepOf, freeOf]
  | cons cur rest ih =>
    intro fuel kept pe it hs hk hf
    cases fuel with
    | zero => simp at hf
    | succ f =>
      cases rest with
      | nil => simp [prune, keepOf, freeOf]
      | cons nxt rest' =>
        have hsorted := List.pairwise_cons.mp hs.sorted
        have hf' : (nxt :: rest').length + 1 ≤ f := by simp at hf ⊢; omega
        by_cases hpe : pe = cur.upper
        · -- kept
          have hw : wantB C pe it cur = true := by simp [wantB, hpe]
          simp only [prune, hpe, ↓reduceIte]
          have hle : ∀ p ∈ it, upperOf C p ≤ cur.upper := by intro p hp; have := hs.itle p hp; omega
          have hsk := skipSame_spec C cur.upper it hle hs.ni
          -- state for the recursive call
          have hst : PState C (nxt :: rest') (skipSame C cur.upper it).1 (skipSame C cur.upper it).2 := by
            refine ⟨hsorted.2, fun n hn => hs.above n (List.mem_cons_of_mem _ hn), ?_, ?_, ?_⟩
            · rcases hsk with h | h
              · rw [h.2.1]; simp
              · exact h.2.2.2.1
            · rcases hsk with h | h
              · rw [h.2.1]; simp
              · exact h.2.2.2.2.1
            · rcases hsk with h | h
              · left; exact ⟨h.1, h.2.1⟩
              · right
                obtain ⟨h1, ⟨w, hw1, hw2⟩, h3, _, _, _⟩ := h
                have hcov : ∀ p ∈ it, ∃ n ∈ cur :: nxt :: rest', n.upper = upperOf C p := by
                  rcases hs.cov with hc | hc
                  · rw [hc.2] at hw1; simp at hw1
                  · exact hc.2
                constructor
                · obtain ⟨n, hn, hnu⟩ := hcov w hw1
                  rcases List.mem_cons.mp hn with rfl | hn
                  · omega
                  · exact ⟨n, hn, by omega⟩
                · intro q hq
                  obtain ⟨n, hn, hnu⟩ := hcov q (h3 q hq)
                  rcases List.mem_cons.mp hn with rfl | hn
                  · have := ‹∀ q ∈ (skipSame C n.upper it).2, upperOf C q ≤ (skipSame C n.upper it).1› q hq
                    omega
                  · exact ⟨n, hn, hnu⟩
          have hcong : ∀ n ∈ nxt :: rest', wantB C cur.upper it n =
              wantB C (skipSame C cur.upper it).1 (skipSame C cur.upper it).2 n := by
            intro n hn
            have hlt : n.upper < cur.upper := hsorted.1 n hn
            have hab := hs.above n (List.mem_cons_of_mem _ hn)
            unfold wantB
            rcases hsk with h | h
            · rw [h.1, h.2.1]
              have h1 : (n.upper == cur.upper) = false := by simp; omega
              have h2 : (n.upper == C.kMinEpoch) = false := by simp; omega
              have h3 : (it.map (upperOf C)).contains n.upper = false := by
                apply Bool.eq_false_iff.mpr
                intro hc
                have := List.contains_iff_mem.mp hc
                obtain ⟨p, hp, hpu⟩ := List.mem_map.mp this
                have := h.2.2 p hp
                omega
              rw [h1, h2, h3]; rfl
            · have h6 := h.2.2.2.2.2 n.upper hlt
              have h1 : (n.upper == cur.upper) = false := by simp; omega
              rw [h1, Bool.false_or]
              apply Bool.eq_iff_iff.mpr
              rw [List.contains_iff_mem, h6]
              simp
          have hkc := keepOf_congr C cur.upper (skipSame C cur.upper it).1 it (skipSame C cur.upper it).2 (nxt :: rest') hcong
          have := ih f (cur :: kept) _ _ hst (Or.inl (by simp)) hf'
          rw [this]
          subst hpe
          simp only [keepOf, freeOf, hw, ↓reduceIte, hkc.1, hkc.2, List.reverse_cons, List.append_assoc,
            List.singleton_append]
        · -- freed
          have hkne : kept ≠ [] := by
            rcases hk with h | h | ⟨c', r', hc, hpc⟩
            · exact h
            · simp at h
            · simp only [List.cons.injEq] at hc; rw [← hc.1] at hpc; exact absurd hpc hpe
          have hlt : pe < cur.upper := by
            rcases hs.cov with hc | hc
            · rw [hc.1]; exact hs.above cur (by simp)
            · obtain ⟨n, hn, hnu⟩ := hc.1
              rcases List.mem_cons.mp hn with rfl | hn
              · omega
              · have := hsorted.1 n hn; omega
          have hw : wantB C pe it cur = false := by
            unfold wantB
            have h1 : (cur.upper == pe) = false := by simp; omega
            have h3 : (it.map (upperOf C)).contains cur.upper = false := by
              apply Bool.eq_false_iff.mpr
              intro hc
              have := List.contains_iff_mem.mp hc
              obtain ⟨p, hp, hpu⟩ := List.mem_map.mp this
              have := hs.itle p hp
              omega
            rw [h1, h3]; rfl
          have hst : PState C (nxt :: rest') pe it := by
            refine ⟨hsorted.2, fun n hn => hs.above n (List.mem_cons_of_mem _ hn), hs.itle, hs.ni, ?_⟩
            rcases hs.cov with hc | hc
            · exact Or.inl hc
            · right
              constructor
              · obtain ⟨n, hn, hnu⟩ := hc.1
                rcases List.mem_cons.mp hn with rfl | hn
                · omega
                · exact ⟨n, hn, hnu⟩
              · intro p hp
                obtain ⟨n, hn, hnu⟩ := hc.2 p hp
                rcases List.mem_cons.mp hn with rfl | hn
                · have := hs.itle p hp; omega
                · exact ⟨n, hn, hnu⟩
          have := ih f kept pe it hst (Or.inl hkne) hf'
          cases kept with
          | nil => exact absurd rfl hkne
          | cons k ks =>
            simp only [prune, hpe, ↓reduceIte, this, keepOf, freeOf, hw, Bool.false_eq_true]

/-! ### consequences of the specification -/

theorem keepOf_sublist (C : Consts) (pe : Nat) (it : List Nat) : ∀ c, (keepOf C pe it c).Sublist c := by
  intro c
  induction c with
  | nil => simp [keepOf]
  | cons n rest ih =>
    cases rest with
    | nil => simp [keepOf]
    | cons m rest' =>
      simp only [keepOf]
      split
      · exact List.Sublist.cons_cons _ ih
      · exact List.Sublist.cons _ ih

/-- membership: a node survives iff it is wanted or the oldest -/
theorem mem_keepOf (C : Consts) (pe : Nat) (it : List Nat) : ∀ (c : List PNode) (n : PNode),
    n ∈ keepOf C pe it c ↔ (n ∈ c ∧ (wantB C pe it n = true ∨ c.getLast? = some n)) := by
  intro c n
  induction c with
  | nil => simp [keepOf]
  | cons a rest ih =>
    cases rest with
    | nil =>
      simp only [keepOf, List.mem_singleton, List.getLast?_singleton, Option.some.injEq]
      constructor
      · rintro rfl; exact ⟨rfl, Or.inr rfl⟩
      · rintro ⟨h, _⟩; exact h
    | cons m rest' =>
      simp only [keepOf, List.getLast?_cons_cons]
      by_cases hw : wantB C pe it a = true
      · simp only [hw, ↓reduceIte, List.mem_cons]
        rw [show (n ∈ keepOf C pe it (m :: rest')) ↔ _ from ih]
        simp only [List.mem_cons]
        constructor
        · rintro (rfl | ⟨h1, h2⟩)
          · exact ⟨Or.inl rfl, Or.inl hw⟩
          · exact ⟨Or.inr h1, h2⟩
        · rintro ⟨h1 | h1, h2⟩
          · exact Or.inl h1
          · exact Or.inr ⟨h1, h2⟩
      · simp only [hw, Bool.false_eq_true, ↓reduceIte]
        rw [show (n ∈ keepOf C pe it (m :: rest')) ↔ _ from ih]
        simp only [List.mem_cons]
        constructor
        · rintro ⟨h1, h2⟩; exact ⟨Or.inr h1, h2⟩
        · rintro ⟨h1 | h1, h2⟩
          · subst h1
            rcases h2 with h2 | h2
            · exact absurd h2 hw
            · -- the head cannot be the last element of a two-or-more element list unless it occurs later
              have := List.mem_of_getLast? h2
              exact ⟨List.mem_cons.mp this, Or.inr h2⟩
          · exact ⟨h1, h2⟩

/-- a strictly descending list that is included in another list is not longer than it -/
theorem desc_subset_length : ∀ (l m : List Nat), Desc l → (∀ x ∈ l, x ∈ m) → l.length ≤ m.length := by
  intro l
  induction l with
  | nil => intro m _ _; simp
  | cons a as ih =>
    intro m hd hs
    have ha := List.pairwise_cons.mp hd
    have ham : a ∈ m := hs a (by simp)
    have := ih (m.erase a) ha.2 (by
      intro x hx
      have hxm := hs x (List.mem_cons_of_mem _ hx)
      have hne : x ≠ a := by have := ha.1 x hx; omega
      exact (List.mem_erase_of_ne hne).mpr hxm)
    have hlen := List.length_erase_of_mem ham
    have : 0 < m.length := List.length_pos_of_mem ham
    simp only [List.length_cons]
    omega

/-- all nodes of the pruned chain except the oldest have a wanted range -/
theorem keepOf_dropLast_wanted (C : Consts) (pe : Nat) (it : List Nat) : ∀ (c : List PNode),
    ∀ n ∈ (keepOf C pe it c).dropLast, wantB C pe it n = true := by
  intro c
  induction c with
  | nil => simp [keepOf]
  | cons a rest ih =>
    cases rest with
    | nil => simp [keepOf]
    | cons m rest' =>
      simp only [keepOf]
      have hne : keepOf C pe it (m :: rest') ≠ [] := by
        clear ih
        induction rest' generalizing m with
        | nil => simp [keepOf]
        | cons x xs ihx =>
          simp only [keepOf]
          split
          · simp
          · exact ihx x
      split
      · rename_i hw
        intro n hn
        rw [List.dropLast_cons_of_ne_nil hne] at hn
        rcases List.mem_cons.mp hn with rfl | hn
        · exact hw
        · exact ih n hn
      · exact ih

/-- **node bound**: after the walk the chain has at most one node per distinct wanted range, plus the
    oldest node -/
theorem keepOf_length_le (C : Consts) (pe : Nat) (it : List Nat) (c : List PNode) (hc : ChainDesc c) :
    (keepOf C pe it c).length ≤ (sortDescDedup (pe :: it.map (upperOf C))).length + 1 := by
  have hsub := keepOf_sublist C pe it c
  have hdesc : ChainDesc (keepOf C pe it c) := hc.sublist hsub
  have hdl : ChainDesc (keepOf C pe it c).dropLast := hdesc.sublist (List.dropLast_sublist _)
  have hd : Desc ((keepOf C pe it c).dropLast.map (·.upper)) := by
    rw [Desc, List.pairwise_map]; exact hdl
  have hs := sortDescDedup_spec (pe :: it.map (upperOf C))
  have := desc_subset_length _ (sortDescDedup (pe :: it.map (upperOf C))) hd (by
    intro x hx
    obtain ⟨n, hn, rfl⟩ := List.mem_map.mp hx
    have hw := keepOf_dropLast_wanted C pe it c n hn
    rw [hs.2]
    unfold wantB at hw
    simp only [Bool.or_eq_true, beq_iff_eq, List.contains_iff_mem] at hw
    rcases hw with hw | hw
    · simp [hw]
    · exact List.mem_cons_of_mem _ hw)
  simp only [List.length_map, List.length_dropLast] at this
  omega

/-- nothing is lost: kept and freed nodes partition the chain (by id, as multisets of positions) -/
theorem keep_free_length (C : Consts) (pe : Nat) (it : List Nat) : ∀ (c : List PNode),
    (keepOf C pe it c).length + (freeOf C pe it c).length = c.length := by
  intro c
  induction c with
  | nil => simp [keepOf, freeOf]
  | cons a rest ih =>
    cases rest with
    | nil => simp [keepOf, freeOf]
    | cons m rest' =>
      simp only [keepOf, freeOf]
      split <;> simp only [List.length_cons] at ih ⊢ <;> omega

end CppUtil.Epoch
