/-
  Guard algebra, part 7: releasing the target's old grant (phase 2 / phase 0 of destructor and moves),
  the target takes the temporary, destructor, moves.
-/
import CppUtil.Proofs.WClientOps3

set_option linter.unusedSimpArgs false
set_option linter.unusedVariables false

namespace CppUtil.WClient
open CppUtil CppUtil.WLock

variable {P : WParams} {vo : Nat → Nat} {ao : Nat → Nat → Nat}

/-- what `Stage` says about the temporary while the target's old grant is being released -/
def TmpCond (V : View) : Op → Prop
  | .dtor _ => V.th.tmp.own = none
  | .massign _ _ => V.th.tmp.own = none
  | .mctor _ _ => V.th.tmp.own = none
  | op => V.TmpOk op.outMode

theorem stage_pre_rel {V : View} {op : Op} {d ph : Nat} (htg : op.target? = some d) (hph : ph + 1 = op.relPhase)
    (h : Stage V op ph .none) : TmpCond V op := by
  cases op <;> simp only [Op.target?, reduceCtorEq] at htg <;> simp only [Op.relPhase] at hph
  all_goals (first | (have : ph = 2 := by omega) | (have : ph = 0 := by omega))
  all_goals subst this
  all_goals simpa [Stage, TmpCond] using h

theorem stage_rel_intro {V : View} {op : Op} {d lk a : Nat} {nv : BitVec 32} (htg : op.target? = some d)
    (h1 : V.own d = some (lk, a)) (h2 : lk < V.nl) (h3 : isHeld (V.al lk a)) (h4 : TmpCond V op) :
    Stage V op op.relPhase (.rel lk a nv) := by
  cases op <;> simp only [Op.target?, reduceCtorEq, Option.some.injEq] at htg <;> subst htg <;>
    simp only [Stage, Op.relPhase, Op.target?, Option.some.injEq, exists_eq_left', true_and] <;>
    exact ⟨h1, h2, h3, h4⟩

theorem stage_post_rel {V : View} {op : Op} {d : Nat} (htg : op.target? = some d)
    (h4 : TmpCond V op) (h5 : V.DstClear d) : Stage V op op.relPhase .none := by
  cases op <;> simp only [Op.target?, reduceCtorEq, Option.some.injEq] at htg <;> subst htg <;>
    simp only [Stage, Op.relPhase] <;> simp <;> exact ⟨h4, h5⟩

theorem TmpCond_congr {V V' : View} {op : Op} (h1 : V'.th.tmp = V.th.tmp) (h2 : V'.al = V.al) (h : TmpCond V op) :
    TmpCond V' op := by
  cases op <;> simp only [TmpCond, View.TmpOk, h1, h2] at h ⊢ <;> exact h


/-- every variable of the moving thread that owns something points at a live grant, unless the thread is in the
    release phase of the instruction that targets it -/
theorem Ctx.var_held {c : Client} {t : Nat} (X : Ctx vo ao c t) {v lk a : Nat} (hv : vo v = t)
    (h : own c v = some (lk, a))
    (hns : ((getThread c t).prog[(getThread c t).pc]'X.hpc).target? ≠ some v ∨
         (getThread c t).phase ≠ ((getThread c t).prog[(getThread c t).pc]'X.hpc).relPhase) :
    lk < c.locks.size ∧ ao lk a = t ∧ ∃ s, agentLoc c lk a = .held (kindOf c v).gmode s := by
  obtain ⟨h1, h2, h3⟩ := X.inv.varOk v lk a h
  refine ⟨h1, by rw [h2, hv], ?_⟩
  rcases h3 with h3 | ⟨_, h4⟩
  · exact h3
  · exact absurd h4 (X.not_stale hv hns)

theorem Ctx.target_wf {c : Client} {t : Nat} (X : Ctx vo ao c t) {d : Nat}
    (htg : ((getThread c t).prog[(getThread c t).pc]'X.hpc).target? = some d) : d < c.vars.size ∧ vo d = t := by
  have hw := X.opWF.2.1
  apply hw
  generalize (getThread c t).prog[(getThread c t).pc]'X.hpc = op at htg
  cases op <;> simp only [Op.target?, reduceCtorEq, Option.some.injEq] at htg <;> subst htg <;> simp [Op.vars]

/-- the target owns a grant: its release is the next atomic operation -/
theorem Ctx.rel_block {c : Client} {t : Nat} (X : Ctx vo ao c t) {d lk' a' : Nat}
    (htg : ((getThread c t).prog[(getThread c t).pc]'X.hpc).target? = some d)
    (hph : (getThread c t).phase + 1 = ((getThread c t).prog[(getThread c t).pc]'X.hpc).relPhase)
    (hown : own c d = some (lk', a')) (nv : BitVec 32) (o : Out) :
    IterOk vo c t (setThread c t { (getThread c t) with pend := .rel lk' a' nv }, o, .block) := by
  obtain ⟨hds, hdt⟩ := X.target_wf htg
  have hne : (getThread c t).phase ≠ ((getThread c t).prog[(getThread c t).pc]'X.hpc).relPhase := by omega
  obtain ⟨hl, hao, s, hheld⟩ := X.var_held hdt hown (Or.inr hne)
  refine IterOk.block (ao' := ao) X (SameFor.setThread X.ht rfl) ?_
  rw [afterPhase_setThread _ X.ht]
  obtain ⟨th', hth'⟩ : ∃ th', th' = bumpTh { (getThread c t) with pend := Pend.rel lk' a' nv } .block := ⟨_, rfl⟩
  rw [← hth']
  have e1 : th'.phase = ((getThread c t).prog[(getThread c t).pc]'X.hpc).relPhase := by rw [hth', ← hph]; rfl
  have e2 : th'.pend = .rel lk' a' nv := by rw [hth']; rfl
  have e3 : th'.tmp = (getThread c t).tmp := by rw [hth']; rfl
  refine X.thread_only (SameFor.refl c t) (fun _ => rfl) (fun v l h => X.inv.vlk v l h) (fun _ _ => rfl)
    (by rw [hth']; rfl) ?_ ?_ ?_ ?_ ?_
  · intro v lk a hv _ hst
    exact absurd hst (X.not_stale hv (Or.inr hne))
  · intro lk a h; rw [e3] at h
    obtain ⟨h1, h2, h3, h4⟩ := X.inv.tmpOk t lk a h
    exact ⟨h1, h2, h3, fun v _ => h4 v⟩
  · intro lk h; rw [e3] at h; exact X.inv.tmpLk t lk h
  · intro lk a _ h _
    rcases h with h | h
    · right; left; rw [e3]; exact h
    · exact absurd h (X.no_uses_phase (by
        generalize (getThread c t).prog[(getThread c t).pc]'X.hpc = op at hph
        cases op <;> simp only [Op.relPhase] at hph <;> omega) lk a)
  · have hth : getThread (setThread c t th') t = th' := getThread_setThread_self X.ht
    refine TOk_intro hth (by rw [hth']; exact X.fin) (by rw [e2]; simp) (by rw [hth']; exact X.hpc)
      ((getThread c t).prog[(getThread c t).pc]'X.hpc) (by subst hth'; rfl) ?_
    rw [e1, e2]
    refine stage_rel_intro htg ?_ hl ?_ ?_
    · rw [viewOf_own hdt]; exact hown
    · rw [viewOf_al hao]; exact ⟨_, _, hheld⟩
    · refine TmpCond_congr (V := viewOf vo ao c t) ?_ rfl (stage_pre_rel htg hph X.stage)
      show (getThread (setThread c t th') t).tmp = _
      rw [hth, e3]; rfl

/-- the target owns nothing: nothing to release -/
theorem Ctx.rel_next {c : Client} {t : Nat} (X : Ctx vo ao c t) {d : Nat}
    (htg : ((getThread c t).prog[(getThread c t).pc]'X.hpc).target? = some d)
    (hph : (getThread c t).phase + 1 = ((getThread c t).prog[(getThread c t).pc]'X.hpc).relPhase)
    (hown : own c d = none) (o : Out) :
    IterOk vo c t (c, o, .next) := by
  obtain ⟨hds, hdt⟩ := X.target_wf htg
  have hne : (getThread c t).phase ≠ ((getThread c t).prog[(getThread c t).pc]'X.hpc).relPhase := by omega
  refine IterOk.next (ao' := ao) X (SameFor.refl c t) X.fin X.pend ?_
  have hc : c = setThread c t (getThread c t) := setThread_getThread.symm
  rw [hc, afterPhase_setThread _ X.ht]
  obtain ⟨th', hth'⟩ : ∃ th', th' = bumpTh (getThread c t) .next := ⟨_, rfl⟩
  rw [← hth']
  have e1 : th'.phase = ((getThread c t).prog[(getThread c t).pc]'X.hpc).relPhase := by rw [hth', ← hph]; rfl
  have e2 : th'.pend = .none := by rw [hth']; exact X.pend
  have e3 : th'.tmp = (getThread c t).tmp := by rw [hth']; rfl
  refine X.thread_only (SameFor.refl c t) (fun _ => rfl) (fun v l h => X.inv.vlk v l h) (fun _ _ => rfl)
    (by rw [hth']; rfl) ?_ ?_ ?_ ?_ ?_
  · intro v lk a hv _ hst
    exact absurd hst (X.not_stale hv (Or.inr hne))
  · intro lk a h; rw [e3] at h
    obtain ⟨h1, h2, h3, h4⟩ := X.inv.tmpOk t lk a h
    exact ⟨h1, h2, h3, fun v _ => h4 v⟩
  · intro lk h; rw [e3] at h; exact X.inv.tmpLk t lk h
  · intro lk a _ h _
    rcases h with h | h
    · right; left; rw [e3]; exact h
    · exact absurd h (X.no_uses_phase (by
        generalize (getThread c t).prog[(getThread c t).pc]'X.hpc = op at hph
        cases op <;> simp only [Op.relPhase] at hph <;> omega) lk a)
  · have hth : getThread (setThread c t th') t = th' := getThread_setThread_self X.ht
    refine TOk_intro hth (by rw [hth']; exact X.fin) (by rw [e2]; simp) (by rw [hth']; exact X.hpc)
      ((getThread c t).prog[(getThread c t).pc]'X.hpc) (by subst hth'; rfl) ?_
    rw [e1, e2]
    refine stage_post_rel htg ?_ ?_
    · refine TmpCond_congr (V := viewOf vo ao c t) ?_ rfl (stage_pre_rel htg hph X.stage)
      show (getThread (setThread c t th') t).tmp = _
      rw [hth, e3]; rfl
    · left; rw [viewOf_own hdt]; exact hown


/-- an instruction finishes after rewriting variables of its thread: obligations on the new variable values -/
theorem Ctx.finish_vars {c c1 : Client} {t : Nat} (X : Ctx vo ao c t) (hs1 : SameFor vo ao t c c1)
    (hal1 : ∀ lk a, agentLoc c1 lk a = agentLoc c lk a)
    (hfin1 : (getThread c1 t).finished = false) (htmp1 : (getThread c1 t).tmp.own = none)
    (htlk1 : ∀ lk, (getThread c1 t).tmp.lk = some lk → lk < c.locks.size)
    (hvar : ∀ v lk a, vo v = t → own c1 v = some (lk, a) → lk < c.locks.size ∧ ao lk a = t ∧
      ∃ s, agentLoc c lk a = .held (kindOf c v).gmode s)
    (hopt : ∀ v, vo v = t → kindOf c v = .Opt → own c1 v = none)
    (hvlk : ∀ v lk, vo v = t → (getVar c1 v).lk = some lk → lk < c.locks.size)
    (hinj : ∀ v v' r, vo v = t → vo v' = t → own c1 v = some r → own c1 v' = some r → v = v')
    (horph : ∀ lk a, ao lk a = t → (agentLoc c lk a).grant? ≠ none → ∃ v, own c1 v = some (lk, a)) (o : Out) :
    IterOk vo c t (c1, o, .doneOp) := by
  have ht1 : t < c1.threads.size := by rw [hs1.tsz]; exact X.ht
  refine IterOk.doneOp (ao' := ao) X hs1 hfin1 ?_
  have hs := afterPhase_same (vo := vo) (ao := ao) .doneOp hs1 X.ht
  have hth := getThread_afterPhase (c1 := c1) (t := t) .doneOp ht1
  simp only at hth
  have hgv : ∀ v, getVar (afterPhase c1 t .doneOp) v = getVar c1 v := fun v => by simp [afterPhase]
  have hown : ∀ v, own (afterPhase c1 t .doneOp) v = own c1 v := fun v => by simp only [own, hgv]
  have hal : ∀ lk a, agentLoc (afterPhase c1 t .doneOp) lk a = agentLoc c lk a := fun lk a => by
    rw [← hal1]; simp [afterPhase]
  have hk : ∀ v, kindOf (afterPhase c1 t .doneOp) v = kindOf c v := fun v => by simp [kindOf, hs.kinds]
  refine Inv.update X.inv hs ?_ ?_ ?_ ?_ ?_ ?_ ?_ ?_
  · intro v lk a hv h
    rw [hown] at h
    obtain ⟨h1, h2, h3⟩ := hvar v lk a hv h
    exact ⟨by rw [hs.lsz]; exact h1, h2, Or.inl (by rw [hal, hk]; exact h3)⟩
  · intro v hv h; rw [hown]; exact hopt v hv (by rw [← hk]; exact h)
  · intro v lk hv h; rw [hgv] at h; rw [hs.lsz]; exact hvlk v lk hv h
  · intro v v' r hv hv' h1 h2 _
    rw [hown] at h1 h2; exact hinj v v' r hv hv' h1 h2
  · intro lk a h; rw [hth] at h; simp only [htmp1] at h; cases h
  · intro lk h; rw [hth] at h; rw [hs.lsz]; exact htlk1 lk h
  · intro lk a _ hat hg
    rw [hal] at hg
    obtain ⟨v, hv⟩ := horph lk a hat hg
    exact Or.inl ⟨v, by rw [hown]; exact hv⟩
  · apply TOk_fresh <;> rw [hth] <;> simp [hfin1, htmp1]

/-- kinds of the target: the class of the guard an instruction produces -/
theorem typed_outMode {kinds : Array GKind} {op : Op} {d : Nat} (h : op.typed kinds = true) (htg : op.target? = some d)
    (hnt : op.noTmp = false) : (kinds.getD d .S).gmode = op.outMode ∧ kinds.getD d .S ≠ .Opt := by
  cases op <;> simp only [Op.noTmp, Bool.true_eq_false, reduceCtorEq] at hnt <;>
    simp only [Op.target?, Option.some.injEq] at htg <;> subst htg <;>
    simp only [Op.typed, beq_iff_eq, Bool.and_eq_true] at h
  · rename_i m _ _
    simp only [Array.getD_eq_getD_getElem?, h, Option.getD_some]
    cases m <;> simp [kindOfMode, GKind.gmode, Op.outMode]
  · simp only [Array.getD_eq_getD_getElem?, h.1, Option.getD_some]; simp [GKind.gmode, Op.outMode]
  · simp only [Array.getD_eq_getD_getElem?, h.1, Option.getD_some]; simp [GKind.gmode, Op.outMode]
  · rename_i m _ _
    simp only [Array.getD_eq_getD_getElem?, h.1, Option.getD_some]
    cases m <;> simp [kindOfMode, GKind.gmode, Op.outMode]
  · simp only [Array.getD_eq_getD_getElem?, h, Option.getD_some]; simp [GKind.gmode, Op.outMode]

/-- what `Stage` says in the phase after the release, for an instruction with a temporary -/
theorem stage_take {V : View} {op : Op} {d ph : Nat} (htg : op.target? = some d) (hnt : op.noTmp = false)
    (h0 : ph ≠ 0) (h1 : ph ≠ 1) (h2 : ph ≠ 2) (h : Stage V op ph .none) : V.TmpOk op.outMode ∧ V.DstClear d := by
  cases op <;> simp only [Op.noTmp, Bool.true_eq_false, reduceCtorEq] at hnt <;>
    simp only [Op.target?, Option.some.injEq] at htg <;> subst htg <;>
    simpa [Stage, h0, h1, h2] using h

/-- `dst = std::move(tmp)`: the target takes the temporary -/
theorem Ctx.take_tmp {c : Client} {t : Nat} (X : Ctx vo ao c t) {d : Nat}
    (htg : ((getThread c t).prog[(getThread c t).pc]'X.hpc).target? = some d)
    (hnt : ((getThread c t).prog[(getThread c t).pc]'X.hpc).noTmp = false)
    (h0 : (getThread c t).phase ≠ 0) (h1 : (getThread c t).phase ≠ 1) (h2 : (getThread c t).phase ≠ 2)
    (gid : Option Nat) (o : Out) :
    IterOk vo c t
      (setThread (setGhost (setVar c d (getThread c t).tmp) d gid) t
        { (getThread (setGhost (setVar c d (getThread c t).tmp) d gid) t) with tmp := {}, tmpGid := none }, o, .doneOp) := by
  obtain ⟨hds, hdt⟩ := X.target_wf htg
  obtain ⟨htok, hclr⟩ := stage_take htg hnt h0 h1 h2 X.stage
  obtain ⟨hmode, hnopt⟩ := typed_outMode X.opWF.1 htg hnt
  have ht' : t < (setGhost (setVar c d (getThread c t).tmp) d gid).threads.size := X.ht
  have hown1 : ∀ v, own (setThread (setGhost (setVar c d (getThread c t).tmp) d gid) t
        { (getThread (setGhost (setVar c d (getThread c t).tmp) d gid) t) with tmp := {}, tmpGid := none }) v =
      if d = v then (getThread c t).tmp.own else own c v := by
    intro v
    simp only [own, getVar_setThread, getVar_setGhost, getVar_setVar hds]
    split <;> rfl
  have hgv1 : ∀ v, getVar (setThread (setGhost (setVar c d (getThread c t).tmp) d gid) t
        { (getThread (setGhost (setVar c d (getThread c t).tmp) d gid) t) with tmp := {}, tmpGid := none }) v =
      if d = v then (getThread c t).tmp else getVar c v := by
    intro v
    simp only [getVar_setThread, getVar_setGhost, getVar_setVar hds]
  -- a live reference of a variable other than the target
  have hother : ∀ v lk a, vo v = t → v ≠ d → own c v = some (lk, a) →
      lk < c.locks.size ∧ ao lk a = t ∧ ∃ s, agentLoc c lk a = .held (kindOf c v).gmode s := by
    intro v lk a hv hne h
    exact X.var_held hv h (Or.inl (by rw [htg]; simpa using fun h => hne h.symm))
  refine X.finish_vars (((SameFor.setVar hdt).trans SameFor.setGhost).trans
      (SameFor.setThread (th := { (getThread (setGhost (setVar c d (getThread c t).tmp) d gid) t) with tmp := {}, tmpGid := none })
        ht' rfl)) (fun _ _ => rfl)
    (by rw [getThread_setThread_self ht']; exact X.fin) (by rw [getThread_setThread_self ht'])
    (by rw [getThread_setThread_self ht']; intro lk h; simp at h) ?_ ?_ ?_ ?_ ?_ o
  · intro v lk a hv h
    rw [hown1] at h
    split at h
    · rename_i he; subst he
      obtain ⟨h1, h2, _, _⟩ := X.inv.tmpOk t lk a h
      refine ⟨h1, h2, ?_⟩
      rcases htok with hn | ⟨lk', a', s, hh, hal⟩
      · have : (getThread c t).tmp.own = none := hn
        rw [this] at h; cases h
      · have : (getThread c t).tmp.own = some (lk', a') := hh
        rw [this] at h; cases h
        rw [viewOf_al h2] at hal
        exact ⟨s, by rw [kindOf, hmode]; exact hal⟩
    · rename_i hne; exact hother v lk a hv (fun h => hne h.symm) h
  · intro v hv hk
    rw [hown1]
    split
    · rename_i he; subst he; exact absurd hk hnopt
    · exact X.inv.optNone v hk
  · intro v lk hv h
    rw [hgv1] at h
    split at h
    · exact X.inv.tmpLk t lk h
    · exact X.inv.vlk v lk h
  · intro v v' r hv hv' h1 h2
    rw [hown1] at h1 h2
    obtain ⟨lk, a⟩ := r
    split at h1 <;> split at h2
    · rename_i e1 e2; rw [← e1, ← e2]
    · exact absurd h2 ((X.inv.tmpOk t lk a h1).2.2.2 v')
    · exact absurd h1 ((X.inv.tmpOk t lk a h2).2.2.2 v)
    · rename_i n1 n2
      obtain ⟨_, _, s, hh⟩ := hother v lk a hv (fun h => n1 h.symm) h1
      exact X.inv.inj v v' (lk, a) h1 h2 ⟨_, _, hh⟩
  · intro lk a hat hg
    have hlk : lk < c.locks.size := by
      by_cases h : lk < c.locks.size
      · exact h
      · exfalso; apply hg
        simp [agentLoc_eq, lockSt, Array.getD_eq_getD_getElem?, Array.getElem?_eq_none (Nat.le_of_not_lt h), WLock.init]
        rfl
    rcases X.inv.noOrphan lk a hlk hg with ⟨v, h⟩ | ⟨t', h⟩ | ⟨t', h⟩
    · by_cases hv : v = d
      · subst hv
        exfalso
        rcases hclr with hn | ⟨lk', a', r, hh, hd⟩
        · rw [viewOf_own hdt] at hn; rw [hn] at h; cases h
        · rw [viewOf_own hdt, h] at hh; cases hh
          rw [viewOf_al hat] at hd
          rw [hd] at hg; exact hg rfl
      · exact ⟨v, by rw [hown1]; rw [if_neg (fun hh => hv hh.symm)]; exact h⟩
    · have : t' = t := by rw [← (X.inv.tmpOk t' lk a h).2.1]; exact hat
      subst this
      exact ⟨d, by rw [hown1]; simp [h]⟩
    · have : t' = t := by rw [← Uses_ao h]; exact hat
      subst this
      exact absurd h (X.no_uses_phase h1 lk a)


theorem lk_lt_of_grant {c : Client} {lk a : Nat} (hg : (agentLoc c lk a).grant? ≠ none) : lk < c.locks.size := by
  by_cases h : lk < c.locks.size
  · exact h
  · exfalso; apply hg
    simp [agentLoc_eq, lockSt, Array.getD_eq_getD_getElem?, Array.getElem?_eq_none (Nat.le_of_not_lt h), WLock.init]
    rfl

/-- what `Stage` says after the release, for destructor and moves -/
theorem stage_clear {V : View} {op : Op} {d ph : Nat} (htg : op.target? = some d) (hnt : op.noTmp = true)
    (h0 : ph ≠ 0) (h : Stage V op ph .none) : V.th.tmp.own = none ∧ V.DstClear d := by
  cases op <;> simp only [Op.noTmp, Bool.false_eq_true, reduceCtorEq] at hnt <;>
    simp only [Op.target?, Option.some.injEq, reduceCtorEq] at htg <;> subst htg <;>
    simpa [Stage, h0] using h

/-- a granted request of the moving thread is owned by a variable other than the (cleared) target -/
theorem Ctx.owner_of_grant {c : Client} {t : Nat} (X : Ctx vo ao c t) {d : Nat}
    (hdt : vo d = t) (hclr : (viewOf vo ao c t).DstClear d) (htmpn : (getThread c t).tmp.own = none)
    (hnu : ∀ lk a, ¬ Uses vo ao c t lk a) {lk a : Nat} (hat : ao lk a = t) (hg : (agentLoc c lk a).grant? ≠ none) :
    ∃ v, v ≠ d ∧ own c v = some (lk, a) := by
  rcases X.inv.noOrphan lk a (lk_lt_of_grant hg) hg with ⟨v, h⟩ | ⟨t', h⟩ | ⟨t', h⟩
  · refine ⟨v, ?_, h⟩
    rintro rfl
    rcases hclr with hn | ⟨lk', a', r, hh, hd⟩
    · rw [viewOf_own hdt] at hn; rw [hn] at h; cases h
    · rw [viewOf_own hdt, h] at hh; cases hh
      rw [viewOf_al hat] at hd
      rw [hd] at hg; exact hg rfl
  · have : t' = t := by rw [← (X.inv.tmpOk t' lk a h).2.1]; exact hat
    subst this; rw [htmpn] at h; cases h
  · have : t' = t := by rw [← Uses_ao h]; exact hat
    subst this; exact absurd h (hnu lk a)

theorem iter_dtor1 {c : Client} {t : Nat} (X : Ctx vo ao c t) (v k : Nat)
    (hop : (getThread c t).prog[(getThread c t).pc]'X.hpc = .dtor v) (hph : (getThread c t).phase ≠ 0) :
    IterOk vo c t (runPhase P c t k (.dtor v) (getThread c t).phase) := by
  have htg : ((getThread c t).prog[(getThread c t).pc]'X.hpc).target? = some v := by rw [hop]; rfl
  obtain ⟨hds, hdt⟩ := X.target_wf htg
  obtain ⟨htmpn, hclr⟩ := stage_clear htg (by rw [hop]; rfl) hph X.stage
  have hnu : ∀ lk a, ¬ Uses vo ao c t lk a := fun lk a h => by
    have := X.no_uses (by rw [hop]; rfl) lk a h
    obtain ⟨_, _, _, _, h5⟩ := h.eqs
    rw [hop] at h5; cases h5
  obtain ⟨m, hm⟩ := Nat.exists_eq_succ_of_ne_zero hph
  rw [hm]
  simp only [runPhase]
  have hown1 : ∀ v', own (setGhost (setVar c v {}) v none) v' = if v = v' then none else own c v' := by
    intro v'
    simp only [own, getVar_setGhost, getVar_setVar hds]
    split <;> rfl
  have hother : ∀ v' lk a, vo v' = t → v' ≠ v → own c v' = some (lk, a) →
      lk < c.locks.size ∧ ao lk a = t ∧ ∃ s, agentLoc c lk a = .held (kindOf c v').gmode s := by
    intro v' lk a hv hne h
    exact X.var_held hv h (Or.inl (by rw [htg]; simpa using fun h => hne h.symm))
  refine X.finish_vars ((SameFor.setVar hdt).trans SameFor.setGhost) (fun _ _ => rfl) X.fin htmpn
    (fun lk h => X.inv.tmpLk t lk h) ?_ ?_ ?_ ?_ ?_ _
  · intro v' lk a hv h
    rw [hown1] at h
    split at h
    · cases h
    · rename_i hne; exact hother v' lk a hv (fun h => hne h.symm) h
  · intro v' hv hk
    rw [hown1]; split
    · rfl
    · exact X.inv.optNone v' hk
  · intro v' lk hv h
    simp only [getVar_setGhost, getVar_setVar hds] at h
    split at h
    · simp at h
    · exact X.inv.vlk v' lk h
  · intro v1 v2 r hv1 hv2 h1 h2
    rw [hown1] at h1 h2
    obtain ⟨lk, a⟩ := r
    split at h1
    · cases h1
    · split at h2
      · cases h2
      · rename_i n1 n2
        obtain ⟨_, _, s, hh⟩ := hother v1 lk a hv1 (fun h => n1 h.symm) h1
        exact X.inv.inj v1 v2 (lk, a) h1 h2 ⟨_, _, hh⟩
  · intro lk a hat hg
    obtain ⟨v', hne, h⟩ := X.owner_of_grant hdt hclr htmpn hnu hat hg
    exact ⟨v', by rw [hown1, if_neg (fun hh => hne hh.symm)]; exact h⟩

theorem iter_move1 {c : Client} {t : Nat} (X : Ctx vo ao c t) (d s k : Nat) (asg : Bool)
    (hop : (getThread c t).prog[(getThread c t).pc]'X.hpc = (if asg then .massign d s else .mctor d s))
    (hph : (getThread c t).phase ≠ 0) :
    IterOk vo c t (runPhase P c t k (if asg then .massign d s else .mctor d s) (getThread c t).phase) := by
  have htg : ((getThread c t).prog[(getThread c t).pc]'X.hpc).target? = some d := by rw [hop]; cases asg <;> rfl
  have hnt : ((getThread c t).prog[(getThread c t).pc]'X.hpc).noTmp = true := by rw [hop]; cases asg <;> rfl
  obtain ⟨hds, hdt⟩ := X.target_wf htg
  obtain ⟨htmpn, hclr⟩ := stage_clear htg hnt hph X.stage
  have hw := X.opWF
  have hws : s < c.vars.size ∧ vo s = t := by
    apply hw.2.1; rw [hop]; cases asg <;> simp [Op.vars]
  have hkd : c.kinds[d]? = c.kinds[s]? := by
    have := hw.1; rw [hop] at this
    cases asg <;> simp only [Op.typed, Bool.and_eq_true, beq_iff_eq, if_true, if_false, Bool.false_eq_true] at this <;> exact this.2
  have hkk : kindOf c d = kindOf c s := by simp [kindOf, Array.getD_eq_getD_getElem?, hkd]
  have hnu : ∀ lk a, ¬ Uses vo ao c t lk a := fun lk a h => by
    obtain ⟨_, _, _, _, h5⟩ := h.eqs
    rw [hop] at h5; cases asg <;> cases h5
  obtain ⟨m, hm⟩ := Nat.exists_eq_succ_of_ne_zero hph
  rw [hm]
  obtain ⟨c1, hc1⟩ : ∃ c1, c1 = setGhost (setGhost (setVar (setVar c d (getVar c s)) s { getVar c s with own := none }) d (getGhost c s)) s none := ⟨_, rfl⟩
  have hres : ∀ o, IterOk vo c t (c1, o, .doneOp) := by
    intro o
    have hgv1 : ∀ v', getVar c1 v' = if s = v' then { getVar c s with own := none } else if d = v' then getVar c s else getVar c v' := by
      intro v'
      rw [hc1]
      simp only [getVar_setGhost]
      rw [getVar_setVar (by simpa using hws.1), getVar_setVar hds]
    have hown1 : ∀ v', own c1 v' = if s = v' then none else if d = v' then own c s else own c v' := by
      intro v'
      simp only [own, hgv1]
      split
      · rfl
      · split <;> rfl
    have hother : ∀ v' lk a, vo v' = t → v' ≠ d → own c v' = some (lk, a) →
        lk < c.locks.size ∧ ao lk a = t ∧ ∃ s, agentLoc c lk a = .held (kindOf c v').gmode s := by
      intro v' lk a hv hne h
      exact X.var_held hv h (Or.inl (by rw [htg]; simpa using fun h => hne h.symm))
    have hs1 : SameFor vo ao t c c1 := by
      rw [hc1]
      exact (((SameFor.setVar hdt).trans (SameFor.setVar hws.2)).trans SameFor.setGhost).trans SameFor.setGhost
    have hth1 : getThread c1 t = getThread c t := by rw [hc1]; rfl
    refine X.finish_vars hs1 (fun _ _ => by rw [hc1]; rfl) (by rw [hth1]; exact X.fin) (by rw [hth1]; exact htmpn)
      (fun lk h => X.inv.tmpLk t lk (by rw [← hth1]; exact h)) ?_ ?_ ?_ ?_ ?_ _
    · intro v' lk a hv h
      rw [hown1] at h
      split at h
      · cases h
      · split at h
        · rename_i n1 e2; subst e2
          obtain ⟨h1, h2, s', h3⟩ := hother s lk a hws.2 (fun hh => n1 hh) h
          exact ⟨h1, h2, s', by rw [hkk]; exact h3⟩
        · rename_i n1 n2; exact hother v' lk a hv (fun hh => n2 hh.symm) h
    · intro v' hv hk
      rw [hown1]; split
      · rfl
      · split
        · rename_i e2; subst e2; exact X.inv.optNone s (by rw [← hkk]; exact hk)
        · exact X.inv.optNone v' hk
    · intro v' lk hv h
      rw [hgv1] at h
      split at h
      · exact X.inv.vlk s lk h
      · split at h
        · exact X.inv.vlk s lk h
        · exact X.inv.vlk v' lk h
    · intro v1 v2 r hv1 hv2 h1 h2
      rw [hown1] at h1 h2
      obtain ⟨lk, a⟩ := r
      split at h1
      · cases h1
      · rename_i ns1
        split at h2
        · cases h2
        · rename_i ns2
          split at h1 <;> split at h2
          · rename_i e1 e2; rw [← e1, ← e2]
          · rename_i e1 n2
            obtain ⟨_, _, s', hh⟩ := hother s lk a hws.2 (fun hh => ns1 (by rw [hh, e1])) h1
            exact absurd (X.inv.inj s v2 (lk, a) h1 h2 ⟨_, _, hh⟩) ns2
          · rename_i n1 e2
            obtain ⟨_, _, s', hh⟩ := hother s lk a hws.2 (fun hh => ns2 (by rw [hh, e2])) h2
            exact absurd (X.inv.inj s v1 (lk, a) h2 h1 ⟨_, _, hh⟩) ns1
          · rename_i n1 n2
            obtain ⟨_, _, s', hh⟩ := hother v1 lk a hv1 (fun hh => n1 hh.symm) h1
            exact X.inv.inj v1 v2 (lk, a) h1 h2 ⟨_, _, hh⟩
    · intro lk a hat hg
      obtain ⟨v', hne, hv'⟩ := X.owner_of_grant hdt hclr htmpn hnu hat hg
      by_cases hvs : v' = s
      · rw [hvs] at hne hv'
        exact ⟨d, by rw [hown1, if_neg (fun hh => hne hh), if_pos rfl]; exact hv'⟩
      · exact ⟨v', by rw [hown1, if_neg (fun hh => hvs hh.symm), if_neg (fun hh => hne hh.symm)]; exact hv'⟩
  subst hc1
  cases asg
  · simp only [runPhase, Bool.false_eq_true, if_false]; exact hres _
  · simp only [runPhase, if_true]; exact hres _

end CppUtil.WClient
