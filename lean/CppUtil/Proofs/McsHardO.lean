/-
  MCSLock proof: API entry of a lock request (a new request with a node from the thread's cache or a fresh
  node) and thread exit (the cached node is deleted).
-/
import CppUtil.Proofs.McsHardN

namespace CppUtil.Mcs
open CppUtil

variable {W : Nat → Bool → Bool → Nat → Word} {P : Params} {pb cb : Nat} {s : St} {Q : Nat → List Grp}

/-! ### a new agent that is neither member nor head -/

section
variable {s' : St} {a0 : Agent}

theorem ag_app_old (hag : s'.agents = s.agents ++ [a0]) {j : Nat} (h : j < s.agents.length) :
    s'.agents[j]? = s.agents[j]? := by
  rw [hag, List.getElem?_append_left h]

theorem ag_app_cases (hag : s'.agents = s.agents ++ [a0]) {j : Nat} {b : Agent} (hb : s'.agents[j]? = some b) :
    (j < s.agents.length ∧ s.agents[j]? = some b) ∨ (j = s.agents.length ∧ b = a0) := by
  rw [hag] at hb
  rcases Nat.lt_or_ge j s.agents.length with h | h
  · rw [List.getElem?_append_left h] at hb; exact Or.inl ⟨h, hb⟩
  · have hl := getElem?_lt' hb
    simp only [List.length_append, List.length_cons, List.length_nil] at hl
    have : j = s.agents.length := by omega
    subst this
    simp at hb
    exact Or.inr ⟨rfl, hb.symm⟩

theorem cnt_app (hag : s'.agents = s.agents ++ [a0]) (h0 : a0.loc.sMem = false) (ℓ nd : Nat) :
    cnt s' ℓ nd = cnt s ℓ nd := by
  unfold cnt; rw [hag, List.countP_append]; simp [isMem, h0]

theorem headLoc_app (hag : s'.agents = s.agents ++ [a0]) (G : Grp)
    (h : ∀ k, G.head = some k → k < s.agents.length) : headLoc s' G = headLoc s G := by
  unfold headLoc
  cases hh : G.head with
  | none => rfl
  | some k => simp only [ag_app_old hag (h k hh)]

/-- all groups of a queue have heads among the existing agents -/
theorem heads_lt {ℓ : Nat} {q : List Grp} (hL : LockInv W P s ℓ q) (G : Grp) (hG : G ∈ q) (k : Nat)
    (hh : G.head = some k) : k < s.agents.length := by
  obtain ⟨b, hb, _, _⟩ := hL.headish G hG k hh
  exact getElem?_lt' hb

theorem lockInv_app {ℓ : Nat} {q : List Grp} (hL : LockInv W P s ℓ q) (hag : s'.agents = s.agents ++ [a0])
    (h0 : a0.loc.sMem = false) (h1 : a0.loc.headMode = none)
    (hlw : lockW s' ℓ = lockW s ℓ) (hnw : ∀ G ∈ q, nodeW s' G.node = nodeW s G.node) : LockInv W P s' ℓ q := by
  have hhl : ∀ G ∈ q, headLoc s' G = headLoc s G := fun G hG => headLoc_app hag G (heads_lt hL G hG)
  have hhm : ∀ G ∈ q, hmode s' G = hmode s G := fun G hG => by unfold hmode; rw [hhl G hG]
  have hlk : ∀ G ∈ q, linked s' G = linked s G := fun G hG => by unfold linked; rw [hhl G hG]
  have hpb : ∀ G ∈ q, published s' G = published s G := fun G hG => by unfold published; rw [hhl G hG]
  have hgw : ∀ G ∈ q, ∀ p, grpW W s' ℓ G p = grpW W s ℓ G p := by
    intro G hG p; unfold grpW; rw [hhm G hG, cnt_app hag h0]
  have hmono : Mono s s' q := ⟨fun G hG h => by rw [hhm G hG]; exact h, fun G hG h => by rw [hlk G hG]; exact h⟩
  refine ⟨hL.nodup, ?_, ?_, ?_, ?_, ?_, ?_, ?_, ?_⟩
  · rw [hlw, hL.lockWord]; unfold expLock
    cases hk : q.getLast? with
    | none => rfl
    | some Gk => exact (hgw Gk (List.mem_of_getLast? hk) _).symm
  · intro j G hj
    rw [hnw G (mem_of_idx hj), hL.nodeWord j G hj]
    symm
    apply expNode_congr (hpb G (mem_of_idx hj))
    · apply linkOf_eq_of; intro Gs hGs; exact hlk Gs (mem_of_idx hGs)
    · intro Pg p _ hPg; exact hgw Pg (mem_of_idx hPg) p
  · intro G hG; rw [hhm G hG, cnt_app hag h0]; exact hL.nonempty G hG
  · intro j G hj hj0; rw [hhm G (mem_of_idx hj)]; exact hL.laterHeads j G hj hj0
  · intro j G h hj hh hlive
    rw [hhm G (mem_of_idx hj)] at hlive
    obtain ⟨b, hb, hb1, hb2, hb3, hb4⟩ := hL.heads j G h hj hh hlive
    refine ⟨b, by rw [ag_app_old hag (getElem?_lt' hb)]; exact hb, hb1, hb2, hb3, ?_⟩
    apply HeadOK_mono hmono j b _ hb4
    intro m _ Pg _ hPg; exact hgw Pg (mem_of_idx hPg) _
  · intro G hG h hh
    obtain ⟨b, hb, hb1, hb2⟩ := hL.headish G hG h hh
    exact ⟨b, by rw [ag_app_old hag (getElem?_lt' hb)]; exact hb, hb1, hb2⟩
  · intro k b hk hb1 hb2
    rcases ag_app_cases hag hk with ⟨_, hk'⟩ | ⟨_, rfl⟩
    · exact hL.headsBack k b hk' hb1 hb2
    · rw [h1] at hb2; cases hb2
  · intro k b hk hb1 hb2
    rcases ag_app_cases hag hk with ⟨_, hk'⟩ | ⟨_, rfl⟩
    · obtain ⟨j, G, hj, hn, hm⟩ := hL.mems k b hk' hb1 hb2
      exact ⟨j, G, hj, hn, MemOK_mono hmono j G (mem_of_idx hj) b hm⟩
    · rw [h0] at hb2; cases hb2
end

/-! ### spawn -/

def newAgent (tid lk q : Nat) (m : Mode) : Agent :=
  { tid := tid, lk := lk, qnode := q, loc := match m with | .S => .sStore | _ => .xStore m }

theorem newAgent_facts (tid lk q : Nat) (m : Mode) :
    (newAgent tid lk q m).loc.priv = true ∧ (newAgent tid lk q m).loc.sMem = false ∧
    (newAgent tid lk q m).loc.headMode = none ∧ (newAgent tid lk q m).loc ≠ .idle ∧
    ((newAgent tid lk q m).loc = .sLoad ∨ (newAgent tid lk q m).loc = .sCas → False) ∧
    (∀ m', (newAgent tid lk q m).loc = .xXchg m' → False) := by
  cases m <;> simp [newAgent, Loc.priv, Loc.sMem, Loc.headMode]

theorem spawnLock_eq (s : St) (tid lk : Nat) (m : Mode) :
    (spawnLock s tid lk m).1 =
      { (takeNode s tid).1 with agents := (takeNode s tid).1.agents ++ [newAgent tid lk (takeNode s tid).2.1 m] } := by
  unfold spawnLock newAgent
  cases m <;> rfl

theorem nodeW_app (s : St) (w : Option Word) (k : Nat) (hk : 1 ≤ k) (hk' : k ≤ s.nodes.length) :
    (({ s with nodes := s.nodes ++ [w] } : St).nodes.getD (k - 1) none) = s.nodes.getD (k - 1) none := by
  simp only [List.getD_eq_getElem?_getD]
  rw [List.getElem?_append_left (by omega)]

theorem case_spawn (hI : Inv W P pb cb s Q) (tid lk : Nat) (m : Mode) (htid : tid < s.tls.length)
    (hlk : lk < s.locks.length)
    (hfit : (spawnLock s tid lk m).1.nodes.length < pb ∧ (spawnLock s tid lk m).1.agents.length + 1 < cb) :
    Inv W P pb cb (spawnLock s tid lk m).1 Q := by
  rw [spawnLock_eq] at hfit ⊢
  obtain ⟨hpriv0, hsm0, hhm0, hidle0, hnw1, hnw2⟩ := newAgent_facts tid lk (takeNode s tid).2.1 m
  cases hc : s.tls.getD tid none with
  | some k0 =>
    -- the node comes from the thread's cache
    have htk : takeNode s tid = ({ s with tls := s.tls.set tid none }, k0, []) := by
      unfold takeNode; rw [hc]
    have hc' : s.tls[tid]? = some (some k0) := by
      rw [List.getD_eq_getElem?_getD] at hc
      cases hg : s.tls[tid]? with
      | none => rw [hg] at hc; cases hc
      | some o => rw [hg] at hc; simp at hc; rw [hc]
    rw [htk] at hfit hpriv0 hsm0 hhm0 hidle0 hnw1 hnw2 ⊢
    simp only at hfit hpriv0 hsm0 hhm0 hidle0 hnw1 hnw2 ⊢
    apply inv_assemble
    · exact hI.uaf
    · exact hfit.1
    · exact hfit.2
    · intro b hb
      simp only [List.length_set]
      rcases List.mem_append.mp hb with hb | hb
      · exact hI.wf b hb
      · simp only [List.mem_singleton] at hb; subst hb
        exact ⟨htid, hlk, hidle0, by rw [hhm0]; simp⟩
    · exact hI.outside
    · intro ℓ hℓ
      exact lockInv_app (hI.locks ℓ hℓ) rfl hsm0 hhm0 rfl (fun _ _ => rfl)
    · apply ownInv_of_map hI.own
        (fun k o0 o => (k = k0 ∧ o0 = .cache tid ∧ o = .priv s.agents.length) ∨ (k ≠ k0 ∧ o = o0))
        (by
          intro k o0 o o' h h'
          rcases h with ⟨h1, _, h3⟩ | ⟨h1, h3⟩ <;> rcases h' with ⟨h1', _, h3'⟩ | ⟨h1', h3'⟩
          · rw [h3, h3']
          · exact absurd h1 h1'
          · exact absurd h1' h1
          · rw [h3, h3'])
        none (by intro kf of h; cases h)
      intro k o h
      cases o with
      | priv j =>
        obtain ⟨b, hb, hpb, rfl⟩ := h
        rcases ag_app_cases rfl hb with ⟨hj, hb'⟩ | ⟨rfl, rfl⟩
        · refine ⟨hI.privLive j b hb' hpb, Or.inl ⟨.priv j, ⟨b, hb', hpb, rfl⟩, Or.inr ⟨?_, rfl⟩⟩⟩
          intro e; exact hI.privC j b tid hb' hpb (by rw [e]; exact hc')
        · exact ⟨hI.cacheLive tid k0 hc', Or.inl ⟨.cache tid, hc', Or.inl ⟨rfl, rfl, rfl⟩⟩⟩
      | cache t =>
        have h' : (s.tls.set tid none)[t]? = some (some k) := h
        rcases tls_set_cases h' with ⟨_, hx⟩ | ⟨hne, hx⟩
        · cases hx
        · refine ⟨hI.cacheLive t k hx, Or.inl ⟨.cache t, hx, Or.inr ⟨?_, rfl⟩⟩⟩
          intro e; subst e; exact hne (hI.cacheUniq t tid k hx hc')
      | grp ℓ =>
        obtain ⟨G, hG, rfl⟩ := h
        exact ⟨hI.grpLive ℓ G hG, Or.inl ⟨.grp ℓ, ⟨G, hG, rfl⟩, Or.inr ⟨hI.cacheQ tid k0 ℓ G hc' hG, rfl⟩⟩⟩
    · intro k b hk
      rcases ag_app_cases rfl hk with ⟨_, hk'⟩ | ⟨_, rfl⟩
      · exact hI.privW k b hk'
      · exact ⟨fun h => (hnw1 h).elim, fun m' h => (hnw2 m' h).elim⟩
  | none =>
    -- a fresh node
    have htk : takeNode s tid = ({ s with nodes := s.nodes ++ [some 0] }, s.nodes.length + 1, [s!"NA{s.nodes.length + 1}"]) := by
      unfold takeNode; rw [hc]
    rw [htk] at hfit hpriv0 hsm0 hhm0 hidle0 hnw1 hnw2 ⊢
    simp only at hfit hpriv0 hsm0 hhm0 hidle0 hnw1 hnw2 ⊢
    have hnodeW : ∀ k, 1 ≤ k → k ≤ s.nodes.length → ∀ (ag : List Agent),
        nodeW ({ s with nodes := s.nodes ++ [some 0], agents := ag } : St) k = nodeW s k ∧
        nodeLive ({ s with nodes := s.nodes ++ [some 0], agents := ag } : St) k = nodeLive s k := by
      intro k h1 h2 ag
      unfold nodeW rd nodeLive
      simp only [List.getD_eq_getElem?_getD]
      rw [List.getElem?_append_left (by omega)]
      exact ⟨rfl, rfl⟩
    have hownle : ∀ k o, Owns s Q k o → 1 ≤ k ∧ k ≤ s.nodes.length :=
      fun k o h => nodeLive_bound (hI.own.live k o h)
    apply inv_assemble
    · exact hI.uaf
    · exact hfit.1
    · exact hfit.2
    · intro b hb
      rcases List.mem_append.mp hb with hb | hb
      · exact hI.wf b hb
      · simp only [List.mem_singleton] at hb; subst hb
        exact ⟨htid, hlk, hidle0, by rw [hhm0]; simp⟩
    · exact hI.outside
    · intro ℓ hℓ
      exact lockInv_app (hI.locks ℓ hℓ) rfl hsm0 hhm0 rfl (fun G hG => by
        have := nodeLive_bound (hI.grpLive ℓ G hG)
        exact (hnodeW G.node this.1 this.2 _).1)
    · apply ownInv_of_map hI.own (fun _ o0 o => o = o0) (by intro k o0 o o' h h'; rw [h, h'])
        (some (s.nodes.length + 1, .priv s.agents.length))
        (by
          intro kf of h o0 hown
          cases h
          have := (hownle _ o0 hown).2
          omega)
      intro k o h
      cases o with
      | priv j =>
        obtain ⟨b, hb, hpb, rfl⟩ := h
        rcases ag_app_cases rfl hb with ⟨hj, hb'⟩ | ⟨rfl, rfl⟩
        · have hle := hownle b.qnode (.priv j) ⟨b, hb', hpb, rfl⟩
          exact ⟨by rw [(hnodeW b.qnode hle.1 hle.2 _).2]; exact hI.privLive j b hb' hpb,
            Or.inl ⟨.priv j, ⟨b, hb', hpb, rfl⟩, rfl⟩⟩
        · refine ⟨?_, Or.inr rfl⟩
          unfold nodeLive
          simp [newAgent, List.getD_eq_getElem?_getD]
      | cache t =>
        have h' : s.tls[t]? = some (some k) := h
        have hle := hownle k (.cache t) h'
        exact ⟨by rw [(hnodeW k hle.1 hle.2 _).2]; exact hI.cacheLive t k h', Or.inl ⟨.cache t, h', rfl⟩⟩
      | grp ℓ =>
        obtain ⟨G, hG, rfl⟩ := h
        have hle := hownle G.node (.grp ℓ) ⟨G, hG, rfl⟩
        exact ⟨by rw [(hnodeW G.node hle.1 hle.2 _).2]; exact hI.grpLive ℓ G hG,
          Or.inl ⟨.grp ℓ, ⟨G, hG, rfl⟩, rfl⟩⟩
    · intro k b hk
      rcases ag_app_cases rfl hk with ⟨_, hk'⟩ | ⟨_, rfl⟩
      · have hold := hI.privW k b hk'
        have hsame : b.loc.priv = true →
            nodeW ({ s with nodes := s.nodes ++ [some 0],
                            agents := s.agents ++ [newAgent tid lk (s.nodes.length + 1) m] } : St) b.qnode
              = nodeW s b.qnode := by
          intro hb
          have hle := hownle b.qnode (.priv k) ⟨b, hk', hb, rfl⟩
          exact (hnodeW b.qnode hle.1 hle.2 _).1
        constructor
        · intro h; rw [hsame (by rcases h with h | h <;> simp [h, Loc.priv])]; exact hold.1 h
        · intro m' h; rw [hsame (by simp [h, Loc.priv])]; exact hold.2 m' h
      · exact ⟨fun h => (hnw1 h).elim, fun m' h => (hnw2 m' h).elim⟩

/-! ### thread exit -/

theorem case_exit (hI : Inv W P pb cb s Q) (tid : Nat) : Inv W P pb cb (threadExit s tid).1 Q := by
  unfold threadExit
  cases hc : s.tls.getD tid none with
  | none => exact hI
  | some old =>
    simp only
    have hc' : s.tls[tid]? = some (some old) := by
      rw [List.getD_eq_getElem?_getD] at hc
      cases hg : s.tls[tid]? with
      | none => rw [hg] at hc; cases hc
      | some o => rw [hg] at hc; simp at hc; rw [hc]
    have hold1 := (nodeLive_bound (hI.cacheLive tid old hc')).1
    have hnode : ∀ k, 1 ≤ k → k ≠ old →
        nodeW ({ s with tls := s.tls.set tid none, nodes := s.nodes.set (old - 1) none } : St) k = nodeW s k ∧
        nodeLive ({ s with tls := s.tls.set tid none, nodes := s.nodes.set (old - 1) none } : St) k = nodeLive s k := by
      intro k h1 hne
      unfold nodeW rd nodeLive
      have : ¬ (old - 1 = k - 1) := by omega
      simp only [List.getD_eq_getElem?_getD, List.getElem?_set_ne this, and_self]
    apply inv_assemble
    · exact hI.uaf
    · simpa using hI.capN
    · exact hI.capA
    · intro b hb; simp only [List.length_set]; exact hI.wf b hb
    · exact hI.outside
    · intro ℓ hℓ
      exact lockInv_frame (hI.locks ℓ hℓ) rfl rfl
        (fun G hG => (hnode G.node (hI.node_pos hG) (hI.cacheQ tid old ℓ G hc' hG)).1)
    · apply ownInv_of_map hI.own (fun k o0 o => k ≠ old ∧ o = o0) (by intro k o0 o o' h h'; rw [h.2, h'.2])
        none (by intro kf of h; cases h)
      intro k o h
      cases o with
      | priv j =>
        obtain ⟨b, hb, hpb, rfl⟩ := h
        have hb' : s.agents[j]? = some b := hb
        have hne : b.qnode ≠ old := fun e => hI.privC j b tid hb' hpb (by rw [e]; exact hc')
        exact ⟨by rw [(hnode b.qnode (nodeLive_bound (hI.privLive j b hb' hpb)).1 hne).2]; exact hI.privLive j b hb' hpb,
          Or.inl ⟨.priv j, ⟨b, hb', hpb, rfl⟩, hne, rfl⟩⟩
      | cache t =>
        have h' : (s.tls.set tid none)[t]? = some (some k) := h
        rcases tls_set_cases h' with ⟨_, hx⟩ | ⟨hne, hx⟩
        · cases hx
        · have hk : k ≠ old := by intro e; subst e; exact hne (hI.cacheUniq t tid k hx hc')
          exact ⟨by rw [(hnode k (nodeLive_bound (hI.cacheLive t k hx)).1 hk).2]; exact hI.cacheLive t k hx,
            Or.inl ⟨.cache t, hx, hk, rfl⟩⟩
      | grp ℓ =>
        obtain ⟨G, hG, rfl⟩ := h
        have hne := hI.cacheQ tid old ℓ G hc' hG
        exact ⟨by rw [(hnode G.node (hI.node_pos hG) hne).2]; exact hI.grpLive ℓ G hG,
          Or.inl ⟨.grp ℓ, ⟨G, hG, rfl⟩, hne, rfl⟩⟩
    · intro k b hk
      have hk' : s.agents[k]? = some b := hk
      have hold := hI.privW k b hk'
      have hsame : b.loc.priv = true →
          nodeW ({ s with tls := s.tls.set tid none, nodes := s.nodes.set (old - 1) none } : St) b.qnode
            = nodeW s b.qnode := by
        intro hb
        exact (hnode b.qnode (nodeLive_bound (hI.privLive k b hk' hb)).1
          (fun e => hI.privC k b tid hk' hb (by rw [e]; exact hc'))).1
      constructor
      · intro h; rw [hsame (by rcases h with h | h <;> simp [h, Loc.priv])]; exact hold.1 h
      · intro m h; rw [hsame (by simp [h, Loc.priv])]; exact hold.2 m h

end CppUtil.Mcs
