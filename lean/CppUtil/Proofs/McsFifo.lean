/-
  MCSLock: requests are served in queue order (C11).  The ghost queue is the arrival order by construction:
  `ghostAtom` appends a group at the end exactly at the step in which a LockSIX / LockX request exchanges the
  lock word or a LockS request installs itself on a free lock (the request's first modification of the lock
  object), a LockS request that increments the counter joins the *last* group, and groups leave only from the
  front.  `no_overtake`: in a state satisfying the invariant, no request holds a grant while a conflicting
  request that is ahead of it in the queue is still waiting.
-/
import CppUtil.Proofs.McsProgress

namespace CppUtil.Mcs
open CppUtil

variable {W : Nat → Bool → Bool → Nat → Word} {P : Params} {pb cb : Nat} {s : St} {Q : Nat → List Grp}

/-- request `i` (state `a`) is the live head or an unreleased shared member of group `G` -/
def InGroup (G : Grp) (i : Nat) (a : Agent) : Prop :=
  (G.head = some i ∧ a.loc.headMode.isSome) ∨ (a.loc.sMem = true ∧ a.qnode = G.node)

/-- the mode a queued request asks for / holds -/
def reqMode (a : Agent) : Mode := (a.loc.headMode).getD .S

/-- `a` arrived before `b`: earlier group, or head of the group `b` joined as a shared member -/
def Ahead (Q : Nat → List Grp) (ℓ : Nat) (i : Nat) (a : Agent) (j : Nat) (b : Agent) : Prop :=
  ∃ (ja jb : Nat) (Ga Gb : Grp), (Q ℓ)[ja]? = some Ga ∧ (Q ℓ)[jb]? = some Gb ∧ InGroup Ga i a ∧ InGroup Gb j b ∧
    (ja < jb ∨ (ja = jb ∧ Ga.head = some i ∧ b.loc.sMem = true))

theorem grant_S_member {b : Agent} (h : b.loc.grant? = some .S) : b.loc = .held .S := by
  cases hl : b.loc <;> simp_all [Loc.grant?]

theorem grant_head_live {b : Agent} {m : Mode} (h : b.loc.grant? = some m) (hm : m ≠ .S) : b.loc.headMode.isSome := by
  cases hl : b.loc <;> simp_all [Loc.grant?, Loc.headMode]
  all_goals (rename_i m'; cases m' <;> simp_all)

/-- **no overtaking** -/
theorem no_overtake (hI : Inv W P pb cb s Q) {i j : Nat} {a b : Agent}
    (hi : s.agents[i]? = some a) (hj : s.agents[j]? = some b) (hla : a.lk = b.lk)
    (hahead : Ahead Q a.lk i a j b)
    {mb : Mode} (hgb : b.loc.grant? = some mb) (hc : conflict (reqMode a) mb = true) : False := by
  have hwf := hI.wf a (List.mem_of_getElem? hi)
  have hL := hI.locks a.lk hwf.2.1
  obtain ⟨ja, jb, Ga, Gb, hja, hjb, hina, hinb, hord⟩ := hahead
  by_cases hmb : mb = .S
  · -- b holds S: its group is the first one and has no live head
    subst hmb
    have hbl := grant_S_member hgb
    have hbs : b.loc.sMem = true := by rw [hbl]; rfl
    obtain ⟨jb', Gb', hjb', hnb', hmo⟩ := member_group hI hj hbs
    rw [← hla] at hjb' hmo
    simp only [MemOK, hbl] at hmo
    -- b's group is Gb
    have hGb : Gb.node = b.qnode := by
      rcases hinb with ⟨_, hm⟩ | ⟨_, hq⟩
      · rw [hbl] at hm; simp [Loc.headMode] at hm
      · exact hq.symm
    obtain ⟨rfl, rfl⟩ := idx_unique hL.nodup hjb hjb' (by rw [hGb, hnb'])
    have hjb0 : jb = 0 := by
      rcases Nat.eq_zero_or_pos jb with h | h
      · exact h
      · have := hL.laterHeads jb Gb hjb h; rw [hmo] at this; simp at this
    subst hjb0
    rcases hord with h | ⟨rfl, hh, _⟩
    · omega
    · -- a is the head of b's group: it must be dead, but it is unfinished
      rcases hina with ⟨_, hlive⟩ | ⟨hs, _⟩
      · rw [hja] at hjb; cases hjb
        rw [hmode_eq_of_head hh hi] at hmo
        rw [hmo] at hlive; cases hlive
      · rw [hja] at hjb; cases hjb
        -- a shared member cannot be the recorded head
        obtain ⟨c, hc', _, hc2⟩ := hL.headish Ga (mem_of_idx hja) i hh
        rw [hi] at hc'; cases hc'
        rcases hc2 with h | h
        · rw [Loc.headMode_of_sMem _ hs] at h; cases h
        · rw [h] at hs; cases hs
  · -- b is a granted head
    obtain ⟨jb', Gb', hjb', hhb', hlb, he2, hx⟩ := granted_head_pos (W := W) hI hj hgb hmb
    rw [← hla] at hjb' he2
    have hGb : Gb.head = some j := by
      rcases hinb with ⟨hh, _⟩ | ⟨hs, _⟩
      · exact hh
      · rw [Loc.sMem_of_head _ hlb] at hs; cases hs
    have hsame := head_unique hI hj hlb (by rw [← hla]; exact hjb) hGb (by rw [← hla]; exact hjb') hhb'
    obtain ⟨rfl, rfl⟩ := hsame
    rcases hord with hlt | ⟨_, _, hs⟩
    · -- a sits in an earlier group
      rcases he2 with h0 | ⟨h1, G0, hG0, hnone⟩
      · omega
      · subst h1
        have hja0 : ja = 0 := by omega
        subst hja0
        rw [hja] at hG0; cases hG0
        rcases hina with ⟨hh, hlive⟩ | ⟨hs, _⟩
        · rw [hmode_eq_of_head hh hi] at hnone
          rw [hnone] at hlive; cases hlive
        · -- a is a shared member ahead of a SIX head: S and SIX are compatible, and X needs index 0
          have hra : reqMode a = .S := by unfold reqMode; rw [Loc.headMode_of_sMem _ hs]; rfl
          rw [hra] at hc
          cases mb with
          | S => exact hmb rfl
          | SIX => simp [conflict] at hc
          | X => have := hx rfl; omega
    · rw [Loc.sMem_of_head _ hlb] at hs; cases hs

/-! ### the ghost queue is the arrival order by construction -/

/-- the tail exchange appends the request's group at the end of the queue -/
theorem ghost_arrive_head (i : Nat) (a : Agent) (m : Mode) (hi : s.agents[i]? = some a) (hloc : a.loc = .xXchg m) :
    ghostAtom P s Q i a.lk = Q a.lk ++ [{ node := a.qnode, head := some i }] := by
  simp [ghostAtom, hi, hloc, setQ]

/-- a LockS request changes the queue only by installing a new (head-less) group on an empty queue; when it
    increments the counter of the tail group the queue itself is unchanged (it becomes a member of the last group) -/
theorem ghost_arrive_shared (i : Nat) (a : Agent) (hi : s.agents[i]? = some a) (hloc : a.loc = .sCas) :
    ghostAtom P s Q i a.lk = Q a.lk ∨ ghostAtom P s Q i a.lk = [{ node := a.qnode, head := none }] := by
  simp only [ghostAtom, hi, hloc]
  split
  · right; simp [setQ]
  · left; rfl

theorem ite_setQ_r (c : Prop) [Decidable c] (Q : Nat → List Grp) (ℓ : Nat) (X : List Grp) :
    (if c then Q else setQ Q ℓ X) ℓ = Q ℓ ∨ (if c then Q else setQ Q ℓ X) ℓ = X := by
  by_cases h : c <;> simp [h, setQ]

theorem ite_setQ_l (c : Prop) [Decidable c] (Q : Nat → List Grp) (ℓ : Nat) (X : List Grp) :
    (if c then setQ Q ℓ X else Q) ℓ = Q ℓ ∨ (if c then setQ Q ℓ X else Q) ℓ = X := by
  by_cases h : c <;> simp [h, setQ]

/-- releases remove at most the first group: the queue after a step of a releasing request is the queue, its
    tail, or empty (the latter only when it had a single group, by `remove_only`) -/
theorem ghost_release (i : Nat) (a : Agent) (m : Mode) (ph : Ph) (hi : s.agents[i]? = some a) (hloc : a.loc = .rel m ph) :
    ghostAtom P s Q i a.lk = Q a.lk ∨ ghostAtom P s Q i a.lk = (Q a.lk).tail ∨ ghostAtom P s Q i a.lk = [] := by
  cases ph with
  | load0 => left; simp [ghostAtom, hi, hloc]
  | lockLoad => left; simp [ghostAtom, hi, hloc]
  | spinNext => left; simp [ghostAtom, hi, hloc]
  | cas =>
    simp only [ghostAtom, hi, hloc]
    by_cases h1 : rd s (.lock a.lk) = a.cur
    · rw [if_pos h1]
      exact (ite_setQ_r _ Q a.lk []).elim Or.inl (fun h => Or.inr (Or.inr h))
    · rw [if_neg h1]; left; rfl
  | handoff =>
    simp only [ghostAtom, hi, hloc]
    exact (ite_setQ_l _ Q a.lk (Q a.lk).tail).elim Or.inl (fun h => Or.inr (Or.inl h))

/-- no other step changes the queue -/
theorem ghost_other (i : Nat) (a : Agent) (hi : s.agents[i]? = some a)
    (h1 : a.loc ≠ .sCas) (h2 : ∀ m, a.loc ≠ .xXchg m) (h3 : ∀ m ph, a.loc ≠ .rel m ph) :
    ghostAtom P s Q i = Q := by
  simp only [ghostAtom, hi]
  cases hl : a.loc <;> simp_all

end CppUtil.Mcs
