/-
  Guard algebra, part 8: conversions consume their source guard (phase 0 of UpgradeToX / DowngradeToSIX).
-/
import CppUtil.Proofs.WClientOps4

set_option linter.unusedSimpArgs false
set_option linter.unusedVariables false

namespace CppUtil.WClient
open CppUtil CppUtil.WLock

variable {P : WParams} {vo : Nat → Nat} {ao : Nat → Nat → Nat}

/-- conversion of a guard that owns nothing: the result owns nothing -/
theorem Ctx.conv_none {c : Client} {t : Nat} (X : Ctx vo ao c t) (hph : (getThread c t).phase = 0)
    (hop : (∃ d s, (getThread c t).prog[(getThread c t).pc]'X.hpc = .upg d s) ∨
           (∃ d s, (getThread c t).prog[(getThread c t).pc]'X.hpc = .dng d s)) (o : Out) :
    IterOk vo c t (setThread c t { (getThread c t) with tmp := {}, tmpGid := none, ag := 0 }, o, .next) := by
  have htmpn : (getThread c t).tmp.own = none := by
    have := X.stage; simp only [Stage, hph, if_true] at this; exact this
  refine IterOk.next (ao' := ao) X (SameFor.setThread X.ht rfl) ?_ ?_ ?_
  · rw [getThread_setThread_self X.ht]; exact X.fin
  · rw [getThread_setThread_self X.ht]; exact X.pend
  rw [afterPhase_setThread _ X.ht]
  obtain ⟨th', hth'⟩ : ∃ th', th' = bumpTh { (getThread c t) with tmp := {}, tmpGid := none, ag := 0 } .next := ⟨_, rfl⟩
  rw [← hth']
  have e1 : th'.phase = 1 := by rw [hth']; simp [bumpTh, hph]
  have e2 : th'.pend = .none := by rw [hth']; exact X.pend
  have e3 : th'.tmp = {} := by rw [hth']; rfl
  refine X.thread_only (SameFor.refl c t) (fun _ => rfl) (fun v l h => X.inv.vlk v l h) (fun _ _ => rfl)
    (by rw [hth']; rfl) ?_ ?_ ?_ ?_ ?_
  · intro v lk a hv _ hst
    exfalso; apply X.not_stale hv _ hst
    right; rw [hph]
    rcases hop with ⟨d, s, h⟩ | ⟨d, s, h⟩ <;> rw [h] <;> simp [Op.relPhase]
  · intro lk a h; rw [e3] at h; cases h
  · intro lk h; rw [e3] at h; cases h
  · intro lk a _ h _
    rcases h with h | h
    · rw [htmpn] at h; cases h
    · exact absurd h (X.no_uses_phase (by rw [hph]; simp) lk a)
  · have hth : getThread (setThread c t th') t = th' := getThread_setThread_self X.ht
    refine TOk_intro hth (by rw [hth']; exact X.fin) (by rw [e2]; simp) (by rw [hth']; exact X.hpc)
      ((getThread c t).prog[(getThread c t).pc]'X.hpc) (by subst hth'; rfl) ?_
    rw [e1, e2]
    have hvth : (viewOf vo ao (setThread c t th') t).th = th' := hth
    rcases hop with ⟨d, s, h⟩ | ⟨d, s, h⟩ <;> rw [h] <;> simp [Stage, hvth, e3]

/-- conversion of an owning guard: the source gives its grant to the running call -/
theorem Ctx.conv_block {c : Client} {t : Nat} (X : Ctx vo ao c t) (hph : (getThread c t).phase = 0)
    {src lk a : Nat} (hsv : src < c.vars.size ∧ vo src = t)
    (hnsrc : ((getThread c t).prog[(getThread c t).pc]'X.hpc).target? ≠ some src ∨ True)
    (hown : own c src = some (lk, a)) (l' : Loc) (hl'g : l'.grant? ≠ none)
    (s' : WLock.St) (hs' : s'.agents = (lockSt c lk).agents.set a l')
    (p : Pend) (hpst : p ≠ .start) (gid : Option Nat) (o : Out)
    (hureq : usesReq { (getThread c t) with tmp := { lk := some lk } } ((getThread c t).prog[(getThread c t).pc]'X.hpc) = true)
    (hoplk : ∀ gv th', th'.tmp.lk = some lk → opLk gv th' ((getThread c t).prog[(getThread c t).pc]'X.hpc) = lk)
    (hstage : ∀ V : View, V.th.tmp = { lk := some lk } → V.th.ag = a → V.al lk a = l' → V.Unref lk a → V.nl = c.locks.size →
      lk < c.locks.size → Stage V ((getThread c t).prog[(getThread c t).pc]'X.hpc) 1 p) :
    IterOk vo c t
      (setThread (setGhost (setVar (setLockSt c lk s') src { getVar c src with own := none }) src none) t
        { (getThread c t) with pend := p, ag := a, tmp := { lk := some lk }, tmpGid := gid }, o, .block) := by
  have htmpn : (getThread c t).tmp.own = none := by
    have := X.stage; simp only [Stage, hph, if_true] at this; exact this
  have hne : (getThread c t).phase ≠ ((getThread c t).prog[(getThread c t).pc]'X.hpc).relPhase := by
    rw [hph]
    generalize (getThread c t).prog[(getThread c t).pc]'X.hpc = op
    cases op <;> simp [Op.relPhase]
  obtain ⟨hlk, hao, s0, hheld⟩ := X.var_held hsv.2 hown (Or.inr hne)
  have halt : a < (lockSt c lk).agents.length := X.inv.ref_lt hown
  obtain ⟨c0, hc0⟩ : ∃ c0, c0 = setGhost (setVar (setLockSt c lk s') src { getVar c src with own := none }) src none := ⟨_, rfl⟩
  rw [← hc0]
  have ht0 : t < c0.threads.size := by rw [hc0]; exact X.ht
  have hal0 : ∀ lk' a', agentLoc c0 lk' a' = if lk' = lk ∧ a' = a then l' else agentLoc c lk' a' := by
    intro lk' a'
    rw [hc0, agentLoc_setGhost, agentLoc_setVar]
    by_cases hl : lk = lk'
    · subst hl
      rw [agentLoc_setLockSt_self hlk, hs']
      by_cases ha : a' = a
      · subst ha; simp [List.getElem?_set_self halt]
      · simp [List.getElem?_set_ne (Ne.symm ha), ha, agentLoc_eq]
    · rw [agentLoc_setLockSt_ne hl, if_neg (fun h => hl h.1.symm)]
  have hgv0 : ∀ v, getVar c0 v = if src = v then { getVar c src with own := none } else getVar c v := by
    intro v; rw [hc0, getVar_setGhost, getVar_setVar (by simpa using hsv.1)]; rfl
  have hown0 : ∀ v, own c0 v = if src = v then none else own c v := by
    intro v; simp only [own, hgv0]; split <;> rfl
  have hs0 : SameFor vo ao t c c0 := by
    rw [hc0]
    refine ((SameFor.setLockSt hlk ?_).trans (SameFor.setVar hsv.2)).trans SameFor.setGhost
    intro a' hne'
    have : a' ≠ a := by rintro rfl; exact hne' hao
    rw [hs', List.getElem?_set_ne (Ne.symm this)]; rfl
  refine IterOk.block (ao' := ao) X (hs0.trans (SameFor.setThread ht0 (by rw [hc0]; rfl))) ?_
  rw [afterPhase_setThread _ ht0]
  obtain ⟨th', hth'⟩ : ∃ th', th' = bumpTh { (getThread c t) with pend := p, ag := a, tmp := { lk := some lk }, tmpGid := gid } .block := ⟨_, rfl⟩
  rw [← hth']
  have e1 : th'.phase = 1 := by rw [hth']; simp [bumpTh, hph]
  have e2 : th'.pend = p := by rw [hth']; rfl
  have e3 : th'.tmp = { lk := some lk } := by rw [hth']; rfl
  have e4 : th'.ag = a := by rw [hth']; rfl
  have hs : SameFor vo ao t c (setThread c0 t th') := hs0.trans (SameFor.setThread ht0 (by rw [hth', hc0]; rfl))
  have hth : getThread (setThread c0 t th') t = th' := getThread_setThread_self ht0
  have hal : ∀ lk' a', agentLoc (setThread c0 t th') lk' a' = if lk' = lk ∧ a' = a then l' else agentLoc c lk' a' := by
    intro lk' a'; rw [agentLoc_setThread]; exact hal0 lk' a'
  have hown' : ∀ v, own (setThread c0 t th') v = if src = v then none else own c v := fun v => hown0 v
  have hother : ∀ v lk' a', vo v = t → own c v = some (lk', a') →
      lk' < c.locks.size ∧ ao lk' a' = t ∧ ∃ s, agentLoc c lk' a' = .held (kindOf c v).gmode s := by
    intro v lk' a' hv h; exact X.var_held hv h (Or.inr hne)
  have hdiff : ∀ v lk' a', vo v = t → v ≠ src → own c v = some (lk', a') → ¬ (lk' = lk ∧ a' = a) := by
    rintro v lk' a' hv hvs h ⟨rfl, rfl⟩
    exact hvs (X.inv.inj v src (lk', a') h hown ⟨_, _, hheld⟩)
  have hunref : ∀ v, vo v = t → own (setThread c0 t th') v ≠ some (lk, a) := by
    intro v hv h
    rw [hown'] at h
    split at h
    · cases h
    · rename_i hvs; exact hdiff v lk a hv (fun hh => hvs hh.symm) h ⟨rfl, rfl⟩
  have hk : ∀ v, kindOf (setThread c0 t th') v = kindOf c v := fun v => by simp only [kindOf, hs.kinds]
  have huses : Uses vo ao (setThread c0 t th') t lk a := by
    refine ⟨by rw [hth, hth']; exact X.hpc, by rw [hth, hth']; exact X.fin, by rw [hth]; exact e1, by rw [hth]; exact e4,
      ?_, ?_, by rw [hth, e2]; exact hpst, ?_⟩
    · have : (getThread (setThread c0 t th') t).prog[(getThread (setThread c0 t th') t).pc]'(by rw [hth, hth']; exact X.hpc)
          = (getThread c t).prog[(getThread c t).pc]'X.hpc := by
        simp only [hth]; subst hth'; rfl
      rw [this, hth]; exact hoplk _ _ (by rw [e3])
    · rw [viewOf_al hao, hal, if_pos ⟨rfl, rfl⟩]
      intro h; rw [h] at hl'g; exact hl'g rfl
    · have : (getThread (setThread c0 t th') t).prog[(getThread (setThread c0 t th') t).pc]'(by rw [hth, hth']; exact X.hpc)
          = (getThread c t).prog[(getThread c t).pc]'X.hpc := by
        simp only [hth]; subst hth'; rfl
      rw [this, hth]
      generalize (getThread c t).prog[(getThread c t).pc]'X.hpc = op at hureq
      cases op <;> simp only [usesReq] at hureq ⊢ <;> first | rfl | (rw [e3]; rfl) | exact hureq
  refine Inv.update X.inv hs ?_ ?_ ?_ ?_ ?_ ?_ ?_ ?_
  · intro v lk' a' hv h
    rw [hown'] at h
    split at h
    · cases h
    · rename_i hvs
      obtain ⟨h1, h2, s1, h3⟩ := hother v lk' a' hv h
      refine ⟨by rw [hs.lsz]; exact h1, h2, Or.inl ⟨s1, ?_⟩⟩
      rw [hal, if_neg (hdiff v lk' a' hv (fun hh => hvs hh.symm) h), hk]; exact h3
  · intro v hv hkk
    rw [hown']; split
    · rfl
    · exact X.inv.optNone v (by rw [← hk]; exact hkk)
  · intro v lk' hv h
    rw [getVar_setThread, hgv0] at h
    rw [hs.lsz]
    split at h
    · exact X.inv.vlk src lk' h
    · exact X.inv.vlk v lk' h
  · intro v v' r hv hv' h1 h2 _
    rw [hown'] at h1 h2
    obtain ⟨lk', a'⟩ := r
    split at h1
    · cases h1
    · split at h2
      · cases h2
      · obtain ⟨_, _, s1, h3⟩ := hother v lk' a' hv h1
        exact X.inv.inj v v' (lk', a') h1 h2 ⟨_, _, h3⟩
  · intro lk' a' h; rw [hth, e3] at h; cases h
  · intro lk' h; rw [hth, e3] at h; cases h; rw [hs.lsz]; exact hlk
  · intro lk' a' hlk' hat hg
    by_cases hnew : lk' = lk ∧ a' = a
    · obtain ⟨rfl, rfl⟩ := hnew
      exact Or.inr (Or.inr huses)
    · rw [hal, if_neg hnew] at hg
      rw [hs.lsz] at hlk'
      rcases X.inv.noOrphan lk' a' hlk' hg with ⟨v, h⟩ | ⟨t', h⟩ | ⟨t', h⟩
      · by_cases hvs : v = src
        · subst hvs; rw [hown] at h; cases h; exact absurd ⟨rfl, rfl⟩ hnew
        · exact Or.inl ⟨v, by rw [hown', if_neg (fun hh => hvs hh.symm)]; exact h⟩
      · have : t' = t := by rw [← (X.inv.tmpOk t' lk' a' h).2.1]; exact hat
        subst this; rw [htmpn] at h; cases h
      · have : t' = t := by rw [← Uses_ao h]; exact hat
        subst this
        exact absurd h (X.no_uses_phase (by rw [hph]; simp) lk' a')
  · refine TOk_intro hth (by rw [hth']; exact X.fin) (by rw [e2]; exact hpst) (by rw [hth']; exact X.hpc)
      ((getThread c t).prog[(getThread c t).pc]'X.hpc) (by subst hth'; rfl) ?_
    rw [e1, e2]
    apply hstage
    · show (getThread (setThread c0 t th') t).tmp = _; rw [hth, e3]
    · show (getThread (setThread c0 t th') t).ag = _; rw [hth, e4]
    · rw [viewOf_al hao, hal, if_pos ⟨rfl, rfl⟩]
    · intro v hv
      obtain ⟨hvt, hv'⟩ := viewOf_own_some hv
      exact hunref v hvt hv'
    · exact hs.lsz
    · exact hlk


theorem setLockSt_self {c : Client} {lk : Nat} : setLockSt c lk (lockSt c lk) = c := by
  simp only [setLockSt, lockSt]
  have : c.locks.setIfInBounds lk (c.locks.getD lk WLock.init) = c.locks := by
    apply Array.ext
    · simp
    · intro i h1 h2
      by_cases h : lk = i
      · subst h; simp [Array.getD_eq_getD_getElem?, Array.getElem?_eq_getElem h2]
      · rw [Array.getElem_setIfInBounds h2]; simp [h]
  rw [this]

theorem kind_src {c : Client} {v : Nat} {k : GKind} (h : c.kinds[v]? = some k) : kindOf c v = k := kindOf_of_typed h

theorem iter_upg0 {c : Client} {t : Nat} (X : Ctx vo ao c t) (d s k : Nat)
    (hop : (getThread c t).prog[(getThread c t).pc]'X.hpc = .upg d s) (hph : (getThread c t).phase = 0) :
    IterOk vo c t (runPhase P c t k (.upg d s) (getThread c t).phase) := by
  have hw := X.opWF
  simp only [hop, Op.vars, Op.typed, List.mem_cons, List.not_mem_nil, or_false, forall_eq_or_imp, forall_eq,
    Bool.and_eq_true, beq_iff_eq] at hw
  rw [hph]
  simp only [runPhase]
  cases hown : (getVar c s).own with
  | none => simp only; exact X.conv_none hph (Or.inl ⟨d, s, hop⟩) _
  | some r =>
    obtain ⟨lk, a⟩ := r
    simp only
    have hne : (getThread c t).phase ≠ ((getThread c t).prog[(getThread c t).pc]'X.hpc).relPhase := by
      rw [hph, hop]; simp [Op.relPhase]
    obtain ⟨hlk, hao, s0, hheld⟩ := X.var_held hw.2.1.2.2 (show own c s = some (lk, a) from hown) (Or.inr hne)
    rw [kind_src hw.1.2] at hheld
    have hsome : (lockSt c lk).agents[a]? = some (.held .SIX s0) := by
      have := agentLoc_some (c := c) (lk := lk) (a := a) (by rw [hheld]; simp)
      rw [this, hheld]; rfl
    have hstep : WLock.step P (lockSt c lk) (.upgrade a) = some (setLoc (lockSt c lk) a .upgLoad, none) := by
      simp only [WLock.step, hsome]
    simp only [hstep]
    refine X.conv_block hph hw.2.1.2 (Or.inr trivial) hown .upgLoad (by simp [Loc.grant?]) _ rfl (.atom lk a) (by simp) _ _
      (by rw [hop]; rfl) (fun gv th' h => by rw [hop]; simp [opLk, h]) ?_
    intro V h1 h2 h3 h4 h5 h6
    rw [hop]
    simp only [Stage, h1, h2, true_and]
    refine ⟨by simp [opLk, h1], ⟨.upg, rfl, ?_⟩, by simp⟩
    simp only [View.CallAg, opLk, h1, Option.getD_some, h2, h5]
    exact ⟨h6, by rw [h3]; rfl, h4⟩

theorem iter_dng0 {c : Client} {t : Nat} (X : Ctx vo ao c t) (d s k : Nat)
    (hop : (getThread c t).prog[(getThread c t).pc]'X.hpc = .dng d s) (hph : (getThread c t).phase = 0) :
    IterOk vo c t (runPhase P c t k (.dng d s) (getThread c t).phase) := by
  have hw := X.opWF
  simp only [hop, Op.vars, Op.typed, List.mem_cons, List.not_mem_nil, or_false, forall_eq_or_imp, forall_eq,
    Bool.and_eq_true, beq_iff_eq] at hw
  rw [hph]
  simp only [runPhase]
  cases hown : (getVar c s).own with
  | none => simp only; exact X.conv_none hph (Or.inr ⟨d, s, hop⟩) _
  | some r =>
    obtain ⟨lk, a⟩ := r
    simp only
    have hne : (getThread c t).phase ≠ ((getThread c t).prog[(getThread c t).pc]'X.hpc).relPhase := by
      rw [hph, hop]; simp [Op.relPhase]
    obtain ⟨hlk, hao, s0, hheld⟩ := X.var_held hw.2.1.2.2 (show own c s = some (lk, a) from hown) (Or.inr hne)
    rw [kind_src hw.1.2] at hheld
    have hsome : (lockSt c lk).agents[a]? = some (.held .X s0) := by
      have := agentLoc_some (c := c) (lk := lk) (a := a) (by rw [hheld]; simp)
      rw [this, hheld]; rfl
    have hset : (lockSt c lk).agents = (lockSt c lk).agents.set a (.held .X s0) := by
      apply List.ext_getElem?
      intro i
      by_cases hi : a = i
      · subst hi; rw [List.getElem?_set_self (getElem?_lt hsome), hsome]
      · rw [List.getElem?_set_ne hi]
    have h := X.conv_block hph hw.2.1.2 (Or.inr trivial) hown (.held .X s0) (by simp [Loc.grant?]) (lockSt c lk) hset
      (.dng lk a (getVar c s).nver) (by simp) (getGhost (setVar c s { getVar c s with own := none }) s) (xendTok c s)
      (by rw [hop]; rfl) (fun gv th' h => by rw [hop]; simp [opLk, h]) ?_
    · rw [setLockSt_self] at h; exact h
    · intro V h1 h2 h3 h4 h5 h6
      rw [hop]
      simp only [Stage, h1, h2, true_and]
      refine ⟨by simp [opLk, h1], by simp, ⟨d, s, rfl⟩, ?_⟩
      simp only [View.CallAg, opLk, h1, Option.getD_some, h2, h5]
      exact ⟨h6, ⟨s0, by rw [h3]⟩, h4⟩

end CppUtil.WClient
