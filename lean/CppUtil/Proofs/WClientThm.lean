/-
  Guard algebra, part 10: initial state, every schedule, and the facts that follow for every reachable
  client state.
-/
import CppUtil.Proofs.WClientStep

set_option linter.unusedSimpArgs false
set_option linter.unusedVariables false

namespace CppUtil.WClient
open CppUtil CppUtil.WLock

variable {P : WParams} {vo : Nat → Nat} {ao : Nat → Nat → Nat}

/-- a client state in which nothing has happened yet: threads at their start, variables empty, no request -/
structure Initial (c : Client) : Prop where
  vars : ∀ v, getVar c v = {}
  locks : ∀ lk, lockSt c lk = WLock.init
  thr : ∀ t, (getThread c t).pend = .start ∧ (getThread c t).phase = 0 ∧ (getThread c t).tmp = {} ∧
    (getThread c t).finished = false

theorem getD_replicate {α : Type} (n i : Nat) (x : α) : (Array.replicate n x).getD i x = x := by
  simp [Array.getD_eq_getD_getElem?, Array.getElem?_replicate]
  split <;> rfl

theorem mkClient_initial (nlocks : Nat) (kinds : Array GKind) (progs : Array (Array Op)) :
    Initial (mkClient nlocks kinds progs) := by
  refine ⟨?_, ?_, ?_⟩
  · intro v; simp only [getVar, mkClient]; exact getD_replicate _ _ _
  · intro lk
    simp only [lockSt, mkClient]; exact getD_replicate _ _ _
  · intro t
    simp only [getThread, mkClient, Array.getD_eq_getD_getElem?, Array.getElem?_map]
    cases progs[t]? <;> simp

theorem Inv.initial {c : Client} (hi : Initial c) (ao : Nat → Nat → Nat) : Inv vo ao c := by
  have hown : ∀ v, own c v = none := fun v => by simp [own, hi.vars v]
  have hidle : ∀ lk a, agentLoc c lk a = .idle := fun lk a => by simp [agentLoc_eq, hi.locks lk, WLock.init]
  refine ⟨?_, ?_, ?_, ?_, ?_, ?_, ?_, ?_⟩
  · intro v lk a h; rw [hown] at h; cases h
  · intro v _; exact hown v
  · intro v lk h; rw [hi.vars v] at h; cases h
  · intro v v' r h; rw [hown] at h; cases h
  · intro t lk a h; rw [(hi.thr t).2.2.1] at h; cases h
  · intro t lk h; rw [(hi.thr t).2.2.1] at h; cases h
  · intro lk a _ h; rw [hidle] at h; exact absurd rfl h
  · intro t _
    obtain ⟨h1, h2, h3, h4⟩ := hi.thr t
    simp only [TOk, h4, h1, if_true, Bool.false_eq_true, if_false]
    exact ⟨by rw [h3], h2⟩

/-- run a schedule: the listed threads take one quantum each, in order (a thread that cannot move, or does
    not exist, is skipped) -/
def runSched (P : WParams) (c : Client) : List Nat → Client
  | [] => c
  | t :: ts =>
    if t < c.threads.size then
      match stepThread P c t with
      | some (c', _, _) => runSched P c' ts
      | none => runSched P c ts
    else runSched P c ts

/-- **every schedule preserves the invariant** -/
theorem runSched_inv (sched : List Nat) : ∀ (c : Client) (ao : Nat → Nat → Nat), WF vo c → Inv vo ao c →
    ∃ ao', Inv vo ao' (runSched P c sched) ∧ WF vo (runSched P c sched) := by
  induction sched with
  | nil => intro c ao hwf hI; exact ⟨ao, hI, hwf⟩
  | cons t ts ih =>
    intro c ao hwf hI
    simp only [runSched]
    split
    · rename_i ht
      cases hst : stepThread P c t with
      | none => exact ih c ao hwf hI
      | some r =>
        obtain ⟨c', e, o⟩ := r
        obtain ⟨ao', h1, h2, _⟩ := step_inv hwf hI ht hst
        exact ih c' ao' h2 h1
    · exact ih c ao hwf hI

/-- states reachable from an initial state by some schedule -/
def ReachableC (P : WParams) (c0 c : Client) : Prop := ∃ sched, runSched P c0 sched = c

theorem reachable_inv {c0 c : Client} (hi : Initial c0) (hwf : WF vo c0) (hr : ReachableC P c0 c) :
    ∃ ao, Inv vo ao c ∧ WF vo c := by
  obtain ⟨sched, rfl⟩ := hr
  exact runSched_inv sched c0 (fun _ _ => 0) hwf (Inv.initial hi _)


/-! ### the executable premise -/

/-- owner map read off the programs -/
def voOf (c : Client) (v : Nat) : Nat := (ownerOf (progsOf c) v).getD 0

theorem progsOf_getD {c : Client} {t : Nat} (ht : t < c.threads.size) :
    (progsOf c).getD t [] = (getThread c t).prog.toList := by
  simp only [progsOf, getThread, List.getD_eq_getElem?_getD, List.getElem?_map, Array.getD_eq_getD_getElem?]
  simp [Array.getElem?_toList, Array.getElem?_eq_getElem ht]

/-- **`wfB` is sound**: the check the driver evaluates on every replayed scenario implies the premise of the theorems -/
theorem wfB_sound {c : Client} (h : wfB c = true) : WF (voOf c) c := by
  simp only [wfB, Bool.and_eq_true, beq_iff_eq, decide_eq_true_eq, List.all_eq_true, List.mem_range] at h
  obtain ⟨⟨h1, h2⟩, h3⟩ := h
  refine ⟨h1, h2, ?_⟩
  intro t ht i hi
  have hmem : (getThread c t).prog[i] ∈ (progsOf c).getD t [] := by
    rw [progsOf_getD ht]; simp
  obtain ⟨⟨g1, g2⟩, g3⟩ := h3 t ht _ hmem
  refine ⟨g1, ?_, g3⟩
  intro v hv
  obtain ⟨a1, a2⟩ := g2 v hv
  exact ⟨a1, by simp [voOf, a2]⟩

end CppUtil.WClient
