/-
  Guard algebra of the client layer (`Model/WClient.lean` = the guard classes of PessimisticLock and
  OptimisticLock): the invariant.

  Premise `WF`: programs are well typed and every guard variable is used by one thread (what C++ typing
  and the usual discipline "a guard object lives on one thread's stack" give).
  Invariant `Inv` (for every schedule, any number of threads / locks / variables):
    * a guard variable that owns `(lock, request)` — `dest_ != nullptr`, resp. `has_lock_` — points at a
      request that holds a grant of the variable's class on that lock (or, during the very quantum in which
      it is being released and overwritten, at the finished request);
    * two variables never own the same grant; a temporary (`tmp`, the prvalue a member function returns)
      never shares its grant with a variable; `OptGuard`s own nothing;
    * every granted request is owned by a variable, by a temporary, or is the request of the call its
      thread is executing (no grant is dropped);
    * per thread and program position, what the pending atomic operation is and what the temporaries hold.
-/
import CppUtil.Proofs.WClientBasic

set_option linter.unusedSimpArgs false

namespace CppUtil.WClient
open CppUtil CppUtil.WLock

def own (c : Client) (v : Nat) : Option (Nat × Nat) := (getVar c v).own
def kindOf (c : Client) (v : Nat) : GKind := c.kinds.getD v .S

/-- static premise -/
structure WF (vo : Nat → Nat) (c : Client) : Prop where
  ksize : c.kinds.size = c.vars.size
  lpos : 0 < c.locks.size
  ops : ∀ t, t < c.threads.size → ∀ (i : Nat) (h : i < (getThread c t).prog.size),
      ((getThread c t).prog[i]).typed c.kinds = true ∧
      (∀ v ∈ ((getThread c t).prog[i]).vars, v < c.vars.size ∧ vo v = t) ∧
      (∀ lk ∈ ((getThread c t).prog[i]).locks, lk < c.locks.size)

/-- the guard variable an instruction overwrites or destroys -/
def Op.target? : Op → Option Nat
  | .lock _ d _ => some d
  | .dtor v => some v
  | .massign d _ => some d
  | .mctor d _ => some d
  | .upg d _ => some d
  | .dng d _ => some d
  | .tryLock _ d _ => some d
  | .prep d _ => some d
  | _ => none

/-- value of `phase` while the release of the target's old grant is pending or has just been done -/
def Op.relPhase : Op → Nat
  | .dtor _ => 1
  | .massign _ _ => 1
  | .mctor _ _ => 1
  | _ => 3

/-- API calls by the locations they run through -/
inductive CallK where
  | lock (m : Mode) | upg | try_ (m : Mode) | prep | gv | vf
  deriving DecidableEq, Repr

def _root_.CppUtil.WLock.Loc.call : Loc → Option CallK
  | .acqLoad m => some (.lock m)
  | .acqCas m _ => some (.lock m)
  | .upgLoad => some .upg
  | .upgCas _ => some .upg
  | .tryLoad m _ => some (.try_ m)
  | .tryCas m _ _ => some (.try_ m)
  | .prep1 _ => some .prep
  | .prep2 => some .prep
  | .prepCas _ => some .prep
  | .gvLoad => some .gv
  | .vfFence _ => some .vf
  | .vfLoad _ => some .vf
  | .idle => none
  | .held _ _ => none
  | .done _ => none

/-- the stable locations a call can end in -/
def CallK.result : CallK → Loc → Prop
  | .lock m, l => ∃ s, l = .held m s
  | .upg, l => ∃ s, l = .held .X s
  | .try_ m, l => (∃ s, l = .held m s) ∨ ∃ r, l = .done r
  | .prep, l => (∃ s, l = .held .S s) ∨ ∃ r, l = .done r
  | .gv, l => ∃ r, l = .done r
  | .vf, l => ∃ r, l = .done r

/-- the call an instruction makes on the lock (phase 0 → 1) -/
def Op.call? : Op → Option CallK
  | .lock m _ _ => some (.lock m)
  | .upg _ _ => some .upg
  | .tryLock m _ _ => some (.try_ m)
  | .prep _ _ => some .prep
  | .getver _ _ => some .gv
  | .verify _ => some .vf
  | .cverify _ => some .vf
  | _ => none

/-- what thread `t` sees of the client state: its own record, its own guard variables, the requests it created -/
structure View where
  th : Thread
  gv : Nat → GVal
  al : Nat → Nat → Loc
  nl : Nat

def viewOf (vo : Nat → Nat) (ao : Nat → Nat → Nat) (c : Client) (t : Nat) : View :=
  { th := getThread c t
    gv := fun v => if vo v = t then getVar c v else {}
    al := fun lk a => if ao lk a = t then agentLoc c lk a else .idle
    nl := c.locks.size }

def View.own (V : View) (v : Nat) : Option (Nat × Nat) := (V.gv v).own

/-- the lock the current instruction of a thread works on -/
def opLk (gv : Nat → GVal) (th : Thread) : Op → Nat
  | .lock _ _ lk => lk
  | .getver _ lk => lk
  | .prep _ lk => lk
  | .tryLock _ _ s => (gv s).lk.getD 0
  | .verify v => (gv v).lk.getD 0
  | .cverify v => (gv v).lk.getD 0
  | .upg _ _ => th.tmp.lk.getD 0
  | .dng _ _ => th.tmp.lk.getD 0
  | _ => 0

/-- mode of the guard an instruction produces -/
def Op.outMode : Op → Mode
  | .lock m _ _ => m
  | .upg _ _ => .X
  | .dng _ _ => .SIX
  | .tryLock m _ _ => m
  | _ => .S

def isHeld (l : Loc) : Prop := ∃ m s, l = .held m s

/-- no variable of the thread owns `(lk, a)` -/
def View.Unref (V : View) (lk a : Nat) : Prop := ∀ v, V.own v ≠ some (lk, a)

/-- the temporary of the thread is empty or owns a grant of mode `m` -/
def View.TmpOk (V : View) (m : Mode) : Prop :=
  V.th.tmp.own = none ∨ ∃ lk a s, V.th.tmp.own = some (lk, a) ∧ V.al lk a = .held m s

/-- the target variable owns nothing, or what it points at has just been released -/
def View.DstClear (V : View) (d : Nat) : Prop :=
  V.own d = none ∨ ∃ lk a r, V.own d = some (lk, a) ∧ V.al lk a = .done r

/-- the request `(opLk, ag)` of the running call: not referenced by the thread's variables -/
def View.CallAg (V : View) (op : Op) (P : Loc → Prop) : Prop :=
  opLk V.gv V.th op < V.nl ∧ P (V.al (opLk V.gv V.th op) V.th.ag) ∧ V.Unref (opLk V.gv V.th op) V.th.ag

/-- State of a thread at instruction `op`, before phase `ph`, with pending operation `p`
    (`p = .none`: inside a quantum, the local code of phase `ph` runs next). -/
def Stage (V : View) (op : Op) (ph : Nat) (p : Pend) : Prop :=
  let th := V.th
  match p with
  | .start => False
  | .none =>
    if ph = 0 then th.tmp.own = none
    else match op with
      | .lock _ d _ | .tryLock _ d _ | .prep d _ =>
        if ph = 1 then th.tmp.own = none ∧ (∃ k, op.call? = some k ∧ V.CallAg op k.result)
        else if ph = 2 then V.TmpOk op.outMode
        else V.TmpOk op.outMode ∧ V.DstClear d
      | .upg d _ | .dng d _ =>
        if ph = 1 then th.tmp.own = none ∧
          (th.tmp.lk = none ∨ (th.tmp.lk.isSome ∧ V.CallAg op (fun l => ∃ s, l = .held op.outMode s)))
        else if ph = 2 then V.TmpOk op.outMode
        else V.TmpOk op.outMode ∧ V.DstClear d
      | .dtor d | .massign d _ | .mctor d _ => th.tmp.own = none ∧ V.DstClear d
      | .getver _ _ | .verify _ | .cverify _ =>
        th.tmp.own = none ∧ (ph = 1 → ∃ k, op.call? = some k ∧ V.CallAg op k.result)
      | _ => th.tmp.own = none
  | .atom lk a =>
    ph = 1 ∧ th.tmp.own = none ∧ lk = opLk V.gv th op ∧ a = th.ag ∧
    (∃ k, op.call? = some k ∧ V.CallAg op (fun l => l.call = some k)) ∧
    (match op with | .upg _ _ => th.tmp.lk.isSome | _ => True)
  | .dng lk a _ =>
    ph = 1 ∧ th.tmp.own = none ∧ lk = opLk V.gv th op ∧ a = th.ag ∧ th.tmp.lk.isSome ∧
    (∃ d s, op = .dng d s) ∧ V.CallAg op (fun l => ∃ s, l = .held .X s)
  | .rel lk a _ =>
    ph = op.relPhase ∧ (∃ d, op.target? = some d ∧ V.own d = some (lk, a)) ∧ lk < V.nl ∧
    isHeld (V.al lk a) ∧
    (match op with
      | .dtor _ | .massign _ _ | .mctor _ _ => th.tmp.own = none
      | _ => V.TmpOk op.outMode)
  | .payR0 _ => th.tmp.own = none ∧ ph = 1 ∧ ∃ lk, op = .payrd lk
  | .payR1 _ => th.tmp.own = none ∧ ph = 2 ∧ ∃ lk, op = .payrd lk
  | .payW0 _ _ => th.tmp.own = none ∧ ph = 1 ∧ ∃ lk v, op = .paywr lk v
  | .payW1 _ _ => th.tmp.own = none ∧ ph = 2 ∧ ∃ lk v, op = .paywr lk v

/-- per-thread part of the invariant -/
def TOk (vo : Nat → Nat) (ao : Nat → Nat → Nat) (c : Client) (t : Nat) : Prop :=
  let th := getThread c t
  if th.finished then th.tmp.own = none ∧ th.pend = .none
  else if th.pend = .start then th.tmp.own = none ∧ th.phase = 0
  else if h : th.pc < th.prog.size then Stage (viewOf vo ao c t) th.prog[th.pc] th.phase th.pend
  else th.tmp.own = none ∧ th.pend = .none

/-- the target variable of thread `vo v` may point at a finished request: only inside the quantum that overwrites it -/
def StaleOk (vo : Nat → Nat) (c : Client) (v : Nat) : Prop :=
  let th := getThread c (vo v)
  ∃ h : th.pc < th.prog.size, (th.prog[th.pc]).target? = some v ∧ th.phase = (th.prog[th.pc]).relPhase ∧
    th.pend = .none ∧ th.finished = false

/-- the instruction has a request in progress during its phase 1 -/
def usesReq (th : Thread) : Op → Bool
  | .lock _ _ _ => true
  | .tryLock _ _ _ => true
  | .prep _ _ => true
  | .getver _ _ => true
  | .verify _ => true
  | .cverify _ => true
  | .upg _ _ => th.tmp.lk.isSome
  | .dng _ _ => th.tmp.lk.isSome
  | _ => false

/-- thread `t` is executing a call on request `(lk, a)` (one of its own requests) -/
def Uses (vo : Nat → Nat) (ao : Nat → Nat → Nat) (c : Client) (t lk a : Nat) : Prop :=
  let th := getThread c t
  ∃ h : th.pc < th.prog.size, th.finished = false ∧ th.phase = 1 ∧ th.ag = a ∧
    opLk (viewOf vo ao c t).gv th th.prog[th.pc] = lk ∧ (viewOf vo ao c t).al lk a ≠ .idle ∧ th.pend ≠ .start ∧
    usesReq th th.prog[th.pc] = true

structure Inv (vo : Nat → Nat) (ao : Nat → Nat → Nat) (c : Client) : Prop where
  varOk : ∀ v lk a, own c v = some (lk, a) → lk < c.locks.size ∧ ao lk a = vo v ∧
    ((∃ s, agentLoc c lk a = .held (kindOf c v).gmode s) ∨ ((∃ r, agentLoc c lk a = .done r) ∧ StaleOk vo c v))
  optNone : ∀ v, kindOf c v = .Opt → own c v = none
  vlk : ∀ v lk, (getVar c v).lk = some lk → lk < c.locks.size
  inj : ∀ v v' r, own c v = some r → own c v' = some r → isHeld (agentLoc c r.1 r.2) → v = v'
  tmpOk : ∀ t lk a, (getThread c t).tmp.own = some (lk, a) → lk < c.locks.size ∧ ao lk a = t ∧
    isHeld (agentLoc c lk a) ∧ ∀ v, own c v ≠ some (lk, a)
  tmpLk : ∀ t lk, (getThread c t).tmp.lk = some lk → lk < c.locks.size
  noOrphan : ∀ lk a, lk < c.locks.size → (agentLoc c lk a).grant? ≠ none →
    (∃ v, own c v = some (lk, a)) ∨ (∃ t, (getThread c t).tmp.own = some (lk, a)) ∨ (∃ t, Uses vo ao c t lk a)
  thr : ∀ t, t < c.threads.size → TOk vo ao c t

end CppUtil.WClient
