/-
  Access lemmas for the client layer (`Model/WClient.lean`): reading a component of the client state
  after writing another one.  Helper file for `Proofs/WClientInv.lean`.
-/
import CppUtil.Model.WClientWF
import CppUtil.Proofs.WLockMore

set_option linter.unusedSimpArgs false

namespace CppUtil.WClient
open CppUtil CppUtil.WLock

/-! ### variables -/

@[simp] theorem getVar_setVar_self {c : Client} {v : Nat} {g : GVal} (h : v < c.vars.size) :
    getVar (setVar c v g) v = g := by
  simp [getVar, setVar, Array.getD_eq_getD_getElem?, Array.getElem?_setIfInBounds, h]

theorem getVar_setVar_ne {c : Client} {v v' : Nat} {g : GVal} (h : v ≠ v') :
    getVar (setVar c v g) v' = getVar c v' := by
  simp [getVar, setVar, Array.getD_eq_getD_getElem?, Array.getElem?_setIfInBounds, h]

theorem getVar_setVar {c : Client} {v v' : Nat} {g : GVal} (h : v < c.vars.size) :
    getVar (setVar c v g) v' = if v = v' then g else getVar c v' := by
  by_cases hv : v = v'
  · subst hv; simp [h]
  · simp [hv, getVar_setVar_ne hv]

@[simp] theorem setVar_vars_size {c : Client} {v : Nat} {g : GVal} : (setVar c v g).vars.size = c.vars.size := by
  simp [setVar]
@[simp] theorem setVar_kinds {c : Client} {v : Nat} {g : GVal} : (setVar c v g).kinds = c.kinds := rfl
@[simp] theorem setVar_locks {c : Client} {v : Nat} {g : GVal} : (setVar c v g).locks = c.locks := rfl
@[simp] theorem setVar_threads {c : Client} {v : Nat} {g : GVal} : (setVar c v g).threads = c.threads := rfl
@[simp] theorem getThread_setVar {c : Client} {v t : Nat} {g : GVal} : getThread (setVar c v g) t = getThread c t := rfl
@[simp] theorem lockSt_setVar {c : Client} {v lk : Nat} {g : GVal} : lockSt (setVar c v g) lk = lockSt c lk := rfl
@[simp] theorem agentLoc_setVar {c : Client} {v lk a : Nat} {g : GVal} : agentLoc (setVar c v g) lk a = agentLoc c lk a := rfl

/-! ### ghosts (API-level grant ids; no influence on anything below) -/

@[simp] theorem getVar_setGhost {c : Client} {v v' : Nat} {g : Option Nat} : getVar (setGhost c v g) v' = getVar c v' := rfl
@[simp] theorem setGhost_vars {c : Client} {v : Nat} {g : Option Nat} : (setGhost c v g).vars = c.vars := rfl
@[simp] theorem setGhost_kinds {c : Client} {v : Nat} {g : Option Nat} : (setGhost c v g).kinds = c.kinds := rfl
@[simp] theorem setGhost_locks {c : Client} {v : Nat} {g : Option Nat} : (setGhost c v g).locks = c.locks := rfl
@[simp] theorem setGhost_threads {c : Client} {v : Nat} {g : Option Nat} : (setGhost c v g).threads = c.threads := rfl
@[simp] theorem getThread_setGhost {c : Client} {v t : Nat} {g : Option Nat} : getThread (setGhost c v g) t = getThread c t := rfl
@[simp] theorem lockSt_setGhost {c : Client} {v lk : Nat} {g : Option Nat} : lockSt (setGhost c v g) lk = lockSt c lk := rfl
@[simp] theorem agentLoc_setGhost {c : Client} {v lk a : Nat} {g : Option Nat} : agentLoc (setGhost c v g) lk a = agentLoc c lk a := rfl

/-! ### threads -/

@[simp] theorem getThread_setThread_self {c : Client} {t : Nat} {th : Thread} (h : t < c.threads.size) :
    getThread (setThread c t th) t = th := by
  simp [getThread, setThread, Array.getD_eq_getD_getElem?, Array.getElem?_setIfInBounds, h]

theorem getThread_setThread_ne {c : Client} {t t' : Nat} {th : Thread} (h : t ≠ t') :
    getThread (setThread c t th) t' = getThread c t' := by
  simp [getThread, setThread, Array.getD_eq_getD_getElem?, Array.getElem?_setIfInBounds, h]

@[simp] theorem setThread_threads_size {c : Client} {t : Nat} {th : Thread} : (setThread c t th).threads.size = c.threads.size := by
  simp [setThread]
@[simp] theorem setThread_vars {c : Client} {t : Nat} {th : Thread} : (setThread c t th).vars = c.vars := rfl
@[simp] theorem setThread_kinds {c : Client} {t : Nat} {th : Thread} : (setThread c t th).kinds = c.kinds := rfl
@[simp] theorem setThread_locks {c : Client} {t : Nat} {th : Thread} : (setThread c t th).locks = c.locks := rfl
@[simp] theorem getVar_setThread {c : Client} {t v : Nat} {th : Thread} : getVar (setThread c t th) v = getVar c v := rfl
@[simp] theorem lockSt_setThread {c : Client} {t lk : Nat} {th : Thread} : lockSt (setThread c t th) lk = lockSt c lk := rfl
@[simp] theorem agentLoc_setThread {c : Client} {t lk a : Nat} {th : Thread} : agentLoc (setThread c t th) lk a = agentLoc c lk a := rfl

/-! ### lock states -/

@[simp] theorem lockSt_setLockSt_self {c : Client} {lk : Nat} {s : WLock.St} (h : lk < c.locks.size) :
    lockSt (setLockSt c lk s) lk = s := by
  simp [lockSt, setLockSt, Array.getD_eq_getD_getElem?, Array.getElem?_setIfInBounds, h]

theorem lockSt_setLockSt_ne {c : Client} {lk lk' : Nat} {s : WLock.St} (h : lk ≠ lk') :
    lockSt (setLockSt c lk s) lk' = lockSt c lk' := by
  simp [lockSt, setLockSt, Array.getD_eq_getD_getElem?, Array.getElem?_setIfInBounds, h]

@[simp] theorem setLockSt_locks_size {c : Client} {lk : Nat} {s : WLock.St} : (setLockSt c lk s).locks.size = c.locks.size := by
  simp [setLockSt]
@[simp] theorem setLockSt_vars {c : Client} {lk : Nat} {s : WLock.St} : (setLockSt c lk s).vars = c.vars := rfl
@[simp] theorem setLockSt_kinds {c : Client} {lk : Nat} {s : WLock.St} : (setLockSt c lk s).kinds = c.kinds := rfl
@[simp] theorem setLockSt_threads {c : Client} {lk : Nat} {s : WLock.St} : (setLockSt c lk s).threads = c.threads := rfl
@[simp] theorem getVar_setLockSt {c : Client} {lk v : Nat} {s : WLock.St} : getVar (setLockSt c lk s) v = getVar c v := rfl
@[simp] theorem getThread_setLockSt {c : Client} {lk t : Nat} {s : WLock.St} : getThread (setLockSt c lk s) t = getThread c t := rfl

theorem agentLoc_setLockSt_ne {c : Client} {lk lk' a : Nat} {s : WLock.St} (h : lk ≠ lk') :
    agentLoc (setLockSt c lk s) lk' a = agentLoc c lk' a := by
  simp [agentLoc, lockSt_setLockSt_ne h]

theorem agentLoc_setLockSt_self {c : Client} {lk a : Nat} {s : WLock.St} (h : lk < c.locks.size) :
    agentLoc (setLockSt c lk s) lk a = (s.agents[a]?).getD .idle := by
  simp [agentLoc, h]

/-- `nextGid` is a ghost counter -/
@[simp] theorem getVar_nextGid {c : Client} {n v : Nat} : getVar { c with nextGid := n } v = getVar c v := rfl
@[simp] theorem getThread_nextGid {c : Client} {n t : Nat} : getThread { c with nextGid := n } t = getThread c t := rfl
@[simp] theorem agentLoc_nextGid {c : Client} {n lk a : Nat} : agentLoc { c with nextGid := n } lk a = agentLoc c lk a := rfl
@[simp] theorem lockSt_nextGid {c : Client} {n lk : Nat} : lockSt { c with nextGid := n } lk = lockSt c lk := rfl

end CppUtil.WClient
