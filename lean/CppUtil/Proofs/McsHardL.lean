/-
  MCSLock proof, word-writing steps, part L: a node goes back to a thread's cache (`tls_node_.reset(qnode)`),
  which deletes the node cached before.  Generic ownership lemma, facts about `cacheNode`, and the case of
  LockS joining the tail group.
-/
import CppUtil.Proofs.McsHardK

namespace CppUtil.Mcs
open CppUtil

variable {W : Nat → Bool → Bool → Nat → Word} {P : Params} {pb cb : Nat} {s : St} {Q : Nat → List Grp}
variable {i : Nat} {a : Agent}

/-- node `kx` moves from owner `ox` to the cache of thread `t`; what that cache held before is dropped -/
theorem ownInv_to_cache {s' : St} {Q' : Nat → List Grp} (hO : OwnInv s Q) (t kx : Nat) (ox : Owner)
    (hox : Owns s Q kx ox) (hoxne : ox ≠ .cache t)
    (hlive : ∀ k, s.tls[t]? ≠ some (some k) → nodeLive s' k = nodeLive s k)
    (hback : ∀ k o, Owns s' Q' k o → (k = kx ∧ o = .cache t) ∨ (k ≠ kx ∧ o ≠ .cache t ∧ Owns s Q k o)) :
    OwnInv s' Q' := by
  apply ownInv_of_map hO
    (fun k o0 o => (k = kx ∧ o0 = ox ∧ o = .cache t) ∨ (k ≠ kx ∧ o0 ≠ .cache t ∧ o = o0))
    (by
      intro k o0 o o' h h'
      rcases h with ⟨h1, _, h3⟩ | ⟨h1, _, h3⟩ <;> rcases h' with ⟨h1', _, h3'⟩ | ⟨h1', _, h3'⟩
      · rw [h3, h3']
      · exact absurd h1 h1'
      · exact absurd h1' h1
      · rw [h3, h3'])
    none (by intro kf of h; cases h)
  intro k o h
  rcases hback k o h with ⟨rfl, rfl⟩ | ⟨hne, hoc, hold⟩
  · refine ⟨?_, Or.inl ⟨ox, hox, Or.inl ⟨rfl, rfl, rfl⟩⟩⟩
    rw [hlive k (by
      intro hc
      exact hoxne (hO.uniq k ox (.cache t) hox hc))]
    exact hO.live k ox hox
  · refine ⟨?_, Or.inl ⟨o, hold, Or.inr ⟨hne, hoc, rfl⟩⟩⟩
    rw [hlive k (by
      intro hc
      exact hoc (hO.uniq k o (.cache t) hold hc))]
    exact hO.live k o hold

/-! ### facts about `cacheNode` -/

theorem cacheNode_nodes_len (s : St) (t k : Nat) : (cacheNode s t k).1.nodes.length = s.nodes.length := by
  rw [cacheNode_nodes]; split <;> simp

theorem cacheNode_lockW (s : St) (t k ℓ : Nat) : lockW (cacheNode s t k).1 ℓ = lockW s ℓ := by
  unfold lockW rd; rw [cacheNode_locks]

/-- words and liveness of every node that is not the one cached before -/
theorem cacheNode_other (s : St) (t k k' : Nat) (h1 : 1 ≤ k') (hne : s.tls[t]? ≠ some (some k'))
    (hold : ∀ old, s.tls[t]? = some (some old) → 1 ≤ old) :
    nodeW (cacheNode s t k).1 k' = nodeW s k' ∧ nodeLive (cacheNode s t k).1 k' = nodeLive s k' := by
  unfold nodeW rd nodeLive
  rw [cacheNode_nodes]
  cases hc : s.tls.getD t none with
  | none => simp
  | some old =>
    have hso : s.tls[t]? = some (some old) := by
      rw [List.getD_eq_getElem?_getD] at hc
      cases hg : s.tls[t]? with
      | none => rw [hg] at hc; cases hc
      | some o => rw [hg] at hc; simp at hc; rw [hc]
    have h1o := hold old hso
    have hne' : old ≠ k' := by intro e; apply hne; rw [hso, e]
    have : ¬ (old - 1 = k' - 1) := by omega
    simp only [List.getD_eq_getElem?_getD, List.getElem?_set_ne this, and_self]

theorem tls_set_cases {tls : List (Option Nat)} {t t' : Nat} {v : Option Nat} {x : Option Nat}
    (h : (tls.set t v)[t']? = some x) : (t' = t ∧ x = v) ∨ (t' ≠ t ∧ tls[t']? = some x) := by
  by_cases ht : t' = t
  · subst ht
    have hl := getElem?_lt' h
    simp only [List.length_set] at hl
    rw [List.getElem?_set_self hl] at h
    exact Or.inl ⟨rfl, (Option.some.inj h).symm⟩
  · rw [List.getElem?_set_ne (Ne.symm ht)] at h
    exact Or.inr ⟨ht, h⟩

/-! ### LockS joins the tail group -/

def joinAgent (P : Params) (a : Agent) : Agent :=
  { a with qnode := (a.cur &&& P.C.kPtrMask).toNat, nxt := a.cur &&& P.C.kPtrMask,
           loc := (if (a.cur &&& P.C.kXMask) ≠ 0 then Loc.sSpinLock else Loc.held .S) }

theorem case_sCas_join (hW : WordSpecs P.C pb cb W) (hI : Inv W P pb cb s Q) (hi : s.agents[i]? = some a)
    (hloc : a.loc = .sCas) (hne0 : a.cur ≠ 0) (hcur : lockW s a.lk = a.cur) :
    Inv W P pb cb
      (setAgent (cacheNode (wr s (.lock a.lk) (a.cur + P.C.kSLock)) a.tid a.qnode).1 i (joinAgent P a)) Q := by
  have hwf := hI.wf a (List.mem_of_getElem? hi)
  have hL := hI.locks a.lk hwf.2.1
  have hp : a.loc.priv = true := by simp [hloc, Loc.priv]
  have hhm0 : a.loc.headMode = none := by rw [hloc]; rfl
  have hnd : a.loc ≠ .done := by rw [hloc]; simp
  have hqlive := hI.privLive i a hi hp
  -- the tail group
  obtain ⟨Gk, hk⟩ : ∃ Gk, (Q a.lk).getLast? = some Gk := by
    cases hq : (Q a.lk).getLast? with
    | some Gk => exact ⟨Gk, rfl⟩
    | none =>
      exfalso; apply hne0
      rw [← hcur, hL.lockWord]; unfold expLock; rw [hq]
  obtain ⟨hw, hptr, hpm⟩ := LockInv.lock_ptr hW hI hwf.2.1 hk
  rw [hcur] at hw hptr hpm
  have hGkm := List.mem_of_getLast? hk
  have hGklt := hI.node_lt hGkm
  have hkidx := getLast?_idx hk
  have hclt := hI.cnt_lt a.lk Gk.node
  have htn : (a.cur &&& P.C.kPtrMask).toNat = Gk.node := by
    rw [hpm]; exact ofNode_toNat _ (Nat.lt_of_lt_of_le hGklt hW.pbLe)
  -- the new agent
  have hja_lk : (joinAgent P a).lk = a.lk := rfl
  have hja_q : (joinAgent P a).qnode = Gk.node := htn
  have hja_sm : (joinAgent P a).loc.sMem = true := by unfold joinAgent; dsimp only; split <;> rfl
  have hja_hm : (joinAgent P a).loc.headMode = none := by unfold joinAgent; dsimp only; split <;> rfl
  have hja_priv : (joinAgent P a).loc.priv = false := by unfold joinAgent; dsimp only; split <;> rfl
  have hag : (setAgent (cacheNode (wr s (.lock a.lk) (a.cur + P.C.kSLock)) a.tid a.qnode).1 i (joinAgent P a)).agents
      = s.agents.set i (joinAgent P a) := by simp [cacheNode_agents]
  have hnh : ∀ ℓ, ℓ < s.locks.length → ∀ G ∈ Q ℓ, G.head ≠ some i :=
    fun ℓ hℓ G hG => not_head_of hI hi hhm0 hnd hℓ hG
  have hcne : ∀ ℓ nd, (ℓ ≠ a.lk ∨ nd ≠ Gk.node) →
      cnt (setAgent (cacheNode (wr s (.lock a.lk) (a.cur + P.C.kSLock)) a.tid a.qnode).1 i (joinAgent P a)) ℓ nd
        = cnt s ℓ nd := by
    intro ℓ nd hne
    apply cnt_same hi hag
    have h1 : isMem ℓ nd a = false := by simp [isMem, hloc, Loc.sMem]
    have h2 : isMem ℓ nd (joinAgent P a) = false := by
      rcases hne with h | h
      · simp [isMem, hja_lk, Ne.symm h]
      · simp [isMem, hja_q, Ne.symm h]
    rw [h1, h2]
  have hceq : cnt (setAgent (cacheNode (wr s (.lock a.lk) (a.cur + P.C.kSLock)) a.tid a.qnode).1 i (joinAgent P a))
      a.lk Gk.node = cnt s a.lk Gk.node + 1 := by
    have := cnt_upd hi hag a.lk Gk.node
    have h1 : isMem a.lk Gk.node a = false := by simp [isMem, hloc, Loc.sMem]
    have h2 : isMem a.lk Gk.node (joinAgent P a) = true := by simp [isMem, hja_lk, hja_q, hja_sm]
    rw [h1, h2] at this
    simpa using this
  -- words
  have hold1 : ∀ old, (wr s (.lock a.lk) (a.cur + P.C.kSLock)).tls[a.tid]? = some (some old) → 1 ≤ old := by
    intro old h; exact (nodeLive_bound (hI.cacheLive a.tid old h)).1
  have hnodeW : ∀ k, 1 ≤ k → s.tls[a.tid]? ≠ some (some k) →
      nodeW (setAgent (cacheNode (wr s (.lock a.lk) (a.cur + P.C.kSLock)) a.tid a.qnode).1 i (joinAgent P a)) k
        = nodeW s k ∧
      nodeLive (setAgent (cacheNode (wr s (.lock a.lk) (a.cur + P.C.kSLock)) a.tid a.qnode).1 i (joinAgent P a)) k
        = nodeLive s k := by
    intro k h1 hne
    rw [nodeW_setAgent, nodeLive_setAgent]
    have := cacheNode_other (wr s (.lock a.lk) (a.cur + P.C.kSLock)) a.tid a.qnode k h1 hne hold1
    rw [this.1, this.2]; exact ⟨rfl, rfl⟩
  have hlockW : ∀ ℓ, lockW (setAgent (cacheNode (wr s (.lock a.lk) (a.cur + P.C.kSLock)) a.tid a.qnode).1 i
      (joinAgent P a)) ℓ = if ℓ = a.lk then a.cur + P.C.kSLock else lockW s ℓ := by
    intro ℓ; rw [lockW_setAgent, cacheNode_lockW, lockW_wr_lock s _ _ _ hwf.2.1]
  have hgnode : ∀ ℓ G, G ∈ Q ℓ → nodeW (setAgent (cacheNode (wr s (.lock a.lk) (a.cur + P.C.kSLock)) a.tid a.qnode).1
      i (joinAgent P a)) G.node = nodeW s G.node := by
    intro ℓ G hG
    exact (hnodeW G.node (hI.node_pos hG) (fun hc => hI.cacheQ a.tid G.node ℓ G hc hG rfl)).1
  apply inv_assemble
  · rw [setAgent_uaf, cacheNode_uaf, wr_lock_uaf]; exact hI.uaf
  · rw [setAgent_nodes, cacheNode_nodes_len, wr_lock_nodes]; exact hI.capN
  · rw [hag]; simpa using hI.capA
  · intro b hb
    rw [setAgent_tls, cacheNode_tls, setAgent_locks, cacheNode_locks, wr_lock_len]
    simp only [List.length_set, wr_lock_tls]
    rcases ag_mem hi hag hb with hb | rfl
    · exact hI.wf b hb
    · exact ⟨hwf.1, hwf.2.1, by unfold joinAgent; dsimp only; split <;> simp, by rw [hja_hm]; simp⟩
  · intro ℓ hℓ
    rw [setAgent_locks, cacheNode_locks, wr_lock_len] at hℓ
    exact hI.outside ℓ hℓ
  · intro ℓ hℓ
    rw [setAgent_locks, cacheNode_locks, wr_lock_len] at hℓ
    by_cases hne : ℓ = a.lk
    · subst hne
      apply lockInv_same hL hi hag (mono_of_not_head hag (hnh a.lk hwf.2.1))
      · intro j Pg G' hj hj1 _
        unfold grpW
        rw [hmode_ne hag Pg (hnh a.lk hwf.2.1 Pg (mem_of_idx hj)), hcne a.lk Pg.node (Or.inr (by
          intro e
          have := (idx_unique hL.nodup hj hkidx e).1
          have := getElem?_lt' hj1
          omega))]
      · rw [hlockW]; simp only [↓reduceIte]
        unfold expLock; rw [hk]; dsimp only; unfold grpW
        rw [hmode_ne hag Gk (hnh a.lk hwf.2.1 Gk hGkm), hceq, hw]
        exact hW.addS _ _ _ _ hGklt (by omega)
      · intro j G hj
        rw [hgnode a.lk G (mem_of_idx hj), hL.nodeWord j G hj]
        symm
        apply expNode_congr (published_ne hag G (hnh a.lk hwf.2.1 G (mem_of_idx hj)))
        · apply linkOf_eq_of; intro Gs hGs; exact linked_ne hag Gs (hnh a.lk hwf.2.1 Gs (mem_of_idx hGs))
        · intro Pg p hjpos hPg
          unfold grpW
          rw [hmode_ne hag Pg (hnh a.lk hwf.2.1 Pg (mem_of_idx hPg)), hcne a.lk Pg.node (Or.inr (by
            intro e
            have := (idx_unique hL.nodup hPg hkidx e).1
            have := getElem?_lt' hj
            omega))]
      · intro G hG
        rw [hmode_ne hag G (hnh a.lk hwf.2.1 G hG)]
        rcases hL.nonempty G hG with h | h
        · exact Or.inl h
        · right
          by_cases e : G.node = Gk.node
          · rw [e, hceq]; omega
          · rw [hcne a.lk G.node (Or.inr e)]; exact h
      · intro j G hj h0; rw [hmode_ne hag G (hnh a.lk hwf.2.1 G (mem_of_idx hj))]; exact hL.laterHeads j G hj h0
      · intro h; rw [hja_hm] at h; cases h
      · intro G hG hh; exact absurd hh (hnh a.lk hwf.2.1 G hG)
      · intro _ h; rw [hja_hm] at h; cases h
      · intro _ _
        refine ⟨(Q a.lk).length - 1, Gk, hkidx, hja_q.symm, ?_⟩
        have hxm := hW.xmask Gk.node (hmode s Gk == some .X) (hmode s Gk == some .SIX) (cnt s a.lk Gk.node) hGklt
          (by omega)
        rw [← hw] at hxm
        by_cases hx : (a.cur &&& P.C.kXMask) ≠ 0
        · -- waits: `nxt` is the group's node
          have hl : (joinAgent P a).loc = .sSpinLock := by unfold joinAgent; dsimp only; rw [if_pos hx]
          simp only [MemOK, hl]
          show a.cur &&& P.C.kPtrMask = ofNode (a.cur &&& P.C.kPtrMask).toNat
          rw [htn, hpm]
        · have hx' : (a.cur &&& P.C.kXMask) = 0 := by
            rcases Classical.em ((a.cur &&& P.C.kXMask) = 0) with h | h
            · exact h
            · exact absurd h hx
          have hl : (joinAgent P a).loc = .held .S := by unfold joinAgent; dsimp only; rw [if_neg hx]
          have := hxm.mp hx'
          simp only [MemOK, hl]
          rw [hmode_ne hag Gk (hnh a.lk hwf.2.1 Gk hGkm)]
          exact hmode_none_of_flags (fun b hb => (hI.wf b hb).2.2.2) this.1 this.2
    · apply lockInv_other hI hi hag hja_lk hne hℓ
      · rw [hlockW]; simp [hne]
      · intro G hG; exact hgnode ℓ G hG
  · -- ownership: the private node goes to the cache of the thread
    apply ownInv_to_cache hI.own a.tid a.qnode (.priv i) ⟨a, hi, hp, rfl⟩ (fun e => Owner.noConfusion e)
    · intro k hne
      rw [nodeLive_setAgent]
      by_cases hk1 : 1 ≤ k
      · exact (cacheNode_other (wr s (.lock a.lk) (a.cur + P.C.kSLock)) a.tid a.qnode k hk1 hne hold1).2
      · have hk0 : k = 0 := by omega
        subst hk0
        simp [nodeLive]
    · intro k o h
      cases o with
      | priv j =>
        obtain ⟨b, hb, hpb, rfl⟩ := h
        rcases ag_cases hi hag hb with ⟨rfl, rfl⟩ | ⟨hne, hb'⟩
        · rw [hja_priv] at hpb; cases hpb
        · right
          refine ⟨?_, fun e => Owner.noConfusion e, ⟨b, hb', hpb, rfl⟩⟩
          intro e
          exact hne (hI.privUniq j i b a hb' hi hpb hp e)
      | cache t =>
        have h' : (s.tls.set a.tid (some a.qnode))[t]? = some (some k) := by
          have : (setAgent (cacheNode (wr s (.lock a.lk) (a.cur + P.C.kSLock)) a.tid a.qnode).1 i (joinAgent P a)).tls
              = s.tls.set a.tid (some a.qnode) := by rw [setAgent_tls, cacheNode_tls]; rfl
          rw [← this]; exact h
        rcases tls_set_cases h' with ⟨rfl, hx⟩ | ⟨hne, hx⟩
        · left; exact ⟨(Option.some.inj hx), rfl⟩
        · right
          refine ⟨?_, fun e => hne (Owner.cache.inj e), hx⟩
          intro e; subst e
          exact hI.privC i a t hi hp hx
      | grp ℓ =>
        obtain ⟨G, hG, rfl⟩ := h
        right
        exact ⟨hI.privQ i a ℓ G hi hp hG, fun e => Owner.noConfusion e, ⟨G, hG, rfl⟩⟩
  · intro k b hk
    rcases ag_cases hi hag hk with ⟨rfl, rfl⟩ | ⟨hne, hk'⟩
    · constructor
      · intro h; unfold joinAgent at h; dsimp only at h; split at h <;> rcases h with h | h <;> cases h
      · intro m h; unfold joinAgent at h; dsimp only at h; split at h <;> cases h
    · have hold := hI.privW k b hk'
      have hsame : b.loc.priv = true → nodeW (setAgent (cacheNode (wr s (.lock a.lk) (a.cur + P.C.kSLock)) a.tid
          a.qnode).1 i (joinAgent P a)) b.qnode = nodeW s b.qnode := by
        intro hb
        exact (hnodeW b.qnode (nodeLive_bound (hI.privLive k b hk' hb)).1 (hI.privC k b a.tid hk' hb)).1
      constructor
      · intro h; rw [hsame (by rcases h with h | h <;> simp [h, Loc.priv])]; exact hold.1 h
      · intro m h; rw [hsame (by simp [h, Loc.priv])]; exact hold.2 m h

end CppUtil.Mcs
