/-
  Sequential histories of the EpochManager (C20's setting: at most one guard per thread, nothing
  concurrent with `ForwardGlobalEpoch`).  State = current epoch, node chain, the multiset of pinned
  epochs (one per live guard) and, as a ghost, the vector published for each epoch.  Operations:
  a guard is created (pins the current epoch), a guard is destroyed, the coordinator forwards.
  `forward` is built from the very functions the driver executes against the implementation
  (`maybeNewNode`, `publish` = `sortDescDedup` + `setList` + `removeOutdated`/`prune`).

  Proved for every history (induction over the operation list):
    * `forward` never fails: the pruning walk terminates and no lookup runs off the chain;
    * every live guard's vector (and the current epoch's) is found by `getList` and equals the vector
      published when that epoch became current — not modified, not freed (C17, sequential part);
    * published vectors have the C17 shape;
    * right after a forward the chain holds at most one node per distinct occupied range plus one (C20).
-/
import CppUtil.Proofs.EpochPrune

namespace CppUtil.Epoch
open CppUtil

structure GoodConsts (C : Consts) : Prop where
  cap : 0 < C.kCapacity
  minlt : C.kMinEpoch < C.kInitialEpoch
  aligned : C.kInitialEpoch % C.kCapacity = 0

structure SeqSt where
  cur : Nat
  nodes : List PNode
  /-- epochs pinned by the live guards -/
  pins : List Nat
  /-- `min_epoch_` -/
  min : Nat
  nextId : Nat
  /-- vector published by the last forward (what `FE` reports) -/
  last : List Nat
  /-- ghost: vector published for each epoch -/
  pub : Nat → List Nat

inductive SeqOp where
  | enter
  | leave (i : Nat)
  | forward
  deriving Repr, DecidableEq

def seqInit (C : Consts) : SeqSt :=
  { cur := C.kInitialEpoch, nodes := initNodes C, pins := [], min := C.kInitialEpoch, nextId := 1,
    last := [C.kInitialEpoch], pub := fun _ => [C.kInitialEpoch] }

def seqStep (C : Consts) (s : SeqSt) : SeqOp → Option SeqSt
  | .enter => some { s with pins := s.cur :: s.pins }
  | .leave i => some { s with pins := s.pins.eraseIdx i }
  | .forward =>
    let next := s.cur + 1
    let r := maybeNewNode C s.nodes next s.nextId
    match publish C r.1 next ([next, s.cur] ++ s.pins) with
    | some (chain, v, _) =>
      some { cur := next, nodes := chain, pins := s.pins, min := v.getLast?.getD 0,
             nextId := if r.2 then s.nextId + 1 else s.nextId, last := v,
             pub := fun e => if e = next then v else s.pub e }
    | none => none

def seqRun (C : Consts) : SeqSt → List SeqOp → Option SeqSt
  | s, [] => some s
  | s, op :: ops => match seqStep C s op with
    | some s' => seqRun C s' ops
    | none => none

/-! ### lookups in a sorted chain -/

theorem findNode_eq (C : Consts) (e : Nat) : ∀ (c : List PNode) (n : PNode), ChainDesc c → n ∈ c →
    n.upper = upperOf C e → findNode C e c = some n := by
  intro c
  induction c with
  | nil => intro n _ h; simp at h
  | cons h t ih =>
    intro n hc hn hu
    have hp := List.pairwise_cons.mp hc
    simp only [findNode]
    rcases List.mem_cons.mp hn with rfl | hn
    · have : ¬ n.upper > upperOf C e := by omega
      simp [this]
    · have := hp.1 n hn
      have hgt : h.upper > upperOf C e := by omega
      simp only [hgt, ↓reduceIte]
      exact ih n hp.2 hn hu

theorem getList_eq (C : Consts) (e : Nat) (c : List PNode) (n : PNode) (hc : ChainDesc c) (hn : n ∈ c)
    (hu : n.upper = upperOf C e) : getList C e c = some (vecOf n (lowerOf C e)) := by
  simp [getList, findNode_eq C e c n hc hn hu]

/-- the node written by `setList` -/
def updNode (C : Consts) (e : Nat) (v : List Nat) (n : PNode) : PNode :=
  { n with lists := (n.lists.filter (·.1 != lowerOf C e)) ++ [(lowerOf C e, v)] }

theorem setList_eq_map (C : Consts) (e : Nat) (v : List Nat) : ∀ (c : List PNode), ChainDesc c →
    (∃ n ∈ c, n.upper = upperOf C e) →
    setList C e v c = c.map (fun x => if x.upper = upperOf C e then updNode C e v x else x) := by
  intro c
  induction c with
  | nil => intro _ h; simp at h
  | cons h t ih =>
    intro hc hex
    have hp := List.pairwise_cons.mp hc
    obtain ⟨n, hn, hu⟩ := hex
    simp only [setList, List.map_cons]
    by_cases hgt : h.upper > upperOf C e
    · have hne : ¬ h.upper = upperOf C e := by omega
      simp only [hgt, ↓reduceIte, hne]
      congr 1
      apply ih hp.2
      rcases List.mem_cons.mp hn with rfl | hn
      · omega
      · exact ⟨n, hn, hu⟩
    · have heq : h.upper = upperOf C e := by
        rcases List.mem_cons.mp hn with rfl | hn
        · exact hu
        · have := hp.1 n hn; omega
      have htail : t.map (fun x => if x.upper = upperOf C e then updNode C e v x else x) = t := by
        calc t.map (fun x => if x.upper = upperOf C e then updNode C e v x else x)
            = t.map id := by
              apply List.map_congr_left
              intro x hx
              have := hp.1 x hx
              have : ¬ x.upper = upperOf C e := by omega
              simp [this]
          _ = t := by simp
      rw [if_neg hgt, if_pos heq, htail]; rfl

theorem vecOf_updNode_same (C : Consts) (e : Nat) (v : List Nat) (n : PNode) :
    vecOf (updNode C e v n) (lowerOf C e) = v := by
  simp only [vecOf, updNode]
  have hnone : List.find? (fun x => x.1 == lowerOf C e) (List.filter (fun x => x.1 != lowerOf C e) n.lists) = none := by
    apply List.find?_eq_none.mpr
    intro x hx
    have := (List.mem_filter.mp hx).2
    simp at this ⊢
    exact this
  simp [List.find?_append, hnone]

theorem find_filter_other (k l : Nat) (hl : l ≠ k) : ∀ (L : List (Nat × List Nat)),
    List.find? (fun x => x.1 == l) (List.filter (fun x => x.1 != k) L) = List.find? (fun x => x.1 == l) L := by
  intro L
  induction L with
  | nil => simp
  | cons a as ih =>
    by_cases ha : a.1 = k
    · have h1 : (a.1 != k) = false := by simp [ha]
      have h2 : (a.1 == l) = false := by simp; omega
      simp only [List.filter_cons, h1, Bool.false_eq_true, ↓reduceIte, List.find?_cons, h2, ih]
    · have h1 : (a.1 != k) = true := by simp [ha]
      simp only [List.filter_cons, h1, ↓reduceIte, List.find?_cons, ih]

theorem vecOf_updNode_other (C : Consts) (e : Nat) (v : List Nat) (n : PNode) (l : Nat) (hl : l ≠ lowerOf C e) :
    vecOf (updNode C e v n) l = vecOf n l := by
  simp only [vecOf, updNode, List.find?_append]
  rw [find_filter_other (lowerOf C e) l hl]
  have h2 : List.find? (fun x => x.1 == l) [(lowerOf C e, v)] = none := by
    have : (lowerOf C e == l) = false := by simp; omega
    simp [List.find?_cons, this]
  cases h : List.find? (fun x => x.1 == l) n.lists with
  | none => simp [h2]
  | some x => simp

theorem lower_ne_of_same_upper (C : Consts) {p e : Nat} (hu : upperOf C p = upperOf C e) (hne : p ≠ e) :
    lowerOf C p ≠ lowerOf C e := by
  unfold upperOf at hu; unfold lowerOf
  have := Nat.mod_le p C.kCapacity
  have := Nat.mod_le e C.kCapacity
  omega

theorem upperOf_succ_same (C : Consts) (hcap : 0 < C.kCapacity) (e : Nat) (h : lowerOf C (e + 1) ≠ 0) :
    upperOf C (e + 1) = upperOf C e := by
  unfold lowerOf at h; unfold upperOf
  have he := Nat.div_add_mod e C.kCapacity
  have hr := Nat.mod_lt e hcap
  by_cases hlt : e % C.kCapacity + 1 < C.kCapacity
  · have : (e + 1) % C.kCapacity = e % C.kCapacity + 1 := by
      have h1 : e + 1 = C.kCapacity * (e / C.kCapacity) + (e % C.kCapacity + 1) := by omega
      rw [h1, Nat.mul_add_mod, Nat.mod_eq_of_lt hlt]
    omega
  · exfalso
    apply h
    have h1 : e + 1 = C.kCapacity * (e / C.kCapacity) + C.kCapacity := by omega
    rw [h1, Nat.mul_add_mod, Nat.mod_self]

theorem upperOf_of_lower_zero (C : Consts) (e : Nat) (h : lowerOf C e = 0) : upperOf C e = e := by
  unfold lowerOf at h; unfold upperOf; omega

theorem keepOf_head (C : Consts) (pe : Nat) (it : List Nat) (h : PNode) (t : List PNode)
    (hw : wantB C pe it h = true) : ∃ t', keepOf C pe it (h :: t) = h :: t' := by
  cases t with
  | nil => exact ⟨[], by simp [keepOf]⟩
  | cons m r => exact ⟨keepOf C pe it (m :: r), by simp [keepOf, hw]⟩

/-! ### the invariant -/

structure SInv (C : Consts) (s : SeqSt) : Prop where
  chain : ChainDesc s.nodes
  lower : ∀ n ∈ s.nodes, C.kInitialEpoch ≤ n.upper
  head : ∃ h t, s.nodes = h :: t ∧ h.upper = upperOf C s.cur
  curge : C.kInitialEpoch ≤ s.cur
  pins : ∀ p ∈ s.pins, p ≤ s.cur ∧ C.kInitialEpoch ≤ p
  lists : ∀ p, (p = s.cur ∨ p ∈ s.pins) → ∃ n ∈ s.nodes, n.upper = upperOf C p ∧ vecOf n (lowerOf C p) = s.pub p
  shape : ∀ e, C.kInitialEpoch ≤ e → e ≤ s.cur →
    (s.pub e).head? = some e ∧ Desc (s.pub e) ∧ (C.kInitialEpoch < e → e - 1 ∈ s.pub e)
  lastpub : s.last = s.pub s.cur

theorem sinv_init (C : Consts) (hC : GoodConsts C) : SInv C (seqInit C) := by
  have hup : upperOf C C.kInitialEpoch = C.kInitialEpoch := by unfold upperOf; have := hC.aligned; omega
  refine ⟨by simp [seqInit, initNodes], ?_, ?_, by simp [seqInit], by simp [seqInit], ?_, ?_, rfl⟩
  · intro n hn; simp [seqInit, initNodes] at hn; subst hn; simp
  · exact ⟨_, [], rfl, by simp [seqInit, hup]⟩
  · intro p hp
    simp only [seqInit, List.not_mem_nil, or_false] at hp
    subst hp
    refine ⟨{ id := 0, upper := C.kInitialEpoch, lists := [(lowerOf C C.kInitialEpoch, [C.kInitialEpoch])] },
      by simp [seqInit, initNodes], ?_, ?_⟩
    · simp [seqInit, hup]
    · simp [seqInit, vecOf]
  · intro e h1 h2
    simp only [seqInit] at h2 ⊢
    have : e = C.kInitialEpoch := by omega
    subst this
    simp [Desc]

/-- what a forward does, given the invariant: it succeeds, and the new chain is the specified one -/
theorem forward_ok (C : Consts) (hC : GoodConsts C) (s : SeqSt) (hI : SInv C s) :
    ∃ s', seqStep C s .forward = some s' ∧ SInv C s' ∧
      s'.cur = s.cur + 1 ∧ s'.pins = s.pins ∧
      s'.last = sortDescDedup ([s.cur + 1, s.cur] ++ s.pins) ∧
      s'.min = (sortDescDedup ([s.cur + 1, s.cur] ++ s.pins)).getLast?.getD 0 ∧
      (∀ e, e ≤ s.cur → s'.pub e = s.pub e) ∧
      s'.nodes.length ≤ (sortDescDedup (s'.last.map (upperOf C))).length + 1 := by
  obtain ⟨next, hnext⟩ : ∃ n, n = s.cur + 1 := ⟨_, rfl⟩
  rw [← hnext]
  obtain ⟨h0, t0, hnodes, hh0⟩ := hI.head
  -- the vector
  have hspec := sortDescDedup_spec ([next, s.cur] ++ s.pins)
  have hhead : (sortDescDedup ([next, s.cur] ++ s.pins)).head? = some (next) := by
    apply published_head
    · simp
    · intro y hy
      simp only [List.cons_append, List.nil_append, List.mem_cons] at hy
      rcases hy with rfl | rfl | hy
      · omega
      · omega
      · have := (hI.pins y hy).1; omega
  obtain ⟨ps, hv⟩ : ∃ ps, sortDescDedup ([next, s.cur] ++ s.pins) = (next) :: ps := by
    cases h : sortDescDedup ([next, s.cur] ++ s.pins) with
    | nil => rw [h] at hhead; simp at hhead
    | cons a as => rw [h] at hhead; simp at hhead; exact ⟨as, by rw [hhead]⟩
  have hvdesc : Desc ((next) :: ps) := hv ▸ hspec.1
  have hvp := List.pairwise_cons.mp hvdesc
  have hps_mem : ∀ p, p ∈ ps ↔ (p ≠ next ∧ (p = s.cur ∨ p ∈ s.pins)) := by
    intro p
    have := hspec.2 p
    rw [hv] at this
    simp only [List.mem_cons, List.cons_append, List.nil_append] at this
    constructor
    · intro hp
      have hlt := hvp.1 p hp
      have := this.mp (Or.inr hp)
      rcases this with h | h | h
      · omega
      · exact ⟨by omega, Or.inl h⟩
      · exact ⟨by omega, Or.inr h⟩
    · rintro ⟨hne, h⟩
      have := this.mpr (by rcases h with h | h; exact Or.inr (Or.inl h); exact Or.inr (Or.inr h))
      rcases this with h | h
      · exact absurd h hne
      · exact h
  -- the chain after the optional allocation
  have hn1 : ∃ h1 t1, (maybeNewNode C s.nodes next s.nextId).1 = h1 :: t1 ∧ h1.upper = upperOf C next ∧
      ChainDesc (h1 :: t1) ∧ (∀ n ∈ h1 :: t1, C.kInitialEpoch ≤ n.upper) ∧ (∀ n ∈ s.nodes, n ∈ h1 :: t1) := by
    unfold maybeNewNode
    by_cases hl : lowerOf C next = 0
    · simp only [hl, ↓reduceIte]
      have hu := upperOf_of_lower_zero C next hl
      refine ⟨_, _, rfl, by simp [hu], ?_, ?_, fun n hn => List.mem_cons_of_mem _ hn⟩
      · apply List.pairwise_cons.mpr
        refine ⟨?_, hI.chain⟩
        intro a ha
        rw [hnodes] at ha
        have hle : a.upper ≤ h0.upper := by
          rcases List.mem_cons.mp ha with rfl | ha
          · omega
          · have := (List.pairwise_cons.mp (hnodes ▸ hI.chain)).1 a ha; omega
        have := upperOf_le C s.cur
        show next > a.upper
        omega
      · intro n hn
        rcases List.mem_cons.mp hn with rfl | hn
        · show C.kInitialEpoch ≤ next
          have := hI.curge; omega
        · exact hI.lower n hn
    · simp only [hl, ↓reduceIte]
      refine ⟨h0, t0, hnodes, ?_, hnodes ▸ hI.chain, fun n hn => hI.lower n (hnodes ▸ hn), fun n hn => hnodes ▸ hn⟩
      rw [hh0, hnext]; exact (upperOf_succ_same C hC.cap s.cur (by rw [← hnext]; exact hl)).symm
  obtain ⟨h1, t1, hm, hh1, hc1, hlow1, hsub1⟩ := hn1
  -- setList
  have hex : ∃ n ∈ h1 :: t1, n.upper = upperOf C next := ⟨h1, by simp, hh1⟩
  have hset := setList_eq_map C next ((next) :: ps) (h1 :: t1) hc1 hex
  let g : PNode → PNode := fun x => if x.upper = upperOf C next then updNode C next ((next) :: ps) x else x
  have hgu : ∀ x, (g x).upper = x.upper := by
    intro x; simp only [g]; split <;> simp [updNode]
  have hc2 : ChainDesc ((h1 :: t1).map g) := by
    rw [ChainDesc, List.pairwise_map]
    simpa [hgu] using hc1
  -- the state of the walk
  have hst : PState C ((h1 :: t1).map g) (upperOf C next) ps := by
    refine ⟨hc2, ?_, ?_, ?_, ?_⟩
    · intro n hn
      obtain ⟨x, hx, rfl⟩ := List.mem_map.mp hn
      rw [hgu]; have := hlow1 x hx; have := hC.minlt; omega
    · intro p hp
      apply upperOf_mono
      have := hvp.1 p hp
      omega
    · have : (ps.map (upperOf C)).Pairwise (· ≥ ·) := by
        rw [List.pairwise_map]
        exact hvp.2.imp (fun {a b} hab => upperOf_mono C (by omega))
      exact this
    · right
      constructor
      · exact ⟨g h1, List.mem_map.mpr ⟨h1, by simp, rfl⟩, by rw [hgu]; exact hh1⟩
      · intro p hp
        obtain ⟨_, hp'⟩ := (hps_mem p).mp hp
        obtain ⟨n, hn, hnu, _⟩ := hI.lists p hp'
        exact ⟨g n, List.mem_map.mpr ⟨n, hsub1 n hn, rfl⟩, by rw [hgu]; exact hnu⟩
  have hprune := prune_spec C ((h1 :: t1).map g) (2 * ((h1 :: t1).map g).length + 4) [] (upperOf C next) ps hst
    (Or.inr (Or.inr ⟨g h1, t1.map g, by simp, by rw [hgu]; exact hh1.symm⟩)) (by omega)
  -- evaluate the step
  have hfind : findNode C next (h1 :: t1) = some h1 := findNode_eq C next _ h1 hc1 (by simp) hh1
  have hstep : seqStep C s .forward = some
      { cur := next, nodes := keepOf C (upperOf C next) ps ((h1 :: t1).map g), pins := s.pins,
        min := ((next) :: ps).getLast?.getD 0,
        nextId := if (maybeNewNode C s.nodes next s.nextId).2 then s.nextId + 1 else s.nextId,
        last := (next) :: ps,
        pub := fun e => if e = next then (next) :: ps else s.pub e } := by
    simp only [seqStep, publish, ← hnext]
    rw [hm, hv]
    simp only [hfind]
    rw [show setList C (next) ((next) :: ps) (h1 :: t1) = (h1 :: t1).map g from hset]
    simp only [removeOutdated]
    rw [show prune C (2 * ((h1 :: t1).map g).length + 4) [] ((h1 :: t1).map g) (upperOf C (next)) ps = _ from hprune]
    rfl
  refine ⟨_, hstep, ?_, rfl, rfl, hv.symm, by rw [hv], ?_, ?_⟩
  · -- the invariant
    have hwant_head : wantB C (upperOf C next) ps (g h1) = true := by simp [wantB, hgu, hh1]
    obtain ⟨t', ht'⟩ := keepOf_head C (upperOf C next) ps (g h1) (t1.map g) hwant_head
    have hkeep_sub := keepOf_sublist C (upperOf C next) ps ((h1 :: t1).map g)
    have hkc : ChainDesc (keepOf C (upperOf C next) ps ((h1 :: t1).map g)) := hc2.sublist hkeep_sub
    refine ⟨hkc, ?_, ?_, ?_, ?_, ?_, ?_, ?_⟩
    · intro n hn
      have := hkeep_sub.subset hn
      obtain ⟨x, hx, rfl⟩ := List.mem_map.mp this
      rw [hgu]; exact hlow1 x hx
    · exact ⟨g h1, t', by simpa using ht', by rw [hgu]; exact hh1⟩
    · show C.kInitialEpoch ≤ next
      have := hI.curge; omega
    · intro p hp
      have := hI.pins p hp
      exact ⟨by show p ≤ next; omega, this.2⟩
    · intro p hp
      show ∃ n ∈ keepOf C (upperOf C next) ps ((h1 :: t1).map g), n.upper = upperOf C p ∧
        vecOf n (lowerOf C p) = (if p = next then (next) :: ps else s.pub p)
      by_cases hpn : p = next
      · rw [hpn]
        refine ⟨g h1, ?_, by rw [hgu]; exact hh1, ?_⟩
        · rw [show keepOf C (upperOf C next) ps ((h1 :: t1).map g) = g h1 :: t' by simpa using ht']; simp
        · simp only [↓reduceIte, g, hh1]
          exact vecOf_updNode_same C next _ h1
      · have hp' : p = s.cur ∨ p ∈ s.pins := by
          rcases hp with hp | hp
          · exact absurd hp hpn
          · exact Or.inr hp
        have hple : p ≤ s.cur := by
          rcases hp' with rfl | hp'
          · omega
          · exact (hI.pins p hp').1
        obtain ⟨n, hn, hnu, hnv⟩ := hI.lists p hp'
        have hpps : p ∈ ps := (hps_mem p).mpr ⟨hpn, hp'⟩
        refine ⟨g n, ?_, by rw [hgu]; exact hnu, ?_⟩
        · apply (mem_keepOf C (upperOf C next) ps _ (g n)).mpr
          refine ⟨List.mem_map.mpr ⟨n, hsub1 n hn, rfl⟩, Or.inl ?_⟩
          simp only [wantB, hgu, Bool.or_eq_true, beq_iff_eq, List.contains_iff_mem]
          right
          exact List.mem_map.mpr ⟨p, hpps, hnu.symm⟩
        · simp only [hpn, ↓reduceIte]
          rw [← hnv]
          simp only [g]
          split
          · rename_i hnx
            apply vecOf_updNode_other
            apply lower_ne_of_same_upper C _ hpn
            rw [← hnu, hnx]
          · rfl
    · intro e he1 he2
      show (if e = next then (next) :: ps else s.pub e).head? = some e ∧
        Desc (if e = next then (next) :: ps else s.pub e) ∧
        (C.kInitialEpoch < e → e - 1 ∈ (if e = next then (next) :: ps else s.pub e))
      by_cases hen : e = next
      · subst hen
        simp only [↓reduceIte]
        refine ⟨rfl, hvdesc, ?_⟩
        intro _
        have : s.cur ∈ ps := (hps_mem s.cur).mpr ⟨by omega, Or.inl rfl⟩
        rw [hnext, Nat.add_sub_cancel]
        exact List.mem_cons_of_mem _ this
      · simp only [hen, ↓reduceIte]
        apply hI.shape e he1
        have : e ≤ next := he2
        omega
    · simp
  · intro e he
    have : e ≠ next := by omega
    simp [this]
  · -- node bound
    have := keepOf_length_le C (upperOf C next) ps ((h1 :: t1).map g) hc2
    exact this

theorem sinv_step (C : Consts) (hC : GoodConsts C) (s : SeqSt) (hI : SInv C s) (op : SeqOp) :
    ∃ s', seqStep C s op = some s' ∧ SInv C s' := by
  cases op with
  | enter =>
    refine ⟨_, rfl, hI.chain, hI.lower, hI.head, hI.curge, ?_, ?_, hI.shape, hI.lastpub⟩
    · intro p hp
      rcases List.mem_cons.mp hp with rfl | hp
      · exact ⟨Nat.le_refl _, hI.curge⟩
      · exact hI.pins p hp
    · intro p hp
      apply hI.lists
      rcases hp with hp | hp
      · exact Or.inl hp
      · rcases List.mem_cons.mp hp with rfl | hp
        · exact Or.inl rfl
        · exact Or.inr hp
  | leave i =>
    refine ⟨_, rfl, hI.chain, hI.lower, hI.head, hI.curge, ?_, ?_, hI.shape, hI.lastpub⟩
    · intro p hp; exact hI.pins p (List.mem_of_mem_eraseIdx hp)
    · intro p hp
      apply hI.lists
      rcases hp with hp | hp
      · exact Or.inl hp
      · exact Or.inr (List.mem_of_mem_eraseIdx hp)
  | forward =>
    obtain ⟨s', h1, h2, _⟩ := forward_ok C hC s hI
    exact ⟨s', h1, h2⟩

/-- **every sequential history runs to completion and keeps the invariant** -/
theorem sinv_run (C : Consts) (hC : GoodConsts C) : ∀ (ops : List SeqOp) (s : SeqSt), SInv C s →
    ∃ s', seqRun C s ops = some s' ∧ SInv C s' := by
  intro ops
  induction ops with
  | nil => intro s h; exact ⟨s, rfl, h⟩
  | cons op ops ih =>
    intro s h
    obtain ⟨s1, h1, h2⟩ := sinv_step C hC s h op
    obtain ⟨s2, h3, h4⟩ := ih s1 h2
    exact ⟨s2, by simp [seqRun, h1, h3], h4⟩

/-- consequence for a guard holder: at any point of any history, the vector of every pinned epoch is
    found in the chain and is the one published for that epoch -/
theorem pinned_list_available (C : Consts) (s : SeqSt) (hI : SInv C s) (p : Nat) (hp : p = s.cur ∨ p ∈ s.pins) :
    getList C p s.nodes = some (s.pub p) := by
  obtain ⟨n, hn, hnu, hnv⟩ := hI.lists p hp
  rw [getList_eq C p s.nodes n hI.chain hn hnu, hnv]

/-- a published vector is never changed by later operations -/
theorem pub_stable (C : Consts) (hC : GoodConsts C) (s : SeqSt) (hI : SInv C s) (op : SeqOp) (s' : SeqSt)
    (h : seqStep C s op = some s') : ∀ e, e ≤ s.cur → s'.pub e = s.pub e := by
  cases op with
  | enter => simp only [seqStep, Option.some.injEq] at h; subst h; intro e _; rfl
  | leave i => simp only [seqStep, Option.some.injEq] at h; subst h; intro e _; rfl
  | forward =>
    obtain ⟨s'', h1, _, _, _, _, _, h7, _⟩ := forward_ok C hC s hI
    rw [h1] at h
    simp only [Option.some.injEq] at h
    subst h
    exact h7

/-- reachable states satisfy the invariant -/
theorem sinv_reachable (C : Consts) (hC : GoodConsts C) (ops : List SeqOp) (s : SeqSt)
    (h : seqRun C (seqInit C) ops = some s) : SInv C s := by
  obtain ⟨s', h1, h2⟩ := sinv_run C hC ops (seqInit C) (sinv_init C hC)
  rw [h1] at h
  simp only [Option.some.injEq] at h
  subst h
  exact h2

end CppUtil.Epoch
