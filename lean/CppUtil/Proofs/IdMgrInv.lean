/-
  IDManager invariant: every reservation flag counts exactly the threads that hold the slot, probe
  positions stay in range, and the heartbeat token of a thread is unexpired exactly while the
  thread is between its claiming exchange and the expiry step of its exit path.
  For every capacity `n ≥ 1`, any number of threads, any probe start, any interleaving.
-/
import CppUtil.Model.IdMgr

namespace CppUtil.IdMgr
open CppUtil

/-- position a thread is looking at / holding -/
def TLoc.pos? : TLoc → Option Nat
  | .pLoad id => some id | .pXchg id => some id | .owner id => some id
  | .exit1 id => some id | .exit2 id => some id | _ => none

/-- the thread's heartbeat token is unexpired -/
def holdsToken (ef : Bool) : TLoc → Bool
  | .owner _ => true
  | .exit1 _ => true
  | .exit2 _ => !ef
  | _ => false

def resCount (ef : Bool) (s : St) (id : Nat) : Nat :=
  s.threads.countP (fun l => reserves ef l == some id)

structure Inv (n : Nat) (ef : Bool) (s : St) : Prop where
  len : s.slots.length = n
  alen : s.alive.length = s.threads.length
  pos : ∀ l ∈ s.threads, ∀ id, l.pos? = some id → id < n
  cnt : ∀ id, id < n → resCount ef s id = (if s.slots.getD id false then 1 else 0)
  tok : ∀ t l, s.threads[t]? = some l → s.alive.getD t false = holdsToken ef l

theorem nextId_lt {n id : Nat} (hn : 0 < n) : nextId n id < n := by
  unfold nextId; split <;> omega

theorem getElem?_lt' {α} {l : List α} {i : Nat} {a : α} (h : l[i]? = some a) : i < l.length := by
  rcases Nat.lt_or_ge i l.length with h' | h'
  · exact h'
  · rw [List.getElem?_eq_none h'] at h; cases h

theorem resCount_set (ef : Bool) (s : St) (t : Nat) (old new : TLoc) (id : Nat) (h : s.threads[t]? = some old) :
    resCount ef (setT s t new) id + (if reserves ef old == some id then 1 else 0) =
    resCount ef s id + (if reserves ef new == some id then 1 else 0) := by
  have hi := getElem?_lt' h
  have hget : s.threads[t] = old := by
    have := List.getElem?_eq_getElem hi
    rw [this] at h; exact Option.some.inj h
  unfold resCount setT
  simp only [List.countP_set hi, hget]
  have hle := List.boole_getElem_le_countP (p := fun l => reserves ef l == some id) hi
  simp only [hget] at hle
  omega

theorem inv_init (n nthreads : Nat) (ef : Bool) : Inv n ef (mkSt n nthreads) := by
  refine ⟨by simp [mkSt], by simp [mkSt], ?_, ?_, ?_⟩
  · intro l hl id hp
    simp [mkSt] at hl
    rw [hl.2] at hp; simp [TLoc.pos?] at hp
  · intro id hid
    have h1 : resCount ef (mkSt n nthreads) id = 0 := by
      unfold resCount mkSt
      apply List.countP_eq_zero.mpr
      intro l hl
      simp at hl
      rw [hl.2]; simp [reserves]
    have h2 : (mkSt n nthreads).slots.getD id false = false := by
      simp [mkSt, List.getD_eq_getElem?_getD, List.getElem?_replicate, hid]
    rw [h1, h2]; simp
  · intro t l ht
    simp [mkSt, List.getElem?_replicate] at ht
    have : l = .fresh := ht.2.symm
    subst this
    simp [mkSt, holdsToken, List.getD_eq_getElem?_getD, List.getElem?_replicate, ht.1]


theorem getD_set_self {l : List Bool} {i : Nat} {b : Bool} (h : i < l.length) : (l.set i b).getD i false = b := by
  simp [List.getD_eq_getElem?_getD, List.getElem?_set_self h]

theorem getD_set_ne {l : List Bool} {i j : Nat} {b : Bool} (h : i ≠ j) : (l.set i b).getD j false = l.getD j false := by
  simp [List.getD_eq_getElem?_getD, List.getElem?_set_ne h]

/-- generic update: thread `t` moves `old → new`, slots and tokens change as described -/
theorem inv_update {n : Nat} {ef : Bool} {s : St} {t : Nat} {old new : TLoc} {slots' alive' : List Bool}
    (hI : Inv n ef s) (ht : s.threads[t]? = some old)
    (hlen : slots'.length = n) (halen : alive'.length = s.threads.length)
    (hpos : ∀ id, new.pos? = some id → id < n)
    (hcnt : ∀ id, id < n →
      (if slots'.getD id false then 1 else 0) + (if reserves ef old == some id then 1 else 0) =
      (if s.slots.getD id false then 1 else 0) + (if reserves ef new == some id then 1 else 0))
    (htok : alive'.getD t false = holdsToken ef new)
    (htoko : ∀ t', t' ≠ t → alive'.getD t' false = s.alive.getD t' false) :
    Inv n ef { slots := slots', threads := s.threads.set t new, alive := alive' } := by
  have hi := getElem?_lt' ht
  refine ⟨hlen, by simpa using halen, ?_, ?_, ?_⟩
  · intro l hl id hp
    rcases List.mem_or_eq_of_mem_set hl with h | h
    · exact hI.pos l h id hp
    · subst h; exact hpos id hp
  · intro id hid
    have h1 := resCount_set ef s t old new id ht
    have h2 := hI.cnt id hid
    have h3 := hcnt id hid
    show resCount ef (setT s t new) id = (if slots'.getD id false then 1 else 0)
    omega
  · intro t' l hl
    by_cases htt : t' = t
    · subst htt
      simp only [List.getElem?_set_self hi, Option.some.injEq] at hl
      subst hl; exact htok
    · simp only [List.getElem?_set_ne (Ne.symm htt)] at hl
      rw [htoko t' htt]; exact hI.tok t' l hl

/-- the slot a thread reserves is taken -/
theorem slot_of_reserver {n : Nat} {ef : Bool} {s : St} {t : Nat} {l : TLoc} {id : Nat} (hI : Inv n ef s)
    (ht : s.threads[t]? = some l) (hr : reserves ef l = some id) (hid : id < n) :
    s.slots.getD id false = true := by
  have hpos : 0 < resCount ef s id := by
    unfold resCount
    apply List.countP_pos_iff.mpr
    exact ⟨l, List.mem_of_getElem? ht, by simp [hr]⟩
  have := hI.cnt id hid
  cases hb : s.slots.getD id false with
  | true => rfl
  | false => rw [hb] at this; simp at this; omega

theorem inv_step {n : Nat} {ef : Bool} (hn : 0 < n) {s s' : St} {a : Act} {e : Option Ev}
    (hI : Inv n ef s) (h : step n ef s a = some (s', e)) : Inv n ef s' := by
  cases a with
  | begin t start =>
    simp only [step] at h
    split at h
    · rename_i ht
      simp only [Option.some.injEq, Prod.mk.injEq] at h
      rw [← h.1]
      have := inv_update (slots' := s.slots) (alive' := s.alive) (new := .pLoad (nextId n (start % n))) hI ht
        hI.len hI.alen (by intro id hp; simp [TLoc.pos?] at hp; rw [← hp]; exact nextId_lt hn)
        (by intro id _; simp [reserves]) (by rw [hI.tok t _ ht]; rfl) (by intro _ _; rfl)
      exact this
    · cases h
  | beginExit t =>
    simp only [step] at h
    split at h
    · rename_i id ht
      simp only [Option.some.injEq, Prod.mk.injEq] at h
      rw [← h.1]
      exact inv_update (slots' := s.slots) (alive' := s.alive) (new := .exit1 id) hI ht hI.len hI.alen
        (by intro id' hp; exact hI.pos _ (List.mem_of_getElem? ht) id' (by simpa [TLoc.pos?] using hp))
        (by intro id' _; simp [reserves]) (by rw [hI.tok t _ ht]; rfl) (by intro _ _; rfl)
    · rename_i ht
      simp only [Option.some.injEq, Prod.mk.injEq] at h
      rw [← h.1]
      exact inv_update (slots' := s.slots) (alive' := s.alive) (new := .dead) hI ht hI.len hI.alen
        (by intro id' hp; simp [TLoc.pos?] at hp)
        (by intro id' _; simp [reserves]) (by rw [hI.tok t _ ht]; rfl) (by intro _ _; rfl)
    · cases h
  | atom t =>
    simp only [step] at h
    split at h
    · -- pLoad
      rename_i id ht
      have hidn : id < n := hI.pos _ (List.mem_of_getElem? ht) id rfl
      split at h
      · simp only [Option.some.injEq, Prod.mk.injEq] at h
        rw [← h.1]
        exact inv_update (slots' := s.slots) (alive' := s.alive) (new := .pLoad (nextId n id)) hI ht hI.len hI.alen
          (by intro id' hp; simp [TLoc.pos?] at hp; rw [← hp]; exact nextId_lt hn)
          (by intro id' _; simp [reserves]) (by rw [hI.tok t _ ht]; rfl) (by intro _ _; rfl)
      · simp only [Option.some.injEq, Prod.mk.injEq] at h
        rw [← h.1]
        exact inv_update (slots' := s.slots) (alive' := s.alive) (new := .pXchg id) hI ht hI.len hI.alen
          (by intro id' hp; simp [TLoc.pos?] at hp; rw [← hp]; exact hidn)
          (by intro id' _; simp [reserves]) (by rw [hI.tok t _ ht]; rfl) (by intro _ _; rfl)
    · -- pXchg
      rename_i id ht
      have hidn : id < n := hI.pos _ (List.mem_of_getElem? ht) id rfl
      have hidl : id < s.slots.length := by rw [hI.len]; exact hidn
      have htl : t < s.alive.length := by rw [hI.alen]; exact getElem?_lt' ht
      split at h
      · rename_i hold
        simp only [Option.some.injEq, Prod.mk.injEq] at h
        rw [← h.1]
        show Inv n ef { slots := s.slots.set id true, threads := s.threads.set t (.pLoad (nextId n id)), alive := s.alive }
        exact inv_update (slots' := s.slots.set id true) (alive' := s.alive) (new := .pLoad (nextId n id)) hI ht
          (by simp [hI.len]) hI.alen
          (by intro id' hp; simp [TLoc.pos?] at hp; rw [← hp]; exact nextId_lt hn)
          (by
            intro id' _
            by_cases hii : id = id'
            · subst hii; rw [getD_set_self hidl, hold]; simp [reserves]
            · rw [getD_set_ne hii]; simp [reserves])
          (by rw [hI.tok t _ ht]; rfl) (by intro _ _; rfl)
      · rename_i hold
        have hold' : s.slots.getD id false = false := by simpa using hold
        simp only [Option.some.injEq, Prod.mk.injEq] at h
        rw [← h.1]
        show Inv n ef { slots := s.slots.set id true, threads := s.threads.set t (.owner id), alive := s.alive.set t true }
        exact inv_update (slots' := s.slots.set id true) (alive' := s.alive.set t true) (new := .owner id) hI ht
          (by simp [hI.len]) (by simp [hI.alen])
          (by intro id' hp; simp [TLoc.pos?] at hp; rw [← hp]; exact hidn)
          (by
            intro id' _
            by_cases hii : id = id'
            · subst hii; rw [getD_set_self hidl, hold']; simp [reserves]
            · rw [getD_set_ne hii]; simp [reserves, hii])
          (by rw [getD_set_self htl]; rfl) (by intro t' ht'; exact getD_set_ne (Ne.symm ht'))
    · -- exit1
      rename_i id ht
      have hidn : id < n := hI.pos _ (List.mem_of_getElem? ht) id rfl
      have hidl : id < s.slots.length := by rw [hI.len]; exact hidn
      have htl : t < s.alive.length := by rw [hI.alen]; exact getElem?_lt' ht
      split at h
      · rename_i hef
        simp only [Option.some.injEq, Prod.mk.injEq] at h
        rw [← h.1]
        show Inv n ef { slots := s.slots, threads := s.threads.set t (.exit2 id), alive := s.alive.set t false }
        exact inv_update (slots' := s.slots) (alive' := s.alive.set t false) (new := .exit2 id) hI ht hI.len
          (by simp [hI.alen])
          (by intro id' hp; simp [TLoc.pos?] at hp; rw [← hp]; exact hidn)
          (by intro id' _; simp [reserves, hef])
          (by rw [getD_set_self htl]; simp [holdsToken, hef]) (by intro t' ht'; exact getD_set_ne (Ne.symm ht'))
      · rename_i hef
        have hef' : ef = false := by simpa using hef
        have hslot := slot_of_reserver hI ht (by simp [reserves]) hidn
        simp only [Option.some.injEq, Prod.mk.injEq] at h
        rw [← h.1]
        show Inv n ef { slots := s.slots.set id false, threads := s.threads.set t (.exit2 id), alive := s.alive }
        exact inv_update (slots' := s.slots.set id false) (alive' := s.alive) (new := .exit2 id) hI ht
          (by simp [hI.len]) hI.alen
          (by intro id' hp; simp [TLoc.pos?] at hp; rw [← hp]; exact hidn)
          (by
            intro id' _
            by_cases hii : id = id'
            · subst hii; rw [getD_set_self hidl, hslot]; simp [reserves, hef']
            · rw [getD_set_ne hii]; simp [reserves, hef', hii])
          (by rw [hI.tok t _ ht]; simp [holdsToken, hef']) (by intro _ _; rfl)
    · -- exit2
      rename_i id ht
      have hidn : id < n := hI.pos _ (List.mem_of_getElem? ht) id rfl
      have hidl : id < s.slots.length := by rw [hI.len]; exact hidn
      have htl : t < s.alive.length := by rw [hI.alen]; exact getElem?_lt' ht
      split at h
      · rename_i hef
        have hslot := slot_of_reserver hI ht (by simp [reserves, hef]) hidn
        simp only [Option.some.injEq, Prod.mk.injEq] at h
        rw [← h.1]
        show Inv n ef { slots := s.slots.set id false, threads := s.threads.set t .dead, alive := s.alive }
        exact inv_update (slots' := s.slots.set id false) (alive' := s.alive) (new := .dead) hI ht
          (by simp [hI.len]) hI.alen
          (by intro id' hp; simp [TLoc.pos?] at hp)
          (by
            intro id' _
            by_cases hii : id = id'
            · subst hii; rw [getD_set_self hidl, hslot]; simp [reserves, hef]
            · rw [getD_set_ne hii]; simp [reserves, hef, hii])
          (by rw [hI.tok t _ ht]; simp [holdsToken, hef]) (by intro _ _; rfl)
      · rename_i hef
        have hef' : ef = false := by simpa using hef
        simp only [Option.some.injEq, Prod.mk.injEq] at h
        rw [← h.1]
        show Inv n ef { slots := s.slots, threads := s.threads.set t .dead, alive := s.alive.set t false }
        exact inv_update (slots' := s.slots) (alive' := s.alive.set t false) (new := .dead) hI ht hI.len
          (by simp [hI.alen])
          (by intro id' hp; simp [TLoc.pos?] at hp)
          (by intro id' _; simp [reserves, hef'])
          (by rw [getD_set_self htl]; rfl) (by intro t' ht'; exact getD_set_ne (Ne.symm ht'))
    · cases h

theorem inv_run {n : Nat} {ef : Bool} (hn : 0 < n) {acts : List Act} : ∀ {s s' : St}, Inv n ef s →
    run n ef s acts = some s' → Inv n ef s' := by
  induction acts with
  | nil => intro s s' hI h; simp only [run, Option.some.injEq] at h; rw [← h]; exact hI
  | cons a as ih =>
    intro s s' hI h
    simp only [run] at h
    split at h
    · rename_i s1 e hs
      exact ih (inv_step hn hI hs) h
    · cases h

end CppUtil.IdMgr
