/-
  C06, the search: for every strict total order (given as a Boolean comparator) and every table that is
  monotone in the induced non-strict order (ties allowed), the binary search with one-step correction
  returns the inverse-CDF bin.  Proof by functional induction on the loop; indices are `Int` as in the
  C++ (`end_pos` reaches −1).
-/
import CppUtil.Model.Zipf

namespace CppUtil.Zipf

variable {α : Type}

/-- order axioms we need, stated on the Bool comparator -/
structure StrictTotal (lt : α → α → Bool) : Prop where
  irrefl : ∀ a, lt a a = false
  trans : ∀ a b c, lt a b = true → lt b c = true → lt a c = true
  total : ∀ a b, lt a b = false → lt b a = false → a = b

def le (lt : α → α → Bool) (a b : α) : Prop := lt b a = false

theorem le_of_lt {lt : α → α → Bool} (h : StrictTotal lt) {a b : α} (hab : lt a b = true) : le lt a b := by
  unfold le
  cases hba : lt b a with
  | false => rfl
  | true => have := h.trans a b a hab hba; rw [h.irrefl] at this; cases this

theorem le_trans' {lt : α → α → Bool} (h : StrictTotal lt) {a b c : α} (hab : le lt a b) (hbc : le lt b c) : le lt a c := by
  unfold le at *
  cases hca : lt c a with
  | false => rfl
  | true =>
    cases hbc' : lt b c with
    | true => have := h.trans b c a hbc' hca; rw [hab] at this; cases this
    | false =>
      have : b = c := h.total b c hbc' hbc
      subst this; rw [hca] at hab; cases hab

theorem loop_spec (cdf : Int → α) (lt : α → α → Bool) (hlt : StrictTotal lt) (u : α) (n : Int)
    (hmono : ∀ i j, 0 ≤ i → i ≤ j → j < n → le lt (cdf i) (cdf j))
    (b e : Int) (hb : 0 ≤ b) (hbn : b < n) (he : e < n) (hbe : b ≤ e + 1)
    (hL : ∀ i, 0 ≤ i → i < b → le lt (cdf i) u)
    (hR : ∀ j, e < j → j < n → le lt u (cdf j)) :
    0 ≤ loop cdf lt u b e ∧ loop cdf lt u b e < n ∧
    (∀ i, 0 ≤ i → i < loop cdf lt u b e → le lt (cdf i) u) ∧
    ((∀ j, loop cdf lt u b e < j → j < n → le lt u (cdf j)) ∨ lt (cdf (loop cdf lt u b e)) u = false) := by
  fun_induction loop cdf lt u b e with
  | case1 b e hlt' pos c hc ih =>
    -- u < c : end := pos - 1
    have hpos : b ≤ pos ∧ pos < e := by constructor <;> omega
    apply ih hb hbn (by omega) (by omega) hL
    intro j hj hjn
    have : le lt c (cdf j) := hmono pos j (by omega) (by omega) hjn
    exact le_trans' hlt (le_of_lt hlt hc) this
  | case2 b e hlt' pos c hc1 hc2 ih =>
    have hpos : b ≤ pos ∧ pos < e := by constructor <;> omega
    apply ih (by omega) (by omega) he (by omega) _ hR
    intro i hi hip
    have : le lt (cdf i) c := hmono i pos hi (by omega) (by omega)
    exact le_trans' hlt this (le_of_lt hlt (by simpa using hc2))
  | case3 b e hlt' pos c hc1 hc2 =>
    have hpos : b ≤ pos ∧ pos < e := by constructor <;> omega
    refine ⟨by omega, by omega, ?_, Or.inr (by simpa using hc2)⟩
    intro i hi hip
    have : le lt (cdf i) c := hmono i pos hi (by omega) (by omega)
    have hcu : le lt c u := by unfold le; simpa using hc1
    exact le_trans' hlt this hcu
  | case4 b e hnlt =>
    refine ⟨hb, hbn, hL, Or.inl ?_⟩
    intro j hj hjn
    exact hR j (by omega) hjn

/-- C06, search part: for every strict total order, every monotone table and every `u ≤ cdf (n-1)`. -/
theorem search_spec (cdf : Int → α) (lt : α → α → Bool) (hlt : StrictTotal lt) (u : α) (n : Int) (hn : 0 < n)
    (hmono : ∀ i j, 0 ≤ i → i ≤ j → j < n → le lt (cdf i) (cdf j))
    (hu : le lt u (cdf (n - 1))) :
    0 ≤ search cdf lt n u ∧ search cdf lt n u < n ∧ le lt u (cdf (search cdf lt n u)) ∧
    (search cdf lt n u = 0 ∨ le lt (cdf (search cdf lt n u - 1)) u) := by
  have hs := loop_spec cdf lt hlt u n hmono 0 (n - 1) (by omega) hn (by omega) (by omega)
      (by intro i h0 h1; omega) (by intro j h0 h1; omega)
  obtain ⟨h0, h1, hL, hR⟩ := hs
  unfold search
  simp only
  generalize loop cdf lt u 0 (n - 1) = r at *
  split
  · rename_i hru
    -- cdf r < u : answer r + 1
    have hrn : r + 1 < n := by
      by_cases hlast : r = n - 1
      · subst hlast; unfold le at hu; rw [hru] at hu; cases hu
      · omega
    refine ⟨by omega, hrn, ?_, Or.inr ?_⟩
    · cases hR with
      | inl hR => exact hR (r + 1) (by omega) hrn
      | inr hR => rw [hru] at hR; cases hR
    · simpa using le_of_lt hlt hru
  · rename_i hru
    refine ⟨h0, h1, by unfold le; simpa using hru, ?_⟩
    by_cases hr0 : r = 0
    · exact Or.inl hr0
    · exact Or.inr (hL (r - 1) (by omega) (by omega))


end CppUtil.Zipf
