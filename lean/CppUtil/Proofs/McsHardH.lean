/-
  MCSLock proof, word-writing steps, part H: linking to the predecessor (`fetch_add` of the own node
  into the predecessor's node word).
-/
import CppUtil.Proofs.McsHardG

namespace CppUtil.Mcs
open CppUtil

variable {W : Nat → Bool → Bool → Nat → Word} {P : Params} {pb cb : Nat} {s : St} {Q : Nat → List Grp}
variable {i : Nat} {a : Agent}

/-- the expected node word as a function of the link -/
def expNodeL (W : Nat → Bool → Bool → Nat → Word) (s : St) (ℓ : Nat) (q : List Grp) (j : Nat) (G : Grp) (lnk : Nat) : Word :=
  if published s G then
    (if j = 0 then W lnk false false 0
     else match q[j - 1]? with
       | some Pg => grpW W s ℓ Pg lnk
       | none => W lnk false false 0)
  else W lnk true false 0

theorem expNode_eq_L (s : St) (ℓ : Nat) (q : List Grp) (j : Nat) (G : Grp) :
    expNode W s ℓ q j G = expNodeL W s ℓ q j G (linkOf s q j) := rfl

theorem expNodeL_shape (hW : WordSpecs P.C pb cb W) (hI : Inv W P pb cb s Q) (ℓ j : Nat) (G : Grp) :
    ∃ x six c, c < cb ∧ ∀ lnk, expNodeL W s ℓ (Q ℓ) j G lnk = W lnk x six c := by
  have hcb : 0 < cb := Nat.lt_trans Nat.zero_lt_one hW.cbPos
  unfold expNodeL
  split
  · split
    · exact ⟨false, false, 0, hcb, fun _ => rfl⟩
    · split
      · rename_i Pg _
        exact ⟨_, _, cnt s ℓ Pg.node, by have := hI.cnt_lt ℓ Pg.node; omega, fun _ => rfl⟩
      · exact ⟨false, false, 0, hcb, fun _ => rfl⟩
  · exact ⟨true, false, 0, hcb, fun _ => rfl⟩

theorem expNodeL_congr {s s' : St} {ℓ : Nat} {q : List Grp} {j : Nat} {G : Grp} (lnk : Nat)
    (h1 : published s' G = published s G)
    (h3 : ∀ Pg p, 0 < j → q[j - 1]? = some Pg → grpW W s' ℓ Pg p = grpW W s ℓ Pg p) :
    expNodeL W s' ℓ q j G lnk = expNodeL W s ℓ q j G lnk := by
  unfold expNodeL
  rw [h1]
  by_cases hj : j = 0
  · simp [hj]
  · simp only [hj, ↓reduceIte]
    cases hp : q[j - 1]? with
    | none => rfl
    | some Pg => simp only [h3 Pg _ (Nat.pos_of_ne_zero hj) hp]

theorem case_xLink (hW : WordSpecs P.C pb cb W) (hI : Inv W P pb cb s Q) (hi : s.agents[i]? = some a)
    (m : Mode) (hloc : a.loc = .xLink m) (nw : Word) (hnwv : nw = nodeW s (ptrOf P a.cur) + ofNode a.qnode) :
    Inv W P pb cb (setAgent (wr s (.node (ptrOf P a.cur)) nw) i { a with loc := .xSpin m }) Q := by
  have hwf := hI.wf a (List.mem_of_getElem? hi)
  have hL := hI.locks a.lk hwf.2.1
  have hlive0 : a.loc.headMode.isSome := by rw [hloc]; rfl
  obtain ⟨j, G, hj, hh, hn, hho⟩ := head_group (W := W) hI hi hlive0
  simp only [HeadOK, hloc] at hho
  obtain ⟨hjpos, Pg, hPg, hptr⟩ := hho
  rw [hptr] at hnwv ⊢
  have hGm := mem_of_idx hj
  have hPm := mem_of_idx hPg
  have hPlive := hI.grpLive a.lk Pg hPm
  have hhm' : (Loc.xSpin m).headMode = a.loc.headMode := by rw [hloc]; rfl
  have hsm' : (Loc.xSpin m).sMem = a.loc.sMem := by rw [hloc]; rfl
  have hag : (setAgent (wr s (.node Pg.node) nw) i { a with loc := .xSpin m }).agents
      = s.agents.set i { a with loc := .xSpin m } := by simp [wr_node_agents]
  have honly : ∀ j' G', (Q a.lk)[j']? = some G' → G'.head = some i → j' = j ∧ G' = G :=
    fun j' G' h1 h2 => head_unique hI hi hlive0 h1 h2 hj hh
  have hjj : j - 1 + 1 = j := by omega
  -- the group was not linked
  have hunl : linked s G = false := by rw [linked_old hi G hh, hloc]; rfl
  have hlnk' : linked (setAgent (wr s (.node Pg.node) nw) i
      { a with loc := .xSpin m }) G = true := by rw [linked_eq' hi hag G hh]; rfl
  have hgk : ∀ G' p, grpW W (setAgent (wr s (.node Pg.node) nw) i
      { a with loc := .xSpin m }) a.lk G' p = grpW W s a.lk G' p :=
    fun G' p => grpW_keep hi hag hhm' rfl rfl hsm' a.lk G' p
  have hpubk : ∀ G', published (setAgent (wr s (.node Pg.node) nw) i
      { a with loc := .xSpin m }) G' = published s G' := by
    intro G'
    by_cases hh' : G'.head = some i
    · rw [published_eq' hi hag G' hh', published_old hi G' hh', hloc]; rfl
    · exact published_ne hag G' hh'
  apply inv_same_q hI hi (.node Pg.node) _ { a with loc := .xSpin m } (Or.inr ⟨Pg, hPm, rfl⟩) rfl hwf.1
    (by simp [hloc, Loc.priv]) rfl (by simp) (by rw [hhm']; exact hwf.2.2.2)
  apply lockInv_same hL hi hag
  · constructor
    · intro G' _ h; rw [hmode_keep hi hag hhm']; exact h
    · intro G' _ h
      by_cases hh' : G'.head = some i
      · rw [(honly _ G' (List.mem_iff_getElem?.mp ‹G' ∈ Q a.lk›).choose_spec hh').2]; exact hlnk'
      · rw [linked_ne hag G' hh']; exact h
  · intro j' Pg' G' _ _ _; exact hgk Pg' Pg'.node
  · rw [lockW_setAgent, lockW_wr_node, expLock_keep hi hag hhm' rfl rfl hsm']; exact hL.lockWord
  · intro j' G' hj'
    rw [nodeW_setAgent, nodeW_wr_node s Pg.node G'.node _ hPlive (hI.node_pos (mem_of_idx hj'))]
    by_cases hnode : G'.node = Pg.node
    · obtain ⟨rfl, rfl⟩ := idx_unique hL.nodup hj' hPg hnode
      simp only [↓reduceIte]
      have hold := hL.nodeWord (j - 1) G' hj'
      rw [expNode_eq_L] at hold
      have hl0 : linkOf s (Q a.lk) (j - 1) = 0 := by
        unfold linkOf; rw [hjj, hj]; simp [hunl]
      rw [hl0] at hold
      obtain ⟨x, six, c, hc, hshape⟩ := expNodeL_shape (W := W) hW hI a.lk (j - 1) G'
      conv => lhs; rw [hnwv, hold, hshape 0, hW.link a.qnode x six c (by rw [← hn]; exact hI.node_lt hGm) hc]
      rw [expNode_eq_L]
      have hl1 : linkOf (setAgent (wr s (.node G'.node) nw) i
          { a with loc := .xSpin m }) (Q a.lk) (j - 1) = G.node := by
        unfold linkOf; rw [hjj, hj]; simp [hlnk']
      rw [hl1, expNodeL_congr _ (hpubk G') (fun Pg' p _ _ => hgk Pg' p), hshape, hn]
    · simp only [hnode, ↓reduceIte]
      rw [hL.nodeWord j' G' hj']
      symm
      apply expNode_congr (hpubk G')
      · apply linkOf_eq_of
        intro Gs hGs
        by_cases hhs : Gs.head = some i
        · exfalso
          obtain ⟨hjs, rfl⟩ := honly (j' + 1) Gs hGs hhs
          have : j' = j - 1 := by omega
          subst this
          rw [hPg] at hj'; cases hj'
          exact hnode rfl
        · exact linked_ne hag Gs hhs
      · intro Pg' p _ _; exact hgk Pg' p
  · intro G' hG'; rw [hmode_keep hi hag hhm', cnt_keep hi hag rfl rfl hsm']; exact hL.nonempty G' hG'
  · intro j' G' hj' h0; rw [hmode_keep hi hag hhm']; exact hL.laterHeads j' G' hj' h0
  · intro _ j' G' hj' hh'
    obtain ⟨rfl, rfl⟩ := honly j' G' hj' hh'
    exact ⟨rfl, hn.symm, by simp [HeadOK]⟩
  · intro G' _ _; exact ⟨rfl, Or.inl (by rw [hhm']; exact hlive0)⟩
  · intro _ _; exact ⟨G, hGm, hh⟩
  · intro _ h; simp [Loc.sMem] at h

end CppUtil.Mcs
