/-
  MCSLock proof, frame lemmas: the abstract view (`cnt`, `hmode`, `published`, `linked`, expected words)
  depends on the agents only through a small record of attributes; a step that keeps every agent's
  attributes keeps the whole view.  Plus accessors for `setAgent`, `wr`, `touch`.
-/
import CppUtil.Proofs.McsInv

namespace CppUtil.Mcs
open CppUtil

theorem getElem?_lt' {α} {l : List α} {i : Nat} {a : α} (h : l[i]? = some a) : i < l.length := by
  rcases Nat.lt_or_ge i l.length with h' | h'
  · exact h'
  · rw [List.getElem?_eq_none h'] at h; cases h

/-! ### attributes -/

def Loc.isPub : Loc → Bool
  | .xPublish _ => true
  | _ => false

def Loc.isLink : Loc → Bool
  | .xLink _ => true
  | _ => false

structure Abs where
  lk : Nat
  qnode : Nat
  hm : Option Mode
  sm : Bool
  pub : Bool
  lnk : Bool
  deriving DecidableEq, Repr

def Agent.abs (a : Agent) : Abs :=
  { lk := a.lk, qnode := a.qnode, hm := a.loc.headMode, sm := a.loc.sMem, pub := a.loc.isPub, lnk := a.loc.isLink }

def absList (s : St) : List Abs := s.agents.map Agent.abs

theorem isMem_abs (ℓ nd : Nat) (a : Agent) :
    isMem ℓ nd a = (decide (a.abs.lk = ℓ) && decide (a.abs.qnode = nd) && a.abs.sm) := rfl

theorem cnt_eq_abs (s : St) (ℓ nd : Nat) :
    cnt s ℓ nd = (absList s).countP (fun b => decide (b.lk = ℓ) && decide (b.qnode = nd) && b.sm) := by
  unfold cnt absList
  rw [List.countP_map]
  rfl

theorem headLoc_abs (s : St) (G : Grp) :
    (headLoc s G).map (fun l => (l.headMode, l.isPub, l.isLink)) =
      match G.head with
      | some h => ((absList s)[h]?).map (fun b => (b.hm, b.pub, b.lnk))
      | none => none := by
  unfold headLoc absList
  cases G.head with
  | none => rfl
  | some h =>
    simp only [List.getElem?_map, Option.map_map]
    rfl

theorem published_eq (s : St) (G : Grp) :
    published s G = !(((headLoc s G).map Loc.isPub).getD false) := by
  unfold published
  cases h : headLoc s G with
  | none => rfl
  | some l => cases l <;> rfl

theorem linked_eq (s : St) (G : Grp) :
    linked s G = !(((headLoc s G).map (fun l => l.isPub || l.isLink)).getD false) := by
  unfold linked
  cases h : headLoc s G with
  | none => rfl
  | some l => cases l <;> rfl

/-- two states with the same attribute lists have the same abstract view -/
structure SameAbs (s s' : St) : Prop where
  abs : absList s' = absList s

theorem SameAbs.headLoc3 {s s' : St} (h : SameAbs s s') (G : Grp) :
    (headLoc s' G).map (fun l => (l.headMode, l.isPub, l.isLink)) =
    (headLoc s G).map (fun l => (l.headMode, l.isPub, l.isLink)) := by
  rw [headLoc_abs, headLoc_abs, h.abs]

theorem SameAbs.cnt {s s' : St} (h : SameAbs s s') (ℓ nd : Nat) : cnt s' ℓ nd = cnt s ℓ nd := by
  rw [cnt_eq_abs, cnt_eq_abs, h.abs]

theorem SameAbs.hmode {s s' : St} (h : SameAbs s s') (G : Grp) : hmode s' G = hmode s G := by
  have := h.headLoc3 G
  unfold Mcs.hmode
  cases h1 : headLoc s' G <;> cases h2 : headLoc s G <;> simp_all

theorem SameAbs.published {s s' : St} (h : SameAbs s s') (G : Grp) : published s' G = published s G := by
  have := h.headLoc3 G
  rw [published_eq, published_eq]
  cases h1 : headLoc s' G <;> cases h2 : headLoc s G <;> simp_all

theorem SameAbs.linked {s s' : St} (h : SameAbs s s') (G : Grp) : linked s' G = linked s G := by
  have := h.headLoc3 G
  rw [linked_eq, linked_eq]
  cases h1 : headLoc s' G <;> cases h2 : headLoc s G <;> simp_all

section
variable (W : Nat → Bool → Bool → Nat → Word)

theorem SameAbs.grpW {s s' : St} (h : SameAbs s s') (ℓ : Nat) (G : Grp) (p : Nat) :
    grpW W s' ℓ G p = grpW W s ℓ G p := by
  unfold Mcs.grpW; rw [h.hmode, h.cnt]

theorem SameAbs.expLock {s s' : St} (h : SameAbs s s') (ℓ : Nat) (q : List Grp) :
    expLock W s' ℓ q = expLock W s ℓ q := by
  unfold Mcs.expLock
  cases q.getLast? with
  | none => rfl
  | some G => exact h.grpW W ℓ G G.node

theorem SameAbs.linkOf {s s' : St} (h : SameAbs s s') (q : List Grp) (j : Nat) :
    linkOf s' q j = linkOf s q j := by
  unfold Mcs.linkOf
  cases q[j + 1]? with
  | none => rfl
  | some G' => simp only [h.linked]

theorem SameAbs.expNode {s s' : St} (h : SameAbs s s') (ℓ : Nat) (q : List Grp) (j : Nat) (G : Grp) :
    expNode W s' ℓ q j G = expNode W s ℓ q j G := by
  unfold Mcs.expNode
  rw [h.published, h.linkOf]
  cases q[j - 1]? with
  | none => rfl
  | some Pg => simp only [h.grpW W]
end

/-! ### accessors -/

@[simp] theorem setAgent_agents (s : St) (i : Nat) (a : Agent) : (setAgent s i a).agents = s.agents.set i a := rfl
@[simp] theorem setAgent_locks (s : St) (i : Nat) (a : Agent) : (setAgent s i a).locks = s.locks := rfl
@[simp] theorem setAgent_nodes (s : St) (i : Nat) (a : Agent) : (setAgent s i a).nodes = s.nodes := rfl
@[simp] theorem setAgent_tls (s : St) (i : Nat) (a : Agent) : (setAgent s i a).tls = s.tls := rfl
@[simp] theorem setAgent_uaf (s : St) (i : Nat) (a : Agent) : (setAgent s i a).uaf = s.uaf := rfl

theorem lockW_setAgent (s : St) (i : Nat) (a : Agent) (ℓ : Nat) : lockW (setAgent s i a) ℓ = lockW s ℓ := rfl
theorem nodeW_setAgent (s : St) (i : Nat) (a : Agent) (k : Nat) : nodeW (setAgent s i a) k = nodeW s k := rfl
theorem nodeLive_setAgent (s : St) (i : Nat) (a : Agent) (k : Nat) : nodeLive (setAgent s i a) k = nodeLive s k := rfl

theorem agent_set_eq (s : St) (i : Nat) (a a' : Agent) (h : s.agents[i]? = some a) :
    (setAgent s i a').agents[i]? = some a' := by
  have := getElem?_lt' h
  simp [List.getElem?_set, this]

theorem agent_set_ne (s : St) (i j : Nat) (a' : Agent) (h : j ≠ i) :
    (setAgent s i a').agents[j]? = s.agents[j]? := by
  simp [List.getElem?_set, Ne.symm h]

theorem agent_set_cases (s : St) (i j : Nat) (a a' b : Agent) (h : s.agents[i]? = some a)
    (hb : (setAgent s i a').agents[j]? = some b) : (j = i ∧ b = a') ∨ (j ≠ i ∧ s.agents[j]? = some b) := by
  by_cases hj : j = i
  · subst hj
    rw [agent_set_eq s j a a' h] at hb
    exact Or.inl ⟨rfl, (Option.some.inj hb).symm⟩
  · rw [agent_set_ne s i j a' hj] at hb
    exact Or.inr ⟨hj, hb⟩

/-- replacing an agent by one with the same attributes keeps the attribute list -/
theorem sameAbs_setAgent (s : St) (i : Nat) (a a' : Agent) (h : s.agents[i]? = some a) (ha : a'.abs = a.abs) :
    SameAbs s (setAgent s i a') := by
  constructor
  unfold absList
  simp only [setAgent_agents, List.map_set, ha]
  have hi := getElem?_lt' h
  have : (s.agents.map Agent.abs)[i]? = some a.abs := by simp [List.getElem?_map, h]
  apply List.ext_getElem?
  intro k
  by_cases hk : k = i
  · subst hk
    have hget : s.agents[k] = a := by
      have := List.getElem?_eq_getElem hi
      rw [this] at h; exact Option.some.inj h
    simp [hi, hget]
  · simp [List.getElem?_set, Ne.symm hk]

theorem touch_live (s : St) (k : Nat) (h : nodeLive s k = true) : touch s (.node k) = s := by
  simp [touch, h]

theorem touch_lock (s : St) (k : Nat) : touch s (.lock k) = s := rfl

end CppUtil.Mcs
