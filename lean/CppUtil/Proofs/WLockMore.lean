/-
  Further consequences of the word-lock invariant: version discipline (C09), conversions
  (C10), progress facts (C02), optimistic validation (C03), PrepareRead (C13).
-/
import CppUtil.Proofs.WLockStep

namespace CppUtil.WLock
open CppUtil

variable {P : WParams} {D : Decoder}

/-- the action ends an exclusive grant; the value is the `new_ver_` it publishes -/
def isXEnd (s : St) : Act → Option (BitVec 32)
  | .release i nv => match s.agents[i]? with | some (.held .X _) => some nv | _ => none
  | .downgrade i nv => match s.agents[i]? with | some (.held .X _) => some nv | _ => none
  | _ => none

/-- atomic steps of acquisitions / readers never change the version field -/
theorem ver_atom (hS : Specs P D) {s s' : St} {i : Nat} {loc : Loc} {ov : Option Word} {sp : Bool} {e : Ev}
    (hI : Inv P D s) (hi : s.agents[i]? = some loc) (hcap : s.agents.length < D.cap)
    (h : atomStep P s i loc ov sp = some (s', e)) : (D.dec s'.w).ver = (D.dec s.w).ver := by
  have hok := locOK_of_mem hI hi
  cases loc with
  | idle => simp [atomStep] at h
  | held m seen => simp [atomStep] at h
  | done r => simp [atomStep] at h
  | acqLoad m =>
    simp only [atomStep] at h
    split at h <;> (simp only [Option.some.injEq, Prod.mk.injEq] at h; rw [← h.1]) <;> rfl
  | acqCas m seen =>
    simp only [atomStep] at h
    split at h
    · rename_i hc
      obtain ⟨hw, _⟩ := hc
      simp only [Option.some.injEq, Prod.mk.injEq] at h
      rw [← h.1]
      have hroom := s_room hI hi rfl hcap
      simp only [LocOK] at hok
      subst hw
      cases m with
      | S => show (D.dec (P.lockUpd .S s.w)).ver = _; rw [hS.uS _ hroom]
      | SIX => show (D.dec (P.lockUpd .SIX s.w)).ver = _; rw [hS.uSIX _ (hS.gSIX _ hok).2]
      | X => show (D.dec (P.lockUpd .X s.w)).ver = _; rw [hS.uX _ (hS.gX _ hok).1]
    · simp only [Option.some.injEq, Prod.mk.injEq] at h
      rw [← h.1]; rfl
  | upgLoad =>
    simp only [atomStep] at h
    split at h <;> (simp only [Option.some.injEq, Prod.mk.injEq] at h; rw [← h.1]) <;> rfl
  | upgCas seen =>
    simp only [atomStep] at h
    split at h
    · rename_i hc
      obtain ⟨hw, _⟩ := hc
      simp only [Option.some.injEq, Prod.mk.injEq] at h
      rw [← h.1]
      simp only [LocOK] at hok
      subst hw
      have hf := fields_of_grant hI hi (m := .SIX) rfl
      show (D.dec (P.upgUpd s.w)).ver = _
      rw [hS.upgU _ hok hf.2 hf.1]
    · simp only [Option.some.injEq, Prod.mk.injEq] at h
      rw [← h.1]; rfl
  | tryLoad m ver =>
    simp only [atomStep] at h
    split at h
    · split at h <;> (simp only [Option.some.injEq, Prod.mk.injEq] at h; rw [← h.1]) <;> rfl
    · simp only [Option.some.injEq, Prod.mk.injEq] at h
      rw [← h.1]
  | tryCas m ver seen =>
    simp only [atomStep] at h
    split at h
    · rename_i hc
      obtain ⟨hw, _⟩ := hc
      simp only [Option.some.injEq, Prod.mk.injEq] at h
      rw [← h.1]
      have hroom := s_room hI hi rfl hcap
      simp only [LocOK] at hok
      have hok := hok.1
      subst hw
      cases m with
      | S => show (D.dec (P.tryUpd .S s.w)).ver = _; rw [hS.tuS _ hroom]
      | SIX => show (D.dec (P.tryUpd .SIX s.w)).ver = _; rw [hS.tuSIX _ (hS.tgSIX _ hok).2]
      | X => show (D.dec (P.tryUpd .X s.w)).ver = _; rw [hS.tuX _ (hS.tgX _ hok).1]
    · simp only [Option.some.injEq, Prod.mk.injEq] at h
      rw [← h.1]; rfl
  | prep1 k =>
    simp only [atomStep] at h
    split at h
    · simp only [Option.some.injEq, Prod.mk.injEq] at h; rw [← h.1]; rfl
    · split at h <;> (simp only [Option.some.injEq, Prod.mk.injEq] at h; rw [← h.1]) <;> rfl
  | prep2 =>
    simp only [atomStep] at h
    split at h
    · split at h <;> (simp only [Option.some.injEq, Prod.mk.injEq] at h; rw [← h.1]) <;> rfl
    · simp only [Option.some.injEq, Prod.mk.injEq] at h; rw [← h.1]
  | prepCas seen =>
    simp only [atomStep] at h
    split at h
    · rename_i hc
      obtain ⟨hw, _⟩ := hc
      simp only [Option.some.injEq, Prod.mk.injEq] at h
      rw [← h.1]
      have hroom := s_room hI hi rfl hcap
      subst hw
      show (D.dec (P.prepUpd s.w)).ver = _
      rw [hS.pU _ hroom]
    · simp only [Option.some.injEq, Prod.mk.injEq] at h
      rw [← h.1]; rfl
  | gvLoad =>
    simp only [atomStep] at h
    split at h <;> (simp only [Option.some.injEq, Prod.mk.injEq] at h; rw [← h.1]) <;> rfl
  | vfFence c =>
    simp only [atomStep, Option.some.injEq, Prod.mk.injEq] at h
    rw [← h.1]; rfl
  | vfLoad c =>
    simp only [atomStep] at h
    split at h <;> (simp only [Option.some.injEq, Prod.mk.injEq] at h; rw [← h.1]) <;> rfl

/-- **C09 core**: the version field changes only in a step that ends an exclusive grant, and then
    becomes the published `new_ver_`. -/
theorem ver_step (hS : Specs P D) {s s' : St} {a : Act} {e : Option Ev}
    (hI : Inv P D s) (hcap : s.agents.length < D.cap) (h : step P s a = some (s', e)) :
    (D.dec s'.w).ver = (match isXEnd s a with | some nv => D.verIn nv | none => (D.dec s.w).ver) := by
  cases a with
  | spawn =>
    simp only [step, Option.some.injEq, Prod.mk.injEq] at h
    rw [← h.1]; rfl
  | start i r =>
    simp only [step] at h
    split at h
    · simp only [Option.some.injEq, Prod.mk.injEq] at h
      rw [← h.1]; rfl
    · cases h
  | atom i ov sp =>
    simp only [step] at h
    split at h
    · rename_i loc hi
      cases hh : atomStep P s i loc ov sp with
      | none => rw [hh] at h; simp at h
      | some r =>
        rw [hh] at h
        simp only [Option.map_some, Option.some.injEq, Prod.mk.injEq] at h
        obtain ⟨s1, e1⟩ := r
        simp only at h
        rw [← h.1]
        exact ver_atom hS hI hi hcap hh
    · cases h
  | release i nv =>
    simp only [step] at h
    split at h
    · rename_i loc hi
      cases hh : releaseStep P s i loc nv with
      | none => rw [hh] at h; simp at h
      | some r =>
        rw [hh] at h
        simp only [Option.map_some, Option.some.injEq, Prod.mk.injEq] at h
        obtain ⟨s1, e1⟩ := r
        simp only at h
        rw [← h.1]
        cases loc with
        | held m seen =>
          have hf := fields_of_grant hI hi (m := m) rfl
          cases m with
          | S =>
            simp only [releaseStep, Option.some.injEq, Prod.mk.injEq] at hh
            rw [← hh.1]
            have hlt : (D.dec s.w).s < D.cap := by
              have := hI.cs; have := cnt_le_length s .S; omega
            simp only [isXEnd, hi]
            show (D.dec (s.w - P.relSArg)).ver = _
            rw [hS.rS _ hf.1 hlt]
          | SIX =>
            simp only [releaseStep, Option.some.injEq, Prod.mk.injEq] at hh
            rw [← hh.1]
            simp only [isXEnd, hi]
            show (D.dec (s.w ^^^ P.relSIXArg)).ver = _
            rw [hS.rSIX _ hf.1]
          | X =>
            simp only [releaseStep, Option.some.injEq, Prod.mk.injEq] at hh
            rw [← hh.1]
            simp only [isXEnd, hi]
            show (D.dec (P.relXVal nv)).ver = _
            rw [hS.rX nv]
        | _ => simp [releaseStep] at hh
    · cases h
  | downgrade i nv =>
    simp only [step] at h
    split at h
    · rename_i loc hi
      cases hh : downgradeStep P s i loc nv with
      | none => rw [hh] at h; simp at h
      | some r =>
        rw [hh] at h
        simp only [Option.map_some, Option.some.injEq, Prod.mk.injEq] at h
        obtain ⟨s1, e1⟩ := r
        simp only at h
        rw [← h.1]
        cases loc with
        | held m seen =>
          cases m with
          | X =>
            simp only [downgradeStep, Option.some.injEq, Prod.mk.injEq] at hh
            rw [← hh.1]
            simp only [isXEnd, hi]
            show (D.dec (P.dngVal nv)).ver = _
            rw [hS.dng nv]
          | _ => simp [downgradeStep] at hh
        | _ => simp [downgradeStep] at hh
    · cases h
  | upgrade i =>
    simp only [step] at h
    split at h
    · simp only [Option.some.injEq, Prod.mk.injEq] at h
      rw [← h.1]; rfl
    · cases h


/-! ### conversions (C10) -/

/-- grant of agent `i` in state `s` -/
def grantOf (s : St) (i : Nat) : Option Mode := (s.agents[i]?).bind Loc.grant?

theorem getElem?_setLoc_ne {s : St} {i j : Nat} {l : Loc} (h : i ≠ j) :
    (setLoc s i l).agents[j]? = s.agents[j]? := by
  simp only [setLoc]; exact List.getElem?_set_ne h

theorem getElem?_setLoc_self {s : St} {i : Nat} {l l0 : Loc} (h : s.agents[i]? = some l0) :
    (setLoc s i l).agents[i]? = some l := by
  simp only [setLoc]; exact List.getElem?_set_self (getElem?_lt h)

/-- an atomic step of agent `i` only changes agent `i` -/
theorem atom_other {s s' : St} {i j : Nat} {loc : Loc} {ov : Option Word} {sp : Bool} {e : Ev}
    (h : atomStep P s i loc ov sp = some (s', e)) (hij : i ≠ j) : s'.agents[j]? = s.agents[j]? := by
  cases loc <;> simp only [atomStep] at h <;>
    (repeat' split at h) <;>
    simp only [Option.some.injEq, Prod.mk.injEq, reduceCtorEq] at h <;>
    (try rw [← h.1]) <;> (try exact getElem?_setLoc_ne hij)

theorem release_agents {s s' : St} {j : Nat} {loc : Loc} {nv : BitVec 32} {e : Ev}
    (h : releaseStep P s j loc nv = some (s', e)) : s'.agents = (setLoc s j (.done 0)).agents := by
  cases loc <;> simp only [releaseStep] at h <;> (repeat' split at h) <;>
    simp only [Option.some.injEq, Prod.mk.injEq, reduceCtorEq] at h <;> (rw [← h.1])

theorem downgrade_agents {s s' : St} {j : Nat} {loc : Loc} {nv : BitVec 32} {e : Ev}
    (h : downgradeStep P s j loc nv = some (s', e)) :
    ∃ seen, loc = .held .X seen ∧ s'.agents = (setLoc s j (.held .SIX seen)).agents := by
  cases loc <;> simp only [downgradeStep] at h <;> (repeat' split at h) <;>
    simp only [Option.some.injEq, Prod.mk.injEq, reduceCtorEq] at h
  rename_i m seen _ seen' heq
  cases heq
  exact ⟨_, rfl, by rw [← h.1]⟩

/-- **C10, no gap**: once granted, an agent stays granted until its own `release`: conversions
    (upgrade waiting loop, the flip, downgrade) never pass through an ungranted state. -/
theorem grant_continuous {s s' : St} {a : Act} {e : Option Ev} {i : Nat} {m : Mode}
    (hg : grantOf s i = some m) (h : step P s a = some (s', e)) :
    (∃ nv, a = .release i nv) ∨ (grantOf s' i).isSome = true := by
  unfold grantOf at *
  cases hi : s.agents[i]? with
  | none => rw [hi] at hg; simp at hg
  | some li =>
    rw [hi] at hg; simp only [Option.bind_some] at hg
    cases a with
    | spawn =>
      simp only [step, Option.some.injEq, Prod.mk.injEq] at h
      right; rw [← h.1]
      have : (s.agents ++ [Loc.idle])[i]? = some li := by
        rw [List.getElem?_append_left (getElem?_lt hi)]; exact hi
      simp [this, hg]
    | start j r =>
      simp only [step] at h
      split at h
      · rename_i hj
        simp only [Option.some.injEq, Prod.mk.injEq] at h
        right; rw [← h.1]
        by_cases hji : j = i
        · subst hji; rw [hi] at hj; cases hj; simp [Loc.grant?] at hg
        · rw [getElem?_setLoc_ne hji, hi]; simp [hg]
      · cases h
    | atom j ov sp =>
      simp only [step] at h
      split at h
      · rename_i loc hj
        cases hh : atomStep P s j loc ov sp with
        | none => rw [hh] at h; simp at h
        | some r =>
          rw [hh] at h
          simp only [Option.map_some, Option.some.injEq, Prod.mk.injEq] at h
          obtain ⟨s1, e1⟩ := r
          simp only at h
          right; rw [← h.1]
          by_cases hji : j = i
          · subst hji
            rw [hi] at hj; cases hj
            cases li with
            | held m' seen => simp [atomStep] at hh
            | upgLoad =>
              simp only [atomStep] at hh
              split at hh <;> (simp only [Option.some.injEq, Prod.mk.injEq] at hh; rw [← hh.1])
              · rw [getElem?_setLoc_self hi]; rfl
              · rw [hi]; rfl
            | upgCas seen =>
              simp only [atomStep] at hh
              split at hh <;> (simp only [Option.some.injEq, Prod.mk.injEq] at hh; rw [← hh.1])
              · show ((setLoc s j (Loc.held Mode.X seen)).agents[j]?.bind Loc.grant?).isSome = true
                rw [getElem?_setLoc_self hi]; rfl
              · rw [getElem?_setLoc_self hi]; rfl
            | _ => simp [Loc.grant?] at hg
          · rw [atom_other hh hji, hi]; simp [hg]
      · cases h
    | release j nv =>
      by_cases hji : j = i
      · left; exact ⟨nv, by rw [hji]⟩
      · right
        simp only [step] at h
        split at h
        · rename_i loc hj
          cases hh : releaseStep P s j loc nv with
          | none => rw [hh] at h; simp at h
          | some r =>
            rw [hh] at h
            simp only [Option.map_some, Option.some.injEq, Prod.mk.injEq] at h
            obtain ⟨s1, e1⟩ := r
            simp only at h
            rw [← h.1, release_agents hh, getElem?_setLoc_ne hji, hi]
            simp [hg]
        · cases h
    | downgrade j nv =>
      right
      simp only [step] at h
      split at h
      · rename_i loc hj
        cases hh : downgradeStep P s j loc nv with
        | none => rw [hh] at h; simp at h
        | some r =>
          rw [hh] at h
          simp only [Option.map_some, Option.some.injEq, Prod.mk.injEq] at h
          obtain ⟨s1, e1⟩ := r
          simp only at h
          obtain ⟨seen, hloc, hag⟩ := downgrade_agents hh
          rw [← h.1, hag]
          by_cases hji : j = i
          · subst hji; rw [getElem?_setLoc_self hj]; rfl
          · rw [getElem?_setLoc_ne hji, hi]; simp [hg]
      · cases h
    | upgrade j =>
      right
      simp only [step] at h
      split at h
      · rename_i seen hj
        simp only [Option.some.injEq, Prod.mk.injEq] at h
        rw [← h.1]
        by_cases hji : j = i
        · subst hji; rw [getElem?_setLoc_self hj]; rfl
        · rw [getElem?_setLoc_ne hji, hi]; simp [hg]
      · cases h

/-- **C10, upgrade waits for readers**: the step in which an upgrade is granted starts in a state
    without any shared holder, and leaves the upgrader as the only SIX/X holder. -/
theorem upgrade_grants_alone (hS : Specs P D) {s s' : St} {i : Nat} {seen seen' : Word}
    {ov : Option Word} {sp : Bool} {e : Ev}
    (hI : Inv P D s) (hi : s.agents[i]? = some (.upgCas seen)) (hcap : s.agents.length < D.cap)
    (h : atomStep P s i (.upgCas seen) ov sp = some (s', e))
    (hgr : s'.agents[i]? = some (.held .X seen')) :
    cnt s .S = 0 ∧ cnt s' .S = 0 ∧ cnt s' .SIX = 0 ∧ cnt s' .X = 1 := by
  have hok := locOK_of_mem hI hi
  have hI' := inv_atom hS hI hi hcap h
  simp only [atomStep] at h
  split at h
  · rename_i hc
    obtain ⟨hw, _⟩ := hc
    simp only [LocOK] at hok
    subst hw
    have h0 := hS.upgG _ hok
    have hf := fields_of_grant hI' hgr (m := .X) rfl
    refine ⟨by have := hI.cs; omega, by have := hI'.cs; omega, ?_, ?_⟩
    · have := hI'.csix; rw [hf.2.1] at this; simpa using this
    · have := hI'.cx; rw [hf.1] at this; simpa using this
  · simp only [Option.some.injEq, Prod.mk.injEq] at h
    rw [← h.1, getElem?_setLoc_self hi] at hgr
    cases hgr

/-! ### progress facts (C02) -/

theorem exists_holder_of_cnt_pos {s : St} {m : Mode} (h : 0 < cnt s m) :
    ∃ j : Nat, ∃ l : Loc, s.agents[j]? = some l ∧ l.grant? = some m := by
  unfold cnt at h
  obtain ⟨l, hl, hp⟩ := List.countP_pos_iff.mp h
  obtain ⟨j, hj, hjl⟩ := List.getElem_of_mem hl
  exact ⟨j, l, by rw [List.getElem?_eq_getElem hj, hjl], by simpa using hp⟩

/-- **C02, waiting is justified**: a blocking `Lock*` whose admission test fails on the *current*
    word is waiting for a live conflicting grant — never for a release that already happened. -/
theorem blocked_lock_has_conflicting_holder (hS : Specs P D) {s : St} (hI : Inv P D s) (m : Mode)
    (hb : P.lockGuard m s.w = false) :
    ∃ j : Nat, ∃ l : Loc, ∃ mj, s.agents[j]? = some l ∧ l.grant? = some mj ∧ conflict m mj = true := by
  have hx : (D.dec s.w).x = true → ∃ j : Nat, ∃ l : Loc, s.agents[j]? = some l ∧ l.grant? = some Mode.X := by
    intro h; apply exists_holder_of_cnt_pos; have := hI.cx; rw [h] at this; simp at this; omega
  have hsix : (D.dec s.w).six = true → ∃ j : Nat, ∃ l : Loc, s.agents[j]? = some l ∧ l.grant? = some Mode.SIX := by
    intro h; apply exists_holder_of_cnt_pos; have := hI.csix; rw [h] at this; simp at this; omega
  have hs : (D.dec s.w).s ≠ 0 → ∃ j : Nat, ∃ l : Loc, s.agents[j]? = some l ∧ l.grant? = some Mode.S := by
    intro h; apply exists_holder_of_cnt_pos; have := hI.cs; omega
  cases m with
  | S =>
    cases hxx : (D.dec s.w).x with
    | false => rw [hS.gS_c _ hxx] at hb; cases hb
    | true => obtain ⟨j, l, h1, h2⟩ := hx hxx; exact ⟨j, l, .X, h1, h2, rfl⟩
  | SIX =>
    cases hxx : (D.dec s.w).x with
    | true => obtain ⟨j, l, h1, h2⟩ := hx hxx; exact ⟨j, l, .X, h1, h2, rfl⟩
    | false =>
      cases hss : (D.dec s.w).six with
      | true => obtain ⟨j, l, h1, h2⟩ := hsix hss; exact ⟨j, l, .SIX, h1, h2, rfl⟩
      | false => rw [hS.gSIX_c _ hxx hss] at hb; cases hb
  | X =>
    cases hxx : (D.dec s.w).x with
    | true => obtain ⟨j, l, h1, h2⟩ := hx hxx; exact ⟨j, l, .X, h1, h2, rfl⟩
    | false =>
      cases hss : (D.dec s.w).six with
      | true => obtain ⟨j, l, h1, h2⟩ := hsix hss; exact ⟨j, l, .SIX, h1, h2, rfl⟩
      | false =>
        by_cases h0 : (D.dec s.w).s = 0
        · rw [hS.gX_c _ hxx hss h0] at hb; cases hb
        · obtain ⟨j, l, h1, h2⟩ := hs h0; exact ⟨j, l, .S, h1, h2, rfl⟩

/-- an upgrade that cannot proceed on the current word is waiting for a live shared holder -/
theorem blocked_upgrade_has_reader (hS : Specs P D) {s : St} {i : Nat} {l : Loc} (hI : Inv P D s)
    (hi : s.agents[i]? = some l) (hl : l.grant? = some .SIX) (hb : P.upgGuard s.w = false) :
    ∃ j : Nat, ∃ l' : Loc, s.agents[j]? = some l' ∧ l'.grant? = some Mode.S := by
  have hf := fields_of_grant hI hi hl
  by_cases h0 : (D.dec s.w).s = 0
  · rw [hS.upgG_c _ hf.2 hf.1 h0] at hb; cases hb
  · apply exists_holder_of_cnt_pos; have := hI.cs; omega

/-- a version reader (GetVersion / VerifyVersion / PrepareRead) that has to wait is waiting for a live X holder -/
theorem blocked_reader_has_writer (hS : Specs P D) {s : St} (hI : Inv P D s) (hb : P.noX s.w = false) :
    ∃ j : Nat, ∃ l : Loc, s.agents[j]? = some l ∧ l.grant? = some Mode.X := by
  cases hxx : (D.dec s.w).x with
  | false => rw [(hS.noX_iff _).mpr hxx] at hb; cases hb
  | true => apply exists_holder_of_cnt_pos; have := hI.cx; rw [hxx] at this; simp at this; omega

/-- **C02, solo progress**: when the admission test holds on the current word, the request is granted
    by its next two steps if nobody interferes (no spurious failure). -/
theorem solo_acquire {s : St} {i : Nat} {m : Mode} (hi : s.agents[i]? = some (.acqLoad m))
    (hg : P.lockGuard m s.w = true) :
    ∃ s2, run P s [.atom i none false, .atom i none false] = some s2 ∧
      s2.agents[i]? = some (.held m s.w) := by
  have h1 : step P s (.atom i none false) =
      some (setLoc s i (.acqCas m s.w), some { op := .load, loc := "", mo := P.ord.lockLoad m, rd := s.w, wr := s.w }) := by
    simp [step, hi, atomStep, hg]
  have hi2 : (setLoc s i (.acqCas m s.w)).agents[i]? = some (.acqCas m s.w) := getElem?_setLoc_self hi
  have h2 : step P (setLoc s i (.acqCas m s.w)) (.atom i none false) =
      some ({ setLoc (setLoc s i (.acqCas m s.w)) i (.held m s.w) with w := P.lockUpd m s.w },
        some { op := .cas, loc := "", mo := P.ord.lockCasS m, moFail := P.ord.lockCasF m,
               rd := s.w, wr := P.lockUpd m s.w, ok := true }) := by
    have hw : (setLoc s i (Loc.acqCas m s.w)).w = s.w := rfl
    simp only [step, hi2, atomStep, hw, and_self, ite_true, Option.map_some]
  refine ⟨{ setLoc (setLoc s i (.acqCas m s.w)) i (.held m s.w) with w := P.lockUpd m s.w }, ?_, ?_⟩
  · simp only [run, h1, h2]
  · show (setLoc (setLoc s i (.acqCas m s.w)) i (.held m s.w)).agents[i]? = _
    exact getElem?_setLoc_self hi2

/-- **C02, quiescent ⇒ free**: with no live grant the word decodes to "no locks", so the admission
    test of a fresh exclusive request holds at once. -/
theorem quiescent_free (hS : Specs P D) {s : St} (hI : Inv P D s)
    (hq : ∀ l ∈ s.agents, l.grant? = none) :
    (D.dec s.w).x = false ∧ (D.dec s.w).six = false ∧ (D.dec s.w).s = 0 ∧ P.lockGuard .X s.w = true := by
  have hz : ∀ m, cnt s m = 0 := by
    intro m; unfold cnt
    apply List.countP_eq_zero.mpr
    intro l hl; simp [hq l hl]
  have hx : (D.dec s.w).x = false := by
    cases hb : (D.dec s.w).x with
    | false => rfl
    | true => have := hI.cx; rw [hb, hz] at this; simp at this
  have hsix : (D.dec s.w).six = false := by
    cases hb : (D.dec s.w).six with
    | false => rfl
    | true => have := hI.csix; rw [hb, hz] at this; simp at this
  have hs : (D.dec s.w).s = 0 := by have := hI.cs; rw [hz] at this; omega
  exact ⟨hx, hsix, hs, hS.gX_c _ hx hsix hs⟩

/-! ### optimistic validation (C03) and PrepareRead (C13) -/

/-- the decisive read of GetVersion / VerifyVersion / PrepareRead (agent moves to `done r`):
    `r` is the current word and carries no X bit -/
theorem reader_done {s s' : St} {i : Nat} {loc : Loc} {ov : Option Word} {sp : Bool} {e : Ev} {r : Word}
    (hloc : loc = .gvLoad ∨ (∃ c, loc = .vfLoad c) ∨ (∃ k, loc = .prep1 k) ∨ loc = .prep2)
    (hi : s.agents[i]? = some loc)
    (h : atomStep P s i loc ov sp = some (s', e)) (hd : s'.agents[i]? = some (.done r)) :
    r = s.w ∧ P.noX r = true := by
  rcases hloc with rfl | ⟨c, rfl⟩ | ⟨k, rfl⟩ | rfl <;> simp only [atomStep] at h
  · split at h
    · rename_i hx
      simp only [Option.some.injEq, Prod.mk.injEq] at h
      rw [← h.1, getElem?_setLoc_self hi] at hd
      cases hd; exact ⟨rfl, hx⟩
    · simp only [Option.some.injEq, Prod.mk.injEq] at h
      rw [← h.1, hi] at hd; cases hd
  · split at h
    · rename_i hx
      simp only [Option.some.injEq, Prod.mk.injEq] at h
      rw [← h.1, getElem?_setLoc_self hi] at hd
      cases hd; exact ⟨rfl, hx⟩
    · simp only [Option.some.injEq, Prod.mk.injEq] at h
      rw [← h.1, getElem?_setLoc_self hi] at hd; cases hd
  · split at h
    · rename_i hx
      simp only [Option.some.injEq, Prod.mk.injEq] at h
      rw [← h.1, getElem?_setLoc_self hi] at hd
      cases hd; exact ⟨rfl, hx⟩
    · split at h <;>
        (simp only [Option.some.injEq, Prod.mk.injEq] at h
         rw [← h.1, getElem?_setLoc_self hi] at hd; cases hd)
  · split at h
    · rename_i hx
      split at h
      · simp only [Option.some.injEq, Prod.mk.injEq] at h
        rw [← h.1, getElem?_setLoc_self hi] at hd
        cases hd; exact ⟨rfl, hx⟩
      · simp only [Option.some.injEq, Prod.mk.injEq] at h
        rw [← h.1, getElem?_setLoc_self hi] at hd; cases hd
    · simp only [Option.some.injEq, Prod.mk.injEq] at h
      rw [← h.1, hi] at hd; cases hd

/-- **C03, check ⇔ (no X ∧ version equal)**: the comparison the guard classes make on the decisive
    read `r` (`ver_ = verOf r; return ver_ == expected`) succeeds exactly when the lock's version at
    that read equals the carried one; by `reader_done` that read saw no exclusive holder. -/
theorem verify_iff (hS : Specs P D) (r : Word) (v : BitVec 32) :
    (P.verOf r == v) = true ↔ (D.dec r).ver = v := by
  rw [hS.verOf_eq]; simp

/-- **C03, TryLock***: a grant obtained through `TryLock*` was created by a CAS from the current
    word, which passed the mode's admission test and carried exactly the guard's version. -/
theorem try_grant_sound (hS : Specs P D) {s s' : St} {i : Nat} {m : Mode} {ver : BitVec 32} {seen seen' : Word}
    {ov : Option Word} {sp : Bool} {e : Ev}
    (hI : Inv P D s) (hi : s.agents[i]? = some (.tryCas m ver seen))
    (h : atomStep P s i (.tryCas m ver seen) ov sp = some (s', e))
    (hgr : s'.agents[i]? = some (.held m seen')) :
    seen' = s.w ∧ P.tryGuard m s.w = true ∧ (D.dec s.w).ver = ver ∧ (D.dec s.w).x = false := by
  have hok := locOK_of_mem hI hi
  simp only [LocOK] at hok
  simp only [atomStep] at h
  split at h
  · rename_i hc
    obtain ⟨hw, _⟩ := hc
    simp only [Option.some.injEq, Prod.mk.injEq] at h
    rw [← h.1] at hgr
    have : (setLoc s i (Loc.held m seen)).agents[i]? = some (Loc.held m seen) := getElem?_setLoc_self hi
    rw [show ({ setLoc s i (Loc.held m seen) with w := P.tryUpd m seen } : St).agents[i]? =
        (setLoc s i (Loc.held m seen)).agents[i]? from rfl, this] at hgr
    cases hgr
    subst hw
    have hne := (hS.tryNe m s.w ver hok.1)
    have hv : (D.dec s.w).ver = ver := by
      by_cases hc : (D.dec s.w).ver = ver
      · exact hc
      · have := hne.mpr hc; rw [hok.2] at this; cases this
    have hx : (D.dec s.w).x = false := by
      cases m
      · exact hS.tgS _ hok.1
      · exact (hS.tgSIX _ hok.1).1
      · exact (hS.tgX _ hok.1).1
    exact ⟨rfl, hok.1, hv, hx⟩
  · simp only [Option.some.injEq, Prod.mk.injEq] at h
    rw [← h.1, getElem?_setLoc_self hi] at hgr
    cases hgr

/-- **C13**: PrepareRead's shared fallback is taken by a CAS from a word with no lock at all:
    no X, no SIX and no shared holder exists in the state the CAS starts from. -/
theorem prep_grant_free (hS : Specs P D) {s s' : St} {i : Nat} {seen seen' : Word}
    {ov : Option Word} {sp : Bool} {e : Ev}
    (hI : Inv P D s) (hi : s.agents[i]? = some (.prepCas seen))
    (h : atomStep P s i (.prepCas seen) ov sp = some (s', e))
    (hgr : s'.agents[i]? = some (.held .S seen')) :
    cnt s .X = 0 ∧ cnt s .SIX = 0 ∧ cnt s .S = 0 := by
  have hok := locOK_of_mem hI hi
  simp only [LocOK] at hok
  simp only [atomStep] at h
  split at h
  · rename_i hc
    obtain ⟨hw, _⟩ := hc
    subst hw
    have hf := hS.pG _ hok.1 hok.2
    refine ⟨?_, ?_, ?_⟩
    · have := hI.cx; rw [hf.1] at this; simpa using this
    · have := hI.csix; rw [hf.2.1] at this; simpa using this
    · have := hI.cs; omega
  · simp only [Option.some.injEq, Prod.mk.injEq] at h
    rw [← h.1, getElem?_setLoc_self hi] at hgr
    cases hgr

end CppUtil.WLock
