/-
  C18, structure of the CDF tables over an arbitrary linearly ordered field (exact arithmetic):
  the entries are the normalised partial sums, the table is monotone, its last entry is 1, and the
  approximate class coincides with the exact one up to `kExactBinNum` bins.  Floating-point rounding
  is outside these statements (DESIGN.md §6 C18): the `Float` instance of the same definitions is
  compared bit for bit with the implementation by the correspondence check.
  (Imports single Mathlib modules; not imported by the driver.)
-/
import Mathlib.Algebra.Order.Field.Basic
import Mathlib.Algebra.BigOperators.Group.Finset.Basic
import Mathlib.Algebra.Order.BigOperators.Ring.Finset
import Mathlib.Tactic.Ring
import Mathlib.Tactic.FieldSimp
import Mathlib.Tactic.Positivity
import Mathlib.Tactic.Linarith
import CppUtil.Model.Zipf

namespace CppUtil.Zipf

open Finset

variable {K : Type} [Field K] [LinearOrder K] [IsStrictOrderedRing K]

/-- the model's arithmetic instantiated with exact field operations; `pw i` stands for `i^alpha` -/
noncomputable def fieldArith (pw pw' lg : Nat → K) (isZero : Bool) (two : K) : Arith K where
  zero := 0
  one := 1
  add := (· + ·)
  sub := (· - ·)
  mul := (· * ·)
  div := (· / ·)
  ofNat := fun n => (n : K)
  powNat := pw
  powNat' := pw'
  logNat := lg
  powIsZero := isZero
  twoPow := two
  lt := fun a b => decide (a < b)

/-- `S m = Σ_{i=1..m} 1 / i^alpha` -/
noncomputable def S (pw : Nat → K) (m : Nat) : K := ∑ i ∈ range m, 1 / pw (i + 1)

theorem S_succ (pw : Nat → K) (m : Nat) : S pw (m + 1) = S pw m + 1 / pw (m + 1) := by
  unfold S; rw [sum_range_succ]

theorem S_pos (pw : Nat → K) (hpw : ∀ i, 0 < pw i) (m : Nat) (hm : 0 < m) : 0 < S pw m := by
  unfold S
  apply sum_pos
  · intro i _; have := hpw (i + 1); positivity
  · exact ⟨0, by simp; omega⟩

theorem S_mono (pw : Nat → K) (hpw : ∀ i, 0 < pw i) {a b : Nat} (h : a ≤ b) : S pw a ≤ S pw b := by
  induction b with
  | zero => have : a = 0 := by omega
            subst this; exact le_refl _
  | succ b ih =>
    by_cases hab : a = b + 1
    · subst hab; exact le_refl _
    · have := ih (by omega)
      rw [S_succ]
      have : 0 < 1 / pw (b + 1) := by have := hpw (b + 1); positivity
      linarith

variable (pw pw' lg : Nat → K) (isZero : Bool) (two : K)

local notation "A" => fieldArith pw pw' lg isZero two

/-- the accumulation loop computes the partial sum -/
theorem foldl_sum (n : Nat) :
    (List.range n).foldl (fun acc i => (A).add acc ((A).div (A).one ((A).powNat (i + 1)))) (A).zero = S pw n := by
  induction n with
  | zero => simp [S, fieldArith]
  | succ n ih =>
    rw [List.range_succ, List.foldl_append, ih, S_succ]
    simp [fieldArith]

theorem baseProb_eq (n : Nat) : baseProb (A) n = 1 / S pw n := by
  unfold baseProb
  rw [foldl_sum]
  simp [fieldArith]

/-- entry `k` of the cumulative loop, as a recursion -/
noncomputable def cumSpec (base : K) (clamp : Bool) : Nat → K
  | 0 => base
  | k + 1 =>
    let x := cumSpec base clamp k + base / pw (k + 2)
    if clamp then (if x < 1 then x else 1) else x

/-- the array built by `cumul`, entry by entry -/
theorem cumul_fold (base : K) (clamp : Bool) (m : Nat) :
    ((List.range m).foldl (cumulStep (A) base clamp) #[base]).size = m + 1 ∧
    ∀ k, k ≤ m → ((List.range m).foldl (cumulStep (A) base clamp) #[base])[k]?.getD 0 = cumSpec pw base clamp k := by
  induction m with
  | zero =>
    simp only [List.range_zero, List.foldl_nil]
    refine ⟨by simp, ?_⟩
    intro k hk
    have : k = 0 := by omega
    subst this; simp [cumSpec]
  | succ m ih =>
    obtain ⟨hs, hg⟩ := ih
    simp only [List.range_succ, List.foldl_append, List.foldl_cons, List.foldl_nil]
    generalize ht : (List.range m).foldl (cumulStep (A) base clamp) #[base] = t at hs hg
    refine ⟨by simp [cumulStep, hs], ?_⟩
    intro k hk
    by_cases hkm : k ≤ m
    · have := hg k hkm
      unfold cumulStep
      rw [Array.getElem?_push, if_neg (by omega)]
      exact this
    · have hk' : k = m + 1 := by omega
      subst hk'
      have hm := hg m (le_refl _)
      have e : ∀ x : K, (t.push x)[m + 1]? = some x := by
        intro x; rw [← hs]; exact Array.getElem?_push_eq
      unfold cumulStep
      rw [e]
      simp only [Option.getD_some, cumSpec, Array.getD_eq_getD_getElem?]
      rw [show ((A).zero : K) = 0 from rfl, hm]
      cases clamp <;> simp [fieldArith, Arith.clamp1]

theorem cumul_getD (base : K) (clamp : Bool) (len k : Nat) (hk : k < len) :
    (cumul (A) base len clamp)[k]?.getD 0 = cumSpec pw base clamp k := by
  unfold cumul
  exact (cumul_fold pw pw' lg isZero two base clamp (len - 1)).2 k (by omega)

theorem cumul_size (base : K) (clamp : Bool) (len : Nat) : (cumul (A) base len clamp).size = len - 1 + 1 := by
  unfold cumul
  exact (cumul_fold pw pw' lg isZero two base clamp (len - 1)).1

/-- with the exact normaliser the clamped recursion is the normalised partial sum (the clamp never bites
    in exact arithmetic) -/
theorem cumSpec_exact (hpw : ∀ i, 0 < pw i) (hpw1 : pw 1 = 1) (n : Nat) (hn : 0 < n) (k : Nat) (hk : k < n) :
    cumSpec pw (1 / S pw n) true k = S pw (k + 1) / S pw n := by
  have hSn := S_pos pw hpw n hn
  induction k with
  | zero =>
    have h1 : S pw 1 = 1 := by simp [S, hpw1]
    simp only [cumSpec, Nat.zero_add, h1]
  | succ k ih =>
    have ihk := ih (by omega)
    simp only [cumSpec, ihk, if_true]
    have hle : S pw (k + 2) ≤ S pw n := S_mono pw hpw (by omega)
    have hx : S pw (k + 1) / S pw n + 1 / S pw n / pw (k + 2) = S pw (k + 2) / S pw n := by
      rw [S_succ pw (k + 1)]
      have := hpw (k + 2)
      field_simp
    rw [hx]
    split
    · rfl
    · rename_i hnlt
      have hge : 1 ≤ S pw (k + 2) / S pw n := not_lt.mp hnlt
      have hle1 : S pw (k + 2) / S pw n ≤ 1 := by
        rw [div_le_one hSn]; exact hle
      exact (le_antisymm hle1 hge).symm

/-- **C18, exact table** (`n ≥ 2`): entry `k < n−1` is the normalised partial sum, the last entry is 1 -/
theorem exactTable_spec (hpw : ∀ i, 0 < pw i) (hpw1 : pw 1 = 1) (n : Nat) (hn : 2 ≤ n) :
    (∀ k, k < n - 1 → (exactTable (A) n).getD k 0 = S pw (k + 1) / S pw n) ∧
    (exactTable (A) n).getD (n - 1) 0 = 1 := by
  have hsz := cumul_size pw pw' lg isZero two (baseProb (A) n) true n
  unfold exactTable
  rw [if_neg (by omega)]
  constructor
  · intro k hk
    rw [Array.getD_eq_getD_getElem?, Array.set!_eq_setIfInBounds, Array.getElem?_setIfInBounds_ne (by omega)]
    have := cumul_getD pw pw' lg isZero two (baseProb (A) n) true n k (by omega)
    rw [this, baseProb_eq, cumSpec_exact pw hpw hpw1 n (by omega) k (by omega)]
  · rw [Array.getD_eq_getD_getElem?, Array.set!_eq_setIfInBounds, Array.getElem?_setIfInBounds_self_of_lt (by omega)]
    rfl

/-- **C18, monotone**: the exact table is non-decreasing and bounded by its last entry -/
theorem exactTable_mono (hpw : ∀ i, 0 < pw i) (hpw1 : pw 1 = 1) (n : Nat) (hn : 2 ≤ n) (i j : Nat) (hij : i ≤ j) (hj : j < n) :
    (exactTable (A) n).getD i 0 ≤ (exactTable (A) n).getD j 0 := by
  obtain ⟨hs, hl⟩ := exactTable_spec pw pw' lg isZero two hpw hpw1 n hn
  have hSn := S_pos pw hpw n (by omega)
  by_cases hjl : j = n - 1
  · subst hjl
    rw [hl]
    by_cases hil : i = n - 1
    · rw [hil, hl]
    · rw [hs i (by omega), div_le_one hSn]
      exact S_mono pw hpw (by omega)
  · rw [hs i (by omega), hs j (by omega)]
    apply div_le_div_of_nonneg_right _ (le_of_lt hSn)
    exact S_mono pw hpw (by omega)

/-- **C18, Approx = Exact for `n ≤ kExactBinNum`** on the bins that exist -/
theorem approxHead_eq_exact (n E skip : Nat) (hn : 2 ≤ n) (hE : n ≤ E) (k : Nat) (hk : k < n) :
    (approxHead (A) n E skip).getD k 0 = (exactTable (A) n).getD k 0 := by
  have hszE := cumul_size pw pw' lg isZero two (baseProb (A) n) true E
  have hszN := cumul_size pw pw' lg isZero two (baseProb (A) n) true n
  unfold approxHead exactTable
  rw [if_neg (by omega), if_pos hE, if_neg (by omega)]
  by_cases hkl : k = n - 1
  · subst hkl
    rw [Array.getD_eq_getD_getElem?, Array.getD_eq_getD_getElem?, Array.set!_eq_setIfInBounds,
      Array.set!_eq_setIfInBounds, Array.getElem?_setIfInBounds_self_of_lt (by omega),
      Array.getElem?_setIfInBounds_self_of_lt (by omega)]
  · rw [Array.getD_eq_getD_getElem?, Array.getD_eq_getD_getElem?, Array.set!_eq_setIfInBounds,
      Array.set!_eq_setIfInBounds, Array.getElem?_setIfInBounds_ne (by omega),
      Array.getElem?_setIfInBounds_ne (by omega)]
    have h1 := cumul_getD pw pw' lg isZero two (baseProb (A) n) true E k (by omega)
    have h2 := cumul_getD pw pw' lg isZero two (baseProb (A) n) true n k (by omega)
    rw [h1, h2]

/-- **C18, the approximate class reaches exactly 1 at its last bin** (`n > kExactBinNum`): the value is
    `GetHarmonicNum(n) / GetHarmonicNum(n)` -/
theorem approxCDF_last (head : Array K) (n E : Nat) (hn : E < n) (hne : harmonic (A) n ≠ 0) :
    approxCDF (A) head (harmonic (A) n) E (n - 1) = 1 := by
  unfold approxCDF
  rw [if_neg (by omega)]
  have : n - 1 + 1 = n := by omega
  rw [this]
  show harmonic (A) n / harmonic (A) n = 1
  exact div_self hne

end CppUtil.Zipf
