/-
  MCSLock proof, word-writing steps, part J: the tail exchange of LockSIX / LockX.
-/
import CppUtil.Proofs.McsHardI

namespace CppUtil.Mcs
open CppUtil

variable {W : Nat → Bool → Bool → Nat → Word} {P : Params} {pb cb : Nat} {s : St} {Q : Nat → List Grp}
variable {i : Nat} {a : Agent}

theorem flagOf_word (hW : WordSpecs P.C pb cb W) (m : Mode) (hm : m ≠ .S) (q : Nat) (hq : q < pb) :
    ofNode q ||| flagOf P m = W q (m == .X) (m == .SIX) 0 := by
  cases m with
  | S => exact absurd rfl hm
  | SIX => simpa [flagOf] using hW.newSIX q hq
  | X => simpa [flagOf] using hW.newX q hq

theorem case_xXchg (hW : WordSpecs P.C pb cb W) (hI : Inv W P pb cb s Q) (hi : s.agents[i]? = some a)
    (m : Mode) (hloc : a.loc = .xXchg m) (hmS : m ≠ .S) :
    Inv W P pb cb
      (setAgent (wr s (.lock a.lk) (ofNode a.qnode ||| flagOf P m)) i { a with cur := lockW s a.lk, loc := .xPublish m })
      (setQ Q a.lk (Q a.lk ++ [{ node := a.qnode, head := some i }])) := by
  have hwf := hI.wf a (List.mem_of_getElem? hi)
  have hL := hI.locks a.lk hwf.2.1
  have hp : a.loc.priv = true := by simp [hloc, Loc.priv]
  have hhm0 : a.loc.headMode = none := by rw [hloc]; rfl
  have hnd : a.loc ≠ .done := by rw [hloc]; simp
  have hqlive := hI.privLive i a hi hp
  have hqlt : a.qnode < pb := by have := nodeLive_bound hqlive; have := hI.capN; omega
  -- abbreviations are avoided on purpose: the state and the queue are written out
  have hag : (setAgent (wr s (.lock a.lk) (ofNode a.qnode ||| flagOf P m)) i
      { a with cur := lockW s a.lk, loc := .xPublish m }).agents =
      s.agents.set i { a with cur := lockW s a.lk, loc := .xPublish m } := by simp
  have hnh : ∀ ℓ, ℓ < s.locks.length → ∀ G ∈ Q ℓ, G.head ≠ some i :=
    fun ℓ hℓ G hG => not_head_of hI hi hhm0 hnd hℓ hG
  have hcnt : ∀ ℓ nd, cnt (setAgent (wr s (.lock a.lk) (ofNode a.qnode ||| flagOf P m)) i
      { a with cur := lockW s a.lk, loc := .xPublish m }) ℓ nd = cnt s ℓ nd := by
    intro ℓ nd; apply cnt_same hi hag; simp [isMem, hloc, Loc.sMem]
  have hK : AppendKeep s (setAgent (wr s (.lock a.lk) (ofNode a.qnode ||| flagOf P m)) i
      { a with cur := lockW s a.lk, loc := .xPublish m }) (Q a.lk) :=
    ⟨fun G hG => hmode_ne hag G (hnh a.lk hwf.2.1 G hG), fun G hG => linked_ne hag G (hnh a.lk hwf.2.1 G hG),
     fun G hG => published_ne hag G (hnh a.lk hwf.2.1 G hG)⟩
  have hgw : ∀ Pg ∈ Q a.lk, ∀ p, grpW W (setAgent (wr s (.lock a.lk) (ofNode a.qnode ||| flagOf P m)) i
      { a with cur := lockW s a.lk, loc := .xPublish m }) a.lk Pg p = grpW W s a.lk Pg p := by
    intro Pg hPg p; unfold grpW; rw [hK.hmode Pg hPg, hcnt]
  -- the new group
  have hnewHL : headLoc (setAgent (wr s (.lock a.lk) (ofNode a.qnode ||| flagOf P m)) i
      { a with cur := lockW s a.lk, loc := .xPublish m }) { node := a.qnode, head := some i } = some (.xPublish m) := by
    rw [headLoc_eq hi hag _ rfl]
  have hnewmode : hmode (setAgent (wr s (.lock a.lk) (ofNode a.qnode ||| flagOf P m)) i
      { a with cur := lockW s a.lk, loc := .xPublish m }) { node := a.qnode, head := some i } = some m := by
    unfold hmode; rw [hnewHL]; rfl
  have hnewpub : published (setAgent (wr s (.lock a.lk) (ofNode a.qnode ||| flagOf P m)) i
      { a with cur := lockW s a.lk, loc := .xPublish m }) { node := a.qnode, head := some i } = false := by
    unfold published; rw [hnewHL]
  have hnewlnk : linked (setAgent (wr s (.lock a.lk) (ofNode a.qnode ||| flagOf P m)) i
      { a with cur := lockW s a.lk, loc := .xPublish m }) { node := a.qnode, head := some i } = false := by
    unfold linked; rw [hnewHL]
  have hc0 := cnt_priv_zero hI hi hp a.lk hwf.2.1
  have hnotin : ∀ G ∈ Q a.lk, G.node ≠ a.qnode := fun G hG => hI.privQ i a a.lk G hi hp hG
  apply inv_assemble
  · rw [setAgent_uaf, wr_lock_uaf]; exact hI.uaf
  · rw [setAgent_nodes, wr_lock_nodes]; exact hI.capN
  · rw [hag]; simpa using hI.capA
  · intro b hb
    rw [setAgent_tls, wr_lock_tls, setAgent_locks, wr_lock_len]
    rcases ag_mem hi hag hb with hb | rfl
    · exact hI.wf b hb
    · exact ⟨hwf.1, hwf.2.1, by simp, by simpa [Loc.headMode] using hmS⟩
  · intro ℓ hℓ
    rw [setAgent_locks, wr_lock_len] at hℓ
    rw [setQ_other _ _ _ _ (by intro e; rw [e] at hℓ; exact absurd hwf.2.1 (by omega))]
    exact hI.outside ℓ hℓ
  · intro ℓ hℓ
    rw [setAgent_locks, wr_lock_len] at hℓ
    by_cases hne : ℓ = a.lk
    · subst hne
      rw [setQ_same]
      -- the lock invariant for the grown queue
      refine ⟨?_, ?_, ?_, ?_, ?_, ?_, ?_, ?_, ?_⟩
      · rw [List.map_append, List.nodup_append]
        refine ⟨hL.nodup, by simp, ?_⟩
        intro x hx y hy
        simp only [List.map_cons, List.map_nil, List.mem_singleton] at hy
        obtain ⟨G, hG, rfl⟩ := List.mem_map.mp hx
        rw [hy]; exact hnotin G hG
      · rw [lockW_setAgent, lockW_wr_lock s _ _ _ hwf.2.1]
        simp only [↓reduceIte]
        unfold expLock
        rw [List.getLast?_append]; simp only [List.getLast?_singleton, Option.some_or]
        unfold grpW
        rw [hnewmode, hcnt, hc0]
        simpa using flagOf_word hW m hmS a.qnode hqlt
      · intro j G hj
        rw [nodeW_setAgent, nodeW_wr_lock]
        rcases getElem?_append_cases hj with ⟨hlt, hj'⟩ | ⟨rfl, rfl⟩
        · rw [hL.nodeWord j G hj']
          unfold expNode
          rw [hK.published G (mem_of_idx hj')]
          have hlo : linkOf (setAgent (wr s (.lock a.lk) (ofNode a.qnode ||| flagOf P m)) i
              { a with cur := lockW s a.lk, loc := .xPublish m })
              (Q a.lk ++ [{ node := a.qnode, head := some i }]) j = linkOf s (Q a.lk) j := by
            unfold linkOf
            rcases Nat.lt_or_ge (j + 1) (Q a.lk).length with h1 | h1
            · rw [getElem?_append_lt h1]
              cases hq : (Q a.lk)[j + 1]? with
              | none => rfl
              | some G' => simp only [hK.linked G' (mem_of_idx hq)]
            · have : j + 1 = (Q a.lk).length := by omega
              rw [this, getElem?_append_len, List.getElem?_eq_none (Nat.le_refl _)]
              simp [hnewlnk]
          rw [hlo]
          by_cases hj0 : j = 0
          · simp [hj0]
          · have hlt' : j - 1 < (Q a.lk).length := by omega
            simp only [hj0, ↓reduceIte, getElem?_append_lt hlt']
            cases hq : (Q a.lk)[j - 1]? with
            | none => rfl
            | some Pg => simp only [hgw Pg (mem_of_idx hq)]
        · rw [(hI.privW i a hi).2 m hloc]
          unfold expNode
          rw [hnewpub]
          have : linkOf (setAgent (wr s (.lock a.lk) (ofNode a.qnode ||| flagOf P m)) i
              { a with cur := lockW s a.lk, loc := .xPublish m })
              (Q a.lk ++ [{ node := a.qnode, head := some i }]) (Q a.lk).length = 0 := by
            unfold linkOf
            rw [List.getElem?_eq_none (by simp)]
          simp [this]
      · intro G hG
        rcases List.mem_append.mp hG with hG | hG
        · rw [hK.hmode G hG, hcnt]; exact hL.nonempty G hG
        · simp only [List.mem_singleton] at hG; subst hG
          left; rw [hnewmode]; rfl
      · intro j G hj hj0
        rcases getElem?_append_cases hj with ⟨hlt, hj'⟩ | ⟨rfl, rfl⟩
        · rw [hK.hmode G (mem_of_idx hj')]; exact hL.laterHeads j G hj' hj0
        · rw [hnewmode]; rfl
      · intro j G h hj hh hlive
        rcases getElem?_append_cases hj with ⟨hlt, hj'⟩ | ⟨rfl, rfl⟩
        · rw [hK.hmode G (mem_of_idx hj')] at hlive
          obtain ⟨b, hb, hb1, hb2, hb3, hb4⟩ := hL.heads j G h hj' hh hlive
          have hhi : h ≠ i := by intro e; subst e; exact hnh a.lk hwf.2.1 G (mem_of_idx hj') hh
          exact ⟨b, by rw [ag_ne hag hhi]; exact hb, hb1, hb2, hb3,
            HeadOK_append hK j b hlt (fun Pg hPg => hgw Pg hPg Pg.node) hb4⟩
        · simp only [Option.some.injEq] at hh; subst hh
          refine ⟨_, ag_eq hi hag, rfl, rfl, rfl, ?_⟩
          simp only [HeadOK]
          constructor
          · intro h0
            have : Q a.lk = [] := List.eq_nil_of_length_eq_zero h0
            rw [hL.lockWord, this]; rfl
          · intro Pg hpos hPg
            have hlt' : (Q a.lk).length - 1 < (Q a.lk).length := by omega
            rw [getElem?_append_lt hlt'] at hPg
            have hk : (Q a.lk).getLast? = some Pg := by rw [List.getLast?_eq_getElem?]; exact hPg
            rw [hgw Pg (mem_of_idx hPg), hL.lockWord]
            unfold expLock; rw [hk]
      · intro G hG h hh
        rcases List.mem_append.mp hG with hG | hG
        · obtain ⟨b, hb, hb1, hb2⟩ := hL.headish G hG h hh
          have hhi : h ≠ i := by intro e; rw [e] at hh; exact hnh a.lk hwf.2.1 G hG hh
          exact ⟨b, by rw [ag_ne hag hhi]; exact hb, hb1, hb2⟩
        · simp only [List.mem_singleton] at hG; subst hG
          simp only [Option.some.injEq] at hh; subst hh
          exact ⟨_, ag_eq hi hag, rfl, Or.inl rfl⟩
      · intro k b hk hb1 hb2
        rcases ag_cases hi hag hk with ⟨rfl, rfl⟩ | ⟨_, hk'⟩
        · exact ⟨_, List.mem_append_right _ (List.mem_singleton.mpr rfl), rfl⟩
        · obtain ⟨G, hG, hh⟩ := hL.headsBack k b hk' hb1 hb2
          exact ⟨G, List.mem_append_left _ hG, hh⟩
      · intro k b hk hb1 hb2
        rcases ag_cases hi hag hk with ⟨rfl, rfl⟩ | ⟨_, hk'⟩
        · simp [Loc.sMem] at hb2
        · obtain ⟨j, G, hj, hn, hm⟩ := hL.mems k b hk' hb1 hb2
          have hlt := getElem?_lt' hj
          exact ⟨j, G, by rw [getElem?_append_lt hlt]; exact hj, hn, MemOK_append hK j G hj b hm⟩
    · rw [setQ_other _ _ _ _ hne]
      apply lockInv_other hI hi hag rfl hne hℓ
      · rw [lockW_setAgent, lockW_wr_lock s _ _ _ hwf.2.1]; simp [hne]
      · intro G _; rfl
  · -- ownership: the private node becomes the node of the new group
    apply ownInv_of_map hI.own
      (fun k o0 o => (o0 = .priv i ∧ o = .grp a.lk) ∨ (o0 ≠ .priv i ∧ o = o0))
      (by
        intro k o0 o o' h h'
        rcases h with ⟨h1, h2⟩ | ⟨h1, h2⟩ <;> rcases h' with ⟨h1', h2'⟩ | ⟨h1', h2'⟩
        · rw [h2, h2']
        · exact absurd h1 h1'
        · exact absurd h1' h1
        · rw [h2, h2'])
      none (by intro kf of h; cases h)
    intro k o h
    cases o with
    | priv j =>
      obtain ⟨b, hb, hpb, rfl⟩ := h
      rcases ag_cases hi hag hb with ⟨rfl, rfl⟩ | ⟨hne, hb'⟩
      · simp [Loc.priv] at hpb
      · refine ⟨by rw [nodeLive_setAgent, nodeLive_wr_lock]; exact hI.privLive j b hb' hpb,
          Or.inl ⟨.priv j, ⟨b, hb', hpb, rfl⟩, Or.inr ⟨fun e => hne (Owner.priv.inj e), rfl⟩⟩⟩
    | cache t =>
      have h' : s.tls[t]? = some (some k) := h
      exact ⟨by rw [nodeLive_setAgent, nodeLive_wr_lock]; exact hI.cacheLive t k h',
        Or.inl ⟨.cache t, h', Or.inr ⟨fun e => Owner.noConfusion e, rfl⟩⟩⟩
    | grp ℓ =>
      obtain ⟨G, hG, rfl⟩ := h
      rcases mem_setQ hG with ⟨rfl, hG'⟩ | ⟨hne, hG'⟩
      · rcases List.mem_append.mp hG' with hG' | hG'
        · exact ⟨by rw [nodeLive_setAgent, nodeLive_wr_lock]; exact hI.grpLive a.lk G hG',
            Or.inl ⟨.grp a.lk, ⟨G, hG', rfl⟩, Or.inr ⟨fun e => Owner.noConfusion e, rfl⟩⟩⟩
        · simp only [List.mem_singleton] at hG'; subst hG'
          exact ⟨by rw [nodeLive_setAgent, nodeLive_wr_lock]; exact hqlive,
            Or.inl ⟨.priv i, ⟨a, hi, hp, rfl⟩, Or.inl ⟨rfl, rfl⟩⟩⟩
      · exact ⟨by rw [nodeLive_setAgent, nodeLive_wr_lock]; exact hI.grpLive ℓ G hG',
          Or.inl ⟨.grp ℓ, ⟨G, hG', rfl⟩, Or.inr ⟨fun e => Owner.noConfusion e, rfl⟩⟩⟩
  · intro k b hk
    rw [nodeW_setAgent, nodeW_wr_lock]
    rcases ag_cases hi hag hk with ⟨rfl, rfl⟩ | ⟨_, hk'⟩
    · exact ⟨by intro h; simp at h, by intro m' h; simp at h⟩
    · exact hI.privW k b hk'

end CppUtil.Mcs
