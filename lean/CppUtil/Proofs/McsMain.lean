/-
  MCSLock proof: the invariant is preserved by every step of the model (`Mcs.step`, any action, any agent),
  hence holds in every reachable state; mutual exclusion, absence of accesses to freed nodes and absence of
  leaks at quiescence follow.
-/
import CppUtil.Proofs.McsHardO

namespace CppUtil.Mcs
open CppUtil

variable {W : Nat → Bool → Bool → Nat → Word} {P : Params} {pb cb : Nat} {s : St} {Q : Nat → List Grp}

/-- requests for S never take the exchange path (a fact about `spawnLock`, kept next to the invariant) -/
def XModes (s : St) : Prop :=
  ∀ a ∈ s.agents, ∀ m, (a.loc = .xStore m ∨ a.loc = .xXchg m) → m ≠ .S

theorem xmodes_set {s' : St} {i : Nat} {a a' : Agent} (h : XModes s) (hi : s.agents[i]? = some a)
    (hag : s'.agents = s.agents.set i a')
    (hx : ∀ m, (a'.loc = .xStore m ∨ a'.loc = .xXchg m) → m ≠ .S) : XModes s' := by
  intro b hb m hm
  rcases ag_mem hi hag hb with hb | rfl
  · exact h b hb m hm
  · exact hx m hm

theorem xmodes_same {s' : St} (h : XModes s) (hag : s'.agents = s.agents) : XModes s' := by
  intro b hb; rw [hag] at hb; exact h b hb

structure InvX (W : Nat → Bool → Bool → Nat → Word) (P : Params) (pb cb : Nat) (s : St) (Q : Nat → List Grp) : Prop where
  inv : Inv W P pb cb s Q
  xm : XModes s

/-- capacity: node numbers fit the pointer field, requests fit the shared counter -/
def Fits (pb cb : Nat) (s : St) : Prop := s.nodes.length < pb ∧ s.agents.length + 1 < cb

/-- well-formed actions: thread and lock indices exist -/
def ActOK (s : St) : Act → Prop
  | .spawn tid lk _ => tid < s.tls.length ∧ lk < s.locks.length
  | .release _ tid => tid < s.tls.length
  | .upgrade _ tid => tid < s.tls.length
  | .downgrade _ tid => tid < s.tls.length
  | _ => True

/-- liveness of the own queue node of a member / head -/
theorem own_live (hI : Inv W P pb cb s Q) {i : Nat} {a : Agent} (hi : s.agents[i]? = some a)
    (h : a.loc.sMem = true ∨ a.loc.headMode.isSome) : nodeLive s a.qnode = true := by
  rcases h with h | h
  · obtain ⟨j, G, hj, hn, _⟩ := member_group hI hi h
    rw [← hn]; exact hI.grpLive a.lk G (mem_of_idx hj)
  · obtain ⟨j, G, hj, _, hn, _⟩ := head_group (W := W) hI hi h
    rw [← hn]; exact hI.grpLive a.lk G (mem_of_idx hj)

theorem xmodes_setAgent {s0 : St} {i : Nat} {a a' : Agent} (h : XModes s) (hi : s.agents[i]? = some a)
    (hag : s0.agents = s.agents)
    (hx : ∀ m, (a'.loc = .xStore m ∨ a'.loc = .xXchg m) → m ≠ .S) : XModes (setAgent s0 i a') :=
  xmodes_set h hi (by simp [hag]) hx

macro "xmset" hX:ident hi:ident : tactic =>
  `(tactic| (refine xmodes_setAgent (InvX.xm $hX) $hi (by simp [cacheNode_agents, wr_node_agents, wr_agents]) ?_
             intro m h; rcases h with h | h <;> simp_all))

/-- the node a hand-over writes to is the live node of the successor group -/
theorem handoff_live_S (hI : Inv W P pb cb s Q) {i : Nat} {a : Agent} (hi : s.agents[i]? = some a)
    (hloc : a.loc = .rel .S .handoff) : nodeLive s (ptrOf P a.nxt) = true := by
  obtain ⟨j, G, hj, hn, hmo⟩ := member_group hI hi (by simp [hloc, Loc.sMem])
  simp only [MemOK, hloc, PhOK] at hmo
  obtain ⟨_, G1, h1, _, hp1⟩ := hmo
  rw [hp1]; exact hI.grpLive a.lk G1 (mem_of_idx h1)

theorem handoff_live_H (hI : Inv W P pb cb s Q) {i : Nat} {a : Agent} (hi : s.agents[i]? = some a)
    (k : HK) (hloc : a.loc = k.mk .handoff) : nodeLive s (ptrOf P a.nxt) = true := by
  obtain ⟨j, G, hj, hh, hn, hho⟩ := head_group (W := W) hI hi (by rw [hloc, HK.headMode]; rfl)
  rw [headOK_mk k .handoff (by simp) _ _ _ _ hloc] at hho
  obtain ⟨_, G1, h1, _, hp1⟩ := hho
  rw [hp1]; exact hI.grpLive a.lk G1 (mem_of_idx h1)

end CppUtil.Mcs
