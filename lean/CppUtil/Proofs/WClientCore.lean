/-
  Guard algebra, part 2: how the steps of the word-lock core look from the client layer, the
  change of the ghost owner map at a spawn, and the generic "one thread moved" lemma.
-/
import CppUtil.Proofs.WClientDefs

set_option linter.unusedSimpArgs false
set_option linter.unusedVariables false

namespace CppUtil.WClient
open CppUtil CppUtil.WLock

variable {P : WParams}

/-- an atomic step keeps the agent inside its call or ends the call in one of its results -/
theorem atomStep_call {s s' : St} {i : Nat} {loc : Loc} {ov : Option Word} {sp : Bool} {e : Ev} {k : CallK}
    (hi : s.agents[i]? = some loc) (hk : loc.call = some k)
    (h : atomStep P s i loc ov sp = some (s', e)) :
    ∃ l', s'.agents[i]? = some l' ∧ (l'.call = some k ∨ k.result l') := by
  have hlt := getElem?_lt hi
  cases loc
  all_goals simp only [Loc.call, Option.some.injEq, reduceCtorEq] at hk
  all_goals subst hk
  all_goals simp only [atomStep] at h
  all_goals (repeat' split at h)
  all_goals simp only [Option.some.injEq, Prod.mk.injEq, reduceCtorEq] at h
  all_goals obtain ⟨h1, -⟩ := h
  all_goals subst h1
  all_goals first
      | exact ⟨_, hi, Or.inl rfl⟩
      | (refine ⟨_, getElem?_setLoc_self hi, ?_⟩; simp [Loc.call, CallK.result])
      | (refine ⟨_, by simpa [setLoc] using (List.getElem?_set_self hlt), ?_⟩; simp [Loc.call, CallK.result])

theorem atomStep_isSome {s : St} {i : Nat} {loc : Loc} {k : CallK} (hk : loc.call = some k) :
    ∃ s' e, atomStep P s i loc none false = some (s', e) := by
  cases loc
  all_goals cases hk
  all_goals simp only [atomStep]
  all_goals (repeat' split)
  all_goals exact ⟨_, _, rfl⟩

theorem atomStep_length {s s' : St} {i : Nat} {loc : Loc} {ov : Option Word} {sp : Bool} {e : Ev}
    (h : atomStep P s i loc ov sp = some (s', e)) : s'.agents.length = s.agents.length := by
  cases loc
  all_goals simp only [atomStep] at h
  all_goals (repeat' split at h)
  all_goals simp only [Option.some.injEq, Prod.mk.injEq, reduceCtorEq] at h
  all_goals obtain ⟨h1, -⟩ := h
  all_goals subst h1
  all_goals simp [setLoc]

/-- `agentLoc` written with `getElem?` -/
theorem agentLoc_eq (c : Client) (lk a : Nat) : agentLoc c lk a = ((lockSt c lk).agents[a]?).getD .idle := rfl

theorem agentLoc_ne_idle_lt {c : Client} {lk a : Nat} (h : agentLoc c lk a ≠ .idle) : a < (lockSt c lk).agents.length := by
  by_cases hn : a < (lockSt c lk).agents.length
  · exact hn
  · exfalso; apply h
    simp [agentLoc_eq, List.getElem?_eq_none (Nat.le_of_not_lt hn)]

theorem agentLoc_some {c : Client} {lk a : Nat} (h : agentLoc c lk a ≠ .idle) :
    (lockSt c lk).agents[a]? = some (agentLoc c lk a) := by
  have := agentLoc_ne_idle_lt h
  simp [agentLoc_eq, List.getElem?_eq_getElem this]

/-! ### the owner map -/

def updAo (ao : Nat → Nat → Nat) (lk a t : Nat) : Nat → Nat → Nat :=
  fun lk' a' => if lk' = lk ∧ a' = a then t else ao lk' a'

theorem updAo_ne {ao : Nat → Nat → Nat} {lk a t lk' a' : Nat} (h : ¬ (lk' = lk ∧ a' = a)) :
    updAo ao lk a t lk' a' = ao lk' a' := by simp [updAo, h]

@[simp] theorem updAo_self {ao : Nat → Nat → Nat} {lk a t : Nat} : updAo ao lk a t lk a = t := by simp [updAo]

theorem isHeld_ne_idle {l : Loc} (h : isHeld l) : l ≠ .idle := by
  obtain ⟨m, s, rfl⟩ := h; simp

/-- the owner of a request nobody has created yet can be chosen freely -/
theorem Inv.updAo {vo : Nat → Nat} {ao : Nat → Nat → Nat} {c : Client} (hI : Inv vo ao c) {lk a : Nat} (t : Nat)
    (hidle : agentLoc c lk a = .idle) : Inv vo (updAo ao lk a t) c := by
  have key : ∀ lk' a', agentLoc c lk' a' ≠ .idle → WClient.updAo ao lk a t lk' a' = ao lk' a' := by
    intro lk' a' hne
    apply updAo_ne
    rintro ⟨rfl, rfl⟩
    exact hne hidle
  have hv : ∀ t', viewOf vo (WClient.updAo ao lk a t) c t' = viewOf vo ao c t' := by
    intro t'
    simp only [viewOf, View.mk.injEq, true_and, and_true]
    funext lk' a'
    by_cases hne : agentLoc c lk' a' = .idle
    · simp [hne]
    · rw [key _ _ hne]
  refine { hI with varOk := ?_, tmpOk := ?_, noOrphan := ?_, thr := ?_ }
  · intro v lk' a' hv
    obtain ⟨h1, h2, h3⟩ := hI.varOk v lk' a' hv
    refine ⟨h1, ?_, h3⟩
    rw [key]; exact h2
    rcases h3 with ⟨s, hs⟩ | ⟨⟨r, hr⟩, -⟩
    · rw [hs]; simp
    · rw [hr]; simp
  · intro t' lk' a' ht
    obtain ⟨h1, h2, h3, h4⟩ := hI.tmpOk t' lk' a' ht
    refine ⟨h1, ?_, h3, h4⟩
    rw [key _ _ (isHeld_ne_idle h3)]; exact h2
  · intro lk' a' h1 h2
    rcases hI.noOrphan lk' a' h1 h2 with h | h | ⟨t', h⟩
    · exact Or.inl h
    · exact Or.inr (Or.inl h)
    · refine Or.inr (Or.inr ⟨t', ?_⟩)
      simp only [Uses] at h ⊢
      rw [hv t']; exact h
  · intro t' ht'
    have := hI.thr t' ht'
    simp only [TOk] at this ⊢
    rw [hv t']; exact this


/-! ### frame: what the per-thread predicates depend on -/

/-- what all threads other than `t` see is unchanged -/
structure SameFor (vo : Nat → Nat) (ao : Nat → Nat → Nat) (t : Nat) (c c' : Client) : Prop where
  lsz : c'.locks.size = c.locks.size
  vsz : c'.vars.size = c.vars.size
  tsz : c'.threads.size = c.threads.size
  kinds : c'.kinds = c.kinds
  thr : ∀ t', t' ≠ t → getThread c' t' = getThread c t'
  var : ∀ v, vo v ≠ t → getVar c' v = getVar c v
  ag : ∀ lk a, ao lk a ≠ t → agentLoc c' lk a = agentLoc c lk a
  prog : (getThread c' t).prog = (getThread c t).prog

theorem WF.same {vo : Nat → Nat} {ao : Nat → Nat → Nat} {t : Nat} {c c' : Client} (hwf : WF vo c) (hs : SameFor vo ao t c c') :
    WF vo c' := by
  refine ⟨by rw [hs.kinds, hs.vsz]; exact hwf.ksize, by rw [hs.lsz]; exact hwf.lpos, ?_⟩
  intro t' ht' i hi
  rw [hs.tsz] at ht'
  have hp : (getThread c' t').prog = (getThread c t').prog := by
    by_cases h : t' = t
    · subst h; exact hs.prog
    · rw [hs.thr t' h]
  have hi' : i < (getThread c t').prog.size := by rw [← hp]; exact hi
  have := hwf.ops t' ht' i hi'
  have he : (getThread c' t').prog[i] = (getThread c t').prog[i] := by
    simp only [hp]
  rw [he, hs.kinds, hs.vsz, hs.lsz]
  exact this

theorem viewOf_same {vo : Nat → Nat} {ao : Nat → Nat → Nat} {t t' : Nat} {c c' : Client} (hs : SameFor vo ao t c c') (ht : t' ≠ t) :
    viewOf vo ao c' t' = viewOf vo ao c t' := by
  simp only [viewOf, View.mk.injEq]
  refine ⟨hs.thr t' ht, ?_, ?_, hs.lsz⟩
  · funext v
    by_cases hv : vo v = t'
    · simp only [hv, if_true]; exact hs.var v (by rw [hv]; exact ht)
    · simp [hv]
  · funext lk a
    by_cases hv : ao lk a = t'
    · simp only [hv, if_true]; exact hs.ag lk a (by rw [hv]; exact ht)
    · simp [hv]

theorem TOk_same {vo : Nat → Nat} {ao : Nat → Nat → Nat} {t t' : Nat} {c c' : Client} (hs : SameFor vo ao t c c') (ht : t' ≠ t)
    (h : TOk vo ao c t') : TOk vo ao c' t' := by
  simp only [TOk] at h ⊢
  rw [viewOf_same hs ht, hs.thr t' ht]; exact h

theorem own_same {vo : Nat → Nat} {ao : Nat → Nat → Nat} {t : Nat} {c c' : Client} (hs : SameFor vo ao t c c') {v : Nat}
    (hv : vo v ≠ t) : own c' v = own c v := by
  simp only [own, hs.var v hv]

/-- facts about requests of thread `t` read through its view -/
theorem viewOf_al {vo : Nat → Nat} {ao : Nat → Nat → Nat} {c : Client} {t lk a : Nat} (h : ao lk a = t) :
    (viewOf vo ao c t).al lk a = agentLoc c lk a := by simp [viewOf, h]

theorem viewOf_al_ne_idle {vo : Nat → Nat} {ao : Nat → Nat → Nat} {c : Client} {t lk a : Nat}
    (h : (viewOf vo ao c t).al lk a ≠ .idle) : ao lk a = t ∧ (viewOf vo ao c t).al lk a = agentLoc c lk a := by
  by_cases hh : ao lk a = t
  · exact ⟨hh, viewOf_al hh⟩
  · exfalso; apply h; simp [viewOf, hh]

theorem viewOf_gv {vo : Nat → Nat} {ao : Nat → Nat → Nat} {c : Client} {t v : Nat} (h : vo v = t) :
    (viewOf vo ao c t).gv v = getVar c v := by simp [viewOf, h]

theorem viewOf_own {vo : Nat → Nat} {ao : Nat → Nat → Nat} {c : Client} {t v : Nat} (h : vo v = t) :
    (viewOf vo ao c t).own v = own c v := by simp [View.own, own, viewOf, h]

theorem viewOf_own_some {vo : Nat → Nat} {ao : Nat → Nat → Nat} {c : Client} {t v : Nat} {r : Nat × Nat}
    (h : (viewOf vo ao c t).own v = some r) : vo v = t ∧ own c v = some r := by
  by_cases hh : vo v = t
  · exact ⟨hh, by rw [← viewOf_own hh]; exact h⟩
  · simp [View.own, viewOf, hh] at h


theorem StaleOk_same {vo : Nat → Nat} {ao : Nat → Nat → Nat} {t : Nat} {c c' : Client} (hs : SameFor vo ao t c c') {v : Nat}
    (hv : vo v ≠ t) (h : StaleOk vo c v) : StaleOk vo c' v := by
  simp only [StaleOk] at h ⊢
  rw [hs.thr _ hv]; exact h

theorem Uses_same {vo : Nat → Nat} {ao : Nat → Nat → Nat} {t t' : Nat} {c c' : Client} (hs : SameFor vo ao t c c') (ht : t' ≠ t)
    {lk a : Nat} (h : Uses vo ao c t' lk a) : Uses vo ao c' t' lk a := by
  simp only [Uses] at h ⊢
  rw [viewOf_same hs ht, hs.thr t' ht]; exact h

theorem Uses_ao {vo : Nat → Nat} {ao : Nat → Nat → Nat} {c : Client} {t lk a : Nat} (h : Uses vo ao c t lk a) : ao lk a = t := by
  obtain ⟨_, _, _, _, _, hne, _, _⟩ := h
  exact (viewOf_al_ne_idle hne).1

/-- **one thread moved**: if everything the other threads see is unchanged, the invariant has to be
    re-established for the moving thread only -/
theorem Inv.update {vo : Nat → Nat} {ao : Nat → Nat → Nat} {t : Nat} {c c' : Client}
    (hI : Inv vo ao c) (hs : SameFor vo ao t c c')
    (hvar : ∀ v lk a, vo v = t → own c' v = some (lk, a) → lk < c'.locks.size ∧ ao lk a = t ∧
      ((∃ s, agentLoc c' lk a = .held (kindOf c' v).gmode s) ∨ ((∃ r, agentLoc c' lk a = .done r) ∧ StaleOk vo c' v)))
    (hopt : ∀ v, vo v = t → kindOf c' v = .Opt → own c' v = none)
    (hvlk : ∀ v lk, vo v = t → (getVar c' v).lk = some lk → lk < c'.locks.size)
    (hinj : ∀ v v' r, vo v = t → vo v' = t → own c' v = some r → own c' v' = some r →
      isHeld (agentLoc c' r.1 r.2) → v = v')
    (htmp : ∀ lk a, (getThread c' t).tmp.own = some (lk, a) → lk < c'.locks.size ∧ ao lk a = t ∧
      isHeld (agentLoc c' lk a) ∧ ∀ v, vo v = t → own c' v ≠ some (lk, a))
    (htlk : ∀ lk, (getThread c' t).tmp.lk = some lk → lk < c'.locks.size)
    (horph : ∀ lk a, lk < c'.locks.size → ao lk a = t → (agentLoc c' lk a).grant? ≠ none →
      (∃ v, own c' v = some (lk, a)) ∨ (getThread c' t).tmp.own = some (lk, a) ∨ Uses vo ao c' t lk a)
    (hthr : TOk vo ao c' t) : Inv vo ao c' := by
  have hvarAll : ∀ v lk a, own c' v = some (lk, a) → lk < c'.locks.size ∧ ao lk a = vo v ∧
      ((∃ s, agentLoc c' lk a = .held (kindOf c' v).gmode s) ∨ ((∃ r, agentLoc c' lk a = .done r) ∧ StaleOk vo c' v)) := by
    intro v lk a hv
    by_cases hvt : vo v = t
    · have := hvar v lk a hvt hv
      exact ⟨this.1, by rw [hvt]; exact this.2.1, this.2.2⟩
    · rw [own_same hs hvt] at hv
      obtain ⟨h1, h2, h3⟩ := hI.varOk v lk a hv
      have hag : agentLoc c' lk a = agentLoc c lk a := hs.ag lk a (by rw [h2]; exact hvt)
      refine ⟨by rw [hs.lsz]; exact h1, h2, ?_⟩
      rw [hag]
      simp only [kindOf, hs.kinds]
      rcases h3 with h3 | ⟨h3, h4⟩
      · exact Or.inl h3
      · exact Or.inr ⟨h3, StaleOk_same hs hvt h4⟩
  refine ⟨hvarAll, ?_, ?_, ?_, ?_, ?_, ?_, ?_⟩
  · intro v hk
    by_cases hvt : vo v = t
    · exact hopt v hvt hk
    · rw [own_same hs hvt]; apply hI.optNone; simpa [kindOf, hs.kinds] using hk
  · intro v lk hv
    by_cases hvt : vo v = t
    · exact hvlk v lk hvt hv
    · rw [hs.var v hvt] at hv; rw [hs.lsz]; exact hI.vlk v lk hv
  · intro v v' r h1 h2 hh
    obtain ⟨lk, a⟩ := r
    have a1 := (hvarAll v lk a h1).2.1
    have a2 := (hvarAll v' lk a h2).2.1
    by_cases hvt : vo v = t
    · exact hinj v v' (lk, a) hvt (by rw [← a2, a1]; exact hvt) h1 h2 hh
    · have hvt' : vo v' ≠ t := by rw [← a2, a1]; exact hvt
      rw [own_same hs hvt] at h1; rw [own_same hs hvt'] at h2
      have hag : agentLoc c' lk a = agentLoc c lk a := hs.ag lk a (by rw [a1]; exact hvt)
      simp only at hh
      rw [hag] at hh
      exact hI.inj v v' (lk, a) h1 h2 hh
  · intro t' lk a ht'
    by_cases htt : t' = t
    · subst htt
      obtain ⟨h1, h2, h3, h4⟩ := htmp lk a ht'
      refine ⟨h1, h2, h3, ?_⟩
      intro v hv
      by_cases hvt : vo v = t'
      · exact h4 v hvt hv
      · exact hvt ((hvarAll v lk a hv).2.1.symm.trans h2)
    · rw [hs.thr t' htt] at ht'
      obtain ⟨h1, h2, h3, h4⟩ := hI.tmpOk t' lk a ht'
      have hag : agentLoc c' lk a = agentLoc c lk a := hs.ag lk a (by rw [h2]; exact htt)
      refine ⟨by rw [hs.lsz]; exact h1, h2, by rw [hag]; exact h3, ?_⟩
      intro v hv
      by_cases hvt : vo v = t
      · exact htt ((h2.symm.trans (hvarAll v lk a hv).2.1).trans hvt)
      · rw [own_same hs hvt] at hv; exact h4 v hv
  · intro t' lk ht'
    by_cases htt : t' = t
    · subst htt; exact htlk lk ht'
    · rw [hs.thr t' htt] at ht'; rw [hs.lsz]; exact hI.tmpLk t' lk ht'
  · intro lk a hlk hg
    by_cases hat : ao lk a = t
    · rcases horph lk a hlk hat hg with h | h | h
      · exact Or.inl h
      · exact Or.inr (Or.inl ⟨t, h⟩)
      · exact Or.inr (Or.inr ⟨t, h⟩)
    · have hag : agentLoc c' lk a = agentLoc c lk a := hs.ag lk a hat
      rw [hag] at hg; rw [hs.lsz] at hlk
      rcases hI.noOrphan lk a hlk hg with ⟨v, h⟩ | ⟨t', h⟩ | ⟨t', h⟩
      · have hvt : vo v ≠ t := by rw [← (hI.varOk v lk a h).2.1]; exact hat
        exact Or.inl ⟨v, by rw [own_same hs hvt]; exact h⟩
      · have htt : t' ≠ t := by rw [← (hI.tmpOk t' lk a h).2.1]; exact hat
        exact Or.inr (Or.inl ⟨t', by rw [hs.thr t' htt]; exact h⟩)
      · have htt : t' ≠ t := by rw [← Uses_ao h]; exact hat
        exact Or.inr (Or.inr ⟨t', Uses_same hs htt h⟩)
  · intro t' ht'
    by_cases htt : t' = t
    · subst htt; exact hthr
    · rw [hs.tsz] at ht'
      exact TOk_same hs htt (hI.thr t' ht')

end CppUtil.WClient
