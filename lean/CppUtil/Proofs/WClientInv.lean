/-
  Guard algebra, part 3: every quantum of every thread preserves the invariant.
-/
import CppUtil.Proofs.WClientCore

set_option linter.unusedSimpArgs false
set_option linter.unusedVariables false

namespace CppUtil.WClient
open CppUtil CppUtil.WLock

variable {P : WParams} {vo : Nat → Nat} {ao : Nat → Nat → Nat}

/-! ### building `SameFor` -/

theorem SameFor.refl (c : Client) (t : Nat) : SameFor vo ao t c c :=
  ⟨rfl, rfl, rfl, rfl, fun _ _ => rfl, fun _ _ => rfl, fun _ _ _ => rfl, rfl⟩

theorem SameFor.trans {t : Nat} {c c1 c2 : Client} (h1 : SameFor vo ao t c c1) (h2 : SameFor vo ao t c1 c2) :
    SameFor vo ao t c c2 :=
  ⟨h2.lsz.trans h1.lsz, h2.vsz.trans h1.vsz, h2.tsz.trans h1.tsz, h2.kinds.trans h1.kinds,
   fun t' h => (h2.thr t' h).trans (h1.thr t' h), fun v h => (h2.var v h).trans (h1.var v h),
   fun lk a h => (h2.ag lk a h).trans (h1.ag lk a h), h2.prog.trans h1.prog⟩

theorem SameFor.setThread {t : Nat} {c : Client} {th : Thread} (ht : t < c.threads.size)
    (hp : th.prog = (getThread c t).prog) : SameFor vo ao t c (setThread c t th) :=
  ⟨rfl, rfl, by simp, rfl, fun t' h => getThread_setThread_ne (Ne.symm h), fun _ _ => rfl, fun _ _ _ => rfl,
   by rw [getThread_setThread_self ht]; exact hp⟩

theorem SameFor.setVar {t : Nat} {c : Client} {v : Nat} {g : GVal} (hv : vo v = t) :
    SameFor vo ao t c (setVar c v g) :=
  ⟨rfl, by simp, rfl, rfl, fun _ _ => rfl,
   fun v' h => getVar_setVar_ne (by rintro rfl; exact h hv), fun _ _ _ => rfl, rfl⟩

theorem SameFor.setGhost {t : Nat} {c : Client} {v : Nat} {g : Option Nat} : SameFor vo ao t c (setGhost c v g) :=
  ⟨rfl, rfl, rfl, rfl, fun _ _ => rfl, fun _ _ => rfl, fun _ _ _ => rfl, rfl⟩

theorem SameFor.nextGid {t : Nat} {c : Client} {n : Nat} : SameFor vo ao t c { c with nextGid := n } :=
  ⟨rfl, rfl, rfl, rfl, fun _ _ => rfl, fun _ _ => rfl, fun _ _ _ => rfl, rfl⟩

theorem SameFor.pay {t : Nat} {c : Client} {p : Array (Nat × Nat)} : SameFor vo ao t c { c with pay := p } :=
  ⟨rfl, rfl, rfl, rfl, fun _ _ => rfl, fun _ _ => rfl, fun _ _ _ => rfl, rfl⟩

/-- a lock state in which only requests of `t` differ -/
theorem SameFor.setLockSt {t : Nat} {c : Client} {lk : Nat} {s : WLock.St} (hlk : lk < c.locks.size)
    (h : ∀ a, ao lk a ≠ t → (s.agents[a]?).getD .idle = agentLoc c lk a) : SameFor vo ao t c (setLockSt c lk s) :=
  ⟨by simp, rfl, rfl, rfl, fun _ _ => rfl, fun _ _ => rfl,
   fun lk' a hne => by
     by_cases hl : lk = lk'
     · subst hl; rw [agentLoc_setLockSt_self hlk]; exact h a hne
     · exact agentLoc_setLockSt_ne hl, rfl⟩

/-! ### the loop body of `advance` -/

def afterPhase (c1 : Client) (t : Nat) (r : PhaseRes) : Client :=
  let th := getThread c1 t
  match r with
  | .next => setThread c1 t { th with phase := th.phase + 1 }
  | .block => setThread c1 t { th with phase := th.phase + 1 }
  | .doneOp => setThread c1 t { th with pc := th.pc + 1, phase := 0, pend := .none }


/-- the current instruction of thread `t` -/
theorem StaleOk_iff {c : Client} {v : Nat} : StaleOk vo c v ↔
    ∃ h : (getThread c (vo v)).pc < (getThread c (vo v)).prog.size,
      ((getThread c (vo v)).prog[(getThread c (vo v)).pc]).target? = some v ∧
      (getThread c (vo v)).phase = ((getThread c (vo v)).prog[(getThread c (vo v)).pc]).relPhase ∧
      (getThread c (vo v)).pend = .none ∧ (getThread c (vo v)).finished = false := Iff.rfl

/-- the moving thread changed only its own record (and possibly fields of its variables other than the
    ownership), no request changed state -/
theorem Inv.update_own {t : Nat} {c c' : Client} (hI : Inv vo ao c) (hs : SameFor vo ao t c c')
    (hown : ∀ v, own c' v = own c v)
    (hal : ∀ lk a, agentLoc c' lk a = agentLoc c lk a)
    (hvlk : ∀ v lk, vo v = t → (getVar c' v).lk = some lk → lk < c'.locks.size)
    (hns : ∀ v lk a, vo v = t → own c v = some (lk, a) → StaleOk vo c v → StaleOk vo c' v)
    (htmp : ∀ lk a, (getThread c' t).tmp.own = some (lk, a) → lk < c'.locks.size ∧ ao lk a = t ∧
      isHeld (agentLoc c' lk a) ∧ ∀ v, vo v = t → own c' v ≠ some (lk, a))
    (htlk : ∀ lk, (getThread c' t).tmp.lk = some lk → lk < c'.locks.size)
    (horph : ∀ lk a, ao lk a = t → ((getThread c t).tmp.own = some (lk, a) ∨ Uses vo ao c t lk a) →
      (agentLoc c lk a).grant? ≠ none →
      (∃ v, own c' v = some (lk, a)) ∨ (getThread c' t).tmp.own = some (lk, a) ∨ Uses vo ao c' t lk a)
    (hthr : TOk vo ao c' t) : Inv vo ao c' := by
  have hk : ∀ v, kindOf c' v = kindOf c v := fun v => by simp [kindOf, hs.kinds]
  refine Inv.update hI hs ?_ ?_ hvlk ?_ htmp htlk ?_ hthr
  · intro v lk a hvt hv
    rw [hown] at hv
    obtain ⟨h1, h2, h3⟩ := hI.varOk v lk a hv
    refine ⟨by rw [hs.lsz]; exact h1, by rw [h2, hvt], ?_⟩
    rw [hal, hk]
    rcases h3 with h3 | ⟨h3, h4⟩
    · exact Or.inl h3
    · exact Or.inr ⟨h3, hns v lk a hvt hv h4⟩
  · intro v hvt hkk
    rw [hown]; apply hI.optNone; rw [← hk]; exact hkk
  · intro v v' r _ _ h1 h2 hh
    rw [hown] at h1 h2; rw [hal] at hh
    exact hI.inj v v' r h1 h2 hh
  · intro lk a hlk hat hg
    rw [hal] at hg; rw [hs.lsz] at hlk
    rcases hI.noOrphan lk a hlk hg with ⟨v, h⟩ | ⟨t', h⟩ | ⟨t', h⟩
    · exact Or.inl ⟨v, by rw [hown]; exact h⟩
    · have : t' = t := by rw [← (hI.tmpOk t' lk a h).2.1]; exact hat
      subst this
      exact horph lk a hat (Or.inl h) hg
    · have : t' = t := by rw [← Uses_ao h]; exact hat
      subst this
      exact horph lk a hat (Or.inr h) hg


/-- thread `t` is inside a quantum, about to run local code -/
structure Ctx (vo : Nat → Nat) (ao : Nat → Nat → Nat) (c : Client) (t : Nat) : Prop where
  wf : WF vo c
  inv : Inv vo ao c
  ht : t < c.threads.size
  pend : (getThread c t).pend = .none
  fin : (getThread c t).finished = false
  hpc : (getThread c t).pc < (getThread c t).prog.size

theorem Ctx.stage {c : Client} {t : Nat} (X : Ctx vo ao c t) :
    Stage (viewOf vo ao c t) ((getThread c t).prog[(getThread c t).pc]'X.hpc) (getThread c t).phase .none := by
  have := X.inv.thr t X.ht
  simp only [TOk, X.fin, X.pend, X.hpc, dite_true, reduceCtorEq, if_false, Bool.false_eq_true] at this
  exact this

theorem Ctx.opWF {c : Client} {t : Nat} (X : Ctx vo ao c t) :
    (((getThread c t).prog[(getThread c t).pc]'X.hpc).typed c.kinds = true) ∧
    (∀ v ∈ ((getThread c t).prog[(getThread c t).pc]'X.hpc).vars, v < c.vars.size ∧ vo v = t) ∧
    (∀ lk ∈ ((getThread c t).prog[(getThread c t).pc]'X.hpc).locks, lk < c.locks.size) :=
  X.wf.ops t X.ht _ X.hpc

/-- a variable of `t` other than the target of the current instruction is never stale -/
theorem Ctx.not_stale {c : Client} {t : Nat} (X : Ctx vo ao c t) {v : Nat} (hv : vo v = t)
    (h : ((getThread c t).prog[(getThread c t).pc]'X.hpc).target? ≠ some v ∨
         (getThread c t).phase ≠ ((getThread c t).prog[(getThread c t).pc]'X.hpc).relPhase) : ¬ StaleOk vo c v := by
  intro hst
  rw [StaleOk_iff] at hst
  subst hv
  obtain ⟨_, h1, h2, _, _⟩ := hst
  rcases h with h | h
  · exact h h1
  · exact h h2

theorem TOk_fresh {c : Client} {t : Nat} (hf : (getThread c t).finished = false) (hp : (getThread c t).pend = .none)
    (hph : (getThread c t).phase = 0) (htmp : (getThread c t).tmp.own = none) : TOk vo ao c t := by
  simp only [TOk, hf, hp, reduceCtorEq, if_false, Bool.false_eq_true]
  split
  · simp only [Stage, hph, if_true]; exact htmp
  · exact ⟨htmp, trivial⟩

/-- an instruction finishes; it changed neither the ownership of a variable nor a request, and the temporary is empty -/
theorem Ctx.doneOp_light {c c1 : Client} {t : Nat} (X : Ctx vo ao c t) (hs1 : SameFor vo ao t c c1)
    (hth1 : getThread c1 t = getThread c t) (hown : ∀ v, own c1 v = own c v)
    (hal : ∀ lk a, agentLoc c1 lk a = agentLoc c lk a)
    (hvlk : ∀ v lk, vo v = t → (getVar c1 v).lk = some lk → lk < c.locks.size)
    (htmpn : (getThread c t).tmp.own = none)
    (hnst : ∀ v, vo v = t → ¬ StaleOk vo c v)
    (hnouse : ∀ lk a, Uses vo ao c t lk a → (agentLoc c lk a).grant? = none) :
    Inv vo ao (afterPhase c1 t .doneOp) := by
  have ht1 : t < c1.threads.size := by rw [hs1.tsz]; exact X.ht
  have hs : SameFor vo ao t c (afterPhase c1 t .doneOp) :=
    hs1.trans (SameFor.setThread ht1 rfl)
  have hth : getThread (afterPhase c1 t .doneOp) t =
      { (getThread c t) with pc := (getThread c t).pc + 1, phase := 0, pend := .none } := by
    simp only [afterPhase]; rw [getThread_setThread_self ht1, hth1]
  refine Inv.update_own X.inv hs (fun v => hown v) (fun lk a => hal lk a) ?_ ?_ ?_ ?_ ?_ ?_
  · intro v lk hv h; rw [hs.lsz]; exact hvlk v lk hv h
  · intro v lk a hv _ hst; exact absurd hst (hnst v hv)
  · intro lk a h; rw [hth] at h; simp only [htmpn] at h; cases h
  · intro lk h; rw [hth] at h; rw [hs.lsz]; exact X.inv.tmpLk t lk h
  · intro lk a _ h hg
    rcases h with h | h
    · rw [htmpn] at h; cases h
    · exact absurd (hnouse lk a h) hg
  · apply TOk_fresh <;> rw [hth] <;> simp [X.fin, htmpn]

end CppUtil.WClient
