/-
  MCSLock: the theorems.  The invariant holds initially and is preserved by every action, so it holds in
  every reachable state of the model (for every number of locks, threads and requests within the capacity
  of the pointer and counter fields, every program and every interleaving).  Consequences: mutual
  exclusion under the S / SIX / X matrix, and no access to a freed queue node.
-/
import CppUtil.Proofs.McsStep

namespace CppUtil.Mcs
open CppUtil

variable {W : Nat → Bool → Bool → Nat → Word} {P : Params} {pb cb : Nat} {s : St} {Q : Nat → List Grp}

/-! ### initial state -/

theorem invx_init (nlocks nthreads : Nat) (hpb : 0 < pb) (hcb : 1 < cb) :
    InvX W P pb cb (mkSt nlocks nthreads) (fun _ => []) := by
  have hag : (mkSt nlocks nthreads).agents = [] := rfl
  refine ⟨?_, ?_⟩
  · apply inv_assemble
    · rfl
    · exact hpb
    · rw [hag]; simpa using hcb
    · intro b hb; rw [hag] at hb; cases hb
    · intro _ _; rfl
    · intro ℓ hℓ
      have hlw : lockW (mkSt nlocks nthreads) ℓ = 0 := by
        unfold lockW rd mkSt
        simp only [List.getD_eq_getElem?_getD]
        cases h : (List.replicate nlocks (0 : Word))[ℓ]? with
        | none => rfl
        | some w =>
          have := List.mem_of_getElem? h
          rw [List.mem_replicate] at this
          simp [this.2]
      refine ⟨by simp, by rw [hlw]; rfl, ?_, ?_, ?_, ?_, ?_, ?_, ?_⟩
      · intro j G hj; simp at hj
      · intro G hG; cases hG
      · intro j G hj; simp at hj
      · intro j G h hj; simp at hj
      · intro G hG; cases hG
      · intro k b hk; rw [hag] at hk; simp at hk
      · intro k b hk; rw [hag] at hk; simp at hk
    · constructor
      · intro k o h
        cases o with
        | priv i => obtain ⟨a, ha, _⟩ := h; rw [hag] at ha; simp at ha
        | cache t =>
          exfalso
          have h' : (List.replicate nthreads (none : Option Nat))[t]? = some (some k) := h
          have := List.mem_of_getElem? h'
          rw [List.mem_replicate] at this
          cases this.2
        | grp ℓ => obtain ⟨G, hG, _⟩ := h; cases hG
      · intro k o o' h _
        exfalso
        cases o with
        | priv i => obtain ⟨a, ha, _⟩ := h; rw [hag] at ha; simp at ha
        | cache t =>
          have h' : (List.replicate nthreads (none : Option Nat))[t]? = some (some k) := h
          have := List.mem_of_getElem? h'
          rw [List.mem_replicate] at this
          cases this.2
        | grp ℓ => obtain ⟨G, hG, _⟩ := h; cases hG
    · intro k b hk; rw [hag] at hk; simp at hk
  · intro a ha; rw [hag] at ha; cases ha

/-! ### every action -/

theorem invx_step (hW : WordSpecs P.C pb cb W) (hP : P.publishStore = false) (hX : InvX W P pb cb s Q)
    (act : Act) (hok : ActOK s act) (hfit : Fits pb cb (step P s act)) :
    InvX W P pb cb (step P s act) (ghostStep P s Q act) := by
  cases act with
  | atom i => exact invx_atom hW hP hX i
  | spawn tid lk m =>
    refine ⟨case_spawn hX.inv tid lk m hok.1 hok.2 hfit, ?_⟩
    show XModes (spawnLock s tid lk m).1
    rw [spawnLock_eq]
    intro b hb m' hm'
    have hag : ({ (takeNode s tid).1 with agents := (takeNode s tid).1.agents ++
        [newAgent tid lk (takeNode s tid).2.1 m] } : St).agents = s.agents ++ [newAgent tid lk (takeNode s tid).2.1 m] := by
      unfold takeNode; split <;> rfl
    rw [hag] at hb
    rcases List.mem_append.mp hb with hb | hb
    · exact hX.xm b hb m' hm'
    · simp only [List.mem_singleton] at hb; subst hb
      cases m <;> simp [newAgent] at hm' <;> (subst hm'; simp)
  | release i tid =>
    refine ⟨case_beginRelease hX.inv i tid hok, ?_⟩
    show XModes (beginRelease s i tid)
    unfold beginRelease
    cases hi : s.agents[i]? with
    | none => exact hX.xm
    | some a =>
      simp only
      split
      · exact xmodes_setAgent hX.xm hi rfl (by intro m' h; rcases h with h | h <;> cases h)
      · exact hX.xm
  | upgrade i tid =>
    refine ⟨case_beginUpgrade hX.inv i tid hok, ?_⟩
    show XModes (beginUpgrade s i tid)
    unfold beginUpgrade
    cases hi : s.agents[i]? with
    | none => exact hX.xm
    | some a =>
      simp only
      split
      · exact xmodes_setAgent hX.xm hi rfl (by intro m' h; rcases h with h | h <;> cases h)
      · exact hX.xm
  | downgrade i tid =>
    refine ⟨case_beginDowngrade hX.inv i tid hok, ?_⟩
    show XModes (beginDowngrade s i tid)
    unfold beginDowngrade
    cases hi : s.agents[i]? with
    | none => exact hX.xm
    | some a =>
      simp only
      split
      · exact xmodes_setAgent hX.xm hi rfl (by intro m' h; rcases h with h | h <;> cases h)
      · exact hX.xm
  | exit tid =>
    refine ⟨case_exit hX.inv tid, ?_⟩
    show XModes (threadExit s tid).1
    apply xmodes_same hX.xm
    unfold threadExit; split <;> rfl

/-! ### every run -/

def ghostRun (P : Params) : St → (Nat → List Grp) → List Act → (Nat → List Grp)
  | _, Q, [] => Q
  | s, Q, act :: rest => ghostRun P (step P s act) (ghostStep P s Q act) rest

/-- every action of the run is well-formed and every state fits the capacity of the word fields -/
def RunOK (pb cb : Nat) (P : Params) : St → List Act → Prop
  | _, [] => True
  | s, act :: rest => ActOK s act ∧ Fits pb cb (step P s act) ∧ RunOK pb cb P (step P s act) rest

theorem run_cons (P : Params) (s : St) (act : Act) (rest : List Act) :
    run P s (act :: rest) = run P (step P s act) rest := rfl

theorem invx_run (hW : WordSpecs P.C pb cb W) (hP : P.publishStore = false) :
    ∀ (acts : List Act) (s : St) (Q : Nat → List Grp), InvX W P pb cb s Q → RunOK pb cb P s acts →
      InvX W P pb cb (run P s acts) (ghostRun P s Q acts) := by
  intro acts
  induction acts with
  | nil => intro s Q h _; exact h
  | cons act rest ih =>
    intro s Q h hr
    rw [run_cons]
    exact ih _ _ (invx_step hW hP h act hr.1 hr.2.1) hr.2.2

/-! ### mutual exclusion -/

/-- where a granted head sits in the queue -/
theorem granted_head_pos (hI : Inv W P pb cb s Q) {i : Nat} {a : Agent} (hi : s.agents[i]? = some a)
    {m : Mode} (hg : a.loc.grant? = some m) (hm : m ≠ .S) :
    ∃ j G, (Q a.lk)[j]? = some G ∧ G.head = some i ∧ a.loc.headMode.isSome ∧ E2 s (Q a.lk) j ∧ (m = .X → j = 0) := by
  have hlive : a.loc.headMode.isSome := by
    cases hl : a.loc <;> simp_all [Loc.grant?, Loc.headMode]
    all_goals (rename_i m'; cases m' <;> simp_all)
  obtain ⟨j, G, hj, hh, _, hho⟩ := head_group (W := W) hI hi hlive
  refine ⟨j, G, hj, hh, hlive, ?_, ?_⟩
  · unfold HeadOK at hho
    cases hl : a.loc with
    | held m' =>
      rw [hl] at hho hg
      cases m' with
      | S => simp [Loc.grant?] at hg; exact absurd hg.symm hm
      | SIX => exact hho
      | X => exact Or.inl hho
    | upg ph => rw [hl] at hho; cases ph <;> first | exact hho | exact Or.inl hho.1
    | dng ph => rw [hl] at hho; exact Or.inl hho.1
    | _ => rw [hl] at hg; simp [Loc.grant?] at hg
  · intro hmx
    subst hmx
    unfold HeadOK at hho
    cases hl : a.loc with
    | held m' =>
      rw [hl] at hho hg
      cases m' with
      | X => exact hho
      | _ => simp [Loc.grant?] at hg
    | dng ph => rw [hl] at hho; exact hho.1
    | upg ph => rw [hl] at hg; simp [Loc.grant?] at hg
    | _ => rw [hl] at hg; simp [Loc.grant?] at hg

/-- **mutual exclusion**: in a state satisfying the invariant, two different requests that hold grants on
    the same lock hold compatible modes -/
theorem exclusion (hI : Inv W P pb cb s Q) {i j : Nat} {a b : Agent} (hij : i ≠ j)
    (hi : s.agents[i]? = some a) (hj : s.agents[j]? = some b) (hlk : a.lk = b.lk)
    {m m' : Mode} (hga : a.loc.grant? = some m) (hgb : b.loc.grant? = some m') : conflict m m' = false := by
  have hwf := hI.wf a (List.mem_of_getElem? hi)
  have hL := hI.locks a.lk hwf.2.1
  -- a granted shared holder: its group is the first one and has no live head
  have hS : ∀ {k : Nat} {c : Agent}, s.agents[k]? = some c → c.lk = a.lk → c.loc.grant? = some .S →
      ∃ G, (Q a.lk)[0]? = some G ∧ hmode s G = none := by
    intro k c hk hc hg
    have hl : c.loc = .held .S := by
      cases hl : c.loc <;> simp_all [Loc.grant?]
    have hsm : c.loc.sMem = true := by rw [hl]; rfl
    obtain ⟨j', G, hj', _, hmo⟩ := member_group hI hk hsm
    rw [hc] at hj' hmo
    simp only [MemOK, hl] at hmo
    have h0 : j' = 0 := by
      rcases Nat.eq_zero_or_pos j' with h | h
      · exact h
      · have := hL.laterHeads j' G hj' h; rw [hmo] at this; simp at this
    subst h0
    exact ⟨G, hj', hmo⟩
  -- two granted heads cannot coexist
  have hHH : ∀ {k k' : Nat} {c c' : Agent}, k ≠ k' → s.agents[k]? = some c → s.agents[k']? = some c' →
      c.lk = a.lk → c'.lk = a.lk → ∀ {n n' : Mode}, c.loc.grant? = some n → c'.loc.grant? = some n' →
      n ≠ .S → n' ≠ .S → False := by
    intro k k' c c' hkk hk hk' hc hc' n n' hg hg' hn hn'
    obtain ⟨j1, G1, h1, hh1, hl1, he1, _⟩ := granted_head_pos (W := W) hI hk hg hn
    obtain ⟨j2, G2, h2, hh2, hl2, he2, _⟩ := granted_head_pos (W := W) hI hk' hg' hn'
    rw [hc] at h1 he1; rw [hc'] at h2 he2
    have hm1 : hmode s G1 = c.loc.headMode := hmode_eq_of_head hh1 hk
    have hm2 : hmode s G2 = c'.loc.headMode := hmode_eq_of_head hh2 hk'
    rcases he1 with e1 | ⟨e1, G0, h0, hn0⟩ <;> rcases he2 with e2 | ⟨e2, G0', h0', hn0'⟩
    · subst e1; subst e2
      rw [h1] at h2; cases h2
      rw [hh1] at hh2; exact hkk (Option.some.inj hh2)
    · subst e1
      rw [h1] at h0'; cases h0'
      rw [hm1] at hn0'; rw [hn0'] at hl1; cases hl1
    · subst e2
      rw [h2] at h0; cases h0
      rw [hm2] at hn0; rw [hn0] at hl2; cases hl2
    · subst e1; subst e2
      rw [h1] at h2; cases h2
      rw [hh1] at hh2; exact hkk (Option.some.inj hh2)
  -- a granted shared holder and an exclusive holder cannot coexist
  have hSX : ∀ {k k' : Nat} {c c' : Agent}, s.agents[k]? = some c → s.agents[k']? = some c' →
      c.lk = a.lk → c'.lk = a.lk → c.loc.grant? = some .S → c'.loc.grant? = some .X → False := by
    intro k k' c c' hk hk' hc hc' hg hg'
    obtain ⟨G, hG, hnone⟩ := hS hk hc hg
    obtain ⟨j2, G2, h2, hh2, hl2, _, hx⟩ := granted_head_pos (W := W) hI hk' hg' (by simp)
    rw [hc'] at h2
    have := hx rfl; subst this
    rw [hG] at h2; cases h2
    rw [hmode_eq_of_head hh2 hk'] at hnone
    rw [hnone] at hl2; cases hl2
  cases m <;> cases m' <;> simp only [conflict] <;> first
    | rfl
    | (exfalso; first
        | exact hSX hi hj rfl hlk.symm hga hgb
        | exact hSX hj hi hlk.symm rfl hgb hga
        | exact hHH hij hi hj rfl hlk.symm hga hgb (by simp) (by simp))

/-- **no access to a freed queue node** and **mutual exclusion** in every reachable state -/
theorem reachable_safe (hW : WordSpecs P.C pb cb W) (hP : P.publishStore = false) (nlocks nthreads : Nat)
    (acts : List Act) (hr : RunOK pb cb P (mkSt nlocks nthreads) acts) (hpb : 0 < pb) :
    (run P (mkSt nlocks nthreads) acts).uaf = 0 ∧
    ∀ (i j : Nat) (a b : Agent) (m m' : Mode), i ≠ j → (run P (mkSt nlocks nthreads) acts).agents[i]? = some a →
      (run P (mkSt nlocks nthreads) acts).agents[j]? = some b → a.lk = b.lk →
      a.loc.grant? = some m → b.loc.grant? = some m' → conflict m m' = false := by
  have hX := invx_run hW hP acts _ _ (invx_init (W := W) (P := P) nlocks nthreads hpb hW.cbPos) hr
  exact ⟨hX.inv.uaf, fun i j a b m m' hij hi hj hlk hga hgb => exclusion hX.inv hij hi hj hlk hga hgb⟩

end CppUtil.Mcs
