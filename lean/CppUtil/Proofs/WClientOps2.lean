/-
  Guard algebra, part 5: instructions that create requests (phase 0 of the calls).
-/
import CppUtil.Proofs.WClientOps1

set_option linter.unusedSimpArgs false
set_option linter.unusedVariables false

namespace CppUtil.WClient
open CppUtil CppUtil.WLock

variable {P : WParams} {vo : Nat → Nat} {ao : Nat → Nat → Nat}

theorem spawnStart_eq {c : Client} {lk : Nat} (r : Req) :
    spawnStart P c lk r =
      (setLockSt c lk { lockSt c lk with agents := (lockSt c lk).agents ++ [r.start] }, (lockSt c lk).agents.length) := by
  simp only [spawnStart, WLock.step]
  have h : ({ lockSt c lk with agents := (lockSt c lk).agents ++ [Loc.idle] } : WLock.St).agents[(lockSt c lk).agents.length]? = some Loc.idle := by
    simp
  simp only [h, setLoc]
  congr 2
  simp

theorem Ctx.no_uses_phase {c : Client} {t : Nat} (X : Ctx vo ao c t) (h : (getThread c t).phase ≠ 1) :
    ∀ lk a, ¬ Uses vo ao c t lk a := by
  intro lk a hu
  obtain ⟨_, h1, _⟩ := hu.eqs
  exact h h1

/-- a variable's reference always points at an existing request -/
theorem Inv.ref_lt {c : Client} (hI : Inv vo ao c) {v lk a : Nat} (h : own c v = some (lk, a)) :
    a < (lockSt c lk).agents.length := by
  apply agentLoc_ne_idle_lt
  rcases (hI.varOk v lk a h).2.2 with ⟨s, hs⟩ | ⟨⟨r, hr⟩, -⟩
  · rw [hs]; simp
  · rw [hr]; simp

/-- phase 0 of a call: a new request is created and entered; the thread blocks on its first atomic operation -/
theorem Ctx.spawn_block {c : Client} {t : Nat} (X : Ctx vo ao c t) (hph : (getThread c t).phase = 0)
    {lk : Nat} (hlk : lk < c.locks.size) (r : Req) (k : CallK)
    (hcall : ((getThread c t).prog[(getThread c t).pc]'X.hpc).call? = some k)
    (hrk : r.start.call = some k) (hgr : r.start.grant? = none)
    (hoplk : ∀ th', opLk (fun v => if vo v = t then getVar c v else {}) th'
      ((getThread c t).prog[(getThread c t).pc]'X.hpc) = lk)
    (hnupg : ∀ d s, (getThread c t).prog[(getThread c t).pc]'X.hpc ≠ .upg d s) (o : Out) :
    IterOk vo c t
      (setThread (spawnStart P c lk r).1 t
        { (getThread (spawnStart P c lk r).1 t) with pend := .atom lk (spawnStart P c lk r).2, ag := (spawnStart P c lk r).2 },
       o, .block) := by
  rw [spawnStart_eq]
  simp only [getThread_setLockSt]
  generalize hop : (getThread c t).prog[(getThread c t).pc]'X.hpc = op at *
  obtain ⟨a, ha⟩ : ∃ a, a = (lockSt c lk).agents.length := ⟨_, rfl⟩
  obtain ⟨s2, hs2⟩ : ∃ s2 : WLock.St, s2 = { lockSt c lk with agents := (lockSt c lk).agents ++ [r.start] } := ⟨_, rfl⟩
  rw [← hs2, ← ha]
  have hidle : agentLoc c lk a = .idle := by simp [agentLoc_eq, ha]
  have hI0 := X.inv.updAo t hidle
  obtain ⟨ao', hao'⟩ : ∃ ao', ao' = updAo ao lk a t := ⟨_, rfl⟩
  rw [← hao'] at hI0
  have htmpn : (getThread c t).tmp.own = none := by
    have := X.stage; simp only [Stage, hph, if_true] at this; exact this
  -- requests of the lock after the spawn
  have hs2lt : ∀ a', a' < a → s2.agents[a']? = (lockSt c lk).agents[a']? := by
    intro a' h; rw [ha] at h; simp only [hs2]; rw [List.getElem?_append_left h]
  have hs2a : s2.agents[a]? = some r.start := by simp [hs2, ha]
  have hlsame : SameFor vo ao' t c (setLockSt c lk s2) := by
    apply SameFor.setLockSt hlk
    intro a' hne
    rcases Nat.lt_trichotomy a' a with h | h | h
    · rw [hs2lt a' h]; rfl
    · subst h; exact absurd (by simp [hao']) hne
    · have h1 : s2.agents[a']? = none := by
        apply List.getElem?_eq_none; simp only [hs2, List.length_append, List.length_singleton]; omega
      have h2 : (lockSt c lk).agents[a']? = none := List.getElem?_eq_none (by omega)
      simp [h1, agentLoc_eq, h2]
  refine IterOk.block (ao' := ao') X (hlsame.trans (SameFor.setThread (by simpa using X.ht) rfl)) ?_
  rw [afterPhase_setThread _ (by simpa using X.ht)]
  obtain ⟨th', hth'⟩ : ∃ th', th' = bumpTh { (getThread c t) with pend := Pend.atom lk a, ag := a } .block := ⟨_, rfl⟩
  rw [← hth']
  have hs : SameFor vo ao' t c (setThread (setLockSt c lk s2) t th') :=
    hlsame.trans (SameFor.setThread (by simpa using X.ht) (by rw [hth']; rfl))
  -- request states in the new client
  have hal_old : ∀ lk' a', (lk' ≠ lk ∨ a' < a) →
      agentLoc (setThread (setLockSt c lk s2) t th') lk' a' = agentLoc c lk' a' := by
    intro lk' a' h
    rw [agentLoc_setThread]
    by_cases hl : lk = lk'
    · subst hl
      rcases h with h | h
      · exact absurd rfl h
      · rw [agentLoc_setLockSt_self hlk, hs2lt a' h]; rfl
    · exact agentLoc_setLockSt_ne hl
  have hal_new : agentLoc (setThread (setLockSt c lk s2) t th') lk a = r.start := by
    rw [agentLoc_setThread, agentLoc_setLockSt_self hlk, hs2a]; rfl
  have hgv : ∀ v, getVar (setThread (setLockSt c lk s2) t th') v = getVar c v := fun _ => rfl
  have hown : ∀ v, own (setThread (setLockSt c lk s2) t th') v = own c v := fun _ => rfl
  have hth : getThread (setThread (setLockSt c lk s2) t th') t = th' :=
    getThread_setThread_self (by simpa using X.ht)
  have href : ∀ v lk' a', own c v = some (lk', a') → (lk' ≠ lk ∨ a' < a) := by
    intro v lk' a' h
    by_cases hl : lk' = lk
    · subst hl; exact Or.inr (by rw [ha]; exact X.inv.ref_lt h)
    · exact Or.inl hl
  have hnostale : ∀ v, vo v = t → ¬ StaleOk vo c v := by
    intro v hv; apply X.not_stale hv; right
    rw [hph, hop]; cases op <;> simp [Op.relPhase]
  refine Inv.update hI0 hs ?_ ?_ ?_ ?_ ?_ ?_ ?_ ?_
  · intro v lk' a' hv h
    rw [hown] at h
    obtain ⟨h1, h2, h3⟩ := hI0.varOk v lk' a' h
    refine ⟨by rw [hs.lsz]; exact h1, by rw [h2, hv], ?_⟩
    rw [hal_old lk' a' (href v lk' a' h)]
    rcases h3 with h3 | ⟨_, h4⟩
    · exact Or.inl (by simpa [kindOf, hs.kinds] using h3)
    · exact absurd h4 (hnostale v hv)
  · intro v _ hk; rw [hown]; exact X.inv.optNone v (by simpa [kindOf, hs.kinds] using hk)
  · intro v lk' _ h; rw [hgv] at h; rw [hs.lsz]; exact X.inv.vlk v lk' h
  · intro v v' rr _ _ h1 h2 hh
    rw [hown] at h1 h2
    obtain ⟨lk', a'⟩ := rr
    rw [hal_old lk' a' (href v lk' a' h1)] at hh
    exact X.inv.inj v v' (lk', a') h1 h2 hh
  · intro lk' a' h; rw [hth] at h; simp only [hth', bumpTh, htmpn] at h; cases h
  · intro lk' h; rw [hth] at h; rw [hs.lsz]; exact X.inv.tmpLk t lk' (by simpa [hth', bumpTh] using h)
  · intro lk' a' hlk' hat hg
    by_cases hnew : lk' = lk ∧ a' = a
    · obtain ⟨rfl, rfl⟩ := hnew
      rw [hal_new] at hg; exact absurd hgr hg
    · have hao : ao lk' a' = t := by rw [← hat, hao']; exact (updAo_ne hnew).symm
      have hold : lk' ≠ lk ∨ a' < a := by
        by_cases hl : lk' = lk
        · subst hl
          right
          have hne : a' ≠ a := fun h => hnew ⟨rfl, h⟩
          by_cases hlt : a' < a
          · exact hlt
          · exfalso
            have h1 : s2.agents[a']? = none := by
              apply List.getElem?_eq_none; simp only [hs2, List.length_append, List.length_singleton]; omega
            rw [agentLoc_setThread, agentLoc_setLockSt_self hlk, h1] at hg
            exact hg rfl
        · exact Or.inl hl
      rw [hal_old lk' a' hold] at hg
      rw [hs.lsz] at hlk'
      rcases X.inv.noOrphan lk' a' hlk' hg with ⟨v, h⟩ | ⟨t', h⟩ | ⟨t', h⟩
      · exact Or.inl ⟨v, h⟩
      · have : t' = t := by rw [← (X.inv.tmpOk t' lk' a' h).2.1]; exact hao
        subst this; rw [htmpn] at h; cases h
      · have : t' = t := by rw [← Uses_ao h]; exact hao
        subst this
        exact absurd h (X.no_uses_phase (by rw [hph]; simp) lk' a')
  · have hVgv : (viewOf vo ao' (setThread (setLockSt c lk s2) t th') t).gv = fun v => if vo v = t then getVar c v else {} := rfl
    have hVth : (viewOf vo ao' (setThread (setLockSt c lk s2) t th') t).th = th' := hth
    have hlkeq : opLk (viewOf vo ao' (setThread (setLockSt c lk s2) t th') t).gv th' op = lk := by
      rw [hVgv]; exact hoplk th'
    have hnl : (viewOf vo ao' (setThread (setLockSt c lk s2) t th') t).nl = c.locks.size := hs.lsz
    have e1 : th'.phase = 1 := by rw [hth']; simp [bumpTh, hph]
    have e2 : th'.pend = .atom lk a := by rw [hth']; simp [bumpTh]
    have e3 : th'.tmp.own = none := by rw [hth']; simp [bumpTh, htmpn]
    have e4 : th'.ag = a := by rw [hth']; simp [bumpTh]
    refine TOk_intro hth (by rw [hth']; simp [bumpTh, X.fin]) (by rw [e2]; simp) (by rw [hth']; exact X.hpc) op
      (by subst hth'; exact hop) ?_
    rw [e1, e2]
    simp only [Stage, hVth]
    refine ⟨trivial, e3, by rw [hlkeq], e4.symm, ⟨k, hcall, ?_⟩, ?_⟩
    · simp only [View.CallAg, hVth, hlkeq, e4, hnl]
      refine ⟨hlk, ?_, ?_⟩
      · rw [viewOf_al (by simp [hao'])]; rw [hal_new]; exact hrk
      · intro v hv
        obtain ⟨_, hv'⟩ := viewOf_own_some hv
        rw [hown] at hv'
        exact absurd (X.inv.ref_lt hv') (by omega)
    · cases op <;> first | trivial | exact absurd rfl (hnupg _ _)


/-- `spawn_block` with `spawnStart` evaluated -/
theorem Ctx.spawn_block' (P : WParams) {c : Client} {t : Nat} (X : Ctx vo ao c t) (hph : (getThread c t).phase = 0)
    {lk : Nat} (hlk : lk < c.locks.size) (r : Req) (k : CallK)
    (hcall : ((getThread c t).prog[(getThread c t).pc]'X.hpc).call? = some k)
    (hrk : r.start.call = some k) (hgr : r.start.grant? = none)
    (hoplk : ∀ th', opLk (fun v => if vo v = t then getVar c v else {}) th'
      ((getThread c t).prog[(getThread c t).pc]'X.hpc) = lk)
    (hnupg : ∀ d s, (getThread c t).prog[(getThread c t).pc]'X.hpc ≠ .upg d s) (o : Out) :
    IterOk vo c t
      (setThread (setLockSt c lk { lockSt c lk with agents := (lockSt c lk).agents ++ [r.start] }) t
        { (getThread c t) with pend := .atom lk (lockSt c lk).agents.length, ag := (lockSt c lk).agents.length },
       o, .block) := by
  have := X.spawn_block (P := P) hph hlk r k hcall hrk hgr hoplk hnupg o
  rw [spawnStart_eq] at this
  exact this

theorem iter_lock0 {c : Client} {t : Nat} (X : Ctx vo ao c t) (m : Mode) (d lk k : Nat)
    (hop : (getThread c t).prog[(getThread c t).pc]'X.hpc = .lock m d lk) (hph : (getThread c t).phase = 0) :
    IterOk vo c t (runPhase P c t k (.lock m d lk) (getThread c t).phase) := by
  have hw := X.opWF
  simp only [hop, Op.locks, List.mem_cons, List.not_mem_nil, or_false, forall_eq] at hw
  rw [hph]
  simp only [runPhase, spawnStart_eq, getThread_setLockSt]
  exact Ctx.spawn_block' P X hph hw.2.2 (.lock m) (.lock m) (by rw [hop]; rfl) rfl rfl
    (fun th' => by rw [hop]; rfl) (fun d s => by rw [hop]; simp) []

theorem iter_prep0 {c : Client} {t : Nat} (X : Ctx vo ao c t) (d lk k : Nat)
    (hop : (getThread c t).prog[(getThread c t).pc]'X.hpc = .prep d lk) (hph : (getThread c t).phase = 0) :
    IterOk vo c t (runPhase P c t k (.prep d lk) (getThread c t).phase) := by
  have hw := X.opWF
  simp only [hop, Op.locks, List.mem_cons, List.not_mem_nil, or_false, forall_eq] at hw
  rw [hph]
  simp only [runPhase, spawnStart_eq, getThread_setLockSt]
  exact Ctx.spawn_block' P X hph hw.2.2 .prepare .prep (by rw [hop]; rfl) rfl rfl
    (fun th' => by rw [hop]; rfl) (fun d s => by rw [hop]; simp) []

theorem iter_getver0 {c : Client} {t : Nat} (X : Ctx vo ao c t) (d lk k : Nat)
    (hop : (getThread c t).prog[(getThread c t).pc]'X.hpc = .getver d lk) (hph : (getThread c t).phase = 0) :
    IterOk vo c t (runPhase P c t k (.getver d lk) (getThread c t).phase) := by
  have hw := X.opWF
  simp only [hop, Op.locks, List.mem_cons, List.not_mem_nil, or_false, forall_eq] at hw
  rw [hph]
  simp only [runPhase, spawnStart_eq, getThread_setLockSt]
  exact Ctx.spawn_block' P X hph hw.2.2 .getVersion .gv (by rw [hop]; rfl) rfl rfl
    (fun th' => by rw [hop]; rfl) (fun d s => by rw [hop]; simp) []

/-- the lock a version-carrying guard points at exists -/
theorem Ctx.var_lk_lt {c : Client} {t : Nat} (X : Ctx vo ao c t) (v : Nat) : (getVar c v).lk.getD 0 < c.locks.size := by
  cases h : (getVar c v).lk with
  | none => exact X.wf.lpos
  | some lk => exact X.inv.vlk v lk h

theorem iter_try0 {c : Client} {t : Nat} (X : Ctx vo ao c t) (m : Mode) (d s k : Nat)
    (hop : (getThread c t).prog[(getThread c t).pc]'X.hpc = .tryLock m d s) (hph : (getThread c t).phase = 0) :
    IterOk vo c t (runPhase P c t k (.tryLock m d s) (getThread c t).phase) := by
  have hw := X.opWF
  simp only [hop, Op.vars, List.mem_cons, List.not_mem_nil, or_false, forall_eq_or_imp, forall_eq] at hw
  rw [hph]
  simp only [runPhase, spawnStart_eq, getThread_setLockSt]
  exact Ctx.spawn_block' P X hph (X.var_lk_lt s) (.tryLock m (getVar c s).ver) (.try_ m) (by rw [hop]; rfl) rfl rfl
    (fun th' => by rw [hop]; simp [opLk, hw.2.1.2.2]) (fun d s => by rw [hop]; simp) []

theorem iter_verify0 {c : Client} {t : Nat} (X : Ctx vo ao c t) (v k : Nat)
    (hop : (getThread c t).prog[(getThread c t).pc]'X.hpc = .verify v) (hph : (getThread c t).phase = 0) :
    IterOk vo c t (runPhase P c t k (.verify v) (getThread c t).phase) := by
  have hw := X.opWF
  simp only [hop, Op.vars, List.mem_cons, List.not_mem_nil, or_false, forall_eq] at hw
  rw [hph]
  simp only [runPhase, spawnStart_eq, getThread_setLockSt]
  exact Ctx.spawn_block' P X hph (X.var_lk_lt v) (.verify false) .vf (by rw [hop]; rfl) rfl rfl
    (fun th' => by rw [hop]; simp [opLk, hw.2.1.2]) (fun d s => by rw [hop]; simp) []

theorem iter_cverify0 {c : Client} {t : Nat} (X : Ctx vo ao c t) (v k : Nat)
    (hop : (getThread c t).prog[(getThread c t).pc]'X.hpc = .cverify v) (hph : (getThread c t).phase = 0) :
    IterOk vo c t (runPhase P c t k (.cverify v) (getThread c t).phase) := by
  have hw := X.opWF
  simp only [hop, Op.vars, List.mem_cons, List.not_mem_nil, or_false, forall_eq] at hw
  rw [hph]
  simp only [runPhase]
  split
  · exact X.iter_light (by rw [hop]; rfl) (by rw [hop]; rfl) (SameFor.refl c t) rfl (fun _ => rfl) (fun _ _ => rfl)
      (fun v lk _ h => X.inv.vlk v lk h) (fun lk a h => absurd h (X.no_uses_phase (by rw [hph]; simp) lk a))
  · simp only [spawnStart_eq, getThread_setLockSt]
    exact Ctx.spawn_block' P X hph (X.var_lk_lt v) (.verify true) .vf (by rw [hop]; rfl) rfl rfl
      (fun th' => by rw [hop]; simp [opLk, hw.2.1.2]) (fun d s => by rw [hop]; simp) []

end CppUtil.WClient
