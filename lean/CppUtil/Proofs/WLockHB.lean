/-
  C08 for the word locks: happens-before between conflicting critical sections, derived from the
  memory orders of the call sites (regenerated from the source).  The word-lock model is wrapped with
  vector clocks: every agent is its own thread (the weakest assumption: sections of one thread are
  ordered by program order anyway), every atomic step ticks the agent's clock, an acquiring read joins
  the view released by the word's current release sequence, a releasing write publishes the agent's
  clock; read-modify-write operations continue release sequences, plain stores end them (C++20).
  Executions: interleavings in which every read returns the newest value.
-/
import CppUtil.Proofs.WLockMore

namespace CppUtil.WLock
open CppUtil

abbrev VC := Nat → Nat

def VC.le (a b : VC) : Prop := ∀ i, a i ≤ b i
def VC.join (a b : VC) : VC := fun i => max (a i) (b i)
def VC.tick (a : VC) (i : Nat) : VC := fun j => if j = i then a j + 1 else a j
def VC.bot : VC := fun _ => 0

theorem VC.le_refl (a : VC) : VC.le a a := fun _ => Nat.le_refl _
theorem VC.le_trans {a b c : VC} (h1 : VC.le a b) (h2 : VC.le b c) : VC.le a c := fun i => Nat.le_trans (h1 i) (h2 i)
theorem VC.le_join_left (a b : VC) : VC.le a (VC.join a b) := fun i => Nat.le_max_left _ _
theorem VC.le_join_right (a b : VC) : VC.le b (VC.join a b) := fun i => Nat.le_max_right _ _
theorem VC.le_tick (a : VC) (i : Nat) : VC.le a (VC.tick a i) := by
  intro j; unfold VC.tick; split <;> omega

structure HSt where
  base : St := {}
  /-- view released by the release sequence(s) the newest value of the word belongs to -/
  V : VC := VC.bot
  /-- clock of each agent -/
  C : Nat → VC := fun _ => VC.bot
  /-- clocks at which critical sections ended (at their releasing operation) -/
  ended : List VC := []

def hinit : HSt := {}

def agentOf : Act → Option Nat
  | .spawn => none
  | .start i _ => some i
  | .atom i _ _ => some i
  | .release i _ => some i
  | .downgrade i _ => some i
  | .upgrade i => some i

def isReleaseAct : Act → Bool
  | .release _ _ => true
  | _ => false

/-- the operation reads the word with acquire semantics -/
def evAcq (e : Ev) : Bool :=
  match e.op with
  | .load => e.mo.isAcq
  | .cas => if e.ok then e.mo.isAcq else e.moFail.isAcq
  | .store => false
  | .fence => false
  | _ => e.mo.isAcq

/-- the operation writes the word -/
def evWrites (e : Ev) : Bool :=
  match e.op with
  | .load => false
  | .fence => false
  | .cas => e.ok
  | _ => true

def setC (C : Nat → VC) (i : Nat) (c : VC) : Nat → VC := fun j => if j = i then c else C j

def hstep (P : WParams) (s : HSt) (a : Act) : Option HSt :=
  match step P s.base a with
  | none => none
  | some (b', none) => some { s with base := b' }
  | some (b', some e) =>
    match agentOf a with
    | none => some { s with base := b' }
    | some i =>
      let c0 := VC.tick (s.C i) i
      let c1 := if evAcq e then VC.join c0 s.V else c0
      let V' := if evWrites e then
          (if e.op = .store then (if e.mo.isRel then c1 else VC.bot)
           else VC.join s.V (if e.mo.isRel then c1 else VC.bot))
        else s.V
      some { base := b', V := V', C := setC s.C i c1,
             ended := if isReleaseAct a then c1 :: s.ended else s.ended }

def hrun (P : WParams) (s : HSt) : List Act → Option HSt
  | [] => some s
  | a :: as =>
    match hstep P s a with
    | some s' => hrun P s' as
    | none => none

/-- what the memory orders of the call sites must provide -/
structure Adequate (o : WOrders) : Prop where
  relS : o.relS.isRel = true
  relSIX : o.relSIX.isRel = true
  relX : o.relX.isRel = true
  dng : o.dng.isRel = true
  lockCas : ∀ m, (o.lockCasS m).isAcq = true
  upgCas : o.upgCasS.isAcq = true
  tryCas : ∀ m, (o.tryCasS m).isAcq = true
  prepCas : o.prepCasS.isAcq = true

/-! ### facts about the events of the word-lock model -/

theorem release_event {P : WParams} (hA : Adequate P.ord) {s s' : St} {i : Nat} {loc : Loc} {nv : BitVec 32} {e : Ev}
    (h : releaseStep P s i loc nv = some (s', e)) :
    (∃ m, loc.grant? = some m) ∧ evWrites e = true ∧ e.mo.isRel = true ∧
    (e.op = .store → loc.grant? = some .X) := by
  cases loc with
  | held m seen =>
    cases m <;> simp only [releaseStep, Option.some.injEq, Prod.mk.injEq] at h <;> rw [← h.2] <;>
      simp [Loc.grant?, evWrites, hA.relS, hA.relSIX, hA.relX]
  | _ => simp [releaseStep] at h

theorem downgrade_event {P : WParams} (hA : Adequate P.ord) {s s' : St} {i : Nat} {loc : Loc} {nv : BitVec 32} {e : Ev}
    (h : downgradeStep P s i loc nv = some (s', e)) :
    loc.grant? = some .X ∧ evWrites e = true ∧ e.mo.isRel = true ∧ e.op = .store := by
  cases loc with
  | held m seen =>
    cases m <;> simp only [downgradeStep, Option.some.injEq, Prod.mk.injEq, reduceCtorEq] at h
    rw [← h.2]; simp [Loc.grant?, evWrites, hA.dng]
  | _ => simp [downgradeStep] at h

/-- closes a goal `… ∧ …` from a hypothesis that the new location has the same grant as the old one -/
macro "same_grant" hi:ident hl:ident hne:ident : tactic => `(tactic| (first
  | (rw [$hi:ident] at $hl:ident; cases $hl:ident; exact absurd rfl $hne:ident)
  | (rw [getElem?_setLoc_self $hi:ident] at $hl:ident; cases $hl:ident; exact absurd rfl $hne:ident)))

theorem agents_with_w (s : St) (w : Word) : ({ s with w := w } : St).agents = s.agents := rfl

/-- atomic steps of acquisitions: never a plain store; a step that changes the agent's grant (makes it
    a new holder, or turns its SIX grant into X) is a successful CAS with an acquire order -/
theorem atom_event {P : WParams} (hA : Adequate P.ord) {s s' : St} {i : Nat} {loc : Loc} {ov : Option Word} {sp : Bool}
    {e : Ev} (hi : s.agents[i]? = some loc) (h : atomStep P s i loc ov sp = some (s', e)) :
    e.op ≠ .store ∧
    (∀ l', s'.agents[i]? = some l' → l'.grant? ≠ loc.grant? →
      (e.op = .cas ∧ e.ok = true ∧ e.mo.isAcq = true)) := by
  cases loc with
  | idle => simp [atomStep] at h
  | held m seen => simp [atomStep] at h
  | done r => simp [atomStep] at h
  | acqLoad m =>
    simp only [atomStep] at h
    split at h <;> (simp only [Option.some.injEq, Prod.mk.injEq] at h; obtain ⟨h1, h2⟩ := h; subst h2; subst h1) <;>
      (refine ⟨by simp, ?_⟩; intro l' hl' hne; same_grant hi hl' hne)
  | acqCas m seen =>
    simp only [atomStep] at h
    split at h <;> (simp only [Option.some.injEq, Prod.mk.injEq] at h; obtain ⟨h1, h2⟩ := h; subst h2; subst h1)
    · exact ⟨by simp, fun _ _ _ => ⟨rfl, rfl, hA.lockCas m⟩⟩
    · refine ⟨by simp, ?_⟩; intro l' hl' hne; same_grant hi hl' hne
  | upgLoad =>
    simp only [atomStep] at h
    split at h <;> (simp only [Option.some.injEq, Prod.mk.injEq] at h; obtain ⟨h1, h2⟩ := h; subst h2; subst h1) <;>
      (refine ⟨by simp, ?_⟩; intro l' hl' hne; same_grant hi hl' hne)
  | upgCas seen =>
    simp only [atomStep] at h
    split at h <;> (simp only [Option.some.injEq, Prod.mk.injEq] at h; obtain ⟨h1, h2⟩ := h; subst h2; subst h1)
    · exact ⟨by simp, fun _ _ _ => ⟨rfl, rfl, hA.upgCas⟩⟩
    · refine ⟨by simp, ?_⟩; intro l' hl' hne; same_grant hi hl' hne
  | tryLoad m ver =>
    simp only [atomStep] at h
    split at h
    · split at h <;> (simp only [Option.some.injEq, Prod.mk.injEq] at h; obtain ⟨h1, h2⟩ := h; subst h2; subst h1) <;>
        (refine ⟨by simp, ?_⟩; intro l' hl' hne; same_grant hi hl' hne)
    · simp only [Option.some.injEq, Prod.mk.injEq] at h; obtain ⟨h1, h2⟩ := h; subst h2; subst h1
      refine ⟨by simp, ?_⟩; intro l' hl' hne; same_grant hi hl' hne
  | tryCas m ver seen =>
    simp only [atomStep] at h
    split at h <;> (simp only [Option.some.injEq, Prod.mk.injEq] at h; obtain ⟨h1, h2⟩ := h; subst h2; subst h1)
    · exact ⟨by simp, fun _ _ _ => ⟨rfl, rfl, hA.tryCas m⟩⟩
    · refine ⟨by simp, ?_⟩; intro l' hl' hne; same_grant hi hl' hne
  | prep1 k =>
    simp only [atomStep] at h
    split at h
    · simp only [Option.some.injEq, Prod.mk.injEq] at h; obtain ⟨h1, h2⟩ := h; subst h2; subst h1
      refine ⟨by simp, ?_⟩; intro l' hl' hne; same_grant hi hl' hne
    · split at h <;> (simp only [Option.some.injEq, Prod.mk.injEq] at h; obtain ⟨h1, h2⟩ := h; subst h2; subst h1) <;>
        (refine ⟨by simp, ?_⟩; intro l' hl' hne; same_grant hi hl' hne)
  | prep2 =>
    simp only [atomStep] at h
    split at h
    · split at h <;> (simp only [Option.some.injEq, Prod.mk.injEq] at h; obtain ⟨h1, h2⟩ := h; subst h2; subst h1) <;>
        (refine ⟨by simp, ?_⟩; intro l' hl' hne; same_grant hi hl' hne)
    · simp only [Option.some.injEq, Prod.mk.injEq] at h; obtain ⟨h1, h2⟩ := h; subst h2; subst h1
      refine ⟨by simp, ?_⟩; intro l' hl' hne; same_grant hi hl' hne
  | prepCas seen =>
    simp only [atomStep] at h
    split at h <;> (simp only [Option.some.injEq, Prod.mk.injEq] at h; obtain ⟨h1, h2⟩ := h; subst h2; subst h1)
    · exact ⟨by simp, fun _ _ _ => ⟨rfl, rfl, hA.prepCas⟩⟩
    · refine ⟨by simp, ?_⟩; intro l' hl' hne; same_grant hi hl' hne
  | gvLoad =>
    simp only [atomStep] at h
    split at h <;> (simp only [Option.some.injEq, Prod.mk.injEq] at h; obtain ⟨h1, h2⟩ := h; subst h2; subst h1) <;>
      (refine ⟨by simp, ?_⟩; intro l' hl' hne; same_grant hi hl' hne)
  | vfFence c =>
    simp only [atomStep, Option.some.injEq, Prod.mk.injEq] at h
    obtain ⟨h1, h2⟩ := h; subst h2; subst h1
    refine ⟨by simp, ?_⟩; intro l' hl' hne; same_grant hi hl' hne
  | vfLoad c =>
    simp only [atomStep] at h
    split at h <;> (simp only [Option.some.injEq, Prod.mk.injEq] at h; obtain ⟨h1, h2⟩ := h; subst h2; subst h1) <;>
      (refine ⟨by simp, ?_⟩; intro l' hl' hne; same_grant hi hl' hne)


/-! ### the happens-before invariant -/

structure HInv (P : WParams) (D : Decoder) (s : HSt) : Prop where
  base : Inv P D s.base
  /-- every ended section is below the view currently released on the word -/
  view : ∀ E ∈ s.ended, VC.le E s.V
  /-- an exclusive holder is above every ended section -/
  xabove : ∀ i l, s.base.agents[i]? = some l → l.grant? = some .X → ∀ E ∈ s.ended, VC.le E (s.C i)

theorem hinv_init {P : WParams} {D : Decoder} (hS : Specs P D) : HInv P D hinit :=
  ⟨inv_init hS, by intro E hE; simp [hinit] at hE, by intro i l hl; simp [hinit, init] at hl⟩

/-- only the stepping agent's location changes -/
theorem step_other {P : WParams} {s s' : St} {a : Act} {e : Option Ev} {i j : Nat}
    (h : step P s a = some (s', e)) (hag : agentOf a = some i) (hij : i ≠ j) (hj : j < s.agents.length) :
    s'.agents[j]? = s.agents[j]? := by
  cases a with
  | spawn => simp [agentOf] at hag
  | start k r =>
    simp only [agentOf, Option.some.injEq] at hag; subst hag
    simp only [step] at h
    split at h
    · simp only [Option.some.injEq, Prod.mk.injEq] at h; rw [← h.1]; exact getElem?_setLoc_ne hij
    · cases h
  | atom k ov sp =>
    simp only [agentOf, Option.some.injEq] at hag; subst hag
    simp only [step] at h
    split at h
    · rename_i loc hk
      cases hh : atomStep P s k loc ov sp with
      | none => rw [hh] at h; simp at h
      | some r =>
        rw [hh] at h
        simp only [Option.map_some, Option.some.injEq, Prod.mk.injEq] at h
        rw [← h.1]; exact atom_other hh hij
    · cases h
  | release k nv =>
    simp only [agentOf, Option.some.injEq] at hag; subst hag
    simp only [step] at h
    split at h
    · rename_i loc hk
      cases hh : releaseStep P s k loc nv with
      | none => rw [hh] at h; simp at h
      | some r =>
        rw [hh] at h
        simp only [Option.map_some, Option.some.injEq, Prod.mk.injEq] at h
        rw [← h.1, release_agents hh]; exact getElem?_setLoc_ne hij
    · cases h
  | downgrade k nv =>
    simp only [agentOf, Option.some.injEq] at hag; subst hag
    simp only [step] at h
    split at h
    · rename_i loc hk
      cases hh : downgradeStep P s k loc nv with
      | none => rw [hh] at h; simp at h
      | some r =>
        rw [hh] at h
        simp only [Option.map_some, Option.some.injEq, Prod.mk.injEq] at h
        obtain ⟨seen, _, hag'⟩ := downgrade_agents hh
        rw [← h.1, hag']; exact getElem?_setLoc_ne hij
    · cases h
  | upgrade k =>
    simp only [agentOf, Option.some.injEq] at hag; subst hag
    simp only [step] at h
    split at h
    · simp only [Option.some.injEq, Prod.mk.injEq] at h; rw [← h.1]; exact getElem?_setLoc_ne hij
    · cases h

/-- classification of an event-producing step of agent `i` -/
theorem step_event_facts {P : WParams} (hA : Adequate P.ord) {s s' : St} {a : Act} {e : Ev} {i : Nat}
    (h : step P s a = some (s', some e)) (hag : agentOf a = some i) :
    ∃ loc, s.agents[i]? = some loc ∧
      -- a plain store is made by the exclusive holder, with release order
      (e.op = .store → loc.grant? = some .X ∧ e.mo.isRel = true) ∧
      -- the releasing operation of a section writes with release order
      (isReleaseAct a = true → (∃ m, loc.grant? = some m) ∧ evWrites e = true ∧ e.mo.isRel = true) ∧
      -- becoming an exclusive holder is an acquiring successful CAS
      (∀ l', s'.agents[i]? = some l' → l'.grant? = some .X → loc.grant? ≠ some .X →
        e.op = .cas ∧ e.ok = true ∧ e.mo.isAcq = true) := by
  cases a with
  | spawn => simp [agentOf] at hag
  | start k r =>
    simp only [step] at h
    split at h <;> simp at h
  | upgrade k =>
    simp only [step] at h
    split at h <;> simp at h
  | atom k ov sp =>
    simp only [agentOf, Option.some.injEq] at hag; subst hag
    simp only [step] at h
    split at h
    · rename_i loc hk
      cases hh : atomStep P s k loc ov sp with
      | none => rw [hh] at h; simp at h
      | some r =>
        rw [hh] at h
        obtain ⟨s1, e1⟩ := r
        simp only [Option.map_some, Option.some.injEq, Prod.mk.injEq] at h
        obtain ⟨h1, h2⟩ := h; subst h1; subst h2
        have hf := atom_event hA hk hh
        refine ⟨loc, hk, ?_, by simp [isReleaseAct], ?_⟩
        · intro hst; exact absurd hst hf.1
        · intro l' hl' hx hnx
          exact hf.2 l' hl' (by rw [hx]; exact fun hc => hnx hc.symm)
    · cases h
  | release k nv =>
    simp only [agentOf, Option.some.injEq] at hag; subst hag
    simp only [step] at h
    split at h
    · rename_i loc hk
      cases hh : releaseStep P s k loc nv with
      | none => rw [hh] at h; simp at h
      | some r =>
        rw [hh] at h
        obtain ⟨s1, e1⟩ := r
        simp only [Option.map_some, Option.some.injEq, Prod.mk.injEq] at h
        obtain ⟨h1, h2⟩ := h; subst h1; subst h2
        have hf := release_event hA hh
        refine ⟨loc, hk, fun hst => ⟨hf.2.2.2 hst, hf.2.2.1⟩, fun _ => ⟨hf.1, hf.2.1, hf.2.2.1⟩, ?_⟩
        intro l' hl' hx _
        rw [release_agents hh, getElem?_setLoc_self hk] at hl'
        cases hl'; simp [Loc.grant?] at hx
    · cases h
  | downgrade k nv =>
    simp only [agentOf, Option.some.injEq] at hag; subst hag
    simp only [step] at h
    split at h
    · rename_i loc hk
      cases hh : downgradeStep P s k loc nv with
      | none => rw [hh] at h; simp at h
      | some r =>
        rw [hh] at h
        obtain ⟨s1, e1⟩ := r
        simp only [Option.map_some, Option.some.injEq, Prod.mk.injEq] at h
        obtain ⟨h1, h2⟩ := h; subst h1; subst h2
        have hf := downgrade_event hA hh
        refine ⟨loc, hk, fun _ => ⟨hf.1, hf.2.2.1⟩, by simp [isReleaseAct], ?_⟩
        intro l' hl' hx _
        obtain ⟨seen, _, hag'⟩ := downgrade_agents hh
        rw [hag', getElem?_setLoc_self hk] at hl'
        cases hl'; simp [Loc.grant?] at hx
    · cases h

theorem hinv_step {P : WParams} {D : Decoder} (hS : Specs P D) (hA : Adequate P.ord) {s s' : HSt} {a : Act}
    (hI : HInv P D s) (hcap : s.base.agents.length < D.cap) (h : hstep P s a = some s') : HInv P D s' := by
  unfold hstep at h
  cases hst : step P s.base a with
  | none => rw [hst] at h; cases h
  | some r =>
    obtain ⟨b', eo⟩ := r
    rw [hst] at h
    have hb' : Inv P D b' := inv_step hS hI.base hcap hst
    cases eo with
    | none =>
      -- local transition: clocks, view and ended sections unchanged; an X holder in s' held X in s
      simp only [Option.some.injEq] at h; subst h
      refine ⟨hb', hI.view, ?_⟩
      intro i l hl hx E hE
      -- the only event-free actions are spawn / start / upgrade: none creates an X grant
      cases a with
      | spawn =>
        simp only [step, Option.some.injEq, Prod.mk.injEq] at hst
        have hl' : (s.base.agents ++ [Loc.idle])[i]? = some l := by rw [← hst.1] at hl; exact hl
        by_cases hi : i < s.base.agents.length
        · rw [List.getElem?_append_left hi] at hl'; exact hI.xabove i l hl' hx E hE
        · rw [List.getElem?_append_right (by omega)] at hl'
          have : l = .idle := by
            cases hh : ([Loc.idle] : List Loc)[i - s.base.agents.length]? with
            | none => rw [hh] at hl'; cases hl'
            | some x =>
              rw [hh] at hl'; cases hl'
              have := List.mem_of_getElem? hh; simpa using this
          subst this; simp [Loc.grant?] at hx
      | start k r =>
        simp only [step] at hst
        split at hst
        · rename_i hk
          simp only [Option.some.injEq, Prod.mk.injEq] at hst
          by_cases hki : k = i
          · subst hki
            rw [← hst.1, getElem?_setLoc_self hk] at hl
            cases hl; cases r <;> simp [Req.start, Loc.grant?] at hx
          · rw [← hst.1, getElem?_setLoc_ne hki] at hl; exact hI.xabove i l hl hx E hE
        · cases hst
      | upgrade k =>
        simp only [step] at hst
        split at hst
        · rename_i seen hk
          simp only [Option.some.injEq, Prod.mk.injEq] at hst
          by_cases hki : k = i
          · subst hki
            rw [← hst.1, getElem?_setLoc_self hk] at hl
            cases hl; simp [Loc.grant?] at hx
          · rw [← hst.1, getElem?_setLoc_ne hki] at hl; exact hI.xabove i l hl hx E hE
        · cases hst
      | atom k ov sp =>
        simp only [step] at hst
        split at hst
        · cases hh : atomStep P s.base k _ ov sp with
          | none => rw [hh] at hst; simp at hst
          | some r => rw [hh] at hst; simp at hst
        · cases hst
      | release k nv =>
        simp only [step] at hst
        split at hst
        · cases hh : releaseStep P s.base k _ nv with
          | none => rw [hh] at hst; simp at hst
          | some r => rw [hh] at hst; simp at hst
        · cases hst
      | downgrade k nv =>
        simp only [step] at hst
        split at hst
        · cases hh : downgradeStep P s.base k _ nv with
          | none => rw [hh] at hst; simp at hst
          | some r => rw [hh] at hst; simp at hst
        · cases hst
    | some e =>
      cases hag : agentOf a with
      | none =>
        cases a <;> simp [agentOf] at hag
        simp [step] at hst
      | some i =>
        rw [hag] at h
        simp only [Option.some.injEq] at h
        obtain ⟨loc, hloc, hstore, hrel, hgrantX⟩ := step_event_facts hA hst hag
        -- abbreviations
        have hc0 : VC.le (s.C i) (VC.tick (s.C i) i) := VC.le_tick _ _
        have hc1 : VC.le (VC.tick (s.C i) i) (if evAcq e then VC.join (VC.tick (s.C i) i) s.V else VC.tick (s.C i) i) := by
          split
          · exact VC.le_join_left _ _
          · exact VC.le_refl _
        subst h
        refine ⟨hb', ?_, ?_⟩
        · -- view
          intro E hE
          simp only at hE ⊢
          by_cases hw : evWrites e = true
          · simp only [hw, if_true]
            by_cases hs : e.op = .store
            · obtain ⟨hx, hr⟩ := hstore hs
              simp only [hs, if_true, hr]
              -- the storer is the exclusive holder: above every ended section
              have habove : ∀ E ∈ s.ended, VC.le E (if evAcq e then VC.join (VC.tick (s.C i) i) s.V else VC.tick (s.C i) i) :=
                fun E hE => VC.le_trans (VC.le_trans (hI.xabove i loc hloc hx E hE) hc0) hc1
              split at hE
              · rcases List.mem_cons.mp hE with rfl | hE
                · exact VC.le_refl _
                · exact habove E hE
              · exact habove E hE
            · simp only [hs, if_false]
              split at hE
              · rename_i hra
                obtain ⟨_, _, hr⟩ := hrel hra
                rcases List.mem_cons.mp hE with rfl | hE
                · simp only [hr, if_true]; exact VC.le_join_right _ _
                · exact VC.le_trans (hI.view E hE) (VC.le_join_left _ _)
              · exact VC.le_trans (hI.view E hE) (VC.le_join_left _ _)
          · have hw' : evWrites e = false := by simpa using hw
            simp only [hw', Bool.false_eq_true, if_false]
            split at hE
            · rename_i hra
              obtain ⟨_, hwr, _⟩ := hrel hra
              rw [hwr] at hw'; cases hw'
            · exact hI.view E hE
        · -- exclusive holders
          intro k l hl hx E hE
          simp only at hl hE ⊢
          by_cases hki : k = i
          · subst hki
            simp only [setC, if_true]
            by_cases hold : loc.grant? = some .X
            · -- it held X before: a release / downgrade would have removed the grant, an atom is impossible
              have habove : ∀ E ∈ s.ended, VC.le E (if evAcq e then VC.join (VC.tick (s.C k) k) s.V else VC.tick (s.C k) k) :=
                fun E hE => VC.le_trans (VC.le_trans (hI.xabove k loc hloc hold E hE) hc0) hc1
              split at hE
              · rcases List.mem_cons.mp hE with rfl | hE
                · exact VC.le_refl _
                · exact habove E hE
              · exact habove E hE
            · -- newly exclusive: an acquiring successful CAS that read the newest value
              obtain ⟨hop, hok, hacq⟩ := hgrantX l hl hx hold
              have hea : evAcq e = true := by simp [evAcq, hop, hok, hacq]
              have hnr : isReleaseAct a = false := by
                cases hr : isReleaseAct a with
                | false => rfl
                | true =>
                  cases a <;> simp [isReleaseAct] at hr
                  rename_i j nv
                  simp only [agentOf, Option.some.injEq] at hag; subst hag
                  simp only [step, hloc] at hst
                  cases hh : releaseStep P s.base j loc nv with
                  | none => rw [hh] at hst; simp at hst
                  | some r =>
                    rw [hh] at hst
                    simp only [Option.map_some, Option.some.injEq, Prod.mk.injEq] at hst
                    rw [← hst.1, release_agents hh, getElem?_setLoc_self hloc] at hl
                    cases hl; simp [Loc.grant?] at hx
              simp only [hnr, Bool.false_eq_true, if_false] at hE
              simp only [hea, if_true]
              exact VC.le_trans (hI.view E hE) (VC.le_join_right _ _)
          · -- another agent holds X: by mutual exclusion the stepping agent has no grant, so no section ends
            have hkl : k < s.base.agents.length := by
              have := length_step hst
              have hk' := getElem?_lt hl
              -- the stepping action is not a spawn (it has an agent), so lengths agree
              cases a with
              | spawn => simp [agentOf] at hag
              | start j r => simp only [step] at hst; split at hst <;> simp at hst
              | upgrade j => simp only [step] at hst; split at hst <;> simp at hst
              | atom j ov sp =>
                simp only [step] at hst
                split at hst
                · rename_i loc' hj
                  cases hh : atomStep P s.base j loc' ov sp with
                  | none => rw [hh] at hst; simp at hst
                  | some r =>
                    rw [hh] at hst
                    simp only [Option.map_some, Option.some.injEq, Prod.mk.injEq] at hst
                    by_cases hjk : j = k
                    · subst hjk; exact getElem?_lt hj
                    · rw [← hst.1, atom_other hh hjk] at hl; exact getElem?_lt hl
                · cases hst
              | release j nv =>
                simp only [step] at hst
                split at hst
                · rename_i loc' hj
                  cases hh : releaseStep P s.base j loc' nv with
                  | none => rw [hh] at hst; simp at hst
                  | some r =>
                    rw [hh] at hst
                    simp only [Option.map_some, Option.some.injEq, Prod.mk.injEq] at hst
                    rw [← hst.1, release_agents hh] at hk'
                    simpa [setLoc] using hk'
                · cases hst
              | downgrade j nv =>
                simp only [step] at hst
                split at hst
                · rename_i loc' hj
                  cases hh : downgradeStep P s.base j loc' nv with
                  | none => rw [hh] at hst; simp at hst
                  | some r =>
                    rw [hh] at hst
                    simp only [Option.map_some, Option.some.injEq, Prod.mk.injEq] at hst
                    obtain ⟨seen, _, hag'⟩ := downgrade_agents hh
                    rw [← hst.1, hag'] at hk'
                    simpa [setLoc] using hk'
                · cases hst
            have hl0 : s.base.agents[k]? = some l := by
              rw [← step_other hst hag (Ne.symm hki) hkl]; exact hl
            simp only [setC, if_neg hki]
            have hnr : isReleaseAct a = false := by
              cases hr : isReleaseAct a with
              | false => rfl
              | true =>
                obtain ⟨⟨m, hm⟩, _, _⟩ := hrel hr
                have := excl_of_inv hI.base (Ne.symm hki) hloc hl0 hm hx
                cases m <;> simp [conflict] at this
            simp only [hnr, Bool.false_eq_true, if_false] at hE
            exact hI.xabove k l hl0 hx E hE

theorem hbase_run {P : WParams} {acts : List Act} : ∀ {s s' : HSt}, hrun P s acts = some s' →
    run P s.base acts = some s'.base := by
  induction acts with
  | nil => intro s s' h; simp only [hrun, Option.some.injEq] at h; rw [← h]; rfl
  | cons a as ih =>
    intro s s' h
    simp only [hrun] at h
    cases hh : hstep P s a with
    | none => rw [hh] at h; cases h
    | some s1 =>
      rw [hh] at h
      have := ih h
      unfold hstep at hh
      cases hst : step P s.base a with
      | none => rw [hst] at hh; cases hh
      | some r =>
        obtain ⟨b', eo⟩ := r
        rw [hst] at hh
        have hb : s1.base = b' := by
          cases eo with
          | none => simp only [Option.some.injEq] at hh; rw [← hh]
          | some e =>
            cases hag : agentOf a with
            | none => rw [hag] at hh; simp only [Option.some.injEq] at hh; rw [← hh]
            | some i => rw [hag] at hh; simp only [Option.some.injEq] at hh; rw [← hh]
        simp only [run, hst]; rw [← hb]; exact this

theorem hinv_run {P : WParams} {D : Decoder} (hS : Specs P D) (hA : Adequate P.ord) {acts : List Act} :
    ∀ {s s' : HSt}, HInv P D s → hrun P s acts = some s' → s'.base.agents.length < D.cap → HInv P D s' := by
  induction acts with
  | nil => intro s s' hI h _; simp only [hrun, Option.some.injEq] at h; rw [← h]; exact hI
  | cons a as ih =>
    intro s s' hI h hcap
    simp only [hrun] at h
    cases hh : hstep P s a with
    | none => rw [hh] at h; cases h
    | some s1 =>
      rw [hh] at h
      have hl1 := length_run (hbase_run h)
      have hl0 : s.base.agents.length ≤ s1.base.agents.length := by
        have := hbase_run (P := P) (acts := [a]) (s := s) (s' := s1) (by simp [hrun, hh])
        exact length_run this
      exact ih (hinv_step hS hA hI (by omega) hh) h hcap


/-- **C08 (word locks).**  Whenever a step gives agent `i` a grant of a mode it did not hold before
    (acquisition by `Lock*`, `TryLock*`, `PrepareRead`'s fallback, the SIX→X flip of `UpgradeToX`, the X→SIX
    store of `DowngradeToSIX`), the clock of `i` after that step is above the end clock of **every**
    critical section that has ended so far on this lock — in particular of every conflicting one: all
    that was done inside those sections happens-before everything `i` does from now on. -/
theorem hb_at_grant {P : WParams} {D : Decoder} (hA : Adequate P.ord) {s s' : HSt} {a : Act} {i : Nat}
    {l l' : Loc} {m : Mode} (hI : HInv P D s) (h : hstep P s a = some s') (hag : agentOf a = some i)
    (hl : s.base.agents[i]? = some l) (hl' : s'.base.agents[i]? = some l')
    (hm : l'.grant? = some m) (hne : l.grant? ≠ some m) :
    ∀ E ∈ s.ended, VC.le E (s'.C i) := by
  unfold hstep at h
  cases hst : step P s.base a with
  | none => rw [hst] at h; cases h
  | some r =>
    obtain ⟨b', eo⟩ := r
    rw [hst] at h
    cases eo with
    | none =>
      -- event-free actions do not change any grant
      simp only [Option.some.injEq] at h; subst h
      exfalso
      cases a with
      | spawn => simp [agentOf] at hag
      | start k r =>
        simp only [agentOf, Option.some.injEq] at hag; subst hag
        simp only [step, hl] at hst
        cases l <;> simp at hst
        rw [← hst, getElem?_setLoc_self hl] at hl'
        cases hl'; cases r <;> simp [Req.start, Loc.grant?] at hm
      | upgrade k =>
        simp only [agentOf, Option.some.injEq] at hag; subst hag
        simp only [step, hl] at hst
        cases l with
        | held m0 seen =>
          cases m0 with
          | SIX =>
            simp only [Option.some.injEq, Prod.mk.injEq, and_true] at hst
            rw [← hst, getElem?_setLoc_self hl] at hl'
            cases hl'
            simp only [Loc.grant?, Option.some.injEq] at hm hne
            exact hne (by rw [hm])
          | S => simp at hst
          | X => simp at hst
        | _ => simp at hst
      | atom k ov sp =>
        simp only [step] at hst
        split at hst
        · cases hh : atomStep P s.base k _ ov sp with
          | none => rw [hh] at hst; simp at hst
          | some r => rw [hh] at hst; simp at hst
        · cases hst
      | release k nv =>
        simp only [step] at hst
        split at hst
        · cases hh : releaseStep P s.base k _ nv with
          | none => rw [hh] at hst; simp at hst
          | some r => rw [hh] at hst; simp at hst
        · cases hst
      | downgrade k nv =>
        simp only [step] at hst
        split at hst
        · cases hh : downgradeStep P s.base k _ nv with
          | none => rw [hh] at hst; simp at hst
          | some r => rw [hh] at hst; simp at hst
        · cases hst
    | some e =>
      rw [hag] at h
      simp only [Option.some.injEq] at h
      subst h
      intro E hE
      simp only [setC, if_true]
      have hc0 : VC.le (s.C i) (VC.tick (s.C i) i) := VC.le_tick _ _
      cases a with
      | spawn => simp [agentOf] at hag
      | start k r => simp only [step] at hst; split at hst <;> simp at hst
      | upgrade k => simp only [step] at hst; split at hst <;> simp at hst
      | release k nv =>
        -- a release never produces a grant
        exfalso
        simp only [agentOf, Option.some.injEq] at hag; subst hag
        simp only [step, hl] at hst
        cases hh : releaseStep P s.base k l nv with
        | none => rw [hh] at hst; simp at hst
        | some r =>
          rw [hh] at hst
          simp only [Option.map_some, Option.some.injEq, Prod.mk.injEq] at hst
          rw [← hst.1, release_agents hh, getElem?_setLoc_self hl] at hl'
          cases hl'; simp [Loc.grant?] at hm
      | downgrade k nv =>
        -- the exclusive holder continues as SIX holder: it was already above every ended section
        simp only [agentOf, Option.some.injEq] at hag; subst hag
        simp only [step, hl] at hst
        cases hh : downgradeStep P s.base k l nv with
        | none => rw [hh] at hst; simp at hst
        | some r =>
          rw [hh] at hst
          have hf := downgrade_event hA hh
          have := hI.xabove k l hl hf.1 E hE
          refine VC.le_trans (VC.le_trans this hc0) ?_
          split
          · exact VC.le_join_left _ _
          · exact VC.le_refl _
      | atom k ov sp =>
        simp only [agentOf, Option.some.injEq] at hag; subst hag
        simp only [step, hl] at hst
        cases hh : atomStep P s.base k l ov sp with
        | none => rw [hh] at hst; simp at hst
        | some r =>
          rw [hh] at hst
          obtain ⟨s1, e1⟩ := r
          simp only [Option.map_some, Option.some.injEq, Prod.mk.injEq] at hst
          obtain ⟨h1, h2⟩ := hst; subst h1; subst h2
          have hf := (atom_event hA hl hh).2 l' hl' (by rw [hm]; exact fun hc => hne hc.symm)
          have hea : evAcq e1 = true := by simp [evAcq, hf.1, hf.2.1, hf.2.2]
          simp only [hea, if_true]
          exact VC.le_trans (hI.view E hE) (VC.le_join_right _ _)

/-- clocks only grow, and ended sections are never forgotten -/
theorem hstep_mono {P : WParams} {s s' : HSt} {a : Act} (h : hstep P s a = some s') :
    (∀ j, VC.le (s.C j) (s'.C j)) ∧ (∀ E ∈ s.ended, E ∈ s'.ended) := by
  unfold hstep at h
  cases hst : step P s.base a with
  | none => rw [hst] at h; cases h
  | some r =>
    obtain ⟨b', eo⟩ := r
    rw [hst] at h
    cases eo with
    | none => simp only [Option.some.injEq] at h; subst h; exact ⟨fun _ => VC.le_refl _, fun _ h => h⟩
    | some e =>
      cases hag : agentOf a with
      | none => rw [hag] at h; simp only [Option.some.injEq] at h; subst h; exact ⟨fun _ => VC.le_refl _, fun _ h => h⟩
      | some i =>
        rw [hag] at h; simp only [Option.some.injEq] at h; subst h
        refine ⟨?_, ?_⟩
        · intro j
          simp only [setC]
          split
          · rename_i hj; subst hj
            refine VC.le_trans (VC.le_tick (s.C j) j) ?_
            split
            · exact VC.le_join_left _ _
            · exact VC.le_refl _
          · exact VC.le_refl _
        · intro E hE
          simp only
          split
          · exact List.mem_cons_of_mem _ hE
          · exact hE

end CppUtil.WLock
