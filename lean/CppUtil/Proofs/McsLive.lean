/-
  MCSLock proof: every live queue node has an owner (no node is lost).  With `OwnInv` (each owner's node is
  live, owners are unique) this gives the leak-freedom half of C12: at quiescence the only live nodes are
  the threads' cached ones, and the number of live nodes never exceeds caches + unqueued requests + groups.
-/
import CppUtil.Proofs.McsThm

namespace CppUtil.Mcs
open CppUtil

variable {W : Nat → Bool → Bool → Nat → Word} {P : Params} {pb cb : Nat} {s : St} {Q : Nat → List Grp}

/-- API entry of a lock request -/
theorem lo_spawn (hI : Inv W P pb cb s Q) (h : LiveOwned s Q) (tid lk : Nat) (m : Mode) (htid : tid < s.tls.length) :
    LiveOwned (spawnLock s tid lk m).1 Q := by
  rw [spawnLock_eq]
  obtain ⟨hpriv0, _⟩ := newAgent_facts tid lk (takeNode s tid).2.1 m
  cases hc : s.tls.getD tid none with
  | some k0 =>
    have htk : takeNode s tid = ({ s with tls := s.tls.set tid none }, k0, []) := by unfold takeNode; rw [hc]
    have hc' : s.tls[tid]? = some (some k0) := by
      rw [List.getD_eq_getElem?_getD] at hc
      cases hg : s.tls[tid]? with
      | none => rw [hg] at hc; cases hc
      | some o => rw [hg] at hc; simp at hc; rw [hc]
    rw [htk] at hpriv0 ⊢
    simp only at hpriv0 ⊢
    intro k hk
    have hk' : nodeLive s k = true := hk
    obtain ⟨o, ho⟩ := h k hk'
    cases o with
    | priv j =>
      obtain ⟨b, hb, hpb, hq⟩ := ho
      exact ⟨.priv j, b, by
        show (s.agents ++ [newAgent tid lk k0 m])[j]? = some b
        rw [List.getElem?_append_left (getElem?_lt' hb)]; exact hb, hpb, hq⟩
    | cache t =>
      by_cases ht : t = tid
      · subst ht
        have hkk : k = k0 := by
          have ho' : s.tls[t]? = some (some k) := ho
          rw [hc'] at ho'; exact (Option.some.inj (Option.some.inj ho')).symm
        subst hkk
        exact ⟨.priv s.agents.length, newAgent t lk k m, by
          show (s.agents ++ [newAgent t lk k m])[s.agents.length]? = _
          simp, hpriv0, rfl⟩
      · refine ⟨.cache t, ?_⟩
        show (s.tls.set tid none)[t]? = some (some k)
        rw [List.getElem?_set_ne (Ne.symm ht)]; exact ho
    | grp ℓ => exact ⟨.grp ℓ, ho⟩
  | none =>
    have htk : takeNode s tid = ({ s with nodes := s.nodes ++ [some 0] }, s.nodes.length + 1,
        [s!"NA{s.nodes.length + 1}"]) := by unfold takeNode; rw [hc]
    rw [htk] at hpriv0 ⊢
    simp only at hpriv0 ⊢
    intro k hk
    by_cases hkn : k = s.nodes.length + 1
    · subst hkn
      exact ⟨.priv s.agents.length, newAgent tid lk (s.nodes.length + 1) m, by
        show (s.agents ++ [newAgent tid lk (s.nodes.length + 1) m])[s.agents.length]? = _
        simp, hpriv0, rfl⟩
    · have hk' : nodeLive s k = true := by
        unfold nodeLive at hk ⊢
        simp only [ge_iff_le, Bool.and_eq_true, decide_eq_true_eq, List.getD_eq_getElem?_getD] at hk ⊢
        refine ⟨hk.1, ?_⟩
        rcases Nat.lt_or_ge (k - 1) s.nodes.length with hlt | hge
        · have := hk.2; rw [List.getElem?_append_left hlt] at this; exact this
        · exfalso
          have hk2 := hk.2
          rcases Nat.lt_or_ge (k - 1) (s.nodes.length + 1) with h1 | h1
          · have : k - 1 = s.nodes.length := by omega
            omega
          · rw [List.getElem?_eq_none (by simp; omega)] at hk2; simp at hk2
      obtain ⟨o, ho⟩ := h k hk'
      cases o with
      | priv j =>
        obtain ⟨b, hb, hpb, hq⟩ := ho
        exact ⟨.priv j, b, by
          show (s.agents ++ [newAgent tid lk (s.nodes.length + 1) m])[j]? = some b
          rw [List.getElem?_append_left (getElem?_lt' hb)]; exact hb, hpb, hq⟩
      | cache t => exact ⟨.cache t, ho⟩
      | grp ℓ => exact ⟨.grp ℓ, ho⟩

/-- thread exit -/
theorem lo_exit (hI : Inv W P pb cb s Q) (h : LiveOwned s Q) (tid : Nat) : LiveOwned (threadExit s tid).1 Q := by
  unfold threadExit
  cases hc : s.tls.getD tid none with
  | none => exact h
  | some old =>
    simp only
    have hc' : s.tls[tid]? = some (some old) := by
      rw [List.getD_eq_getElem?_getD] at hc
      cases hg : s.tls[tid]? with
      | none => rw [hg] at hc; cases hc
      | some o => rw [hg] at hc; simp at hc; rw [hc]
    have hold := nodeLive_bound (hI.cacheLive tid old hc')
    intro k hk
    have hne : k ≠ old := by
      intro e; subst e
      unfold nodeLive at hk
      simp [List.getD_eq_getElem?_getD, List.getElem?_set_self (show k - 1 < s.nodes.length by omega)] at hk
    have hk' : nodeLive s k = true := by
      unfold nodeLive at hk ⊢
      simp only [ge_iff_le, Bool.and_eq_true, decide_eq_true_eq, List.getD_eq_getElem?_getD] at hk ⊢
      have : ¬ (old - 1 = k - 1) := by omega
      rw [List.getElem?_set_ne this] at hk
      exact hk
    obtain ⟨o, ho⟩ := h k hk'
    cases o with
    | priv j => exact ⟨.priv j, ho⟩
    | cache t =>
      by_cases ht : t = tid
      · subst ht
        have ho' : s.tls[t]? = some (some k) := ho
        rw [hc'] at ho'
        exact absurd (Option.some.inj (Option.some.inj ho')).symm hne
      · refine ⟨.cache t, ?_⟩
        show (s.tls.set tid none)[t]? = some (some k)
        rw [List.getElem?_set_ne (Ne.symm ht)]; exact ho
    | grp ℓ => exact ⟨.grp ℓ, ho⟩

/-! ### every atomic step -/

theorem lo_keep_np {i : Nat} {a a' : Agent} {s0 : St} (h : LiveOwned s Q) (hi : s.agents[i]? = some a)
    (hnp : a.loc.priv = false) (h0a : s0.agents = s.agents) (h0t : s0.tls = s.tls)
    (h0l : ∀ k, nodeLive s0 k = nodeLive s k) : LiveOwned (setAgent s0 i a') Q :=
  lo_keep h hi h0a h0t h0l (fun hp => by rw [hnp] at hp; cases hp)

set_option maxHeartbeats 1600000 in
theorem lo_atom (hW : WordSpecs P.C pb cb W) (hP : P.publishStore = false) (hX : InvX W P pb cb s Q)
    (hlo : LiveOwned s Q) (i : Nat) : LiveOwned (step P s (.atom i)) (ghostAtom P s Q i) := by
  have hI := hX.inv
  cases hi : s.agents[i]? with
  | none => simp only [step, atom, ghostAtom, hi]; exact hlo
  | some a =>
    have hwf := hI.wf a (List.mem_of_getElem? hi)
    -- the two frames: nothing written / a word written
    have kS : ∀ a', a.loc.priv = false → LiveOwned (setAgent s i a') Q :=
      fun a' hnp => lo_keep_np hlo hi hnp rfl rfl (fun _ => rfl)
    have kW : ∀ r v a', a.loc.priv = false → LiveOwned (setAgent (wr s r v) i a') Q :=
      fun r v a' hnp => lo_keep_np hlo hi hnp (wr_agents s r v) (wr_tls s r v) (nodeLive_wr s r v)
    cases hloc : a.loc with
    | idle => simp only [step, atom, ghostAtom, hi, hloc]; exact hlo
    | done => simp only [step, atom, ghostAtom, hi, hloc]; exact hlo
    | held m => simp only [step, atom, ghostAtom, hi, hloc]; exact hlo
    | sStore =>
      simp only [step, atom, ghostAtom, hi, hloc]
      exact lo_keep hlo hi (wr_agents s _ _) (wr_tls s _ _) (nodeLive_wr s _ _) (fun _ => ⟨rfl, rfl⟩)
    | sLoad =>
      simp only [step, atom, ghostAtom, hi, hloc]
      exact lo_keep hlo hi rfl rfl (fun _ => rfl) (fun _ => ⟨rfl, rfl⟩)
    | sCas =>
      simp only [step, atom, ghostAtom, hi, hloc]
      have hp : a.loc.priv = true := by simp [hloc, Loc.priv]
      by_cases h0 : a.cur = 0
      · have hc : ¬ (a.cur ≠ 0) := by simp [h0]
        by_cases hl : rd s (.lock a.lk) = 0
        · rw [if_neg hc, if_pos hl, if_pos (show a.cur = 0 ∧ rd s (.lock a.lk) = 0 from ⟨h0, hl⟩)]
          have hq := queue_empty_of_zero hW hI hwf.2.1 hl
          exact lo_enqueue hlo hi rfl rfl (fun _ => rfl) (by intro G hG; rw [hq] at hG; cases hG)
            ⟨_, List.mem_singleton.mpr rfl, rfl⟩
        · rw [if_neg hc, if_neg hl, if_neg (show ¬ (a.cur = 0 ∧ rd s (.lock a.lk) = 0) from fun h => hl h.2)]
          exact lo_keep hlo hi rfl rfl (fun _ => rfl) (fun _ => ⟨rfl, rfl⟩)
      · have hc : a.cur ≠ 0 := h0
        by_cases hl : rd s (.lock a.lk) = a.cur
        · rw [if_pos hc, if_pos hl, if_neg (show ¬ (a.cur = 0 ∧ rd s (.lock a.lk) = 0) from fun h => h0 h.1)]
          dsimp only
          apply lo_to_cache hI.own hlo hi (wr_agents s _ _) (wr_tls s _ _) (nodeLive_wr s _ _) hwf.1
          · split <;> rfl
          · intro _; rfl
          · intro ℓ G hG; exact Or.inl hG
        · rw [if_pos hc, if_neg hl, if_neg (show ¬ (a.cur = 0 ∧ rd s (.lock a.lk) = 0) from fun h => h0 h.1)]
          exact lo_keep hlo hi rfl rfl (fun _ => rfl) (fun _ => ⟨rfl, rfl⟩)
    | sSpinLock =>
      simp only [step, atom, ghostAtom, hi, hloc]
      have hnp : a.loc.priv = false := by simp [hloc, Loc.priv]
      by_cases hc : (rd s (.lock a.lk) &&& P.C.kPtrMask) ≠ a.nxt
      · rw [if_pos hc]; exact kS _ hnp
      · rw [if_neg hc]
        by_cases hx : (rd s (.lock a.lk) &&& P.C.kXMask) = P.C.kNoLocks
        · rw [if_pos hx]; exact kS _ hnp
        · rw [if_neg hx]; exact kS _ hnp
    | sSpinNext =>
      simp only [step, atom, ghostAtom, hi, hloc]
      have hnp : a.loc.priv = false := by simp [hloc, Loc.priv]
      rw [touch_live s a.qnode (own_live hI hi (Or.inl (by simp [hloc, Loc.sMem])))]
      by_cases hc : (rd s (.node a.qnode) &&& P.C.kPtrMask) ≠ 0
      · rw [if_pos hc]; exact kS _ hnp
      · rw [if_neg hc]; exact kS _ hnp
    | sSpinNode =>
      simp only [step, atom, ghostAtom, hi, hloc]
      have hnp : a.loc.priv = false := by simp [hloc, Loc.priv]
      have hsm : a.loc.sMem = true := by simp [hloc, Loc.sMem]
      obtain ⟨j0, G0, hj0, hn0, hmo⟩ := member_group hI hi hsm
      simp only [MemOK, hloc] at hmo
      obtain ⟨G', hG', _, hnx⟩ := hmo
      have htn : a.nxt.toNat = G'.node := by
        rw [hnx]; exact ofNode_toNat _ (Nat.lt_of_lt_of_le (hI.node_lt (mem_of_idx hG')) hW.pbLe)
      have hlive' : nodeLive s a.nxt.toNat = true := by rw [htn]; exact hI.grpLive a.lk G' (mem_of_idx hG')
      rw [touch_live s _ hlive']
      by_cases hx : (rd s (.node a.nxt.toNat) &&& P.C.kXMask) = P.C.kNoLocks
      · rw [if_pos hx]; exact kS _ hnp
      · rw [if_neg hx]; exact hlo
    | xStore m =>
      simp only [step, atom, ghostAtom, hi, hloc]
      exact lo_keep hlo hi (wr_agents s _ _) (wr_tls s _ _) (nodeLive_wr s _ _) (fun _ => ⟨rfl, rfl⟩)
    | xXchg m =>
      simp only [step, atom, ghostAtom, hi, hloc]
      exact lo_enqueue hlo hi rfl rfl (fun _ => rfl) (fun G hG => List.mem_append_left _ hG)
        ⟨_, List.mem_append_right _ (List.mem_singleton.mpr rfl), rfl⟩
    | xPublish m =>
      simp only [step, atom, ghostAtom, hi, hloc, hP]
      exact kW _ _ _ (by simp [hloc, Loc.priv])
    | xLink m =>
      simp only [step, atom, ghostAtom, hi, hloc]
      exact kW _ _ _ (by simp [hloc, Loc.priv])
    | xSpin m =>
      simp only [step, atom, ghostAtom, hi, hloc]
      have hnp : a.loc.priv = false := by simp [hloc, Loc.priv]
      rw [touch_live s a.qnode (own_live hI hi (Or.inr (by rw [hloc]; rfl)))]
      cases m with
      | X =>
        by_cases hok : ((rd s (.node a.qnode) &&& P.C.kLockMask) == P.C.kNoLocks) = true
        · rw [if_pos hok]; exact kS _ hnp
        · rw [if_neg hok]; exact hlo
      | SIX =>
        by_cases hok : ((rd s (.node a.qnode) &&& P.C.kXMask) == P.C.kNoLocks) = true
        · rw [if_pos hok]; exact kS _ hnp
        · rw [if_neg hok]; exact hlo
      | S =>
        by_cases hok : ((rd s (.node a.qnode) &&& P.C.kXMask) == P.C.kNoLocks) = true
        · rw [if_pos hok]; exact kS _ hnp
        · rw [if_neg hok]; exact hlo
    | rel m ph =>
      have hnp : a.loc.priv = false := by simp [hloc, Loc.priv]
      have hown : nodeLive s a.qnode = true := by
        apply own_live hI hi
        cases m <;> simp [hloc, Loc.sMem, Loc.headMode]
      cases ph with
      | load0 =>
        simp only [step, atom, ghostAtom, hi, hloc]
        rw [touch_live s a.qnode hown]
        cases m with
        | S => exact kS _ hnp
        | SIX =>
          dsimp only
          by_cases hs : (rd s (.node a.qnode) &&& P.C.kSMask) = P.C.kNoLocks
          · rw [if_pos hs]; exact kS _ hnp
          · rw [if_neg hs]; exact kS _ hnp
        | X => exact kS _ hnp
      | lockLoad => simp only [step, atom, ghostAtom, hi, hloc]; exact kS _ hnp
      | spinNext =>
        simp only [step, atom, ghostAtom, hi, hloc]
        rw [touch_live s a.qnode hown]; exact kS _ hnp
      | cas =>
        simp only [step, atom, ghostAtom, hi, hloc]
        by_cases hl : rd s (.lock a.lk) = a.cur
        · cases m with
          | S =>
            by_cases hd : ((a.cur - P.C.kSLock) &&& (P.C.kSMask ||| P.C.kSIXLock)) ≠ 0
            · have hd' : decide (((a.cur - P.C.kSLock) &&& (P.C.kSMask ||| P.C.kSIXLock)) ≠ 0) = true := decide_eq_true hd
              simp only [hl, hd', ↓reduceIte]; exact kW _ _ _ hnp
            · have hd' : decide (((a.cur - P.C.kSLock) &&& (P.C.kSMask ||| P.C.kSIXLock)) ≠ 0) = false := decide_eq_false hd
              simp only [hl, hd', Bool.false_eq_true, ↓reduceIte]
              exact (case_relS_cas_null hW hI hi hloc hl hd).2 hlo
          | SIX =>
            by_cases hd : (a.cur &&& P.C.kSMask) ≠ 0
            · have hd' : decide ((a.cur &&& P.C.kSMask) ≠ 0) = true := decide_eq_true hd
              simp only [hl, hd', ↓reduceIte]; exact kW _ _ _ hnp
            · have hd' : decide ((a.cur &&& P.C.kSMask) ≠ 0) = false := decide_eq_false hd
              simp only [hl, hd', Bool.false_eq_true, ↓reduceIte]
              exact (case_rel_cas_null hW hI hi .relSIX hloc hl hd).2 hlo
          | X =>
            by_cases hd : (a.cur &&& P.C.kSMask) ≠ 0
            · have hd' : decide ((a.cur &&& P.C.kSMask) ≠ 0) = true := decide_eq_true hd
              simp only [hl, hd', ↓reduceIte]; exact kW _ _ _ hnp
            · have hd' : decide ((a.cur &&& P.C.kSMask) ≠ 0) = false := decide_eq_false hd
              simp only [hl, hd', Bool.false_eq_true, ↓reduceIte]
              exact (case_rel_cas_null hW hI hi .relX hloc hl hd).2 hlo
        · simp only [hl, ↓reduceIte]; exact kS _ hnp
      | handoff =>
        simp only [step, atom, ghostAtom, hi, hloc]
        cases m with
        | S =>
          rw [touch_live s _ (handoff_live_S hI hi hloc)]
          by_cases hl : (rd s (.node (ptrOf P a.nxt)) &&& P.C.kLockMask) = P.C.kSLock
          · have hl' : decide ((rd s (.node (ptrOf P a.nxt)) &&& P.C.kLockMask) = P.C.kSLock) = true := decide_eq_true hl
            simp only [hl', ↓reduceIte]
            exact (case_relS_handoff_last hW hI hi hloc hl).2 hlo
          · have hl' : decide ((rd s (.node (ptrOf P a.nxt)) &&& P.C.kLockMask) = P.C.kSLock) = false := decide_eq_false hl
            simp only [hl', Bool.false_eq_true, ↓reduceIte]; exact kW _ _ _ hnp
        | SIX =>
          rw [touch_live s _ (handoff_live_H (W := W) hI hi .relSIX hloc)]
          by_cases hl : (rd s (.node (ptrOf P a.nxt)) &&& P.C.kSMask) = P.C.kNoLocks
          · have hl' : decide ((rd s (.node (ptrOf P a.nxt)) &&& P.C.kSMask) = P.C.kNoLocks) = true := decide_eq_true hl
            simp only [hl', ↓reduceIte]
            exact (case_rel_handoff_last hW hI hi .relSIX (Or.inr rfl) hloc hl).2 hlo
          · have hl' : decide ((rd s (.node (ptrOf P a.nxt)) &&& P.C.kSMask) = P.C.kNoLocks) = false := decide_eq_false hl
            simp only [hl', Bool.false_eq_true, ↓reduceIte]; exact kW _ _ _ hnp
        | X =>
          rw [touch_live s _ (handoff_live_H (W := W) hI hi .relX hloc)]
          by_cases hl : (rd s (.node (ptrOf P a.nxt)) &&& P.C.kSMask) = P.C.kNoLocks
          · have hl' : decide ((rd s (.node (ptrOf P a.nxt)) &&& P.C.kSMask) = P.C.kNoLocks) = true := decide_eq_true hl
            simp only [hl', ↓reduceIte]
            exact (case_rel_handoff_last hW hI hi .relX (Or.inl rfl) hloc hl).2 hlo
          · have hl' : decide ((rd s (.node (ptrOf P a.nxt)) &&& P.C.kSMask) = P.C.kNoLocks) = false := decide_eq_false hl
            simp only [hl', Bool.false_eq_true, ↓reduceIte]; exact kW _ _ _ hnp
    | upg ph =>
      have hnp : a.loc.priv = false := by simp [hloc, Loc.priv]
      have hown : nodeLive s a.qnode = true := own_live hI hi (Or.inr (by rw [hloc]; rfl))
      cases ph with
      | load0 =>
        simp only [step, atom, ghostAtom, hi, hloc]
        rw [touch_live s a.qnode hown]
        by_cases hs : (rd s (.node a.qnode) &&& P.C.kSMask) = P.C.kNoLocks
        · rw [if_pos hs]; exact kS _ hnp
        · rw [if_neg hs]; exact kS _ hnp
      | lockLoad => simp only [step, atom, ghostAtom, hi, hloc]; exact kS _ hnp
      | cas =>
        simp only [step, atom, ghostAtom, hi, hloc]
        by_cases hl : rd s (.lock a.lk) = a.cur
        · simp only [hl, ↓reduceIte]; exact kW _ _ _ hnp
        · simp only [hl, ↓reduceIte]; exact kS _ hnp
      | spinNext =>
        simp only [step, atom, ghostAtom, hi, hloc]
        rw [touch_live s a.qnode hown]; exact kS _ hnp
      | handoff =>
        simp only [step, atom, ghostAtom, hi, hloc]
        rw [touch_live s _ (handoff_live_H (W := W) hI hi .upg hloc)]; exact kW _ _ _ hnp
    | dng ph =>
      have hnp : a.loc.priv = false := by simp [hloc, Loc.priv]
      have hown : nodeLive s a.qnode = true := own_live hI hi (Or.inr (by rw [hloc]; rfl))
      cases ph with
      | load0 =>
        simp only [step, atom, ghostAtom, hi, hloc]
        rw [touch_live s a.qnode hown]; exact kS _ hnp
      | lockLoad => simp only [step, atom, ghostAtom, hi, hloc]; exact kS _ hnp
      | cas =>
        simp only [step, atom, ghostAtom, hi, hloc]
        by_cases hl : rd s (.lock a.lk) = a.cur
        · simp only [hl, ↓reduceIte]; exact kW _ _ _ hnp
        · simp only [hl, ↓reduceIte]; exact kS _ hnp
      | spinNext =>
        simp only [step, atom, ghostAtom, hi, hloc]
        rw [touch_live s a.qnode hown]; exact kS _ hnp
      | handoff =>
        simp only [step, atom, ghostAtom, hi, hloc]
        rw [touch_live s _ (handoff_live_H (W := W) hI hi .dng hloc)]; exact kW _ _ _ hnp

/-! ### every action, every run -/

structure InvL (W : Nat → Bool → Bool → Nat → Word) (P : Params) (pb cb : Nat) (s : St) (Q : Nat → List Grp) : Prop where
  invx : InvX W P pb cb s Q
  lo : LiveOwned s Q

theorem invl_init (nlocks nthreads : Nat) (hpb : 0 < pb) (hcb : 1 < cb) :
    InvL W P pb cb (mkSt nlocks nthreads) (fun _ => []) := by
  refine ⟨invx_init nlocks nthreads hpb hcb, ?_⟩
  intro k hk
  exfalso
  unfold nodeLive mkSt at hk
  simp at hk

theorem invl_step (hW : WordSpecs P.C pb cb W) (hP : P.publishStore = false) (hX : InvL W P pb cb s Q)
    (act : Act) (hok : ActOK s act) (hfit : Fits pb cb (step P s act)) :
    InvL W P pb cb (step P s act) (ghostStep P s Q act) := by
  refine ⟨invx_step hW hP hX.invx act hok hfit, ?_⟩
  have hI := hX.invx.inv
  cases act with
  | atom i => exact lo_atom hW hP hX.invx hX.lo i
  | spawn tid lk m => exact lo_spawn hI hX.lo tid lk m hok.1
  | exit tid => exact lo_exit hI hX.lo tid
  | release i tid =>
    show LiveOwned (beginRelease s i tid) Q
    unfold beginRelease
    cases hi : s.agents[i]? with
    | none => exact hX.lo
    | some a =>
      simp only
      split
      · rename_i m hl
        exact lo_keep_np hX.lo hi (by simp [hl, Loc.priv]) rfl rfl (fun _ => rfl)
      · exact hX.lo
  | upgrade i tid =>
    show LiveOwned (beginUpgrade s i tid) Q
    unfold beginUpgrade
    cases hi : s.agents[i]? with
    | none => exact hX.lo
    | some a =>
      simp only
      split
      · rename_i hl
        exact lo_keep_np hX.lo hi (by simp [hl, Loc.priv]) rfl rfl (fun _ => rfl)
      · exact hX.lo
  | downgrade i tid =>
    show LiveOwned (beginDowngrade s i tid) Q
    unfold beginDowngrade
    cases hi : s.agents[i]? with
    | none => exact hX.lo
    | some a =>
      simp only
      split
      · rename_i hl
        exact lo_keep_np hX.lo hi (by simp [hl, Loc.priv]) rfl rfl (fun _ => rfl)
      · exact hX.lo

theorem invl_run (hW : WordSpecs P.C pb cb W) (hP : P.publishStore = false) :
    ∀ (acts : List Act) (s : St) (Q : Nat → List Grp), InvL W P pb cb s Q → RunOK pb cb P s acts →
      InvL W P pb cb (run P s acts) (ghostRun P s Q acts) := by
  intro acts
  induction acts with
  | nil => intro s Q h _; exact h
  | cons act rest ih =>
    intro s Q h hr
    rw [run_cons]
    exact ih _ _ (invl_step hW hP h act hr.1 hr.2.1) hr.2.2

/-! ### nothing is leaked -/

/-- every live node is cached by a thread or is the node of an outstanding (not finished) request -/
theorem live_accounted (hL : InvL W P pb cb s Q) (k : Nat) (hk : nodeLive s k = true) :
    (∃ t : Nat, s.tls[t]? = some (some k)) ∨
    (∃ (i : Nat) (a : Agent), s.agents[i]? = some a ∧ a.loc ≠ Loc.done ∧ a.qnode = k) := by
  have hI := hL.invx.inv
  obtain ⟨o, ho⟩ := hL.lo k hk
  cases o with
  | cache t => exact Or.inl ⟨t, ho⟩
  | priv i =>
    obtain ⟨a, ha, hp, hq⟩ := ho
    exact Or.inr ⟨i, a, ha, (fun e => by rw [e] at hp; cases hp), hq⟩
  | grp ℓ =>
    obtain ⟨G, hG, hn⟩ := ho
    right
    have hℓ : ℓ < s.locks.length := by
      rcases Nat.lt_or_ge ℓ s.locks.length with h | h
      · exact h
      · rw [hI.outside ℓ h] at hG; cases hG
    have hLk := hI.locks ℓ hℓ
    rcases hLk.nonempty G hG with hh | hc
    · obtain ⟨i, a, hhd, ha, hm⟩ := live_head hh
      obtain ⟨j, hj⟩ := List.mem_iff_getElem?.mp hG
      obtain ⟨b, hb, _, hb2, _, _⟩ := hLk.heads j G i hj hhd hh
      rw [ha] at hb; cases hb
      refine ⟨i, a, ha, ?_, by rw [hb2, hn]⟩
      intro e; rw [e] at hm; rw [← hm] at hh; cases hh
    · unfold cnt at hc
      obtain ⟨b, hb, hmem⟩ := List.countP_pos_iff.mp hc
      obtain ⟨i, hi⟩ := List.mem_iff_getElem?.mp hb
      simp only [isMem, Bool.and_eq_true, decide_eq_true_eq] at hmem
      refine ⟨i, b, hi, ?_, by rw [hmem.1.2, hn]⟩
      intro e; rw [e] at hmem; cases hmem.2

/-- **no leak at quiescence**: when every request has finished, the only live nodes are the spare nodes in the
    threads' caches (one per thread at most; thread exit deletes it) -/
theorem quiescent_cached (hL : InvL W P pb cb s Q) (hdone : ∀ a ∈ s.agents, a.loc = .done) (k : Nat)
    (hk : nodeLive s k = true) : ∃ t : Nat, s.tls[t]? = some (some k) := by
  rcases live_accounted hL k hk with h | ⟨i, a, ha, hnd, _⟩
  · exact h
  · exact absurd (hdone a (List.mem_of_getElem? ha)) hnd

end CppUtil.Mcs
