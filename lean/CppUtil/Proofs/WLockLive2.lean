/-
  Fair termination of the word locks with conversions in the closed system: every agent runs one of the scripts
  `Lock<m>; release`, `LockSIX; UpgradeToX; release`, `LockX; DowngradeToSIX; release`.  Same potential argument as
  `WLockLive.lean` with script-dependent phase weights; the helper of a blocked request is its conflicting holder, or —
  when that holder is an upgrader itself waiting for the readers — one of those readers (`helper_exists2`).
-/
import CppUtil.Proofs.WLockLive

namespace CppUtil.WLock
open CppUtil

variable {P : WParams} {D : Decoder}


/-- what an agent of the closed system does with the lock -/
inductive Script where
  /-- `Lock<m>`; release -/
  | plain (m : Mode)
  /-- `LockSIX`; `UpgradeToX`; release -/
  | sixUp
  /-- `LockX`; `DowngradeToSIX`; release -/
  | xDown
  deriving DecidableEq, Repr, Inhabited

def Script.mode : Script → Mode
  | .plain m => m
  | .sixUp => .SIX
  | .xDown => .X

/-- remaining phases of an agent running script `sc` at location `l` (0 = off the script's path or done) -/
def phS (sc : Script) (l : Loc) : Nat :=
  match sc with
  | .plain _ =>
    (match l with
     | .idle => 3 | .acqLoad _ => 2 | .acqCas _ _ => 2 | .held _ _ => 1 | _ => 0)
  | .sixUp =>
    (match l with
     | .idle => 6 | .acqLoad _ => 5 | .acqCas _ _ => 5
     | .held m _ => (match m with | .SIX => 4 | .X => 1 | .S => 0)
     | .upgLoad => 3 | .upgCas _ => 3 | _ => 0)
  | .xDown =>
    (match l with
     | .idle => 5 | .acqLoad _ => 4 | .acqCas _ _ => 4
     | .held m _ => (match m with | .X => 2 | .SIX => 1 | .S => 0)
     | _ => 0)

/-- the location lies on the path of the script -/
def onPath (sc : Script) (l : Loc) : Bool :=
  match l with
  | .idle => true
  | .acqLoad m => m == sc.mode
  | .acqCas m _ => m == sc.mode
  | .done _ => true
  | .held m _ =>
    (match sc with
     | .plain m0 => m == m0
     | .sixUp => (match m with | .S => false | _ => true)
     | .xDown => (match m with | .S => false | _ => true))
  | .upgLoad => (match sc with | .sixUp => true | _ => false)
  | .upgCas _ => (match sc with | .sixUp => true | _ => false)
  | _ => false

/-- spin distance, now also for the upgrade loop -/
def loc3 (w : Word) : Loc → Nat
  | .acqLoad _ => 1
  | .acqCas _ seen => if seen = w then 0 else 2
  | .upgLoad => 1
  | .upgCas seen => if seen = w then 0 else 2
  | _ => 0

/-- weighted sum over the agents, the weight may depend on the agent's index -/
def wsum (F : Nat → Loc → Nat) : Nat → List Loc → Nat
  | _, [] => 0
  | b, l :: ls => F b l + wsum F (b + 1) ls

theorem wsum_set (F : Nat → Loc → Nat) : ∀ (l : List Loc) (b i : Nat) (old new : Loc), l[i]? = some old →
    wsum F b (l.set i new) + F (b + i) old = wsum F b l + F (b + i) new
  | [], _, _, _, _, h => by simp at h
  | x :: xs, b, 0, old, new, h => by
    simp only [List.getElem?_cons_zero, Option.some.injEq] at h
    subst h
    simp only [List.set_cons_zero, wsum, Nat.add_zero]; omega
  | x :: xs, b, i + 1, old, new, h => by
    simp only [List.getElem?_cons_succ] at h
    have := wsum_set F xs (b + 1) i old new h
    simp only [List.set_cons_succ, wsum]
    have e : b + 1 + i = b + (i + 1) := by omega
    rw [e] at this
    omega

theorem wsum_le (F : Nat → Loc → Nat) (c : Nat) (hF : ∀ i l, F i l ≤ c) : ∀ (l : List Loc) (b : Nat), wsum F b l ≤ c * l.length
  | [], _ => by simp [wsum]
  | x :: xs, b => by
    have := wsum_le F c hF xs (b + 1)
    have := hF b x
    simp only [wsum, List.length_cons, Nat.mul_succ]; omega

theorem wsum_pos (F : Nat → Loc → Nat) : ∀ (l : List Loc) (b : Nat), 0 < wsum F b l →
    ∃ (i : Nat) (x : Loc), l[i]? = some x ∧ 0 < F (b + i) x
  | [], _, h => by simp [wsum] at h
  | x :: xs, b, h => by
    by_cases hx : 0 < F b x
    · exact ⟨0, x, rfl, by simpa using hx⟩
    · have : 0 < wsum F (b + 1) xs := by simp only [wsum] at h; omega
      obtain ⟨i, y, hi, hy⟩ := wsum_pos F xs (b + 1) this
      have e : b + 1 + i = b + (i + 1) := by omega
      rw [e] at hy
      exact ⟨i + 1, y, by simpa using hi, hy⟩

theorem wsum_zero (F : Nat → Loc → Nat) : ∀ (l : List Loc) (b : Nat), wsum F b l = 0 →
    ∀ (i : Nat) (x : Loc), l[i]? = some x → F (b + i) x = 0
  | [], _, _, _, _, h => by simp at h
  | y :: ys, b, h0, 0, x, h => by
    simp only [List.getElem?_cons_zero, Option.some.injEq] at h
    subst h
    simp only [wsum] at h0
    simp only [Nat.add_zero]; omega
  | y :: ys, b, h0, i + 1, x, h => by
    simp only [List.getElem?_cons_succ] at h
    simp only [wsum] at h0
    have := wsum_zero F ys (b + 1) (by omega) i x h
    have e : b + 1 + i = b + (i + 1) := by omega
    rw [e] at this; exact this


def dfl : Script := .plain .S

def adv2 (P : WParams) (scs : List Script) (nvs : List (BitVec 32)) (s : St) (i : Nat) : St :=
  let act : Option Act :=
    match scs.getD i dfl, s.agents[i]? with
    | sc, some .idle => some (.start i (.lock sc.mode))
    | _, some (.acqLoad _) => some (.atom i none false)
    | _, some (.acqCas _ _) => some (.atom i none false)
    | .sixUp, some (.held .SIX _) => some (.upgrade i)
    | .sixUp, some .upgLoad => some (.atom i none false)
    | .sixUp, some (.upgCas _) => some (.atom i none false)
    | .xDown, some (.held .X _) => some (.downgrade i (nvs.getD i 0))
    | _, some (.held _ _) => some (.release i (nvs.getD i 0))
    | _, _ => none
  match act with
  | some a => (match step P s a with
    | some (s', _) => s'
    | none => s)
  | none => s

def exec2 (P : WParams) (scs : List Script) (nvs : List (BitVec 32)) (s : St) : List Nat → St
  | [] => s
  | i :: is => exec2 P scs nvs (adv2 P scs nvs s i) is

def Closed2 (scs : List Script) (s : St) : Prop := ∀ i l, s.agents[i]? = some l → onPath (scs.getD i dfl) l = true

def phases2 (scs : List Script) (s : St) : Nat := wsum (fun i l => phS (scs.getD i dfl) l) 0 s.agents
def spin2 (s : St) : Nat := wsum (fun _ l => loc3 s.w l) 0 s.agents
def psi2 (scs : List Script) (s : St) : Nat := phases2 scs s * (2 * s.agents.length + 1) + spin2 s

theorem loc3_le (w : Word) (l : Loc) : loc3 w l ≤ 2 := by
  cases l <;> simp [loc3] <;> split <;> omega

theorem spin2_le (s : St) : spin2 s ≤ 2 * s.agents.length :=
  wsum_le _ 2 (fun _ l => loc3_le s.w l) s.agents 0

theorem psi2_progress {scs : List Script} {s s' : St} {i : Nat} {old new : Loc} (hi : s.agents[i]? = some old)
    (hag : s'.agents = s.agents.set i new) (hph : phS (scs.getD i dfl) new + 1 ≤ phS (scs.getD i dfl) old) :
    psi2 scs s' < psi2 scs s := by
  have hlen : s'.agents.length = s.agents.length := by rw [hag]; simp
  have h1 : phases2 scs s' + 1 ≤ phases2 scs s := by
    unfold phases2; rw [hag]
    have := wsum_set (fun i l => phS (scs.getD i dfl) l) s.agents 0 i old new hi
    simp only [Nat.zero_add] at this
    omega
  have h2 := spin2_le s'
  unfold psi2
  rw [hlen] at h2 ⊢
  have : (phases2 scs s' + 1) * (2 * s.agents.length + 1) ≤ phases2 scs s * (2 * s.agents.length + 1) :=
    Nat.mul_le_mul_right _ h1
  rw [Nat.add_mul] at this
  omega

theorem psi2_local {scs : List Script} {s s' : St} {i : Nat} {old new : Loc} (hi : s.agents[i]? = some old)
    (hag : s'.agents = s.agents.set i new) (hw : s'.w = s.w)
    (hph : phS (scs.getD i dfl) new = phS (scs.getD i dfl) old)
    (hl : loc3 s.w new + 1 ≤ loc3 s.w old) : psi2 scs s' < psi2 scs s := by
  have hlen : s'.agents.length = s.agents.length := by rw [hag]; simp
  have h1 : phases2 scs s' = phases2 scs s := by
    unfold phases2; rw [hag]
    have := wsum_set (fun i l => phS (scs.getD i dfl) l) s.agents 0 i old new hi
    simp only [Nat.zero_add] at this
    omega
  have h2 : spin2 s' + 1 ≤ spin2 s := by
    unfold spin2; rw [hag, hw]
    have := wsum_set (fun _ l => loc3 s.w l) s.agents 0 i old new hi
    omega
  unfold psi2
  rw [hlen, h1]; omega

/-- the action of agent `i` as a step of the lock model -/
theorem adv2_is_step (scs : List Script) (nvs : List (BitVec 32)) (s : St) (i : Nat) :
    adv2 P scs nvs s i = s ∨ ∃ a e, step P s a = some (adv2 P scs nvs s i, e) := by
  unfold adv2
  generalize (match scs.getD i dfl, s.agents[i]? with
    | sc, some .idle => some (Act.start i (.lock sc.mode))
    | _, some (.acqLoad _) => some (.atom i none false)
    | _, some (.acqCas _ _) => some (.atom i none false)
    | .sixUp, some (.held .SIX _) => some (.upgrade i)
    | .sixUp, some .upgLoad => some (.atom i none false)
    | .sixUp, some (.upgCas _) => some (.atom i none false)
    | .xDown, some (.held .X _) => some (.downgrade i (nvs.getD i 0))
    | _, some (.held _ _) => some (.release i (nvs.getD i 0))
    | _, _ => none) = act
  cases act with
  | none => exact Or.inl rfl
  | some a =>
    cases h : step P s a with
    | none => left; simp only [h]
    | some r => right; exact ⟨a, r.2, by simp only [h]⟩

theorem onPath_acq (sc : Script) : (sc.mode == sc.mode) = true := by simp

/-- the effect of the action of agent `i`, by script and location -/
def Stutter (P : WParams) (s : St) (i : Nat) : Prop :=
  s.agents[i]? = none ∨ (∃ r, s.agents[i]? = some (.done r)) ∨
  (∃ m, s.agents[i]? = some (.acqLoad m) ∧ P.lockGuard m s.w = false) ∨
  (s.agents[i]? = some .upgLoad ∧ P.upgGuard s.w = false)

theorem adv2_cases (scs : List Script) (nvs : List (BitVec 32)) {s : St} (hc : Closed2 scs s) (i : Nat) :
    (adv2 P scs nvs s i = s ∧ Stutter P s i) ∨
    ∃ old new w', s.agents[i]? = some old ∧ adv2 P scs nvs s i = { w := w', agents := s.agents.set i new } ∧
      onPath (scs.getD i dfl) new = true ∧
      ((phS (scs.getD i dfl) new + 1 ≤ phS (scs.getD i dfl) old) ∨
       (w' = s.w ∧ phS (scs.getD i dfl) new = phS (scs.getD i dfl) old ∧ loc3 s.w new + 1 ≤ loc3 s.w old)) := by
  cases h : s.agents[i]? with
  | none => left; exact ⟨by unfold adv2; simp only [h], Or.inl h⟩
  | some l =>
    have hp := hc i l h
    generalize hsc : scs.getD i dfl = sc at hp ⊢
    cases l with
    | idle =>
      right
      refine ⟨_, .acqLoad sc.mode, s.w, rfl, ?_, onPath_acq sc, Or.inl ?_⟩
      · unfold adv2; simp only [h, hsc, step] <;> rfl
      · cases sc <;> exact Nat.le_of_ble_eq_true rfl
    | acqLoad m =>
      have hm : m = sc.mode := by
        have : (m == sc.mode) = true := hp
        simpa using this
      by_cases hg : P.lockGuard m s.w = true
      · right
        refine ⟨_, .acqCas m s.w, s.w, rfl, ?_, hp, Or.inr ⟨rfl, ?_, ?_⟩⟩
        · unfold adv2; simp only [h, hsc, step, atomStep, Option.getD_none, hg, ↓reduceIte, Option.map_some] <;> rfl
        · cases sc <;> rfl
        · show (if s.w = s.w then 0 else 2) + 1 ≤ 1
          simp
      · left
        refine ⟨?_, Or.inr (Or.inr (Or.inl ⟨m, h, by simpa using hg⟩))⟩
        unfold adv2; simp only [h, hsc, step, atomStep, Option.getD_none, hg, Bool.false_eq_true, ↓reduceIte, Option.map_some]
    | acqCas m seen =>
      have hm : m = sc.mode := by
        have : (m == sc.mode) = true := hp
        simpa using this
      right
      by_cases hw : s.w = seen
      · refine ⟨_, .held m seen, P.lockUpd m seen, rfl, ?_, ?_, Or.inl ?_⟩
        · unfold adv2; simp only [h, hsc, step, atomStep, hw, and_self, ↓reduceIte, Option.map_some] <;> rfl
        · subst hm
          cases sc with
          | plain m0 => show (m0 == m0) = true; simp
          | sixUp => rfl
          | xDown => rfl
        · subst hm
          cases sc with
          | plain m0 => exact Nat.le_of_ble_eq_true rfl
          | sixUp => exact Nat.le_of_ble_eq_true rfl
          | xDown => exact Nat.le_of_ble_eq_true rfl
      · refine ⟨_, .acqLoad m, s.w, rfl, ?_, hp, Or.inr ⟨rfl, ?_, ?_⟩⟩
        · unfold adv2; simp only [h, hsc, step, atomStep, hw, false_and, ↓reduceIte, Option.map_some] <;> rfl
        · cases sc <;> rfl
        · have hne : seen ≠ s.w := fun e => hw e.symm
          show 1 + 1 ≤ (if seen = s.w then 0 else 2)
          rw [if_neg hne]; exact Nat.le_refl _
    | held m seen =>
      right
      cases sc with
      | plain m0 =>
        cases m with
        | S =>
          refine ⟨_, .done 0, s.w - P.relSArg, rfl, ?_, rfl, Or.inl (Nat.le_of_ble_eq_true rfl)⟩
          unfold adv2; simp only [h, hsc, step, releaseStep] <;> rfl
        | SIX =>
          refine ⟨_, .done 0, s.w ^^^ P.relSIXArg, rfl, ?_, rfl, Or.inl (Nat.le_of_ble_eq_true rfl)⟩
          unfold adv2; simp only [h, hsc, step, releaseStep] <;> rfl
        | X =>
          refine ⟨_, .done 0, P.relXVal (nvs.getD i 0), rfl, ?_, rfl, Or.inl (Nat.le_of_ble_eq_true rfl)⟩
          unfold adv2; simp only [h, hsc, step, releaseStep] <;> rfl
      | sixUp =>
        cases m with
        | SIX =>
          refine ⟨_, .upgLoad, s.w, rfl, ?_, rfl, Or.inl (Nat.le_of_ble_eq_true rfl)⟩
          unfold adv2; simp only [h, hsc, step] <;> rfl
        | X =>
          refine ⟨_, .done 0, P.relXVal (nvs.getD i 0), rfl, ?_, rfl, Or.inl (Nat.le_of_ble_eq_true rfl)⟩
          unfold adv2; simp only [h, hsc, step, releaseStep] <;> rfl
        | S => cases hp
      | xDown =>
        cases m with
        | X =>
          refine ⟨_, .held .SIX seen, P.dngVal (nvs.getD i 0), rfl, ?_, rfl, Or.inl (Nat.le_of_ble_eq_true rfl)⟩
          unfold adv2; simp only [h, hsc, step, downgradeStep] <;> rfl
        | SIX =>
          refine ⟨_, .done 0, s.w ^^^ P.relSIXArg, rfl, ?_, rfl, Or.inl (Nat.le_of_ble_eq_true rfl)⟩
          unfold adv2; simp only [h, hsc, step, releaseStep] <;> rfl
        | S => cases hp
    | upgLoad =>
      cases sc with
      | sixUp =>
        by_cases hg : P.upgGuard s.w = true
        · right
          refine ⟨_, .upgCas s.w, s.w, rfl, ?_, rfl, Or.inr ⟨rfl, rfl, ?_⟩⟩
          · unfold adv2; simp only [h, hsc, step, atomStep, Option.getD_none, hg, ↓reduceIte, Option.map_some] <;> rfl
          · show (if s.w = s.w then 0 else 2) + 1 ≤ 1
            simp
        · left
          refine ⟨?_, Or.inr (Or.inr (Or.inr ⟨h, by simpa using hg⟩))⟩
          unfold adv2; simp only [h, hsc, step, atomStep, Option.getD_none, hg, Bool.false_eq_true, ↓reduceIte, Option.map_some]
      | plain _ => cases hp
      | xDown => cases hp
    | upgCas seen =>
      cases sc with
      | sixUp =>
        right
        by_cases hw : s.w = seen
        · refine ⟨_, .held .X seen, P.upgUpd seen, rfl, ?_, rfl, Or.inl (Nat.le_of_ble_eq_true rfl)⟩
          unfold adv2; simp only [h, hsc, step, atomStep, hw, and_self, ↓reduceIte, Option.map_some] <;> rfl
        · refine ⟨_, .upgLoad, s.w, rfl, ?_, rfl, Or.inr ⟨rfl, rfl, ?_⟩⟩
          · unfold adv2; simp only [h, hsc, step, atomStep, hw, false_and, ↓reduceIte, Option.map_some] <;> rfl
          · have hne : seen ≠ s.w := fun e => hw e.symm
            show 1 + 1 ≤ (if seen = s.w then 0 else 2)
            rw [if_neg hne]; exact Nat.le_refl _
      | plain _ => cases hp
      | xDown => cases hp
    | done r =>
      left; exact ⟨by unfold adv2; simp only [h, hsc], Or.inr (Or.inl ⟨r, h⟩)⟩
    | tryLoad _ _ => cases hp
    | tryCas _ _ _ => cases hp
    | prep1 _ => cases hp
    | prep2 => cases hp
    | prepCas _ => cases hp
    | gvLoad => cases hp
    | vfFence _ => cases hp
    | vfLoad _ => cases hp


theorem adv2_psi (scs : List Script) (nvs : List (BitVec 32)) {s : St} (hc : Closed2 scs s) (i : Nat) :
    (adv2 P scs nvs s i = s ∧ Stutter P s i) ∨ psi2 scs (adv2 P scs nvs s i) < psi2 scs s := by
  rcases adv2_cases (P := P) scs nvs hc i with h | ⟨old, new, w', hi, he, _, hd⟩
  · exact Or.inl h
  · right
    rw [he]
    rcases hd with hd | ⟨hw, hph, hl⟩
    · exact psi2_progress hi rfl hd
    · exact psi2_local hi rfl hw hph hl

theorem closed2_set {scs : List Script} {s : St} (hc : Closed2 scs s) (i : Nat) (l : Loc)
    (hl : onPath (scs.getD i dfl) l = true) (w' : Word) : Closed2 scs { w := w', agents := s.agents.set i l } := by
  intro j x hx
  by_cases hji : j = i
  · subst hji
    have hlt : j < s.agents.length := by
      have := getElem?_lt hx; simpa using this
    have : (s.agents.set j l)[j]? = some l := List.getElem?_set_self hlt
    have hx' : (s.agents.set j l)[j]? = some x := hx
    rw [this] at hx'; cases hx'; exact hl
  · have hx' : (s.agents.set i l)[j]? = some x := hx
    rw [List.getElem?_set_ne (Ne.symm hji)] at hx'
    exact hc j x hx'

structure WL2 (P : WParams) (D : Decoder) (scs : List Script) (k : Nat) (s : St) : Prop where
  inv : Inv P D s
  closed : Closed2 scs s
  len : s.agents.length = k
  cap : k < D.cap

theorem wl2_adv (hS : Specs P D) (scs : List Script) (nvs : List (BitVec 32)) {k : Nat} {s : St} (h : WL2 P D scs k s) (i : Nat) :
    WL2 P D scs k (adv2 P scs nvs s i) := by
  have hI : Inv P D (adv2 P scs nvs s i) := by
    rcases adv2_is_step (P := P) scs nvs s i with he | ⟨a, e, he⟩
    · rw [he]; exact h.inv
    · exact inv_step hS h.inv (by rw [h.len]; exact h.cap) he
  rcases adv2_cases (P := P) scs nvs h.closed i with ⟨he, _⟩ | ⟨old, new, w', hi, he, hp, _⟩
  · rw [he]; exact h
  · refine ⟨hI, ?_, ?_, h.cap⟩
    · rw [he]; exact closed2_set h.closed i new hp w'
    · rw [he]; simp only [List.length_set]; exact h.len

theorem wl2_exec (hS : Specs P D) (scs : List Script) (nvs : List (BitVec 32)) {k : Nat} : ∀ (seg : List Nat) {s : St},
    WL2 P D scs k s → WL2 P D scs k (exec2 P scs nvs s seg)
  | [], _, h => h
  | i :: is, _, h => wl2_exec hS scs nvs is (wl2_adv hS scs nvs h i)

theorem exec2_psi (hS : Specs P D) (scs : List Script) (nvs : List (BitVec 32)) {k : Nat} : ∀ (seg : List Nat) {s : St},
    WL2 P D scs k s → exec2 P scs nvs s seg = s ∨ psi2 scs (exec2 P scs nvs s seg) < psi2 scs s
  | [], _, _ => Or.inl rfl
  | i :: is, s, h => by
    have h' := wl2_adv hS scs nvs h i
    rcases adv2_psi (P := P) scs nvs h.closed i with ⟨he, _⟩ | hlt
    · show exec2 P scs nvs (adv2 P scs nvs s i) is = s ∨ psi2 scs (exec2 P scs nvs (adv2 P scs nvs s i) is) < psi2 scs s
      rw [he]
      exact exec2_psi hS scs nvs is h
    · right
      show psi2 scs (exec2 P scs nvs (adv2 P scs nvs s i) is) < psi2 scs s
      rcases exec2_psi hS scs nvs is h' with he | hlt2
      · rw [he]; exact hlt
      · exact Nat.lt_trans hlt2 hlt

theorem exec2_le (hS : Specs P D) (scs : List Script) (nvs : List (BitVec 32)) {k : Nat} (seg : List Nat) {s : St}
    (h : WL2 P D scs k s) : psi2 scs (exec2 P scs nvs s seg) ≤ psi2 scs s := by
  rcases exec2_psi hS scs nvs seg h with he | hlt
  · rw [he]; exact Nat.le_refl _
  · exact Nat.le_of_lt hlt

theorem exec2_append (scs : List Script) (nvs : List (BitVec 32)) : ∀ (a b : List Nat) (s : St),
    exec2 P scs nvs s (a ++ b) = exec2 P scs nvs (exec2 P scs nvs s a) b
  | [], _, _ => rfl
  | i :: is, b, s => exec2_append scs nvs is b (adv2 P scs nvs s i)


/-- a stuttering agent holds no S grant, and no grant at all unless it is an upgrader waiting for the readers -/
theorem stutter_grant {s : St} {j : Nat} {lj : Loc} (hj : s.agents[j]? = some lj) (hst : Stutter P s j) :
    lj.grant? = none ∨ (lj = .upgLoad ∧ P.upgGuard s.w = false) := by
  rcases hst with h | ⟨r, h⟩ | ⟨m, h, _⟩ | ⟨h, hb⟩
  · rw [hj] at h; cases h
  · rw [hj] at h; cases h; exact Or.inl rfl
  · rw [hj] at h; cases h; exact Or.inl rfl
  · rw [hj] at h; cases h; exact Or.inr ⟨rfl, hb⟩

/-- **no state of the closed system with conversions is stuck**: some agent's next action lowers `psi2` — a request or an
    upgrade that can proceed; the live holder a blocked request waits for; or, when that holder is itself an upgrader
    waiting for the readers to leave, one of those readers -/
theorem helper_exists2 (hS : Specs P D) (scs : List Script) (nvs : List (BitVec 32)) {k : Nat} {s : St}
    (h : WL2 P D scs k s) (hpos : 0 < phases2 scs s) : ∃ j, j < k ∧ psi2 scs (adv2 P scs nvs s j) < psi2 scs s := by
  obtain ⟨i, l, hi, hl⟩ := wsum_pos _ s.agents 0 hpos
  simp only [Nat.zero_add] at hl
  have lt_of : ∀ {j : Nat} {x : Loc}, s.agents[j]? = some x → j < k := by
    intro j x hx; rw [← h.len]; exact getElem?_lt hx
  -- a reader (an agent with an S grant) always moves
  have reader_moves : ∀ (j : Nat) (lj : Loc), s.agents[j]? = some lj → lj.grant? = some Mode.S →
      ∃ j, j < k ∧ psi2 scs (adv2 P scs nvs s j) < psi2 scs s := by
    intro j lj hj hg
    rcases adv2_psi (P := P) scs nvs h.closed j with ⟨_, hst⟩ | hlt
    · rcases stutter_grant hj hst with h0 | ⟨h0, _⟩
      · rw [h0] at hg; cases hg
      · rw [h0] at hg; cases hg
    · exact ⟨j, lt_of hj, hlt⟩
  -- a blocked upgrader is waiting for a reader
  have upgrader : ∀ (j : Nat), s.agents[j]? = some .upgLoad → P.upgGuard s.w = false →
      ∃ j, j < k ∧ psi2 scs (adv2 P scs nvs s j) < psi2 scs s := by
    intro j hj hb
    obtain ⟨j2, l2, hj2, hg2⟩ := blocked_upgrade_has_reader hS h.inv hj rfl hb
    exact reader_moves j2 l2 hj2 hg2
  rcases adv2_psi (P := P) scs nvs h.closed i with ⟨_, hst⟩ | hlt
  · rcases hst with h0 | ⟨r, h0⟩ | ⟨m, h0, hb⟩ | ⟨h0, hb⟩
    · rw [hi] at h0; cases h0
    · rw [hi] at h0; cases h0
      exfalso
      have : phS (scs.getD i dfl) (.done r) = 0 := by cases scs.getD i dfl <;> rfl
      omega
    · -- blocked request: its conflicting holder moves, or is an upgrader waiting for a reader that moves
      obtain ⟨j, lj, mj, hj, hgj, _⟩ := blocked_lock_has_conflicting_holder hS h.inv m hb
      rcases adv2_psi (P := P) scs nvs h.closed j with ⟨_, hstj⟩ | hlt
      · rcases stutter_grant hj hstj with hn | ⟨hu, hbu⟩
        · rw [hn] at hgj; cases hgj
        · subst hu; exact upgrader j hj hbu
      · exact ⟨j, lt_of hj, hlt⟩
    · exact upgrader i h0 hb
  · exact ⟨i, lt_of hi, hlt⟩

theorem round_dec2 (hS : Specs P D) (scs : List Script) (nvs : List (BitVec 32)) {k : Nat} {s : St} (h : WL2 P D scs k s)
    (seg : List Nat) (hall : ∀ j, j < k → j ∈ seg) (hpos : 0 < phases2 scs s) :
    psi2 scs (exec2 P scs nvs s seg) < psi2 scs s := by
  obtain ⟨j, hjk, hdec⟩ := helper_exists2 hS scs nvs h hpos
  obtain ⟨pre, post, hseg⟩ := List.append_of_mem (hall j hjk)
  rw [hseg, exec2_append]
  show psi2 scs (exec2 P scs nvs (adv2 P scs nvs (exec2 P scs nvs s pre) j) post) < psi2 scs s
  have hpre := wl2_exec hS scs nvs pre h
  rcases exec2_psi hS scs nvs pre h with he | hlt
  · rw [he]
    exact Nat.lt_of_le_of_lt (exec2_le hS scs nvs post (wl2_adv hS scs nvs h j)) hdec
  · have h1 := exec2_le hS scs nvs post (wl2_adv hS scs nvs hpre j)
    have h2 : psi2 scs (adv2 P scs nvs (exec2 P scs nvs s pre) j) ≤ psi2 scs (exec2 P scs nvs s pre) := by
      rcases adv2_psi (P := P) scs nvs hpre.closed j with ⟨he, _⟩ | hl
      · rw [he]; exact Nat.le_refl _
      · exact Nat.le_of_lt hl
    omega

theorem done_of_phases2_zero {scs : List Script} {s : St} (hc : Closed2 scs s) (h0 : phases2 scs s = 0) :
    ∀ (i : Nat) (l : Loc), s.agents[i]? = some l → ∃ r, l = Loc.done r := by
  intro i l hi
  have hz := wsum_zero _ s.agents 0 h0 i l hi
  simp only [Nat.zero_add] at hz
  have hp := hc i l hi
  generalize scs.getD i dfl = sc at hz hp
  cases l with
  | done r => exact ⟨r, rfl⟩
  | idle => cases sc <;> cases hz
  | acqLoad _ => cases sc <;> cases hz
  | acqCas _ _ => cases sc <;> cases hz
  | held m _ =>
    cases sc with
    | plain _ => cases hz
    | sixUp => cases m <;> first | (cases hp; done) | (cases hz; done)
    | xDown => cases m <;> first | (cases hp; done) | (cases hz; done)
  | upgLoad => cases sc <;> first | (cases hp; done) | (cases hz; done)
  | upgCas _ => cases sc <;> first | (cases hp; done) | (cases hz; done)
  | tryLoad _ _ => cases hp
  | tryCas _ _ _ => cases hp
  | prep1 _ => cases hp
  | prep2 => cases hp
  | prepCas _ => cases hp
  | gvLoad => cases hp
  | vfFence _ => cases hp
  | vfLoad _ => cases hp

theorem stay_done2 (scs : List Script) (nvs : List (BitVec 32)) {s : St} (hc : Closed2 scs s) (h0 : phases2 scs s = 0) :
    ∀ (seg : List Nat), exec2 P scs nvs s seg = s
  | [] => rfl
  | i :: is => by
    have : adv2 P scs nvs s i = s := by
      rcases adv2_psi (P := P) scs nvs hc i with ⟨he, _⟩ | hlt
      · exact he
      · exfalso
        rcases adv2_cases (P := P) scs nvs hc i with ⟨he, _⟩ | ⟨old, new, w', hi, he, _, hd⟩
        · rw [he] at hlt; exact Nat.lt_irrefl _ hlt
        · obtain ⟨r, hr⟩ := done_of_phases2_zero hc h0 i old hi
          subst hr
          have hz : phS (scs.getD i dfl) (.done r) = 0 := by cases scs.getD i dfl <;> rfl
          rcases hd with hd | ⟨_, _, hl⟩
          · omega
          · have : loc3 s.w (.done r) = 0 := rfl
            omega
    show exec2 P scs nvs (adv2 P scs nvs s i) is = s
    rw [this]; exact stay_done2 scs nvs hc h0 is

/-- **fair termination with conversions**: more than `psi2` rounds finish every agent -/
theorem rounds_finish2 (hS : Specs P D) (scs : List Script) (nvs : List (BitVec 32)) {k : Nat} :
    ∀ (segs : List (List Nat)) {s : St}, WL2 P D scs k s → (∀ seg ∈ segs, ∀ j, j < k → j ∈ seg) →
      psi2 scs s < segs.length → phases2 scs (exec2 P scs nvs s segs.flatten) = 0
  | [], _, _, _, hlen => by simp at hlen
  | seg :: rest, s, h, hall, hlen => by
    rw [List.flatten_cons, exec2_append]
    by_cases hpos : 0 < phases2 scs s
    · have hd := round_dec2 hS scs nvs h seg (hall seg (List.mem_cons_self)) hpos
      have h' := wl2_exec hS scs nvs seg h
      by_cases hrest : psi2 scs (exec2 P scs nvs s seg) < rest.length
      · exact rounds_finish2 hS scs nvs rest h' (fun sg hsg => hall sg (List.mem_cons_of_mem _ hsg)) hrest
      · simp only [List.length_cons] at hlen; omega
    · have h0 : phases2 scs s = 0 := by omega
      rw [stay_done2 scs nvs h.closed h0 seg, stay_done2 scs nvs h.closed h0 rest.flatten]
      exact h0


theorem phS_le (sc : Script) (l : Loc) : phS sc l ≤ 6 := by
  cases sc <;> cases l <;> first | exact Nat.le_of_ble_eq_true rfl | (rename_i m _; cases m <;> exact Nat.le_of_ble_eq_true rfl)

theorem wl2_init (hS : Specs P D) (scs : List Script) (k : Nat) (hk : k < D.cap) : WL2 P D scs k (initK k) := by
  have h := wl_init hS k hk
  refine ⟨h.inv, ?_, h.len, hk⟩
  intro i l hi
  have : l = .idle := by
    have hm := List.mem_of_getElem? hi
    exact List.eq_of_mem_replicate hm
  subst this; rfl

theorem psi2_init_le (scs : List Script) (k : Nat) : psi2 scs (initK k) ≤ 6 * k * (2 * k + 1) + 2 * k := by
  have h1 : phases2 scs (initK k) ≤ 6 * k := by
    have := wsum_le (fun i l => phS (scs.getD i dfl) l) 6 (fun i l => phS_le _ l) (initK k).agents 0
    simpa [phases2, initK] using this
  have h2 := spin2_le (initK k)
  have hl : (initK k).agents.length = k := by simp [initK]
  unfold psi2
  rw [hl] at h2 ⊢
  have : phases2 scs (initK k) * (2 * k + 1) ≤ 6 * k * (2 * k + 1) := Nat.mul_le_mul_right _ h1
  omega

end CppUtil.WLock
