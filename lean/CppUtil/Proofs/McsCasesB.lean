/-
  MCSLock proof, case analysis part B: the read-only phases of release, upgrade and downgrade
  (`load0`, `lockLoad`, failed `cas`, `spinNext`) and the API entries that start them.
-/
import CppUtil.Proofs.McsCasesA

namespace CppUtil.Mcs
open CppUtil

variable {W : Nat → Bool → Bool → Nat → Word} {P : Params} {pb cb : Nat} {s : St} {Q : Nat → List Grp}
variable {i : Nat} {a : Agent}

/-- the head-side phase machines -/
inductive HK where
  | relX | relSIX | upg | dng
  deriving DecidableEq, Repr

def HK.mk : HK → Ph → Loc
  | .relX => .rel .X
  | .relSIX => .rel .SIX
  | .upg => .upg
  | .dng => .dng

def HK.mode : HK → Mode
  | .relX => .X | .relSIX => .SIX | .upg => .SIX | .dng => .X

theorem HK.headMode (k : HK) (ph : Ph) : (k.mk ph).headMode = some k.mode := by cases k <;> rfl
theorem HK.sMem (k : HK) (ph : Ph) : (k.mk ph).sMem = false := by cases k <;> rfl
theorem HK.isPub (k : HK) (ph : Ph) : (k.mk ph).isPub = false := by cases k <;> rfl
theorem HK.isLink (k : HK) (ph : Ph) : (k.mk ph).isLink = false := by cases k <;> rfl
theorem HK.priv (k : HK) (ph : Ph) : (k.mk ph).priv = false := by cases k <;> rfl
theorem HK.ne_idle (k : HK) (ph : Ph) : k.mk ph ≠ .idle := by cases k <;> simp [HK.mk]
theorem HK.ne_priv (k : HK) (ph : Ph) :
    (k.mk ph = .sLoad ∨ k.mk ph = .sCas → False) ∧ (∀ m, k.mk ph = .xXchg m → False) := by
  cases k <;> simp [HK.mk]

/-- after `load0` the head's assertion is "first group, and the phase assertion" -/
theorem headOK_mk (k : HK) (ph : Ph) (hph : ph ≠ .load0) (ℓ : Nat) (q : List Grp) (j : Nat) (b : Agent)
    (hb : b.loc = k.mk ph) : HeadOK W P s ℓ q j b ↔ (j = 0 ∧ PhOK P s q j b ph) := by
  unfold HeadOK
  rw [hb]
  cases k <;> cases ph <;> simp_all [HK.mk]

theorem headOK_mk_load0 (k : HK) (ℓ : Nat) (q : List Grp) (j : Nat) (b : Agent)
    (hb : b.loc = k.mk .load0) : HeadOK W P s ℓ q j b ↔ (if k = .relSIX ∨ k = .upg then E2 s q j else j = 0) := by
  cases k <;> simp [HeadOK, hb, HK.mk, PhOK]

theorem abs_mk (k : HK) (ph ph' : Ph) (b b' : Agent) (hb : b.loc = k.mk ph) (hb' : b'.loc = k.mk ph')
    (h1 : b'.lk = b.lk) (h2 : b'.qnode = b.qnode) : b'.abs = b.abs := by
  simp [Agent.abs, hb, hb', h1, h2, HK.headMode, HK.sMem, HK.isPub, HK.isLink]

/-- the outcome of looking at the lock word inside the "am I still the tail" loops -/
theorem phOK_tail (hW : WordSpecs P.C pb cb W) (hI : Inv W P pb cb s Q) (hℓ : a.lk < s.locks.length)
    {j : Nat} {G : Grp} (hj : (Q a.lk)[j]? = some G) (hn : G.node = a.qnode) (b : Agent)
    (hb1 : b.cur = lockW s a.lk) (hb2 : b.qnode = a.qnode) :
    PhOK P s (Q a.lk) j b (if ptrOf P b.cur = b.qnode then .cas else .spinNext) := by
  split
  · rename_i h; exact h
  · rename_i h
    show j + 1 < (Q a.lk).length
    obtain ⟨Gk, hk⟩ := getLast?_of_idx hj
    have hp := (LockInv.lock_ptr hW hI hℓ hk).2.1
    apply not_last_lt (hI.locks a.lk hℓ).nodup hj hk
    intro heq
    apply h
    rw [hb1, hp, heq, hn, hb2]

theorem tailLoop_eq (b : Agent) (mk : Ph → Loc) :
    tailLoop P b mk = mk (if ptrOf P b.cur = b.qnode then .cas else .spinNext) := by
  unfold tailLoop; split <;> rfl

/-- reading a non-null link from the own node -/
theorem phOK_next (hW : WordSpecs P.C pb cb W) (hI : Inv W P pb cb s Q) (hℓ : a.lk < s.locks.length)
    {j : Nat} {G : Grp} (hj : (Q a.lk)[j]? = some G) (hn : G.node = a.qnode) (b : Agent)
    (hb : b.nxt = nodeW s a.qnode &&& P.C.kPtrMask) (hne : (nodeW s a.qnode &&& P.C.kPtrMask) ≠ 0) :
    PhOK P s (Q a.lk) j b .handoff := by
  show ∃ G', (Q a.lk)[j + 1]? = some G' ∧ linked s G' = true ∧ ptrOf P b.nxt = G'.node
  have hnw := (hI.locks a.lk hℓ).nodeWord j G hj
  rw [hn] at hnw
  have hp := expNode_ptr hW hI a.lk j G
  rw [hnw, hp] at hne
  rw [hb, hnw, hp]
  have hne' : linkOf s (Q a.lk) j ≠ 0 := by intro h0; apply hne; rw [h0]; rfl
  obtain ⟨G', h1, h2, h3⟩ := link_nonzero hne'
  exact ⟨G', h1, h2, by rw [h3]; exact ptrOf_ofNode hW (hI.node_lt (mem_of_idx h1))⟩

/-- the agent after looking at the lock word in one of the tail loops -/
def tailAgent (P : Params) (a : Agent) (v : Word) (mk : Ph → Loc) : Agent :=
  { a with cur := v, loc := tailLoop P { a with cur := v } mk }

/-- the agent after reading the link field of its own node while waiting for the successor -/
def nextAgent (a : Agent) (p : Word) (mk : Ph → Loc) : Agent :=
  { a with nxt := p, loc := (if p ≠ 0 then mk .handoff else mk .spinNext) }

/-! ### head side -/

theorem case_hk_lockLoad (hW : WordSpecs P.C pb cb W) (hI : Inv W P pb cb s Q) (hi : s.agents[i]? = some a)
    (k : HK) (ph : Ph) (hph : ph = .lockLoad ∨ ph = .cas) (hloc : a.loc = k.mk ph) :
    Inv W P pb cb (setAgent s i (tailAgent P a (lockW s a.lk) k.mk)) Q := by
  have hwf := hI.wf a (List.mem_of_getElem? hi)
  have hL := hI.locks a.lk hwf.2.1
  have hlive0 : a.loc.headMode.isSome := by rw [hloc, HK.headMode]; rfl
  obtain ⟨j0, G0, hj0, hh0, hn0, hho⟩ := head_group (W := W) hI hi hlive0
  have hphne : ph ≠ .load0 := by rcases hph with h | h <;> simp [h]
  rw [headOK_mk k ph hphne _ _ _ _ hloc] at hho
  unfold tailAgent
  rw [tailLoop_eq]
  refine inv_k0 hI i a _ hi ?_ ?_ ?_ hwf.1 ?_ ?_ ?_ ?_
  · exact abs_mk k ph _ a _ hloc rfl rfl rfl
  · intro h; rw [hloc] at h; cases k <;> simp [HK.mk] at h
  · simp [hloc, HK.priv]
  · exact HK.ne_idle _ _
  · exact ⟨fun h => ((HK.ne_priv k _).1 h).elim, fun m h => ((HK.ne_priv k _).2 m h).elim⟩
  · intro h; simp [HK.sMem] at h
  · intro _ j G hj hh
    obtain ⟨rfl, rfl⟩ := head_unique hI hi hlive0 hj hh hj0 hh0
    rw [headOK_mk k _ (by split <;> simp) _ _ _ _ rfl]
    exact ⟨hho.1, phOK_tail hW hI hwf.2.1 hj hn0 _ rfl rfl⟩

theorem case_hk_spinNext (hW : WordSpecs P.C pb cb W) (hI : Inv W P pb cb s Q) (hi : s.agents[i]? = some a)
    (k : HK) (hloc : a.loc = k.mk .spinNext) :
    Inv W P pb cb (setAgent s i (nextAgent a (nodeW s a.qnode &&& P.C.kPtrMask) k.mk)) Q := by
  have hwf := hI.wf a (List.mem_of_getElem? hi)
  have hL := hI.locks a.lk hwf.2.1
  have hlive0 : a.loc.headMode.isSome := by rw [hloc, HK.headMode]; rfl
  obtain ⟨j0, G0, hj0, hh0, hn0, hho⟩ := head_group (W := W) hI hi hlive0
  rw [headOK_mk k .spinNext (by simp) _ _ _ _ hloc] at hho
  have hlocEq : (if (nodeW s a.qnode &&& P.C.kPtrMask) ≠ 0 then k.mk .handoff else k.mk .spinNext) =
      k.mk (if (nodeW s a.qnode &&& P.C.kPtrMask) ≠ 0 then .handoff else .spinNext) := by split <;> rfl
  unfold nextAgent
  rw [hlocEq]
  refine inv_k0 hI i a _ hi ?_ ?_ ?_ hwf.1 ?_ ?_ ?_ ?_
  · exact abs_mk k .spinNext _ a _ hloc rfl rfl rfl
  · intro h; rw [hloc] at h; cases k <;> simp [HK.mk] at h
  · simp [hloc, HK.priv]
  · exact HK.ne_idle _ _
  · exact ⟨fun h => ((HK.ne_priv k _).1 h).elim, fun m h => ((HK.ne_priv k _).2 m h).elim⟩
  · intro h; simp [HK.sMem] at h
  · intro _ j G hj hh
    obtain ⟨rfl, rfl⟩ := head_unique hI hi hlive0 hj hh hj0 hh0
    rw [headOK_mk k _ (by split <;> simp) _ _ _ _ rfl]
    refine ⟨hho.1, ?_⟩
    split
    · rename_i hne
      exact phOK_next hW hI hwf.2.1 hj hn0 _ rfl hne
    · exact hho.2


/-- head's own node word when its group is the first one -/
theorem first_word (hI : Inv W P pb cb s Q) (hi : s.agents[i]? = some a) (hℓ : a.lk < s.locks.length)
    {G : Grp} (hj : (Q a.lk)[0]? = some G) (hh : G.head = some i) (hnp : a.loc.isPub = false) :
    nodeW s G.node = W (linkOf s (Q a.lk) 0) false false 0 := by
  have hnw := (hI.locks a.lk hℓ).nodeWord 0 G hj
  have hpub : published s G = true := by
    rw [published_eq, headLoc_of_head hh hi]; simp [hnp]
  rw [hnw]; unfold expNode; rw [hpub]; simp

/-- the agent after the first load of a release / upgrade that may proceed -/
def load0Agent (a : Agent) (v : Word) (mk : Ph → Loc) : Agent :=
  { a with nxt := v, loc := (if v = 0 then mk .lockLoad else mk .handoff) }

theorem case_hk_load0_pass (hW : WordSpecs P.C pb cb W) (hI : Inv W P pb cb s Q) (hi : s.agents[i]? = some a)
    (k : HK) (hk : k ≠ .dng) (hloc : a.loc = k.mk .load0)
    (hpass : k = .relX ∨ (nodeW s a.qnode &&& P.C.kSMask) = P.C.kNoLocks) :
    Inv W P pb cb (setAgent s i (load0Agent a (nodeW s a.qnode) k.mk)) Q := by
  have hwf := hI.wf a (List.mem_of_getElem? hi)
  have hL := hI.locks a.lk hwf.2.1
  have hwfm : ∀ b ∈ s.agents, b.loc.headMode ≠ some .S := fun b hb => (hI.wf b hb).2.2.2
  have hlive0 : a.loc.headMode.isSome := by rw [hloc, HK.headMode]; rfl
  obtain ⟨j0, G0, hj0, hh0, hn0, hho⟩ := head_group (W := W) hI hi hlive0
  rw [headOK_mk_load0 k _ _ _ _ hloc] at hho
  have hnp : a.loc.isPub = false := by rw [hloc, HK.isPub]
  -- the group is the first one
  have hj00 : j0 = 0 := by
    by_cases hkk : k = .relSIX ∨ k = .upg
    · simp only [hkk, ↓reduceIte] at hho
      rcases hho with h0 | ⟨h1, Pg, hPg, hPn⟩
      · exact h0
      · exfalso
        subst h1
        have hsm : (nodeW s a.qnode &&& P.C.kSMask) = P.C.kNoLocks := by
          rcases hpass with h | h
          · rcases hkk with h' | h' <;> simp [h] at h'
          · exact h
        have hnw := hL.nodeWord 1 G0 hj0
        have hpub : published s G0 = true := by rw [published_eq, headLoc_of_head hh0 hi]; simp [hnp]
        rw [hn0] at hnw
        rw [hnw, hW.noLocks] at hsm
        unfold expNode at hsm
        rw [hpub] at hsm
        simp only [↓reduceIte, Nat.succ_ne_zero, Nat.add_sub_cancel, hPg, Nat.reduceSubDiff] at hsm
        unfold grpW at hsm
        have hc0 := (hW.smask _ _ _ _ (hI.link_lt a.lk 1) (by have := hI.cnt_lt a.lk Pg.node; omega)).mp hsm
        rcases hL.nonempty Pg (mem_of_idx hPg) with h1 | h1
        · rw [hPn] at h1; simp at h1
        · omega
    · simp only [hkk, ↓reduceIte] at hho; exact hho
  subst hj00
  have hw := first_word hI hi hwf.2.1 hj0 hh0 hnp
  rw [hn0] at hw
  have hlnk := hI.link_lt a.lk 0
  have hcb : 0 < cb := Nat.lt_trans Nat.zero_lt_one hW.cbPos
  have hlocEq : (if nodeW s a.qnode = 0 then k.mk .lockLoad else k.mk .handoff) =
      k.mk (if nodeW s a.qnode = 0 then .lockLoad else .handoff) := by split <;> rfl
  unfold load0Agent
  rw [hlocEq]
  refine inv_k0 hI i a _ hi ?_ ?_ ?_ hwf.1 ?_ ?_ ?_ ?_
  · exact abs_mk k .load0 _ a _ hloc rfl rfl rfl
  · intro h; rw [hloc] at h; cases k <;> simp [HK.mk] at h
  · simp [hloc, HK.priv]
  · exact HK.ne_idle _ _
  · exact ⟨fun h => ((HK.ne_priv k _).1 h).elim, fun m h => ((HK.ne_priv k _).2 m h).elim⟩
  · intro h; simp [HK.sMem] at h
  · intro _ j G hj hh
    obtain ⟨rfl, rfl⟩ := head_unique hI hi hlive0 hj hh hj0 hh0
    rw [headOK_mk k _ (by split <;> simp) _ _ _ _ rfl]
    refine ⟨rfl, ?_⟩
    split
    · trivial
    · rename_i hne
      show ∃ G', (Q a.lk)[0 + 1]? = some G' ∧ linked s G' = true ∧ ptrOf P (nodeW s a.qnode) = G'.node
      rw [hw] at hne ⊢
      have hl0 : linkOf s (Q a.lk) 0 ≠ 0 := by
        intro h0; apply hne; rw [h0]; exact hW.zero
      obtain ⟨G', h1, h2, h3⟩ := link_nonzero hl0
      exact ⟨G', h1, h2, by rw [hW.ptrOf P rfl _ _ _ _ hlnk hcb, h3]⟩

theorem case_hk_load0_wait (hI : Inv W P pb cb s Q) (hi : s.agents[i]? = some a)
    (k : HK) (hloc : a.loc = k.mk .load0) (v : Word) :
    Inv W P pb cb (setAgent s i { a with nxt := v }) Q := by
  have hwf := hI.wf a (List.mem_of_getElem? hi)
  have hL := hI.locks a.lk hwf.2.1
  have hlive0 : a.loc.headMode.isSome := by rw [hloc, HK.headMode]; rfl
  obtain ⟨j0, G0, hj0, hh0, hn0, hho⟩ := head_group (W := W) hI hi hlive0
  rw [headOK_mk_load0 k _ _ _ _ hloc] at hho
  apply inv_k0 hI i a { a with nxt := v } hi rfl (fun h => h) rfl hwf.1 hwf.2.2.1
  · exact hI.privW i a hi
  · intro h; simp [hloc, HK.sMem] at h
  · intro _ j G hj hh
    obtain ⟨rfl, rfl⟩ := head_unique hI hi hlive0 hj hh hj0 hh0
    rw [headOK_mk_load0 k _ _ _ { a with nxt := v } hloc]; exact hho

/-- DowngradeToSIX starts with the link field only -/
def dngAgent (a : Agent) (p : Word) : Agent :=
  { a with nxt := p, loc := (if p = 0 then .dng .lockLoad else .dng .handoff) }

theorem case_dng_load0 (hW : WordSpecs P.C pb cb W) (hI : Inv W P pb cb s Q) (hi : s.agents[i]? = some a)
    (hloc : a.loc = .dng .load0) :
    Inv W P pb cb (setAgent s i (dngAgent a (nodeW s a.qnode &&& P.C.kPtrMask))) Q := by
  have hwf := hI.wf a (List.mem_of_getElem? hi)
  have hL := hI.locks a.lk hwf.2.1
  have hloc' : a.loc = HK.dng.mk .load0 := hloc
  have hlive0 : a.loc.headMode.isSome := by rw [hloc]; rfl
  obtain ⟨j0, G0, hj0, hh0, hn0, hho⟩ := head_group (W := W) hI hi hlive0
  rw [headOK_mk_load0 .dng _ _ _ _ hloc'] at hho
  simp only [reduceCtorEq, or_self, ↓reduceIte] at hho
  subst hho
  have hlocEq : (if (nodeW s a.qnode &&& P.C.kPtrMask) = 0 then Loc.dng .lockLoad else Loc.dng .handoff) =
      HK.dng.mk (if (nodeW s a.qnode &&& P.C.kPtrMask) = 0 then .lockLoad else .handoff) := by split <;> rfl
  unfold dngAgent
  rw [hlocEq]
  refine inv_k0 hI i a _ hi ?_ ?_ ?_ hwf.1 ?_ ?_ ?_ ?_
  · exact abs_mk .dng .load0 _ a _ hloc' rfl rfl rfl
  · intro h; simp [hloc] at h
  · show (HK.dng.mk _).priv = a.loc.priv
    rw [HK.priv, hloc]; rfl
  · exact HK.ne_idle .dng _
  · exact ⟨fun h => ((HK.ne_priv .dng _).1 h).elim, fun m h => ((HK.ne_priv .dng _).2 m h).elim⟩
  · intro h; simp [HK.sMem] at h
  · intro _ j G hj hh
    obtain ⟨rfl, rfl⟩ := head_unique hI hi hlive0 hj hh hj0 hh0
    rw [headOK_mk .dng _ (by split <;> simp) _ _ _ _ rfl]
    refine ⟨rfl, ?_⟩
    split
    · trivial
    · rename_i hne
      exact phOK_next hW hI hwf.2.1 hj hn0 _ rfl hne


/-! ### member side: UnlockS -/

theorem abs_relS (ph ph' : Ph) (b b' : Agent) (hb : b.loc = .rel .S ph) (hb' : b'.loc = .rel .S ph')
    (h1 : b'.lk = b.lk) (h2 : b'.qnode = b.qnode) : b'.abs = b.abs := by
  simp [Agent.abs, hb, hb', h1, h2, Loc.headMode, Loc.sMem, Loc.isPub, Loc.isLink]

theorem case_relS_load0 (hW : WordSpecs P.C pb cb W) (hI : Inv W P pb cb s Q) (hi : s.agents[i]? = some a)
    (hloc : a.loc = .rel .S .load0) :
    Inv W P pb cb (setAgent s i { a with nxt := nodeW s a.qnode &&& P.C.kPtrMask, loc := (if (nodeW s a.qnode &&& P.C.kPtrMask) = 0 then Loc.rel .S .lockLoad else Loc.rel .S .handoff) }) Q := by
  have hwf := hI.wf a (List.mem_of_getElem? hi)
  have hL := hI.locks a.lk hwf.2.1
  obtain ⟨j0, G0, hj0, hn0, hmo⟩ := member_group hI hi (by simp [hloc, Loc.sMem])
  simp only [MemOK, hloc] at hmo
  have hlocEq : (if (nodeW s a.qnode &&& P.C.kPtrMask) = 0 then Loc.rel .S .lockLoad else Loc.rel .S .handoff) =
      Loc.rel .S (if (nodeW s a.qnode &&& P.C.kPtrMask) = 0 then .lockLoad else .handoff) := by split <;> rfl
  rw [hlocEq]
  refine inv_k0 hI i a _ hi ?_ ?_ ?_ hwf.1 ?_ ?_ ?_ ?_
  · exact abs_relS .load0 _ a _ hloc rfl rfl rfl
  · intro h; simp [hloc] at h
  · simp [hloc, Loc.priv]
  · simp
  · exact ⟨by intro h; simp at h, by intro m hm; simp at hm⟩
  · intro _ j G hj hn
    obtain ⟨rfl, rfl⟩ := idx_unique hL.nodup hj hj0 (by rw [hn, hn0])
    show hmode s G = none ∧ PhOK P s (Q a.lk) j _ _
    refine ⟨hmo.1, ?_⟩
    split
    · trivial
    · rename_i hne
      exact phOK_next hW hI hwf.2.1 hj hn0 _ rfl hne
  · intro h; simp [Loc.headMode] at h

theorem case_relS_lockLoad (hW : WordSpecs P.C pb cb W) (hI : Inv W P pb cb s Q) (hi : s.agents[i]? = some a)
    (ph : Ph) (hph : ph = .lockLoad ∨ ph = .cas) (hloc : a.loc = .rel .S ph) :
    Inv W P pb cb (setAgent s i (tailAgent P a (lockW s a.lk) (.rel .S))) Q := by
  have hwf := hI.wf a (List.mem_of_getElem? hi)
  have hL := hI.locks a.lk hwf.2.1
  obtain ⟨j0, G0, hj0, hn0, hmo⟩ := member_group hI hi (by simp [hloc, Loc.sMem])
  simp only [MemOK, hloc] at hmo
  unfold tailAgent
  rw [tailLoop_eq]
  refine inv_k0 hI i a _ hi ?_ ?_ ?_ hwf.1 ?_ ?_ ?_ ?_
  · exact abs_relS ph _ a _ hloc rfl rfl rfl
  · intro h; simp [hloc] at h
  · simp [hloc, Loc.priv]
  · simp
  · exact ⟨by intro h; simp at h, by intro m hm; simp at hm⟩
  · intro _ j G hj hn
    obtain ⟨rfl, rfl⟩ := idx_unique hL.nodup hj hj0 (by rw [hn, hn0])
    show hmode s G = none ∧ PhOK P s (Q a.lk) j _ _
    exact ⟨hmo.1, phOK_tail hW hI hwf.2.1 hj hn0 _ rfl rfl⟩
  · intro h; simp [Loc.headMode] at h

theorem case_relS_spinNext (hW : WordSpecs P.C pb cb W) (hI : Inv W P pb cb s Q) (hi : s.agents[i]? = some a)
    (hloc : a.loc = .rel .S .spinNext) :
    Inv W P pb cb (setAgent s i (nextAgent a (nodeW s a.qnode &&& P.C.kPtrMask) (.rel .S))) Q := by
  have hwf := hI.wf a (List.mem_of_getElem? hi)
  have hL := hI.locks a.lk hwf.2.1
  obtain ⟨j0, G0, hj0, hn0, hmo⟩ := member_group hI hi (by simp [hloc, Loc.sMem])
  simp only [MemOK, hloc] at hmo
  have hlocEq : (if (nodeW s a.qnode &&& P.C.kPtrMask) ≠ 0 then Loc.rel .S .handoff else Loc.rel .S .spinNext) =
      Loc.rel .S (if (nodeW s a.qnode &&& P.C.kPtrMask) ≠ 0 then .handoff else .spinNext) := by split <;> rfl
  unfold nextAgent
  rw [hlocEq]
  refine inv_k0 hI i a _ hi ?_ ?_ ?_ hwf.1 ?_ ?_ ?_ ?_
  · exact abs_relS .spinNext _ a _ hloc rfl rfl rfl
  · intro h; simp [hloc] at h
  · simp [hloc, Loc.priv]
  · simp
  · exact ⟨by intro h; simp at h, by intro m hm; simp at hm⟩
  · intro _ j G hj hn
    obtain ⟨rfl, rfl⟩ := idx_unique hL.nodup hj hj0 (by rw [hn, hn0])
    show hmode s G = none ∧ PhOK P s (Q a.lk) j _ _
    refine ⟨hmo.1, ?_⟩
    split
    · rename_i hne
      exact phOK_next hW hI hwf.2.1 hj hn0 _ rfl hne
    · exact hmo.2
  · intro h; simp [Loc.headMode] at h

/-! ### API entries of release / conversions -/

theorem case_beginRelease (hI : Inv W P pb cb s Q) (i tid : Nat) (htid : tid < s.tls.length) :
    Inv W P pb cb (beginRelease s i tid) Q := by
  unfold beginRelease
  cases hi : s.agents[i]? with
  | none => exact hI
  | some a =>
    simp only
    cases hloc : a.loc with
    | held m =>
      simp only
      have hwf := hI.wf a (List.mem_of_getElem? hi)
      have hL := hI.locks a.lk hwf.2.1
      cases m with
      | S =>
        obtain ⟨j0, G0, hj0, hn0, hmo⟩ := member_group hI hi (by simp [hloc, Loc.sMem])
        simp only [MemOK, hloc] at hmo
        refine inv_k0 hI i a _ hi ?_ ?_ ?_ htid ?_ ?_ ?_ ?_
        · simp [Agent.abs, hloc, Loc.headMode, Loc.sMem, Loc.isPub, Loc.isLink]
        · intro h; simp [hloc] at h
        · simp [hloc, Loc.priv]
        · simp
        · exact ⟨by intro h; simp at h, by intro m hm; simp at hm⟩
        · intro _ j G hj hn
          obtain ⟨rfl, rfl⟩ := idx_unique hL.nodup hj hj0 (by rw [hn, hn0])
          exact ⟨hmo, trivial⟩
        · intro h; simp [Loc.headMode] at h
      | SIX =>
        have hlive0 : a.loc.headMode.isSome := by simp [hloc, Loc.headMode]
        obtain ⟨j0, G0, hj0, hh0, hn0, hho⟩ := head_group (W := W) hI hi hlive0
        simp only [HeadOK, hloc] at hho
        refine inv_k0 hI i a _ hi ?_ ?_ ?_ htid ?_ ?_ ?_ ?_
        · simp [Agent.abs, hloc, Loc.headMode, Loc.sMem, Loc.isPub, Loc.isLink]
        · intro h; simp [hloc] at h
        · simp [hloc, Loc.priv]
        · simp
        · exact ⟨by intro h; simp at h, by intro m hm; simp at hm⟩
        · intro h; simp [Loc.sMem] at h
        · intro _ j G hj hh
          obtain ⟨rfl, rfl⟩ := head_unique hI hi hlive0 hj hh hj0 hh0
          exact hho
      | X =>
        have hlive0 : a.loc.headMode.isSome := by simp [hloc, Loc.headMode]
        obtain ⟨j0, G0, hj0, hh0, hn0, hho⟩ := head_group (W := W) hI hi hlive0
        simp only [HeadOK, hloc] at hho
        refine inv_k0 hI i a _ hi ?_ ?_ ?_ htid ?_ ?_ ?_ ?_
        · simp [Agent.abs, hloc, Loc.headMode, Loc.sMem, Loc.isPub, Loc.isLink]
        · intro h; simp [hloc] at h
        · simp [hloc, Loc.priv]
        · simp
        · exact ⟨by intro h; simp at h, by intro m hm; simp at hm⟩
        · intro h; simp [Loc.sMem] at h
        · intro _ j G hj hh
          obtain ⟨rfl, rfl⟩ := head_unique hI hi hlive0 hj hh hj0 hh0
          exact ⟨hho, trivial⟩
    | _ => exact hI

theorem case_beginUpgrade (hI : Inv W P pb cb s Q) (i tid : Nat) (htid : tid < s.tls.length) :
    Inv W P pb cb (beginUpgrade s i tid) Q := by
  unfold beginUpgrade
  cases hi : s.agents[i]? with
  | none => exact hI
  | some a =>
    simp only
    split
    · rename_i hloc
      have hwf := hI.wf a (List.mem_of_getElem? hi)
      have hL := hI.locks a.lk hwf.2.1
      have hlive0 : a.loc.headMode.isSome := by simp [hloc, Loc.headMode]
      obtain ⟨j0, G0, hj0, hh0, hn0, hho⟩ := head_group (W := W) hI hi hlive0
      simp only [HeadOK, hloc] at hho
      refine inv_k0 hI i a _ hi ?_ ?_ ?_ htid ?_ ?_ ?_ ?_
      · simp [Agent.abs, hloc, Loc.headMode, Loc.sMem, Loc.isPub, Loc.isLink]
      · intro h; simp [hloc] at h
      · simp [hloc, Loc.priv]
      · simp
      · exact ⟨by intro h; simp at h, by intro m hm; simp at hm⟩
      · intro h; simp [Loc.sMem] at h
      · intro _ j G hj hh
        obtain ⟨rfl, rfl⟩ := head_unique hI hi hlive0 hj hh hj0 hh0
        exact hho
    · exact hI

theorem case_beginDowngrade (hI : Inv W P pb cb s Q) (i tid : Nat) (htid : tid < s.tls.length) :
    Inv W P pb cb (beginDowngrade s i tid) Q := by
  unfold beginDowngrade
  cases hi : s.agents[i]? with
  | none => exact hI
  | some a =>
    simp only
    split
    · rename_i hloc
      have hwf := hI.wf a (List.mem_of_getElem? hi)
      have hL := hI.locks a.lk hwf.2.1
      have hlive0 : a.loc.headMode.isSome := by simp [hloc, Loc.headMode]
      obtain ⟨j0, G0, hj0, hh0, hn0, hho⟩ := head_group (W := W) hI hi hlive0
      simp only [HeadOK, hloc] at hho
      refine inv_k0 hI i a _ hi ?_ ?_ ?_ htid ?_ ?_ ?_ ?_
      · simp [Agent.abs, hloc, Loc.headMode, Loc.sMem, Loc.isPub, Loc.isLink]
      · intro h; simp [hloc] at h
      · simp [hloc, Loc.priv]
      · simp
      · exact ⟨by intro h; simp at h, by intro m hm; simp at hm⟩
      · intro h; simp [Loc.sMem] at h
      · intro _ j G hj hh
        obtain ⟨rfl, rfl⟩ := head_unique hI hi hlive0 hj hh hj0 hh0
        exact ⟨hho, trivial⟩
    · exact hI

end CppUtil.Mcs
