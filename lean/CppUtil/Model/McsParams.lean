import CppUtil.Core.Basic
namespace CppUtil.Mcs
open CppUtil

/-- constants of `mcs_lock.cpp` (anonymous namespace) -/
structure McsConsts where
  kNull : Word
  kNoLocks : Word
  kSLock : Word
  kSIXLock : Word
  kXLock : Word
  kPtrMask : Word
  kLockMask : Word
  kXMask : Word
  kSMask : Word
  deriving Repr, DecidableEq

end CppUtil.Mcs
