/-
  Client layer over the word-lock core: threads running programs over typed guard
  variables (SGuard / SIXGuard / XGuard / OptGuard / CompositeGuard), i.e. the C++
  *guard classes* (constructors, move, destructor, conversions, operator bool, versions).
  Every change of a lock word goes through `WLock.step`; this layer decides which
  agent takes which step and what the API call returns.  One `stepThread` = one
  scheduling quantum of the harness: the pending atomic operation of the thread plus
  the local code up to its next atomic operation.
  No Mathlib.
-/
import CppUtil.Model.WLock

namespace CppUtil.WClient
open CppUtil CppUtil.WLock

inductive GKind where
  | S | SIX | X | Opt | Comp
  deriving DecidableEq, Repr, Inhabited

def GKind.ofStr? : String → Option GKind
  | "S" => some .S | "SIX" => some .SIX | "X" => some .X | "Opt" => some .Opt | "Comp" => some .Comp
  | _ => none

def GKind.mode? : GKind → Option Mode
  | .S => some .S | .SIX => some .SIX | .X => some .X | _ => none

/-- value of a guard variable -/
structure GVal where
  /-- `(lock, agent)` of the grant this guard owns (`dest_ != nullptr`, resp. `has_lock_`) -/
  own : Option (Nat × Nat) := none
  /-- `dest_` of OptGuard / CompositeGuard (kept when not owning) -/
  lk : Option Nat := none
  /-- `ver_` / `old_ver_` -/
  ver : BitVec 32 := 0
  /-- `new_ver_` -/
  nver : BitVec 32 := 0
  deriving DecidableEq, Repr, Inhabited

/-- program instructions of a virtual thread -/
inductive Op where
  | lock (m : Mode) (dst lk : Nat)
  | dtor (v : Nat)
  | massign (dst src : Nat)
  | mctor (dst src : Nat)
  | upg (dst src : Nat)
  | dng (dst src : Nat)
  | bool (v : Nat)
  | getver (dst lk : Nat)
  | verify (v : Nat)
  | tryLock (m : Mode) (dst src : Nat)
  | prep (dst lk : Nat)
  | cverify (v : Nat)
  | setver (v : Nat) (val : BitVec 32)
  | xver (v : Nat)
  | gver (v : Nat)
  | payrd (lk : Nat)
  | paywr (lk : Nat) (val : Nat)
  deriving Repr, Inhabited

/-- the atomic operation a thread will perform when it is scheduled next -/
inductive Pend where
  | start
  | atom (lk a : Nat)
  | rel (lk a : Nat) (nv : BitVec 32)
  | dng (lk a : Nat) (nv : BitVec 32)
  | payR0 (lk : Nat) | payR1 (lk : Nat)
  | payW0 (lk val : Nat) | payW1 (lk val : Nat)
  | none
  deriving Repr, Inhabited, DecidableEq

structure Thread where
  prog : Array Op := #[]
  pc : Nat := 0
  phase : Nat := 0
  pend : Pend := .start
  tmp : GVal := {}
  tmpGid : Option Nat := none
  /-- agent used by the current op -/
  ag : Nat := 0
  payTmp : Nat := 0
  finished : Bool := false
  deriving Repr, Inhabited

structure Client where
  locks : Array WLock.St := #[]
  vars : Array GVal := #[]
  kinds : Array GKind := #[]
  ghost : Array (Option Nat) := #[]
  nextGid : Nat := 0
  threads : Array Thread := #[]
  pay : Array (Nat × Nat) := #[]
  /-- OptimisticLock: emit the version tokens XB / XE -/
  versioned : Bool := false
  deriving Repr, Inhabited

def mkClient (nlocks : Nat) (kinds : Array GKind) (progs : Array (Array Op)) : Client :=
  { locks := Array.replicate nlocks WLock.init
    vars := Array.replicate kinds.size {}
    kinds := kinds
    ghost := Array.replicate kinds.size none
    threads := progs.map fun p => { prog := p }
    pay := Array.replicate nlocks (0, 0) }

/-- result of running local code of one phase -/
inductive PhaseRes where
  | next      -- continue with phase + 1 in the same quantum
  | block     -- an atomic operation is pending; continue with phase + 1 when the agent is stable
  | doneOp    -- the instruction is complete

abbrev Out := List String

def getVar (c : Client) (v : Nat) : GVal := c.vars.getD v {}
def setVar (c : Client) (v : Nat) (g : GVal) : Client := { c with vars := c.vars.setIfInBounds v g }
def getThread (c : Client) (t : Nat) : Thread := c.threads.getD t {}
def setThread (c : Client) (t : Nat) (th : Thread) : Client := { c with threads := c.threads.setIfInBounds t th }
def getGhost (c : Client) (v : Nat) : Option Nat := (c.ghost.getD v none)
def setGhost (c : Client) (v : Nat) (g : Option Nat) : Client := { c with ghost := c.ghost.setIfInBounds v g }
def lockSt (c : Client) (lk : Nat) : WLock.St := c.locks.getD lk WLock.init
def setLockSt (c : Client) (lk : Nat) (s : WLock.St) : Client := { c with locks := c.locks.setIfInBounds lk s }
def agentLoc (c : Client) (lk a : Nat) : Loc := ((lockSt c lk).agents[a]?).getD .idle

def hex32 (v : BitVec 32) : String := "0x" ++ String.ofList (Nat.toDigits 16 v.toNat)

/-- create an agent on lock `lk` and enter the API call `r`; returns the agent index -/
def spawnStart (P : WParams) (c : Client) (lk : Nat) (r : Req) : Client × Nat :=
  let s := lockSt c lk
  let a := s.agents.length
  let s1 := match WLock.step P s .spawn with
    | some (s', _) => s'
    | none => s
  let s2 := match WLock.step P s1 (.start a r) with
    | some (s', _) => s'
    | none => s1
  (setLockSt c lk s2, a)

/-- token announcing the end of the exclusive grant owned by X variable `v` (OptimisticLock only) -/
def xendTok (c : Client) (v : Nat) : Out :=
  let gv := getVar c v
  if c.versioned && c.kinds.getD v .S == .X && (getGhost c v).isSome then
    match gv.own with
    | some (lk, _) => [s!"XE{lk}:{hex32 gv.nver}"]
    | none => []
  else []

/-- the common tail `dst = std::move(tmp)` of every instruction that produces a guard:
    phase `p0`: release what `dst` owns (blocks), phase `p0+1`: take the temporary. -/
def assignTail (c : Client) (t : Nat) (dst : Nat) (rel : Nat) (k : Nat) (res : String) :
    Client × Out × PhaseRes :=
  let th := getThread c t
  if rel = 0 then
    -- move-assignment operator: `if (dest_) Unlock()`
    match (getVar c dst).own with
    | some (lk', a') =>
      let gid := getGhost c dst
      let out := (match gid with | some g => [s!"G-{g}"] | none => []) ++ xendTok c dst
      (setThread c t { th with pend := .rel lk' a' (getVar c dst).nver }, out, .block)
    | none => (c, [], .next)
  else
    let c := setVar c dst th.tmp
    let c := setGhost c dst th.tmpGid
    let c := setThread c t { (getThread c t) with tmp := {}, tmpGid := none }
    (c, [s!"R{k}={res}"], .doneOp)

def modeOfKind (k : GKind) : Mode := (k.mode?).getD .S


/-- local code of instruction `op` at phase `ph` -/
def runPhase (P : WParams) (c : Client) (t : Nat) (k : Nat) (op : Op) (ph : Nat) : Client × Out × PhaseRes :=
  let th := getThread c t
  match op with
  | .lock m dst lk =>
    match ph with
    | 0 =>
      let (c, a) := spawnStart P c lk (.lock m)
      (setThread c t { (getThread c t) with pend := .atom lk a, ag := a }, [], .block)
    | 1 =>
      let seen := match agentLoc c lk th.ag with | .held _ s => s | _ => 0
      let v := P.castVer seen
      let gid := c.nextGid
      let c := { c with nextGid := gid + 1 }
      let c := setThread c t { th with tmp := { own := some (lk, th.ag), lk := some lk, ver := v, nver := v + 1 },
                                        tmpGid := some gid }
      (c, [s!"G+{gid}:{lk}:{m.toStr}"] ++ (if c.versioned && m == .X then [s!"XB{lk}:{hex32 v}"] else []), .next)
    | 2 => assignTail c t dst 0 k "1"
    | _ => assignTail c t dst 1 k "1"
  | .dtor v =>
    match ph with
    | 0 =>
      match (getVar c v).own with
      | some (lk', a') =>
        let out := (match getGhost c v with | some g => [s!"G-{g}"] | none => []) ++ xendTok c v
        (setThread c t { th with pend := .rel lk' a' (getVar c v).nver }, out, .block)
      | none => (c, [], .next)
    | _ =>
      let c := setVar c v {}
      let c := setGhost c v none
      (c, [s!"R{k}=0"], .doneOp)
  | .massign dst src =>
    match ph with
    | 0 =>
      match (getVar c dst).own with
      | some (lk', a') =>
        let out := (match getGhost c dst with | some g => [s!"G-{g}"] | none => []) ++ xendTok c dst
        (setThread c t { th with pend := .rel lk' a' (getVar c dst).nver }, out, .block)
      | none => (c, [], .next)
    | _ =>
      let sv := getVar c src
      let c := setVar c dst sv
      -- the moved-from guard: pointer / has_lock_ cleared, versions and (Composite) dest_ kept
      let c := setVar c src { sv with own := none }
      let c := setGhost c dst (getGhost c src)
      let c := setGhost c src none
      (c, [s!"R{k}=0"], .doneOp)
  | .mctor dst src =>
    match ph with
    | 0 =>
      match (getVar c dst).own with
      | some (lk', a') =>
        let out := (match getGhost c dst with | some g => [s!"G-{g}"] | none => []) ++ xendTok c dst
        (setThread c t { th with pend := .rel lk' a' (getVar c dst).nver }, out, .block)
      | none => (c, [], .next)
    | _ =>
      let sv := getVar c src
      let c := setVar c dst sv
      let c := setVar c src { sv with own := none }
      let c := setGhost c dst (getGhost c src)
      let c := setGhost c src none
      (c, [s!"R{k}=0"], .doneOp)
  | .upg dst src =>
    match ph with
    | 0 =>
      let sv := getVar c src
      match sv.own with
      | some (lk, a) =>
        -- `dest_ = nullptr` then the waiting loop
        let s := lockSt c lk
        let s' := match WLock.step P s (.upgrade a) with | some (s', _) => s' | none => s
        let c := setLockSt c lk s'
        let c := setVar c src { sv with own := none }
        let g := getGhost c src
        let c := setGhost c src none
        (setThread c t { th with pend := .atom lk a, ag := a, tmp := { lk := some lk }, tmpGid := g }, [], .block)
      | none =>
        (setThread c t { th with tmp := {}, tmpGid := none, ag := 0 }, [], .next)
    | 1 =>
      match th.tmp.lk with
      | some lk =>
        let seen := match agentLoc c lk th.ag with | .held _ s => s | _ => 0
        let v := P.castVer seen
        let c := setThread c t { th with tmp := { own := some (lk, th.ag), lk := some lk, ver := v, nver := v + 1 } }
        let out := match th.tmpGid with
          | some g => [s!"GU{g}:X"] ++ (if c.versioned then [s!"XB{lk}:{hex32 v}"] else [])
          | none => []
        (c, out, .next)
      | none => (c, [], .next)
    | 2 => assignTail c t dst 0 k (if th.tmp.own.isSome then "1" else "0")
    | _ => assignTail c t dst 1 k (if th.tmp.own.isSome then "1" else "0")
  | .dng dst src =>
    match ph with
    | 0 =>
      let sv := getVar c src
      match sv.own with
      | some (lk, a) =>
        let xe := xendTok c src
        let c := setVar c src { sv with own := none }
        let g := getGhost c src
        let c := setGhost c src none
        (setThread c t { th with pend := .dng lk a sv.nver, ag := a, tmp := { lk := some lk }, tmpGid := g }, xe, .block)
      | none =>
        (setThread c t { th with tmp := {}, tmpGid := none, ag := 0 }, [], .next)
    | 1 =>
      match th.tmp.lk with
      | some lk =>
        let c := setThread c t { th with tmp := { own := some (lk, th.ag), lk := some lk } }
        let out := match th.tmpGid with | some g => [s!"GU{g}:SIX"] | none => []
        (c, out, .next)
      | none => (c, [], .next)
    | 2 => assignTail c t dst 0 k (if th.tmp.own.isSome then "1" else "0")
    | _ => assignTail c t dst 1 k (if th.tmp.own.isSome then "1" else "0")
  | .bool v =>
    let b := (getVar c v).own.isSome && (c.kinds.getD v .S != .Opt)
    let gh := (getGhost c v).isSome
    (c, [s!"R{k}={if b then 1 else 0}/{if gh then 1 else 0}"], .doneOp)
  | .getver dst lk =>
    match ph with
    | 0 =>
      let (c, a) := spawnStart P c lk .getVersion
      (setThread c t { (getThread c t) with pend := .atom lk a, ag := a }, [], .block)
    | _ =>
      let r := match agentLoc c lk th.ag with | .done r => r | _ => 0
      let v := P.castVer r
      let c := setVar c dst { lk := some lk, ver := v }
      (c, [s!"R{k}={hex32 v}"], .doneOp)
  | .verify v =>
    match ph with
    | 0 =>
      let lk := (getVar c v).lk.getD 0
      let (c, a) := spawnStart P c lk (.verify false)
      (setThread c t { (getThread c t) with pend := .atom lk a, ag := a }, [], .block)
    | _ =>
      let gv := getVar c v
      let lk := gv.lk.getD 0
      let r := match agentLoc c lk th.ag with | .done r => r | _ => 0
      let nv := P.verOf r
      let c := setVar c v { gv with ver := nv }
      (c, [s!"R{k}={if nv == gv.ver then 1 else 0}:{hex32 nv}"], .doneOp)
  | .tryLock m dst src =>
    match ph with
    | 0 =>
      let gv := getVar c src
      let lk := gv.lk.getD 0
      let (c, a) := spawnStart P c lk (.tryLock m gv.ver)
      (setThread c t { (getThread c t) with pend := .atom lk a, ag := a }, [], .block)
    | 1 =>
      let gv := getVar c src
      let lk := gv.lk.getD 0
      match agentLoc c lk th.ag with
      | .held _ seen =>
        let nv := P.verOf seen
        let c := setVar c src { gv with ver := nv }
        let gid := c.nextGid
        let c := { c with nextGid := gid + 1 }
        let c := setThread c t { th with tmp := { own := some (lk, th.ag), lk := some lk, ver := nv, nver := nv + 1 },
                                          tmpGid := some gid }
        (c, [s!"G+{gid}:{lk}:{m.toStr}"] ++ (if c.versioned && m == .X then [s!"XB{lk}:{hex32 nv}"] else []), .next)
      | .done r =>
        let nv := P.verOf r
        let c := setVar c src { gv with ver := nv }
        (setThread c t { th with tmp := {}, tmpGid := none }, [], .next)
      | _ => (c, ["BUG"], .next)
    | 2 => assignTail c t dst 0 k ((if th.tmp.own.isSome then "1" else "0") ++ ":" ++ hex32 (getVar c src).ver)
    | _ => assignTail c t dst 1 k ((if th.tmp.own.isSome then "1" else "0") ++ ":" ++ hex32 (getVar c src).ver)
  | .prep dst lk =>
    match ph with
    | 0 =>
      let (c, a) := spawnStart P c lk .prepare
      (setThread c t { (getThread c t) with pend := .atom lk a, ag := a }, [], .block)
    | 1 =>
      match agentLoc c lk th.ag with
      | .held _ _ =>
        let gid := c.nextGid
        let c := { c with nextGid := gid + 1 }
        let c := setThread c t { th with tmp := { own := some (lk, th.ag), lk := some lk, ver := 0 },
                                          tmpGid := some gid }
        (c, [s!"G+{gid}:{lk}:S"], .next)
      | .done r =>
        (setThread c t { th with tmp := { lk := some lk, ver := P.castVer r }, tmpGid := none }, [], .next)
      | _ => (c, ["BUG"], .next)
    | 2 => assignTail c t dst 0 k ((if th.tmp.own.isSome then "1" else "0") ++ ":" ++ hex32 th.tmp.ver)
    | _ => assignTail c t dst 1 k ((if th.tmp.own.isSome then "1" else "0") ++ ":" ++ hex32 th.tmp.ver)
  | .cverify v =>
    match ph with
    | 0 =>
      let gv := getVar c v
      if gv.own.isSome then (c, [s!"R{k}=1:{hex32 gv.ver}"], .doneOp)
      else
        let lk := gv.lk.getD 0
        let (c, a) := spawnStart P c lk (.verify true)
        (setThread c t { (getThread c t) with pend := .atom lk a, ag := a }, [], .block)
    | _ =>
      let gv := getVar c v
      let lk := gv.lk.getD 0
      let r := match agentLoc c lk th.ag with | .done r => r | _ => 0
      let nv := P.verOf r
      let c := setVar c v { gv with ver := nv }
      (c, [s!"R{k}={if nv == gv.ver then 1 else 0}:{hex32 nv}"], .doneOp)
  | .setver v val =>
    let gv := getVar c v
    (setVar c v { gv with nver := val }, [s!"R{k}=0"], .doneOp)
  | .xver v => (c, [s!"R{k}={hex32 (getVar c v).ver}/{hex32 (getVar c v).ver}"], .doneOp)
  | .gver v => (c, [s!"R{k}={hex32 (getVar c v).ver}"], .doneOp)
  | .payrd lk =>
    match ph with
    | 0 => (setThread c t { th with pend := .payR0 lk }, [], .block)
    | 1 => (setThread c t { th with pend := .payR1 lk }, [], .block)
    | _ => (c, [s!"R{k}={th.payTmp},{(c.pay.getD lk (0,0)).2}"], .doneOp)
  | .paywr lk val =>
    match ph with
    | 0 => (setThread c t { th with pend := .payW0 lk val }, [], .block)
    | 1 => (setThread c t { th with pend := .payW1 lk val }, [], .block)
    | _ => (c, [s!"R{k}=0"], .doneOp)

/-- run local code until an atomic operation is pending or the program ends -/
def advance (P : WParams) : Nat → Client → Nat → Out → Client × Out
  | 0, c, _, out => (c, out ++ ["FUEL"])
  | fuel + 1, c, t, out =>
    let th := getThread c t
    if h : th.pc < th.prog.size then
      let op := th.prog[th.pc]
      let out := if th.phase = 0 then out ++ [s!"B{th.pc}"] else out
      let (c, o, r) := runPhase P c t th.pc op th.phase
      let th := getThread c t
      match r with
      | .next => advance P fuel (setThread c t { th with phase := th.phase + 1 }) t (out ++ o)
      | .block => (setThread c t { th with phase := th.phase + 1 }, out ++ o)
      | .doneOp => advance P fuel (setThread c t { th with pc := th.pc + 1, phase := 0, pend := .none }) t (out ++ o)
    else
      (setThread c t { th with finished := true, pend := .none }, out ++ ["X"])

def pseudoEv (name loc : String) (rd wr : Nat) : String :=
  s!"{name} {loc} - - 0x{String.ofList (Nat.toDigits 16 rd)} 0x{String.ofList (Nat.toDigits 16 wr)} 1"

def evStr (lk : Nat) (e : Ev) : String :=
  ({ e with loc := if e.op == .fence then "-" else s!"L{lk}" } : Ev).toStr

/-- One scheduling quantum of thread `t`.  Returns the new state, the atomic event (printed form) and
    the local events; `none` when the thread has nothing to do. -/
def stepThread (P : WParams) (c : Client) (t : Nat) : Option (Client × String × Out) :=
  let th := getThread c t
  let fuel := 8 * (th.prog.size + 2)
  if th.finished then none else
  match th.pend with
  | .none => none
  | .start =>
    let (c, out) := advance P fuel (setThread c t { th with pend := .none }) t []
    some (c, pseudoEv "start" "-" 0 0, out)
  | .atom lk a =>
    match WLock.step P (lockSt c lk) (.atom a none false) with
    | some (s', some e) =>
      let c := setLockSt c lk s'
      if (agentLoc c lk a).stable then
        let (c, out) := advance P fuel (setThread c t { th with pend := .none }) t []
        some (c, evStr lk e, out)
      else some (c, evStr lk e, [])
    | _ => none
  | .rel lk a nv =>
    match WLock.step P (lockSt c lk) (.release a nv) with
    | some (s', some e) =>
      let c := setLockSt c lk s'
      let (c, out) := advance P fuel (setThread c t { th with pend := .none }) t []
      some (c, evStr lk e, out)
    | _ => none
  | .dng lk a nv =>
    match WLock.step P (lockSt c lk) (.downgrade a nv) with
    | some (s', some e) =>
      let c := setLockSt c lk s'
      let (c, out) := advance P fuel (setThread c t { th with pend := .none }) t []
      some (c, evStr lk e, out)
    | _ => none
  | .payR0 lk =>
    let v := (c.pay.getD lk (0, 0)).1
    let (c, out) := advance P fuel (setThread c t { th with pend := .none, payTmp := v }) t []
    some (c, pseudoEv "pay.r0" s!"P{lk}" v v, out)
  | .payR1 lk =>
    let v := (c.pay.getD lk (0, 0)).2
    let (c, out) := advance P fuel (setThread c t { th with pend := .none }) t []
    some (c, pseudoEv "pay.r1" s!"P{lk}" v v, out)
  | .payW0 lk val =>
    let p := c.pay.getD lk (0, 0)
    let c := { c with pay := c.pay.setIfInBounds lk (val, p.2) }
    let (c, out) := advance P fuel (setThread c t { th with pend := .none }) t []
    some (c, pseudoEv "pay.w0" s!"P{lk}" p.1 val, out)
  | .payW1 lk val =>
    let p := c.pay.getD lk (0, 0)
    let c := { c with pay := c.pay.setIfInBounds lk (p.1, val) }
    let (c, out) := advance P fuel (setThread c t { th with pend := .none }) t []
    some (c, pseudoEv "pay.w1" s!"P{lk}" p.2 val, out)

end CppUtil.WClient
