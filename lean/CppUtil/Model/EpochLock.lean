/-
  Lockstep between the thread-level interpreter (`TClient`, compared quantum by quantum with the real
  code) and the protocol model about which the interleaving theorems are proved (`EpochProto`).
  After every quantum of `TClient` the corresponding `EpochProto` actions are applied — the atomic step
  the quantum began with, then the control transitions the interpreter made in the rest of the quantum
  (start of the ID claim, entry into CreateEpochGuard, begin of the thread exit) — each must be enabled,
  and the shared memory (`ids, G, M, E, H`, the chain of list nodes) and the program counters of the acting thread must agree.
  A scenario outside the protocol model's premises (a thread with two guards at once = known finding
  F10, a stalled EnterEpoch = known finding F6, a thread that ends while holding a guard, two concurrent
  coordinators) is reported as such and
  not followed further.  No Mathlib.
-/
import CppUtil.Model.TClient
import CppUtil.Model.EpochLists

namespace CppUtil.EpochLock
open CppUtil CppUtil.TClient CppUtil.EpochProto CppUtil.EpochLists

inductive Status where
  | ok
  | outside (why : String)
  | fail (why : String)
  deriving Repr, Inhabited

structure Lock where
  st : LSt := {}
  applied : Nat := 0
  /-- the thread currently inside ForwardGlobalEpoch -/
  coord : Option Nat := none
  status : Status := .ok
  deriving Inhabited

def mkLock (P : Params) (nthreads : Nat) : Lock :=
  { st := mkL P.C P.n nthreads }

/-- the atomic step a quantum begins with -/
def actOf (t : Nat) : Pend → Option Act
  | .idStep => some (.id (.atom t))
  | .exitStep => some (.id (.atom t))
  | .hbExpired _ => some (.wstep t)
  | .hbAssign _ => some (.wstep t)
  | .enterLoad => some (.wstep t)
  | .enterStore _ => some (.wstep t)
  | .leave _ => some (.wstep t)
  | .fwdLoadG => some .fwd
  | .fwdExpired _ => some .fwd
  | .fwdLoadE _ => some .fwd
  | .fwdStoreG => some .fwd
  | .fwdStoreM => some .fwd
  | _ => none

def isFwd : Pend → Bool
  | .fwdLoadG => true
  | .fwdExpired _ => true
  | .fwdLoadE _ => true
  | .fwdStoreG => true
  | .fwdStoreM => true
  | _ => false

def showAct : Act → String
  | .id (.begin t s) => s!"id.begin {t} {s}"
  | .id (.atom t) => s!"id.atom {t}"
  | .id (.beginExit t) => s!"id.beginExit {t}"
  | .create t => s!"create {t}"
  | .wstep t => s!"wstep {t}"
  | .fwd => "fwd"

def apply (P : Params) (l : Lock) (a : Act) (outsideWhy : Option String := none) : Lock :=
  match l.status with
  | .ok =>
    match lstep P.C P.n P.expireFirst l.st a with
    | some st =>
      if st.stale then { l with st := st, status := .outside "a worker stalled between the load and the store of EnterEpoch across a scan (F6)" }
      else { l with st := st, applied := l.applied + 1 }
    | none =>
      match outsideWhy with
      | some w => { l with status := .outside w }
      | none => { l with status := .fail s!"protocol model has no step `{showAct a}`" }
  | _ => l

/-- program counters of the acting thread: what the interpreter is about to do next vs the protocol model -/
def pcAgree (c : Client) (t : Nat) (st : EpochProto.St) : Option String :=
  let th := getThread c t
  let w := wpc st t
  let bad (exp : String) : Option String := some s!"thread {t}: interpreter is at {repr th.pend}, protocol model expects {exp}"
  match th.pend with
  | .hbExpired _ => if w = .bindChk then none else bad (reprStr w)
  | .hbAssign _ => if w = .bindAsg then none else bad (reprStr w)
  | .enterLoad => if w = .entL then none else bad (reprStr w)
  | .enterStore _ => if w = .entS th.val then none else bad (reprStr w)
  | .fwdExpired i => if st.c = .scanChk th.cur i th.collected then none else bad (reprStr st.c)
  | .fwdLoadE i => if st.c = .scanLoad th.cur i th.collected then none else bad (reprStr st.c)
  | .fwdStoreG => if st.c = .storeG th.cur th.lastList then none else bad (reprStr st.c)
  | .fwdStoreM => if st.c = .storeM th.cur th.lastList then none else bad (reprStr st.c)
  | _ => none

def memAgree (c : Client) (l : LSt) : Option String :=
  let st := l.p
  if c.nodes != l.nodes then some "list-node chains differ"
  else if c.nextNode != l.nextNode then some "node counters differ"
  else if c.ids != st.ids then some "IDManager state differs"
  else if c.G != st.G then some s!"global epoch differs: {c.G} vs {st.G}"
  else if c.M != st.M then some s!"minimum epoch differs: {c.M} vs {st.M}"
  else if c.E.toList != st.E then some "entered epochs differ"
  else if c.H.toList != st.H then some "slot heartbeats differ"
  else none

/-- one quantum of thread `t`: `c` before, `c'` after -/
def sync (P : Params) (l : Lock) (c c' : Client) (t : Nat) : Lock :=
  match l.status with
  | .ok =>
    let th := getThread c t
    let th' := getThread c' t
    -- one coordinator at a time
    let l := if isFwd th.pend then
        match l.coord with
        | some t0 => if t0 != t then { l with status := .outside "two threads inside ForwardGlobalEpoch at once" } else l
        | none => { l with coord := some t }
      else l
    let l := match actOf t th.pend with
      | some a => apply P l a
      | none => l
    let l := if th.pend == .fwdStoreM then { l with coord := none } else l
    -- control transitions made during the rest of the quantum
    let l := match tloc c t, tloc c' t with
      | .fresh, .pLoad _ => apply P l (.id (.begin t th'.probeStart))
      | _, _ => l
    let l := match th'.pend with
      | .hbExpired _ => apply P l (.create t) (some "a thread creates a guard while it holds one (F10)")
      | _ => l
    let l := if !th.exiting && th'.exiting then
        apply P l (.id (.beginExit t)) (some "a thread ends while it holds a guard")
      else l
    match l.status with
    | .ok =>
      match memAgree c' l.st with
      | some m => { l with status := .fail m }
      | none =>
        match pcAgree c' t l.st.p with
        | some m => { l with status := .fail m }
        | none => l
    | _ => l
  | _ => l

end CppUtil.EpochLock
