/-
  Zipf generators (`include/dbgroup/random/zipf.hpp`, `src/random/zipf.cpp`).
  * `search`: the binary search with one-step correction of `operator()`, over an arbitrary value
    type with a Boolean strict comparison, `Int` indices as in the C++ (`end_pos` may become −1).
  * `exactTable`, `approxHead`, `harmonic`, `approxCDF`: the CDF constructions, polymorphic in the
    arithmetic (`Arith`), so that the same definitions are *executed* at `Float` (compared bit for bit
    with the implementation) and *reasoned about* over an ordered field.
  No Mathlib.
-/
import CppUtil.Core.Basic

namespace CppUtil.Zipf

/-- the `while (begin_pos < end_pos)` loop -/
def loop {α : Type} (cdf : Int → α) (lt : α → α → Bool) (u : α) (b e : Int) : Int :=
  if h : b < e then
    let pos := (b + e) / 2
    let c := cdf pos
    if lt u c then loop cdf lt u b (pos - 1)
    else if lt c u then loop cdf lt u (pos + 1) e
    else pos
  else b
termination_by (e - b).toNat
decreasing_by
  all_goals simp_wf
  all_goals omega

/-- `operator()` after the variate `u` has been drawn: returns the bin index (`result − min`) -/
def search {α : Type} (cdf : Int → α) (lt : α → α → Bool) (n : Int) (u : α) : Int :=
  let b := loop cdf lt u 0 (n - 1)
  if lt (cdf b) u then b + 1 else b

/-- the arithmetic the CDF construction uses -/
structure Arith (α : Type) where
  zero : α
  one : α
  add : α → α → α
  sub : α → α → α
  mul : α → α → α
  div : α → α → α
  ofNat : Nat → α
  /-- `pow(i, alpha)` for an integer base -/
  powNat : Nat → α
  /-- `pow(x, 1 - alpha)` for an integer base -/
  powNat' : Nat → α
  /-- `log(x)` for an integer argument -/
  logNat : Nat → α
  /-- `pow_ == 0.0` -/
  powIsZero : Bool
  /-- `2 * pow_` -/
  twoPow : α
  /-- `<` of the value type -/
  lt : α → α → Bool

/-- `std::min(1.0, x)` = `(x < 1.0) ? x : 1.0` -/
def Arith.clamp1 {α : Type} (A : Arith α) (x : α) : α := if A.lt x A.one then x else A.one

/-- `base_prob = 1 / Σ_{i=1..n} 1/pow(i, α)` accumulated left to right from 0 -/
def baseProb {α : Type} (A : Arith α) (n : Nat) : α :=
  A.div A.one ((List.range n).foldl (fun acc i => A.add acc (A.div A.one (A.powNat (i + 1)))) A.zero)

/-- entries `0 .. len−1` of the cumulative table for normaliser `base`:
    `cdf[0] = base`, `cdf[i] = cdf[i−1] + base / pow(i+1, α)` -/
def cumulStep {α : Type} (A : Arith α) (base : α) (clamp : Bool) (t : Array α) (i : Nat) : Array α :=
  t.push (if clamp then A.clamp1 (A.add (t.getD i A.zero) (A.div base (A.powNat (i + 2))))
          else A.add (t.getD i A.zero) (A.div base (A.powNat (i + 2))))

def cumul {α : Type} (A : Arith α) (base : α) (len : Nat) (clamp : Bool) : Array α :=
  (List.range (len - 1)).foldl (cumulStep A base clamp) #[base]

/-- `ZipfDistribution::UpdateCDF` for `n` bins (`n ≥ 1`) -/
def exactTable {α : Type} (A : Arith α) (n : Nat) : Array α :=
  if n ≤ 1 then #[A.one]
  else (cumul A (baseProb A n) n true).set! (n - 1) A.one

/-- `ApproxZipfDistribution::GetHarmonicNum(n)` -/
def harmonic {α : Type} (A : Arith α) (n : Nat) : α :=
  if A.powIsZero then A.mul (A.add (A.add A.one (A.logNat n)) (A.logNat (n + 1))) (A.div A.one (A.ofNat 2))
  else A.add (A.div (A.sub (A.add (A.powNat' (n + 1)) (A.powNat' n)) (A.ofNat 2)) A.twoPow) (A.div A.one (A.ofNat 2))

/-- approximate normaliser for `n > exactBins`: exact for the first `exactBins` terms, then trapezoids of
    width `skip` starting at `exactBins + 1` while `i < n + 1` -/
def approxBase {α : Type} (A : Arith α) (n exactBins skip : Nat) : α :=
  let exact := (List.range exactBins).foldl (fun acc i => A.add acc (A.div A.one (A.powNat (i + 1)))) A.zero
  let steps := if n + 1 ≤ exactBins + 1 then 0 else (n + 1 - (exactBins + 1) + skip - 1) / skip
  let total := (List.range steps).foldl (fun acc j =>
      let i := exactBins + 1 + j * skip
      let low := A.div A.one (A.powNat i)
      let high := A.div A.one (A.powNat (i + skip))
      A.add acc (A.div (A.mul (A.add low high) (A.ofNat skip)) (A.ofNat 2))) exact
  A.div A.one total

/-- the array part of `ApproxZipfDistribution` (always `exactBins` entries) -/
def approxHead {α : Type} (A : Arith α) (n exactBins skip : Nat) : Array α :=
  if n ≤ 1 then (Array.replicate exactBins A.zero).set! 0 A.one
  else if n ≤ exactBins then (cumul A (baseProb A n) exactBins true).set! (n - 1) A.one
  else cumul A (approxBase A n exactBins skip) exactBins false

/-- `ApproxZipfDistribution::GetCDF(id)` -/
def approxCDF {α : Type} (A : Arith α) (head : Array α) (denom : α) (exactBins : Nat) (id : Nat) : α :=
  if id < exactBins then head.getD id A.zero else A.div (harmonic A (id + 1)) denom

/-! ### the `double` instance (executed by the driver) -/

def floatArith (alpha : Float) : Arith Float where
  zero := 0.0
  one := 1.0
  add := (· + ·)
  sub := (· - ·)
  mul := (· * ·)
  div := (· / ·)
  ofNat := Float.ofNat
  powNat := fun i => Float.pow (Float.ofNat i) alpha
  powNat' := fun i => Float.pow (Float.ofNat i) (1.0 - alpha)
  logNat := fun i => Float.log (Float.ofNat i)
  powIsZero := (1.0 - alpha) == 0.0
  twoPow := 2.0 * (1.0 - alpha)
  lt := fun a b => a < b

end CppUtil.Zipf
