/-
  Client layer over the MCSLock model: threads running programs over SGuard / SIXGuard / XGuard
  variables (same instruction set as the pessimistic part of `WClient`).  One `stepThread` = one
  scheduling quantum.  No Mathlib.
-/
import CppUtil.Model.Mcs
import CppUtil.Model.WClient

namespace CppUtil.MClient
open CppUtil CppUtil.Mcs
open CppUtil.WClient (GKind Op PhaseRes Out pseudoEv)

structure GVal where
  /-- agent (request) whose grant this guard owns -/
  own : Option Nat := none
  deriving DecidableEq, Repr, Inhabited

inductive Pend where
  | start
  | atom (a : Nat)
  | payR0 (lk : Nat) | payR1 (lk : Nat)
  | payW0 (lk val : Nat) | payW1 (lk val : Nat)
  | none
  deriving Repr, Inhabited, DecidableEq

structure Thread where
  prog : Array Op := #[]
  pc : Nat := 0
  phase : Nat := 0
  pend : Pend := .start
  tmp : GVal := {}
  tmpGid : Option Nat := none
  ag : Nat := 0
  payTmp : Nat := 0
  finished : Bool := false
  deriving Repr, Inhabited

structure Client where
  core : Mcs.St := {}
  vars : Array GVal := #[]
  kinds : Array GKind := #[]
  ghost : Array (Option Nat) := #[]
  nextGid : Nat := 0
  threads : Array Thread := #[]
  pay : Array (Nat × Nat) := #[]
  deriving Repr, Inhabited

def mkClient (nlocks : Nat) (kinds : Array GKind) (progs : Array (Array Op)) : Client :=
  { core := Mcs.mkSt nlocks progs.size
    vars := Array.replicate kinds.size {}
    kinds := kinds
    ghost := Array.replicate kinds.size none
    threads := progs.map fun p => { prog := p }
    pay := Array.replicate nlocks (0, 0) }

def getVar (c : Client) (v : Nat) : GVal := c.vars.getD v {}
def setVar (c : Client) (v : Nat) (g : GVal) : Client := { c with vars := c.vars.setIfInBounds v g }
def getThread (c : Client) (t : Nat) : Thread := c.threads.getD t {}
def setThread (c : Client) (t : Nat) (th : Thread) : Client := { c with threads := c.threads.setIfInBounds t th }
def getGhost (c : Client) (v : Nat) : Option Nat := c.ghost.getD v none
def setGhost (c : Client) (v : Nat) (g : Option Nat) : Client := { c with ghost := c.ghost.setIfInBounds v g }
def agentLoc (c : Client) (a : Nat) : Loc := ((c.core.agents[a]?).map (·.loc)).getD .idle
def agentLk (c : Client) (a : Nat) : Nat := ((c.core.agents[a]?).map (·.lk)).getD 0

/-- release what `v` owns (destructor / move-assignment semantics): blocks when it owns -/
def releaseVar (c : Client) (t : Nat) (v : Nat) : Client × Out × PhaseRes :=
  let th := getThread c t
  match (getVar c v).own with
  | some a =>
    let out := match getGhost c v with | some g => [s!"G-{g}"] | none => []
    let c := { c with core := beginRelease c.core a t }
    (setThread c t { th with pend := .atom a }, out, .block)
  | none => (c, [], .next)

def assignTail (c : Client) (t : Nat) (dst : Nat) (rel : Nat) (k : Nat) (res : String) :
    Client × Out × PhaseRes :=
  let th := getThread c t
  if rel = 0 then releaseVar c t dst
  else
    let c := setVar c dst th.tmp
    let c := setGhost c dst th.tmpGid
    let c := setThread c t { (getThread c t) with tmp := {}, tmpGid := none }
    (c, [s!"R{k}={res}"], .doneOp)

def runPhase (c : Client) (t : Nat) (k : Nat) (op : Op) (ph : Nat) : Client × Out × PhaseRes :=
  let th := getThread c t
  match op with
  | .lock m dst lk =>
    match ph with
    | 0 =>
      let (core, a, toks) := spawnLock c.core t lk m
      let c := { c with core := core }
      (setThread c t { th with pend := .atom a, ag := a }, toks, .block)
    | 1 =>
      let gid := c.nextGid
      let c := { c with nextGid := gid + 1 }
      let c := setThread c t { th with tmp := { own := some th.ag }, tmpGid := some gid }
      (c, [s!"G+{gid}:{lk}:{m.toStr}"], .next)
    | 2 => assignTail c t dst 0 k "1"
    | _ => assignTail c t dst 1 k "1"
  | .dtor v =>
    match ph with
    | 0 => releaseVar c t v
    | _ =>
      let c := setVar c v {}
      let c := setGhost c v none
      (c, [s!"R{k}=0"], .doneOp)
  | .massign dst src =>
    match ph with
    | 0 => releaseVar c t dst
    | _ =>
      let sv := getVar c src
      let c := setVar c dst sv
      let c := setVar c src {}
      let c := setGhost c dst (getGhost c src)
      let c := setGhost c src none
      (c, [s!"R{k}=0"], .doneOp)
  | .mctor dst src =>
    match ph with
    | 0 => releaseVar c t dst
    | _ =>
      let sv := getVar c src
      let c := setVar c dst sv
      let c := setVar c src {}
      let c := setGhost c dst (getGhost c src)
      let c := setGhost c src none
      (c, [s!"R{k}=0"], .doneOp)
  | .upg dst src =>
    match ph with
    | 0 =>
      match (getVar c src).own with
      | some a =>
        let c := { c with core := beginUpgrade c.core a t }
        let g := getGhost c src
        let c := setVar c src {}
        let c := setGhost c src none
        (setThread c t { th with pend := .atom a, ag := a, tmp := { own := some a }, tmpGid := g }, [], .block)
      | none => (setThread c t { th with tmp := {}, tmpGid := none }, [], .next)
    | 1 =>
      let out := match th.tmp.own, th.tmpGid with | some _, some g => [s!"GU{g}:X"] | _, _ => []
      (c, out, .next)
    | 2 => assignTail c t dst 0 k (if th.tmp.own.isSome then "1" else "0")
    | _ => assignTail c t dst 1 k (if th.tmp.own.isSome then "1" else "0")
  | .dng dst src =>
    match ph with
    | 0 =>
      match (getVar c src).own with
      | some a =>
        let c := { c with core := beginDowngrade c.core a t }
        let g := getGhost c src
        let c := setVar c src {}
        let c := setGhost c src none
        (setThread c t { th with pend := .atom a, ag := a, tmp := { own := some a }, tmpGid := g }, [], .block)
      | none => (setThread c t { th with tmp := {}, tmpGid := none }, [], .next)
    | 1 =>
      let out := match th.tmp.own, th.tmpGid with | some _, some g => [s!"GU{g}:SIX"] | _, _ => []
      (c, out, .next)
    | 2 => assignTail c t dst 0 k (if th.tmp.own.isSome then "1" else "0")
    | _ => assignTail c t dst 1 k (if th.tmp.own.isSome then "1" else "0")
  | .bool v =>
    let b := (getVar c v).own.isSome
    let gh := (getGhost c v).isSome
    (c, [s!"R{k}={if b then 1 else 0}/{if gh then 1 else 0}"], .doneOp)
  | .payrd lk =>
    match ph with
    | 0 => (setThread c t { th with pend := .payR0 lk }, [], .block)
    | 1 => (setThread c t { th with pend := .payR1 lk }, [], .block)
    | _ => (c, [s!"R{k}={th.payTmp},{(c.pay.getD lk (0,0)).2}"], .doneOp)
  | .paywr lk val =>
    match ph with
    | 0 => (setThread c t { th with pend := .payW0 lk val }, [], .block)
    | 1 => (setThread c t { th with pend := .payW1 lk val }, [], .block)
    | _ => (c, [s!"R{k}=0"], .doneOp)
  | _ => (c, ["BADOP"], .doneOp)

def advance : Nat → Client → Nat → Out → Client × Out
  | 0, c, _, out => (c, out ++ ["FUEL"])
  | fuel + 1, c, t, out =>
    let th := getThread c t
    if h : th.pc < th.prog.size then
      let op := th.prog[th.pc]
      let out := if th.phase = 0 then out ++ [s!"B{th.pc}"] else out
      let (c, o, r) := runPhase c t th.pc op th.phase
      let th := getThread c t
      match r with
      | .next => advance fuel (setThread c t { th with phase := th.phase + 1 }) t (out ++ o)
      | .block => (setThread c t { th with phase := th.phase + 1 }, out ++ o)
      | .doneOp => advance fuel (setThread c t { th with pc := th.pc + 1, phase := 0, pend := .none }) t (out ++ o)
    else
      -- end of the program; the thread-local node cache is destroyed when the thread exits
      let (core, toks) := threadExit c.core t
      (setThread { c with core := core } t { th with finished := true, pend := .none }, out ++ ["X"] ++ toks)

def stepThread (P : Params) (c : Client) (t : Nat) : Option (Client × String × Out) :=
  let th := getThread c t
  let fuel := 8 * (th.prog.size + 2)
  if th.finished then none else
  match th.pend with
  | .none => none
  | .start =>
    let (c, out) := advance fuel (setThread c t { th with pend := .none }) t []
    some (c, pseudoEv "start" "-" 0 0, out)
  | .atom a =>
    match Mcs.atom P c.core a with
    | some (core, e, toks) =>
      let c := { c with core := core }
      if (agentLoc c a).stable then
        let (c, out) := advance fuel (setThread c t { th with pend := .none }) t []
        some (c, e.toStr, toks ++ out)
      else some (c, e.toStr, toks)
    | none => none
  | .payR0 lk =>
    let v := (c.pay.getD lk (0, 0)).1
    let (c, out) := advance fuel (setThread c t { th with pend := .none, payTmp := v }) t []
    some (c, pseudoEv "pay.r0" s!"P{lk}" v v, out)
  | .payR1 lk =>
    let v := (c.pay.getD lk (0, 0)).2
    let (c, out) := advance fuel (setThread c t { th with pend := .none }) t []
    some (c, pseudoEv "pay.r1" s!"P{lk}" v v, out)
  | .payW0 lk val =>
    let p := c.pay.getD lk (0, 0)
    let c := { c with pay := c.pay.setIfInBounds lk (val, p.2) }
    let (c, out) := advance fuel (setThread c t { th with pend := .none }) t []
    some (c, pseudoEv "pay.w0" s!"P{lk}" p.1 val, out)
  | .payW1 lk val =>
    let p := c.pay.getD lk (0, 0)
    let c := { c with pay := c.pay.setIfInBounds lk (p.1, val) }
    let (c, out) := advance fuel (setThread c t { th with pend := .none }) t []
    some (c, pseudoEv "pay.w1" s!"P{lk}" p.2 val, out)

end CppUtil.MClient
