/-
  The epoch protocol (`Model/EpochProto.lean`) together with the linked list of 256-epoch nodes:
  the coordinator allocates a node at the start of a forward when the next epoch begins a new range
  (`maybeNewNode`), and at the end of the scan writes the sorted vector and runs the pruning walk
  (`publish`), both with the functions of `Model/Epoch.lean` that the thread-level model executes.
  ghosts          `pub e`  = the vector published for epoch `e`;
                  `stale`  = some worker sat between the load and the store of `EnterEpoch` with an epoch
                             older than the coordinator's `cur` at the moment the scan read its slot — the
                             premise whose failure is known finding F6.
  The model is defined while the global epoch is below `SIZE_MAX`.  No Mathlib.
-/
import CppUtil.Model.EpochProto

namespace CppUtil.EpochLists
open CppUtil CppUtil.Epoch CppUtil.EpochProto

structure LSt where
  p : EpochProto.St := {}
  nodes : List PNode := []
  nextNode : Nat := 1
  pub : Nat → List Nat := fun _ => []
  stale : Bool := false
  deriving Inhabited

def mkL (C : Consts) (n nthreads : Nat) : LSt :=
  { p := EpochProto.mkSt C.kInitialEpoch n nthreads, nodes := initNodes C, pub := fun _ => [C.kInitialEpoch] }

/-- the worker of slot `i` has loaded an epoch older than `cur` and not stored it yet -/
def staleAt (s : EpochProto.St) (i cur : Nat) : Bool :=
  (List.range s.w.length).any fun t =>
    ownId s t == some i && (match wpc s t with
      | .entS v => decide (v < cur)
      | _ => false)

/-- `publish` on an already sorted vector -/
def publishSorted (C : Consts) (nodes : List PNode) (next : Nat) (v : List Nat) : Option (List PNode × List Nat) :=
  match findNode C next nodes with
  | none => none
  | some _ => removeOutdated C (setList C next v nodes) v

/-- the state after the vector `list` of epoch `next` has been written and the chain pruned to `chain` -/
def withPub (s : LSt) (p' : EpochProto.St) (chain : List PNode) (next : Nat) (list : List Nat) (st : Bool) : LSt :=
  { s with p := p', nodes := chain, pub := fun e => if e = next then list else s.pub e, stale := st }

/-- the coordinator has read a slot (or skipped it): if that was the last one, write the sorted vector and prune -/
def finishScan (C : Consts) (s : LSt) (p' : EpochProto.St) (st : Bool) : Option LSt :=
  match p'.c with
  | .storeG cur list =>
    match publishSorted C s.nodes (cur + 1) list with
    | some (chain, _) => some (withPub s p' chain (cur + 1) list st)
    | none => none
  | _ => some { s with p := p', stale := st }

def lstep (C : Consts) (n : Nat) (ef : Bool) (s : LSt) (a : Act) : Option LSt :=
  match EpochProto.step n ef s.p a with
  | none => none
  | some p' =>
    if p'.G ≥ sizeMax then none else
    match a with
    | .fwd =>
      match s.p.c with
      | .idle =>
        let r := maybeNewNode C s.nodes (s.p.G + 1) s.nextNode
        some { s with p := p', nodes := r.1, nextNode := if r.2 then s.nextNode + 1 else s.nextNode }
      | .scanChk _ _ _ => finishScan C s p' s.stale
      | .scanLoad cur i _ => finishScan C s p' (s.stale || staleAt s.p i cur)
      | _ => some { s with p := p' }
    | _ => some { s with p := p' }

def lrun (C : Consts) (n : Nat) (ef : Bool) (s : LSt) : List Act → Option LSt
  | [] => some s
  | a :: as =>
    match lstep C n ef s a with
    | some s' => lrun C n ef s' as
    | none => none

end CppUtil.EpochLists
