/-
  Well-formedness of client programs (`Model/WClient.lean`): what the C++ type system and the
  rule "a guard object is used by one thread" guarantee for real client code.  The premise of the
  guard-algebra theorems (`Proofs/WClientInv.lean`); the driver evaluates `wfB` on every replayed
  scenario, so the evidence says how many explored scenarios meet the premise.
  No Mathlib.
-/
import CppUtil.Model.WClient

namespace CppUtil.WClient
open CppUtil CppUtil.WLock

/-- the grant mode a guard class stands for (`CompositeGuard` owns a shared grant; an `OptGuard` never owns) -/
def GKind.gmode : GKind → Mode
  | .S => .S | .SIX => .SIX | .X => .X | .Opt => .S | .Comp => .S

def kindOfMode : Mode → GKind
  | .S => .S | .SIX => .SIX | .X => .X

/-- guard variables an instruction mentions -/
def Op.vars : Op → List Nat
  | .lock _ d _ => [d]
  | .dtor v => [v]
  | .massign d s => [d, s]
  | .mctor d s => [d, s]
  | .upg d s => [d, s]
  | .dng d s => [d, s]
  | .bool v => [v]
  | .getver d _ => [d]
  | .verify v => [v]
  | .tryLock _ d s => [d, s]
  | .prep d _ => [d]
  | .cverify v => [v]
  | .setver v _ => [v]
  | .xver v => [v]
  | .gver v => [v]
  | .payrd _ => []
  | .paywr _ _ => []

/-- lock objects an instruction names -/
def Op.locks : Op → List Nat
  | .lock _ _ l => [l]
  | .getver _ l => [l]
  | .prep _ l => [l]
  | _ => []

/-- the C++ types of the guard variables fit the member function that is called -/
def Op.typed (kinds : Array GKind) : Op → Bool
  | .lock m d _ => kinds[d]? == some (kindOfMode m)
  | .dtor v => (kinds[v]?).isSome
  | .massign d s => (kinds[d]?).isSome && kinds[d]? == kinds[s]?
  | .mctor d s => (kinds[d]?).isSome && kinds[d]? == kinds[s]?
  | .upg d s => kinds[d]? == some .X && kinds[s]? == some .SIX
  | .dng d s => kinds[d]? == some .SIX && kinds[s]? == some .X
  | .bool v => (kinds[v]?).isSome
  | .getver d _ => kinds[d]? == some .Opt
  | .verify v => kinds[v]? == some .Opt
  | .tryLock m d s => kinds[d]? == some (kindOfMode m) && kinds[s]? == some .Opt
  | .prep d _ => kinds[d]? == some .Comp
  | .cverify v => kinds[v]? == some .Comp
  | .setver v _ => kinds[v]? == some .X
  | .xver v => kinds[v]? == some .X
  | .gver v => kinds[v]? == some .Opt || kinds[v]? == some .Comp
  | .payrd _ => true
  | .paywr _ _ => true

/-- the first thread whose program mentions guard variable `v` -/
def ownerOf (progs : List (List Op)) (v : Nat) : Option Nat :=
  progs.findIdx? fun p => p.any fun op => op.vars.contains v

/-- the programs of all threads, as lists -/
def progsOf (c : Client) : List (List Op) := c.threads.toList.map fun th => th.prog.toList

/-- executable well-formedness: every instruction is well typed, names existing variables and locks, and every
    guard variable is mentioned by one thread only -/
def wfB (c : Client) : Bool :=
  c.kinds.size == c.vars.size && decide (0 < c.locks.size) &&
  (List.range c.threads.size).all fun t =>
    ((progsOf c).getD t []).all fun op =>
      op.typed c.kinds && op.vars.all (fun v => decide (v < c.vars.size) && ownerOf (progsOf c) v == some t) &&
      op.locks.all (fun lk => decide (lk < c.locks.size))

end CppUtil.WClient
